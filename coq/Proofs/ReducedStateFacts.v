(* Proofs/ReducedStateFacts.v -- the partial trace of a stabilizer state over the complement of a region A is the
   stabilizer state (on |A| qubits) of the subgroup supported inside A; its log2-rank is entropy_ref = entropy. *)
From Coq Require Import ZArith List Bool Lia ZifyBool Arith Permutation.
From Coq Require Import QArith Qcanon.
From PC Require Import Gen.Kernels Model.Base Model.Pauli Model.Ket Model.Z2 Model.CMap Model.Tableau Model.Entropy Model.Circuit Model.Spec
  Model.Poly Model.PolySem Model.Sample
  Proofs.PauliFacts Proofs.Transform Proofs.TableauInv Proofs.Z2Facts Proofs.RankFacts Proofs.MaskFacts Proofs.MeasureFacts Proofs.ReachFacts
  Proofs.SampleFacts Proofs.PolyFacts Proofs.ProjectionFacts Proofs.TraceFacts Proofs.PositiveFacts Proofs.LinAlgFacts Proofs.PureEntropyFacts.
Import ListNotations.
Open Scope Z_scope.

(* ------------------------------------------------------------------ definitions (names fixed) *)
Definition merge_ket (m : list bool) (ka kb : ket) : ket :=
  scatter m (scatter (map negb m) (repeat false (length m)) kb) ka.       (* ket on all qubits from its A part and its B part *)
Definition ptrace_amp (m : list bool) (p : poly) (ka ka' : ket) : coef :=
  csum (map (fun kb => amp p (merge_ket m ka kb) (merge_ket m ka' kb)) (all_kets (length m - count_true m))).   (* <ka'| Tr_B p |ka> *)
Definition supported_in (m : list bool) (g : pstr) : bool := negb (any_site (gather (map negb m) g)).           (* trivial on the complement *)
Definition restrict_pauli (m : list bool) (a : pauli) : pauli := (gather m (fst a), snd a).

Local Open Scope nat_scope.

(* ------------------------------------------------------------------ merge_ket, site by site *)
Lemma merge_ket_nil : forall ka kb, merge_ket [] ka kb = [].
Proof. reflexivity. Qed.
Lemma merge_ket_true : forall m a ka kb, merge_ket (true :: m) (a :: ka) kb = a :: merge_ket m ka kb.
Proof. reflexivity. Qed.
Lemma merge_ket_false : forall m ka b kb, merge_ket (false :: m) ka (b :: kb) = b :: merge_ket m ka kb.
Proof. reflexivity. Qed.

Lemma ct_cons : forall b m, count_true (b :: m) = (if b then 1 else 0) + count_true m.
Proof. intros [|] m; reflexivity. Qed.

Lemma ct_le : forall m, count_true m <= length m.
Proof. induction m as [|b m IH]; [apply le_n|]. rewrite ct_cons. cbn [length]. destruct b; lia. Qed.

Lemma ct_negb : forall m, count_true (map negb m) = length m - count_true m.
Proof.
  induction m as [|b m IH]; [reflexivity|]. cbn [map length]. rewrite !ct_cons, IH. pose proof (ct_le m).
  destruct b; cbn [negb]; lia.
Qed.

(* ------------------------------------------------------------------ the matrix element of a string factorises over the two parts *)
Definition base1 (s : site) (b b' : bool) : coef :=
  if Bool.eqb (snd (act_site s b)) b' then cipow (fst (act_site s b)) c1 else c0.

Lemma cipow_c1_add : forall e e', cipow (e + e') c1 = cmul (cipow e c1) (cipow e' c1).
Proof. intros e e'. rewrite <- cipow_cmul, cmul_1_l, cipow_add. reflexivity. Qed.

Lemma base_cons : forall s g b k b' k', base (s :: g) (b :: k) (b' :: k') = cmul (base1 s b b') (base g k k').
Proof.
  intros. unfold base, base1. rewrite act_str_cons. cbn [fst snd ket_eqb].
  destruct (Bool.eqb (snd (act_site s b)) b'); cbn [andb]; [|rewrite cmul_0_l; reflexivity].
  destruct (ket_eqb (snd (act_str g k)) k'); [|rewrite cmul_0_r; reflexivity].
  apply cipow_c1_add.
Qed.

Lemma base_nil : base [] [] [] = c1.
Proof. reflexivity. Qed.

Lemma base_merge : forall m g ka ka' kb kb', length g = length m ->
  length ka = count_true m -> length ka' = count_true m ->
  length kb = count_true (map negb m) -> length kb' = count_true (map negb m) ->
  base g (merge_ket m ka kb) (merge_ket m ka' kb')
  = cmul (base (gather m g) ka ka') (base (gather (map negb m) g) kb kb').
Proof.
  induction m as [|b m IH]; intros [|s g] ka ka' kb kb' Hg Ha Ha' Hb Hb'; try discriminate Hg.
  - destruct ka, ka', kb, kb'; try discriminate. cbn [gather map]. rewrite !merge_ket_nil, base_nil, cmul_1_l. reflexivity.
  - cbn [length] in Hg. cbn [map] in Hb, Hb'. rewrite ct_cons in Ha, Ha', Hb, Hb'. destruct b; cbn [negb] in Hb, Hb'.
    + destruct ka as [|a ka]; [discriminate Ha|]. destruct ka' as [|a' ka']; [discriminate Ha'|].
      cbn [length] in Ha, Ha'. rewrite !merge_ket_true. cbn [map negb gather]. rewrite !base_cons.
      rewrite (IH g ka ka' kb kb') by lia. rewrite cmul_assoc. reflexivity.
    + destruct kb as [|c kb]; [discriminate Hb|]. destruct kb' as [|c' kb']; [discriminate Hb'|].
      cbn [length] in Hb, Hb'. rewrite !merge_ket_false. cbn [map negb gather]. rewrite !base_cons.
      rewrite (IH g ka ka' kb kb') by lia.
      rewrite <- !cmul_assoc. f_equal. apply cmul_comm.
Qed.

Lemma base_diag_tsummand : forall g k, base g k k = tsummand g c1 k.
Proof. reflexivity. Qed.

Lemma is_id_any_site : forall g, negb (any_site g) = is_id_str g.
Proof.
  unfold any_site, is_id_str. induction g as [|s g IH]; [reflexivity|].
  cbn [existsb forallb]. rewrite negb_orb, IH. reflexivity.
Qed.

Lemma supported_is_id : forall m g, supported_in m g = is_id_str (gather (map negb m) g).
Proof. intros. apply is_id_any_site. Qed.

(* ------------------------------------------------------------------ partial trace of one Pauli operator *)
(* Deviation from the brief: the hypothesis [length ka' = count_true m] is added.  Without it the statement is false:
   scatter pads a short ka' with the zeros of the base ket, so merge_ket m [] kb = merge_ket m [false] kb, while
   amp on |A| qubits never matches a ket of the wrong length (n=1, m=[true], a=I, ka=[false], ka'=[] gives c vs 0). *)
Theorem ptrace_pauli : forall n m c a ka ka', length m = n -> length (fst a) = n -> length ka = count_true m ->
   length ka' = count_true m ->
   ptrace_amp m [(c, a)] ka ka' = if supported_in m (fst a) then cmul (two_pow (n - count_true m)) (amp [(c, restrict_pauli m a)] ka ka') else c0.
Proof.
  intros n m c [g p] ka ka' Hm Hg Ha Ha'. cbn [fst snd] in *. unfold ptrace_amp, restrict_pauli. cbn [fst snd].
  set (gB := gather (map negb m) g). set (gA := gather m g).
  assert (LB : length gB = length m - count_true m).
  { unfold gB. rewrite MaskFacts.gather_length by (rewrite map_length; lia). apply ct_negb. }
  transitivity (csum (map (fun kb => cmul (cmul (cipow p c) (base gA ka ka')) (tsummand gB c1 kb)) (all_kets (length m - count_true m)))).
  - apply csum_map_ext. intros kb Hkb. apply all_kets_In in Hkb.
    unfold amp. cbn [map]. rewrite csum_cons, csum_nil, cadd_0_r, amp_term_base.
    rewrite base_merge by (rewrite ?ct_negb; lia). fold gA gB. rewrite base_diag_tsummand. symmetry. apply cmul_assoc.
  - rewrite csum_map_cmul. rewrite <- LB. change (csum (map (tsummand gB c1) (all_kets (length gB)))) with (tsum gB c1).
    rewrite tsum_spec, supported_is_id. fold gB. destruct (is_id_str gB); [|apply cmul_0_r].
    rewrite cmul_1_l, LB, Hm. unfold amp. cbn [map]. rewrite csum_cons, csum_nil, cadd_0_r, amp_term_base. apply cmul_comm.
Qed.

(* ------------------------------------------------------------------ restriction is a homomorphism on operators supported in the region *)
Lemma sum2_split : forall (f : site -> site -> Z) m g h, length g = length m -> length h = length m ->
  (sum2 f g h = sum2 f (gather m g) (gather m h) + sum2 f (gather (map negb m) g) (gather (map negb m) h))%Z.
Proof.
  intros f. induction m as [|b m IH]; intros [|s g] [|u h] Hg Hh; try discriminate Hg; try discriminate Hh; [reflexivity|].
  cbn [length] in Hg, Hh. cbn [map]. destruct b; cbn [negb gather sum2]; rewrite (IH g h) by lia; lia.
Qed.

Lemma supported_compl_id : forall m g, length g = length m -> supported_in m g = true ->
  gather (map negb m) g = id_str (length m - count_true m).
Proof.
  intros m g Hg H. rewrite supported_is_id in H. apply is_id_str_eq in H. rewrite H.
  rewrite MaskFacts.gather_length by (rewrite map_length; exact Hg). rewrite ct_negb. reflexivity.
Qed.

Lemma supported_of_compl_id : forall m g k, gather (map negb m) g = id_str k -> supported_in m g = true.
Proof. intros m g k H. rewrite supported_is_id, H. apply is_id_str_id. Qed.

Lemma ipow_restrict : forall m g h, length g = length m -> length h = length m -> supported_in m g = true ->
  ipow (gather m g) (gather m h) = ipow g h.
Proof.
  intros m g h Hg Hh S. unfold ipow. rewrite modulus_ipow. rewrite (sum2_split ipow_site m g h Hg Hh).
  rewrite (supported_compl_id m g Hg S).
  pose proof (sum2_ipow_id_l (length m - count_true m) (gather (map negb m) h)) as E.
  rewrite Z.add_mod, E, Z.add_0_r, Z.mod_mod by lia. reflexivity.
Qed.

Theorem restrict_pmul : forall n m a b, length m = n -> length (fst a) = n -> length (fst b) = n -> supported_in m (fst a) = true -> supported_in m (fst b) = true ->
   restrict_pauli m (pmul a b) = pmul (restrict_pauli m a) (restrict_pauli m b).
Proof.
  intros n m [ga pa] [gb pb] Hm Ha Hb Sa Sb. cbn [fst snd] in *. unfold restrict_pauli, pmul. cbn [fst snd].
  rewrite gather_gxor by lia. rewrite (ipow_restrict m ga gb) by (try exact Sa; lia). reflexivity.
Qed.

Lemma supported_gxor : forall m g h, length g = length m -> length h = length m ->
  supported_in m g = true -> supported_in m h = true -> supported_in m (gxor g h) = true.
Proof.
  intros m g h Hg Hh Sg Sh. apply (supported_of_compl_id m _ (length m - count_true m)).
  rewrite gather_gxor by lia. rewrite (supported_compl_id m g Hg Sg), (supported_compl_id m h Hh Sh).
  rewrite gxor_self. f_equal. apply repeat_length.
Qed.

Lemma supported_id : forall m, supported_in m (id_str (length m)) = true.
Proof.
  intros m. apply (supported_of_compl_id m _ (count_true (map negb m))).
  rewrite <- (map_length negb m). apply gather_id.
Qed.

Lemma restrict_pid : forall m, restrict_pauli m (pid (length m)) = pid (count_true m).
Proof. intros m. unfold restrict_pauli, pid. cbn [fst snd]. rewrite gather_id. reflexivity. Qed.

(* two strings supported in the region with the same restriction are equal *)
Lemma gather_both_eq : forall A (m : list bool) (g h : list A), length g = length m -> length h = length m ->
  gather m g = gather m h -> gather (map negb m) g = gather (map negb m) h -> g = h.
Proof.
  intros A. induction m as [|b m IH]; intros [|s g] [|u h] Hg Hh E1 E2; try discriminate Hg; try discriminate Hh; [reflexivity|].
  cbn [length] in Hg, Hh. cbn [map] in E2. destruct b; cbn [negb gather] in E1, E2.
  - injection E1 as -> E1. f_equal. apply IH; auto; lia.
  - injection E2 as -> E2. f_equal. apply IH; auto; lia.
Qed.

Lemma restrict_str_inj : forall m g h, length g = length m -> length h = length m ->
  supported_in m g = true -> supported_in m h = true -> gather m g = gather m h -> g = h.
Proof.
  intros m g h Hg Hh Sg Sh E. apply (gather_both_eq _ m); auto.
  rewrite (supported_compl_id m g Hg Sg), (supported_compl_id m h Hh Sh). reflexivity.
Qed.

(* ------------------------------------------------------------------ step (2): the partial trace is linear; Tr_B rho as a sum over the subgroup supported in A *)
Lemma amp_single : forall t k k', amp [t] k k' = amp_term t k k'.
Proof. intros. unfold amp. cbn [map]. rewrite csum_cons, csum_nil. apply cadd_0_r. Qed.

Lemma ptrace_amp_terms : forall m p ka ka', ptrace_amp m p ka ka' = csum (map (fun t => ptrace_amp m [t] ka ka') p).
Proof.
  intros m p ka ka'. unfold ptrace_amp.
  transitivity (csum (map (fun t : term => csum (map (fun kb => amp_term t (merge_ket m ka kb) (merge_ket m ka' kb))
                                                  (all_kets (length m - count_true m)))) p)).
  - unfold amp. symmetry.
    exact (csum_swap (fun kb (t : term) => amp_term t (merge_ket m ka kb) (merge_ket m ka' kb)) (all_kets (length m - count_true m)) p).
  - apply csum_map_ext. intros t _. apply csum_map_ext. intros kb _. symmetry. apply amp_single.
Qed.

Lemma csum_filter : forall {A} (P : A -> bool) (g : A -> coef) l,
  csum (map (fun a => if P a then g a else c0) l) = csum (map g (filter P l)).
Proof.
  intros A P g. induction l as [|a l IH]; [reflexivity|]. cbn [map filter]. rewrite csum_cons, IH.
  destruct (P a); [cbn [map]; rewrite csum_cons; reflexivity | apply cadd_0_l].
Qed.

Definition supp_terms (m : list bool) (t : tableau) : plist :=
  map (restrict_pauli m) (filter (fun a : pauli => supported_in m (fst a)) (density_terms t)).

Theorem ptrace_density : forall n t m ka ka', tableau_ok n t -> length m = n ->
  length ka = count_true m -> length ka' = count_true m ->
  ptrace_amp m (density_poly t) ka ka' = csum (map (fun a : pauli => amp_term (half_pow (count_true m), a) ka ka') (supp_terms m t)).
Proof.
  intros n t m ka ka' Hok Hm Ha Ha'. rewrite ptrace_amp_terms. unfold density_poly, supp_terms. rewrite !map_map.
  rewrite (ok_tN n t Hok). rewrite <- (csum_filter (fun a : pauli => supported_in m (fst a))).
  apply csum_map_ext. intros a Hin.
  pose proof (proj2 (rho_terms_hermitian n t a Hok Hin)) as La.
  rewrite (ptrace_pauli n m _ a ka ka' Hm La Ha Ha'). cbv beta.
  match goal with |- (if ?b then _ else _) = (if ?b' then _ else _) => change b' with b; destruct b end; [|reflexivity].
  rewrite amp_single. rewrite <- amp_term_cmul. f_equal. f_equal. apply half_pow_rank. rewrite <- Hm. apply ct_le.
Qed.

(* ------------------------------------------------------------------ step (3a): strings of group elements = GF(2) span of the generators' flat vectors *)
Definition fvec (a : pauli) : list bool := flat (fst a).

Lemma flat_gxor : forall a b, flat (gxor a b) = vadd (flat a) (flat b).
Proof.
  unfold vadd. induction a as [|[x z] a IH]; intros [|[x' z'] b]; try reflexivity.
  cbn [gxor]. rewrite xor_site_spec. cbn [fst snd flat map2]. rewrite IH. reflexivity.
Qed.

Lemma flat_id_str : forall k, flat (id_str k) = vzero (2 * k).
Proof.
  induction k as [|k IH]; [reflexivity|]. rewrite id_str_S, vzero_2S. unfold I_site. cbn [flat]. rewrite IH. reflexivity.
Qed.

Lemma flat_vzero_id : forall g k, flat g = vzero k -> g = id_str (length g).
Proof.
  induction g as [|[x z] g IH]; intros k H; [reflexivity|].
  cbn [flat] in H. destruct k as [|[|k]]; try discriminate H. unfold vzero in H. cbn [repeat] in H.
  injection H as -> -> H. cbn [length]. rewrite id_str_S. f_equal. exact (IH k H).
Qed.

Lemma flat_rprod : forall n sel rs, Forall (Spec.wf n) rs ->
  fvec (rprod n sel rs) = lincomb (2 * n) sel (map fvec rs).
Proof.
  intros n sel. induction sel as [|b sel IH]; intros [|r rs] HW; unfold fvec in *; cbn [rprod map lincomb pid fst];
    try apply flat_id_str.
  inversion_clear HW as [|? ? Wr HW']. destruct b; [|apply IH; exact HW'].
  rewrite pmul_fst, flat_gxor, IH by exact HW'. reflexivity.
Qed.

Lemma fvec_rect : forall n rs, Forall (Spec.wf n) rs -> rect (2 * n) (map fvec rs).
Proof.
  intros n rs HW. apply Forall_forall. intros v Hv. apply in_map_iff in Hv. destruct Hv as [r [<- Hr]].
  rewrite Forall_forall in HW. destruct (HW r Hr) as [L _]. unfold fvec. rewrite flat_length, L. reflexivity.
Qed.

Lemma gens_indep : forall n t, tableau_ok n t -> independent (2 * n) (map fvec (active t)).
Proof.
  intros n t Hok sel HL Hz. rewrite map_length, (active_length n t Hok) in *.
  apply (rprod_independent n t sel Hok HL).
  rewrite <- (flat_rprod n sel _ (active_wf n t Hok)) in Hz. unfold fvec in Hz.
  rewrite <- flat_id_str in Hz. apply flat_inj. exact Hz.
Qed.

Lemma group_in_span : forall n t a, tableau_ok n t -> in_group n t a -> in_span (2 * n) (map fvec (active t)) (fvec a).
Proof.
  intros n t a Hok Ha. apply (in_group_rprod n t a Hok) in Ha. destruct Ha as [sel [HL E]].
  exists sel. split; [rewrite map_length, (active_length n t Hok); exact HL|].
  rewrite <- E. symmetry. apply flat_rprod. apply active_wf; exact Hok.
Qed.

Lemma span_in_group : forall n t v, tableau_ok n t -> in_span (2 * n) (map fvec (active t)) v ->
  exists a, in_group n t a /\ fvec a = v.
Proof.
  intros n t v Hok [sel [HL E]]. rewrite map_length, (active_length n t Hok) in HL.
  exists (rprod n sel (active t)). split.
  - apply (in_group_rprod n t _ Hok). exists sel. split; [exact HL | reflexivity].
  - rewrite flat_rprod by (apply active_wf; exact Hok). exact E.
Qed.

Lemma group_commute : forall n t a b, tableau_ok n t -> in_group n t a -> in_group n t b -> acqb (fst a) (fst b) = false.
Proof.
  intros n t a b Hok Ha Hb. pose proof Hok as [_ [Hr _]].
  apply (in_group_rprod n t a Hok) in Ha. destruct Ha as [sel [HL E]]. rewrite <- E.
  rewrite (acqb_rprod_sel n _ sel _ (active_wf n t Hok)). apply acqsel_none. intros r Hin.
  destruct (active_In n t r Hok Hin) as [j [Hj Er]]. rewrite Er.
  pose proof (group_commutes_with_rows n t b (rk t + j) Hok Hb ltac:(lia)) as C.
  rewrite acq_acqb in C. unfold row in C. unfold prow.
  destruct (acqb (fst (nth (rk t + j) (rows t) (pid 0))) (fst b)); [discriminate C | reflexivity].
Qed.

Lemma fvec_restrict : forall m a, fvec (restrict_pauli m a) = res m (fvec a).
Proof. intros m a. unfold fvec, restrict_pauli. cbn [fst]. apply res_flat. Qed.

Lemma supported_res : forall m g, length g = length m ->
  (supported_in m g = true <-> res (map negb m) (flat g) = vzero (2 * count_true (map negb m))).
Proof.
  intros m g Hg. rewrite <- res_flat. split.
  - intros S. rewrite (supported_compl_id m g Hg S), ct_negb. apply flat_id_str.
  - intros E. apply flat_vzero_id in E. exact (supported_of_compl_id m g _ E).
Qed.

Lemma acqb_restrict : forall m g h, length g = length m -> length h = length m -> supported_in m g = true ->
  acqb (gather m g) (gather m h) = acqb g h.
Proof.
  intros m g h Hg Hh S. rewrite !sf_flat, !res_flat.
  rewrite (sf_split m (flat g) (flat h)) by (rewrite flat_length; lia).
  rewrite (proj1 (supported_res m g Hg) S), sf_zero_l, xorb_false_r. reflexivity.
Qed.

(* an independent isotropic family in dimension 2k has at most k members *)
Lemma isotropic_indep_le : forall k W, rect (2 * k) W -> independent (2 * k) W -> isotropic W -> length W <= k.
Proof.
  intros k W HW HI Hiso.
  destruct (sf_perp_dim k W HW) as [d [[K [RK [IK [LK SK]]]] E]].
  rewrite (independent_rank (2 * k) W HW HI) in E.
  assert (length W <= length K); [|lia].
  apply (indep_le_span (2 * k)); auto. intros v Hv. apply SK. split; [apply (rect_In _ W); auto|].
  intros w Hw. apply Hiso; auto.
Qed.

(* ordered products of operators supported in the region restrict factor by factor *)
Lemma rprod_restrict_gen : forall n m rs, length m = n -> Forall (Spec.wf n) rs ->
  (forall b, In b rs -> supported_in m (fst b) = true) ->
  forall sel, supported_in m (fst (rprod n sel rs)) = true /\
              rprod (count_true m) sel (map (restrict_pauli m) rs) = restrict_pauli m (rprod n sel rs).
Proof.
  intros n m rs Hm. subst n. induction rs as [|r rs IH]; intros HW HS sel.
  - destruct sel; cbn [rprod map]; (split; [apply supported_id | symmetry; apply restrict_pid]).
  - inversion_clear HW as [|? ? Wr HW']. destruct sel as [|b sel]; cbn [rprod map].
    + split; [apply supported_id | symmetry; apply restrict_pid].
    + assert (HS' : forall b, In b rs -> supported_in m (fst b) = true) by (intros x Hx; apply HS; right; exact Hx).
      destruct (IH HW' HS' sel) as [S E].
      pose proof (wf_rprod (length m) sel rs HW') as [Lp _]. destruct Wr as [Lr _].
      pose proof (HS r (or_introl eq_refl)) as Sr.
      destruct b; [|split; assumption]. split.
      * rewrite pmul_fst. apply supported_gxor; assumption.
      * rewrite E. symmetry. apply (restrict_pmul (length m)); auto.
Qed.

(* ------------------------------------------------------------------ step (3b)-(5) for an abstract basis Bs of the subgroup supported in A *)
Section Reduced.
Variables (n : nat) (t : tableau) (m : list bool) (Bs : plist).
Hypothesis Hok : tableau_ok n t.
Hypothesis Hm : length m = n.
Hypothesis HBg : forall b, In b Bs -> in_group n t b.
Hypothesis HBs : forall b, In b Bs -> supported_in m (fst b) = true.
Hypothesis HBi : independent (2 * n) (map fvec Bs).
Hypothesis HBc : forall b, in_group n t b -> supported_in m (fst b) = true -> in_span (2 * n) (map fvec Bs) (fvec b).

Local Notation na := (count_true m).
Local Notation stabsA := (map (restrict_pauli m) Bs).

Lemma Bs_wf : Forall (Spec.wf n) Bs.
Proof. apply Forall_forall. intros b Hb. exact (proj1 (group_hermitian n t b Hok (HBg b Hb))). Qed.

Lemma stabsA_hp : Forall (fun a : pauli => length (fst a) = na /\ hermP a) stabsA.
Proof.
  apply Forall_forall. intros a Ha. apply in_map_iff in Ha. destruct Ha as [b [<- Hb]].
  destruct (group_hermitian n t b Hok (HBg b Hb)) as [[L _] H]. unfold restrict_pauli. cbn [fst snd]. split.
  - apply MaskFacts.gather_length. lia.
  - exact H.
Qed.

Lemma stabsA_wf : Forall (Spec.wf na) stabsA.
Proof. apply stabs_wf. exact stabsA_hp. Qed.

Lemma stabsA_comm : forall a b, In a stabsA -> In b stabsA -> acqb (fst a) (fst b) = false.
Proof.
  intros a b Ha Hb. apply in_map_iff in Ha. destruct Ha as [x [<- Hx]]. apply in_map_iff in Hb. destruct Hb as [y [<- Hy]].
  destruct (group_hermitian n t x Hok (HBg x Hx)) as [[Lx _] _]. destruct (group_hermitian n t y Hok (HBg y Hy)) as [[Ly _] _].
  unfold restrict_pauli. cbn [fst]. rewrite acqb_restrict; [| lia | lia | apply HBs; exact Hx].
  apply (group_commute n t x y Hok); [apply HBg; exact Hx | apply HBg; exact Hy].
Qed.

Lemma stabsA_fvec : map fvec stabsA = map (res m) (map fvec Bs).
Proof. rewrite !map_map. apply map_ext. intros b. apply fvec_restrict. Qed.

Lemma sel_Bs_kernel : forall sel, res (map negb m) (lincomb (2 * n) sel (map fvec Bs)) = vzero (2 * count_true (map negb m)).
Proof.
  intros sel. rewrite <- (flat_rprod n sel Bs Bs_wf).
  destruct (rprod_restrict_gen n m Bs Hm Bs_wf HBs sel) as [S _].
  pose proof (wf_rprod n sel Bs Bs_wf) as [L _].
  apply (supported_res m); [lia | exact S].
Qed.

Lemma stabsA_lin_indep : independent (2 * na) (map fvec stabsA).
Proof.
  intros sel HL Hz. rewrite stabsA_fvec in Hz. rewrite !map_length in *.
  assert (Lin : linear (2 * n) (2 * na) (res m)) by (rewrite <- Hm; apply res_linear).
  pose proof (fvec_rect n Bs Bs_wf) as HR.
  rewrite <- (lincomb_map (2 * n) (2 * na) (res m) _ sel Lin HR) in Hz.
  rewrite <- (map_length fvec Bs). apply HBi; [rewrite map_length; exact HL|].
  replace (vzero (2 * n)) with (vzero (2 * length m)) by (rewrite Hm; reflexivity). apply (res_both_zero m).
  - rewrite Hm. apply lincomb_length. exact HR.
  - exact Hz.
  - apply sel_Bs_kernel.
Qed.

Lemma stabsA_indep_cr : forall sel, length sel = length stabsA -> fst (combine_row na sel stabsA) = id_str na ->
  sel = repeat false (length stabsA).
Proof.
  intros sel HL E. rewrite (combine_row_rprod na sel _ stabsA_wf) in E.
  rewrite <- (map_length fvec stabsA). apply stabsA_lin_indep; [rewrite map_length; exact HL|].
  rewrite <- (flat_rprod na sel _ stabsA_wf). unfold fvec. rewrite E. apply flat_id_str.
Qed.

Lemma stabsA_len : length stabsA <= na.
Proof.
  rewrite <- (map_length fvec stabsA). apply isotropic_indep_le.
  - apply fvec_rect. exact stabsA_wf.
  - exact stabsA_lin_indep.
  - intros u v Hu Hv. apply in_map_iff in Hu. destruct Hu as [a [<- Ha]]. apply in_map_iff in Hv. destruct Hv as [b [<- Hb]].
    unfold fvec. rewrite <- sf_flat. apply stabsA_comm; assumption.
Qed.

Lemma stabsA_all_commute : all_commute (map fst stabsA) = true.
Proof.
  unfold all_commute. apply forallb_forall. intros a Ha. apply forallb_forall. intros b Hb.
  apply in_map_iff in Ha. destruct Ha as [x [<- Hx]]. apply in_map_iff in Hb. destruct Hb as [y [<- Hy]].
  rewrite acq_acqb, (stabsA_comm x y Hx Hy). reflexivity.
Qed.

Lemma reduced_tableau_exists : exists tA, stabilizer_state na stabsA = Some tA.
Proof. unfold stabilizer_state. rewrite stabsA_all_commute. eexists. reflexivity. Qed.

Variable tA : tableau.
Hypothesis HtA : stabilizer_state na stabsA = Some tA.

Lemma tA_ok : tableau_ok na tA.
Proof. exact (stabilizer_state_ok na stabsA tA stabsA_hp HtA). Qed.

Lemma tA_rk : rk tA = na - length Bs.
Proof.
  destruct (stabilizer_state_rows na stabsA tA stabsA_hp stabsA_len HtA stabsA_indep_cr) as [R _].
  rewrite R, map_length. reflexivity.
Qed.

Lemma tA_active : active tA = stabsA.
Proof.
  destruct (stabilizer_state_rows na stabsA tA stabsA_hp stabsA_len HtA stabsA_indep_cr) as [R E].
  unfold active. rewrite (ok_tN na tA tA_ok).
  transitivity (firstn (length stabsA) (skipn (rk tA) (rows tA))); [|exact E].
  f_equal. pose proof stabsA_len as LL. rewrite map_length in R, LL |- *. lia.
Qed.

Lemma tA_group : forall a, in_group na tA a <-> exists b, in_group n t b /\ supported_in m (fst b) = true /\ a = restrict_pauli m b.
Proof.
  intros a. rewrite (in_group_rprod na tA a tA_ok), tA_active. split.
  - intros [sel [HL E]]. destruct (rprod_restrict_gen n m Bs Hm Bs_wf HBs sel) as [S R].
    exists (rprod n sel Bs). split; [apply (rprod_in_group n t sel Bs Hok HBg)|]. split; [exact S|].
    rewrite <- E. exact R.
  - intros [b [Gb [Sb ->]]]. destruct (HBc b Gb Sb) as [sel [HL E]]. rewrite map_length in HL.
    exists sel. split.
    + rewrite tA_rk. pose proof stabsA_len as LL. rewrite map_length in LL. lia.
    + destruct (rprod_restrict_gen n m Bs Hm Bs_wf HBs sel) as [_ R]. rewrite R. f_equal.
      apply (group_same_str n t); [exact Hok | apply (rprod_in_group n t sel Bs Hok HBg) | exact Gb |].
      apply flat_inj. change (fvec (rprod n sel Bs) = fvec b). rewrite (flat_rprod n sel Bs Bs_wf). exact E.
Qed.

Lemma supp_terms_perm : Permutation (supp_terms m t) (density_terms tA).
Proof.
  apply NoDup_Permutation.
  - unfold supp_terms. apply NoDup_map_inj_on.
    + intros x y Hx Hy E. apply filter_In in Hx, Hy. destruct Hx as [Hx Sx]. destruct Hy as [Hy Sy].
      apply (density_terms_complete n t _ Hok) in Hx, Hy.
      destruct (group_hermitian n t x Hok Hx) as [[Lx _] _]. destruct (group_hermitian n t y Hok Hy) as [[Ly _] _].
      apply (group_same_str n t x y Hok Hx Hy). apply (restrict_str_inj m); try lia; auto.
      unfold restrict_pauli in E. injection E as E _. exact E.
    + apply NoDup_filter. apply (density_terms_nodup n t Hok).
  - apply (density_terms_nodup na tA tA_ok).
  - intros x. rewrite <- (density_terms_complete na tA x tA_ok), tA_group. unfold supp_terms. rewrite in_map_iff. split.
    + intros [b [E Hb]]. apply filter_In in Hb. destruct Hb as [Hb Sb]. exists b.
      split; [apply (density_terms_complete n t b Hok); exact Hb|]. split; [exact Sb | symmetry; exact E].
    + intros [b [Gb [Sb E]]]. exists b. split; [symmetry; exact E|]. apply filter_In.
      split; [apply (density_terms_complete n t b Hok); exact Gb | exact Sb].
Qed.

Lemma reduced_density : forall ka ka', length ka = na -> length ka' = na ->
  ptrace_amp m (density_poly t) ka ka' = amp (density_poly tA) ka ka'.
Proof.
  intros ka ka' Ha Ha'. rewrite (ptrace_density n t m ka ka' Hok Hm Ha Ha').
  rewrite (csum_perm _ _ (Permutation_map _ supp_terms_perm)).
  unfold amp, density_poly. rewrite map_map, (ok_tN na tA tA_ok). reflexivity.
Qed.

End Reduced.

(* ------------------------------------------------------------------ step (3): a basis of the subgroup supported in A, by rank-nullity *)
Lemma Forall2_basis_facts : forall n t (K : list (list bool)) (Bs : plist),
  Forall2 (fun k b => in_group n t b /\ fvec b = k) K Bs ->
  map fvec Bs = K /\ forall b, In b Bs -> in_group n t b.
Proof.
  intros n t K Bs H. induction H as [|k b K Bs [G E] H [IH1 IH2]].
  - split; [reflexivity | intros b []].
  - cbn [map]. split; [rewrite E, IH1; reflexivity|]. intros x [<-|Hx]; [exact G | apply IH2; exact Hx].
Qed.

Lemma supported_basis : forall n t m, tableau_ok n t -> length m = n ->
  exists Bs, (forall b, In b Bs -> in_group n t b) /\ (forall b, In b Bs -> supported_in m (fst b) = true) /\
     independent (2 * n) (map fvec Bs) /\
     (forall b, in_group n t b -> supported_in m (fst b) = true -> in_span (2 * n) (map fvec Bs) (fvec b)) /\
     (Z.of_nat (count_true m) - Z.of_nat (length Bs) = entropy_ref (map fst (stabilizers t)) m)%Z.
Proof.
  intros n t m Hok Hm.
  set (G := map fvec (active t)). set (nm := map negb m).
  assert (HG : rect (2 * n) G) by (apply fvec_rect; apply active_wf; exact Hok).
  assert (HI : independent (2 * n) G) by (apply gens_indep; exact Hok).
  assert (Lnm : length nm = n) by (unfold nm; rewrite map_length; exact Hm).
  pose proof (res_linear nm) as LinB. rewrite Lnm in LinB.
  destruct (rank_nullity (2 * n) (2 * count_true nm) (res nm) G LinB HG) as [d [[K [RK [IK [LK SK]]]] E]].
  rewrite (independent_rank (2 * n) G HG HI) in E.
  destruct (forall_exists_list _ _ (fun k b => in_group n t b /\ fvec b = k) K) as [Bs HBs].
  { intros k Hk. apply (span_in_group n t k Hok). apply SK. apply in_span_In; assumption. }
  destruct (Forall2_basis_facts n t K Bs HBs) as [EK HBg].
  assert (Lb : forall b, in_group n t b -> length (fst b) = length m).
  { intros b Gb. destruct (group_hermitian n t b Hok Gb) as [[L _] _]. lia. }
  exists Bs. split; [exact HBg|]. split; [|split; [|split]].
  - intros b Hb. apply (supported_res m (fst b) (Lb b (HBg b Hb))). fold nm. change (flat (fst b)) with (fvec b).
    apply SK. apply in_span_In; [exact RK|]. rewrite <- EK. apply in_map. exact Hb.
  - rewrite EK. exact IK.
  - intros b Gb Sb. rewrite EK. apply SK. split; [apply (group_in_span n t b Hok Gb)|].
    apply (supported_res m (fst b) (Lb b Gb)). exact Sb.
  - unfold entropy_ref. rewrite <- active_stabilizers.
    match goal with |- context [z2rank ?X] => assert (E1 : X = map (res nm) G) end.
    { unfold G. rewrite !map_map. apply map_ext. intros a. unfold fvec, nm. apply res_flat. }
    rewrite E1. rewrite !map_length in *.
    assert (Ld : length Bs = d) by (rewrite <- LK, <- EK, map_length; reflexivity).
    pose proof (active_length n t Hok) as LA. pose proof Hok as [_ [Hr _]].
    assert (LG : length G = length (active t)) by (unfold G; apply map_length).
    unfold pauli, pstr in *. lia.
Qed.

(* ------------------------------------------------------------------ MAIN *)
(* Deviation from the brief: [length ka' = count_true m] is added to the last clause (see ptrace_pauli: the statement without it is false). *)
Theorem reduced_state_is_stabilizer_state : forall n t m, tableau_ok n t -> length m = n ->
   exists tA, tableau_ok (count_true m) tA /\
      Z.of_nat (rk tA) = entropy_ref (map fst (stabilizers t)) m /\
      (forall a, in_group (count_true m) tA a <-> exists b, in_group n t b /\ supported_in m (fst b) = true /\ a = restrict_pauli m b) /\
      forall ka ka', length ka = count_true m -> length ka' = count_true m ->
        ptrace_amp m (density_poly t) ka ka' = amp (density_poly tA) ka ka'.
Proof.
  intros n t m Hok Hm.
  destruct (supported_basis n t m Hok Hm) as [Bs [HBg [HBs [HBi [HBc HE]]]]].
  destruct (reduced_tableau_exists n t m Bs) as [tA HtA]; try assumption.
  exists tA. split; [|split; [|split]].
  - apply (tA_ok n t m Bs); assumption.
  - assert (R : rk tA = count_true m - length Bs) by (apply (tA_rk n t m Bs); assumption).
    assert (LL : length (map (restrict_pauli m) Bs) <= count_true m) by (apply (stabsA_len n t m Bs); assumption).
    rewrite map_length in LL. rewrite <- HE, R. lia.
  - apply (tA_group n t m Bs); assumption.
  - apply (reduced_density n t m Bs); assumption.
Qed.

(* the implemented entropy is the reference formula, for every valid tableau and every region *)
Lemma entropy_is_ref : forall n t m, tableau_ok n t -> length m = n ->
  entropy t m = entropy_ref (map fst (stabilizers t)) m.
Proof.
  intros n t m Hok Hm. unfold entropy. rewrite (ok_tN n t Hok). rewrite <- active_stabilizers.
  set (gs := map fst (active t)).
  destruct (Nat.eq_dec (length gs) n) as [Lgs|Lgs]; [|apply entropy_of_mixed_ref; exact Lgs].
  apply (pure_branch_general n gs m Hm Lgs).
  - intros g Hg. apply in_map_iff in Hg. destruct Hg as [a [<- Ha]].
    pose proof (active_wf n t Hok) as W. rewrite Forall_forall in W. exact (proj1 (W a Ha)).
  - unfold gs. rewrite map_map. exact (gens_indep n t Hok).
  - intros a b Ha Hb. apply in_map_iff in Ha. destruct Ha as [x [<- Hx]]. apply in_map_iff in Hb. destruct Hb as [y [<- Hy]].
    rewrite acq_acqb, (active_allcomm n t Hok x y Hx Hy). reflexivity.
Qed.

Corollary reduced_state_entropy : forall n t m, tableau_ok n t -> length m = n ->
   exists tA, tableau_ok (count_true m) tA /\ Z.of_nat (rk tA) = entropy t m /\
      forall ka ka', length ka = count_true m -> length ka' = count_true m ->
        ptrace_amp m (density_poly t) ka ka' = amp (density_poly tA) ka ka'.
Proof.
  intros n t m Hok Hm. destruct (reduced_state_is_stabilizer_state n t m Hok Hm) as [tA [H1 [H2 [_ H4]]]].
  exists tA. split; [exact H1|]. split; [|exact H4]. rewrite (entropy_is_ref n t m Hok Hm). exact H2.
Qed.

Print Assumptions ptrace_pauli.
Print Assumptions restrict_pmul.
Print Assumptions ptrace_density.
Print Assumptions reduced_state_is_stabilizer_state.
Print Assumptions reduced_state_entropy.
