(* Proofs/TraceFacts.v -- the expectation value is Tr(rho O); rho is a normalised projector up to 2^-r. *)
From Coq Require Import ZArith List Bool Lia ZifyBool Arith Permutation.
From Coq Require Import QArith Qcanon.
From PC Require Import Gen.Kernels Model.Base Model.Pauli Model.Ket Model.CMap Model.Tableau Model.Circuit Model.Spec
  Model.Poly Model.PolySem Model.Sample
  Proofs.PauliFacts Proofs.Transform Proofs.TableauInv Proofs.MeasureFacts Proofs.SampleFacts Proofs.PolyFacts.
Import ListNotations.
Open Scope Z_scope.
Ltac Zify.zify_post_hook ::= Z.to_euclidean_division_equations.

(* ------------------------------------------------------------------ definitions (names fixed) *)
Definition chalf : coef := (Q2Qc (Qmake 1 2), 0%Qc).
(* 2^-n, by recursion on n (the closed form with Pos.of_nat is wrong at n = 0) *)
Fixpoint half_pow (n : nat) : coef :=
  match n with O => c1 | S m => cmul chalf (half_pow m) end.
Definition density_poly (t : tableau) : poly := map (fun a => (half_pow (tN t), a)) (density_terms t).
Definition tr_rho (n : nat) (t : tableau) (o : pauli) : coef := trace_sem n (pmulp (density_poly t) [(c1, o)]).
Definition zcoef (z : Z) : coef := (Q2Qc (inject_Z z), 0%Qc).

Lemma chalf_double : forall x, cmul chalf (cadd x x) = x.
Proof.
  intros [a b]. unfold chalf, cmul, cadd. cbn [fst snd].
  assert (H : (Q2Qc (1 # 2) + Q2Qc (1 # 2))%Qc = 1%Qc) by (apply Qc_is_canon; reflexivity).
  f_equal.
  - transitivity (((Q2Qc (1 # 2) + Q2Qc (1 # 2)) * a)%Qc); [ring | rewrite H; ring].
  - transitivity (((Q2Qc (1 # 2) + Q2Qc (1 # 2)) * b)%Qc); [ring | rewrite H; ring].
Qed.

Theorem half_pow_two_pow : forall n, cmul (half_pow n) (two_pow n) = c1.
Proof.
  induction n as [|n IH].
  - reflexivity.
  - cbn [half_pow]. rewrite two_pow_S, cmul_assoc, cmul_cadd_distr_l, IH. apply chalf_double.
Qed.

Lemma half_pow_add : forall a b, half_pow (a + b) = cmul (half_pow a) (half_pow b).
Proof.
  induction a as [|a IH]; intros b; cbn [half_pow Nat.add].
  - rewrite cmul_1_l. reflexivity.
  - rewrite IH, cmul_assoc. reflexivity.
Qed.

(* the closed form of the task statement agrees with the recursive definition for n >= 1 *)
Lemma half_pow_closed : forall n, (1 <= n)%nat ->
  half_pow n = (Q2Qc (Qmake 1 (Pos.pow 2 (Pos.of_nat n))), 0%Qc).
Proof.
  intros [|m] H; [lia|]. clear H. induction m as [|m IH].
  - cbn [half_pow]. rewrite cmul_1_r. reflexivity.
  - change (half_pow (S (S m))) with (cmul chalf (half_pow (S m))). rewrite IH.
    rewrite (Nat2Pos.inj_succ (S m)) by discriminate. rewrite Pos.pow_succ_r.
    unfold chalf, cmul. cbn [fst snd]. f_equal.
    transitivity ((Q2Qc (1 # 2) * Q2Qc (1 # 2 ^ Pos.of_nat (S m)))%Qc); [ring|].
    apply Qc_is_canon. unfold Qcmult. cbn [this Q2Qc]. rewrite !Qred_correct. reflexivity.
Qed.

(* ------------------------------------------------------------------ rho's terms are Hermitian group elements *)
Theorem rho_terms_hermitian : forall n t a, tableau_ok n t -> In a (density_terms t) -> hermP a /\ length (fst a) = n.
Proof.
  intros n t a Hok Hin. apply (density_terms_complete n t a Hok) in Hin.
  destruct (group_hermitian n t a Hok Hin) as [[HL _] HH]. split; [exact HH | exact HL].
Qed.

(* ------------------------------------------------------------------ trace of a polynomial, term by term *)
Lemma trace_sem_terms : forall n p, well_sized n p ->
  trace_sem n p = csum (map (fun t : term => if is_id_str (fst (snd t)) then cipow (snd (snd t)) (cmul (fst t) (two_pow n)) else c0) p).
Proof.
  intros n p W. pose proof (trace_true_sem n p W) as H. unfold trace_true in H. cbn [as_poly] in H.
  injection H as H. rewrite <- H. rewrite fold_left_cadd, cadd_0_l. reflexivity.
Qed.

(* string equality test *)
Definition site_eqb (s u : site) : bool := Bool.eqb (fst s) (fst u) && Bool.eqb (snd s) (snd u).
Definition str_eqb (g h : pstr) : bool := forallb (fun st : site * site => site_eqb (fst st) (snd st)) (combine g h).

Lemma site_eqb_xor : forall s u, negb (nontrivial (xor_site s u)) = site_eqb s u.
Proof. intros [a b] [c d]. rewrite xor_site_spec. destruct a, b, c, d; reflexivity. Qed.

Lemma is_id_gxor : forall g h, is_id_str (gxor g h) = str_eqb g h.
Proof.
  induction g as [|s g IH]; intros [|u h]; try reflexivity.
  cbn [gxor]. unfold is_id_str, str_eqb in *. cbn [forallb combine fst snd]. rewrite site_eqb_xor, IH. reflexivity.
Qed.

Lemma site_eqb_eq : forall s u, site_eqb s u = true <-> s = u.
Proof.
  intros [a b] [c d]. unfold site_eqb. cbn [fst snd]. split.
  - intros H. apply andb_true_iff in H. destruct H as [H1 H2]. apply eqb_prop in H1. apply eqb_prop in H2. subst. reflexivity.
  - intros H. injection H as -> ->. rewrite !eqb_reflx. reflexivity.
Qed.

Lemma str_eqb_eq : forall g h, length g = length h -> (str_eqb g h = true <-> g = h).
Proof.
  induction g as [|s g IH]; intros [|u h] HL; try discriminate HL.
  - split; reflexivity.
  - unfold str_eqb in *. cbn [combine forallb fst snd]. rewrite andb_true_iff, site_eqb_eq, IH by (cbn [length] in HL; lia).
    split; [intros [-> ->]; reflexivity | intros H; injection H as -> ->; split; reflexivity].
Qed.

Lemma str_eqb_refl : forall g, str_eqb g g = true.
Proof. intros g. apply str_eqb_eq; reflexivity. Qed.

Lemma str_eqb_neq : forall g h, length g = length h -> g <> h -> str_eqb g h = false.
Proof.
  intros g h HL Hn. destruct (str_eqb g h) eqn:E; [|reflexivity]. exfalso. apply Hn. apply str_eqb_eq; assumption.
Qed.

Lemma pmulp_single : forall c a d b, pmulp [(c, a)] [(d, b)] = [(cmul c d, pmul a b)].
Proof. reflexivity. Qed.

(* ------------------------------------------------------------------ trace of a product of two Pauli operators *)
Theorem trace_pauli_product_eqb : forall n a b, length (fst a) = n -> length (fst b) = n ->
   trace_sem n (pmulp [(c1, a)] [(c1, b)]) = if str_eqb (fst a) (fst b) then cipow (snd (pmul a b)) (two_pow n) else c0.
Proof.
  intros n a b Ha Hb. rewrite pmulp_single. rewrite trace_sem_terms.
  - cbn [map fst snd]. rewrite csum_cons, csum_nil, cadd_0_r. rewrite pmul_fst, is_id_gxor.
    rewrite !cmul_1_l. reflexivity.
  - constructor; [|constructor]. cbn [fst snd]. rewrite pmul_fst, gxor_length; [exact Ha | transitivity n; [exact Ha | symmetry; exact Hb]].
Qed.

Theorem trace_pauli_product : forall n a b, length (fst a) = n -> length (fst b) = n ->
   trace_sem n (pmulp [(c1, a)] [(c1, b)]) =
     if existsb (fun _ : unit => true) [] || forallb (fun st : site * site => Bool.eqb (fst (fst st)) (fst (snd st)) && Bool.eqb (snd (fst st)) (snd (snd st))) (combine (fst a) (fst b))
     then cipow (snd (pmul a b)) (two_pow n) else c0.
Proof. intros n a b Ha Hb. exact (trace_pauli_product_eqb n a b Ha Hb). Qed.

Corollary trace_pauli_product_same : forall n a b, length (fst a) = n -> length (fst b) = n -> fst a = fst b ->
   trace_sem n (pmulp [(c1, a)] [(c1, b)]) = cipow (snd (pmul a b)) (two_pow n).
Proof.
  intros n a b Ha Hb E. rewrite (trace_pauli_product_eqb n a b Ha Hb), E, str_eqb_refl. reflexivity.
Qed.

Corollary trace_pauli_product_diff : forall n a b, length (fst a) = n -> length (fst b) = n -> fst a <> fst b ->
   trace_sem n (pmulp [(c1, a)] [(c1, b)]) = c0.
Proof.
  intros n a b Ha Hb E. rewrite (trace_pauli_product_eqb n a b Ha Hb), str_eqb_neq; [reflexivity | | exact E].
  transitivity n; [exact Ha | symmetry; exact Hb].
Qed.

(* ------------------------------------------------------------------ sums with at most one non-zero summand *)
Lemma csum_all_zero : forall {A} (f : A -> coef) l, (forall x, In x l -> f x = c0) -> csum (map f l) = c0.
Proof.
  intros A f l H. rewrite (csum_map_ext f (fun _ => c0) l H). apply csum_map_c0.
Qed.

Lemma csum_unique : forall {A} (f : A -> coef) l a, In a l -> (forall x, In x l -> x <> a -> f x = c0) -> NoDup l ->
  csum (map f l) = f a.
Proof.
  intros A f l a. induction l as [|b l IH]; intros Hin Hz Hnd; [destruct Hin|].
  inversion_clear Hnd as [|? ? Hnb Hnd']. cbn [map]. rewrite csum_cons.
  destruct Hin as [E|Hin].
  - subst b. rewrite csum_all_zero; [apply cadd_0_r|].
    intros x Hx. apply Hz; [right; exact Hx|]. intros E. subst x. exact (Hnb Hx).
  - rewrite IH; [| exact Hin | | exact Hnd'].
    + rewrite (Hz b (or_introl eq_refl)); [apply cadd_0_l|]. intros E. subst b. exact (Hnb Hin).
    + intros x Hx. apply Hz. right; exact Hx.
Qed.

Lemma is_id_str_eq : forall g, is_id_str g = true -> g = id_str (length g).
Proof.
  induction g as [|[x z] g IH]; intros H; [reflexivity|].
  unfold is_id_str in *. cbn [forallb length] in H. apply andb_true_iff in H. destruct H as [H1 H2].
  cbn [length]. rewrite id_str_S. f_equal; [|apply IH; exact H2].
  destruct x, z; try discriminate H1. reflexivity.
Qed.

Lemma is_id_str_id : forall n, is_id_str (id_str n) = true.
Proof. induction n as [|n IH]; [reflexivity|]. rewrite id_str_S. unfold is_id_str in *. cbn [forallb]. rewrite IH. reflexivity. Qed.

Lemma density_poly_sized : forall n t, tableau_ok n t -> well_sized n (density_poly t).
Proof.
  intros n t Hok. unfold well_sized, density_poly. apply Forall_forall. intros x Hx.
  apply in_map_iff in Hx. destruct Hx as [a [E Ha]]. subst x. cbn [fst snd].
  exact (proj2 (rho_terms_hermitian n t a Hok Ha)).
Qed.

Lemma zcoef_1 : zcoef 1 = c1. Proof. reflexivity. Qed.
Lemma zcoef_0 : zcoef 0 = c0. Proof. reflexivity. Qed.
Lemma zcoef_m1 : zcoef (-1) = cneg c1. Proof. unfold zcoef, cneg, c1. cbn [fst snd]. f_equal; apply Qc_is_canon; reflexivity. Qed.

(* ------------------------------------------------------------------ Tr rho = 1 *)
Theorem trace_rho_one : forall n t, tableau_ok n t -> trace_sem n (density_poly t) = c1.
Proof.
  intros n t Hok. rewrite (trace_sem_terms n _ (density_poly_sized n t Hok)).
  unfold density_poly. rewrite map_map. cbn [fst snd]. rewrite (ok_tN n t Hok).
  rewrite (csum_unique _ (density_terms t) (pid n)).
  - unfold pid. cbn [fst snd]. rewrite is_id_str_id, half_pow_two_pow. apply cipow_0. reflexivity.
  - apply (density_terms_complete n t _ Hok). apply (in_group_pid n t Hok).
  - intros x Hx Hne. destruct (is_id_str (fst x)) eqn:E; [|reflexivity]. exfalso. apply Hne.
    apply (density_terms_complete n t x Hok) in Hx.
    apply (group_same_str n t x (pid n) Hok Hx (in_group_pid n t Hok)).
    apply is_id_str_eq in E. destruct (group_hermitian n t x Hok Hx) as [[HL _] _].
    rewrite E. unfold pid. cbn [fst]. f_equal. exact HL.
  - apply (density_terms_nodup n t Hok).
Qed.

(* ------------------------------------------------------------------ Tr(rho O) *)
Lemma pmulp_map_single : forall h (l : plist) (o : pauli),
  pmulp (map (fun a : pauli => (h, a)) l) [(c1, o)] = map (fun a : pauli => (cmul h c1, pmul a o)) l.
Proof.
  intros h l o. induction l as [|a l IH]; [reflexivity|].
  cbn [map]. rewrite pmulp_cons, IH. reflexivity.
Qed.

Lemma tr_rho_terms : forall n t (o : pauli), tableau_ok n t -> length (fst o) = n ->
  tr_rho n t o = csum (map (fun a : pauli => if str_eqb (fst a) (fst o) then cipow (snd (pmul a o)) c1 else c0) (density_terms t)).
Proof.
  intros n t o Hok Ho. unfold tr_rho, density_poly. rewrite pmulp_map_single, (ok_tN n t Hok).
  rewrite trace_sem_terms.
  - rewrite map_map. cbn [fst snd]. apply csum_map_ext. intros a Ha.
    rewrite pmul_fst, is_id_gxor, cmul_1_r, half_pow_two_pow. reflexivity.
  - unfold well_sized. apply Forall_forall. intros x Hx. apply in_map_iff in Hx. destruct Hx as [a [E Ha]]. subst x.
    cbn [fst snd]. pose proof (proj2 (rho_terms_hermitian n t a Hok Ha)) as HL.
    rewrite pmul_fst, gxor_length; [exact HL | transitivity n; [exact HL | symmetry; exact Ho]].
Qed.

Lemma ipow_self : forall g, ipow g g = 0.
Proof. intros g. unfold ipow. rewrite modulus_ipow. apply sum2_ipow_self. Qed.

Lemma herm_square_phase : forall o, hermP o -> snd (pmul o o) = 0.
Proof. intros [g p] [H|H]; cbn [snd] in H; subst p; rewrite pmul_snd, ipow_self; reflexivity. Qed.

Lemma herm_negsquare_phase : forall o, hermP o -> snd (pmul (pneg o) o) = 2.
Proof.
  intros [g p] [H|H]; cbn [snd] in H; subst p; rewrite pmul_snd; unfold pneg; cbn [fst snd]; rewrite ipow_self; reflexivity.
Qed.

Theorem expect_is_trace : forall n t o, tableau_ok n t -> length (fst o) = n -> hermP o -> tr_rho n t o = zcoef (expect1 t o).
Proof.
  intros n t o Hok Ho Hh. rewrite (tr_rho_terms n t o Hok Ho).
  assert (Same : forall x : pauli, In x (density_terms t) -> str_eqb (fst x) (fst o) = true -> x = o \/ x = pneg o).
  { intros x Hx E. apply (density_terms_complete n t x Hok) in Hx.
    destruct (group_hermitian n t x Hok Hx) as [[HL _] HH].
    apply str_eqb_eq in E; [|transitivity n; [exact HL | symmetry; exact Ho]].
    apply (herm_same_str x o HH Hh E). }
  destruct (expect_values n t o Hok Ho Hh) as [E|[E|E]]; rewrite E.
  - (* +1 : O itself is in the group *)
    pose proof (proj1 (expect_plus n t o Hok Ho Hh) E) as G.
    rewrite (csum_unique _ (density_terms t) o).
    + rewrite str_eqb_refl, (herm_square_phase o Hh). rewrite zcoef_1. apply cipow_0. reflexivity.
    + apply (density_terms_complete n t o Hok). exact G.
    + intros x Hx Hne. cbv beta. match goal with |- (if ?b then _ else _) = _ => destruct b eqn:S end; [|reflexivity]. exfalso.
      destruct (Same x Hx S) as [K|K]; [exact (Hne K)|].
      apply (density_terms_complete n t x Hok) in Hx. rewrite K in Hx.
      exact (group_sign_unique n t o Hok G Hx).
    + apply (density_terms_nodup n t Hok).
  - (* -1 : -O is in the group *)
    pose proof (proj1 (expect_minus n t o Hok Ho Hh) E) as G.
    rewrite (csum_unique _ (density_terms t) (pneg o)).
    + unfold pneg at 1. cbn [fst]. rewrite str_eqb_refl, (herm_negsquare_phase o Hh). rewrite zcoef_m1. apply cipow_2. reflexivity.
    + apply (density_terms_complete n t _ Hok). exact G.
    + intros x Hx Hne. cbv beta. match goal with |- (if ?b then _ else _) = _ => destruct b eqn:S end; [|reflexivity]. exfalso.
      destruct (Same x Hx S) as [K|K]; [|exact (Hne K)].
      apply (density_terms_complete n t x Hok) in Hx. rewrite K in Hx.
      exact (group_sign_unique n t o Hok Hx G).
    + apply (density_terms_nodup n t Hok).
  - (* 0 : no group element has the string of O *)
    rewrite zcoef_0. apply csum_all_zero. intros x Hx.
    cbv beta. match goal with |- (if ?b then _ else _) = _ => destruct b eqn:S end; [|reflexivity]. exfalso.
    pose proof (proj2 (density_terms_complete n t x Hok) Hx) as G.
    destruct (Same x Hx S) as [K|K]; rewrite K in G.
    + apply (expect_plus n t o Hok Ho Hh) in G. rewrite G in E. discriminate E.
    + apply (expect_minus n t o Hok Ho Hh) in G. rewrite G in E. discriminate E.
Qed.

(* ------------------------------------------------------------------ rho^2 = 2^-r rho *)
Lemma csum_perm : forall l l', Permutation l l' -> csum l = csum l'.
Proof.
  intros l l' P. induction P as [|x l l' P IH|x y l|l l' l'' P1 IH1 P2 IH2].
  - reflexivity.
  - rewrite !csum_cons, IH. reflexivity.
  - rewrite !csum_cons, <- !cadd_assoc, (cadd_comm y x). reflexivity.
  - rewrite IH1. exact IH2.
Qed.

Lemma amp_flat_map : forall {A} (F : A -> poly) (l : list A) k k',
  amp (flat_map F l) k k' = csum (map (fun s => amp (F s) k k') l).
Proof.
  intros A F l k k'. induction l as [|s l IH]; [reflexivity|].
  cbn [flat_map map]. rewrite amp_app, IH, csum_cons. reflexivity.
Qed.

Lemma amp_term_cmul : forall c d a k k', amp_term (cmul c d, a) k k' = cmul c (amp_term (d, a) k k').
Proof. intros c d [g p] k k'. rewrite !amp_term_base, cipow_cmul_r. apply cmul_assoc. Qed.

Lemma gxor_cancel_l : forall a x : pstr, length a = length x -> gxor a (gxor a x) = x.
Proof.
  intros a x HL. rewrite <- gxor_assoc, gxor_self, HL. apply gxor_id_l.
Qed.

(* left multiplication by a group element permutes the enumeration of the group *)
Lemma group_mul_perm : forall n t a, tableau_ok n t -> In a (density_terms t) ->
  Permutation (map (pmul a) (density_terms t)) (density_terms t).
Proof.
  intros n t a Hok Ha.
  pose proof (proj2 (density_terms_complete n t a Hok) Ha) as Ga.
  destruct (group_hermitian n t a Hok Ga) as [[La _] _].
  apply NoDup_Permutation_bis.
  - apply NoDup_map_inj_on; [|apply (density_terms_nodup n t Hok)].
    intros x y Hx Hy E.
    pose proof (proj2 (density_terms_complete n t x Hok) Hx) as Gx.
    pose proof (proj2 (density_terms_complete n t y Hok) Hy) as Gy.
    destruct (group_hermitian n t x Hok Gx) as [[Lx _] _].
    destruct (group_hermitian n t y Hok Gy) as [[Ly _] _].
    apply (group_same_str n t x y Hok Gx Gy).
    assert (E' : gxor (fst a) (fst x) = gxor (fst a) (fst y)) by (rewrite <- !pmul_fst, E; reflexivity).
    rewrite <- (gxor_cancel_l (fst a) (fst x)) by (transitivity n; [exact La | symmetry; exact Lx]).
    rewrite E'. apply gxor_cancel_l. transitivity n; [exact La | symmetry; exact Ly].
  - rewrite map_length. apply le_n.
  - intros y Hy. apply in_map_iff in Hy. destruct Hy as [x [E Hx]]. subst y.
    apply (density_terms_complete n t _ Hok). apply (in_group_pmul n t a x Hok Ga).
    apply (density_terms_complete n t x Hok). exact Hx.
Qed.

Lemma csum_const_bitvecs : forall m (x : coef), csum (map (fun _ => x) (all_bitvecs m)) = cmul (two_pow m) x.
Proof.
  induction m as [|m IH]; intros x.
  - cbn [all_bitvecs map]. rewrite csum_cons, csum_nil, cadd_0_r. change (two_pow 0) with c1. rewrite cmul_1_l. reflexivity.
  - cbn [all_bitvecs]. rewrite map_app, csum_app, !map_map, IH. rewrite two_pow_S, cmul_cadd_distr_r. reflexivity.
Qed.

Lemma csum_const_density : forall n t (x : coef), tableau_ok n t ->
  csum (map (fun _ : pauli => x) (density_terms t)) = cmul (two_pow (n - rk t)) x.
Proof.
  intros n t x Hok. rewrite (density_terms_eq n t Hok), map_map. apply csum_const_bitvecs.
Qed.

Lemma half_pow_rank : forall n r, (r <= n)%nat -> cmul (two_pow (n - r)) (half_pow n) = half_pow r.
Proof.
  intros n r H. replace n with (r + (n - r))%nat at 2 by lia.
  rewrite half_pow_add, (cmul_comm (half_pow r)), <- cmul_assoc, (cmul_comm (two_pow (n - r))), half_pow_two_pow.
  apply cmul_1_l.
Qed.

Theorem rho_squared : forall n t k k', tableau_ok n t -> length k = n ->
   amp (pmulp (density_poly t) (density_poly t)) k k' = cmul (half_pow (rk t)) (amp (density_poly t) k k').
Proof.
  intros n t k k' Hok _. pose proof Hok as [_ [Hr _]].
  unfold pmulp. rewrite amp_flat_map. cbv beta.
  set (h := half_pow (tN t)).
  set (A := amp (density_poly t) k k').
  assert (Inner : forall s : term, In s (density_poly t) ->
            amp (map (fun u : term => (cmul (fst s) (fst u),
                     (gxor (fst (snd s)) (fst (snd u)),
                      np_batch_dot_phase (snd (snd s)) (snd (snd u)) (ipow (fst (snd s)) (fst (snd u)))))) (density_poly t)) k k'
            = cmul h A).
  { intros s Hs. unfold density_poly in Hs. apply in_map_iff in Hs. destruct Hs as [a [E Ha]]. subst s. cbn [fst snd].
    fold h.
    transitivity (csum (map (fun b : pauli => amp_term (cmul h h, b) k k') (map (pmul a) (density_terms t)))).
    - unfold amp, density_poly. rewrite !map_map. reflexivity.
    - rewrite (csum_perm _ _ (Permutation_map _ (group_mul_perm n t a Hok Ha))).
      unfold A, amp, density_poly. fold h. rewrite !map_map. cbn [fst snd]. rewrite <- csum_map_cmul.
      apply csum_map_ext. intros b _. apply amp_term_cmul. }
  transitivity (csum (map (fun _ : term => cmul h A) (density_poly t))); [apply csum_map_ext; exact Inner|].
  unfold density_poly at 1. rewrite map_map. rewrite (csum_const_density n t _ Hok).
  rewrite <- cmul_assoc. unfold h. rewrite (ok_tN n t Hok), (half_pow_rank n (rk t) Hr). reflexivity.
Qed.

(* the same statement for the matrix product itself: sum_k1 <k'|rho|k1><k1|rho|k> = 2^-r <k'|rho|k> *)
Corollary rho_squared_matrix : forall n t k k', tableau_ok n t -> length k = n ->
   amp_after (density_poly t) (density_poly t) k k' = cmul (half_pow (rk t)) (amp (density_poly t) k k').
Proof.
  intros n t k k' Hok Hk.
  rewrite <- (amp_pmulp n _ _ k k' (density_poly_sized n t Hok) (density_poly_sized n t Hok) Hk).
  apply (rho_squared n t k k' Hok Hk).
Qed.
