(* Proofs/ProbSumFacts.v -- StabilizerState.get_prob(bits) is the diagonal entry <bits|rho|bits> of the density matrix,
   every such probability is a non-negative real, and the 2^n probabilities sum to one.
   Convention (Model/Ket.v): the ket bit [true] is |1>, and Z|b> = (-1)^b |b> (act_site (false,true) b = (2*zb b, b)),
   so the stabilizers of the basis state |bits> are (-1)^{b_q} Z_q = (Z_q, phase 2*b_q), exactly as in the brief. *)
From Coq Require Import ZArith List Bool Lia ZifyBool Arith Permutation Setoid Morphisms.
From Coq Require Import QArith Qcanon.
From PC Require Import Gen.Kernels Model.Base Model.Pauli Model.Ket Model.CMap Model.Tableau Model.Circuit Model.Spec
  Model.Poly Model.PolySem Model.Sample
  Proofs.PauliFacts Proofs.Transform Proofs.MaskFacts Proofs.TableauInv Proofs.MeasureFacts Proofs.SampleFacts Proofs.PolyFacts
  Proofs.ProjectionFacts Proofs.TraceFacts Proofs.PositiveFacts Proofs.ProjectorFacts Proofs.OverlapFacts Proofs.BackwardFacts.
Import ListNotations.
Open Scope Z_scope.

(* ------------------------------------------------------------------ definitions (names fixed) *)
Definition bit_obs (n : nat) (bits : list bool) : plist :=
  map (fun qb : nat * bool => (fst (z_obs n (fst qb)), if snd qb then 2 else 0)) (combine (seq 0 n) bits).     (* (-1)^{b_q} Z_q, q = 0..n-1 *)

(* one signed Z and a list of them, indexed by (qubit, bit) pairs *)
Definition zsig (n : nat) (qb : nat * bool) : pauli := (fst (z_obs n (fst qb)), if snd qb then 2 else 0).
Definition bit_ok (k : ket) (qb : nat * bool) : bool := Bool.eqb (nth (fst qb) k false) (snd qb).

Lemma bit_obs_zsig : forall n bits, bit_obs n bits = map (zsig n) (combine (seq 0 n) bits).
Proof. reflexivity. Qed.

(* ------------------------------------------------------------------ Z_q acts diagonally *)
Lemma act_str_zq : forall n q k, length k = n -> (q < n)%nat ->
  act_str (upd (id_str n) q (false, true)) k = (2 * zb (nth q k false), k).
Proof.
  induction n as [|n IH]; intros q k Hk Hq; [lia|].
  destruct k as [|b k]; [discriminate Hk|]. cbn [length] in Hk. injection Hk as Hk.
  rewrite id_str_S. destruct q as [|q]; cbn [upd nth].
  - rewrite act_str_cons, (act_str_id n k Hk). cbn [fst snd]. destruct b; reflexivity.
  - rewrite act_str_cons, (IH q k Hk) by lia. cbn [fst snd]. destruct b; reflexivity.
Qed.

Lemma chalf_sum : cadd (cmul chalf c1) (cadd (cmul chalf c1) c0) = c1.
Proof. rewrite cadd_0_r, <- cmul_cadd_distr_l. apply chalf_double. Qed.

Lemma chalf_diff : cadd (cmul chalf c1) (cadd (cmul chalf (cneg c1)) c0) = c0.
Proof. rewrite cadd_0_r, cmul_cneg_r. apply cadd_cneg_r. Qed.

Lemma tamp_pid : forall n k k', length k = n -> tamp k k' (pid n) = if ket_eqb k k' then c1 else c0.
Proof.
  intros n k k' Hk. unfold tamp, pid. rewrite amp_term_base. unfold base. rewrite (act_str_id n k Hk). cbn [fst snd].
  destruct (ket_eqb k k'); [|apply cmul_0_r]. rewrite !cipow_0 by reflexivity. apply cmul_1_l.
Qed.

Lemma tamp_zsig : forall n qb k k', length k = n -> (fst qb < n)%nat ->
  tamp k k' (zsig n qb) = if ket_eqb k k' then (if bit_ok k qb then c1 else cneg c1) else c0.
Proof.
  intros n [q b] k k' Hk Hq. cbn [fst] in Hq. unfold tamp, zsig, z_obs, bit_ok. cbn [fst snd].
  rewrite amp_term_base. unfold base. rewrite (act_str_zq n q k Hk Hq). cbn [fst snd].
  destruct (ket_eqb k k'); [|apply cmul_0_r].
  destruct b, (nth q k false); cbn [zb Bool.eqb Z.mul];
    repeat first [rewrite (cipow_0 0) by reflexivity | rewrite (cipow_2 2) by reflexivity];
    rewrite ?cmul_1_l, ?cmul_cneg_l, ?cmul_1_l, ?cneg_invol; reflexivity.
Qed.

(* the projector (1 + (-1)^b Z_q)/2 is the diagonal 0/1 matrix [k = k'] [k_q = b] *)
Lemma amp_proj_zsig : forall n qb k k', length k = n -> (fst qb < n)%nat ->
  amp (proj_poly n (zsig n qb)) k k' = if ket_eqb k k' && bit_ok k qb then c1 else c0.
Proof.
  intros n qb k k' Hk Hq. rewrite amp_proj, (tamp_pid n k k' Hk), (tamp_zsig n qb k k' Hk Hq).
  destruct (ket_eqb k k'); cbn [andb].
  - destruct (bit_ok k qb); [apply chalf_sum | apply chalf_diff].
  - rewrite !cmul_0_r, !cadd_0_r. reflexivity.
Qed.

Lemma zsig_len : forall n qb, length (fst (zsig n qb)) = n.
Proof. intros n qb. unfold zsig. cbn [fst]. apply z_obs_len. Qed.

Lemma zsig_herm : forall n qb, hermP (zsig n qb).
Proof. intros n [q [|]]; [right | left]; reflexivity. Qed.

Lemma zsig_list_len : forall n qbs, Forall (fun o : pauli => length (fst o) = n) (map (zsig n) qbs).
Proof.
  intros n qbs. apply Forall_forall. intros o Ho. apply in_map_iff in Ho. destruct Ho as [qb [E _]]. subst o. apply zsig_len.
Qed.

(* products of diagonal 0/1 matrices multiply entrywise *)
Lemma amp_proj_prod_zsig : forall n qbs k k', length k = n -> Forall (fun qb : nat * bool => (fst qb < n)%nat) qbs ->
  amp (proj_prod n (map (zsig n) qbs)) k k' = if ket_eqb k k' && forallb (bit_ok k) qbs then c1 else c0.
Proof.
  intros n qbs. induction qbs as [|qb qbs IH]; intros k k' Hk Hq.
  - cbn [map proj_prod forallb]. rewrite andb_true_r. apply amp_ident. exact Hk.
  - inversion_clear Hq as [|? ? Hq1 Hq2]. cbn [map proj_prod forallb].
    rewrite (amp_matrix_product n _ _ k k' (well_sized_proj n _ (zsig_len n qb))
               (well_sized_proj_prod n _ (zsig_list_len n qbs)) Hk).
    rewrite (csum_unique _ (all_kets n) k).
    + rewrite (IH k k Hk Hq2), ket_eqb_refl, (amp_proj_zsig n qb k k' Hk Hq1). cbn [andb].
      destruct (forallb (bit_ok k) qbs); [rewrite cmul_1_l, andb_true_r | rewrite cmul_0_l, !andb_false_r]; reflexivity.
    + apply all_kets_In. exact Hk.
    + intros m _ Hne. rewrite (IH k m Hk Hq2), ket_eqb_neq; [apply cmul_0_l|].
      intros E. apply Hne. symmetry. exact E.
    + apply all_kets_NoDup.
Qed.

(* ------------------------------------------------------------------ all bits agree  <->  the kets are equal *)
Lemma forallb_bit_ok_gen : forall k pre bits, length bits = length k ->
  forallb (bit_ok (pre ++ k)) (combine (seq (length pre) (length k)) bits) = ket_eqb k bits.
Proof.
  induction k as [|x k IH]; intros pre [|b bits] HL; try discriminate HL; [reflexivity|].
  cbn [length] in HL. injection HL as HL. cbn [length seq combine forallb ket_eqb].
  unfold bit_ok at 1. cbn [fst snd]. rewrite nth_middle. f_equal.
  replace (pre ++ x :: k) with ((pre ++ [x]) ++ k) by (rewrite <- app_assoc; reflexivity).
  replace (S (length pre)) with (length (pre ++ [x])) by (rewrite app_length; cbn [length]; lia).
  apply IH. exact HL.
Qed.

Lemma forallb_bit_ok : forall n k bits, length k = n -> length bits = n ->
  forallb (bit_ok k) (combine (seq 0 n) bits) = ket_eqb k bits.
Proof.
  intros n k bits Hk Hb. subst n. apply (forallb_bit_ok_gen k [] bits). exact Hb.
Qed.

Lemma combine_seq_lt : forall n bits, Forall (fun qb : nat * bool => (fst qb < n)%nat) (combine (seq 0 n) bits).
Proof.
  intros n bits. apply Forall_forall. intros [q b] H. apply in_combine_l in H. apply in_seq in H. cbn [fst]. lia.
Qed.

Lemma ket_eqb_sym : forall a b : ket, ket_eqb a b = ket_eqb b a.
Proof.
  induction a as [|x a IH]; intros [|y b]; try reflexivity.
  cbn [ket_eqb]. rewrite IH. destruct x, y; reflexivity.
Qed.

Lemma ket_eqb_pair : forall k k' bits : ket, ket_eqb k k' && ket_eqb k bits = ket_eqb k bits && ket_eqb k' bits.
Proof.
  intros k k' bits. destruct (ket_eqb k bits) eqn:E1.
  - apply ket_eqb_eq in E1. subst bits. rewrite andb_true_r. cbn [andb]. apply ket_eqb_sym.
  - rewrite andb_false_r. reflexivity.
Qed.

(* ------------------------------------------------------------------ the projector onto |b> *)
Theorem bit_projector : forall n bits k k', length bits = n -> length k = n ->
  amp (proj_prod n (bit_obs n bits)) k k' = if ket_eqb k bits && ket_eqb k' bits then c1 else c0.
Proof.
  intros n bits k k' Hb Hk. rewrite bit_obs_zsig.
  rewrite (amp_proj_prod_zsig n _ k k' Hk (combine_seq_lt n bits)).
  rewrite (forallb_bit_ok n k bits Hk Hb), ket_eqb_pair. reflexivity.
Qed.

(* ------------------------------------------------------------------ the observables are admissible for the kernel *)
Lemma bit_obs_ok : forall n bits, Forall (fun o : pauli => length (fst o) = n /\ hermP o) (bit_obs n bits).
Proof.
  intros n bits. rewrite bit_obs_zsig. apply Forall_forall. intros o Ho. apply in_map_iff in Ho.
  destruct Ho as [qb [E _]]. subst o. split; [apply zsig_len | apply zsig_herm].
Qed.

Lemma bit_obs_commute : forall n bits a b, In a (bit_obs n bits) -> In b (bit_obs n bits) -> acq (fst a) (fst b) = 0.
Proof.
  intros n bits a b Ha Hb. rewrite bit_obs_zsig in Ha, Hb. apply in_map_iff in Ha. apply in_map_iff in Hb.
  destruct Ha as [qa [Ea _]]. destruct Hb as [qb' [Eb _]]. subst a b. unfold zsig. cbn [fst]. apply z_obs_commute.
Qed.

(* the value returned by the kernel, without the destructuring let *)
Definition kernel_prob (n : nat) (t : tableau) (bits : list bool) : coef :=
  trace_value (snd (fst (projection_trace t (bit_obs n bits)))) (snd (projection_trace t (bit_obs n bits))).

Lemma kernel_prob_let : forall n t bits,
  (let '(_, zero, halv) := projection_trace t (bit_obs n bits) in trace_value zero halv) = kernel_prob n t bits.
Proof. intros n t bits. unfold kernel_prob. destruct (projection_trace t (bit_obs n bits)) as [[t' zero] halv]. reflexivity. Qed.

(* Tr(rho |b><b|) = <b|rho|b> *)
Lemma trace_rho_bit : forall n t bits, tableau_ok n t -> length bits = n ->
  trace_sem n (pmulp (density_poly t) (proj_prod n (bit_obs n bits))) = amp (density_poly t) bits bits.
Proof.
  intros n t bits Hok Hb.
  pose proof (density_poly_sized n t Hok) as WR.
  assert (WQ : well_sized n (proj_prod n (bit_obs n bits))).
  { rewrite bit_obs_zsig. apply well_sized_proj_prod. apply zsig_list_len. }
  pose proof (proj2 (all_kets_In n bits) Hb) as Hin.
  unfold trace_sem.
  rewrite (csum_unique _ (all_kets n) bits Hin); [| |apply all_kets_NoDup].
  - rewrite (amp_matrix_product n _ _ bits bits WR WQ Hb).
    rewrite (csum_unique _ (all_kets n) bits Hin); [| |apply all_kets_NoDup].
    + rewrite (bit_projector n bits bits bits Hb Hb), ket_eqb_refl. cbn [andb]. apply cmul_1_l.
    + intros m _ Hne. rewrite (bit_projector n bits bits m Hb Hb), (ket_eqb_neq m bits Hne), andb_false_r. apply cmul_0_l.
  - intros k Hk Hne. apply all_kets_In in Hk.
    rewrite (amp_matrix_product n _ _ k k WR WQ Hk). apply csum_all_zero. intros m _.
    rewrite (bit_projector n bits k m Hb Hk), (ket_eqb_neq k bits Hne). cbn [andb]. apply cmul_0_l.
Qed.

Lemma kernel_prob_diagonal : forall n t bits, tableau_ok n t -> rk t = 0%nat -> length bits = n ->
  kernel_prob n t bits = amp (density_poly t) bits bits.
Proof.
  intros n t bits Hok Hrk Hb.
  pose proof (projection_trace_value n t (bit_obs n bits) Hok Hrk (bit_obs_ok n bits) (bit_obs_commute n bits)) as H.
  unfold kernel_prob. destruct (projection_trace t (bit_obs n bits)) as [[t' zero] halv]. cbn [fst snd].
  rewrite <- H. apply trace_rho_bit; assumption.
Qed.

(* ------------------------------------------------------------------ get_prob(b) as computed by the kernel is <b|rho|b> *)
Theorem get_prob_is_diagonal : forall n t bits, tableau_ok n t -> rk t = 0%nat -> length bits = n ->
   let '(_, zero, halv) := projection_trace t (bit_obs n bits) in trace_value zero halv = amp (density_poly t) bits bits.
Proof.
  intros n t bits Hok Hrk Hb. pose proof (kernel_prob_diagonal n t bits Hok Hrk Hb) as H. unfold kernel_prob in H.
  destruct (projection_trace t (bit_obs n bits)) as [[t' zero] halv]. exact H.
Qed.

(* ------------------------------------------------------------------ MAIN: the probabilities of all 2^n bit strings sum to one *)
Theorem get_prob_sums_to_one : forall n t, tableau_ok n t -> rk t = 0%nat ->
   csum (map (fun bits => let '(_, zero, halv) := projection_trace t (bit_obs n bits) in trace_value zero halv) (all_kets n)) = c1.
Proof.
  intros n t Hok Hrk. rewrite <- (trace_rho_one n t Hok). unfold trace_sem.
  apply csum_map_ext. intros bits Hin. apply all_kets_In in Hin.
  rewrite kernel_prob_let. apply kernel_prob_diagonal; assumption.
Qed.

(* ------------------------------------------------------------------ each probability is a non-negative real *)
Lemma nnreal_half_pow : forall h, nnreal (half_pow h).
Proof.
  induction h as [|h IH].
  - exists 1%Qc. split; [discriminate | reflexivity].
  - destruct IH as [x [Hx E]]. exists (Q2Qc (1 # 2) * x)%Qc. split.
    + replace 0%Qc with (0 * x)%Qc by ring. apply Qcmult_le_compat_r; [discriminate | exact Hx].
    + cbn [half_pow]. rewrite E. unfold cmul, chalf. cbn [fst snd]. f_equal; ring.
Qed.

Theorem get_prob_nonneg : forall n t bits, tableau_ok n t -> rk t = 0%nat -> length bits = n ->
   let '(_, zero, halv) := projection_trace t (bit_obs n bits) in exists x : Qc, (0 <= x)%Qc /\ trace_value zero halv = (x, 0%Qc).
Proof.
  intros n t bits _ _ _. destruct (projection_trace t (bit_obs n bits)) as [[t' zero] halv].
  change (nnreal (trace_value zero halv)). destruct zero; cbn [trace_value]; [apply nnreal_c0 | apply nnreal_half_pow].
Qed.
