(* Proofs/TableauInv.v -- every stabilizer kernel preserves the tableau invariant [tableau_ok]. *)
From Coq Require Import ZArith List Bool Lia ZifyBool Arith.
From PC Require Import Gen.Kernels Model.Base Model.Pauli Model.Ket Model.Spec Proofs.PauliFacts.
Import ListNotations.
Open Scope Z_scope.
Ltac Zify.zify_post_hook ::= Z.to_euclidean_division_equations.
Open Scope nat_scope.

(* ------------------------------------------------------------------ generic list lemmas *)
Lemma length_upd : forall A (l : list A) i v, length (upd l i v) = length l.
Proof. induction l as [|a l IH]; intros [|i] v; cbn [upd length]; auto. Qed.

Lemma nth_upd_eq : forall A (l : list A) i v d, i < length l -> nth i (upd l i v) d = v.
Proof.
  induction l as [|a l IH]; intros [|i] v d H; cbn [upd length nth] in *; try lia; auto.
  apply IH. lia.
Qed.

Lemma nth_upd_neq : forall A (l : list A) i j v d, i <> j -> nth j (upd l i v) d = nth j l d.
Proof.
  induction l as [|a l IH]; intros [|i] [|j] v d H; cbn [upd nth]; auto; try lia.
Qed.

Lemma NoDup_app_intro : forall A (l1 l2 : list A), NoDup l1 -> NoDup l2 ->
  (forall x, In x l1 -> ~ In x l2) -> NoDup (l1 ++ l2).
Proof.
  induction l1 as [|a l1 IH]; intros l2 H1 H2 H; cbn [app]; auto.
  inversion_clear H1 as [|? ? Ha H1']. constructor.
  - rewrite in_app_iff. intros [K|K]; [auto|]. apply (H a); [left; reflexivity | exact K].
  - apply IH; auto. intros x Hx. apply H. right; exact Hx.
Qed.

Lemma NoDup_app_r : forall A (l1 l2 : list A), NoDup (l1 ++ l2) -> NoDup l2.
Proof.
  induction l1 as [|a l1 IH]; intros l2 H; cbn [app] in H; auto.
  inversion_clear H. auto.
Qed.

Lemma existsb_eqb_In : forall j l, existsb (Nat.eqb j) l = true <-> In j l.
Proof.
  intros j l. rewrite existsb_exists. split.
  - intros [x [Hx E]]. apply Nat.eqb_eq in E. subst; auto.
  - intros H. exists j. split; auto. apply Nat.eqb_refl.
Qed.

Lemma existsb_eqb_notIn : forall j l, ~ In j l -> existsb (Nat.eqb j) l = false.
Proof.
  intros j l H. destruct (existsb (Nat.eqb j) l) eqn:E; auto. apply existsb_eqb_In in E. contradiction.
Qed.

Lemma seq_split_at : forall m a l x post, seq a m = l ++ x :: post -> x = a + length l /\ l = seq a (length l).
Proof.
  induction m as [|m IH]; intros a l x post H; cbn [seq] in H.
  - destruct l; discriminate H.
  - destruct l as [|y l]; cbn [app] in H; injection H as H0 H1.
    + subst. cbn [length seq]. split; [lia|reflexivity].
    + subst y. apply IH in H1. destruct H1 as [Hx Hl]. cbn [length seq]. split; [lia|]. f_equal. exact Hl.
Qed.

(* ------------------------------------------------------------------ rows of a tableau *)
Lemma prow_upd : forall l i v j, i < length l -> prow (upd l i v) j = if j =? i then v else prow l j.
Proof.
  intros l i v j H. unfold prow. destruct (Nat.eqb_spec j i) as [E|E].
  - subst. apply nth_upd_eq; exact H.
  - apply nth_upd_neq. auto.
Qed.

Lemma prow_upd_neq : forall l i v j, j <> i -> prow (upd l i v) j = prow l j.
Proof. intros. unfold prow. apply nth_upd_neq. auto. Qed.

Lemma length_set_str : forall l j g, length (set_str l j g) = length l.
Proof. intros; unfold set_str; apply length_upd. Qed.
Lemma length_swap_str : forall l i j, length (swap_str l i j) = length l.
Proof. intros; unfold swap_str; rewrite !length_set_str; reflexivity. Qed.
Lemma length_set_phase : forall l j p, length (set_phase l j p) = length l.
Proof. intros; unfold set_phase; apply length_upd. Qed.

Lemma prow_overflow : forall l j, length l <= j -> prow l j = pid 0.
Proof. intros; unfold prow; apply nth_overflow; assumption. Qed.

Lemma upd_overflow : forall A (l : list A) i v, length l <= i -> upd l i v = l.
Proof.
  induction l as [|a l IH]; intros [|i] v H; cbn [upd length] in *; auto; try lia.
  f_equal. apply IH. lia.
Qed.

Lemma snd_prow_set_str : forall l i g j, snd (prow (set_str l i g) j) = snd (prow l j).
Proof.
  intros l i g j. unfold set_str. destruct (Nat.lt_ge_cases i (length l)) as [H|H].
  - rewrite prow_upd by exact H. destruct (Nat.eqb_spec j i); subst; reflexivity.
  - rewrite upd_overflow by exact H. reflexivity.
Qed.

Lemma fst_prow_set_str : forall l i g j, i < length l ->
  fst (prow (set_str l i g) j) = if j =? i then g else fst (prow l j).
Proof.
  intros l i g j H. unfold set_str. rewrite prow_upd by exact H. destruct (j =? i); reflexivity.
Qed.

Definition tr (i j k : nat) : nat := if k =? j then i else if k =? i then j else k.

Lemma snd_prow_swap_str : forall l i j k, snd (prow (swap_str l i j) k) = snd (prow l k).
Proof. intros; unfold swap_str; rewrite !snd_prow_set_str; reflexivity. Qed.

Lemma fst_prow_swap_str : forall l i j k, i < length l -> j < length l ->
  fst (prow (swap_str l i j) k) = fst (prow l (tr i j k)).
Proof.
  intros l i j k Hi Hj. unfold swap_str, tr.
  rewrite fst_prow_set_str by (rewrite length_set_str; exact Hj).
  destruct (Nat.eqb_spec k j) as [E|E]; [reflexivity|].
  rewrite fst_prow_set_str by exact Hi.
  destruct (Nat.eqb_spec k i) as [E'|E']; reflexivity.
Qed.

Lemma fst_prow_set_phase : forall l i p j, fst (prow (set_phase l i p) j) = fst (prow l j).
Proof.
  intros l i p j. unfold set_phase. destruct (Nat.lt_ge_cases i (length l)) as [H|H].
  - rewrite prow_upd by exact H. destruct (Nat.eqb_spec j i); subst; reflexivity.
  - rewrite upd_overflow by exact H. reflexivity.
Qed.

Lemma snd_prow_set_phase : forall l i p j, i < length l ->
  snd (prow (set_phase l i p) j) = if j =? i then p else snd (prow l j).
Proof.
  intros l i p j H. unfold set_phase. rewrite prow_upd by exact H. destruct (j =? i); reflexivity.
Qed.

(* ------------------------------------------------------------------ parity of ipow *)
Lemma ipow_site_parity : forall s t, (ipow_site s t mod 2)%Z = zb (acqb_site s t).
Proof. intros [[|] [|]] [[|] [|]]; vm_compute; reflexivity. Qed.

Lemma sum2_ipow_parity : forall g1 g2, (sum2 ipow_site g1 g2 mod 2)%Z = zb (acqb g1 g2).
Proof.
  induction g1 as [|a g1 IH]; intros [|b g2]; cbn [sum2 acqb]; try reflexivity.
  rewrite <- zb_xorb_mod2, <- IH, <- ipow_site_parity. lia.
Qed.

Lemma ipow_parity : forall g1 g2, (ipow g1 g2 mod 2)%Z = zb (acqb g1 g2).
Proof. intros. rewrite <- sum2_ipow_parity. unfold ipow. rewrite modulus_ipow. lia. Qed.

Lemma bz_acq : forall a b, bz (acq a b) = acqb a b.
Proof. intros. rewrite acq_acqb. destruct (acqb a b); reflexivity. Qed.

(* ------------------------------------------------------------------ the scan *)
Definition anti (go : pstr) (l : plist) (j : nat) : bool := bz (acq (fst (prow l j)) go).

Definition mulrow (n : nat) (l : plist) (p j : nat) : pauli :=
  (gxor (fst (prow l j)) (fst (prow l p)),
   if j <? n
   then np_measure_update_phase (snd (prow l j)) (snd (prow l p)) (ipow (fst (prow l j)) (fst (prow l p)))
   else snd (prow l j)).

Definition accstep (n : nat) (l : plist) (acc : pauli) (j : nat) : pauli :=
  (gxor (fst acc) (fst (prow l (j - n))),
   np_measure_acc_phase (snd acc) (snd (prow l (j - n))) (ipow (fst acc) (fst (prow l (j - n))))).

Lemma scan_step_upd : forall n r go l ext p acc j,
  scan_step n r go (Build_scan l true ext p acc) j =
  Build_scan (if anti go l j then upd l j (mulrow n l p j) else l) true ext p acc.
Proof.
  intros. unfold scan_step, anti, mulrow. cbn [s_rows s_update s_extend s_p s_acc].
  destruct (bz (acq (fst (prow l j)) go)); reflexivity.
Qed.

Lemma scan_step_noupd : forall n r go l ext p acc j,
  scan_step n r go (Build_scan l false ext p acc) j =
  if anti go l j then
    if j <? n + r then Build_scan l true (negb ((r <=? j) && (j <? n))) j acc
    else Build_scan l false ext p (accstep n l acc j)
  else Build_scan l false ext p acc.
Proof.
  intros. unfold scan_step, anti, accstep. cbn [s_rows s_update s_extend s_p s_acc].
  destruct (bz (acq (fst (prow l j)) go)); [|reflexivity].
  destruct (j <? n + r); reflexivity.
Qed.

Lemma scan_post : forall n r go post l ext p acc,
  NoDup post -> ~ In p post -> (forall j, In j post -> j < length l) ->
  let s' := fold_left (scan_step n r go) post (Build_scan l true ext p acc) in
  s_update s' = true /\ s_extend s' = ext /\ s_p s' = p /\ length (s_rows s') = length l /\
  forall j, prow (s_rows s') j
            = if existsb (Nat.eqb j) post && anti go l j then mulrow n l p j else prow l j.
Proof.
  intros n r go. induction post as [|a post IH]; intros l ext p acc ND Hp Hlen.
  - cbn [fold_left existsb andb s_update s_extend s_p s_rows]. repeat split; reflexivity.
  - cbv zeta. cbn [fold_left]. rewrite scan_step_upd.
    inversion_clear ND as [|? ? Ha ND'].
    assert (Hpa : p <> a) by (intros E; apply Hp; left; auto).
    assert (Hal : a < length l) by (apply Hlen; left; reflexivity).
    match goal with |- context[Build_scan ?x true _ _ _] => set (l' := x) end.
    assert (Hl' : length l' = length l).
    { unfold l'. destruct (anti go l a); [apply length_upd|reflexivity]. }
    assert (Hrow : forall j, j <> a -> prow l' j = prow l j).
    { intros j Hj. unfold l'. destruct (anti go l a); [apply prow_upd_neq; exact Hj|reflexivity]. }
    specialize (IH l' ext p acc ND').
    assert (Hp' : ~ In p post) by (intros K; apply Hp; right; exact K).
    specialize (IH Hp').
    assert (Hlen' : forall j, In j post -> j < length l').
    { intros j Hj. rewrite Hl'. apply Hlen. right; exact Hj. }
    specialize (IH Hlen'). cbv zeta in IH. destruct IH as [I1 [I2 [I3 [I4 I5]]]].
    split; [exact I1|]. split; [exact I2|]. split; [exact I3|]. split; [rewrite I4; exact Hl'|].
    intros j. rewrite I5. cbn [existsb].
    destruct (Nat.eqb_spec j a) as [E|E].
    + subst j. rewrite existsb_eqb_notIn by exact Ha. cbn [andb orb].
      unfold l'. destruct (anti go l a).
      * rewrite prow_upd by exact Hal. rewrite Nat.eqb_refl. reflexivity.
      * reflexivity.
    + cbn [orb]. unfold anti, mulrow. rewrite (Hrow j E), (Hrow p Hpa). reflexivity.
Qed.

Lemma scan_pre : forall n r go l order ext p0 acc,
  let s' := fold_left (scan_step n r go) order (Build_scan l false ext p0 acc) in
  (s_update s' = false /\ s_rows s' = l /\ (forall j, In j order -> j < n + r -> anti go l j = false))
  \/ (exists pre p post acc', order = pre ++ p :: post /\
        (forall j, In j pre -> j < n + r -> anti go l j = false) /\
        p < n + r /\ anti go l p = true /\
        s' = fold_left (scan_step n r go) post
               (Build_scan l true (negb ((r <=? p) && (p <? n))) p acc')).
Proof.
  intros n r go l. induction order as [|a order IH]; intros ext p0 acc.
  - left. cbn [fold_left s_update s_rows]. repeat split. intros j [].
  - cbn [fold_left]. rewrite scan_step_noupd.
    destruct (anti go l a) eqn:Ea.
    + destruct (Nat.ltb_spec a (n + r)) as [Hlt|Hge].
      * right. exists [], a, order, acc. cbn [app]. repeat split; auto. intros j [].
      * specialize (IH ext p0 (accstep n l acc a)). cbv zeta in IH. cbv zeta.
        destruct IH as [[I1 [I2 I3]]|[pre [p [post [acc' [I1 [I2 [I3 [I4 I5]]]]]]]]].
        -- left. repeat split; auto. intros j [Hj|Hj] Hjl; [subst; lia|auto].
        -- right. exists (a :: pre), p, post, acc'. cbn [app]. split; [rewrite I1; reflexivity|]. repeat split; auto.
           intros j [Hj|Hj] Hjl; [subst; lia|auto].
    + specialize (IH ext p0 acc). cbv zeta in IH. cbv zeta.
      destruct IH as [[I1 [I2 I3]]|[pre [p [post [acc' [I1 [I2 [I3 [I4 I5]]]]]]]]].
      * left. repeat split; auto. intros j [Hj|Hj] Hjl; [subst; auto|auto].
      * right. exists (a :: pre), p, post, acc'. cbn [app]. split; [rewrite I1; reflexivity|]. repeat split; auto.
        intros j [Hj|Hj] Hjl; [subst; auto|auto].
Qed.

(* the orders used by the kernels: every index below n+r precedes every index from n+r on,
   and a stabilizer-side row j < n precedes its partner j+n *)
Definition ord_ok (n r : nat) (order : list nat) : Prop :=
  NoDup order /\ (forall j, In j order <-> j < 2 * n) /\
  forall pre p post, order = pre ++ p :: post -> p < n + r ->
    (forall j, In j pre -> j < n + r) /\ (n <= p -> In (p - n) pre).

(* THE scan characterisation: either nothing happened, or there is a pivot p = s_p and every
   other row anticommuting with go has been multiplied by the pivot row *)
Theorem scan_char : forall n r go l order, ord_ok n r order -> length l = 2 * n ->
  let s := scan_over order n r go l in
  (s_update s = false /\ s_rows s = l /\ (forall j, j < 2 * n -> j < n + r -> anti go l j = false))
  \/ (s_update s = true /\ s_p s < n + r /\ s_p s < 2 * n /\ anti go l (s_p s) = true /\
      s_extend s = negb ((r <=? s_p s) && (s_p s <? n)) /\
      length (s_rows s) = length l /\
      (forall j, j < 2 * n ->
         prow (s_rows s) j = if anti go l j && negb (j =? s_p s) then mulrow n l (s_p s) j else prow l j) /\
      (n <= s_p s -> anti go l (s_p s - n) = false)).
Proof.
  intros n r go l order [ND [Hin Hord]] Hlen. unfold scan_over.
  pose proof (scan_pre n r go l order false 0 (pid n)) as H. cbv zeta in H. cbv zeta.
  destruct H as [[I1 [I2 I3]]|[pre [p [post [acc' [I1 [I2 [I3 [I4 I5]]]]]]]]].
  - left. repeat split; auto. intros j Hj Hj'. apply I3; auto. apply Hin; exact Hj.
  - right. rewrite I5. clear I5.
    specialize (Hord pre p post I1 I3). destruct Hord as [O1 O2].
    subst order.
    assert (NDp : NoDup post).
    { apply NoDup_app_r in ND. inversion_clear ND; assumption. }
    assert (Hpp : ~ In p post).
    { apply NoDup_remove_2 in ND. intros K. apply ND. apply in_app_iff. right; exact K. }
    assert (Hppre : ~ In p pre).
    { apply NoDup_remove_2 in ND. intros K. apply ND. apply in_app_iff. left; exact K. }
    assert (Hpl : forall j, In j post -> j < length l).
    { intros j Hj. rewrite Hlen. apply Hin. apply in_app_iff. right. right. exact Hj. }
    pose proof (scan_post n r go post l (negb ((r <=? p) && (p <? n))) p acc' NDp Hpp Hpl) as HP.
    cbv zeta in HP. destruct HP as [P1 [P2 [P3 [P4 P5]]]].
    rewrite P3. split; [exact P1|]. split; [exact I3|].
    assert (Hp2 : p < 2 * n). { apply Hin. apply in_app_iff. right. left. reflexivity. }
    split; [exact Hp2|]. split; [exact I4|]. split; [exact P2|]. split; [exact P4|]. split.
    + intros j Hj. rewrite P5. apply Hin in Hj. apply in_app_iff in Hj. destruct Hj as [Hj|[Hj|Hj]].
      * rewrite (I2 j Hj (O1 j Hj)). rewrite andb_false_r. reflexivity.
      * subst j. rewrite existsb_eqb_notIn by exact Hpp. rewrite Nat.eqb_refl.
        cbn [negb andb]. rewrite andb_false_r. reflexivity.
      * assert (E : existsb (Nat.eqb j) post = true) by (apply existsb_eqb_In; exact Hj).
        rewrite E. assert (Hjp : j <> p) by (intros K; subst; contradiction).
        apply Nat.eqb_neq in Hjp. rewrite Hjp. cbn [negb andb]. rewrite andb_true_r. reflexivity.
    + intros Hn. specialize (O2 Hn). apply I2; [exact O2|]. lia.
Qed.

(* the two orders of the code *)
Lemma ord_ok_gen : forall n r S, NoDup S -> (forall j, In j S <-> j < n) -> ord_ok n r (S ++ seq n n).
Proof.
  intros n r S ND HS. split; [|split].
  - apply NoDup_app_intro; [exact ND | apply seq_NoDup |].
    intros x Hx Hx'. apply HS in Hx. apply in_seq in Hx'. lia.
  - intros j. rewrite in_app_iff, in_seq, HS. lia.
  - intros pre p post E Hp.
    apply app_eq_app in E. destruct E as [k [[E1 E2]|[E1 E2]]].
    + destruct k as [|y k]; cbn [app] in E2.
      * rewrite app_nil_r in E1. subst pre.
        assert (Hpn : p = n).
        { destruct n as [|n']; [discriminate E2|]. cbn [seq] in E2. injection E2 as E2 _. auto. }
        split.
        -- intros j Hj. apply HS in Hj. lia.
        -- intros _. apply HS. subst p. destruct n; [discriminate E2|lia].
      * injection E2 as E2 E3. subst y.
        assert (Hps : p < n). { apply HS. rewrite E1. apply in_app_iff. right. left. reflexivity. }
        split.
        -- intros j Hj. assert (In j S) by (rewrite E1; apply in_app_iff; left; exact Hj).
           apply HS in H. lia.
        -- intros K. lia.
    + pose proof (seq_split_at _ _ _ _ _ E2) as [Hx Hk].
      assert (Hkl : length k < n).
      { assert (In p (seq n n)) by (rewrite E2; apply in_app_iff; right; left; reflexivity).
        apply in_seq in H. lia. }
      split.
      * intros j Hj. subst pre. apply in_app_iff in Hj. destruct Hj as [Hj|Hj].
        -- apply HS in Hj. lia.
        -- rewrite Hk in Hj. apply in_seq in Hj. lia.
      * intros _. subst pre. apply in_app_iff. left. apply HS. lia.
Qed.

Lemma ord_ok_plain : forall n r, ord_ok n r (order_plain n).
Proof.
  intros n r. unfold order_plain. replace (2 * n) with (n + n) by lia. rewrite seq_app.
  cbn [Nat.add]. apply ord_ok_gen; [apply seq_NoDup|]. intros j. rewrite in_seq. lia.
Qed.

Lemma ord_ok_measure : forall n r, r <= n -> ord_ok n r (order_measure n r).
Proof.
  intros n r Hr. unfold order_measure. rewrite app_assoc. apply ord_ok_gen.
  - apply NoDup_app_intro; try apply seq_NoDup. intros x H1 H2. apply in_seq in H1, H2. lia.
  - intros j. rewrite in_app_iff, !in_seq. lia.
Qed.

(* ------------------------------------------------------------------ the invariant, split in strings and phases *)
Definition sympl (n i j : nat) : bool := (i + n =? j) || (j + n =? i).
Definition partner (n i : nat) : nat := (i + n) mod (2 * n).

Lemma partner_spec : forall n i, i < 2 * n ->
  (i < n /\ partner n i = i + n) \/ (n <= i /\ partner n i = i - n).
Proof.
  intros n i H. unfold partner. destruct (Nat.lt_ge_cases i n) as [L|G].
  - left. split; auto. apply Nat.mod_small. lia.
  - right. split; auto. symmetry. apply (Nat.mod_unique (i + n) (2 * n) 1 (i - n)); lia.
Qed.

Lemma partner_lt : forall n i, i < 2 * n -> partner n i < 2 * n.
Proof. intros n i H. destruct (partner_spec n i H) as [[? E]|[? E]]; rewrite E; lia. Qed.

Lemma partner_invol : forall n i, i < 2 * n -> partner n (partner n i) = i.
Proof.
  intros n i H. pose proof (partner_lt n i H) as H'.
  destruct (partner_spec n i H) as [[? E]|[? E]]; destruct (partner_spec n _ H') as [[? E']|[? E']];
    rewrite E'; rewrite E in *; lia.
Qed.

Lemma partner_neq : forall n i, i < 2 * n -> partner n i <> i.
Proof. intros n i H. destruct (partner_spec n i H) as [[? E]|[? E]]; rewrite E; lia. Qed.

Lemma partner_flip : forall n a b, a < 2 * n -> b < 2 * n -> a = partner n b -> b = partner n a.
Proof. intros n a b Ha Hb E. rewrite E. symmetry. apply partner_invol; exact Hb. Qed.

Lemma sympl_partner : forall n a b, a < 2 * n -> b < 2 * n -> sympl n a b = (b =? partner n a).
Proof.
  intros n a b Ha Hb. unfold sympl.
  destruct (partner_spec n a Ha) as [[? E]|[? E]]; rewrite E;
  destruct (Nat.eqb_spec (a + n) b); destruct (Nat.eqb_spec (b + n) a); cbn [orb]; symmetry;
  try (apply Nat.eqb_eq; lia); try (apply Nat.eqb_neq; lia).
Qed.

Definition strs_ok (n : nat) (l : plist) : Prop :=
  length l = 2 * n /\ (forall i, i < 2 * n -> length (fst (prow l i)) = n) /\
  (forall i j, i < 2 * n -> j < 2 * n -> acqb (fst (prow l i)) (fst (prow l j)) = (j =? partner n i)).
Definition phs_ok (n : nat) (l : plist) : Prop := forall i, i < 2 * n -> hermP (prow l i).

Lemma tab_expected_sympl : forall n i j, tab_expected_acq n i j = zb (sympl n i j).
Proof. intros. unfold tab_expected_acq, sympl. destruct ((i + n =? j) || (j + n =? i)); reflexivity. Qed.

Lemma zb_inj : forall a b, zb a = zb b -> a = b.
Proof. intros [|] [|] H; try reflexivity; discriminate H. Qed.

Lemma tableau_ok_iff : forall n t,
  tableau_ok n t <-> (strs_ok n (rows t) /\ phs_ok n (rows t) /\ rk t <= n).
Proof.
  intros n t. unfold tableau_ok, strs_ok, phs_ok, row, prow. split.
  - intros [H1 [H2 [H3 [H4 H5]]]]. repeat split; auto.
    intros i j Hi Hj. rewrite <- sympl_partner by assumption.
    apply zb_inj. rewrite <- acq_acqb, <- tab_expected_sympl. apply H5; auto.
  - intros [[H1 [H3 H5]] [H4 H2]]. repeat split; auto.
    intros i j Hi Hj. rewrite acq_acqb, tab_expected_sympl. f_equal.
    rewrite sympl_partner by assumption. apply H5; auto.
Qed.

Lemma tN_ok : forall n t, length (rows t) = 2 * n -> tN t = n.
Proof. intros n t H. unfold tN. rewrite H. rewrite Nat.mul_comm. apply Nat.div_mul. lia. Qed.

Lemma phs_ok_ext : forall n l l', (forall k, snd (prow l' k) = snd (prow l k)) -> phs_ok n l -> phs_ok n l'.
Proof. intros n l l' H Hl i Hi. unfold hermP. rewrite H. apply Hl; exact Hi. Qed.

(* permuting the strings by a permutation compatible with the pairing keeps the string invariant *)
Lemma strs_ok_perm : forall n l l' (sg : nat -> nat), strs_ok n l -> length l' = 2 * n ->
  (forall k, k < 2 * n -> fst (prow l' k) = fst (prow l (sg k))) ->
  (forall k, k < 2 * n -> sg k < 2 * n) ->
  (forall a, a < 2 * n -> partner n (sg a) = sg (partner n a)) ->
  (forall a b, sg a = sg b -> a = b) -> strs_ok n l'.
Proof.
  intros n l l' sg [H1 [H2 H3]] Hlen Hf Hs Hc Hinj. split; [exact Hlen|]. split.
  - intros i Hi. rewrite Hf by exact Hi. apply H2. apply Hs; exact Hi.
  - intros i j Hi Hj. rewrite !Hf by assumption. rewrite H3 by (apply Hs; assumption).
    rewrite Hc by exact Hi.
    destruct (Nat.eqb_spec (sg j) (sg (partner n i))) as [E|E]; destruct (Nat.eqb_spec j (partner n i)) as [E'|E'];
      try reflexivity.
    + exfalso. apply E'. apply Hinj. exact E.
    + exfalso. apply E. f_equal. exact E'.
Qed.

Lemma tr_invol : forall i j k, tr i j (tr i j k) = k.
Proof.
  intros i j k. unfold tr.
  destruct (Nat.eqb_spec k j) as [E1|E1].
  - destruct (Nat.eqb_spec i j) as [E2|E2]; [congruence|]. rewrite Nat.eqb_refl. congruence.
  - destruct (Nat.eqb_spec k i) as [E2|E2].
    + rewrite Nat.eqb_refl. congruence.
    + destruct (Nat.eqb_spec k j); [congruence|]. destruct (Nat.eqb_spec k i); [congruence|]. reflexivity.
Qed.

Lemma tr_inj : forall i j a b, tr i j a = tr i j b -> a = b.
Proof. intros i j a b H. rewrite <- (tr_invol i j a), <- (tr_invol i j b). f_equal. exact H. Qed.

Lemma tr_lt : forall m i j k, i < m -> j < m -> k < m -> tr i j k < m.
Proof. intros. unfold tr. destruct (k =? j); [assumption|]. destruct (k =? i); assumption. Qed.

Lemma tr_sym : forall i j k, tr i j k = tr j i k.
Proof.
  intros. unfold tr. destruct (Nat.eqb_spec k j); destruct (Nat.eqb_spec k i); congruence.
Qed.

(* conjugating a transposition by the pairing *)
Lemma tr_partner : forall n i j k, i < 2 * n -> j < 2 * n -> k < 2 * n ->
  partner n (tr i j k) = tr (partner n i) (partner n j) (partner n k).
Proof.
  intros n i j k Hi Hj Hk. unfold tr.
  destruct (Nat.eqb_spec k j) as [E1|E1].
  - subst k. rewrite Nat.eqb_refl. reflexivity.
  - destruct (Nat.eqb_spec (partner n k) (partner n j)) as [E2|E2].
    { exfalso. apply E1. rewrite <- (partner_invol n k Hk), <- (partner_invol n j Hj). f_equal. exact E2. }
    destruct (Nat.eqb_spec k i) as [E3|E3].
    + subst k. rewrite Nat.eqb_refl. reflexivity.
    + destruct (Nat.eqb_spec (partner n k) (partner n i)) as [E4|E4]; [|reflexivity].
      exfalso. apply E3. rewrite <- (partner_invol n k Hk), <- (partner_invol n i Hi). f_equal. exact E4.
Qed.

(* disjoint transpositions commute *)
Lemma tr_comm : forall i j u v k, i <> u -> i <> v -> j <> u -> j <> v ->
  tr i j (tr u v k) = tr u v (tr i j k).
Proof.
  intros i j u v k H1 H2 H3 H4. unfold tr.
  destruct (Nat.eqb_spec k v) as [E1|E1].
  - subst k. destruct (Nat.eqb_spec u j); [congruence|]. destruct (Nat.eqb_spec u i); [congruence|].
    destruct (Nat.eqb_spec v j); [congruence|]. destruct (Nat.eqb_spec v i); [congruence|].
    rewrite Nat.eqb_refl. reflexivity.
  - destruct (Nat.eqb_spec k u) as [E2|E2].
    + subst k. destruct (Nat.eqb_spec v j); [congruence|]. destruct (Nat.eqb_spec v i); [congruence|].
      destruct (Nat.eqb_spec u j); [congruence|]. destruct (Nat.eqb_spec u i); [congruence|].
      destruct (Nat.eqb_spec u v); [congruence|]. rewrite Nat.eqb_refl. reflexivity.
    + destruct (Nat.eqb_spec k j) as [E3|E3].
      * destruct (Nat.eqb_spec i v); [congruence|]. destruct (Nat.eqb_spec i u); [congruence|]. reflexivity.
      * destruct (Nat.eqb_spec k i) as [E4|E4].
        -- destruct (Nat.eqb_spec j v); [congruence|]. destruct (Nat.eqb_spec j u); [congruence|]. reflexivity.
        -- destruct (Nat.eqb_spec k v); [congruence|]. destruct (Nat.eqb_spec k u); [congruence|]. reflexivity.
Qed.

Lemma strs_ok_swap1 : forall n l i, strs_ok n l -> i < 2 * n -> strs_ok n (swap_str l i (partner n i)).
Proof.
  intros n l i Hl Hi. pose proof Hl as [H1 _].
  pose proof (partner_lt n i Hi) as Hq.
  apply (strs_ok_perm n l _ (tr i (partner n i))); auto.
  - rewrite length_swap_str; exact H1.
  - intros k Hk. apply fst_prow_swap_str; rewrite H1; assumption.
  - intros k Hk. apply tr_lt; assumption.
  - intros a Ha. rewrite tr_partner by assumption. rewrite partner_invol by exact Hi. apply tr_sym.
  - apply tr_inj.
Qed.

Lemma strs_ok_swap2 : forall n l i j, strs_ok n l -> i < 2 * n -> j < 2 * n -> i <> j -> partner n i <> j ->
  strs_ok n (swap_str (swap_str l i j) (partner n i) (partner n j)).
Proof.
  intros n l i j Hl Hi Hj Hij Hqj. pose proof Hl as [H1 _].
  pose proof (partner_lt n i Hi) as Hqi. pose proof (partner_lt n j Hj) as Hqj'.
  assert (D1 : i <> partner n i) by (intros E; apply (partner_neq n i Hi); auto).
  assert (D2 : i <> partner n j).
  { intros E. apply Hqj. rewrite E. apply partner_invol; exact Hj. }
  assert (D3 : j <> partner n i) by auto.
  assert (D4 : j <> partner n j) by (intros E; apply (partner_neq n j Hj); auto).
  apply (strs_ok_perm n l _ (fun k => tr i j (tr (partner n i) (partner n j) k))); auto.
  - rewrite !length_swap_str; exact H1.
  - intros k Hk. rewrite fst_prow_swap_str by (rewrite length_swap_str, H1; assumption).
    apply fst_prow_swap_str; rewrite H1; assumption.
  - intros k Hk. apply tr_lt; try assumption. apply tr_lt; assumption.
  - intros a Ha. cbv beta.
    rewrite tr_partner by (try assumption; apply tr_lt; assumption).
    rewrite tr_partner by assumption.
    rewrite (partner_invol n i Hi), (partner_invol n j Hj).
    symmetry. apply tr_comm; assumption.
  - intros a b E. apply tr_inj in E. apply tr_inj in E. exact E.
Qed.

(* ------------------------------------------------------------------ the symplectic pair update *)
Section Core.
Variables (n : nat) (go : pstr) (l ls : plist) (p : nat).
Hypothesis Hl : strs_ok n l.
Hypothesis Hgo : length go = n.
Hypothesis Hp : p < 2 * n.
Hypothesis Hap : anti go l p = true.
Hypothesis Hlen : length ls = length l.
Hypothesis Hrows : forall j, j < 2 * n ->
  prow ls j = if anti go l j && negb (j =? p) then mulrow n l p j else prow l j.

Let Hq : partner n p < 2 * n := partner_lt n p Hp.

Lemma core_len : forall j, j < 2 * n -> length (fst (prow l j)) = n.
Proof. destruct Hl as [_ [H _]]. exact H. Qed.

Lemma core_B : forall i j, i < 2 * n -> j < 2 * n ->
  acqb (fst (prow l i)) (fst (prow l j)) = (j =? partner n i).
Proof. destruct Hl as [_ [_ H]]. exact H. Qed.

Lemma core_ap : acqb (fst (prow l p)) go = true.
Proof. rewrite <- bz_acq. exact Hap. Qed.

Lemma ls_fst : forall j, j < 2 * n ->
  fst (prow ls j) = if acqb (fst (prow l j)) go && negb (j =? p)
                    then gxor (fst (prow l j)) (fst (prow l p)) else fst (prow l j).
Proof.
  intros j Hj. rewrite (Hrows j Hj). unfold anti. rewrite bz_acq.
  destruct (acqb (fst (prow l j)) go && negb (j =? p)); reflexivity.
Qed.

Lemma ls_p : fst (prow ls p) = fst (prow l p).
Proof. rewrite ls_fst by exact Hp. rewrite Nat.eqb_refl. cbn [negb]. rewrite andb_false_r. reflexivity. Qed.

Lemma ls_length : forall j, j < 2 * n -> length (fst (prow ls j)) = n.
Proof.
  intros j Hj. rewrite ls_fst by exact Hj.
  destruct (acqb (fst (prow l j)) go && negb (j =? p)).
  - rewrite gxor_length; rewrite !core_len by assumption; reflexivity.
  - apply core_len; exact Hj.
Qed.

Lemma ls_go : forall j, j < 2 * n -> acqb (fst (prow ls j)) go = (j =? p).
Proof.
  intros j Hj. rewrite ls_fst by exact Hj.
  destruct (acqb (fst (prow l j)) go) eqn:A; destruct (Nat.eqb_spec j p) as [E|E]; cbn [andb negb].
  - exact A.
  - rewrite acqb_xor_l by (rewrite !core_len by assumption; reflexivity).
    rewrite A, core_ap. reflexivity.
  - subst j. rewrite core_ap in A. discriminate A.
  - exact A.
Qed.

Lemma ls_ep : forall j, j < 2 * n -> acqb (fst (prow l p)) (fst (prow ls j)) = (j =? partner n p).
Proof.
  intros j Hj. rewrite ls_fst by exact Hj.
  destruct (acqb (fst (prow l j)) go && negb (j =? p)).
  - rewrite acqb_xor_r by (rewrite !core_len by assumption; reflexivity).
    rewrite acqb_self, xorb_false_r. apply core_B; assumption.
  - apply core_B; assumption.
Qed.

Lemma pivot_not_partner : forall i, i < 2 * n -> i <> partner n p -> (p =? partner n i) = false.
Proof.
  intros i Hi H. apply Nat.eqb_neq. intros E. apply H. apply partner_flip; assumption.
Qed.

Lemma ls_ls : forall i j, i < 2 * n -> j < 2 * n -> i <> partner n p -> j <> partner n p ->
  acqb (fst (prow ls i)) (fst (prow ls j)) = (j =? partner n i).
Proof.
  intros i j Hi Hj Hiq Hjq.
  assert (Eip : acqb (fst (prow l i)) (fst (prow l p)) = false).
  { rewrite core_B by assumption. apply pivot_not_partner; assumption. }
  assert (Epj : acqb (fst (prow l p)) (fst (prow l j)) = false).
  { rewrite core_B by assumption. apply Nat.eqb_neq. exact Hjq. }
  rewrite (ls_fst i Hi), (ls_fst j Hj).
  destruct (acqb (fst (prow l i)) go && negb (i =? p)); destruct (acqb (fst (prow l j)) go && negb (j =? p)).
  - rewrite acqb_xor_l by (rewrite !core_len by assumption; reflexivity).
    rewrite !acqb_xor_r by (rewrite !core_len by assumption; reflexivity).
    rewrite Eip, Epj, acqb_self, !xorb_false_r. apply core_B; assumption.
  - rewrite acqb_xor_l by (rewrite !core_len by assumption; reflexivity).
    rewrite Epj, xorb_false_r. apply core_B; assumption.
  - rewrite acqb_xor_r by (rewrite !core_len by assumption; reflexivity).
    rewrite Eip, xorb_false_r. apply core_B; assumption.
  - apply core_B; assumption.
Qed.

Definition l2_of : plist :=
  set_str (set_str ls (partner n p) (fst (prow ls p))) p go.

Lemma l2_fst : forall k, k < 2 * n ->
  fst (prow l2_of k) = if k =? p then go else if k =? partner n p then fst (prow l p) else fst (prow ls k).
Proof.
  intros k Hk. destruct Hl as [H1 _]. unfold l2_of.
  rewrite fst_prow_set_str by (rewrite length_set_str, Hlen, H1; exact Hp).
  destruct (k =? p); [reflexivity|].
  rewrite fst_prow_set_str by (rewrite Hlen, H1; exact Hq).
  rewrite ls_p. reflexivity.
Qed.

Lemma l2_snd : forall k, snd (prow l2_of k) = snd (prow ls k).
Proof. intros. unfold l2_of. rewrite !snd_prow_set_str. reflexivity. Qed.

Theorem l2_strs_ok : strs_ok n l2_of.
Proof.
  pose proof (partner_neq n p Hp) as Hqp.
  pose proof (partner_invol n p Hp) as Hqq.
  split; [|split].
  - unfold l2_of. rewrite !length_set_str, Hlen. destruct Hl as [H1 _]. exact H1.
  - intros k Hk. rewrite l2_fst by exact Hk.
    destruct (k =? p); [exact Hgo|]. destruct (k =? partner n p); [apply core_len; exact Hp|].
    apply ls_length; exact Hk.
  - intros i j Hi Hj. rewrite (l2_fst i Hi), (l2_fst j Hj).
    destruct (Nat.eqb_spec i p) as [Eip|Eip].
    + subst i. destruct (Nat.eqb_spec j p) as [Ejp|Ejp].
      * subst j. rewrite acqb_self. symmetry. apply Nat.eqb_neq. auto.
      * destruct (Nat.eqb_spec j (partner n p)) as [Ejq|Ejq].
        -- rewrite acqb_sym. apply core_ap.
        -- rewrite acqb_sym, ls_go by exact Hj. apply Nat.eqb_neq. exact Ejp.
    + destruct (Nat.eqb_spec i (partner n p)) as [Eiq|Eiq].
      * subst i. rewrite Hqq. destruct (Nat.eqb_spec j p) as [Ejp|Ejp].
        -- apply core_ap.
        -- destruct (Nat.eqb_spec j (partner n p)) as [Ejq|Ejq].
           ++ apply acqb_self.
           ++ rewrite ls_ep by exact Hj. apply Nat.eqb_neq. exact Ejq.
      * destruct (Nat.eqb_spec j p) as [Ejp|Ejp].
        -- subst j. rewrite ls_go by exact Hi. rewrite pivot_not_partner by assumption.
           apply Nat.eqb_neq. exact Eip.
        -- destruct (Nat.eqb_spec j (partner n p)) as [Ejq|Ejq].
           ++ subst j. rewrite acqb_sym, ls_ep by exact Hi.
              destruct (Nat.eqb_spec i (partner n p)); [contradiction|].
              symmetry. apply Nat.eqb_neq. intros E. apply Eip.
              rewrite <- Hqq. apply partner_flip; assumption.
           ++ apply ls_ls; assumption.
Qed.

(* phases: every multiplied stabilizer-side row commutes with the pivot row *)
Hypothesis Hph : phs_ok n l.
Hypothesis Hpart : n <= p -> anti go l (p - n) = false.

Theorem ls_phs_ok : phs_ok n ls.
Proof.
  intros j Hj. unfold hermP. rewrite (Hrows j Hj).
  destruct (anti go l j) eqn:A; [|apply Hph; exact Hj].
  destruct (Nat.eqb_spec j p) as [E|E]; [apply Hph; exact Hj|].
  cbn [andb negb]. unfold mulrow. cbn [snd].
  destruct (Nat.ltb_spec j n) as [L|G]; [|apply Hph; exact Hj].
  assert (C : acqb (fst (prow l j)) (fst (prow l p)) = false).
  { rewrite core_B by assumption. apply Nat.eqb_neq. intros K.
    destruct (partner_spec n j Hj) as [[_ PE]|[? _]]; [|lia].
    rewrite PE in K. assert (Hn : n <= p) by lia. specialize (Hpart Hn).
    replace (p - n) with j in Hpart by lia. rewrite A in Hpart. discriminate Hpart. }
  pose proof (ipow_parity (fst (prow l j)) (fst (prow l p))) as IP. rewrite C in IP. cbn [zb] in IP.
  pose proof (Hph j Hj) as P1. pose proof (Hph p Hp) as P2. unfold hermP in P1, P2.
  unfold np_measure_update_phase.
  generalize dependent (ipow (fst (prow l j)) (fst (prow l p))). intros ip IP.
  destruct P1 as [P1|P1]; destruct P2 as [P2|P2]; rewrite P1, P2; clear - IP; lia.
Qed.

Theorem l2_phs_ok : phs_ok n l2_of.
Proof. apply (phs_ok_ext n ls); [apply l2_snd | apply ls_phs_ok]. Qed.
End Core.

(* ------------------------------------------------------------------ scan + symplectic update *)
Lemma scan_noupdate : forall n r go l order, ord_ok n r order -> length l = 2 * n ->
  s_update (scan_over order n r go l) = false -> s_rows (scan_over order n r go l) = l.
Proof.
  intros n r go l order Ho Hl H. pose proof (scan_char n r go l order Ho Hl) as C. cbv zeta in C.
  destruct C as [[_ [C _]]|[C _]]; [exact C|]. rewrite C in H. discriminate H.
Qed.

Lemma scan_update_ok : forall n r go l order, ord_ok n r order -> strs_ok n l -> phs_ok n l ->
  length go = n ->
  let s := scan_over order n r go l in s_update s = true ->
  s_p s < n + r /\ s_p s < 2 * n /\ s_extend s = negb ((r <=? s_p s) && (s_p s <? n)) /\
  strs_ok n (l2_of n go (s_rows s) (s_p s)) /\ phs_ok n (s_rows s).
Proof.
  intros n r go l order Ho Hs Hp Hgo s HU. pose proof Hs as [HL _].
  pose proof (scan_char n r go l order Ho HL) as C. cbv zeta in C. fold s in C.
  destruct C as [[C _]|[_ [C1 [C2 [C3 [C4 [C5 [C6 C7]]]]]]]]; [rewrite C in HU; discriminate HU|].
  split; [exact C1|]. split; [exact C2|]. split; [exact C4|]. split.
  - apply (l2_strs_ok n go l (s_rows s) (s_p s)); assumption.
  - apply (ls_phs_ok n go l (s_rows s) (s_p s)); assumption.
Qed.

Lemma phs_ok_swap_str : forall n l i j, phs_ok n l -> phs_ok n (swap_str l i j).
Proof. intros n l i j H. apply (phs_ok_ext n l); [|exact H]. intros k. apply snd_prow_swap_str. Qed.

Lemma install_ok : forall n r go s lf r' pf, r <= n ->
  s_p s < n + r -> s_p s < 2 * n -> s_extend s = negb ((r <=? s_p s) && (s_p s <? n)) ->
  strs_ok n (l2_of n go (s_rows s) (s_p s)) -> phs_ok n (s_rows s) ->
  install n r go s = (lf, r', pf) ->
  strs_ok n lf /\ phs_ok n lf /\ r' <= n /\ (r' = r \/ S r' = r) /\ pf < 2 * n.
Proof.
  intros n r go s lf r' pf Hr Hp1 Hp2 Hext Hs Hph HI.
  assert (Hph2 : phs_ok n (l2_of n go (s_rows s) (s_p s))).
  { apply (phs_ok_ext n (s_rows s)); [|exact Hph]. intros k. apply l2_snd. }
  unfold install in HI. cbv zeta in HI.
  change ((s_p s + n) mod (2 * n)) with (partner n (s_p s)) in HI.
  change ((r - 1 + n) mod (2 * n)) with (partner n (r - 1)) in HI.
  change (set_str (set_str (s_rows s) (partner n (s_p s)) (fst (prow (s_rows s) (s_p s)))) (s_p s) go)
    with (l2_of n go (s_rows s) (s_p s)) in HI.
  destruct (s_extend s) eqn:E.
  - assert (Hr1 : 1 <= r).
    { destruct (Nat.leb_spec r (s_p s)); destruct (Nat.ltb_spec (s_p s) n); cbn [andb negb] in Hext;
        try discriminate Hext; lia. }
    destruct (Nat.eqb_spec (s_p s) (r - 1)) as [E1|E1].
    + injection HI as <- <- <-. split; [exact Hs|]. split; [exact Hph2|]. lia.
    + destruct (Nat.eqb_spec (partner n (s_p s)) (r - 1)) as [E2|E2].
      * injection HI as <- <- <-. split; [|split; [|lia]].
        -- apply strs_ok_swap1; assumption.
        -- apply phs_ok_swap_str; assumption.
      * injection HI as <- <- <-. split; [|split; [|lia]].
        -- apply strs_ok_swap2; try assumption. lia.
        -- apply phs_ok_swap_str. apply phs_ok_swap_str. assumption.
  - injection HI as <- <- <-. split; [exact Hs|]. split; [exact Hph2|]. lia.
Qed.

Lemma set_phase_ok : forall n l j ph, strs_ok n l -> phs_ok n l -> j < 2 * n -> (ph = 0 \/ ph = 2)%Z ->
  strs_ok n (set_phase l j ph) /\ phs_ok n (set_phase l j ph).
Proof.
  intros n l j ph [H1 [H2 H3]] Hp Hj Hph. split; [split; [|split]|].
  - rewrite length_set_phase; exact H1.
  - intros i Hi. rewrite fst_prow_set_phase. apply H2; exact Hi.
  - intros a b Ha Hb. rewrite !fst_prow_set_phase. apply H3; assumption.
  - intros i Hi. unfold hermP. rewrite snd_prow_set_phase by (rewrite H1; exact Hj).
    destruct (i =? j); [exact Hph|apply Hp; exact Hi].
Qed.

(* the common core of measure1 / ptrace1 / project1 / postselect1 *)
Lemma kernel_update_ok : forall n t go order lf r' pf,
  tableau_ok n t -> length go = n -> ord_ok n (rk t) order ->
  s_update (scan_over order n (rk t) go (rows t)) = true ->
  install n (rk t) go (scan_over order n (rk t) go (rows t)) = (lf, r', pf) ->
  tableau_ok n {| rows := lf; rk := r' |} /\ (r' = rk t \/ S r' = rk t) /\
  forall ph, (ph = 0 \/ ph = 2)%Z -> tableau_ok n {| rows := set_phase lf pf ph; rk := r' |}.
Proof.
  intros n t go order lf r' pf Hok Hgo Ho HU HI.
  apply tableau_ok_iff in Hok. destruct Hok as [Hs [Hp Hr]].
  pose proof (scan_update_ok n (rk t) go (rows t) order Ho Hs Hp Hgo) as S. cbv zeta in S.
  specialize (S HU). destruct S as [S1 [S2 [S3 [S4 S5]]]].
  pose proof (install_ok n (rk t) go _ lf r' pf Hr S1 S2 S3 S4 S5 HI) as [I1 [I2 [I3 [I4 I5]]]].
  split; [|split].
  - apply tableau_ok_iff. cbn [rows rk]. auto.
  - exact I4.
  - intros ph Hph. apply tableau_ok_iff. cbn [rows rk].
    pose proof (set_phase_ok n lf pf ph I1 I2 I5 Hph) as [Q1 Q2]. auto.
Qed.

Lemma kernel_noupdate_ok : forall n t go order,
  tableau_ok n t -> ord_ok n (rk t) order ->
  s_update (scan_over order n (rk t) go (rows t)) = false ->
  {| rows := s_rows (scan_over order n (rk t) go (rows t)); rk := rk t |} = t.
Proof.
  intros n t go order [HL _] Ho HU. rewrite (scan_noupdate n (rk t) go (rows t) order Ho HL HU).
  destruct t; reflexivity.
Qed.

(* ------------------------------------------------------------------ the kernels *)
Theorem measure1_ok : forall n t o coin, tableau_ok n t -> length (fst o) = n -> (coin = 0 \/ coin = 1)%Z ->
   let '(t', out, lp, used) := measure1 t o coin in
   tableau_ok n t' /\ (rk t' = rk t \/ S (rk t') = rk t) /\ (used = true -> lp = (-1)%Z) /\
   (used = false -> lp = 0%Z /\ t' = t).
Proof.
  intros n t o coin Hok Hlen Hcoin. pose proof Hok as [HL [Hr _]].
  pose proof (ord_ok_measure n (rk t) Hr) as Ho.
  unfold measure1. rewrite (tN_ok n t HL). cbv zeta.
  set (go := @fst pstr Z o). assert (Hgo : length go = n) by exact Hlen.
  destruct (s_update (scan_over (order_measure n (rk t)) n (rk t) go (rows t))) eqn:HU.
  - destruct (install n (rk t) go (scan_over (order_measure n (rk t)) n (rk t) go (rows t)))
      as [[lf r'] pf] eqn:HI.
    pose proof (kernel_update_ok n t go _ lf r' pf Hok Hgo Ho HU HI) as [K1 [K2 K3]].
    cbv beta iota. cbn [rk]. split; [|split; [exact K2|split]].
    + apply K3. unfold np_measure_coin_phase. lia.
    + reflexivity.
    + intros K; discriminate K.
  - rewrite (kernel_noupdate_ok n t go _ Hok Ho HU). cbv beta iota.
    split; [exact Hok|]. split; [left; reflexivity|]. split; [intros K; discriminate K|].
    intros _. split; reflexivity.
Qed.

Theorem measure_ok : forall n obs t coins, tableau_ok n t -> Forall (fun o => length (fst o) = n) obs ->
   Forall (fun c => c = 0 \/ c = 1)%Z coins ->
   let '(t', outs, lp, rest) := measure t obs coins in
   tableau_ok n t' /\ rk t' <= rk t /\ length outs = length obs.
Proof.
  intros n. induction obs as [|o obs IH]; intros t coins Hok Hobs Hcoins.
  - cbn [measure length]. auto.
  - cbn [measure]. inversion_clear Hobs as [|? ? Ho Hobs'].
    set (c := match coins with c :: _ => c | [] => 0%Z end).
    assert (Hc : (c = 0 \/ c = 1)%Z).
    { unfold c. destruct coins as [|c0 cs]; [left; reflexivity|]. inversion_clear Hcoins; assumption. }
    pose proof (measure1_ok n t o c Hok Ho Hc) as M.
    destruct (measure1 t o c) as [[[t1 out] lp] used].
    destruct M as [M1 [M2 _]].
    assert (Hcoins' : Forall (fun c => c = 0 \/ c = 1)%Z (if used then tl coins else coins)).
    { destruct used; [|exact Hcoins]. destruct coins as [|c0 cs]; [exact Hcoins|].
      inversion_clear Hcoins; assumption. }
    specialize (IH t1 _ M1 Hobs' Hcoins').
    destruct (measure t1 obs (if used then tl coins else coins)) as [[[t2 outs] lp2] cl].
    destruct IH as [I1 [I2 I3]]. split; [exact I1|]. split; [lia|]. cbn [length]. rewrite I3. reflexivity.
Qed.

Theorem project1_ok : forall n t go, tableau_ok n t -> length go = n -> tableau_ok n (project1 t go).
Proof.
  intros n t go Hok Hgo. pose proof Hok as [HL [Hr _]].
  pose proof (ord_ok_plain n (rk t)) as Ho.
  unfold project1. rewrite (tN_ok n t HL). cbv zeta.
  destruct (s_update (scan_over (order_plain n) n (rk t) go (rows t))) eqn:HU.
  - destruct (install n (rk t) go (scan_over (order_plain n) n (rk t) go (rows t)))
      as [[lf r'] pf] eqn:HI.
    pose proof (kernel_update_ok n t go _ lf r' pf Hok Hgo Ho HU HI) as [K1 _]. exact K1.
  - rewrite (kernel_noupdate_ok n t go _ Hok Ho HU). exact Hok.
Qed.

Theorem ptrace1_ok : forall n t z h o, tableau_ok n t -> length (fst o) = n -> hermP o ->
   tableau_ok n (fst (fst (ptrace1 (t, z, h) o))).
Proof.
  intros n t z h o Hok Hlen Hh. pose proof Hok as [HL [Hr _]].
  pose proof (ord_ok_plain n (rk t)) as Ho.
  unfold ptrace1. rewrite (tN_ok n t HL). cbv zeta.
  set (go := @fst pstr Z o). assert (Hgo : length go = n) by exact Hlen.
  destruct (s_update (scan_over (order_plain n) n (rk t) go (rows t))) eqn:HU.
  - destruct (install n (rk t) go (scan_over (order_plain n) n (rk t) go (rows t)))
      as [[lf r'] pf] eqn:HI.
    pose proof (kernel_update_ok n t go _ lf r' pf Hok Hgo Ho HU HI) as [_ [_ K3]].
    cbn [fst]. apply K3. exact Hh.
  - cbn [fst]. rewrite (kernel_noupdate_ok n t go _ Hok Ho HU). exact Hok.
Qed.

Theorem postselect1_ok : forall n t o, tableau_ok n t -> rk t = 0%nat -> length (fst o) = n -> hermP o ->
   tableau_ok n (fst (postselect1 t o)).
Proof.
  intros n t o Hok Hrk Hlen Hh. pose proof Hok as [HL [Hr _]].
  pose proof (ord_ok_plain n 0) as Ho.
  apply tableau_ok_iff in Hok. destruct Hok as [Hs [Hp _]].
  unfold postselect1. rewrite (tN_ok n t HL). cbv zeta.
  set (go := @fst pstr Z o). assert (Hgo : length go = n) by exact Hlen.
  destruct (s_update (scan_over (order_plain n) n 0 go (rows t))) eqn:HU.
  - cbn [fst].
    pose proof (scan_update_ok n 0 go (rows t) (order_plain n) Ho Hs Hp Hgo) as S. cbv zeta in S.
    specialize (S HU). destruct S as [S1 [S2 [S3 [S4 S5]]]].
    set (s := scan_over (order_plain n) n 0 go (rows t)) in *.
    change (set_str (set_str (s_rows s) ((s_p s + n) mod (2 * n)) (fst (prow (s_rows s) (s_p s)))) (s_p s) go)
      with (l2_of n go (s_rows s) (s_p s)).
    assert (Hph2 : phs_ok n (l2_of n go (s_rows s) (s_p s))).
    { apply (phs_ok_ext n (s_rows s)); [|exact S5]. intros k. apply l2_snd. }
    pose proof (set_phase_ok n _ (s_p s) (snd o) S4 Hph2 S2 Hh) as [Q1 Q2].
    apply tableau_ok_iff. cbn [rows rk]. auto.
  - cbn [fst]. rewrite (scan_noupdate n 0 go (rows t) (order_plain n) Ho HL HU).
    apply tableau_ok_iff. cbn [rows rk]. auto.
Qed.

(* ------------------------------------------------------------------ the initial tableaus *)
Lemma nth_odds_aux : forall A (l : list A),
  (forall j d, nth j (odds l) d = nth (2 * j + 1) l d) /\
  (forall a j d, nth j (odds (a :: l)) d = nth (2 * j + 1) (a :: l) d).
Proof.
  induction l as [|b l [IH1 IH2]].
  - split.
    + intros j d. cbn [odds]. destruct j; destruct (2 * 0 + 1); reflexivity || (destruct (2 * S j + 1); reflexivity).
    + intros a j d. cbn [odds]. replace (2 * j + 1) with (S (2 * j)) by lia. cbn [nth].
      destruct j; destruct (2 * 0); try reflexivity; destruct (2 * S j); reflexivity.
  - split; [apply IH2|].
    intros a j d. cbn [odds]. destruct j as [|j].
    + reflexivity.
    + replace (2 * S j + 1) with (S (S (2 * j + 1))) by lia. cbn [nth]. apply IH1.
Qed.

Lemma nth_odds : forall A (l : list A) j d, nth j (odds l) d = nth (2 * j + 1) l d.
Proof. intros A l. apply (nth_odds_aux A l). Qed.

Lemma nth_evens_aux : forall A (l : list A),
  (forall j d, nth j (evens l) d = nth (2 * j) l d) /\
  (forall a j d, nth j (evens (a :: l)) d = nth (2 * j) (a :: l) d).
Proof.
  induction l as [|b l [IH1 IH2]].
  - split.
    + intros j d. cbn [evens]. destruct j; destruct (2 * 0); reflexivity || (destruct (2 * S j); reflexivity).
    + intros a j d. cbn [evens]. destruct j as [|j]; [reflexivity|].
      replace (2 * S j) with (S (S (2 * j))) by lia. cbn [nth]. destruct j; reflexivity.
  - split; [apply IH2|].
    intros a j d. cbn [evens]. destruct j as [|j].
    + reflexivity.
    + replace (2 * S j) with (S (S (2 * j))) by lia. cbn [nth]. apply IH1.
Qed.

Lemma nth_evens : forall A (l : list A) j d, nth j (evens l) d = nth (2 * j) l d.
Proof. intros A l. apply (nth_evens_aux A l). Qed.

Lemma length_odds_evens : forall A n (l : list A), length l = 2 * n ->
  length (odds l) = n /\ length (evens l) = n.
Proof.
  induction n as [|n IH]; intros l H.
  - destruct l; [split; reflexivity|discriminate H].
  - destruct l as [|a [|b l]]; try (cbn [length] in H; lia).
    cbn [length] in H. destruct (IH l ltac:(lia)) as [I1 I2]. cbn [odds evens length]. split; lia.
Qed.

Fixpoint ustr (m a k : nat) : pstr :=
  match m with 0 => [] | S m' => (k =? a, k =? a + 1) :: ustr m' (a + 2) k end.

Lemma unflat_unit : forall k m a, unflat (map (fun j => Nat.eqb k j) (seq a (2 * m))) = ustr m a k.
Proof.
  intros k. induction m as [|m IH]; intros a.
  - reflexivity.
  - replace (2 * S m) with (S (S (2 * m))) by lia. cbn [seq map unflat ustr].
    rewrite Nat.add_1_r. f_equal. replace (a + 2) with (S (S a)) by lia. apply IH.
Qed.

Lemma unit_str_ustr : forall n k, unit_str n k = ustr n 0 k.
Proof. intros. unfold unit_str, Z2.unit_row. apply unflat_unit. Qed.

Lemma ustr_length : forall m a k, length (ustr m a k) = m.
Proof. induction m as [|m IH]; intros; cbn [ustr length]; [reflexivity|]. rewrite IH. reflexivity. Qed.

Lemma ustr_acqb : forall m a k k',
  acqb (ustr m a k) (ustr m a k') = true <->
  exists i, i < m /\ ((k = a + 2 * i /\ k' = a + 2 * i + 1) \/ (k = a + 2 * i + 1 /\ k' = a + 2 * i)).
Proof.
  induction m as [|m IH]; intros a k k'.
  - cbn [ustr acqb]. split; [discriminate|]. intros [i [Hi _]]. lia.
  - cbn [ustr acqb]. unfold acqb_site. cbn [fst snd]. specialize (IH (a + 2) k k').
    split.
    + intros H.
      destruct (acqb (ustr m (a + 2) k) (ustr m (a + 2) k')) eqn:R.
      * destruct IH as [IH _]. destruct (IH eq_refl) as [i [Hi Hc]]. exists (S i). lia.
      * rewrite xorb_false_r in H. exists 0.
        destruct (Nat.eqb_spec k a); destruct (Nat.eqb_spec k (a + 1));
        destruct (Nat.eqb_spec k' a); destruct (Nat.eqb_spec k' (a + 1)); cbn in H; try discriminate H; lia.
    + intros [i [Hi Hc]]. destruct i as [|i].
      * assert (R : acqb (ustr m (a + 2) k) (ustr m (a + 2) k') = false).
        { destruct (acqb (ustr m (a + 2) k) (ustr m (a + 2) k')); [|reflexivity].
          destruct IH as [IH _]. destruct (IH eq_refl) as [i' [Hi' Hc']]. lia. }
        rewrite R, xorb_false_r.
        destruct Hc as [[E1 E2]|[E1 E2]]; subst k k';
        destruct (Nat.eqb_spec (a + 2 * 0) a); destruct (Nat.eqb_spec (a + 2 * 0) (a + 1));
        destruct (Nat.eqb_spec (a + 2 * 0 + 1) a); destruct (Nat.eqb_spec (a + 2 * 0 + 1) (a + 1));
        try lia; reflexivity.
      * assert (R : acqb (ustr m (a + 2) k) (ustr m (a + 2) k') = true).
        { apply IH. exists i. lia. }
        rewrite R.
        destruct (Nat.eqb_spec k a); destruct (Nat.eqb_spec k (a + 1));
        destruct (Nat.eqb_spec k' a); destruct (Nat.eqb_spec k' (a + 1)); try lia; reflexivity.
Qed.

Definition init_idx (n j : nat) : nat := if j <? n then 2 * j + 1 else 2 * (j - n).

Lemma init_row : forall n j, j < 2 * n ->
  prow (map_to_state (identity_map n)) j = (unit_str n (init_idx n j), 0%Z).
Proof.
  intros n j Hj. unfold prow, map_to_state, init_idx.
  assert (HL : length (identity_map n) = 2 * n).
  { unfold identity_map. rewrite map_length, seq_length. reflexivity. }
  destruct (length_odds_evens _ n _ HL) as [L1 L2].
  assert (Hnth : forall k, k < 2 * n -> nth k (identity_map n) (pid 0) = (unit_str n k, 0%Z)).
  { intros k Hk. unfold identity_map.
    set (f := fun k : nat => (unit_str n k, 0%Z)).
    rewrite (nth_indep _ (pid 0) (f 0)) by (rewrite map_length, seq_length; exact Hk).
    rewrite map_nth. rewrite seq_nth by exact Hk. reflexivity. }
  destruct (Nat.ltb_spec j n) as [L|G].
  - rewrite app_nth1 by (rewrite L1; exact L). rewrite nth_odds. apply Hnth. lia.
  - rewrite app_nth2 by (rewrite L1; exact G). rewrite L1, nth_evens. apply Hnth. lia.
Qed.

Lemma init_strs_phs : forall n, strs_ok n (map_to_state (identity_map n)) /\ phs_ok n (map_to_state (identity_map n)).
Proof.
  intros n.
  assert (HL : length (identity_map n) = 2 * n).
  { unfold identity_map. rewrite map_length, seq_length. reflexivity. }
  destruct (length_odds_evens _ n _ HL) as [L1 L2].
  split; [split; [|split]|].
  - unfold map_to_state. rewrite app_length, L1, L2. lia.
  - intros i Hi. rewrite init_row by exact Hi. cbn [fst]. rewrite unit_str_ustr. apply ustr_length.
  - intros i j Hi Hj. rewrite !init_row by assumption. cbn [fst]. rewrite !unit_str_ustr.
    apply eq_true_iff_eq. rewrite ustr_acqb, Nat.eqb_eq. unfold init_idx.
    destruct (partner_spec n i Hi) as [[Li E]|[Gi E]]; rewrite E; clear E;
    destruct (Nat.ltb_spec i n); try lia; destruct (Nat.ltb_spec j n); (split; [intros [w [Hw Hc]]; lia|intros E]).
    + exfalso; lia.
    + exists i. lia.
    + exists (i - n). lia.
    + exfalso; lia.
  - intros i Hi. rewrite init_row by exact Hi. left. reflexivity.
Qed.

Theorem zero_state_ok : forall n, tableau_ok n (zero_state n).
Proof.
  intros n. apply tableau_ok_iff. unfold zero_state, to_state. cbn [rows rk].
  destruct (init_strs_phs n) as [H1 H2]. split; [exact H1|]. split; [exact H2|]. lia.
Qed.

Theorem mixed_state_ok : forall n, tableau_ok n (mixed_state n).
Proof.
  intros n. apply tableau_ok_iff. unfold mixed_state, to_state. cbn [rows rk].
  destruct (init_strs_phs n) as [H1 H2]. split; [exact H1|]. split; [exact H2|]. lia.
Qed.

(* ------------------------------------------------------------------ corollaries for the list versions *)
Corollary project_ok : forall n gos t, tableau_ok n t -> Forall (fun g => length g = n) gos ->
  tableau_ok n (project t gos).
Proof.
  intros n. unfold project. induction gos as [|g gos IH]; intros t Hok HF; cbn [fold_left]; [exact Hok|].
  inversion_clear HF as [|? ? Hg HF']. apply IH; [|exact HF']. apply project1_ok; assumption.
Qed.

Corollary projection_trace_ok : forall n obs t, tableau_ok n t ->
  Forall (fun o => length (fst o) = n /\ hermP o) obs ->
  tableau_ok n (fst (fst (projection_trace t obs))).
Proof.
  intros n obs t Hok HF. unfold projection_trace.
  assert (G : forall obs st, tableau_ok n (fst (fst st)) ->
              Forall (fun o => length (fst o) = n /\ hermP o) obs ->
              tableau_ok n (fst (fst (fold_left ptrace1 obs st)))).
  { clear. induction obs as [|o obs IH]; intros st Hok HF; cbn [fold_left]; [exact Hok|].
    inversion_clear HF as [|? ? [Ho1 Ho2] HF']. apply IH; [|exact HF'].
    destruct st as [[t z] h]. cbn [fst] in Hok. apply ptrace1_ok; assumption. }
  apply G; [exact Hok|exact HF].
Qed.
