(* Proofs/PositiveFacts.v -- the density matrix of every valid tableau is Hermitian and positive semidefinite:
   <v|rho|v> = 2^r * sum_m |(rho v)_m|^2 for every vector v. *)
From Coq Require Import ZArith List Bool Lia ZifyBool Arith Permutation.
From Coq Require Import QArith Qcanon.
From PC Require Import Gen.Kernels Model.Base Model.Pauli Model.Ket Model.CMap Model.Tableau Model.Circuit Model.Spec
  Model.Poly Model.PolySem Model.Sample
  Proofs.PauliFacts Proofs.SampleFacts Proofs.PolyFacts Proofs.TraceFacts.
Import ListNotations.
Open Scope Z_scope.
Ltac Zify.zify_post_hook ::= Z.to_euclidean_division_equations.

(* ------------------------------------------------------------------ definitions (names fixed) *)
Definition cconj (c : coef) : coef := (fst c, (- snd c)%Qc).
Definition cnorm2c (c : coef) : coef := ((fst c * fst c + snd c * snd c)%Qc, 0%Qc).       (* |c|^2 as a coef *)
(* (P v)_k' = sum_k <k'|P|k> v_k *)
Definition mvec (n : nat) (p : poly) (v : ket -> coef) (k' : ket) : coef :=
  csum (map (fun k => cmul (amp p k k') (v k)) (all_kets n)).
(* <v|P|v> = sum_k' conj(v_k') (P v)_k' *)
Definition quad (n : nat) (p : poly) (v : ket -> coef) : coef :=
  csum (map (fun k' => cmul (cconj (v k')) (mvec n p v k')) (all_kets n)).

(* ------------------------------------------------------------------ conjugation algebra *)
Ltac cjring := unfold cconj, cnorm2c, cadd, cmul, cneg, cmul_i, c0, c1; cbn [fst snd]; f_equal; ring.

Lemma cconj_cadd : forall a b, cconj (cadd a b) = cadd (cconj a) (cconj b).
Proof. intros [ar ai] [br bi]; cjring. Qed.
Lemma cconj_cmul : forall a b, cconj (cmul a b) = cmul (cconj a) (cconj b).
Proof. intros [ar ai] [br bi]; cjring. Qed.
Lemma cconj_c0 : cconj c0 = c0.
Proof. cjring. Qed.
Lemma cconj_c1 : cconj c1 = c1.
Proof. cjring. Qed.
Lemma cconj_invol : forall a, cconj (cconj a) = a.
Proof. intros [ar ai]; cjring. Qed.
Lemma cconj_cneg : forall a, cconj (cneg a) = cneg (cconj a).
Proof. intros [ar ai]; cjring. Qed.
Lemma cconj_real : forall a, snd a = 0%Qc -> cconj a = a.
Proof. intros [ar ai] H. cbn [snd] in H. subst ai. cjring. Qed.
Lemma cnorm2c_eq : forall c, cnorm2c c = cmul (cconj c) c.
Proof. intros [a b]; cjring. Qed.

Lemma csum_map_cconj : forall {A} (f : A -> coef) l,
  csum (map (fun x => cconj (f x)) l) = cconj (csum (map f l)).
Proof.
  intros A f l. induction l as [|a l IH]; cbn [map].
  - rewrite csum_nil, cconj_c0. reflexivity.
  - rewrite !csum_cons, IH, cconj_cadd. reflexivity.
Qed.

Lemma half_pow_real : forall n, snd (half_pow n) = 0%Qc.
Proof.
  induction n as [|n IH]; [reflexivity|].
  cbn [half_pow]. unfold cmul, chalf. cbn [fst snd]. rewrite IH. ring.
Qed.

Lemma cconj_half_pow : forall n, cconj (half_pow n) = half_pow n.
Proof. intros n. apply cconj_real. apply half_pow_real. Qed.

(* conj(i^b) = i^a when a + b = 0 mod 4 *)
Lemma cipow_conj_c1 : forall a b, (a + b) mod 4 = 0 -> cipow a c1 = cconj (cipow b c1).
Proof.
  intros a b H. unfold cipow.
  assert (C : (a mod 4 = 0 /\ b mod 4 = 0) \/ (a mod 4 = 1 /\ b mod 4 = 3) \/
              (a mod 4 = 2 /\ b mod 4 = 2) \/ (a mod 4 = 3 /\ b mod 4 = 1)) by lia.
  destruct C as [[Ea Eb]|[[Ea Eb]|[[Ea Eb]|[Ea Eb]]]]; rewrite Ea, Eb; cbn [Z.eqb Pos.eqb]; cjring.
Qed.

(* ------------------------------------------------------------------ the complete set of basis kets *)
Lemma all_kets_In : forall n k, In k (all_kets n) <-> length k = n.
Proof.
  induction n as [|n IH]; intros k.
  - cbn [all_kets In]. split.
    + intros [E|[]]. subst k. reflexivity.
    + intros H. left. destruct k; [reflexivity | discriminate H].
  - cbn [all_kets]. rewrite in_app_iff, !in_map_iff. split.
    + intros [[x [E Hx]]|[x [E Hx]]]; subst k; cbn [length]; f_equal; apply IH; exact Hx.
    + intros H. destruct k as [|b k]; [discriminate H|]. cbn [length] in H. injection H as H.
      destruct b; [right | left]; exists k; (split; [reflexivity | apply IH; exact H]).
Qed.

Lemma NoDup_app_intro : forall {A} (l1 l2 : list A), NoDup l1 -> NoDup l2 -> (forall x, In x l1 -> ~ In x l2) -> NoDup (l1 ++ l2).
Proof.
  intros A l1 l2 H1 H2 Hd. induction l1 as [|a l1 IH]; [exact H2|].
  inversion_clear H1 as [|? ? Hna H1']. cbn [app]. constructor.
  - rewrite in_app_iff. intros [Hin|Hin]; [exact (Hna Hin) | exact (Hd a (or_introl eq_refl) Hin)].
  - apply IH; [exact H1'|]. intros x Hx. apply Hd. right. exact Hx.
Qed.

Lemma all_kets_NoDup : forall n, NoDup (all_kets n).
Proof.
  induction n as [|n IH].
  - cbn [all_kets]. constructor; [intros [] | constructor].
  - cbn [all_kets]. apply NoDup_app_intro.
    + apply NoDup_map_inj_on; [|exact IH]. intros x y _ _ E. injection E as E. exact E.
    + apply NoDup_map_inj_on; [|exact IH]. intros x y _ _ E. injection E as E. exact E.
    + intros x H1 H2. apply in_map_iff in H1. apply in_map_iff in H2.
      destruct H1 as [a [E1 _]]. destruct H2 as [b [E2 _]]. subst x. discriminate E2.
Qed.

Lemma ket_eqb_neq : forall a b, a <> b -> ket_eqb a b = false.
Proof.
  intros a b H. destruct (ket_eqb a b) eqn:E; [|reflexivity]. exfalso. apply H. apply ket_eqb_eq. exact E.
Qed.

(* ------------------------------------------------------------------ matrix product through a complete set of intermediate kets *)
Theorem amp_matrix_product : forall n p q k k', well_sized n p -> well_sized n q -> length k = n ->
   amp (pmulp p q) k k' = csum (map (fun m => cmul (amp q k m) (amp p m k')) (all_kets n)).
Proof.
  intros n p q k k' Wp Wq Hk.
  rewrite (amp_pmulp n p q k k' Wp Wq Hk), amp_after_proj. symmetry.
  transitivity (csum (map (fun m => csum (map (fun t : term => cmul (amp p m k') (amp_term t k m)) q)) (all_kets n))).
  { apply csum_map_ext. intros m _. rewrite csum_map_cmul. rewrite cmul_comm. reflexivity. }
  rewrite (csum_swap (fun (t : term) (m : ket) => cmul (amp p m k') (amp_term t k m)) q (all_kets n)).
  apply csum_map_ext. intros t Ht.
  assert (Lt : length (fst (snd t)) = n) by (exact (proj1 (Forall_forall _ q) Wq t Ht)).
  assert (L1 : length (snd (act (snd t) k)) = n).
  { rewrite (act_length (snd t) k); [exact Lt | transitivity n; [exact Hk | symmetry; exact Lt]]. }
  rewrite (csum_unique (fun m => cmul (amp p m k') (amp_term t k m)) (all_kets n) (snd (act (snd t) k))).
  - rewrite amp_term_proj, ket_eqb_refl. apply cmul_comm.
  - apply all_kets_In. exact L1.
  - intros m _ Hne. rewrite amp_term_proj, ket_eqb_neq; [apply cmul_0_r|]. intros E. apply Hne. symmetry. exact E.
  - apply all_kets_NoDup.
Qed.

(* ------------------------------------------------------------------ a Pauli string acts as an involution *)
Lemma act_site_invol : forall s b,
  snd (act_site s (snd (act_site s b))) = b /\
  (fst (act_site s (snd (act_site s b))) + fst (act_site s b)) mod 4 = 0.
Proof. intros [[|] [|]] [|]; split; reflexivity. Qed.

Lemma act_str_invol : forall g k, length k = length g ->
  snd (act_str g (snd (act_str g k))) = k /\
  (fst (act_str g (snd (act_str g k))) + fst (act_str g k)) mod 4 = 0.
Proof.
  induction g as [|s g IH]; intros [|b k] HL; try discriminate HL.
  - split; reflexivity.
  - cbn [length] in HL. injection HL as HL. destruct (IH k HL) as [I1 I2].
    destruct (act_site_invol s b) as [S1 S2].
    rewrite (act_str_cons s g b k). cbn [fst snd]. rewrite act_str_cons. cbn [fst snd]. split.
    + rewrite S1, I1. reflexivity.
    + lia.
Qed.

Lemma base_hermitian : forall g k k', length k = length g -> length k' = length g ->
  base g k' k = cconj (base g k k').
Proof.
  intros g k k' Hk Hk'. unfold base.
  destruct (ket_eqb (snd (act_str g k')) k) eqn:E1.
  - apply ket_eqb_eq in E1. subst k. destruct (act_str_invol g k' Hk') as [I1 I2].
    rewrite I1, ket_eqb_refl. apply cipow_conj_c1. rewrite Z.add_comm. exact I2.
  - destruct (ket_eqb (snd (act_str g k)) k') eqn:E2.
    + exfalso. apply ket_eqb_eq in E2. subst k'. destruct (act_str_invol g k Hk) as [I1 _].
      rewrite I1, ket_eqb_refl in E1. discriminate E1.
    + rewrite cconj_c0. reflexivity.
Qed.

(* a single Hermitian Pauli (phase 0 or 2) has a Hermitian matrix *)
Theorem amp_term_hermitian : forall n c a k k', length (fst a) = n -> hermP a -> length k = n -> length k' = n ->
   amp_term (c, a) k' k = cconj (amp_term (cconj c, a) k k').
Proof.
  intros n c [g p] k k' Hg Hh Hk Hk'. cbn [fst] in Hg.
  rewrite !amp_term_base, cconj_cmul.
  rewrite <- (base_hermitian g k k') by (rewrite Hg; assumption).
  f_equal. destruct Hh as [H|H]; cbn [snd] in H; subst p.
  - rewrite !cipow_0 by reflexivity. rewrite cconj_invol. reflexivity.
  - rewrite !cipow_2 by reflexivity. rewrite cconj_cneg, cconj_invol. reflexivity.
Qed.

Theorem rho_hermitian_matrix : forall n t k k', tableau_ok n t -> length k = n -> length k' = n ->
   amp (density_poly t) k' k = cconj (amp (density_poly t) k k').
Proof.
  intros n t k k' Hok Hk Hk'. unfold amp, density_poly. rewrite !map_map.
  rewrite <- csum_map_cconj. apply csum_map_ext. intros a Ha.
  destruct (rho_terms_hermitian n t a Hok Ha) as [Hh HL]. cbv beta.
  etransitivity; [exact (amp_term_hermitian n (half_pow (tN t)) a k k' HL Hh Hk Hk')|].
  rewrite cconj_half_pow. reflexivity.
Qed.

(* ------------------------------------------------------------------ rho (rho v) = 2^-r (rho v) *)
Lemma rho_mvec_idem : forall n t v k, tableau_ok n t ->
  csum (map (fun m => cmul (amp (density_poly t) m k) (mvec n (density_poly t) v m)) (all_kets n))
  = cmul (half_pow (rk t)) (mvec n (density_poly t) v k).
Proof.
  intros n t v k Hok. set (R := density_poly t). set (h := half_pow (rk t)).
  pose proof (density_poly_sized n t Hok) as W. fold R in W.
  transitivity (csum (map (fun m => csum (map (fun j => cmul (cmul (amp R j m) (amp R m k)) (v j)) (all_kets n))) (all_kets n))).
  { apply csum_map_ext. intros m _. unfold mvec. rewrite <- csum_map_cmul. apply csum_map_ext. intros j _.
    rewrite <- cmul_assoc. rewrite (cmul_comm (amp R m k)). reflexivity. }
  rewrite (csum_swap (fun (j m : ket) => cmul (cmul (amp R j m) (amp R m k)) (v j)) (all_kets n) (all_kets n)).
  unfold mvec. rewrite <- csum_map_cmul. apply csum_map_ext. intros j Hj. apply all_kets_In in Hj.
  transitivity (cmul (v j) (csum (map (fun m => cmul (amp R j m) (amp R m k)) (all_kets n)))).
  { rewrite <- csum_map_cmul. apply csum_map_ext. intros m _. apply cmul_comm. }
  rewrite <- (amp_matrix_product n R R j k W W Hj). unfold R at 1 2.
  rewrite (rho_squared n t j k Hok Hj). fold R. fold h.
  rewrite cmul_comm, cmul_assoc. reflexivity.
Qed.

Lemma cconj_mvec_rho : forall n t v m, tableau_ok n t -> length m = n ->
  cconj (mvec n (density_poly t) v m)
  = csum (map (fun k => cmul (amp (density_poly t) m k) (cconj (v k))) (all_kets n)).
Proof.
  intros n t v m Hok Hm. unfold mvec. rewrite <- csum_map_cconj. apply csum_map_ext. intros k Hk.
  apply all_kets_In in Hk. rewrite cconj_cmul. rewrite <- (rho_hermitian_matrix n t k m Hok Hk Hm). reflexivity.
Qed.

(* MAIN: <v|rho|v> = 2^r * sum_m |(rho v)_m|^2, a non-negative rational, for EVERY vector v *)
Theorem rho_quadratic_form : forall n t v, tableau_ok n t ->
   cmul (half_pow (rk t)) (quad n (density_poly t) v) = csum (map (fun m => cnorm2c (mvec n (density_poly t) v m)) (all_kets n)).
Proof.
  intros n t v Hok. set (R := density_poly t). set (h := half_pow (rk t)). symmetry.
  transitivity (csum (map (fun m => csum (map (fun k => cmul (cmul (amp R m k) (cconj (v k))) (mvec n R v m)) (all_kets n))) (all_kets n))).
  { apply csum_map_ext. intros m Hm. apply all_kets_In in Hm.
    rewrite cnorm2c_eq. unfold R. rewrite (cconj_mvec_rho n t v m Hok Hm). fold R.
    rewrite cmul_comm, <- csum_map_cmul. apply csum_map_ext. intros k _. apply cmul_comm. }
  rewrite (csum_swap (fun (k m : ket) => cmul (cmul (amp R m k) (cconj (v k))) (mvec n R v m)) (all_kets n) (all_kets n)).
  unfold quad. rewrite <- csum_map_cmul. apply csum_map_ext. intros k _.
  transitivity (cmul (cconj (v k)) (csum (map (fun m => cmul (amp R m k) (mvec n R v m)) (all_kets n)))).
  { rewrite <- csum_map_cmul. apply csum_map_ext. intros m _.
    rewrite (cmul_comm (amp R m k)). apply cmul_assoc. }
  unfold R. rewrite (rho_mvec_idem n t v k Hok). fold R. fold h.
  rewrite <- !cmul_assoc. rewrite (cmul_comm h). reflexivity.
Qed.

(* ------------------------------------------------------------------ non-negative reals among the Gaussian rationals *)
Definition nnreal (c : coef) : Prop := exists x : Qc, (0 <= x)%Qc /\ c = (x, 0%Qc).

Lemma nnreal_c0 : nnreal c0.
Proof. exists 0%Qc. split; [apply Qcle_refl | reflexivity]. Qed.

Lemma nnreal_cadd : forall a b, nnreal a -> nnreal b -> nnreal (cadd a b).
Proof.
  intros a b [x [Hx Ea]] [y [Hy Eb]]. subst a b. exists (x + y)%Qc. split.
  - replace 0%Qc with (0 + 0)%Qc by ring. apply Qcplus_le_compat; assumption.
  - unfold cadd. cbn [fst snd]. f_equal; ring.
Qed.

Lemma nnreal_cnorm2c : forall c, nnreal (cnorm2c c).
Proof.
  intros [a b]. exists (a * a + b * b)%Qc. split; [|reflexivity].
  replace 0%Qc with (0 + 0)%Qc by ring. apply Qcplus_le_compat; apply Qcsqr_nonneg.
Qed.

Lemma nnreal_csum_map : forall {A} (f : A -> coef) l, (forall x, nnreal (f x)) -> nnreal (csum (map f l)).
Proof.
  intros A f l H. induction l as [|a l IH]; cbn [map].
  - rewrite csum_nil. apply nnreal_c0.
  - rewrite csum_cons. apply nnreal_cadd; [apply H | exact IH].
Qed.

Lemma nnreal_two_pow_mul : forall n c, nnreal c -> nnreal (cmul (two_pow n) c).
Proof.
  induction n as [|n IH]; intros c Hc.
  - change (two_pow 0) with c1. rewrite cmul_1_l. exact Hc.
  - rewrite two_pow_S, cmul_cadd_distr_r. apply nnreal_cadd; apply IH; exact Hc.
Qed.

Theorem rho_positive : forall n t v, tableau_ok n t -> exists x : Qc, (0 <= x)%Qc /\ quad n (density_poly t) v = (x, 0%Qc).
Proof.
  intros n t v Hok. change (nnreal (quad n (density_poly t) v)).
  rewrite <- (cmul_1_l (quad n (density_poly t) v)), <- (half_pow_two_pow (rk t)).
  rewrite (cmul_comm (half_pow (rk t))), cmul_assoc, (rho_quadratic_form n t v Hok).
  apply nnreal_two_pow_mul. apply nnreal_csum_map. intros m. apply nnreal_cnorm2c.
Qed.
