(* Proofs/Z2Facts.v -- GF(2) Gauss-Jordan inversion and rank, as implemented in Model/Z2.v *)
From Coq Require Import ZArith List Bool Lia ZifyBool Arith.
From PC Require Import Model.Base Model.Z2.
Import ListNotations.
Open Scope Z_scope.
Ltac Zify.zify_post_hook ::= Z.to_euclidean_division_equations.
Local Open Scope nat_scope.

Definition square (n : nat) (a : bmat) : Prop := length a = n /\ Forall (fun r => length r = n) a.

(* ------------------------------------------------------------------ *)
(* generic list facts                                                  *)
(* ------------------------------------------------------------------ *)

Lemma upd_len : forall (A : Type) (l : list A) i v, length (upd l i v) = length l.
Proof.
  induction l as [|a l IH]; intros [|i] v; cbn [upd length]; auto.
Qed.

Lemma nth_upd_eq : forall (A : Type) (l : list A) i v d, i < length l -> nth i (upd l i v) d = v.
Proof.
  induction l as [|a l IH]; intros [|i] v d H; cbn [upd nth length] in *; try lia; auto.
  apply IH; lia.
Qed.

Lemma nth_upd_neq : forall (A : Type) (l : list A) i k v d, k <> i -> nth k (upd l i v) d = nth k l d.
Proof.
  induction l as [|a l IH]; intros [|i] [|k] v d H; cbn [upd nth]; auto; try lia.
Qed.

Lemma nth_map_lt : forall (A B : Type) (f : A -> B) l k d d', k < length l -> nth k (map f l) d = f (nth k l d').
Proof.
  induction l as [|a l IH]; intros [|k] d d' H; cbn [map nth length] in *; try lia; auto.
  apply IH; lia.
Qed.

Lemma map_seq_nth : forall (A : Type) (l : list A) d, map (fun k => nth k l d) (seq 0 (length l)) = l.
Proof.
  intros A l d. apply nth_ext with (d := d) (d' := d).
  - rewrite map_length, seq_length; reflexivity.
  - intros k Hk. rewrite map_length, seq_length in Hk.
    rewrite nth_map_lt with (d' := 0) by (rewrite seq_length; exact Hk).
    rewrite seq_nth by exact Hk. reflexivity.
Qed.

Definition xr (u v : list bool) : list bool := map2 xorb u v.

Lemma map2_length : forall (A B C : Type) (f : A -> B -> C) u v, length u = length v -> length (map2 f u v) = length u.
Proof.
  induction u as [|a u IH]; intros [|b v] H; cbn [map2 length] in *; try lia; auto.
Qed.

Lemma xr_length : forall u v, length u = length v -> length (xr u v) = length u.
Proof. intros; apply map2_length; auto. Qed.

Lemma nth_xr : forall u v j, length u = length v -> nth j (xr u v) false = xorb (nth j u false) (nth j v false).
Proof.
  unfold xr. induction u as [|a u IH]; intros [|b v] j H; cbn [map2 length] in *; try lia.
  - destruct j; reflexivity.
  - destruct j; cbn [nth]; auto.
Qed.

Lemma xr_invol : forall u v, length u = length v -> xr (xr u v) v = u.
Proof.
  unfold xr. induction u as [|a u IH]; intros [|b v] H; cbn [map2 length] in *; try lia; auto.
  rewrite IH by lia. f_equal. destruct a, b; reflexivity.
Qed.

Lemma firstn_xr : forall n u v, firstn n (xr u v) = xr (firstn n u) (firstn n v).
Proof.
  unfold xr. induction n as [|n IH]; intros [|a u] [|b v]; cbn [firstn map2]; auto.
  f_equal; apply IH.
Qed.

Lemma skipn_xr : forall n u v, length u = length v -> skipn n (xr u v) = xr (skipn n u) (skipn n v).
Proof.
  unfold xr. induction n as [|n IH]; intros [|a u] [|b v] H; cbn [skipn map2 length] in *; auto; try lia.
Qed.

Lemma xr_map : forall (A : Type) (f g : A -> bool) l, xr (map f l) (map g l) = map (fun x => xorb (f x) (g x)) l.
Proof. unfold xr. induction l as [|a l IH]; cbn [map map2]; auto. f_equal; auto. Qed.

(* the partial row operations are full row operations when the prefix is zero *)
Lemma row_add_from_full : forall c rj ri, firstn c ri = repeat false c -> row_add_from c rj ri = xr rj ri.
Proof.
  unfold row_add_from, xr. induction c as [|c IH]; intros rj ri H.
  - reflexivity.
  - destruct ri as [|b ri]; cbn [firstn repeat] in H; try discriminate H.
    injection H as Hb H. subst b.
    destruct rj as [|a rj].
    + reflexivity.
    + cbn [firstn skipn app map2]. rewrite IH by exact H. f_equal. destruct a; reflexivity.
Qed.

Lemma row_mix_full : forall c u v, firstn c u = firstn c v -> row_mix c u v = v.
Proof. unfold row_mix. intros c u v H. rewrite H. apply firstn_skipn. Qed.

Lemma zero_prefix : forall c u, c <= length u -> (forall j, j < c -> nth j u false = false) -> firstn c u = repeat false c.
Proof.
  induction c as [|c IH]; intros u Hl H.
  - reflexivity.
  - destruct u as [|a u]; cbn [length] in Hl; try lia.
    cbn [firstn repeat]. f_equal.
    + apply (H 0). lia.
    + apply IH. lia. intros j Hj. apply (H (S j)). lia.
Qed.

(* ------------------------------------------------------------------ *)
(* specification of the row-operation loops                            *)
(* ------------------------------------------------------------------ *)

Definition mem (k : nat) (js : list nat) : bool := existsb (Nat.eqb k) js.

Lemma mem_In : forall k js, mem k js = true <-> In k js.
Proof.
  intros k js. unfold mem. rewrite existsb_exists. split.
  - intros [x [Hx He]]. apply Nat.eqb_eq in He. subst x. exact Hx.
  - intros H. exists k. split; auto. apply Nat.eqb_refl.
Qed.

Lemma mem_seq : forall k lo len, mem k (seq lo len) = (lo <=? k) && (k <? lo + len).
Proof.
  intros k lo len. destruct (mem k (seq lo len)) eqn:E.
  - apply mem_In in E. apply in_seq in E. symmetry. apply andb_true_iff. split.
    apply Nat.leb_le; lia. apply Nat.ltb_lt; lia.
  - symmetry. apply not_true_is_false. intros H. apply andb_true_iff in H. destruct H as [H1 H2].
    apply Nat.leb_le in H1. apply Nat.ltb_lt in H2.
    assert (In k (seq lo len)) by (apply in_seq; lia).
    apply mem_In in H. congruence.
Qed.

Lemma elim_rows_len : forall js M c r, length (elim_rows M c r js) = length M.
Proof.
  induction js as [|j js IH]; intros M c r; cbn [elim_rows]; auto.
  rewrite IH. destruct (bget M j c); auto. apply upd_len.
Qed.

Lemma elim_rows_nth : forall js M c r k, ~ In r js -> NoDup js -> (forall j, In j js -> j < length M) ->
  nth k (elim_rows M c r js) [] =
  if mem k js && bget M k c then row_add_from c (nth k M []) (nth r M []) else nth k M [].
Proof.
  induction js as [|j js IH]; intros M c r k Hr Hnd Hlt.
  - reflexivity.
  - cbn [elim_rows].
    assert (Hrj : r <> j) by (intros E; apply Hr; left; auto).
    assert (Hr' : ~ In r js) by (intros E; apply Hr; right; auto).
    inversion_clear Hnd as [|? ? Hnj Hnd'].
    assert (Hj : j < length M) by (apply Hlt; left; auto).
    set (M' := if bget M j c then upd M j (row_add_from c (nth j M []) (nth r M [])) else M).
    assert (HlM' : length M' = length M) by (unfold M'; destruct (bget M j c); auto; apply upd_len).
    rewrite IH; auto.
    2:{ intros j' Hj'. rewrite HlM'. apply Hlt; right; auto. }
    assert (HrM' : nth r M' [] = nth r M []).
    { unfold M'. destruct (bget M j c); auto. apply nth_upd_neq; auto. }
    rewrite HrM'.
    unfold mem. cbn [existsb]. fold (mem k js).
    destruct (Nat.eqb k j) eqn:Ekj.
    + apply Nat.eqb_eq in Ekj. subst k.
      assert (Hm : mem j js = false).
      { apply not_true_is_false. intros E. apply mem_In in E. contradiction. }
      rewrite Hm. cbn [orb andb].
      unfold M'. destruct (bget M j c); auto. apply nth_upd_eq; auto.
    + apply Nat.eqb_neq in Ekj.
      assert (HkM' : nth k M' [] = nth k M []).
      { unfold M'. destruct (bget M j c); auto. apply nth_upd_neq; auto. }
      cbn [orb]. unfold bget. rewrite HkM'. reflexivity.
Qed.

Lemma elim_rows_id : forall js M c r, (forall j, In j js -> bget M j c = false) -> elim_rows M c r js = M.
Proof.
  induction js as [|j js IH]; intros M c r H; cbn [elim_rows]; auto.
  rewrite (H j) by (left; auto). apply IH. intros j' Hj'. apply H. right; auto.
Qed.

Lemma swap_from_len : forall M c i k, length (swap_from M c i k) = length M.
Proof. intros. unfold swap_from. rewrite !upd_len. reflexivity. Qed.

Lemma swap_from_nth_i : forall M c i k, i <> k -> i < length M ->
  nth i (swap_from M c i k) [] = row_mix c (nth i M []) (nth k M []).
Proof.
  intros. unfold swap_from. rewrite nth_upd_neq by auto. apply nth_upd_eq; auto.
Qed.

Lemma swap_from_nth_k : forall M c i k, k < length M ->
  nth k (swap_from M c i k) [] = row_mix c (nth k M []) (nth i M []).
Proof.
  intros. unfold swap_from. apply nth_upd_eq. rewrite upd_len. auto.
Qed.

Lemma swap_from_nth_other : forall M c i k j, j <> i -> j <> k ->
  nth j (swap_from M c i k) [] = nth j M [].
Proof.
  intros. unfold swap_from. rewrite !nth_upd_neq by auto. reflexivity.
Qed.

Lemma find_pivot_some : forall fuel M c from k, find_pivot M c from fuel = Some k ->
  from <= k < from + fuel /\ bget M k c = true.
Proof.
  induction fuel as [|f IH]; intros M c from k H; cbn [find_pivot] in H; try discriminate H.
  destruct (bget M from c) eqn:E.
  - injection H as H. subst k. split; auto. lia.
  - apply IH in H. destruct H as [H1 H2]. split; auto. lia.
Qed.

Lemma find_pivot_none : forall fuel M c from, find_pivot M c from fuel = None ->
  forall k, from <= k < from + fuel -> bget M k c = false.
Proof.
  induction fuel as [|f IH]; intros M c from H k Hk; cbn [find_pivot] in H; try lia.
  destruct (bget M from c) eqn:E; try discriminate H.
  destruct (Nat.eq_dec k from) as [->|Hne]; auto.
  apply (IH M c (S from) H). lia.
Qed.

(* ------------------------------------------------------------------ *)
(* well-formedness, row span                                           *)
(* ------------------------------------------------------------------ *)

Definition wf (n m : nat) (M : bmat) : Prop :=
  length M = n /\ forall k, k < n -> length (nth k M []) = m.

Inductive span (m : nat) (M : bmat) : list bool -> Prop :=
| span_zero : span m M (repeat false m)
| span_row : forall k, k < length M -> span m M (nth k M [])
| span_add : forall u v, span m M u -> span m M v -> span m M (xr u v).

Definition sub (m : nat) (M M' : bmat) : Prop :=
  forall k, k < length M -> span m M' (nth k M []).

Lemma span_len : forall n m M v, wf n m M -> span m M v -> length v = m.
Proof.
  intros n m M v [Hl Hr] H. induction H.
  - apply repeat_length.
  - apply Hr. lia.
  - rewrite xr_length; congruence.
Qed.

Lemma sub_span : forall m M M' v, sub m M M' -> span m M v -> span m M' v.
Proof.
  intros m M M' v Hs H. induction H.
  - apply span_zero.
  - apply Hs; auto.
  - apply span_add; auto.
Qed.

Lemma sub_refl : forall m M, sub m M M.
Proof. intros m M k Hk. apply span_row; auto. Qed.

Lemma sub_trans : forall m M1 M2 M3, sub m M1 M2 -> sub m M2 M3 -> sub m M1 M3.
Proof. intros m M1 M2 M3 H12 H23 k Hk. eapply sub_span; eauto. Qed.

Lemma bget_xr : forall u v j, length u = length v ->
  brow_get (xr u v) j = xorb (brow_get u j) (brow_get v j).
Proof. intros. unfold brow_get. apply nth_xr; auto. Qed.

(* one elimination loop, pivot row r with zero prefix *)
Lemma elim_step : forall n m M c r js,
  wf n m M -> r < n -> ~ In r js -> NoDup js -> (forall j, In j js -> j < n) ->
  firstn c (nth r M []) = repeat false c ->
  let M' := elim_rows M c r js in
  wf n m M' /\
  (forall k, nth k M' [] = if mem k js && bget M k c then xr (nth k M []) (nth r M []) else nth k M []) /\
  sub m M M' /\ sub m M' M.
Proof.
  intros n m M c r js [Hl Hrow] Hr Hnin Hnd Hjs Hz M'.
  assert (Hnth : forall k, nth k M' [] =
     if mem k js && bget M k c then xr (nth k M []) (nth r M []) else nth k M []).
  { intros k. unfold M'. rewrite elim_rows_nth; auto.
    - destruct (mem k js && bget M k c); auto. apply row_add_from_full; auto.
    - intros j Hj. rewrite Hl. auto. }
  assert (HlM' : length M' = n) by (unfold M'; rewrite elim_rows_len; auto).
  assert (Hmr : mem r js = false).
  { apply not_true_is_false. intros E. apply mem_In in E. contradiction. }
  assert (Hr' : nth r M' [] = nth r M []).
  { rewrite Hnth. rewrite Hmr. reflexivity. }
  split; [|split; [|split]]; auto.
  - split; auto. intros k Hk. rewrite Hnth.
    destruct (mem k js && bget M k c); auto.
    rewrite xr_length; rewrite ?Hrow; auto.
  - intros k Hk. rewrite Hl in Hk.
    destruct (mem k js && bget M k c) eqn:E.
    + replace (nth k M []) with (xr (nth k M' []) (nth r M' [])).
      * apply span_add; apply span_row; lia.
      * rewrite Hr', Hnth, E. apply xr_invol. rewrite !Hrow; auto.
    + replace (nth k M []) with (nth k M' []).
      * apply span_row; lia.
      * rewrite Hnth, E. reflexivity.
  - intros k Hk. rewrite HlM' in Hk. rewrite Hnth.
    destruct (mem k js && bget M k c).
    + apply span_add; apply span_row; lia.
    + apply span_row; lia.
Qed.

Lemma elim_bget : forall n m M c r js k j,
  wf n m M -> r < n -> k < n ->
  (forall k, nth k (elim_rows M c r js) [] =
      if mem k js && bget M k c then xr (nth k M []) (nth r M []) else nth k M []) ->
  bget (elim_rows M c r js) k j =
    if mem k js && bget M k c then xorb (bget M k j) (bget M r j) else bget M k j.
Proof.
  intros n m M c r js k j [Hl Hrow] Hr Hk H. unfold bget at 1. rewrite H.
  destruct (mem k js && bget M k c); auto.
  apply bget_xr. rewrite !Hrow; auto.
Qed.

Lemma swap_step : forall n m M c i k,
  wf n m M -> i < k -> k < n -> firstn c (nth i M []) = firstn c (nth k M []) ->
  let M' := swap_from M c i k in
  wf n m M' /\ nth i M' [] = nth k M [] /\ nth k M' [] = nth i M [] /\
  (forall j, j <> i -> j <> k -> nth j M' [] = nth j M []) /\
  sub m M M' /\ sub m M' M.
Proof.
  intros n m M c i k [Hl Hrow] Hik Hk Hz M'.
  assert (Hi : nth i M' [] = nth k M []).
  { unfold M'. rewrite swap_from_nth_i by lia. apply row_mix_full; auto. }
  assert (Hk' : nth k M' [] = nth i M []).
  { unfold M'. rewrite swap_from_nth_k by lia. apply row_mix_full; auto. }
  assert (Ho : forall j, j <> i -> j <> k -> nth j M' [] = nth j M []).
  { intros j H1 H2. unfold M'. apply swap_from_nth_other; auto. }
  assert (HlM' : length M' = n) by (unfold M'; rewrite swap_from_len; auto).
  split; [|split; [|split; [|split; [|split]]]]; auto.
  - split; auto. intros j Hj.
    destruct (Nat.eq_dec j i) as [->|Hji]; [rewrite Hi; apply Hrow; lia|].
    destruct (Nat.eq_dec j k) as [->|Hjk]; [rewrite Hk'; apply Hrow; lia|].
    rewrite Ho; auto.
  - intros j Hj. rewrite Hl in Hj.
    destruct (Nat.eq_dec j i) as [->|Hji]; [rewrite <- Hk'; apply span_row; lia|].
    destruct (Nat.eq_dec j k) as [->|Hjk]; [rewrite <- Hi; apply span_row; lia|].
    rewrite <- Ho by auto. apply span_row; lia.
  - intros j Hj. rewrite HlM' in Hj.
    destruct (Nat.eq_dec j i) as [->|Hji]; [rewrite Hi; apply span_row; lia|].
    destruct (Nat.eq_dec j k) as [->|Hjk]; [rewrite Hk'; apply span_row; lia|].
    rewrite Ho by auto. apply span_row; lia.
Qed.

(* ------------------------------------------------------------------ *)
(* forward pass                                                        *)
(* ------------------------------------------------------------------ *)

Definition LZ (M : bmat) (n i : nat) : Prop :=
  forall r c, c < i -> c < r -> r < n -> bget M r c = false.
Definition D1 (M : bmat) (i : nat) : Prop := forall c, c < i -> bget M c c = true.

Lemma LZ_prefix : forall n m M i r, wf n m M -> LZ M n i -> i <= r -> r < n -> i <= m ->
  firstn i (nth r M []) = repeat false i.
Proof.
  intros n m M i r [Hl Hrow] HLZ Hir Hr Him.
  apply zero_prefix.
  - rewrite Hrow; auto.
  - intros j Hj. apply (HLZ r j); lia.
Qed.

Lemma NoDup_seq' : forall lo len, NoDup (seq lo len).
Proof. intros. apply seq_NoDup. Qed.

Lemma fwd_elim : forall n m M i,
  wf n m M -> n <= m -> i < n -> LZ M n i -> D1 M i -> bget M i i = true ->
  let M' := elim_rows M i i (seq (S i) (n - S i)) in
  wf n m M' /\ LZ M' n (S i) /\ D1 M' (S i) /\ sub m M M' /\ sub m M' M.
Proof.
  intros n m M i Hwf Hnm Hi HLZ HD Hp M'.
  destruct (elim_step n m M i i (seq (S i) (n - S i)) Hwf Hi) as [Hwf' [Hnth [Hs1 Hs2]]].
  - intros H. apply in_seq in H. lia.
  - apply seq_NoDup.
  - intros j Hj. apply in_seq in Hj. lia.
  - apply (LZ_prefix n m); auto; lia.
  - fold M' in Hwf', Hnth, Hs1, Hs2.
    assert (Hb : forall k j, k < n -> bget M' k j =
       if mem k (seq (S i) (n - S i)) && bget M k i then xorb (bget M k j) (bget M i j) else bget M k j).
    { intros k j Hk. apply (elim_bget n m); auto. }
    split; [|split; [|split; [|split]]]; auto.
    + intros r c Hc Hcr Hr. rewrite Hb by auto. rewrite mem_seq.
      destruct (Nat.eq_dec c i) as [->|Hci].
      * destruct ((S i <=? r) && (r <? S i + (n - S i))) eqn:E1; cbn [andb].
        -- destruct (bget M r i) eqn:E2; auto. rewrite Hp. reflexivity.
        -- apply andb_false_iff in E1. destruct E1 as [E1|E1].
           ++ apply Nat.leb_gt in E1. lia.
           ++ apply Nat.ltb_ge in E1. lia.
      * assert (H1 : bget M r c = false) by (apply HLZ; lia).
        assert (H2 : bget M i c = false) by (apply HLZ; lia).
        rewrite H1, H2. destruct (_ && _); reflexivity.
    + intros c Hc. rewrite Hb by lia. rewrite mem_seq.
      assert (E : (S i <=? c) = false) by (apply Nat.leb_gt; lia).
      rewrite E. cbn [andb].
      destruct (Nat.eq_dec c i) as [->|Hci]; auto. apply HD; lia.
Qed.

Lemma fwd_swap : forall n m M i k,
  wf n m M -> n <= m -> i < k -> k < n -> LZ M n i -> D1 M i -> bget M k i = true ->
  let M' := swap_from M i i k in
  wf n m M' /\ LZ M' n i /\ D1 M' i /\ bget M' i i = true /\ sub m M M' /\ sub m M' M.
Proof.
  intros n m M i k Hwf Hnm Hik Hk HLZ HD Hp M'.
  destruct (swap_step n m M i i k Hwf Hik Hk) as [Hwf' [Hi' [Hk' [Ho [Hs1 Hs2]]]]].
  - rewrite (LZ_prefix n m M i i), (LZ_prefix n m M i k); auto; lia.
  - fold M' in Hwf', Hi', Hk', Ho, Hs1, Hs2.
    split; [|split; [|split; [|split; [|split]]]]; auto.
    + intros r c Hc Hcr Hr. unfold bget.
      destruct (Nat.eq_dec r i) as [->|Hri]; [rewrite Hi'; apply (HLZ k c); lia|].
      destruct (Nat.eq_dec r k) as [->|Hrk]; [rewrite Hk'; apply (HLZ i c); lia|].
      rewrite Ho by auto. apply (HLZ r c); lia.
    + intros c Hc. unfold bget. rewrite Ho by lia. apply HD; auto.
    + unfold bget. rewrite Hi'. exact Hp.
Qed.

Definition FInv (n m i : nat) (M0 M : bmat) : Prop :=
  wf n m M /\ LZ M n i /\ D1 M i /\ sub m M0 M /\ sub m M M0.

Lemma fwd_inv : forall len n m M0 i M M',
  n <= m -> i + len = n -> FInv n m i M0 M ->
  z2inv_fwd M n (seq i len) = Some M' -> FInv n m n M0 M'.
Proof.
  induction len as [|len IH]; intros n m M0 i M M' Hnm Hil HF H.
  - cbn [seq z2inv_fwd] in H. injection H as H. subst M'.
    assert (i = n) by lia. subst i. exact HF.
  - cbn [seq z2inv_fwd] in H.
    destruct HF as [Hwf [HLZ [HD [Hs1 Hs2]]]].
    destruct (bget M i i) eqn:Ep.
    + destruct (fwd_elim n m M i Hwf Hnm) as [Hwf' [HLZ' [HD' [Ht1 Ht2]]]]; auto; try lia.
      eapply (IH n m M0 (S i)); [exact Hnm | lia | | exact H].
      split; [|split; [|split; [|split]]]; auto.
      * apply (sub_trans m _ M); auto.
      * apply (sub_trans m _ M); auto.
    + destruct (find_pivot M i (S i) (n - S i)) as [k|] eqn:Efp; try discriminate H.
      apply find_pivot_some in Efp. destruct Efp as [Hk Hpk].
      destruct (fwd_swap n m M i k Hwf Hnm) as [Hwf1 [HLZ1 [HD1 [Hp1 [Hu1 Hu2]]]]]; auto; try lia.
      destruct (fwd_elim n m _ i Hwf1 Hnm) as [Hwf' [HLZ' [HD' [Ht1 Ht2]]]]; auto; try lia.
      eapply (IH n m M0 (S i)); [exact Hnm | lia | | exact H].
      split; [|split; [|split; [|split]]]; auto.
      * apply (sub_trans m _ M); auto. apply (sub_trans m _ (swap_from M i i k)); auto.
      * apply (sub_trans m _ (swap_from M i i k)); auto. apply (sub_trans m _ M); auto.
Qed.

(* ------------------------------------------------------------------ *)
(* backward pass                                                       *)
(* ------------------------------------------------------------------ *)

Definition UZ (M : bmat) (n i : nat) : Prop :=
  forall r c, i < c -> c < n -> r < c -> bget M r c = false.

Lemma mem_seq_true : forall k lo len, mem k (seq lo len) = true <-> lo <= k < lo + len.
Proof. intros. rewrite mem_In. apply in_seq. Qed.

Lemma bwd_elim : forall n m M k,
  wf n m M -> n <= m -> S k < n -> LZ M n n -> D1 M n -> UZ M n (S k) ->
  let M' := elim_rows M (S k) (S k) (seq 0 (S k)) in
  wf n m M' /\ LZ M' n n /\ D1 M' n /\ UZ M' n k /\ sub m M M' /\ sub m M' M.
Proof.
  intros n m M k Hwf Hnm Hi HLZ HD HUZ M'.
  set (i := S k) in *.
  destruct (elim_step n m M i i (seq 0 i) Hwf Hi) as [Hwf' [Hnth [Hs1 Hs2]]].
  - intros H. apply in_seq in H. lia.
  - apply seq_NoDup.
  - intros j Hj. apply in_seq in Hj. lia.
  - apply (LZ_prefix n m M i i Hwf); try lia.
    intros r c Hc Hcr Hr. apply HLZ; lia.
  - fold M' in Hwf', Hnth, Hs1, Hs2.
    assert (Hb : forall r j, r < n -> bget M' r j =
       if mem r (seq 0 i) && bget M r i then xorb (bget M r j) (bget M i j) else bget M r j).
    { intros r j Hr. apply (elim_bget n m); auto. }
    split; [|split; [|split; [|split; [|split]]]]; auto.
    + intros r c Hc Hcr Hr. rewrite Hb by auto.
      destruct (mem r (seq 0 i) && bget M r i) eqn:E.
      * apply andb_true_iff in E. destruct E as [E1 E2]. apply mem_seq_true in E1.
        rewrite (HLZ r c), (HLZ i c) by lia. reflexivity.
      * apply HLZ; lia.
    + intros c Hc. rewrite Hb by auto.
      destruct (mem c (seq 0 i) && bget M c i) eqn:E.
      * apply andb_true_iff in E. destruct E as [E1 E2]. apply mem_seq_true in E1.
        rewrite (HD c), (HLZ i c) by lia. reflexivity.
      * apply HD; lia.
    + intros r c Hkc Hc Hrc. rewrite Hb by lia.
      destruct (mem r (seq 0 i) && bget M r i) eqn:E.
      * apply andb_true_iff in E. destruct E as [E1 E2]. apply mem_seq_true in E1.
        destruct (Nat.eq_dec c i) as [->|Hci].
        -- rewrite E2, (HD i) by lia. reflexivity.
        -- rewrite (HUZ r c), (HUZ i c) by (unfold i; lia). reflexivity.
      * destruct (Nat.eq_dec c i) as [->|Hci].
        -- apply andb_false_iff in E. destruct E as [E|E]; auto.
           assert (E' : mem r (seq 0 i) = true) by (apply mem_seq_true; lia). congruence.
        -- apply HUZ; unfold i; lia.
Qed.

Definition BInv (n m i : nat) (M0 M : bmat) : Prop :=
  wf n m M /\ LZ M n n /\ D1 M n /\ UZ M n i /\ sub m M0 M /\ sub m M M0.

Lemma bwd_inv : forall k n m M0 M,
  n <= m -> k <= n - 1 -> BInv n m k M0 M ->
  BInv n m 0 M0 (z2inv_bwd M (rev (seq 1 k))).
Proof.
  induction k as [|k IH]; intros n m M0 M Hnm Hk HB.
  - exact HB.
  - rewrite seq_S, rev_app_distr. cbn [rev app z2inv_bwd plus].
    destruct HB as [Hwf [HLZ [HD [HUZ [Hs1 Hs2]]]]].
    assert (Hk' : S k < n) by lia.
    destruct (bwd_elim n m M k Hwf Hnm Hk' HLZ HD HUZ) as [Hwf' [HLZ' [HD' [HUZ' [Ht1 Ht2]]]]].
    apply IH; auto; try lia.
    split; [|split; [|split; [|split; [|split]]]]; auto.
    + apply (sub_trans m _ M); auto.
    + apply (sub_trans m _ M); auto.
Qed.

(* ------------------------------------------------------------------ *)
(* dot products, vector-matrix products                                *)
(* ------------------------------------------------------------------ *)

Definition vecmat (v : list bool) (A : bmat) : list bool :=
  map (fun j => bdot v (bcol A j)) (seq 0 (ncols A)).

Lemma bmul_vecmat : forall a b, bmul a b = map (fun r => vecmat r b) a.
Proof. reflexivity. Qed.

Lemma fold_xorb : forall l acc, fold_left xorb l acc = xorb acc (fold_left xorb l false).
Proof.
  induction l as [|a l IH]; intros acc; cbn [fold_left].
  - destruct acc; reflexivity.
  - rewrite IH. rewrite (IH (xorb false a)). destruct acc, a; cbn [xorb]; destruct (fold_left xorb l false); reflexivity.
Qed.

Lemma bdot_nil_l : forall v, bdot [] v = false.
Proof. reflexivity. Qed.

Lemma bdot_nil_r : forall u, bdot u [] = false.
Proof. intros [|a u]; reflexivity. Qed.

Lemma bdot_cons : forall a u b v, bdot (a :: u) (b :: v) = xorb (a && b) (bdot u v).
Proof.
  intros. unfold bdot. cbn [map2 fold_left]. rewrite fold_xorb.
  destruct (a && b); reflexivity.
Qed.

Lemma bdot_xr : forall u v w, length u = length v -> bdot (xr u v) w = xorb (bdot u w) (bdot v w).
Proof.
  unfold xr. induction u as [|a u IH]; intros [|b v] w H; cbn [length] in H; try lia.
  - reflexivity.
  - destruct w as [|c w].
    + cbn [map2]. rewrite !bdot_nil_r. reflexivity.
    + cbn [map2]. rewrite !bdot_cons, IH by lia.
      destruct a, b, c, (bdot u w), (bdot v w); reflexivity.
Qed.

Lemma bdot_zero : forall m w, bdot (repeat false m) w = false.
Proof.
  induction m as [|m IH]; intros w.
  - reflexivity.
  - destruct w as [|c w]; [apply bdot_nil_r|]. cbn [repeat]. rewrite bdot_cons, IH. reflexivity.
Qed.

Lemma bdot_unit_lt : forall n s k w, k < s -> bdot (map (fun j => Nat.eqb k j) (seq s n)) w = false.
Proof.
  induction n as [|n IH]; intros s k w H.
  - reflexivity.
  - cbn [seq map]. destruct w as [|c w]; [apply bdot_nil_r|].
    rewrite bdot_cons, IH by lia.
    assert (E : Nat.eqb k s = false) by (apply Nat.eqb_neq; lia). rewrite E. reflexivity.
Qed.

Lemma bdot_unit_ge : forall n s k w, s <= k -> k < s + n ->
  bdot (map (fun j => Nat.eqb k j) (seq s n)) w = nth (k - s) w false.
Proof.
  induction n as [|n IH]; intros s k w H1 H2; try lia.
  cbn [seq map]. destruct w as [|c w].
  - rewrite bdot_nil_r. destruct (k - s); reflexivity.
  - rewrite bdot_cons.
    destruct (Nat.eq_dec k s) as [->|Hne].
    + rewrite Nat.eqb_refl, bdot_unit_lt by lia. rewrite Nat.sub_diag. cbn [nth andb].
      destruct c; reflexivity.
    + assert (E : Nat.eqb k s = false) by (apply Nat.eqb_neq; lia). rewrite E.
      rewrite IH by lia. replace (k - s) with (S (k - S s)) by lia. cbn [nth andb]. destruct (nth (k - S s) w false); reflexivity.
Qed.

Lemma bdot_unit : forall n k w, k < n -> bdot (unit_row n k) w = nth k w false.
Proof.
  intros. unfold unit_row. rewrite bdot_unit_ge by lia. rewrite Nat.sub_0_r. reflexivity.
Qed.

Lemma vecmat_xr : forall u v A, length u = length v -> vecmat (xr u v) A = xr (vecmat u A) (vecmat v A).
Proof.
  intros. unfold vecmat. rewrite xr_map. apply map_ext. intros j. apply bdot_xr; auto.
Qed.

Lemma map_const_false : forall (A : Type) (l : list A), map (fun _ => false) l = repeat false (length l).
Proof. induction l as [|a l IH]; cbn [map length repeat]; auto. f_equal; auto. Qed.

Lemma vecmat_zero : forall m A, vecmat (repeat false m) A = repeat false (ncols A).
Proof.
  intros. unfold vecmat.
  rewrite (map_ext _ (fun _ => false)) by (intros; apply bdot_zero).
  rewrite map_const_false, seq_length. reflexivity.
Qed.

Lemma vecmat_unit : forall n c A k, wf n c A -> ncols A = c -> k < n -> vecmat (unit_row n k) A = nth k A [].
Proof.
  intros n c A k [Hl Hrow] Hc Hk. unfold vecmat. rewrite Hc.
  transitivity (map (fun j => nth j (nth k A []) false) (seq 0 (length (nth k A [])))).
  2: apply map_seq_nth.
  rewrite Hrow by auto.
  apply map_ext. intros j. rewrite bdot_unit by auto.
  unfold bcol. rewrite nth_map_lt with (d' := []) by lia. reflexivity.
Qed.

Lemma vecmat_length : forall v A, length (vecmat v A) = ncols A.
Proof. intros. unfold vecmat. rewrite map_length, seq_length. reflexivity. Qed.

(* ------------------------------------------------------------------ *)
(* square matrices, augment                                            *)
(* ------------------------------------------------------------------ *)

Lemma square_wf : forall n A, square n A -> wf n n A.
Proof.
  intros n A [Hl HF]. split; auto. intros k Hk.
  rewrite Forall_forall in HF. apply HF. apply nth_In. lia.
Qed.

Lemma wf_square : forall n A, wf n n A -> square n A.
Proof.
  intros n A [Hl Hrow]. split; auto. apply Forall_forall. intros x Hx.
  apply (In_nth _ _ []) in Hx. destruct Hx as [k [Hk Hx]]. subst x. apply Hrow. lia.
Qed.

Lemma wf_ncols : forall n c A, wf n c A -> 0 < n -> ncols A = c.
Proof.
  intros n c A [Hl Hrow] Hn. destruct A as [|r A]; cbn [length] in Hl; try lia.
  cbn [ncols]. apply (Hrow 0). lia.
Qed.

Lemma square_ncols : forall n A, square n A -> ncols A = n.
Proof.
  intros n A H. destruct n as [|n].
  - destruct H as [Hl _]. destruct A; cbn [length] in Hl; try lia. reflexivity.
  - apply (wf_ncols (S n)). apply square_wf; auto. lia.
Qed.

Lemma nth_map2 : forall (A B C : Type) (f : A -> B -> C) l1 l2 k d d1 d2,
  k < length l1 -> length l1 = length l2 -> nth k (map2 f l1 l2) d = f (nth k l1 d1) (nth k l2 d2).
Proof.
  induction l1 as [|a l1 IH]; intros [|b l2] k d d1 d2 Hk Hl; cbn [length] in *; try lia.
  destruct k; cbn [map2 nth]; auto. apply IH; lia.
Qed.

Lemma augment_length : forall A, length (augment A) = length A.
Proof. intros. unfold augment. apply map2_length. rewrite seq_length. reflexivity. Qed.

Lemma augment_nth : forall A k, k < length A ->
  nth k (augment A) [] = nth k A [] ++ unit_row (length A) k.
Proof.
  intros A k Hk. unfold augment.
  rewrite nth_map2 with (d1 := []) (d2 := 0); auto.
  - rewrite seq_nth by auto. reflexivity.
  - rewrite seq_length. reflexivity.
Qed.

Lemma unit_row_length : forall n k, length (unit_row n k) = n.
Proof. intros. unfold unit_row. rewrite map_length, seq_length. reflexivity. Qed.

Lemma unit_row_nth : forall n k j, j < n -> nth j (unit_row n k) false = Nat.eqb k j.
Proof.
  intros. unfold unit_row. rewrite nth_map_lt with (d' := 0) by (rewrite seq_length; auto).
  rewrite seq_nth by auto. reflexivity.
Qed.

Lemma firstn_app_len : forall (A : Type) (a b : list A) n, length a = n -> firstn n (a ++ b) = a.
Proof.
  intros A a b n H. subst n. rewrite firstn_app, Nat.sub_diag, firstn_all. cbn [firstn].
  apply app_nil_r.
Qed.

Lemma skipn_app_len : forall (A : Type) (a b : list A) n, length a = n -> skipn n (a ++ b) = b.
Proof.
  intros A a b n H. subst n. rewrite skipn_app, Nat.sub_diag, skipn_all. reflexivity.
Qed.

Lemma augment_wf : forall n A, square n A -> wf n (n + n) (augment A).
Proof.
  intros n A HA. pose proof (square_wf n A HA) as [Hl Hrow].
  split.
  - rewrite augment_length; auto.
  - intros k Hk. rewrite augment_nth by lia. rewrite app_length, Hrow, unit_row_length by auto. lia.
Qed.

Lemma nth_firstn_lt : forall (A : Type) n (l : list A) j d, j < n -> nth j (firstn n l) d = nth j l d.
Proof.
  induction n as [|n IH]; intros l j d H; try lia.
  destruct l as [|a l]; cbn [firstn]; auto.
  destruct j; cbn [nth]; auto. apply IH; lia.
Qed.

(* ------------------------------------------------------------------ *)
(* linear relations carried by the span                                *)
(* ------------------------------------------------------------------ *)

Definition QL (n : nat) (B : bmat) (v : list bool) : Prop :=
  length v = n + n /\ firstn n v = vecmat (skipn n v) B.
Definition QR (n : nat) (B : bmat) (v : list bool) : Prop :=
  length v = n + n /\ skipn n v = vecmat (firstn n v) B.

Lemma firstn_repeat2 : forall n, firstn n (repeat false (n + n)) = repeat false n.
Proof. intros. rewrite repeat_app. apply firstn_app_len. apply repeat_length. Qed.
Lemma skipn_repeat2 : forall n, skipn n (repeat false (n + n)) = repeat false n.
Proof. intros. rewrite repeat_app. apply skipn_app_len. apply repeat_length. Qed.

Lemma QL_span : forall n B M v, ncols B = n ->
  (forall k, k < length M -> QL n B (nth k M [])) -> span (n + n) M v -> QL n B v.
Proof.
  intros n B M v Hc Hrows H. induction H.
  - split. apply repeat_length.
    rewrite firstn_repeat2, skipn_repeat2, vecmat_zero, Hc. reflexivity.
  - apply Hrows; auto.
  - destruct IHspan1 as [L1 E1]. destruct IHspan2 as [L2 E2]. split.
    + rewrite xr_length; congruence.
    + rewrite firstn_xr, skipn_xr by congruence.
      rewrite vecmat_xr by (rewrite !skipn_length; congruence). congruence.
Qed.

Lemma QR_span : forall n B M v, ncols B = n ->
  (forall k, k < length M -> QR n B (nth k M [])) -> span (n + n) M v -> QR n B v.
Proof.
  intros n B M v Hc Hrows H. induction H.
  - split. apply repeat_length.
    rewrite firstn_repeat2, skipn_repeat2, vecmat_zero, Hc. reflexivity.
  - apply Hrows; auto.
  - destruct IHspan1 as [L1 E1]. destruct IHspan2 as [L2 E2]. split.
    + rewrite xr_length; congruence.
    + rewrite firstn_xr, skipn_xr by congruence.
      rewrite vecmat_xr by (rewrite !firstn_length; congruence). congruence.
Qed.

(* rows of the initial augmented matrix satisfy QL for the input *)
Lemma augment_QL : forall n A k, square n A -> k < n -> QL n A (nth k (augment A) []).
Proof.
  intros n A k HA Hk. pose proof (square_wf n A HA) as Hwf. pose proof Hwf as [Hl Hrow].
  rewrite augment_nth by lia. rewrite Hl. split.
  - rewrite app_length, Hrow, unit_row_length by auto. reflexivity.
  - rewrite firstn_app_len, skipn_app_len by auto.
    symmetry. apply (vecmat_unit n n); auto. apply square_ncols; auto.
Qed.

(* the left half of the final matrix is the identity *)
Lemma final_left : forall n m M k, wf n m M -> n <= m -> LZ M n n -> D1 M n -> UZ M n 0 -> k < n ->
  firstn n (nth k M []) = unit_row n k.
Proof.
  intros n m M k [Hl Hrow] Hnm HLZ HD HUZ Hk.
  apply nth_ext with (d := false) (d' := false).
  - rewrite firstn_length, Hrow, unit_row_length by auto. lia.
  - intros j Hj. rewrite firstn_length, Hrow in Hj by auto.
    assert (Hjn : j < n) by lia.
    rewrite nth_firstn_lt, unit_row_nth by auto.
    change (bget M k j = Nat.eqb k j).
    destruct (Nat.lt_trichotomy j k) as [H|[H|H]].
    + rewrite (HLZ k j) by lia. symmetry. apply Nat.eqb_neq. lia.
    + subst j. rewrite Nat.eqb_refl. apply HD; auto.
    + rewrite (HUZ k j) by lia. symmetry. apply Nat.eqb_neq. lia.
Qed.

Lemma z2inv_core : forall n A B, square n A -> z2inv A = Some B ->
  exists M, B = map (skipn n) M /\ BInv n (n + n) 0 (augment A) M.
Proof.
  intros n A B HA H. pose proof HA as [Hl _]. unfold z2inv in H. rewrite Hl in H.
  destruct (z2inv_fwd (augment A) n (seq 0 n)) as [M1|] eqn:Ef; try discriminate H.
  injection H as H. exists (z2inv_bwd M1 (rev (seq 1 (n - 1)))). split; auto.
  assert (HF : FInv n (n + n) n (augment A) M1).
  { apply (fwd_inv n n (n + n) (augment A) 0 (augment A) M1); auto; try lia.
    split; [|split; [|split; [|split]]].
    - apply augment_wf; auto.
    - intros r c Hc. lia.
    - intros c Hc. lia.
    - apply sub_refl.
    - apply sub_refl. }
  destruct HF as [Hwf [HLZ [HD [Hs1 Hs2]]]].
  apply bwd_inv; try lia.
  split; [|split; [|split; [|split; [|split]]]]; auto.
  intros r c H1 H2. lia.
Qed.

Theorem z2inv_square : forall n a b, square n a -> z2inv a = Some b -> square n b.
Proof.
  intros n a b Ha H. destruct (z2inv_core n a b Ha H) as [M [Hb [[Hl Hrow] _]]].
  subst b. apply wf_square. split.
  - rewrite map_length; auto.
  - intros k Hk. rewrite nth_map_lt with (d' := []) by lia.
    rewrite skipn_length, Hrow by auto. lia.
Qed.

Theorem z2inv_left : forall n a b, square n a -> z2inv a = Some b -> bmul b a = bident n.
Proof.
  intros n a b Ha H. destruct (z2inv_core n a b Ha H) as [M [Hb HB]].
  destruct HB as [Hwf [HLZ [HD [HUZ [Hs1 Hs2]]]]]. pose proof Hwf as [Hl Hrow].
  subst b. rewrite bmul_vecmat, map_map. unfold bident.
  apply nth_ext with (d := []) (d' := []).
  - rewrite !map_length, seq_length; auto.
  - intros k Hk. rewrite map_length, Hl in Hk.
    rewrite nth_map_lt with (d' := []) by lia.
    rewrite nth_map_lt with (d' := 0) by (rewrite seq_length; auto).
    rewrite seq_nth by auto. cbn [plus].
    assert (HQ : QL n a (nth k M [])).
    { apply (QL_span n a (augment a)).
      - apply square_ncols; auto.
      - intros j Hj. rewrite augment_length in Hj. destruct Ha as [Hla HFa].
        apply augment_QL. split; auto. lia.
      - apply Hs2. lia. }
    destruct HQ as [_ HQ]. rewrite <- HQ.
    apply (final_left n (n + n)); auto. lia.
Qed.

Theorem z2inv_right : forall n a b, square n a -> z2inv a = Some b -> bmul a b = bident n.
Proof.
  intros n a b Ha H. pose proof (z2inv_square n a b Ha H) as Hsb.
  destruct (z2inv_core n a b Ha H) as [M [Hb HB]].
  destruct HB as [Hwf [HLZ [HD [HUZ [Hs1 Hs2]]]]]. pose proof Hwf as [Hl Hrow].
  pose proof (square_wf n a Ha) as [Hla Hrowa].
  rewrite bmul_vecmat. unfold bident.
  apply nth_ext with (d := []) (d' := []).
  - rewrite !map_length, seq_length; auto.
  - intros k Hk. rewrite map_length, Hla in Hk.
    rewrite nth_map_lt with (d' := []) by lia.
    rewrite nth_map_lt with (d' := 0) by (rewrite seq_length; auto).
    rewrite seq_nth by auto. cbn [plus].
    assert (HQ : QR n b (nth k (augment a) [])).
    { apply (QR_span n b M).
      - apply square_ncols; auto.
      - intros j Hj. rewrite Hl in Hj. split.
        + apply Hrow; auto.
        + rewrite (final_left n (n + n)) by (auto; lia).
          rewrite (vecmat_unit n n); auto.
          * subst b. rewrite nth_map_lt with (d' := []) by lia. reflexivity.
          * apply square_wf; auto.
          * apply square_ncols; auto.
      - apply Hs1. rewrite augment_length. lia. }
    destruct HQ as [_ HQ]. rewrite augment_nth in HQ by lia. rewrite Hla in HQ.
    rewrite firstn_app_len, skipn_app_len in HQ by auto. auto.
Qed.

(* ------------------------------------------------------------------ *)
(* rank bounds                                                         *)
(* ------------------------------------------------------------------ *)

Lemma z2rank_cols_le_rows : forall cols a nr r, r <= nr -> z2rank_cols a nr r cols <= nr.
Proof.
  induction cols as [|i cols IH]; intros a nr r H; cbn [z2rank_cols]; auto.
  destruct (Nat.eqb r nr) eqn:E; auto.
  apply Nat.eqb_neq in E.
  destruct (bget a r i).
  - apply IH. lia.
  - destruct (find_pivot a i (S r) (nr - S r)).
    + apply IH. lia.
    + apply IH. lia.
Qed.

Lemma z2rank_cols_le_cols : forall cols a nr r, z2rank_cols a nr r cols <= r + length cols.
Proof.
  induction cols as [|i cols IH]; intros a nr r; cbn [z2rank_cols length]; try lia.
  destruct (Nat.eqb r nr); try lia.
  destruct (bget a r i).
  - etransitivity; [apply IH|]. lia.
  - destruct (find_pivot a i (S r) (nr - S r)).
    + etransitivity; [apply IH|]. lia.
    + etransitivity; [apply IH|]. lia.
Qed.

Theorem z2rank_le_rows : forall a, (z2rank a <= length a)%nat.
Proof. intros. unfold z2rank. apply z2rank_cols_le_rows. lia. Qed.

Theorem z2rank_le_cols : forall a, (z2rank a <= ncols a)%nat.
Proof.
  intros. unfold z2rank. etransitivity; [apply z2rank_cols_le_cols|]. rewrite seq_length. lia.
Qed.

(* ------------------------------------------------------------------ *)
(* identity matrix                                                     *)
(* ------------------------------------------------------------------ *)

Lemma bident_length : forall n, length (bident n) = n.
Proof. intros. unfold bident. rewrite map_length, seq_length. reflexivity. Qed.

Lemma bident_nth : forall n k, k < n -> nth k (bident n) [] = unit_row n k.
Proof.
  intros. unfold bident. rewrite nth_map_lt with (d' := 0) by (rewrite seq_length; auto).
  rewrite seq_nth by auto. reflexivity.
Qed.

Lemma bident_square : forall n, square n (bident n).
Proof.
  intros. apply wf_square. split. apply bident_length.
  intros k Hk. rewrite bident_nth by auto. apply unit_row_length.
Qed.

Lemma bident_bget : forall n j i, j < n -> i < n -> bget (bident n) j i = Nat.eqb j i.
Proof.
  intros. unfold bget, brow_get. rewrite bident_nth by auto. apply unit_row_nth; auto.
Qed.

Lemma z2rank_cols_ident : forall len n i, i + len = n -> z2rank_cols (bident n) n i (seq i len) = n.
Proof.
  induction len as [|len IH]; intros n i H; cbn [seq z2rank_cols].
  - lia.
  - assert (E : Nat.eqb i n = false) by (apply Nat.eqb_neq; lia). rewrite E.
    rewrite bident_bget, Nat.eqb_refl by lia.
    rewrite elim_rows_id.
    + apply IH. lia.
    + intros j Hj. apply in_seq in Hj. rewrite bident_bget by lia. apply Nat.eqb_neq. lia.
Qed.

Theorem z2rank_ident : forall n, z2rank (bident n) = n.
Proof.
  intros. unfold z2rank. rewrite bident_length, (square_ncols n) by apply bident_square.
  apply z2rank_cols_ident. lia.
Qed.

Lemma augid_nth : forall n k, k < n -> nth k (augment (bident n)) [] = unit_row n k ++ unit_row n k.
Proof.
  intros. rewrite augment_nth by (rewrite bident_length; auto).
  rewrite bident_length, bident_nth by auto. reflexivity.
Qed.

Lemma augid_bget : forall n j i, j < n -> i < n -> bget (augment (bident n)) j i = Nat.eqb j i.
Proof.
  intros. unfold bget, brow_get. rewrite augid_nth by auto.
  rewrite app_nth1 by (rewrite unit_row_length; auto). apply unit_row_nth; auto.
Qed.

Lemma fwd_ident : forall len n i, i + len = n ->
  z2inv_fwd (augment (bident n)) n (seq i len) = Some (augment (bident n)).
Proof.
  induction len as [|len IH]; intros n i H; cbn [seq z2inv_fwd]; auto.
  rewrite augid_bget, Nat.eqb_refl by lia.
  rewrite elim_rows_id.
  - apply IH. lia.
  - intros j Hj. apply in_seq in Hj. rewrite augid_bget by lia. apply Nat.eqb_neq. lia.
Qed.

Lemma bwd_ident : forall k n, k <= n - 1 ->
  z2inv_bwd (augment (bident n)) (rev (seq 1 k)) = augment (bident n).
Proof.
  induction k as [|k IH]; intros n H.
  - reflexivity.
  - rewrite seq_S, rev_app_distr. cbn [rev app z2inv_bwd plus].
    rewrite elim_rows_id.
    + apply IH. lia.
    + intros j Hj. apply in_seq in Hj. rewrite augid_bget by lia. apply Nat.eqb_neq. lia.
Qed.

Theorem z2inv_ident : forall n, z2inv (bident n) = Some (bident n).
Proof.
  intros n. unfold z2inv. rewrite bident_length.
  rewrite fwd_ident by lia. rewrite bwd_ident by lia. f_equal.
  apply nth_ext with (d := []) (d' := []).
  - rewrite map_length, augment_length. reflexivity.
  - intros k Hk. rewrite map_length, augment_length, bident_length in Hk.
    rewrite nth_map_lt with (d' := []) by (rewrite augment_length, bident_length; auto).
    rewrite augid_nth, bident_nth by auto.
    apply skipn_app_len. apply unit_row_length.
Qed.

(* ------------------------------------------------------------------ *)
(* completeness: a stuck forward pass contradicts left-invertibility    *)
(* ------------------------------------------------------------------ *)

Lemma xr4 : forall u v L, length u = length L -> length v = length L ->
  xr (xr u L) (xr v L) = xr u v.
Proof.
  unfold xr. induction u as [|a u IH]; intros [|b v] [|c L] H1 H2; cbn [length map2] in *; try lia; auto.
  rewrite IH by lia. f_equal. destruct a, b, c; reflexivity.
Qed.

Lemma xr_r : forall u v L, xr (xr u v) L = xr (xr u L) v.
Proof.
  unfold xr. induction u as [|a u IH]; intros [|b v] [|c L]; cbn [map2]; auto.
  rewrite IH. f_equal. destruct a, b, c; reflexivity.
Qed.

Lemma xr_a : forall u v L, xr (xr u v) L = xr u (xr v L).
Proof.
  unfold xr. induction u as [|a u IH]; intros [|b v] [|c L]; cbn [map2]; auto.
  rewrite IH. f_equal. destruct a, b, c; reflexivity.
Qed.

Lemma xr_self : forall u, xr u u = repeat false (length u).
Proof.
  unfold xr. induction u as [|a u IH]; cbn [map2 length repeat]; auto.
  rewrite IH. f_equal. destruct a; reflexivity.
Qed.

Lemma nth_repeat_false : forall m j, nth j (repeat false m) false = false.
Proof. induction m as [|m IH]; intros [|j]; cbn [repeat nth]; auto. Qed.

Fixpoint reduce (M : bmat) (cs : list nat) (v : list bool) : list bool :=
  match cs with
  | [] => v
  | c :: rest => reduce M rest (if nth c v false then xr v (nth c M []) else v)
  end.

Lemma reduce_app : forall M cs1 cs2 v, reduce M (cs1 ++ cs2) v = reduce M cs2 (reduce M cs1 v).
Proof. induction cs1 as [|c cs1 IH]; intros cs2 v; cbn [app reduce]; auto. Qed.

Lemma reduce_unchanged : forall M cs v, (forall c, In c cs -> nth c v false = false) -> reduce M cs v = v.
Proof.
  induction cs as [|c cs IH]; intros v H; cbn [reduce]; auto.
  rewrite (H c) by (left; auto). apply IH. intros c' Hc'. apply H. right; auto.
Qed.

Lemma reduce_xr : forall n m M cs u v, wf n m M -> (forall c, In c cs -> c < n) ->
  length u = m -> length v = m ->
  reduce M cs (xr u v) = xr (reduce M cs u) (reduce M cs v) /\ length (reduce M cs u) = m.
Proof.
  intros n m M cs u v [Hl Hrow]. revert u v.
  induction cs as [|c cs IH]; intros u v Hcs Hu Hv; cbn [reduce]; auto.
  assert (Hc : length (nth c M []) = m) by (apply Hrow; apply Hcs; left; auto).
  assert (Hcs' : forall c', In c' cs -> c' < n) by (intros c' Hc'; apply Hcs; right; auto).
  rewrite nth_xr by congruence.
  set (L := nth c M []) in *.
  destruct (nth c u false), (nth c v false); cbn [xorb].
  - rewrite <- (xr4 u v L) by congruence. apply IH; auto; rewrite xr_length; congruence.
  - rewrite xr_r. apply IH; auto; rewrite xr_length; congruence.
  - rewrite xr_a. apply IH; auto; rewrite xr_length; congruence.
  - apply IH; auto.
Qed.

Lemma stuck_false : forall n m M i v, wf n m M -> i < n -> LZ M n i -> D1 M i ->
  (forall r, i <= r -> r < n -> bget M r i = false) ->
  span m M v -> (forall j, j < i -> nth j v false = false) -> nth i v false = true -> False.
Proof.
  intros n m M i v Hwf Hi HLZ HD Hst Hsp Hz Hone.
  pose proof Hwf as [Hl Hrow].
  assert (Hcs : forall c, In c (seq 0 i) -> c < n) by (intros c Hc; apply in_seq in Hc; lia).
  assert (Hphi : forall w, span m M w -> nth i (reduce M (seq 0 i) w) false = false).
  { intros w Hw. induction Hw.
    - rewrite reduce_unchanged by (intros; apply nth_repeat_false). apply nth_repeat_false.
    - rewrite Hl in H. destruct (Nat.lt_ge_cases k i) as [Hki|Hki].
      + assert (Es : seq 0 i = seq 0 k ++ k :: seq (S k) (i - S k)).
        { replace i with (k + S (i - S k)) at 1 by lia. rewrite seq_app. reflexivity. }
        rewrite Es, reduce_app. cbn [reduce].
        rewrite (reduce_unchanged M (seq 0 k)).
        2:{ intros c Hc. apply in_seq in Hc. apply (HLZ k c); lia. }
        change (nth k (nth k M []) false) with (bget M k k). rewrite HD by auto.
        rewrite xr_self.
        rewrite reduce_unchanged by (intros; apply nth_repeat_false). apply nth_repeat_false.
      + rewrite reduce_unchanged.
        * apply (Hst k); auto.
        * intros c Hc. apply in_seq in Hc. apply (HLZ k c); lia.
    - pose proof (span_len n m M u Hwf Hw1) as Hu.
      pose proof (span_len n m M v0 Hwf Hw2) as Hv.
      destruct (reduce_xr n m M (seq 0 i) u v0 Hwf Hcs Hu Hv) as [E Lu].
      destruct (reduce_xr n m M (seq 0 i) v0 u Hwf Hcs Hv Hu) as [_ Lv].
      rewrite E, nth_xr by congruence. rewrite IHHw1, IHHw2. reflexivity. }
  specialize (Hphi v Hsp).
  rewrite reduce_unchanged in Hphi.
  - congruence.
  - intros c Hc. apply in_seq in Hc. apply Hz. lia.
Qed.

(* every right half is reachable in the span of the initial augmented matrix *)
Lemma span_right_half : forall n A t d, square n A -> t <= n -> length d = n ->
  (forall j, t <= j -> nth j d false = false) ->
  exists v, span (n + n) (augment A) v /\ skipn n v = d.
Proof.
  intros n A t d HA. revert d. pose proof (square_wf n A HA) as [Hl Hrow].
  induction t as [|t IH]; intros d Ht Hd Hz.
  - exists (repeat false (n + n)). split. apply span_zero.
    rewrite skipn_repeat2. apply nth_ext with (d := false) (d' := false).
    + rewrite repeat_length; auto.
    + intros j Hj. rewrite nth_repeat_false. symmetry. apply Hz. lia.
  - destruct (IH (upd d t false)) as [v' [Hsp Hv']].
    + lia.
    + rewrite upd_len; auto.
    + intros j Hj. destruct (Nat.eq_dec j t) as [->|Hne].
      * apply nth_upd_eq. lia.
      * rewrite nth_upd_neq by auto. apply Hz. lia.
    + destruct (nth t d false) eqn:Et.
      * exists (xr v' (nth t (augment A) [])). split.
        -- apply span_add; auto. apply span_row. rewrite augment_length. lia.
        -- pose proof (span_len n (n + n) _ v' (augment_wf n A HA) Hsp) as Lv'.
           assert (Lr : length (nth t (augment A) []) = n + n).
           { apply (augment_wf n A HA). lia. }
           rewrite skipn_xr by congruence. rewrite Hv'.
           rewrite augment_nth by lia. rewrite skipn_app_len by (apply Hrow; lia). rewrite Hl.
           apply nth_ext with (d := false) (d' := false).
           ++ rewrite xr_length; rewrite upd_len; auto. rewrite unit_row_length; auto.
           ++ intros j Hj. rewrite xr_length in Hj by (rewrite upd_len, unit_row_length; auto).
              rewrite upd_len in Hj.
              rewrite nth_xr by (rewrite upd_len, unit_row_length; auto).
              rewrite unit_row_nth by lia.
              destruct (Nat.eq_dec j t) as [->|Hne].
              ** rewrite nth_upd_eq, Nat.eqb_refl by lia. rewrite Et. reflexivity.
              ** rewrite nth_upd_neq by auto.
                 assert (E : Nat.eqb t j = false) by (apply Nat.eqb_neq; lia). rewrite E.
                 destruct (nth j d false); reflexivity.
      * exists v'. split; auto. rewrite Hv'.
        apply nth_ext with (d := false) (d' := false).
        -- apply upd_len.
        -- intros j Hj. destruct (Nat.eq_dec j t) as [->|Hne].
           ++ rewrite upd_len in Hj. rewrite nth_upd_eq by auto. auto.
           ++ apply nth_upd_neq; auto.
Qed.

Lemma fwd_complete : forall len n c A i M,
  square n A -> square n c -> bmul c A = bident n ->
  i + len = n -> FInv n (n + n) i (augment A) M ->
  z2inv_fwd M n (seq i len) <> None.
Proof.
  induction len as [|len IH]; intros n c A i M HA Hc Hca Hil HF; cbn [seq z2inv_fwd].
  - discriminate.
  - destruct HF as [Hwf [HLZ [HD [Hs1 Hs2]]]].
    assert (Hnm : n <= n + n) by lia.
    destruct (bget M i i) eqn:Ep.
    + destruct (fwd_elim n (n + n) M i Hwf Hnm) as [Hwf' [HLZ' [HD' [Ht1 Ht2]]]]; auto; try lia.
      apply (IH n c A (S i)); auto; try lia.
      split; [|split; [|split; [|split]]]; auto.
      * apply (sub_trans _ _ M); auto.
      * apply (sub_trans _ _ M); auto.
    + destruct (find_pivot M i (S i) (n - S i)) as [k|] eqn:Efp.
      * apply find_pivot_some in Efp. destruct Efp as [Hk Hpk].
        destruct (fwd_swap n (n + n) M i k Hwf Hnm) as [Hwf1 [HLZ1 [HD1 [Hp1 [Hu1 Hu2]]]]]; auto; try lia.
        destruct (fwd_elim n (n + n) _ i Hwf1 Hnm) as [Hwf' [HLZ' [HD' [Ht1 Ht2]]]]; auto; try lia.
        apply (IH n c A (S i)); auto; try lia.
        split; [|split; [|split; [|split]]]; auto.
        -- apply (sub_trans _ _ M); auto. apply (sub_trans _ _ (swap_from M i i k)); auto.
        -- apply (sub_trans _ _ (swap_from M i i k)); auto. apply (sub_trans _ _ M); auto.
      * exfalso.
        assert (Hi : i < n) by lia.
        pose proof (square_wf n c Hc) as [Hlc Hrowc].
        destruct (span_right_half n A n (nth i c []) HA) as [v [Hsp Hv]]; auto.
        { intros j Hj. apply nth_overflow. rewrite Hrowc; auto. }
        assert (HQ : QL n A v).
        { apply (QL_span n A (augment A)); auto.
          - apply square_ncols; auto.
          - intros j Hj. rewrite augment_length in Hj. destruct HA as [HlA HFA].
            apply augment_QL. split; auto. lia. }
        destruct HQ as [Lv HQ]. rewrite Hv in HQ.
        assert (Hrow_i : vecmat (nth i c []) A = unit_row n i).
        { rewrite <- bident_nth by auto. rewrite <- Hca, bmul_vecmat.
          rewrite nth_map_lt with (d' := []) by lia. reflexivity. }
        rewrite Hrow_i in HQ.
        assert (Hvj : forall j, j < n -> nth j v false = Nat.eqb i j).
        { intros j Hj. rewrite <- (nth_firstn_lt _ n) by auto. rewrite HQ. apply unit_row_nth; auto. }
        apply (stuck_false n (n + n) M i v); auto.
        -- intros r Hr1 Hr2. destruct (Nat.eq_dec r i) as [->|Hne]; auto.
           apply (find_pivot_none _ _ _ _ Efp). lia.
        -- apply (sub_span _ (augment A)); auto.
        -- intros j Hj. rewrite Hvj by lia. apply Nat.eqb_neq. lia.
        -- rewrite Hvj by lia. apply Nat.eqb_refl.
Qed.

Theorem z2inv_complete : forall n a c, square n a -> square n c -> bmul c a = bident n ->
  exists b, z2inv a = Some b.
Proof.
  intros n a c Ha Hc Hca. unfold z2inv. pose proof Ha as [Hl _]. rewrite Hl.
  destruct (z2inv_fwd (augment a) n (seq 0 n)) as [M|] eqn:E.
  - eexists. reflexivity.
  - exfalso. revert E. apply (fwd_complete n n c a 0); auto.
    split; [|split; [|split; [|split]]].
    + apply augment_wf; auto.
    + intros r c' H. lia.
    + intros c' H. lia.
    + apply sub_refl.
    + apply sub_refl.
Qed.
