(* Proofs/CircuitFacts.v -- a circuit built by [circ_build] acts as the ordered product of its gates. *)
From Coq Require Import ZArith List Bool Lia ZifyBool Arith.
From PC Require Import Gen.Kernels Model.Base Model.Pauli Model.Ket Model.Z2 Model.CMap Model.Circuit Model.Spec
  Proofs.PauliFacts Proofs.Rotate.
Import ListNotations.
Open Scope Z_scope.
Ltac Zify.zify_post_hook ::= Z.to_euclidean_division_equations.   (* lets lia decide goals with mod and / by constants *)

(* ------------------------------------------------------------------ statements' vocabulary *)
Definition gates_of (prog : list instr) : list gate :=
  flat_map (fun i => match i with IGate g => [g] | IMeasure _ => [] end) prog.
Definition no_measure (prog : list instr) : Prop :=
  Forall (fun i => match i with IGate _ => True | IMeasure _ => False end) prog.
(* the reference semantics: apply the gates one at a time in the order they were added *)
Definition run_gates (n : nat) (gs : list gate) (l : plist) : option plist :=
  opt_fold (fun acc g => gate_forward n g acc) gs l.

(* a gate is 'local': its qubits are in range and distinct, and its generator / maps have the matching size *)
Definition gate_ok (n : nat) (g : gate) : Prop :=
  NoDup (gq g) /\ Forall (fun q => (q < n)%nat) (gq g) /\
  match gk g with
  | GGen gen => length (fst gen) = length (gq g)
  | GMap f b => forall m, (f = Some m \/ b = Some m) ->
                  length m = (2 * length (gq g))%nat /\ Forall (fun r => length (fst r) = length (gq g)) m
  end.

(* ------------------------------------------------------------------ lists: upd, nth, masks *)
Lemma upd_len : forall (A : Type) (l : list A) i v, length (upd l i v) = length l.
Proof. induction l as [|a l IH]; intros [|i] v; cbn [upd length]; try reflexivity. rewrite IH. reflexivity. Qed.

Lemma nth_upd_same : forall (A : Type) (l : list A) i v d, (i < length l)%nat -> nth i (upd l i v) d = v.
Proof.
  induction l as [|a l IH]; intros [|i] v d H; cbn [length] in H; try lia; cbn [upd nth]; try reflexivity.
  apply IH. lia.
Qed.

Lemma nth_upd_other : forall (A : Type) (l : list A) i j v d, i <> j -> nth j (upd l i v) d = nth j l d.
Proof.
  induction l as [|a l IH]; intros [|i] [|j] v d H; cbn [upd nth]; try reflexivity; try (exfalso; apply H; reflexivity).
  apply IH. intro E. apply H. rewrite E. reflexivity.
Qed.

Lemma Forall_upd : forall (A : Type) (P : A -> Prop) (l : list A) i v,
  Forall P l -> ((i < length l)%nat -> P v) -> Forall P (upd l i v).
Proof.
  induction l as [|a l IH]; intros [|i] v HF Hv; cbn [upd]; try exact HF.
  - inversion_clear HF as [|? ? Ha HF']. constructor; [apply Hv; cbn [length]; lia | exact HF'].
  - inversion_clear HF as [|? ? Ha HF']. constructor; [exact Ha|]. apply IH; [exact HF'|]. intro. apply Hv. cbn [length]. lia.
Qed.

Lemma mask_of_length : forall qs n, length (mask_of qs n) = n.
Proof.
  induction qs as [|q qs IH]; intros n; cbn [mask_of].
  - apply repeat_length.
  - rewrite upd_len. apply IH.
Qed.

Lemma mask_of_nth : forall qs n q, (q < n)%nat -> nth q (mask_of qs n) false = true <-> In q qs.
Proof.
  induction qs as [|p qs IH]; intros n q Hq; cbn [mask_of].
  - rewrite nth_repeat. split; [discriminate | intros []].
  - destruct (Nat.eq_dec p q) as [E|E].
    + subst p. rewrite nth_upd_same by (rewrite mask_of_length; exact Hq). split; [left; reflexivity | reflexivity].
    + rewrite nth_upd_other by exact E. rewrite IH by exact Hq. split; [right; assumption|].
      intros [H|H]; [contradiction | exact H].
Qed.

(* disjoint masks *)
Fixpoint mdisj (m1 m2 : list bool) : bool :=
  match m1, m2 with a :: r1, b :: r2 => negb (a && b) && mdisj r1 r2 | _, _ => true end.

Lemma mdisj_sym : forall m1 m2, mdisj m1 m2 = mdisj m2 m1.
Proof. induction m1 as [|a m1 IH]; intros [|b m2]; cbn [mdisj]; try reflexivity. rewrite IH, (andb_comm a b). reflexivity. Qed.

Lemma mdisj_of_nth : forall m1 m2,
  (forall i, nth i m1 false = true -> nth i m2 false = true -> False) -> mdisj m1 m2 = true.
Proof.
  induction m1 as [|a m1 IH]; intros [|b m2] H; cbn [mdisj]; try reflexivity.
  rewrite IH by (intros i H1 H2; apply (H (S i)); assumption).
  destruct a, b; try reflexivity. exfalso. apply (H 0%nat); reflexivity.
Qed.

Lemma disjointb_spec : forall a b x, disjointb a b = true -> In x a -> In x b -> False.
Proof.
  intros a b x H Ha Hb. unfold disjointb in H. rewrite forallb_forall in H. specialize (H x Ha).
  assert (E : existsb (Nat.eqb x) b = true) by (apply existsb_exists; exists x; split; [exact Hb | apply Nat.eqb_refl]).
  rewrite E in H. discriminate H.
Qed.

Lemma mask_of_disjoint : forall a b n, disjointb a b = true -> mdisj (mask_of a n) (mask_of b n) = true.
Proof.
  intros a b n H. apply mdisj_of_nth. intros i H1 H2.
  destruct (lt_dec i n) as [L|L].
  - apply (disjointb_spec a b i H); [apply (mask_of_nth a n i L), H1 | apply (mask_of_nth b n i L), H2].
  - rewrite nth_overflow in H1 by (rewrite mask_of_length; lia). discriminate H1.
Qed.

Lemma mask_of_full : forall qs n, NoDup qs -> Forall (fun q => (q < n)%nat) qs -> length qs = n ->
  mask_of qs n = repeat true n.
Proof.
  intros qs n ND HF HL.
  assert (INC : incl (seq 0 n) qs).
  { apply NoDup_length_incl; [exact ND | rewrite seq_length; lia |].
    intros q Hq. apply in_seq. rewrite Forall_forall in HF. specialize (HF q Hq). lia. }
  apply (nth_ext _ _ false true).
  - rewrite mask_of_length, repeat_length. reflexivity.
  - rewrite mask_of_length. intros i Hi. rewrite nth_repeat. apply mask_of_nth; [exact Hi|].
    apply INC, in_seq. lia.
Qed.

(* ------------------------------------------------------------------ gather / scatter *)
Lemma scatter_length : forall (A : Type) (m : list bool) (x r : list A), length (scatter m x r) = length x.
Proof.
  induction m as [|[|] m IH]; intros [|s x] r; try reflexivity; cbn [scatter].
  - destruct r as [|t r]; cbn [length]; rewrite IH; reflexivity.
  - cbn [length]. rewrite IH. reflexivity.
Qed.

Lemma gather_scatter_disj : forall (A : Type) (m1 m2 : list bool) (x r : list A), mdisj m1 m2 = true ->
  gather m2 (scatter m1 x r) = gather m2 x.
Proof.
  induction m1 as [|a m1 IH]; intros [|b m2] [|s x] r H; try reflexivity.
  - destruct a; reflexivity.
  - cbn [mdisj] in H. apply andb_true_iff in H. destruct H as [Hab H].
    destruct a, b; try discriminate Hab; cbn [scatter].
    + destruct r as [|t r]; cbn [gather]; apply IH; exact H.
    + cbn [gather]. f_equal. apply IH; exact H.
    + cbn [gather]. apply IH; exact H.
Qed.

Lemma scatter_scatter_disj : forall (A : Type) (m1 m2 : list bool) (x r1 r2 : list A), mdisj m1 m2 = true ->
  scatter m1 (scatter m2 x r2) r1 = scatter m2 (scatter m1 x r1) r2.
Proof.
  induction m1 as [|a m1 IH]; intros [|b m2] [|s x] r1 r2 H;
    try reflexivity; try (destruct a; reflexivity); try (destruct b; reflexivity);
    try (destruct a; [destruct r1|]; reflexivity); try (destruct b; [destruct r2|]; reflexivity);
    try (destruct a, b; reflexivity).
  cbn [mdisj] in H. apply andb_true_iff in H. destruct H as [Hab H].
  destruct a, b; try discriminate Hab; cbn [scatter].
  - destruct r1 as [|t r1]; cbn [scatter]; f_equal; apply IH; exact H.
  - destruct r2 as [|t r2]; cbn [scatter]; f_equal; apply IH; exact H.
  - f_equal. apply IH; exact H.
Qed.

Lemma gather_all_true : forall (A : Type) (x : list A), gather (repeat true (length x)) x = x.
Proof. induction x as [|s x IH]; [reflexivity|]. cbn [length repeat gather]. rewrite IH. reflexivity. Qed.

Lemma scatter_all_true : forall (A : Type) (x r : list A), length r = length x -> scatter (repeat true (length x)) x r = r.
Proof.
  induction x as [|s x IH]; intros [|t r] H; try discriminate H; try reflexivity.
  cbn [length repeat scatter]. rewrite IH by (cbn [length] in H; lia). reflexivity.
Qed.

(* ------------------------------------------------------------------ masked kernels of the abstract shape *)
Definition masked (K : pauli -> pauli) (m : list bool) (a : pauli) : pauli :=
  let r := K (gather m (fst a), snd a) in (scatter m (fst a) (fst r), snd r).
Definition kS (K : pauli -> pauli) (x : pstr) : pstr := fst (K (x, 0)).
Definition kd (K : pauli -> pauli) (x : pstr) : Z := snd (K (x, 0)).
(* the kernel's string part and phase increment depend on the string only *)
Definition equivariant (K : pauli -> pauli) : Prop :=
  forall x p, 0 <= p < 4 -> K (x, p) = (kS K x, (p + kd K x) mod 4).
Definition mop (S : pstr -> pstr) (d : pstr -> Z) (m : list bool) (a : pauli) : pauli :=
  (scatter m (fst a) (S (gather m (fst a))), (snd a + d (gather m (fst a))) mod 4).

Lemma rotate1_masked_eq : forall gen m a, rotate1_masked gen m a = masked (rotate1 gen) m a.
Proof. reflexivity. Qed.
Lemma transform1_masked_eq : forall mp m a, transform1_masked mp m a = masked (transform1 mp) m a.
Proof. reflexivity. Qed.

Lemma masked_mop : forall K m a, equivariant K -> 0 <= snd a < 4 -> masked K m a = mop (kS K) (kd K) m a.
Proof. intros K m [x p] HK Hp. unfold masked, mop. cbn [fst snd] in *. rewrite (HK _ p Hp). reflexivity. Qed.

Lemma equivariant_rotate1 : forall gen, equivariant (rotate1 gen).
Proof.
  intros gen x p Hp. unfold kS, kd. rewrite !rotate1_unfold. cbn [fst snd].
  destruct (bz (acq (fst gen) x)); cbn [fst snd]; f_equal; lia.
Qed.

Lemma equivariant_transform1 : forall mp, equivariant (transform1 mp).
Proof.
  intros mp x p Hp. unfold kS, kd, transform1, np_transform_phase. cbn [fst snd]. f_equal. lia.
Qed.

Lemma mop_commute : forall S1 d1 m1 S2 d2 m2 a, mdisj m1 m2 = true ->
  mop S1 d1 m1 (mop S2 d2 m2 a) = mop S2 d2 m2 (mop S1 d1 m1 a).
Proof.
  intros S1 d1 m1 S2 d2 m2 [x p] H.
  assert (H' : mdisj m2 m1 = true) by (rewrite mdisj_sym; exact H).
  unfold mop. cbn [fst snd].
  rewrite (gather_scatter_disj _ m2 m1) by exact H'. rewrite (gather_scatter_disj _ m1 m2) by exact H.
  f_equal; [apply scatter_scatter_disj; exact H | lia].
Qed.

Lemma masked_wf : forall n K m a, equivariant K -> wf n a -> wf n (masked K m a).
Proof.
  intros n K m a HK [L R]. rewrite masked_mop by assumption. split; unfold mop; cbn [fst snd].
  - rewrite scatter_length. exact L.
  - lia.
Qed.

Lemma masked_commute : forall K1 m1 K2 m2 a, equivariant K1 -> equivariant K2 -> mdisj m1 m2 = true -> 0 <= snd a < 4 ->
  masked K1 m1 (masked K2 m2 a) = masked K2 m2 (masked K1 m1 a).
Proof.
  intros K1 m1 K2 m2 a H1 H2 HD Ha.
  rewrite (masked_mop K2 m2 a H2 Ha), (masked_mop K1 m1 a H1 Ha).
  rewrite (masked_mop K1) by (try exact H1; unfold mop; cbn [snd]; lia).
  rewrite (masked_mop K2) by (try exact H2; unfold mop; cbn [snd]; lia).
  apply mop_commute. exact HD.
Qed.

Lemma masked_full : forall K a, length (fst (K a)) = length (fst a) -> masked K (repeat true (length (fst a))) a = K a.
Proof.
  intros K [x p]. unfold masked. cbn [fst snd]. rewrite gather_all_true. intros H.
  rewrite scatter_all_true by exact H. destruct (K (x, p)); reflexivity.
Qed.

Lemma masked_outside : forall K m a, gather (map negb m) (fst (masked K m a)) = gather (map negb m) (fst a).
Proof. intros. unfold masked. cbn [fst]. apply gather_neg_scatter. Qed.

(* lengths of the two kernels' results *)
Lemma rotate1_length : forall gen a : pauli, length (fst gen) = length (fst a) -> length (fst (rotate1 gen a)) = length (fst a).
Proof.
  intros gen a H. rewrite rotate1_fst. destruct (acqb (fst gen) (fst a)); [|reflexivity].
  apply gxor_length. symmetry. exact H.
Qed.

Lemma combine_fold_length : forall w sel (rows : plist) (acc : pauli),
  Forall (fun r : pauli => length (fst r) = w) rows -> length (fst acc) = w ->
  length (fst (fold_left combine_step (combine sel rows) acc)) = w.
Proof.
  induction sel as [|b sel IH]; intros [|r rows] acc HF Ha; cbn [combine fold_left]; try exact Ha.
  inversion_clear HF as [|? ? Hr HF']. apply IH; [exact HF'|].
  unfold combine_step; cbn [fst snd]. destruct b; [|exact Ha]. cbn [fst]. rewrite gxor_length; len.
Qed.

Lemma width_shape : forall n (m : plist), length m = (2 * n)%nat -> Forall (fun r : pauli => length (fst r) = n) m -> width m = n.
Proof.
  intros n [|r m] HL HF; cbn [width].
  - cbn [length] in HL. lia.
  - inversion_clear HF as [|? ? Hr _]. exact Hr.
Qed.

Lemma transform1_length : forall n (m : plist) a, length m = (2 * n)%nat -> Forall (fun r : pauli => length (fst r) = n) m ->
  length (fst (transform1 m a)) = n.
Proof.
  intros n m a HL HF. unfold transform1. cbn [fst]. rewrite (width_shape n m HL HF).
  unfold combine_row. apply combine_fold_length; [exact HF|]. unfold pid. cbn [fst]. apply repeat_length.
Qed.

(* ------------------------------------------------------------------ the shape of an inverse map *)
Lemma map2_length : forall (A B C : Type) (f : A -> B -> C) l1 l2, length (map2 f l1 l2) = Nat.min (length l1) (length l2).
Proof. induction l1 as [|a l1 IH]; intros [|b l2]; cbn [map2 length]; try reflexivity. rewrite IH. reflexivity. Qed.

Lemma Forall_map2 : forall (A B C : Type) (P : C -> Prop) (f : A -> B -> C) l1 l2,
  (forall a b, In a l1 -> P (f a b)) -> Forall P (map2 f l1 l2).
Proof.
  induction l1 as [|a l1 IH]; intros [|b l2] H; cbn [map2]; try constructor.
  - apply H. left. reflexivity.
  - apply IH. intros a' b' Hin. apply H. right. exact Hin.
Qed.

Definition shaped (k L : nat) (a : bmat) : Prop := length a = k /\ Forall (fun r => length r = L) a.

Lemma nth_shaped : forall k L a i, shaped k L a -> (i < k)%nat -> length (nth i a []) = L.
Proof.
  intros k L a i [HL HF] Hi. rewrite Forall_forall in HF. apply HF. apply nth_In. lia.
Qed.

Lemma row_add_from_length : forall c rj ri, length rj = length ri -> length (row_add_from c rj ri) = length rj.
Proof.
  intros c rj ri H. unfold row_add_from. rewrite app_length, firstn_length, map2_length, !skipn_length. lia.
Qed.

Lemma row_mix_length : forall c keep other, length keep = length other -> length (row_mix c keep other) = length keep.
Proof.
  intros c keep other H. unfold row_mix. rewrite app_length, firstn_length, skipn_length. lia.
Qed.

Lemma bget_in_range : forall a i c, bget a i c = true -> (i < length a)%nat.
Proof.
  intros a i c H. destruct (lt_dec i (length a)) as [L|L]; [exact L|].
  unfold bget in H. rewrite nth_overflow in H by lia. unfold brow_get in H. destruct c; discriminate H.
Qed.

Lemma upd_shaped : forall k L a i r, shaped k L a -> length r = L -> shaped k L (upd a i r).
Proof.
  intros k L a i r [HL HF] Hr. split; [rewrite upd_len; exact HL|]. apply Forall_upd; [exact HF | intros _; exact Hr].
Qed.

Lemma elim_rows_shaped : forall k L js a c r, shaped k L a -> (r < k)%nat -> shaped k L (elim_rows a c r js).
Proof.
  induction js as [|j js IH]; intros a c r Ha Hr; cbn [elim_rows]; [exact Ha|].
  apply IH; [|exact Hr]. destruct (bget a j c) eqn:E; [|exact Ha].
  assert (Hj : (j < k)%nat) by (destruct Ha as [HL _]; rewrite <- HL; apply (bget_in_range a j c E)).
  apply upd_shaped; [exact Ha|]. rewrite row_add_from_length; rewrite !(nth_shaped k L a) by assumption; reflexivity.
Qed.

Lemma find_pivot_range : forall a c fuel from k, find_pivot a c from fuel = Some k -> (k < length a)%nat.
Proof.
  induction fuel as [|f IH]; intros from k H; cbn [find_pivot] in H; [discriminate H|].
  destruct (bget a from c) eqn:E.
  - injection H as <-. apply (bget_in_range a from c E).
  - apply (IH _ _ H).
Qed.

Lemma swap_from_shaped : forall k L a c i j, shaped k L a -> (i < k)%nat -> (j < k)%nat -> shaped k L (swap_from a c i j).
Proof.
  intros k L a c i j Ha Hi Hj. unfold swap_from.
  apply upd_shaped; [apply upd_shaped; [exact Ha|]|];
    rewrite row_mix_length; rewrite !(nth_shaped k L a) by assumption; reflexivity.
Qed.

Lemma z2inv_fwd_shaped : forall k L n cols a a', shaped k L a -> Forall (fun i => (i < k)%nat) cols ->
  z2inv_fwd a n cols = Some a' -> shaped k L a'.
Proof.
  induction cols as [|i cols IH]; intros a a' Ha HF H; cbn [z2inv_fwd] in H.
  - injection H as <-. exact Ha.
  - inversion_clear HF as [|? ? Hi HF'].
    destruct (bget a i i).
    + apply (IH _ _ (elim_rows_shaped k L _ a i i Ha Hi) HF' H).
    + destruct (find_pivot a i (S i) (n - S i)) as [p|] eqn:E; [|discriminate H].
      assert (Hp : (p < k)%nat) by (destruct Ha as [HL _]; rewrite <- HL; apply (find_pivot_range _ _ _ _ _ E)).
      apply (IH _ _ (elim_rows_shaped k L _ _ i i (swap_from_shaped k L a i i p Ha Hi Hp) Hi) HF' H).
Qed.

Lemma z2inv_bwd_shaped : forall k L is_ a, shaped k L a -> Forall (fun i => (i < k)%nat) is_ -> shaped k L (z2inv_bwd a is_).
Proof.
  induction is_ as [|i is_ IH]; intros a Ha HF; cbn [z2inv_bwd]; [exact Ha|].
  inversion_clear HF as [|? ? Hi HF']. apply IH; [|exact HF']. apply elim_rows_shaped; assumption.
Qed.

Lemma augment_shaped : forall k a, shaped k k a -> shaped k (k + k) (augment a).
Proof.
  intros k a [HL HF]. unfold augment. rewrite HL. split.
  - rewrite map2_length, seq_length, HL. lia.
  - apply Forall_map2. intros r i Hin. rewrite app_length. unfold unit_row. rewrite map_length, seq_length.
    rewrite Forall_forall in HF. rewrite (HF r Hin). reflexivity.
Qed.

Lemma z2inv_shaped : forall k a g, shaped k k a -> z2inv a = Some g -> shaped k k g.
Proof.
  intros k a g Ha H. unfold z2inv in H. pose proof (augment_shaped k a Ha) as HA. destruct Ha as [HL _]. rewrite HL in H.
  destruct (z2inv_fwd (augment a) k (seq 0 k)) as [a1|] eqn:E; [|discriminate H]. injection H as <-.
  assert (H1 : shaped k (k + k) a1).
  { apply (z2inv_fwd_shaped k (k + k) k (seq 0 k) _ _ HA); [|exact E]. apply Forall_forall. intros i Hi. apply in_seq in Hi. lia. }
  assert (H2 : shaped k (k + k) (z2inv_bwd a1 (rev (seq 1 (k - 1))))).
  { apply z2inv_bwd_shaped; [exact H1|]. apply Forall_forall. intros i Hi. apply in_rev in Hi. apply in_seq in Hi. lia. }
  destruct H2 as [L2 F2]. split.
  - rewrite map_length. exact L2.
  - apply Forall_map. eapply Forall_impl; [|exact F2]. cbv beta. intros r Hr. rewrite skipn_length, Hr. lia.
Qed.

Lemma flat_length : forall g, length (flat g) = (2 * length g)%nat.
Proof. induction g as [|[x z] g IH]; cbn [flat length]; [reflexivity|]. rewrite IH. lia. Qed.

Lemma unflat_length : forall n l, length l = (2 * n)%nat -> length (unflat l) = n.
Proof.
  induction n as [|n IH]; intros l H.
  - destruct l; [reflexivity | discriminate H].
  - destruct l as [|x [|z l]]; cbn [length] in H; try lia. cbn [unflat length]. f_equal. apply IH. lia.
Qed.

Lemma inverse_shape : forall n (m m' : cmap), length m = (2 * n)%nat -> Forall (fun r : pauli => length (fst r) = n) m ->
  inverse m = Some m' -> length m' = (2 * n)%nat /\ Forall (fun r : pauli => length (fst r) = n) m'.
Proof.
  intros n m m' HL HF H. unfold inverse in H.
  destruct (z2inv (cmap_bits m)) as [ginv|] eqn:E; [|discriminate H]. injection H as <-.
  assert (HB : shaped (2 * n) (2 * n) (cmap_bits m)).
  { unfold cmap_bits. split; [rewrite map_length; exact HL|]. apply Forall_map. eapply Forall_impl; [|exact HF].
    cbv beta. intros r Hr. rewrite flat_length, Hr. reflexivity. }
  destruct (z2inv_shaped _ _ _ HB E) as [GL GF]. split.
  - rewrite map2_length. unfold pauli_combine. rewrite map_length, GL. lia.
  - apply Forall_map2. intros row c Hin. cbn [fst]. apply unflat_length. rewrite Forall_forall in GF. apply GF, Hin.
Qed.

(* ------------------------------------------------------------------ every gate is a masked kernel *)
Definition gate_kernel (g : gate) : option (pauli -> pauli) :=
  match gk g with
  | GGen gen => Some (rotate1 gen)
  | GMap f b => match opt_or_inv f b with Some m => Some (transform1 m) | None => None end
  end.

Lemma gate_kernel_equivariant : forall g K, gate_kernel g = Some K -> equivariant K.
Proof.
  intros g K H. unfold gate_kernel in H. destruct (gk g) as [gen|f b].
  - injection H as <-. apply equivariant_rotate1.
  - destruct (opt_or_inv f b) as [m|]; [|discriminate H]. injection H as <-. apply equivariant_transform1.
Qed.

Lemma gate_map_shape : forall n g f b m, gate_ok n g -> gk g = GMap f b -> opt_or_inv f b = Some m ->
  length m = (2 * length (gq g))%nat /\ Forall (fun r : pauli => length (fst r) = length (gq g)) m.
Proof.
  intros n g f b m (_ & _ & SH) EK EM. rewrite EK in SH. unfold opt_or_inv in EM.
  destruct f as [mf|].
  - injection EM as <-. apply SH. left. reflexivity.
  - destruct b as [mb|]; [|discriminate EM].
    destruct (SH mb (or_intror eq_refl)) as [HL HF]. apply (inverse_shape _ mb m HL HF EM).
Qed.

Lemma gmask_full : forall n g, gate_ok n g -> gate_n g = n -> gmask g n = repeat true n.
Proof. intros n g (ND & RG & _) E. unfold gmask. apply mask_of_full; assumption. Qed.

Lemma gate_forward_masked : forall n g l, gate_ok n g -> Forall (wf n) l ->
  gate_forward n g l = match gate_kernel g with Some K => Some (map (masked K (gmask g n)) l) | None => None end.
Proof.
  intros n g l Hok Hl. unfold gate_forward, gate_kernel.
  destruct (gk g) as [gen|f b] eqn:EK.
  - f_equal. destruct (Nat.eqb (gate_n g) n) eqn:EN; [|reflexivity].
    apply Nat.eqb_eq in EN. unfold rotate_by, clifford_rotate. apply map_ext_in. intros a Ha.
    rewrite Forall_forall in Hl. destruct (Hl a Ha) as [La _].
    rewrite (gmask_full n g Hok EN). rewrite <- La. symmetry. apply masked_full. apply rotate1_length.
    destruct Hok as (_ & _ & SH). rewrite EK in SH. unfold gate_n in EN. rewrite La, <- EN. exact SH.
  - destruct (opt_or_inv f b) as [m|] eqn:EM; [|reflexivity].
    f_equal. destruct (Nat.eqb (gate_n g) n) eqn:EN; [|reflexivity].
    apply Nat.eqb_eq in EN. unfold transform_by, pauli_transform. apply map_ext_in. intros a Ha.
    rewrite Forall_forall in Hl. destruct (Hl a Ha) as [La _].
    rewrite (gmask_full n g Hok EN). rewrite <- La. symmetry. apply masked_full.
    destruct (gate_map_shape n g f b m Hok EK EM) as [HL HF]. unfold gate_n in EN. rewrite EN in HL, HF.
    transitivity n; [apply transform1_length; assumption | symmetry; exact La].
Qed.

Lemma map_masked_wf : forall n K m l, equivariant K -> Forall (wf n) l -> Forall (wf n) (map (masked K m) l).
Proof.
  intros n K m l HK Hl. apply Forall_map. eapply Forall_impl; [|exact Hl]. cbv beta. intros a Ha. apply masked_wf; assumption.
Qed.

Lemma gate_forward_wf : forall n g l l', gate_ok n g -> Forall (wf n) l -> gate_forward n g l = Some l' -> Forall (wf n) l'.
Proof.
  intros n g l l' Hg Hl H. rewrite gate_forward_masked in H by assumption.
  destruct (gate_kernel g) as [K|] eqn:EK; [|discriminate H]. injection H as <-.
  apply map_masked_wf; [apply (gate_kernel_equivariant g K EK) | exact Hl].
Qed.

(* ------------------------------------------------------------------ locality *)
Theorem gate_local : forall n g l l', gate_ok n g -> Forall (wf n) l -> gate_forward n g l = Some l' ->
   Forall2 (fun a a' => gather (map negb (gmask g n)) (fst a') = gather (map negb (gmask g n)) (fst a)) l l'.
Proof.
  intros n g l l' Hg Hl H. rewrite gate_forward_masked in H by assumption.
  destruct (gate_kernel g) as [K|]; [|discriminate H]. injection H as <-.
  clear Hl. induction l as [|a l IH]; cbn [map]; constructor; [apply masked_outside | exact IH].
Qed.

(* ------------------------------------------------------------------ gates on disjoint qubits commute *)
Lemma gmask_disjoint : forall n g h, gate_indep g h = true -> mdisj (gmask g n) (gmask h n) = true.
Proof. intros n g h H. apply mask_of_disjoint. exact H. Qed.

Theorem disjoint_commute : forall n g h l, gate_ok n g -> gate_ok n h -> gate_indep g h = true ->
   Forall (wf n) l ->
   match gate_forward n g l, gate_forward n h l with
   | Some lg, Some lh => gate_forward n h lg = gate_forward n g lh
   | _, _ => True
   end.
Proof.
  intros n g h l Hg Hh HI Hl.
  rewrite (gate_forward_masked n g l Hg Hl), (gate_forward_masked n h l Hh Hl).
  destruct (gate_kernel g) as [Kg|] eqn:EG; [|exact I]. destruct (gate_kernel h) as [Kh|] eqn:EH; [|exact I].
  pose proof (gate_kernel_equivariant g Kg EG) as QG. pose proof (gate_kernel_equivariant h Kh EH) as QH.
  rewrite (gate_forward_masked n h) by (try exact Hh; apply map_masked_wf; assumption).
  rewrite (gate_forward_masked n g) by (try exact Hg; apply map_masked_wf; assumption).
  rewrite EG, EH. f_equal. rewrite !map_map. apply map_ext_in. intros a Ha.
  rewrite Forall_forall in Hl. destruct (Hl a Ha) as [_ Ra].
  apply masked_commute; try assumption. rewrite mdisj_sym. apply gmask_disjoint. exact HI.
Qed.

(* ------------------------------------------------------------------ option plumbing *)
Definition obind {A B : Type} (o : option A) (f : A -> option B) : option B :=
  match o with Some a => f a | None => None end.

Lemma opt_fold_app : forall (A B : Type) (f : A -> B -> option A) l1 l2 a,
  opt_fold f (l1 ++ l2) a = obind (opt_fold f l1 a) (opt_fold f l2).
Proof.
  induction l1 as [|b l1 IH]; intros l2 a; cbn [app opt_fold obind]; [reflexivity|].
  destruct (f a b) as [a'|]; [apply IH | reflexivity].
Qed.

Lemma run_gates_cons : forall n h gs l, run_gates n (h :: gs) l = obind (gate_forward n h l) (run_gates n gs).
Proof. reflexivity. Qed.

Lemma run_gates_snoc : forall n gs g l, run_gates n (gs ++ [g]) l = obind (run_gates n gs l) (gate_forward n g).
Proof.
  intros. unfold run_gates. rewrite opt_fold_app. destruct (opt_fold _ gs l) as [l'|]; cbn [obind opt_fold]; [|reflexivity].
  destruct (gate_forward n g l'); reflexivity.
Qed.

Lemma run_gates_wf : forall n gs l l', Forall (gate_ok n) gs -> Forall (wf n) l -> run_gates n gs l = Some l' -> Forall (wf n) l'.
Proof.
  induction gs as [|h gs IH]; intros l l' HG Hl H.
  - injection H as <-. exact Hl.
  - inversion_clear HG as [|? ? Hh HG']. rewrite run_gates_cons in H.
    destruct (gate_forward n h l) as [l1|] eqn:E; [|discriminate H]. cbn [obind] in H.
    apply (IH l1 l' HG' (gate_forward_wf n h l l1 Hh Hl E) H).
Qed.

(* the option-valued form of [disjoint_commute]: failure of a gate does not depend on the operand *)
Lemma gate_swap : forall n g h l, gate_ok n g -> gate_ok n h -> gate_indep h g = true -> Forall (wf n) l ->
  obind (gate_forward n g l) (gate_forward n h) = obind (gate_forward n h l) (gate_forward n g).
Proof.
  intros n g h l Hg Hh HI Hl.
  rewrite (gate_forward_masked n g l Hg Hl), (gate_forward_masked n h l Hh Hl).
  destruct (gate_kernel g) as [Kg|] eqn:EG; destruct (gate_kernel h) as [Kh|] eqn:EH; cbn [obind];
    try pose proof (gate_kernel_equivariant g Kg EG) as QG; try pose proof (gate_kernel_equivariant h Kh EH) as QH;
    try (rewrite (gate_forward_masked n h) by (try exact Hh; apply map_masked_wf; assumption); rewrite EH);
    try (rewrite (gate_forward_masked n g) by (try exact Hg; apply map_masked_wf; assumption); rewrite EG);
    try reflexivity.
  f_equal. rewrite !map_map. apply map_ext_in. intros a Ha.
  rewrite Forall_forall in Hl. destruct (Hl a Ha) as [_ Ra].
  apply masked_commute; try assumption. apply gmask_disjoint. exact HI.
Qed.

(* a gate slides through a run of gates that are all independent of it *)
Lemma gates_slide : forall n g gs l, gate_ok n g -> Forall (gate_ok n) gs ->
  forallb (fun h => gate_indep h g) gs = true -> Forall (wf n) l ->
  obind (gate_forward n g l) (run_gates n gs) = obind (run_gates n gs l) (gate_forward n g).
Proof.
  intros n g. induction gs as [|h gs IH]; intros l Hg HG HI Hl.
  - unfold run_gates. cbn [opt_fold obind]. destruct (gate_forward n g l); reflexivity.
  - inversion_clear HG as [|? ? Hh HG']. cbn [forallb] in HI. apply andb_true_iff in HI. destruct HI as [HI1 HI2].
    pose proof (gate_swap n g h l Hg Hh HI1 Hl) as SW.
    rewrite !run_gates_cons.
    destruct (gate_forward n h l) as [y|] eqn:EH; cbn [obind] in *.
    + rewrite <- (IH y Hg HG' HI2 (gate_forward_wf n h l y Hh Hl EH)).
      destruct (gate_forward n g l) as [x|] eqn:EG; cbn [obind] in *.
      * rewrite run_gates_cons, SW. reflexivity.
      * rewrite <- SW. reflexivity.
    + destruct (gate_forward n g l) as [x|] eqn:EG; cbn [obind] in *; [|reflexivity].
      rewrite run_gates_cons, SW. reflexivity.
Qed.

(* ------------------------------------------------------------------ layers, last layer first *)
Definition rsem (n : nat) (rl : list clayer) (l : plist) : option plist :=
  circuit_forward n (only_layers (rev rl)) l.

Definition lay_ok (n : nat) (c : clayer) : Prop :=
  match c with CL ly => lmaps ly = None /\ Forall (gate_ok n) (lgates ly) | ML _ => False end.

Lemma rsem_nil : forall n l, rsem n [] l = Some l.
Proof. reflexivity. Qed.

Lemma rsem_cons_CL : forall n ly rl l, rsem n (CL ly :: rl) l = obind (rsem n rl l) (layer_forward n ly).
Proof.
  intros. unfold rsem, only_layers. cbn [rev]. rewrite flat_map_app. cbn [flat_map app].
  unfold circuit_forward. rewrite opt_fold_app.
  destruct (opt_fold _ (flat_map _ (rev rl)) l) as [l'|]; cbn [obind opt_fold]; [|reflexivity].
  destruct (layer_forward n ly l'); reflexivity.
Qed.

Lemma layer_forward_plain : forall n ly l, lmaps ly = None -> layer_forward n ly l = run_gates n (lgates ly) l.
Proof. intros n ly l H. unfold layer_forward. rewrite H. reflexivity. Qed.

Lemma layer_add_sem : forall n cur g l, lmaps cur = None ->
  layer_forward n (layer_add cur g) l = obind (layer_forward n cur l) (gate_forward n g).
Proof.
  intros n cur g l H. rewrite (layer_forward_plain n cur l H).
  rewrite layer_forward_plain by exact H. cbn [layer_add lgates]. apply run_gates_snoc.
Qed.

Lemma new_layer_sem : forall n g rl l, rsem n (new_layer g :: rl) l = obind (rsem n rl l) (gate_forward n g).
Proof.
  intros. unfold new_layer. rewrite rsem_cons_CL. destruct (rsem n rl l) as [l'|]; cbn [obind]; [|reflexivity].
  unfold layer_forward. cbn [lmaps lgates opt_fold]. destruct (gate_forward n g l'); reflexivity.
Qed.

Lemma rsem_wf : forall n rl l l', Forall (lay_ok n) rl -> Forall (wf n) l -> rsem n rl l = Some l' -> Forall (wf n) l'.
Proof.
  induction rl as [|c rl IH]; intros l l' HI Hl H.
  - rewrite rsem_nil in H. injection H as <-. exact Hl.
  - inversion_clear HI as [|? ? Hc HI']. destruct c as [ly|q]; [|destruct Hc]. destruct Hc as [Hm Hgs].
    rewrite rsem_cons_CL in H. destruct (rsem n rl l) as [l1|] eqn:E; [|discriminate H]. cbn [obind] in H.
    rewrite (layer_forward_plain n ly l1 Hm) in H.
    apply (run_gates_wf n _ l1 l' Hgs (IH l l1 HI' Hl E) H).
Qed.

Lemma layer_take_cons2 : forall cur pl rest g,
  layer_take (CL cur :: CL pl :: rest) g
  = if layer_indep pl g then CL cur :: layer_take (CL pl :: rest) g else CL (layer_add cur g) :: CL pl :: rest.
Proof. reflexivity. Qed.

Lemma layer_take_sem : forall n g rl l, Forall (lay_ok n) rl -> gate_ok n g -> Forall (wf n) l ->
  match rl with CL cur :: _ => layer_indep cur g = true | _ => False end ->
  rsem n (layer_take rl g) l = obind (rsem n rl l) (gate_forward n g).
Proof.
  intros n g. induction rl as [|c rl IH]; intros l HI Hg Hl Hhead; [destruct Hhead|].
  destruct c as [cur|q]; [|destruct Hhead].
  inversion_clear HI as [|? ? Hc HI']. destruct Hc as [Hm Hgs].
  destruct rl as [|[pl|q] rest].
  - cbn [layer_take]. rewrite !rsem_cons_CL, rsem_nil. cbn [obind]. apply layer_add_sem. exact Hm.
  - rewrite layer_take_cons2. destruct (layer_indep pl g) eqn:EP.
    + rewrite rsem_cons_CL. rewrite (IH l HI' Hg Hl eq_refl). rewrite (rsem_cons_CL n cur).
      destruct (rsem n (CL pl :: rest) l) as [l1|] eqn:E1; cbn [obind]; [|reflexivity].
      rewrite (layer_forward_plain n cur l1 Hm).
      replace (layer_forward n cur) with (run_gates n (lgates cur))
        by (unfold layer_forward; rewrite Hm; reflexivity).
      apply gates_slide; try assumption. apply (rsem_wf n _ l l1 HI' Hl E1).
    + rewrite (rsem_cons_CL n (layer_add cur g)), (rsem_cons_CL n cur).
      destruct (rsem n (CL pl :: rest) l) as [l1|]; cbn [obind]; [|reflexivity].
      apply layer_add_sem. exact Hm.
  - inversion_clear HI' as [|? ? Hq _]. destruct Hq.
Qed.

Lemma circ_take_sem : forall n g rl l, Forall (lay_ok n) rl -> gate_ok n g -> Forall (wf n) l ->
  rsem n (circ_take rl g) l = obind (rsem n rl l) (gate_forward n g).
Proof.
  intros n g rl l HI Hg Hl. unfold circ_take. destruct rl as [|[last|q] rest].
  - apply new_layer_sem.
  - destruct (layer_indep last g) eqn:E.
    + apply layer_take_sem; assumption.
    + apply new_layer_sem.
  - apply new_layer_sem.
Qed.

(* the invariant is kept by take *)
Lemma layer_add_ok : forall n cur g, lay_ok n (CL cur) -> gate_ok n g -> lay_ok n (CL (layer_add cur g)).
Proof.
  intros n cur g [Hm Hgs] Hg. split; cbn [layer_add lmaps lgates]; [exact Hm|].
  apply Forall_app. split; [exact Hgs | constructor; [exact Hg | constructor]].
Qed.

Lemma layer_take_ok : forall n g rl, Forall (lay_ok n) rl -> gate_ok n g -> Forall (lay_ok n) (layer_take rl g).
Proof.
  intros n g. induction rl as [|c rl IH]; intros HI Hg; [exact HI|].
  destruct c as [cur|q]; [|exact HI].
  inversion_clear HI as [|? ? Hc HI'].
  destruct rl as [|[pl|q] rest]; cbn [layer_take].
  - constructor; [apply layer_add_ok; assumption | constructor].
  - destruct (layer_indep pl g).
    + constructor; [exact Hc | apply IH; assumption].
    + constructor; [apply layer_add_ok; assumption | exact HI'].
  - constructor; [apply layer_add_ok; assumption | exact HI'].
Qed.

Lemma circ_take_ok : forall n g rl, Forall (lay_ok n) rl -> gate_ok n g -> Forall (lay_ok n) (circ_take rl g).
Proof.
  intros n g rl HI Hg.
  assert (HN : Forall (lay_ok n) (new_layer g :: rl)).
  { constructor; [|exact HI]. split; [reflexivity|]. cbn [lgates]. constructor; [exact Hg | constructor]. }
  unfold circ_take. destruct rl as [|[last|q] rest]; try exact HN.
  destruct (layer_indep last g); [apply layer_take_ok; assumption | exact HN].
Qed.

Definition bstep (rl : list clayer) (i : instr) : list clayer :=
  match i with IGate g => circ_take rl g | IMeasure q => circ_take_measure rl q end.

Lemma circ_build_eq : forall prog, circ_build prog = rev (fold_left bstep prog [empty_layer]).
Proof. reflexivity. Qed.

Lemma build_ok : forall n prog rl, no_measure prog -> Forall (gate_ok n) (gates_of prog) -> Forall (lay_ok n) rl ->
  Forall (lay_ok n) (fold_left bstep prog rl).
Proof.
  induction prog as [|i prog IH]; intros rl HM HG HI; cbn [fold_left]; [exact HI|].
  inversion_clear HM as [|? ? Hi HM']. destruct i as [g|q]; [|destruct Hi].
  unfold gates_of in HG. cbn [flat_map app] in HG. inversion_clear HG as [|? ? Hg HG'].
  apply IH; [exact HM' | exact HG' |]. cbn [bstep]. apply circ_take_ok; assumption.
Qed.

Lemma empty_ok : forall n, Forall (lay_ok n) [empty_layer].
Proof. intros n. constructor; [|constructor]. split; [reflexivity | constructor]. Qed.

(* ------------------------------------------------------------------ adding a gate composes its action after the circuit's *)
Theorem take_sem : forall n prog g l, no_measure prog -> Forall (gate_ok n) (gates_of prog) -> gate_ok n g -> Forall (wf n) l ->
   circuit_forward n (only_layers (circ_build (prog ++ [IGate g]))) l
   = match circuit_forward n (only_layers (circ_build prog)) l with Some l' => gate_forward n g l' | None => None end.
Proof.
  intros n prog g l HM HG Hg Hl. rewrite !circ_build_eq. rewrite fold_left_app. cbn [fold_left bstep].
  apply (circ_take_sem n g (fold_left bstep prog [empty_layer]) l); try assumption.
  apply build_ok; try assumption. apply empty_ok.
Qed.

Lemma gates_of_snoc : forall prog g, gates_of (prog ++ [IGate g]) = gates_of prog ++ [g].
Proof. intros. unfold gates_of. rewrite flat_map_app. reflexivity. Qed.

(* hence a circuit acts as the ordered product of its gates, for every gate program *)
Theorem program_sem : forall n prog l, no_measure prog -> Forall (gate_ok n) (gates_of prog) -> Forall (wf n) l ->
   circuit_forward n (only_layers (circ_build prog)) l = run_gates n (gates_of prog) l.
Proof.
  intros n prog. induction prog as [|i prog IH] using rev_ind; intros l HM HG Hl.
  - reflexivity.
  - unfold no_measure in HM. apply Forall_app in HM. destruct HM as [HM Hi].
    inversion_clear Hi as [|? ? Hi' _]. destruct i as [g|q]; [|destruct Hi'].
    rewrite gates_of_snoc in HG. apply Forall_app in HG. destruct HG as [HG Hg].
    inversion_clear Hg as [|? ? Hg' _].
    rewrite (take_sem n prog g l HM HG Hg' Hl). rewrite (IH l HM HG Hl).
    rewrite gates_of_snoc, run_gates_snoc. reflexivity.
Qed.
