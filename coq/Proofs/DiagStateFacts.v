(* Proofs/DiagStateFacts.v -- circuit.py::diagonalize, StabilizerState branch: one gate on all N qubits whose
   backward_map is state.to_map().  forward transforms rows by backward_map.inverse(), backward by backward_map.
   Forward sends the state to |0...0> (signs included); backward re-encodes |0...0> into the state. *)
From Coq Require Import ZArith List Bool Lia ZifyBool Arith.
From PC Require Import Gen.Kernels Model.Base Model.Pauli Model.Ket Model.Z2 Model.CMap Model.Tableau Model.Spec
  Proofs.PauliFacts Proofs.MaskFacts Proofs.InverseFacts Proofs.TableauInv Proofs.ReachFacts.
Import ListNotations.
Open Scope Z_scope.
Ltac Zify.zify_post_hook ::= Z.to_euclidean_division_equations.

(* the model's inverse returns an option: it is [Some] for the map of every valid tableau *)
Theorem diag_state_inverse_some : forall n t, tableau_ok n t -> exists mi, inverse (to_map t) = Some mi.
Proof. intros n t Hok. apply (inverse_exists n). apply to_map_valid. exact Hok. Qed.

(* backward re-encodes: the gate's backward map sends the rows of |0..0> to the rows of the state *)
Theorem diag_state_backward_reencodes : forall n t, tableau_ok n t -> rk t = 0%nat ->
  pauli_transform (to_map t) (rows (zero_state n)) = rows t.
Proof.
  intros n t Hok _. pose proof (to_map_valid n t Hok) as HV.
  rewrite <- (to_state_is_transformed_zero n (to_map t) 0%nat HV).
  unfold to_state, to_map. cbn [rows]. apply (map_to_state_to_map n). apply Hok.
Qed.

Lemma pauli_transform_inverse_cancel : forall n m m' l, valid_map n m -> inverse m = Some m' -> Forall (wf n) l ->
  pauli_transform m' (pauli_transform m l) = l.
Proof.
  intros n m m' l HV HI HW. unfold pauli_transform. rewrite map_map.
  induction HW as [|a l Wa _ IH]; [reflexivity|]. cbn [map]. rewrite IH.
  rewrite (proj1 (transform_inverse_cancel n m m' a HV HI Wa)). reflexivity.
Qed.

(* forward decodes: the inverse map sends the rows of the state to the rows of |0..0>, signs included *)
Theorem diag_state_forward_to_zero : forall n t mi, tableau_ok n t -> rk t = 0%nat ->
  inverse (to_map t) = Some mi ->
  pauli_transform mi (rows t) = rows (zero_state n).
Proof.
  intros n t mi Hok Hr HI. pose proof (to_map_valid n t Hok) as HV.
  rewrite <- (diag_state_backward_reencodes n t Hok Hr) at 1.
  apply (pauli_transform_inverse_cancel n _ _ _ HV HI).
  apply tableau_rows_wf. apply zero_state_ok.
Qed.

(* as states (rows and rank): forward gives zero_state n, backward of zero_state n gives t *)
Theorem diag_state_roundtrip : forall n t mi, tableau_ok n t -> rk t = 0%nat ->
  inverse (to_map t) = Some mi ->
  {| rows := pauli_transform mi (rows t); rk := rk t |} = zero_state n /\
  {| rows := pauli_transform (to_map t) (rows (zero_state n)); rk := 0 |} = t.
Proof.
  intros n t mi Hok Hr HI. split.
  - rewrite (diag_state_forward_to_zero n t mi Hok Hr HI), Hr. reflexivity.
  - rewrite (diag_state_backward_reencodes n t Hok Hr). destruct t as [l r]. cbn [rows rk] in *. rewrite Hr. reflexivity.
Qed.

(* option-free form: the inverse exists and does both *)
Corollary diag_state_roundtrip_ex : forall n t, tableau_ok n t -> rk t = 0%nat ->
  exists mi, inverse (to_map t) = Some mi /\
  {| rows := pauli_transform mi (rows t); rk := rk t |} = zero_state n /\
  {| rows := pauli_transform (to_map t) (rows (zero_state n)); rk := 0 |} = t.
Proof.
  intros n t Hok Hr. destruct (diag_state_inverse_some n t Hok) as [mi HI].
  exists mi. split; [exact HI|]. apply diag_state_roundtrip; assumption.
Qed.

Print Assumptions diag_state_inverse_some.
Print Assumptions diag_state_backward_reencodes.
Print Assumptions diag_state_forward_to_zero.
Print Assumptions diag_state_roundtrip.
Print Assumptions diag_state_roundtrip_ex.
