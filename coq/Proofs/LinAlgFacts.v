(* Proofs/LinAlgFacts.v -- generic GF(2) linear algebra on lists of rows, on top of RankFacts:
   decidable span membership, bases of decidable subspaces, dimension, rank-nullity for an
   abstract linear map, row rank = column rank, dimension of an orthogonal complement. *)
From Coq Require Import ZArith List Bool Lia Arith.
From PC Require Import Model.Base Model.Z2 Proofs.Z2Facts Proofs.RankFacts.
Import ListNotations.
Local Open Scope nat_scope.

(* ------------------------------------------------------------------ *)
(* decidability of span membership                                     *)
(* ------------------------------------------------------------------ *)

Fixpoint all_sels (n : nat) : list (list bool) :=
  match n with O => [[]] | S k => map (cons false) (all_sels k) ++ map (cons true) (all_sels k) end.

Lemma all_sels_complete : forall sel, In sel (all_sels (length sel)).
Proof.
  induction sel as [|b sel IH]; cbn [length all_sels].
  - left; reflexivity.
  - apply in_app_iff. destruct b; [right|left]; apply in_map; exact IH.
Qed.

Lemma all_sels_length : forall n sel, In sel (all_sels n) -> length sel = n.
Proof.
  induction n as [|n IH]; intros sel H; cbn [all_sels] in H.
  - destruct H as [<-|[]]. reflexivity.
  - apply in_app_iff in H. destruct H as [H|H]; apply in_map_iff in H; destruct H as [s [<- Hs]];
      cbn [length]; rewrite (IH s Hs); reflexivity.
Qed.

Lemma vec_eq_dec : forall u v : list bool, {u = v} + {u <> v}.
Proof. apply list_eq_dec. apply bool_dec. Qed.

Lemma exists_in_dec : forall (c : nat) (rows : list (list bool)) (v : list bool) (L : list (list bool)),
  (exists sel, In sel L /\ lincomb c sel rows = v) \/ ~ (exists sel, In sel L /\ lincomb c sel rows = v).
Proof.
  intros c rows v. induction L as [|s L IH].
  - right. intros [sel [[] _]].
  - destruct (vec_eq_dec (lincomb c s rows) v) as [E|NE].
    + left. exists s. split; [left; reflexivity|exact E].
    + destruct IH as [[sel [Hi He]]|Hn].
      * left. exists sel. split; [right; exact Hi|exact He].
      * right. intros [sel [[Hi|Hi] He]].
        -- subst sel. exact (NE He).
        -- apply Hn. exists sel. split; assumption.
Qed.

Lemma in_span_dec : forall c rows v, in_span c rows v \/ ~ in_span c rows v.
Proof.
  intros c rows v.
  destruct (exists_in_dec c rows v (all_sels (length rows))) as [[sel [Hi He]]|Hn].
  - left. exists sel. split; [apply all_sels_length; exact Hi|exact He].
  - right. intros [sel [Hl He]]. apply Hn. exists sel. split; [|exact He].
    rewrite <- Hl. apply all_sels_complete.
Qed.

(* ------------------------------------------------------------------ *)
(* independence, one vector at a time                                  *)
(* ------------------------------------------------------------------ *)

Lemma indep_cons : forall c r rows, rect c (r :: rows) ->
  independent c rows -> ~ in_span c rows r -> independent c (r :: rows).
Proof.
  intros c r rows Hrect Hind Hnot sel Hlen Hzero.
  apply rect_cons in Hrect. destruct Hrect as [Hr Hrows].
  destruct sel as [|b s]; cbn [length] in Hlen; [lia|].
  cbn [lincomb] in Hzero. destruct b.
  - exfalso. apply Hnot. exists s. split; [lia|].
    symmetry. apply (vadd_cancel c); auto. apply lincomb_length; exact Hrows.
  - cbn [length repeat]. f_equal. apply Hind; [lia|exact Hzero].
Qed.

Lemma indep_tail : forall c r rows, independent c (r :: rows) -> independent c rows.
Proof.
  intros c r rows Hind sel Hlen Hzero.
  specialize (Hind (false :: sel)). cbn [length lincomb repeat] in Hind.
  specialize (Hind ltac:(lia) Hzero). injection Hind as Hind. exact Hind.
Qed.

Lemma indep_head_not_in_span : forall c r rows, rect c (r :: rows) ->
  independent c (r :: rows) -> ~ in_span c rows r.
Proof.
  intros c r rows Hrect Hind [sel [Hlen He]].
  apply rect_cons in Hrect. destruct Hrect as [Hr Hrows].
  specialize (Hind (true :: sel)). cbn [length lincomb repeat] in Hind.
  rewrite He in Hind. rewrite (vadd_self c) in Hind by exact Hr.
  specialize (Hind ltac:(lia) eq_refl). discriminate Hind.
Qed.

(* ------------------------------------------------------------------ *)
(* span of a concatenation                                             *)
(* ------------------------------------------------------------------ *)

Lemma in_span_app : forall c A B v, rect c A -> rect c B ->
  (in_span c (A ++ B) v <-> exists a b, in_span c A a /\ in_span c B b /\ v = vadd a b).
Proof.
  intros c A B v HA HB. split.
  - intros [sel [Hlen He]]. rewrite app_length in Hlen.
    rewrite <- (firstn_skipn (length A) sel) in He.
    rewrite lincomb_app in He; auto.
    2:{ rewrite firstn_length. lia. }
    exists (lincomb c (firstn (length A) sel) A), (lincomb c (skipn (length A) sel) B).
    split; [|split].
    + exists (firstn (length A) sel). split; [rewrite firstn_length; lia|reflexivity].
    + exists (skipn (length A) sel). split; [rewrite skipn_length; lia|reflexivity].
    + symmetry. exact He.
  - intros [a [b [[s1 [L1 E1]] [[s2 [L2 E2]] Ev]]]].
    exists (s1 ++ s2). split.
    + rewrite !app_length. lia.
    + rewrite lincomb_app; auto. congruence.
Qed.

Lemma in_span_app_l : forall c A B v, rect c A -> rect c B -> in_span c A v -> in_span c (A ++ B) v.
Proof.
  intros c A B v HA HB H. apply in_span_app; auto.
  exists v, (vzero c). split; [exact H|]. split; [apply in_span_zero|].
  symmetry. apply vadd_zero_r. apply (in_span_length c A); auto.
Qed.

Lemma in_span_app_r : forall c A B v, rect c A -> rect c B -> in_span c B v -> in_span c (A ++ B) v.
Proof.
  intros c A B v HA HB H. apply in_span_app; auto.
  exists (vzero c), v. split; [apply in_span_zero|]. split; [exact H|].
  symmetry. apply vadd_zero_l. apply (in_span_length c B); auto.
Qed.

(* independence of a concatenation from a separation property *)
Lemma indep_app : forall c A B, rect c A -> rect c B -> independent c A ->
  (forall s1 s2, length s1 = length A -> length s2 = length B ->
      vadd (lincomb c s1 A) (lincomb c s2 B) = vzero c -> s2 = repeat false (length B)) ->
  independent c (A ++ B).
Proof.
  intros c A B HA HB HiA Hsep sel Hlen Hzero.
  rewrite app_length in Hlen.
  assert (Esel : sel = firstn (length A) sel ++ skipn (length A) sel) by (symmetry; apply firstn_skipn).
  set (s1 := firstn (length A) sel) in *. set (s2 := skipn (length A) sel) in *.
  assert (L1 : length s1 = length A) by (unfold s1; rewrite firstn_length; lia).
  assert (L2 : length s2 = length B) by (unfold s2; rewrite skipn_length; lia).
  rewrite Esel in Hzero. rewrite lincomb_app in Hzero; auto.
  assert (E2 := Hsep s1 s2 L1 L2 Hzero).
  rewrite E2 in Hzero. rewrite lincomb_false in Hzero.
  rewrite (vadd_zero_r c) in Hzero by (apply lincomb_length; auto).
  assert (E1 := HiA s1 L1 Hzero).
  rewrite Esel, E1, E2, app_length, <- repeat_app. reflexivity.
Qed.

(* ------------------------------------------------------------------ *)
(* subspaces as predicates, dimension                                  *)
(* ------------------------------------------------------------------ *)

Definition subspace (c : nat) (Q : list bool -> Prop) : Prop :=
  Q (vzero c) /\ (forall u v, Q u -> Q v -> Q (vadd u v)) /\ (forall v, Q v -> length v = c).

Definition has_dim (c : nat) (Q : list bool -> Prop) (d : nat) : Prop :=
  exists K, rect c K /\ independent c K /\ length K = d /\ forall v, in_span c K v <-> Q v.

Lemma lincomb_in_subspace : forall c Q K sel, subspace c Q -> (forall k, In k K -> Q k) -> Q (lincomb c sel K).
Proof.
  intros c Q K sel [Hz [Ha Hl]]. revert sel.
  induction K as [|k K IH]; intros sel HK.
  - rewrite lincomb_nil_r. exact Hz.
  - destruct sel as [|b s]; cbn [lincomb]; [exact Hz|].
    assert (Ht : Q (lincomb c s K)) by (apply IH; intros; apply HK; right; assumption).
    destruct b; [|exact Ht]. apply Ha; [apply HK; left; reflexivity|exact Ht].
Qed.

Lemma span_in_subspace : forall c Q K v, subspace c Q -> (forall k, In k K -> Q k) -> in_span c K v -> Q v.
Proof. intros c Q K v HQ HK [sel [_ <-]]. apply lincomb_in_subspace; assumption. Qed.

Lemma span_subspace : forall c rows, rect c rows -> subspace c (in_span c rows).
Proof.
  intros c rows H. split; [apply in_span_zero|]. split.
  - intros u v. apply in_span_vadd. exact H.
  - intros v. apply in_span_length. exact H.
Qed.

Lemma greedy_basis : forall c Q, subspace c Q -> (forall v, Q v \/ ~ Q v) ->
  forall L : list (list bool), exists K, rect c K /\ independent c K /\ (forall k, In k K -> Q k) /\
     (forall v, In v L -> Q v -> in_span c K v).
Proof.
  intros c Q HQ Hdec. induction L as [|x L IH].
  - exists []. split; [apply rect_nil|]. split; [apply indep_nil|]. split; intros ? [].
  - destruct IH as [K [HK [Hi [HKQ Hcov]]]].
    destruct (Hdec x) as [Hx|Hx].
    + destruct (in_span_dec c K x) as [Hs|Hs].
      * exists K. split; [exact HK|]. split; [exact Hi|]. split; [exact HKQ|].
        intros v [<-|Hv] Hq; [exact Hs|apply Hcov; assumption].
      * assert (HxK : rect c (x :: K)).
        { apply rect_cons. split; [|exact HK]. destruct HQ as [_ [_ Hl]]. apply Hl. exact Hx. }
        exists (x :: K). split; [exact HxK|]. split; [apply indep_cons; assumption|]. split.
        -- intros k [<-|Hk]; [exact Hx|apply HKQ; exact Hk].
        -- intros v [<-|Hv] Hq; [apply in_span_head; exact HxK|].
           apply in_span_cons_mono. apply Hcov; assumption.
    + exists K. split; [exact HK|]. split; [exact Hi|]. split; [exact HKQ|].
      intros v [<-|Hv] Hq; [contradiction|apply Hcov; assumption].
Qed.

(* every decidable subspace has a basis *)
Theorem subspace_basis : forall c Q, subspace c Q -> (forall v, Q v \/ ~ Q v) -> exists d, has_dim c Q d.
Proof.
  intros c Q HQ Hdec.
  destruct (greedy_basis c Q HQ Hdec (all_sels c)) as [K [HK [Hi [HKQ Hcov]]]].
  exists (length K), K. split; [exact HK|]. split; [exact Hi|]. split; [reflexivity|].
  intros v. split.
  - apply span_in_subspace; assumption.
  - intros Hq. apply Hcov; [|exact Hq].
    destruct HQ as [_ [_ Hl]]. rewrite <- (Hl v Hq). apply all_sels_complete.
Qed.

Lemma has_dim_unique : forall c Q Q' d d', has_dim c Q d -> has_dim c Q' d' ->
  (forall v, Q v <-> Q' v) -> d = d'.
Proof.
  intros c Q Q' d d' [K [HK [Hi [Hl Hs]]]] [K' [HK' [Hi' [Hl' Hs']]]] Heq.
  rewrite <- Hl, <- Hl'. apply (basis_size_unique c); auto.
  intros v. rewrite Hs, Hs'. apply Heq.
Qed.

Lemma has_dim_span : forall c rows, rect c rows -> has_dim c (in_span c rows) (z2rank rows).
Proof.
  intros c rows H.
  destruct (z2rank_basis c rows H (rect_ncols c rows H)) as [K [Hl [HK [Hi Hs]]]].
  exists K. split; [exact HK|]. split; [exact Hi|]. split; [exact Hl|]. exact Hs.
Qed.

Lemma has_dim_ext : forall c Q Q' d, has_dim c Q d -> (forall v, Q v <-> Q' v) -> has_dim c Q' d.
Proof.
  intros c Q Q' d [K [HK [Hi [Hl Hs]]]] Heq. exists K. split; [exact HK|]. split; [exact Hi|].
  split; [exact Hl|]. intros v. rewrite Hs. apply Heq.
Qed.

Lemma has_dim_zero : forall c Q, (forall v, Q v <-> v = vzero c) -> has_dim c Q 0.
Proof.
  intros c Q H. exists []. split; [apply rect_nil|]. split; [apply indep_nil|]. split; [reflexivity|].
  intros v. rewrite H. split.
  - intros [sel [_ E]]. rewrite lincomb_nil_r in E. auto.
  - intros ->. apply in_span_zero.
Qed.

Lemma independent_rank : forall c rows, rect c rows -> independent c rows -> z2rank rows = length rows.
Proof. intros c rows H Hi. apply (z2rank_full_iff_independent_gen c); assumption. Qed.

(* L1: monotonicity, subadditivity *)
Lemma z2rank_mono : forall c A B, rect c A -> rect c B ->
  (forall r, In r A -> in_span c B r) -> z2rank A <= z2rank B.
Proof.
  intros c A B HA HB Hsub.
  destruct (z2rank_basis c A HA (rect_ncols c A HA)) as [KA [LA [RA [IA SA]]]].
  destruct (z2rank_basis c B HB (rect_ncols c B HB)) as [KB [LB [RB [IB SB]]]].
  rewrite <- LA, <- LB. apply (indep_le_span c); auto.
  intros v Hv. apply SB. apply (in_span_closed c A B); auto.
  apply SA. apply in_span_In; auto.
Qed.

Lemma z2rank_le_length : forall c A, rect c A -> z2rank A <= length A.
Proof.
  intros c A HA.
  destruct (z2rank_basis c A HA (rect_ncols c A HA)) as [KA [LA [RA [IA SA]]]].
  rewrite <- LA. apply (indep_le_span c); auto.
  intros v Hv. apply SA. apply in_span_In; auto.
Qed.

Lemma z2rank_app_le : forall c A B, rect c A -> rect c B -> z2rank (A ++ B) <= z2rank A + z2rank B.
Proof.
  intros c A B HA HB.
  destruct (z2rank_basis c A HA (rect_ncols c A HA)) as [KA [LA [RA [IA SA]]]].
  destruct (z2rank_basis c B HB (rect_ncols c B HB)) as [KB [LB [RB [IB SB]]]].
  assert (HAB : rect c (A ++ B)) by (apply rect_app; auto).
  assert (HK : rect c (KA ++ KB)) by (apply rect_app; auto).
  rewrite <- LA, <- LB, <- app_length.
  apply (Nat.le_trans _ (z2rank (KA ++ KB))).
  - apply (z2rank_mono c); auto. intros r Hr. apply in_app_iff in Hr. destruct Hr as [Hr|Hr].
    + apply in_span_app_l; auto. apply SA. apply in_span_In; auto.
    + apply in_span_app_r; auto. apply SB. apply in_span_In; auto.
  - apply (z2rank_le_length c); auto.
Qed.

(* a subspace of equal (or larger) dimension contained in another is equal to it *)
Theorem eq_dim_span : forall c u w, rect c u -> rect c w -> independent c u ->
  (forall v, In v u -> in_span c w v) -> length w <= length u ->
  forall v, in_span c w v -> in_span c u v.
Proof.
  intros c u w Hu Hw Hi Hsub Hlen v Hv.
  destruct (in_span_dec c u v) as [H|H]; [exact H|exfalso].
  assert (Hvu : rect c (v :: u)).
  { apply rect_cons. split; [|exact Hu]. apply (in_span_length c w); auto. }
  assert (Hi' : independent c (v :: u)) by (apply indep_cons; auto).
  assert (Hle := indep_le_span c (v :: u) w Hvu Hw Hi').
  cbn [length] in Hle. assert (S (length u) <= length w); [|lia].
  apply Hle. intros x [<-|Hx]; auto.
Qed.

(* ------------------------------------------------------------------ *)
(* linear maps, rank-nullity                                           *)
(* ------------------------------------------------------------------ *)

Definition linear (c c' : nat) (f : list bool -> list bool) : Prop :=
  (forall u v, length u = c -> length v = c -> f (vadd u v) = vadd (f u) (f v)) /\
  f (vzero c) = vzero c' /\
  (forall v, length v = c -> length (f v) = c').

Lemma rect_map_linear : forall c c' f rows, linear c c' f -> rect c rows -> rect c' (map f rows).
Proof.
  intros c c' f rows [_ [_ Hl]] H. apply Forall_forall. intros r Hr.
  apply in_map_iff in Hr. destruct Hr as [x [<- Hx]]. apply Hl. apply (rect_In c rows); assumption.
Qed.

Lemma lincomb_map : forall c c' f rows sel, linear c c' f -> rect c rows ->
  f (lincomb c sel rows) = lincomb c' sel (map f rows).
Proof.
  intros c c' f rows sel Hf. destruct Hf as [Ha [Hz Hl]]. revert sel.
  induction rows as [|r rows IH]; intros sel H.
  - rewrite lincomb_nil_r. cbn [map]. rewrite lincomb_nil_r. exact Hz.
  - apply rect_cons in H. destruct H as [Hr H].
    destruct sel as [|b s]; cbn [map lincomb]; [exact Hz|].
    destruct b; [|apply IH; exact H].
    rewrite Ha; auto.
    + rewrite IH by exact H. reflexivity.
    + apply lincomb_length. exact H.
Qed.

Lemma in_span_map : forall c c' f rows v, linear c c' f -> rect c rows ->
  in_span c rows v -> in_span c' (map f rows) (f v).
Proof.
  intros c c' f rows v Hf H [sel [Hl <-]]. exists sel. split; [rewrite map_length; exact Hl|].
  symmetry. apply lincomb_map; assumption.
Qed.

Lemma in_span_map_inv : forall c c' f rows w, linear c c' f -> rect c rows ->
  in_span c' (map f rows) w -> exists v, in_span c rows v /\ f v = w.
Proof.
  intros c c' f rows w Hf H [sel [Hl <-]]. rewrite map_length in Hl.
  exists (lincomb c sel rows). split; [exists sel; split; auto|]. apply lincomb_map; assumption.
Qed.

Lemma forall_exists_list : forall (A B : Type) (R : A -> B -> Prop) l,
  (forall a, In a l -> exists b, R a b) -> exists l', Forall2 R l l'.
Proof.
  intros A B R. induction l as [|a l IH]; intros H.
  - exists []. constructor.
  - destruct (H a (or_introl eq_refl)) as [b Hb].
    destruct IH as [l' Hl']. { intros x Hx. apply H. right. exact Hx. }
    exists (b :: l'). constructor; assumption.
Qed.

(* preimages of a basis of the image *)
Lemma preimage_basis : forall c c' f rows, linear c c' f -> rect c rows ->
  exists P, rect c P /\ (forall p, In p P -> in_span c rows p) /\ independent c' (map f P) /\
     same_span c' (map f P) (map f rows) /\ length P = z2rank (map f rows).
Proof.
  intros c c' f rows Hf H.
  assert (Hm := rect_map_linear c c' f rows Hf H).
  destruct (z2rank_basis c' (map f rows) Hm (rect_ncols c' _ Hm)) as [Bs [Ll [Rb [Ib Sb]]]].
  destruct (forall_exists_list _ _ (fun b p => in_span c rows p /\ f p = b) Bs) as [P HP].
  { intros b Hb. apply (in_span_map_inv c c'); auto. apply Sb. apply in_span_In; auto. }
  assert (E : map f P = Bs /\ length P = length Bs /\ forall p, In p P -> in_span c rows p).
  { clear -HP. induction HP as [|b p Bs P [Hp1 Hp2] HP IH].
    - split; [reflexivity|]. split; [reflexivity|]. intros ? [].
    - destruct IH as [E1 [E2 E3]]. cbn [map length]. split; [congruence|]. split; [congruence|].
      intros q [<-|Hq]; auto. }
  destruct E as [E1 [E2 E3]].
  exists P. split.
  - apply Forall_forall. intros p Hp. apply (in_span_length c rows); auto.
  - split; [exact E3|]. rewrite E1. split; [exact Ib|]. split; [exact Sb|]. congruence.
Qed.

(* L2: rank-nullity.  The part of the span of [rows] killed by [f] has a basis, and its size
   plus the rank of the image is the rank of [rows]. *)
Theorem rank_nullity : forall c c' f rows, linear c c' f -> rect c rows ->
  exists d, has_dim c (fun v => in_span c rows v /\ f v = vzero c') d /\
            d + z2rank (map f rows) = z2rank rows.
Proof.
  intros c c' f rows Hf H.
  set (Q := fun v => in_span c rows v /\ f v = vzero c').
  assert (Hf' := Hf). destruct Hf' as [Ha [Hz Hl]].
  assert (HQ : subspace c Q).
  { split; [split; [apply in_span_zero|exact Hz]|]. split.
    - intros u v [Hu1 Hu2] [Hv1 Hv2]. split; [apply in_span_vadd; auto|].
      rewrite Ha by (apply (in_span_length c rows); auto).
      rewrite Hu2, Hv2. apply vadd_zero_l. apply vzero_length.
    - intros v [Hv _]. apply (in_span_length c rows); auto. }
  assert (Hdec : forall v, Q v \/ ~ Q v).
  { intros v. destruct (in_span_dec c rows v) as [H1|H1].
    - destruct (vec_eq_dec (f v) (vzero c')) as [H2|H2].
      + left. split; assumption.
      + right. intros [_ H3]. exact (H2 H3).
    - right. intros [H3 _]. exact (H1 H3). }
  destruct (subspace_basis c Q HQ Hdec) as [d HK].
  exists d. split; [exact HK|].
  destruct HK as [K [RK [IK [LK SK]]]].
  destruct (preimage_basis c c' f rows Hf H) as [P [RP [PS [IP [SP LP]]]]].
  assert (HKQ : forall s, Q (lincomb c s K)).
  { intros s. apply lincomb_in_subspace; auto. intros k Hk. apply SK. apply in_span_In; auto. }
  assert (Hind : independent c (K ++ P)).
  { apply indep_app; auto. intros s1 s2 L1 L2 E.
    assert (E' : f (vadd (lincomb c s1 K) (lincomb c s2 P)) = vzero c') by (rewrite E; exact Hz).
    rewrite Ha in E' by (apply lincomb_length; auto).
    destruct (HKQ s1) as [_ E1]. rewrite E1 in E'.
    rewrite (lincomb_map c c') in E' by auto.
    rewrite vadd_zero_l in E' by (apply lincomb_length; apply (rect_map_linear c c'); auto).
    rewrite <- (map_length f P). apply IP; [rewrite map_length; exact L2|exact E']. }
  assert (HKP : rect c (K ++ P)) by (apply rect_app; auto).
  assert (Hspan : same_span c (K ++ P) rows).
  { apply same_span_of_rows; auto.
    - intros r Hr. apply in_app_iff in Hr. destruct Hr as [Hr|Hr].
      + assert (Hq : Q r) by (apply SK; apply in_span_In; auto). destruct Hq as [Hq _]. exact Hq.
      + apply PS. exact Hr.
    - intros r Hr.
      assert (Hr' : in_span c rows r) by (apply in_span_In; auto).
      assert (Lr : length r = c) by (apply (rect_In c rows); auto).
      assert (Hfr : in_span c' (map f P) (f r)).
      { apply SP. apply (in_span_map c c'); auto. }
      destruct (in_span_map_inv c c' f P (f r) Hf RP Hfr) as [p [Hp Efp]].
      assert (Lp : length p = c) by (apply (in_span_length c P); auto).
      assert (Hp' : in_span c rows p).
      { apply (in_span_closed c P rows); auto. }
      assert (Hk : Q (vadd r p)).
      { split; [apply in_span_vadd; auto|]. rewrite Ha by auto. rewrite Efp.
        apply (vadd_self c'). apply Hl. exact Lr. }
      apply in_span_app; auto. exists (vadd r p), p. split; [apply SK; exact Hk|]. split; [exact Hp|].
      symmetry. apply (vadd_invol c); auto. }
  assert (E : length (K ++ P) = z2rank rows).
  { destruct (z2rank_basis c rows H (rect_ncols c rows H)) as [B [LB [RB [IB SB]]]].
    rewrite <- LB. apply (basis_size_unique c); auto.
    apply (same_span_trans c _ rows); auto. apply same_span_sym. exact SB. }
  rewrite app_length in E. lia.
Qed.

Corollary z2rank_map_le : forall c c' f rows, linear c c' f -> rect c rows ->
  z2rank (map f rows) <= z2rank rows.
Proof.
  intros c c' f rows Hf H. destruct (rank_nullity c c' f rows Hf H) as [d [_ E]]. lia.
Qed.

(* a linear map that is injective on the span of the rows preserves the rank *)
Corollary rank_injective : forall c c' f rows, linear c c' f -> rect c rows ->
  (forall v, in_span c rows v -> f v = vzero c' -> v = vzero c) ->
  z2rank (map f rows) = z2rank rows.
Proof.
  intros c c' f rows Hf H Hinj. destruct (rank_nullity c c' f rows Hf H) as [d [Hd E]].
  assert (d = 0); [|lia].
  apply (has_dim_unique c _ _ d 0 Hd (has_dim_zero c _ (fun v => iff_refl _))).
  intros v. split.
  - intros [H1 H2]. apply Hinj; assumption.
  - intros ->. split; [apply in_span_zero|]. destruct Hf as [_ [Hz _]]. exact Hz.
Qed.

(* ------------------------------------------------------------------ *)
(* dot product, coordinates of a linear combination, transpose         *)
(* ------------------------------------------------------------------ *)

Fixpoint dot (u v : list bool) : bool :=
  match u, v with a :: u', b :: v' => xorb (a && b) (dot u' v') | _, _ => false end.

Lemma dot_nil_r : forall u, dot u [] = false.
Proof. intros [|a u]; reflexivity. Qed.

Lemma dot_comm : forall u v, dot u v = dot v u.
Proof.
  induction u as [|a u IH]; intros [|b v]; cbn [dot]; auto. rewrite IH, andb_comm. reflexivity.
Qed.

Lemma dot_vzero_r : forall u k, dot u (vzero k) = false.
Proof.
  unfold vzero. induction u as [|a u IH]; intros [|k]; cbn [repeat dot]; auto.
  rewrite IH, andb_false_r. reflexivity.
Qed.

Lemma dot_vadd_r : forall u v v', length v = length v' ->
  dot u (vadd v v') = xorb (dot u v) (dot u v').
Proof.
  unfold vadd. induction u as [|a u IH]; intros [|b v] [|b' v'] H; cbn [length] in H; try lia;
    cbn [map2 dot]; auto.
  rewrite IH by lia. destruct a, b, b', (dot u v), (dot u v'); reflexivity.
Qed.

Definition col (j : nat) (rows : list (list bool)) : list bool := map (fun r => nth j r false) rows.
Definition transpose (c : nat) (rows : list (list bool)) : list (list bool) :=
  map (fun j => col j rows) (seq 0 c).

Lemma col_length : forall j rows, length (col j rows) = length rows.
Proof. intros. apply map_length. Qed.

Lemma transpose_length : forall c rows, length (transpose c rows) = c.
Proof. intros. unfold transpose. rewrite map_length, seq_length. reflexivity. Qed.

Lemma transpose_rect : forall c rows, rect (length rows) (transpose c rows).
Proof.
  intros c rows. apply Forall_forall. intros r Hr. apply in_map_iff in Hr.
  destruct Hr as [j [<- _]]. apply col_length.
Qed.

Lemma nth_lincomb : forall c rows sel j, rect c rows ->
  nth j (lincomb c sel rows) false = dot sel (col j rows).
Proof.
  intros c rows. induction rows as [|r rows IH]; intros sel j H.
  - rewrite lincomb_nil_r, nth_vzero. cbn [col map]. symmetry. apply dot_nil_r.
  - apply rect_cons in H. destruct H as [Hr H].
    destruct sel as [|b s]; cbn [lincomb col map dot]; [apply nth_vzero|].
    fold (col j rows). destruct b.
    + rewrite (nth_vadd c) by (auto; apply lincomb_length; auto). rewrite IH by exact H.
      rewrite andb_true_l. reflexivity.
    + rewrite IH by exact H. rewrite andb_false_l, xorb_false_l. reflexivity.
Qed.

Lemma Forall2_nth : forall (A B : Type) (R : A -> B -> Prop) l l' i d d',
  Forall2 R l l' -> i < length l -> R (nth i l d) (nth i l' d').
Proof.
  intros A B R l l' i d d' H. revert i. induction H as [|a b l l' Hab H IH]; intros i Hi; cbn [length] in Hi.
  - lia.
  - destruct i as [|i]; cbn [nth]; [exact Hab|]. apply IH. lia.
Qed.

Lemma nth_col : forall j rows i, nth i (col j rows) false = nth j (nth i rows []) false.
Proof.
  intros j rows i. unfold col. destruct (Nat.lt_ge_cases i (length rows)) as [Hi|Hi].
  - exact (nth_map_lt _ _ (fun r : list bool => nth j r false) rows i false [] Hi).
  - rewrite nth_overflow by (rewrite map_length; exact Hi).
    rewrite (nth_overflow rows) by exact Hi. destruct j; reflexivity.
Qed.

Lemma col_transpose : forall c rows i, length (nth i rows []) = c -> col i (transpose c rows) = nth i rows [].
Proof.
  intros c rows i H. unfold transpose, col at 1. rewrite map_map.
  transitivity (map (fun k => nth k (nth i rows []) false) (seq 0 (length (nth i rows [])))).
  - rewrite H. apply map_ext. intros j. apply nth_col.
  - apply map_seq_nth.
Qed.

Lemma transpose_rank_le : forall c M, rect c M -> z2rank (transpose c M) <= z2rank M.
Proof.
  intros c M HM.
  destruct (z2rank_basis c M HM (rect_ncols c M HM)) as [Bs [LB [RB [IB SB]]]].
  set (r := length Bs) in *.
  destruct (forall_exists_list _ _ (fun x sel => length sel = r /\ lincomb c sel Bs = x) M) as [C HC].
  { intros x Hx. apply SB. apply in_span_In; auto. }
  assert (LC : length C = length M) by (symmetry; apply (F2_length _ _ _ _ _ HC)).
  assert (HCr : rect r C).
  { apply Forall_forall. intros s Hs. destruct (In_nth _ _ [] Hs) as [i [Hi <-]].
    destruct (Forall2_nth _ _ _ M C i [] [] HC ltac:(lia)) as [H _]. exact H. }
  assert (Hcol : forall j, col j M = lincomb (length M) (col j Bs) (transpose r C)).
  { intros j. apply nth_ext with (d := false) (d' := false).
    - rewrite col_length. symmetry. apply lincomb_length. rewrite <- LC. apply transpose_rect.
    - intros i Hi. rewrite col_length in Hi.
      rewrite nth_col. rewrite nth_lincomb by (rewrite <- LC; apply transpose_rect).
      destruct (Forall2_nth _ _ _ M C i [] [] HC Hi) as [H1 H2].
      rewrite <- H2. rewrite nth_lincomb by exact RB.
      rewrite col_transpose by exact H1. apply dot_comm. }
  apply (Nat.le_trans _ (z2rank (transpose r C))).
  - apply (z2rank_mono (length M)).
    + apply transpose_rect.
    + rewrite <- LC. apply transpose_rect.
    + intros x Hx. unfold transpose at 1 in Hx. apply in_map_iff in Hx. destruct Hx as [j [<- _]].
      exists (col j Bs). split; [rewrite col_length, transpose_length; reflexivity|].
      symmetry. apply Hcol.
  - rewrite <- LB. fold r. rewrite <- (transpose_length r C) at 2. apply z2rank_le_rows.
Qed.

Lemma transpose_involutive : forall c M, rect c M -> transpose (length M) (transpose c M) = M.
Proof.
  intros c M HM. apply nth_ext with (d := []) (d' := []).
  - apply transpose_length.
  - intros i Hi. rewrite transpose_length in Hi. unfold transpose at 1.
    rewrite (nth_map_lt _ _ _ _ _ _ 0) by (rewrite seq_length; exact Hi).
    rewrite seq_nth by exact Hi. cbn [plus]. apply col_transpose.
    apply (rect_In c M); auto. apply nth_In. exact Hi.
Qed.

(* row rank = column rank *)
Theorem z2rank_transpose : forall c M, rect c M -> z2rank (transpose c M) = z2rank M.
Proof.
  intros c M HM. apply Nat.le_antisymm.
  - apply transpose_rank_le. exact HM.
  - rewrite <- (transpose_involutive c M HM) at 1. apply transpose_rank_le. apply transpose_rect.
Qed.

(* ------------------------------------------------------------------ *)
(* the standard basis                                                  *)
(* ------------------------------------------------------------------ *)

Fixpoint evec (c i : nat) : list bool :=
  match c with
  | O => []
  | S c' => match i with O => true :: vzero c' | S i' => false :: evec c' i' end
  end.
Definition ident (c : nat) : list (list bool) := map (evec c) (seq 0 c).

Lemma evec_length : forall c i, length (evec c i) = c.
Proof.
  induction c as [|c IH]; intros [|i]; cbn [evec length]; auto.
  rewrite vzero_length. reflexivity.
Qed.

Lemma ident_length : forall c, length (ident c) = c.
Proof. intros. unfold ident. rewrite map_length, seq_length. reflexivity. Qed.

Lemma ident_rect : forall c, rect c (ident c).
Proof.
  intros c. apply Forall_forall. intros r Hr. apply in_map_iff in Hr. destruct Hr as [i [<- _]].
  apply evec_length.
Qed.

Lemma ident_S : forall c, ident (S c) = (true :: vzero c) :: map (cons false) (ident c).
Proof.
  intros c. unfold ident. cbn [seq map evec]. f_equal.
  rewrite <- seq_shift, !map_map. apply map_ext. intros i. reflexivity.
Qed.

Lemma lincomb_cons_false : forall c rows s,
  lincomb (S c) s (map (cons false) rows) = false :: lincomb c s rows.
Proof.
  induction rows as [|r rows IH]; intros [|b s]; cbn [map lincomb]; try reflexivity.
  rewrite IH. destruct b; reflexivity.
Qed.

Lemma lincomb_ident : forall c v, length v = c -> lincomb c v (ident c) = v.
Proof.
  induction c as [|c IH]; intros [|b v] H; cbn [length] in H; try lia.
  - reflexivity.
  - rewrite ident_S. cbn [lincomb]. rewrite lincomb_cons_false, IH by lia.
    destruct b; [|reflexivity].
    unfold vadd. cbn [map2]. f_equal. fold (vadd (vzero c) v). apply vadd_zero_l. lia.
Qed.

Lemma ident_span : forall c v, length v = c -> in_span c (ident c) v.
Proof.
  intros c v H. exists v. split; [rewrite ident_length; exact H|]. apply lincomb_ident. exact H.
Qed.

Lemma ident_indep : forall c, independent c (ident c).
Proof.
  intros c sel Hl Hz. rewrite ident_length in *. rewrite lincomb_ident in Hz by exact Hl. exact Hz.
Qed.

Lemma z2rank_ident' : forall c, z2rank (ident c) = c.
Proof.
  intros c. rewrite (independent_rank c); [apply ident_length|apply ident_rect|apply ident_indep].
Qed.

Lemma dot_evec : forall c w i, length w = c -> dot w (evec c i) = nth i w false.
Proof.
  induction c as [|c IH]; intros [|a w] i H; cbn [length] in H; try lia.
  - destruct i; reflexivity.
  - destruct i as [|i]; cbn [evec dot nth].
    + rewrite dot_vzero_r. destruct a; reflexivity.
    + rewrite IH by lia. rewrite andb_false_r. apply xorb_false_l.
Qed.

Lemma map_all_false : forall (A : Type) (g : A -> bool) l,
  map g l = vzero (length l) <-> forall x, In x l -> g x = false.
Proof.
  intros A g. unfold vzero. induction l as [|a l IH]; cbn [map length repeat].
  - split; [intros _ x []|reflexivity].
  - split.
    + intros E x [<-|Hx]; [congruence|]. apply IH; [congruence|exact Hx].
    + intros H. f_equal; [apply H; left; reflexivity|]. apply IH. intros x Hx. apply H. right. exact Hx.
Qed.

(* L3 (dot-product version): the orthogonal complement of the rows of W has dimension c - rank W *)
Definition perp_map (W : list (list bool)) (v : list bool) : list bool := map (fun w => dot w v) W.

Lemma perp_map_linear : forall c W, linear c (length W) (perp_map W).
Proof.
  intros c W. unfold perp_map. split; [|split].
  - intros u v Hu Hv. rewrite vadd_xr, xr_map. apply map_ext. intros w.
    rewrite <- vadd_xr. apply dot_vadd_r. congruence.
  - apply map_all_false. intros w _. apply dot_vzero_r.
  - intros v _. apply map_length.
Qed.

Theorem perp_dim : forall c W, rect c W ->
  exists d, has_dim c (fun v => length v = c /\ forall w, In w W -> dot w v = false) d /\
            d + z2rank W = c.
Proof.
  intros c W HW.
  destruct (rank_nullity c (length W) (perp_map W) (ident c) (perp_map_linear c W) (ident_rect c))
    as [d [Hd E]].
  exists d. split.
  - apply (has_dim_ext c _ _ d Hd). intros v. split.
    + intros [H1 H2]. split; [apply (in_span_length c (ident c)); auto; apply ident_rect|].
      apply map_all_false. exact H2.
    + intros [H1 H2]. split; [apply ident_span; exact H1|]. apply map_all_false. exact H2.
  - rewrite z2rank_ident' in E. rewrite <- (z2rank_transpose c W HW). rewrite <- E at 2. f_equal. f_equal.
    unfold ident, transpose. rewrite map_map. apply map_ext. intros j.
    unfold perp_map, col. apply map_ext_in. intros w Hw. symmetry. apply dot_evec.
    apply (rect_In c W); auto.
Qed.
