(* Proofs/IndexFacts.v -- indexing and phase-arithmetic laws (C20). *)
From Coq Require Import ZArith List Bool Lia ZifyBool Arith.
From PC Require Import Gen.Kernels Gen.Tables Model.Base Model.Pauli Model.Parse Model.Index Proofs.PauliFacts.
Import ListNotations.
Open Scope Z_scope.
Ltac Zify.zify_post_hook ::= Z.to_euclidean_division_equations.

Lemma prmul_spec : forall c a, 0 <= c < 4 -> 0 <= snd a < 4 -> prmul c a = (fst a, (snd a + c) mod 4).
Proof.
  intros c [g p] Hc Hp; unfold prmul; cbn [fst snd] in *.
  assert (c = 0 \/ c = 1 \/ c = 2 \/ c = 3) as [-> | [-> | [-> | ->]]] by lia; cbn [Z.eqb];
    unfold np_Pauli_rmul_one, np_Pauli_rmul_i, np_Pauli_rmul_m1, np_Pauli_rmul_mi; f_equal; lia.
Qed.

Lemma pneg_spec : forall a, pneg a = (fst a, (snd a + 2) mod 4).
Proof. intros [g p]; reflexivity. Qed.

Lemma rmul_list_agree : forall p,
  np_PauliList_rmul_one p = np_Pauli_rmul_one p /\ np_PauliList_rmul_i p = np_Pauli_rmul_i p /\
  np_PauliList_rmul_m1 p = np_Pauli_rmul_m1 p /\ np_PauliList_rmul_mi p = np_Pauli_rmul_mi p /\ np_PauliList_neg p = np_Pauli_neg p.
Proof. intros; repeat split; reflexivity. Qed.

Lemma get_int_nonneg : forall (l : plist) i, (0 <= i < Z.of_nat (length l)) -> get_int l i = nth_error l (Z.to_nat i).
Proof.
  intros l i H. unfold get_int, norm_index.
  destruct (i <? 0) eqn:E; [lia|].
  destruct ((0 <=? i) && (i <? Z.of_nat (length l))) eqn:E2; [reflexivity|].
  apply andb_false_iff in E2. destruct E2; lia.
Qed.

Lemma get_int_neg : forall (l : plist) i, (- Z.of_nat (length l) <= i < 0) ->
  get_int l i = nth_error l (Z.to_nat (i + Z.of_nat (length l))).
Proof.
  intros l i H. unfold get_int, norm_index.
  destruct (i <? 0) eqn:E; [|lia].
  destruct ((0 <=? i + Z.of_nat (length l)) && (i + Z.of_nat (length l) <? Z.of_nat (length l))) eqn:E2; [reflexivity|].
  apply andb_false_iff in E2. destruct E2; lia.
Qed.

Lemma get_slice_all : forall (l : plist), get_slice l None None = l.
Proof. intros l. unfold get_slice. cbn [skipn]. rewrite Nat.sub_0_r. apply firstn_all. Qed.

Lemma clamp_id : forall len a, 0 <= a <= Z.of_nat len -> clamp len a = Z.to_nat a.
Proof.
  intros len a H. unfold clamp. destruct (a <? 0) eqn:E; [lia|].
  rewrite E. destruct (Z.of_nat len <? a) eqn:E2; [lia | reflexivity].
Qed.

Lemma get_slice_length : forall (l : plist) a b, (0 <= a <= b) -> (b <= Z.of_nat (length l)) ->
  length (get_slice l (Some a) (Some b)) = Z.to_nat (b - a).
Proof.
  intros l a b H1 H2. unfold get_slice. rewrite !clamp_id by lia.
  rewrite firstn_length, skipn_length. lia.
Qed.

Lemma get_idx_length : forall (l : plist) idx r, get_idx l idx = Some r -> length r = length idx.
Proof.
  intros l idx; induction idx as [|i idx IH]; intros r H; cbn [get_idx] in H.
  - injection H as <-. reflexivity.
  - destruct (get_int l i); [|discriminate]. destruct (get_idx l idx) as [t|]; [|discriminate].
    injection H as <-. cbn [length]. f_equal. apply IH. reflexivity.
Qed.

(* the signless rotation kernel is the string part of the signed one *)
Lemma rotate_bits_gxor : forall a g,
  map2 (fun s t => (bz (np_rotate_bit (zb (fst s)) (zb (fst t))), bz (np_rotate_bit (zb (snd s)) (zb (snd t))))) a g = gxor a g.
Proof.
  induction a as [|s a IH]; intros [|t g]; try reflexivity.
  cbn [map2 gxor]. rewrite IH. f_equal. destruct s as [[|] [|]], t as [[|] [|]]; reflexivity.
Qed.
Lemma rotate1_signless_fst : forall g a p q, fst (rotate1 (g, p) (a, q)) = rotate1_signless g a.
Proof.
  intros g a p q. unfold rotate1, rotate1_signless. cbn [fst snd]. destruct (bz (acq g a)); [|reflexivity].
  cbn [fst]. apply rotate_bits_gxor.
Qed.
