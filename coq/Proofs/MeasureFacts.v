(* Proofs/MeasureFacts.v -- what measurement and expectation compute, in terms of the stabilizer group. *)
From Coq Require Import ZArith List Bool Lia ZifyBool Arith.
From PC Require Import Gen.Kernels Model.Base Model.Pauli Model.Ket Model.CMap Model.Tableau Model.Spec
  Proofs.PauliFacts Proofs.Transform Proofs.MaskFacts Proofs.InverseFacts Proofs.TableauInv.
Import ListNotations.
Open Scope Z_scope.
Ltac Zify.zify_post_hook ::= Z.to_euclidean_division_equations.

(* ------------------------------------------------------------------ definitions (names fixed) *)
(* ordered product of the active stabilizers (rows r..n-1) selected by sel (length n - r) *)
Definition active (t : tableau) : plist := firstn (tN t - rk t) (skipn (rk t) (rows t)).          (* = stabilizers t *)
Definition gprod (n : nat) (sel : list bool) (l : plist) : pauli := combine_row n sel l.
Definition in_group (n : nat) (t : tableau) (a : pauli) : Prop :=
  exists sel, length sel = (n - rk t)%nat /\ gprod n sel (active t) = a.

Lemma active_stabilizers : forall t, active t = stabilizers t.
Proof. reflexivity. Qed.

Local Open Scope nat_scope.

(* ------------------------------------------------------------------ small list lemmas *)
Lemma all_false_repeat : forall m (l : list bool), length l = m ->
  (forall j, j < m -> nth j l false = false) -> l = repeat false m.
Proof.
  induction m as [|m IH]; intros [|b l] HL H; try discriminate HL; [reflexivity|].
  cbn [repeat]. f_equal.
  - exact (H 0 ltac:(lia)).
  - apply IH; [cbn [length] in HL; lia|]. intros j Hj. exact (H (S j) ltac:(lia)).
Qed.

Lemma nth_skipn_add : forall A r (l : list A) i d, nth i (skipn r l) d = nth (r + i) l d.
Proof.
  induction r as [|r IH]; intros l i d; [reflexivity|].
  destruct l as [|a l]; cbn [skipn Nat.add nth]; [destruct i; reflexivity | apply IH].
Qed.

Lemma nth_firstn_lt : forall A m (l : list A) i d, i < m -> nth i (firstn m l) d = nth i l d.
Proof.
  induction m as [|m IH]; intros l i d H; [lia|].
  destruct l as [|a l]; cbn [firstn]; [reflexivity|]. destruct i as [|i]; cbn [nth]; [reflexivity|].
  apply IH. lia.
Qed.

(* ------------------------------------------------------------------ 1. non-degeneracy *)
Theorem tableau_nondegenerate : forall n t g, tableau_ok n t -> length g = n ->
   (forall i, (i < 2 * n)%nat -> acq (fst (row (rows t) i)) g = 0%Z) -> g = id_str n.
Proof.
  intros n t g Hok Hg Hc.
  pose proof (to_map_valid n t Hok) as Hv.
  destruct (inverse_exists n _ Hv) as [m' Hm'].
  pose proof (inverse_valid n _ m' Hv Hm') as Hv'.
  set (a := (g, 0%Z) : pauli).
  assert (Wa : wf n a) by (split; cbn [fst snd a]; [exact Hg | lia]).
  destruct (transform_inverse_cancel n _ m' a Hv Hm' Wa) as [_ Hcan].
  assert (Wh : wf n (transform1 m' a)) by (apply (transform_wf n m' a Hv'); exact Hg).
  set (h := transform1 m' a) in *.
  pose proof Wh as [Lh _].
  assert (Hbits : forall k, k < 2 * n -> acqb (unit_str n k) (fst h) = false).
  { intros k Hk. apply TableauInv.zb_inj. rewrite <- acq_acqb. cbn [zb].
    pose proof (transform_acq n (to_map t) (unit_str n k, 0%Z) h Hv (unit_str_length n k) Lh) as TA.
    cbn [fst] in TA. refine (eq_trans (eq_sym TA) _). rewrite (transform_unit n _ k Hv Hk), Hcan. cbn [fst a].
    destruct (midx_cover n k Hk) as [q [e [Hq E]]]. rewrite E. unfold to_map.
    destruct Hok as [HL _].
    rewrite (row_state_to_map n (rows t) q e HL Hq). apply Hc. apply pidx_lt; exact Hq. }
  assert (Hflat : flat (fst h) = repeat false (2 * n)).
  { apply all_false_repeat; [rewrite flat_length, Lh; reflexivity|].
    intros j Hj. rewrite <- (InverseFacts.partner_invol j).
    rewrite <- (acqb_unit_str n (InverseFacts.partner j) (fst h) Lh (InverseFacts.partner_lt n j Hj)).
    apply Hbits. apply InverseFacts.partner_lt; exact Hj. }
  assert (Hid : fst h = id_str n).
  { rewrite <- (unflat_flat (fst h)), Hflat. apply unflat_repeat_false. }
  assert (E : fst a = id_str n).
  { rewrite <- Hcan. rewrite (transform1_rprod n _ h (valid_rows_ok n _ Hv)).
    rewrite fst_pscale, Hid, rprod_flat_id. reflexivity. }
  exact E.
Qed.

(* ------------------------------------------------------------------ 2. rows of a valid tableau, active stabilizers *)
Lemma ok_tN : forall n t, tableau_ok n t -> tN t = n.
Proof. intros n t [HL _]. apply tN_ok; exact HL. Qed.

Lemma ok_row_hrow : forall n t i, tableau_ok n t -> i < 2 * n -> hrow n (prow (rows t) i).
Proof.
  intros n t i [_ [_ [HLen [HH _]]]] Hi. split; [apply herm_wf|]; [apply HLen | apply HH | apply HH]; exact Hi.
Qed.

Lemma ok_rows_acqb : forall n t i j, tableau_ok n t -> i < 2 * n -> j < 2 * n ->
  acqb (fst (prow (rows t) i)) (fst (prow (rows t) j)) = (j =? partner n i).
Proof.
  intros n t i j Hok Hi Hj. apply tableau_ok_iff in Hok. destruct Hok as [[_ [_ H]] _]. apply H; assumption.
Qed.

Lemma active_length : forall n t, tableau_ok n t -> length (active t) = n - rk t.
Proof.
  intros n t Hok. unfold active. rewrite (ok_tN n t Hok). destruct Hok as [HL [Hr _]].
  rewrite firstn_length, skipn_length, HL. lia.
Qed.

Lemma active_nth : forall n t j, tableau_ok n t -> j < n - rk t ->
  nth j (active t) (pid 0) = prow (rows t) (rk t + j).
Proof.
  intros n t j Hok Hj. unfold active. rewrite (ok_tN n t Hok).
  rewrite nth_firstn_lt by exact Hj. rewrite nth_skipn_add. reflexivity.
Qed.

Lemma active_In : forall n t a, tableau_ok n t -> In a (active t) ->
  exists j, j < n - rk t /\ a = prow (rows t) (rk t + j).
Proof.
  intros n t a Hok Ha. apply (In_nth _ _ (pid 0)) in Ha. destruct Ha as [j [Hj E]].
  rewrite (active_length n t Hok) in Hj. exists j. split; [exact Hj|].
  rewrite <- E. apply (active_nth n t j Hok Hj).
Qed.

Lemma active_hrow : forall n t, tableau_ok n t -> Forall (hrow n) (active t).
Proof.
  intros n t Hok. apply Forall_forall. intros a Ha.
  destruct (active_In n t a Hok Ha) as [j [Hj E]]. rewrite E. apply (ok_row_hrow n t); [exact Hok|].
  destruct Hok as [_ [Hr _]]. lia.
Qed.

Lemma active_wf : forall n t, tableau_ok n t -> Forall (wf n) (active t).
Proof. intros n t Hok. apply hrow_wf. apply active_hrow; exact Hok. Qed.

(* row i of the tableau against the j-th active stabilizer: only its destabilizer n+r+j anticommutes *)
Lemma active_acqb_row : forall n t i j, tableau_ok n t -> i < 2 * n -> j < n - rk t ->
  acqb (fst (prow (rows t) i)) (fst (prow (rows t) (rk t + j))) = (i =? n + rk t + j).
Proof.
  intros n t i j Hok Hi Hj. pose proof Hok as [_ [Hr _]].
  rewrite (ok_rows_acqb n t i (rk t + j) Hok Hi) by lia.
  destruct (partner_spec n i Hi) as [[L E]|[G E]]; rewrite E;
    destruct (Nat.eqb_spec (rk t + j) (i + n)); destruct (Nat.eqb_spec (rk t + j) (i - n));
    destruct (Nat.eqb_spec i (n + rk t + j)); try reflexivity; exfalso; lia.
Qed.

Definition allcomm (rs : plist) : Prop := forall a b, In a rs -> In b rs -> acqb (fst a) (fst b) = false.

Lemma allcomm_tail : forall r rs, allcomm (r :: rs) -> allcomm rs.
Proof. intros r rs H a b Ha Hb. apply H; right; assumption. Qed.

Lemma active_allcomm : forall n t, tableau_ok n t -> allcomm (active t).
Proof.
  intros n t Hok a b Ha Hb.
  destruct (active_In n t a Hok Ha) as [i [Hi Ea]]. destruct (active_In n t b Hok Hb) as [j [Hj Eb]].
  pose proof Hok as [_ [Hr _]].
  rewrite Ea, Eb. rewrite (active_acqb_row n t (rk t + i) j Hok) by lia.
  apply Nat.eqb_neq. lia.
Qed.

(* ------------------------------------------------------------------ 3. ordered products of commuting Hermitian rows *)
Lemma gprod_rprod : forall n sel rs, Forall (wf n) rs -> gprod n sel rs = rprod n sel rs.
Proof. intros. unfold gprod. apply combine_row_rprod; assumption. Qed.

Lemma pmul_herm : forall a b, hermP a -> hermP b -> acqb (fst a) (fst b) = false -> hermP (pmul a b).
Proof.
  intros a b Ha Hb C. unfold hermP in *. rewrite pmul_snd.
  pose proof (ipow_parity (fst a) (fst b)) as IP. rewrite C in IP. cbn [zb] in IP.
  generalize dependent (ipow (fst a) (fst b)). intros ip IP.
  destruct Ha as [Ha|Ha]; destruct Hb as [Hb|Hb]; rewrite Ha, Hb; clear - IP; lia.
Qed.

Lemma hermP_pid : forall n, hermP (pid n).
Proof. intros n. left. reflexivity. Qed.

Lemma rprod_comm_row : forall n sel r rs, Forall (wf n) rs -> allcomm (r :: rs) ->
  acqb (fst r) (fst (rprod n sel rs)) = false.
Proof.
  intros n sel r rs HW HC. rewrite acqb_sym. apply acqb_rprod_comm; [exact HW|].
  apply Forall_forall. intros x Hx. apply HC; [right; exact Hx | left; reflexivity].
Qed.

Lemma rprod_herm : forall n sel rs, Forall (hrow n) rs -> allcomm rs -> hermP (rprod n sel rs).
Proof.
  intros n sel; induction sel as [|b sel IH]; intros [|r rs] HF HC; cbn [rprod]; try apply hermP_pid.
  inversion_clear HF as [|? ? Hr HF']. destruct b; [|apply IH; [exact HF' | eapply allcomm_tail; exact HC]].
  apply pmul_herm.
  - destruct Hr as [_ Hh]; exact Hh.
  - apply IH; [exact HF' | eapply allcomm_tail; exact HC].
  - apply rprod_comm_row; [apply hrow_wf; exact HF' | exact HC].
Qed.

Fixpoint acqsel (sel : list bool) (rs : plist) (g : pstr) : bool :=
  match sel, rs with
  | b :: sel', r :: rs' => xorb (b && acqb (fst r) g) (acqsel sel' rs' g)
  | _, _ => false
  end.

Lemma acqb_rprod_sel : forall n g sel rs, Forall (wf n) rs ->
  acqb (fst (rprod n sel rs)) g = acqsel sel rs g.
Proof.
  intros n g sel; induction sel as [|b sel IH]; intros [|r rs] HW; cbn [rprod acqsel]; try apply acqb_id_l.
  inversion_clear HW as [|? ? Wr HW']. destruct b; cbn [andb].
  - rewrite pmul_fst, acqb_xor_l.
    + rewrite IH by exact HW'. reflexivity.
    + apply (wf_len_eq n); [exact Wr | apply wf_rprod; exact HW'].
  - rewrite IH by exact HW'. rewrite xorb_false_l. reflexivity.
Qed.

Lemma acqsel_none : forall g sel rs, (forall r, In r rs -> acqb (fst r) g = false) -> acqsel sel rs g = false.
Proof.
  intros g sel; induction sel as [|b sel IH]; intros [|r rs] H; cbn [acqsel]; try reflexivity.
  rewrite (H r) by (left; reflexivity). rewrite IH by (intros x Hx; apply H; right; exact Hx).
  rewrite andb_false_r. reflexivity.
Qed.

Lemma acqsel_unit : forall g rs sel j, length sel = length rs ->
  (forall i, i < length rs -> acqb (fst (nth i rs (pid 0))) g = (i =? j)) ->
  acqsel sel rs g = nth j sel false.
Proof.
  intros g rs; induction rs as [|r rs IH]; intros [|b sel] j HL H; try discriminate HL.
  - destruct j; reflexivity.
  - cbn [acqsel]. cbn [length] in HL. destruct j as [|j].
    + pose proof (H 0 ltac:(cbn [length]; lia)) as H0. cbn [nth] in H0. rewrite H0. cbn [Nat.eqb nth].
      rewrite acqsel_none.
      * rewrite andb_true_r, xorb_false_r. reflexivity.
      * intros x Hx. apply (In_nth _ _ (pid 0)) in Hx. destruct Hx as [i [Hi E]]. rewrite <- E.
        apply (H (S i)). cbn [length]. lia.
    + pose proof (H 0 ltac:(cbn [length]; lia)) as H0. cbn [nth] in H0. rewrite H0. cbn [Nat.eqb nth].
      rewrite andb_false_r, xorb_false_l. apply IH; [lia|].
      intros i Hi. apply (H (S i)). cbn [length]. lia.
Qed.

Lemma sgn_comm : forall n c d rs, Forall (wf n) rs -> allcomm rs -> sgn n c d rs = false.
Proof.
  intros n c; induction c as [|b c IH]; intros [|b' d] [|r rs] HW HC; cbn [sgn]; try reflexivity.
  inversion_clear HW as [|? ? Wr HW'].
  rewrite IH by (try exact HW'; eapply allcomm_tail; exact HC).
  rewrite acqb_sym, (rprod_comm_row n c r rs HW' HC). rewrite andb_false_r. reflexivity.
Qed.

Lemma rprod_mul_comm : forall n c d rs, Forall (hrow n) rs -> allcomm rs -> length c = length d ->
  pmul (rprod n c rs) (rprod n d rs) = rprod n (map2 xorb c d) rs.
Proof.
  intros n c d rs HF HC HL. rewrite (rprod_mul n c d rs HF HL).
  rewrite (sgn_comm n c d rs (hrow_wf n rs HF) HC). cbn [zb].
  apply (pscale_0 n). apply wf_rprod. apply hrow_wf; exact HF.
Qed.

Lemma map2_xorb_length : forall c d, length c = length d -> length (map2 xorb c d) = length c.
Proof.
  induction c as [|a c IH]; intros [|b d] H; try discriminate H; [reflexivity|].
  cbn [map2 length]. rewrite IH by (cbn [length] in H; lia). reflexivity.
Qed.

Lemma map2_xorb_false : forall c d, length c = length d -> map2 xorb c d = repeat false (length c) -> c = d.
Proof.
  induction c as [|a c IH]; intros [|b d] H E; try discriminate H; [reflexivity|].
  cbn [map2 length repeat] in E. injection E as E1 E2. f_equal.
  - destruct a, b; try reflexivity; discriminate E1.
  - apply IH; [cbn [length] in H; lia | exact E2].
Qed.

Lemma rprod_repeat_false : forall n m rs, rprod n (repeat false m) rs = pid n.
Proof.
  intros n m; induction m as [|m IH]; intros [|r rs]; cbn [repeat rprod]; try reflexivity. apply IH.
Qed.

Lemma gxor_eq_id : forall n a b, length a = n -> length b = n -> gxor a b = id_str n -> a = b.
Proof.
  intros n a b La Lb H.
  assert (E : gxor (gxor a b) b = a).
  { rewrite gxor_assoc, gxor_self, Lb, <- La. apply gxor_id_r. }
  rewrite H in E. rewrite <- Lb in E. rewrite gxor_id_l in E. symmetry; exact E.
Qed.

(* ------------------------------------------------------------------ 4. the stabilizer group *)
Lemma in_group_rprod : forall n t a, tableau_ok n t ->
  (in_group n t a <-> exists sel, length sel = n - rk t /\ rprod n sel (active t) = a).
Proof.
  intros n t a Hok. unfold in_group. split; intros [sel [HL E]]; exists sel; (split; [exact HL|]).
  - rewrite <- (gprod_rprod n sel _ (active_wf n t Hok)). exact E.
  - rewrite (gprod_rprod n sel _ (active_wf n t Hok)). exact E.
Qed.

Theorem group_commutes_with_rows : forall n t a i, tableau_ok n t -> in_group n t a -> (i < n + rk t)%nat ->
  acq (fst (row (rows t) i)) (fst a) = 0%Z.
Proof.
  intros n t a i Hok Ha Hi. apply (in_group_rprod n t a Hok) in Ha. destruct Ha as [sel [HL E]].
  pose proof Hok as [_ [Hr _]].
  rewrite acq_acqb. change 0%Z with (zb false). f_equal. rewrite acqb_sym, <- E.
  rewrite (acqb_rprod_sel n _ sel _ (active_wf n t Hok)).
  apply acqsel_none. intros r Hr'. destruct (active_In n t r Hok Hr') as [j [Hj Er]]. rewrite Er.
  rewrite acqb_sym. change (row (rows t) i) with (prow (rows t) i).
  rewrite (active_acqb_row n t i j Hok) by (try exact Hj; lia).
  apply Nat.eqb_neq. lia.
Qed.

Theorem group_hermitian : forall n t a, tableau_ok n t -> in_group n t a -> wf n a /\ hermP a.
Proof.
  intros n t a Hok Ha. apply (in_group_rprod n t a Hok) in Ha. destruct Ha as [sel [HL E]]. rewrite <- E. split.
  - apply wf_rprod. apply active_wf; exact Hok.
  - apply rprod_herm; [apply (active_hrow n t Hok) | apply (active_allcomm n t Hok)].
Qed.

(* the product selected by sel anticommutes with the active destabilizer n+r+j iff sel_j *)
Lemma group_destab : forall n t sel j, tableau_ok n t -> length sel = n - rk t -> j < n - rk t ->
  acqb (fst (rprod n sel (active t))) (fst (prow (rows t) (n + rk t + j))) = nth j sel false.
Proof.
  intros n t sel j Hok HL Hj. pose proof Hok as [_ [Hr _]].
  rewrite (acqb_rprod_sel n _ sel _ (active_wf n t Hok)).
  apply acqsel_unit; [rewrite (active_length n t Hok); exact HL|].
  intros i Hi. rewrite (active_length n t Hok) in Hi. rewrite (active_nth n t i Hok Hi).
  rewrite acqb_sym. rewrite (active_acqb_row n t (n + rk t + j) i Hok) by (try exact Hi; lia).
  destruct (Nat.eqb_spec (n + rk t + j) (n + rk t + i)); destruct (Nat.eqb_spec i j); try reflexivity; exfalso; lia.
Qed.

Lemma rprod_independent : forall n t sel, tableau_ok n t -> length sel = n - rk t ->
  fst (rprod n sel (active t)) = id_str n -> sel = repeat false (n - rk t).
Proof.
  intros n t sel Hok HL E. apply all_false_repeat; [exact HL|]. intros j Hj.
  rewrite <- (group_destab n t sel j Hok HL Hj). rewrite E. apply acqb_id_l.
Qed.

Theorem group_independent : forall n t sel, tableau_ok n t -> length sel = (n - rk t)%nat ->
   fst (gprod n sel (active t)) = id_str n -> sel = repeat false (n - rk t).
Proof.
  intros n t sel Hok HL E. rewrite (gprod_rprod n sel _ (active_wf n t Hok)) in E.
  apply (rprod_independent n t sel Hok HL E).
Qed.

Lemma rprod_fst_inj : forall n t c d, tableau_ok n t -> length c = n - rk t -> length d = n - rk t ->
  fst (rprod n c (active t)) = fst (rprod n d (active t)) -> c = d.
Proof.
  intros n t c d Hok Lc Ld E.
  assert (Lcd : length c = length d) by (rewrite Lc, Ld; reflexivity).
  apply (map2_xorb_false c d Lcd). rewrite Lc.
  apply (rprod_independent n t _ Hok); [rewrite map2_xorb_length by exact Lcd; exact Lc|].
  rewrite <- (rprod_mul_comm n c d _ (active_hrow n t Hok) (active_allcomm n t Hok) Lcd).
  rewrite pmul_fst, E.
  pose proof (wf_rprod n d _ (active_wf n t Hok)) as [L _].
  rewrite gxor_self. f_equal. exact L.
Qed.

Theorem group_sign_unique : forall n t a, tableau_ok n t -> in_group n t a -> ~ in_group n t (pneg a).
Proof.
  intros n t a Hok Ha Hna. destruct (group_hermitian n t a Hok Ha) as [[_ R] _].
  apply (in_group_rprod n t a Hok) in Ha. apply (in_group_rprod n t _ Hok) in Hna.
  destruct Ha as [c [Lc Ec]]. destruct Hna as [d [Ld Ed]].
  assert (E : c = d).
  { apply (rprod_fst_inj n t c d Hok Lc Ld). rewrite Ec, Ed. reflexivity. }
  subst d. rewrite Ec in Ed. symmetry in Ed. exact (pneg_neq a R Ed).
Qed.

(* closure properties *)
Lemma in_group_pid : forall n t, tableau_ok n t -> in_group n t (pid n).
Proof.
  intros n t Hok. apply (in_group_rprod n t _ Hok). exists (repeat false (n - rk t)).
  split; [apply repeat_length | apply rprod_repeat_false].
Qed.

Lemma in_group_pmul : forall n t a b, tableau_ok n t -> in_group n t a -> in_group n t b -> in_group n t (pmul a b).
Proof.
  intros n t a b Hok Ha Hb. apply (in_group_rprod n t _ Hok) in Ha, Hb. apply (in_group_rprod n t _ Hok).
  destruct Ha as [c [Lc Ec]]. destruct Hb as [d [Ld Ed]].
  assert (Lcd : length c = length d) by (rewrite Lc, Ld; reflexivity).
  exists (map2 xorb c d). split; [rewrite map2_xorb_length by exact Lcd; exact Lc|].
  rewrite <- (rprod_mul_comm n c d _ (active_hrow n t Hok) (active_allcomm n t Hok) Lcd).
  rewrite Ec, Ed. reflexivity.
Qed.

Lemma rprod_unit_sel : forall n rs i, Forall (wf n) rs -> i < length rs ->
  rprod n (map (fun j => Nat.eqb i j) (seq 0 (length rs))) rs = nth i rs (pid 0).
Proof. intros n rs i HW Hi. exact (rprod_unit n rs 0 i HW Hi). Qed.

Lemma in_group_row : forall n t i, tableau_ok n t -> rk t <= i -> i < n -> in_group n t (prow (rows t) i).
Proof.
  intros n t i Hok H1 H2. apply (in_group_rprod n t _ Hok).
  exists (map (fun j => Nat.eqb (i - rk t) j) (seq 0 (length (active t)))). split.
  - rewrite map_length, seq_length. apply (active_length n t Hok).
  - rewrite (rprod_unit_sel n _ (i - rk t) (active_wf n t Hok)) by (rewrite (active_length n t Hok); lia).
    rewrite (active_nth n t (i - rk t) Hok) by lia. f_equal. lia.
Qed.

(* two Hermitian operators with the same string differ at most by a sign *)
Lemma herm_same_str : forall a b, hermP a -> hermP b -> fst a = fst b -> a = b \/ a = pneg b.
Proof.
  intros [ga pa] [gb pb] Ha Hb E. unfold hermP, pneg, np_Pauli_neg in *. cbn [fst snd] in *. subst gb.
  destruct Ha as [Ha|Ha]; destruct Hb as [Hb|Hb]; subst pa pb; auto.
Qed.

Lemma pneg_pneg : forall a, hermP a -> pneg (pneg a) = a.
Proof.
  intros [g p] H. unfold hermP, pneg, np_Pauli_neg in *. cbn [fst snd] in *. destruct H as [H|H]; subst p; reflexivity.
Qed.

Lemma hermP_pneg : forall a, hermP a -> hermP (pneg a).
Proof.
  intros [g p] H. unfold hermP, pneg, np_Pauli_neg in *. cbn [fst snd] in *. destruct H as [H|H]; subst p; auto.
Qed.

Lemma group_same_str : forall n t a b, tableau_ok n t -> in_group n t a -> in_group n t b -> fst a = fst b -> a = b.
Proof.
  intros n t a b Hok Ha Hb E.
  destruct (group_hermitian n t a Hok Ha) as [_ HA]. destruct (group_hermitian n t b Hok Hb) as [_ HB].
  destruct (herm_same_str a b HA HB E) as [K|K]; [exact K|].
  exfalso. subst a. exact (group_sign_unique n t b Hok Hb Ha).
Qed.

(* ------------------------------------------------------------------ 5. the accumulation of expect_scan / scan_step *)
Definition accfold (n : nat) (go : pstr) (l : plist) (js : list nat) (acc : pauli) : pauli :=
  fold_left (fun acc j => if anti go l j then accstep n l acc j else acc) js acc.
Definition blocked (n r : nat) (go : pstr) (l : plist) (js : list nat) : bool :=
  existsb (fun j => anti go l j && (j <? n + r)) js.
Definition dsel (n r : nat) (go : pstr) (l : plist) : list bool := map (anti go l) (seq (n + r) (n - r)).

Lemma anti_false_iff : forall go l i, anti go l i = false <-> acq (fst (row l i)) go = 0%Z.
Proof.
  intros go l i. unfold anti, row, prow.
  destruct (acq_01 (fst (nth i l (pid 0))) go) as [H|H]; rewrite H; cbn; split; intros K; try reflexivity; discriminate K.
Qed.

Lemma anti_true_iff : forall go l i, anti go l i = true <-> acq (fst (row l i)) go = 1%Z.
Proof.
  intros go l i. unfold anti, row, prow.
  destruct (acq_01 (fst (nth i l (pid 0))) go) as [H|H]; rewrite H; cbn; split; intros K; try reflexivity; discriminate K.
Qed.

Lemma anti_acqb : forall go l i, anti go l i = acqb (fst (prow l i)) go.
Proof. intros. unfold anti. apply bz_acq. Qed.

Lemma expect_scan_char : forall n r l go js acc,
  expect_scan n r l go js acc = if blocked n r go l js then None else Some (accfold n go l js acc).
Proof.
  intros n r l go js. induction js as [|j js IH]; intros acc; [reflexivity|].
  cbn [expect_scan]. unfold blocked, accfold. cbn [existsb fold_left].
  change (bz (acq (fst (prow l j)) go)) with (anti go l j).
  destruct (anti go l j); cbn [andb].
  - destruct (j <? n + r); cbn [orb]; [reflexivity|]. rewrite IH. reflexivity.
  - cbn [orb]. rewrite IH. reflexivity.
Qed.

Lemma accfold_app : forall n go l a b acc, accfold n go l (a ++ b) acc = accfold n go l b (accfold n go l a acc).
Proof. intros. unfold accfold. apply fold_left_app. Qed.

Lemma accfold_skip : forall n go l js acc, (forall j, In j js -> anti go l j = false) -> accfold n go l js acc = acc.
Proof.
  intros n go l js. induction js as [|j js IH]; intros acc H; [reflexivity|].
  unfold accfold. cbn [fold_left]. rewrite (H j) by (left; reflexivity).
  apply IH. intros k Hk. apply H. right; exact Hk.
Qed.

Lemma accfold_combine : forall n go l js acc,
  accfold n go l js acc
  = fold_left combine_step (combine (map (anti go l) js) (map (fun j => prow l (j - n)) js)) acc.
Proof.
  intros n go l js. unfold accfold. induction js as [|j js IH]; intros acc; [reflexivity|].
  cbn [fold_left map combine].
  destruct (anti go l j); rewrite IH; reflexivity.
Qed.

Lemma nth_map_seq : forall A (f : nat -> A) a m i d, i < m -> nth i (map f (seq a m)) d = f (a + i).
Proof.
  intros A f a m i d H. rewrite (nth_indep _ d (f 0)) by (rewrite map_length, seq_length; exact H).
  rewrite map_nth, seq_nth by exact H. reflexivity.
Qed.

Lemma active_as_map : forall n t, tableau_ok n t ->
  map (fun j => prow (rows t) (j - n)) (seq (n + rk t) (n - rk t)) = active t.
Proof.
  intros n t Hok. apply (nth_ext _ _ (pid 0) (pid 0)).
  - rewrite map_length, seq_length. symmetry. apply (active_length n t Hok).
  - intros i Hi. rewrite map_length, seq_length in Hi.
    rewrite nth_map_seq by exact Hi. rewrite (active_nth n t i Hok Hi). f_equal. lia.
Qed.

Lemma accfold_active : forall n t go, tableau_ok n t ->
  accfold n go (rows t) (seq (n + rk t) (n - rk t)) (pid n) = gprod n (dsel n (rk t) go (rows t)) (active t).
Proof.
  intros n t go Hok. rewrite accfold_combine, (active_as_map n t Hok). reflexivity.
Qed.

Lemma blocked_true_iff : forall n r go l, r <= n ->
  (blocked n r go l (seq 0 (2 * n)) = true <-> exists i, i < n + r /\ anti go l i = true).
Proof.
  intros n r go l Hr. unfold blocked. rewrite existsb_exists. split.
  - intros [i [Hi H]]. apply andb_prop in H. destruct H as [H1 H2]. apply Nat.ltb_lt in H2. exists i. auto.
  - intros [i [Hi H]]. exists i. split; [apply in_seq; lia|]. rewrite H. apply Nat.ltb_lt in Hi. rewrite Hi. reflexivity.
Qed.

Lemma blocked_false_all : forall n r go l, r <= n -> blocked n r go l (seq 0 (2 * n)) = false ->
  forall i, i < n + r -> anti go l i = false.
Proof.
  intros n r go l Hr H i Hi. destruct (anti go l i) eqn:E; [|reflexivity].
  assert (K : blocked n r go l (seq 0 (2 * n)) = true) by (apply blocked_true_iff; [exact Hr | exists i; auto]).
  rewrite K in H. discriminate H.
Qed.

Lemma accfold_full : forall n r go l acc, r <= n -> (forall i, i < n + r -> anti go l i = false) ->
  accfold n go l (seq 0 (2 * n)) acc = accfold n go l (seq (n + r) (n - r)) acc.
Proof.
  intros n r go l acc Hr H. replace (2 * n) with ((n + r) + (n - r)) by lia.
  rewrite seq_app, accfold_app. cbn [Nat.add]. f_equal.
  apply accfold_skip. intros j Hj. apply in_seq in Hj. apply H. lia.
Qed.

(* the accumulated product of an unblocked scan: a group element with the string of the observable *)
Lemma accfold_group : forall n t go, tableau_ok n t -> length go = n ->
  (forall i, i < n + rk t -> anti go (rows t) i = false) ->
  in_group n t (accfold n go (rows t) (seq (n + rk t) (n - rk t)) (pid n)) /\
  fst (accfold n go (rows t) (seq (n + rk t) (n - rk t)) (pid n)) = go.
Proof.
  intros n t go Hok Hgo Hfree. pose proof Hok as [_ [Hr _]].
  rewrite (accfold_active n t go Hok).
  assert (HLs : length (dsel n (rk t) go (rows t)) = n - rk t).
  { unfold dsel. rewrite map_length, seq_length. reflexivity. }
  assert (HG : in_group n t (gprod n (dsel n (rk t) go (rows t)) (active t))).
  { exists (dsel n (rk t) go (rows t)). split; [exact HLs | reflexivity]. }
  split; [exact HG|].
  destruct (group_hermitian n t _ Hok HG) as [[La _] _].
  set (acc := gprod n (dsel n (rk t) go (rows t)) (active t)) in *.
  apply (gxor_eq_id n); [exact La | exact Hgo |].
  apply (tableau_nondegenerate n t); [exact Hok | rewrite gxor_length; [exact La | rewrite La, Hgo; reflexivity] |].
  intros i Hi. rewrite acq_acqb. change 0%Z with (zb false). f_equal.
  change (row (rows t) i) with (prow (rows t) i).
  rewrite acqb_xor_r by (rewrite La, Hgo; reflexivity).
  rewrite <- (anti_acqb go (rows t) i).
  destruct (Nat.lt_ge_cases i (n + rk t)) as [L|G].
  - rewrite (Hfree i L). rewrite xorb_false_r.
    pose proof (group_commutes_with_rows n t acc i Hok HG L) as C.
    rewrite acq_acqb in C. change 0%Z with (zb false) in C. apply TableauInv.zb_inj in C. exact C.
  - replace i with (n + rk t + (i - (n + rk t))) by lia.
    set (j := i - (n + rk t)). assert (Hj : j < n - rk t) by (unfold j; lia).
    rewrite acqb_sym. unfold acc. rewrite (gprod_rprod n _ _ (active_wf n t Hok)).
    rewrite (group_destab n t _ j Hok HLs Hj).
    unfold dsel. rewrite nth_map_seq by exact Hj. apply xorb_nilpotent.
Qed.

Lemma expect1_blocked : forall n t (o : pauli), tableau_ok n t ->
  (exists i, i < n + rk t /\ anti (fst o) (rows t) i = true) -> expect1 t o = 0%Z.
Proof.
  intros n t o Hok H. pose proof Hok as [_ [Hr _]]. unfold expect1. rewrite (ok_tN n t Hok). cbv zeta.
  rewrite expect_scan_char.
  assert (K : blocked n (rk t) (fst o) (rows t) (seq 0 (2 * n)) = true) by (apply blocked_true_iff; assumption).
  rewrite K. reflexivity.
Qed.

Lemma expect1_unblocked : forall n t (o : pauli), tableau_ok n t ->
  (forall i, i < n + rk t -> anti (fst o) (rows t) i = false) ->
  expect1 t o = np_expect_value (snd (accfold n (fst o) (rows t) (seq (n + rk t) (n - rk t)) (pid n))) (snd o).
Proof.
  intros n t o Hok H. pose proof Hok as [_ [Hr _]]. unfold expect1. rewrite (ok_tN n t Hok). cbv zeta.
  rewrite expect_scan_char.
  assert (K : blocked n (rk t) (fst o) (rows t) (seq 0 (2 * n)) = false).
  { destruct (blocked n (rk t) (fst o) (rows t) (seq 0 (2 * n))) eqn:E; [|reflexivity].
    apply blocked_true_iff in E; [|exact Hr]. destruct E as [i [Hi E]]. rewrite (H i Hi) in E. discriminate E. }
  rewrite K. rewrite (accfold_full n (rk t) _ _ _ Hr H). reflexivity.
Qed.

Lemma expect_value_same : forall p, (p = 0 \/ p = 2)%Z -> np_expect_value p p = 1%Z.
Proof. intros p [H|H]; subst p; reflexivity. Qed.
Lemma expect_value_neg : forall p, (p = 0 \/ p = 2)%Z -> np_expect_value (np_Pauli_neg p) p = (-1)%Z.
Proof. intros p [H|H]; subst p; reflexivity. Qed.

(* summary of the three cases *)
Lemma expect1_cases : forall n t (o : pauli), tableau_ok n t -> length (fst o) = n -> hermP o ->
  ((exists i, i < n + rk t /\ anti (fst o) (rows t) i = true) /\ expect1 t o = 0%Z) \/
  ((forall i, i < n + rk t -> anti (fst o) (rows t) i = false) /\
   ((accfold n (fst o) (rows t) (seq (n + rk t) (n - rk t)) (pid n) = o /\ in_group n t o /\ expect1 t o = 1%Z) \/
    (accfold n (fst o) (rows t) (seq (n + rk t) (n - rk t)) (pid n) = pneg o /\ in_group n t (pneg o) /\ expect1 t o = (-1)%Z))).
Proof.
  intros n t o Hok Hlen Hh. pose proof Hok as [_ [Hr _]].
  destruct (blocked n (rk t) (fst o) (rows t) (seq 0 (2 * n))) eqn:B.
  - left. apply blocked_true_iff in B; [|exact Hr]. split; [exact B|]. apply (expect1_blocked n t o Hok B).
  - right. pose proof (blocked_false_all n (rk t) _ _ Hr B) as Hfree. split; [exact Hfree|].
    destruct (accfold_group n t (fst o) Hok Hlen Hfree) as [HG HS].
    set (acc := accfold n (fst o) (rows t) (seq (n + rk t) (n - rk t)) (pid n)) in *.
    assert (E : expect1 t o = np_expect_value (snd acc) (snd o)) by exact (expect1_unblocked n t o Hok Hfree).
    destruct (group_hermitian n t acc Hok HG) as [_ HA].
    destruct (herm_same_str acc o HA Hh HS) as [K|K].
    + left. split; [exact K|]. split; [rewrite <- K; exact HG|]. rewrite E, K. apply expect_value_same; exact Hh.
    + right. split; [exact K|]. split; [rewrite <- K; exact HG|]. rewrite E, K. unfold pneg. cbn [snd].
      apply expect_value_neg; exact Hh.
Qed.

(* ------------------------------------------------------------------ 6. expectation values *)
Lemma in_group_free : forall n t a go, tableau_ok n t -> in_group n t a -> fst a = go ->
  forall i, i < n + rk t -> anti go (rows t) i = false.
Proof.
  intros n t a go Hok Ha E i Hi. apply anti_false_iff. rewrite <- E.
  apply (group_commutes_with_rows n t a i Hok Ha Hi).
Qed.

Lemma expect_zero_p : forall n t (o : pauli), tableau_ok n t -> length (fst o) = n -> hermP o ->
   (expect1 t o = 0%Z <-> exists i, (i < n + rk t)%nat /\ acq (fst (row (rows t) i)) (fst o) = 1%Z).
Proof.
  intros n t o Hok Hlen Hh.
  destruct (expect1_cases n t o Hok Hlen Hh) as [[[i [Hi Ha]] E]|[Hfree [[_ [_ E]]|[_ [_ E]]]]].
  - split; [|intros _; exact E]. intros _. exists i. split; [exact Hi|]. apply anti_true_iff; exact Ha.
  - split; [intros K; rewrite K in E; discriminate E|].
    intros [i [Hi Ha]]. apply anti_true_iff in Ha. rewrite (Hfree i Hi) in Ha. discriminate Ha.
  - split; [intros K; rewrite K in E; discriminate E|].
    intros [i [Hi Ha]]. apply anti_true_iff in Ha. rewrite (Hfree i Hi) in Ha. discriminate Ha.
Qed.

Lemma expect_plus_p : forall n t (o : pauli), tableau_ok n t -> length (fst o) = n -> hermP o ->
   (expect1 t o = 1%Z <-> in_group n t o).
Proof.
  intros n t o Hok Hlen Hh.
  destruct (expect1_cases n t o Hok Hlen Hh) as [[[i [Hi Ha]] E]|[Hfree [[_ [G E]]|[_ [G E]]]]].
  - split; [intros K; rewrite K in E; discriminate E|].
    intros G. rewrite (in_group_free n t o (fst o) Hok G eq_refl i Hi) in Ha. discriminate Ha.
  - split; auto.
  - split; [intros K; rewrite K in E; discriminate E|].
    intros G'. exfalso. exact (group_sign_unique n t o Hok G' G).
Qed.

Lemma expect_minus_p : forall n t (o : pauli), tableau_ok n t -> length (fst o) = n -> hermP o ->
   (expect1 t o = (-1)%Z <-> in_group n t (pneg o)).
Proof.
  intros n t o Hok Hlen Hh.
  destruct (expect1_cases n t o Hok Hlen Hh) as [[[i [Hi Ha]] E]|[Hfree [[_ [G E]]|[_ [G E]]]]].
  - split; [intros K; rewrite K in E; discriminate E|].
    intros G. rewrite (in_group_free n t (pneg o) (fst o) Hok G eq_refl i Hi) in Ha. discriminate Ha.
  - split; [intros K; rewrite K in E; discriminate E|].
    intros G'. exfalso. exact (group_sign_unique n t o Hok G G').
  - split; auto.
Qed.

Lemma expect_values_p : forall n t (o : pauli), tableau_ok n t -> length (fst o) = n -> hermP o ->
   expect1 t o = 1%Z \/ expect1 t o = (-1)%Z \/ expect1 t o = 0%Z.
Proof.
  intros n t o Hok Hlen Hh.
  destruct (expect1_cases n t o Hok Hlen Hh) as [[_ E]|[_ [[_ [_ E]]|[_ [_ E]]]]]; auto.
Qed.

Theorem expect_zero : forall n t o, tableau_ok n t -> length (fst o) = n -> hermP o ->
   (expect1 t o = 0%Z <-> exists i, (i < n + rk t)%nat /\ acq (fst (row (rows t) i)) (fst o) = 1%Z).
Proof. exact expect_zero_p. Qed.

Theorem expect_plus : forall n t o, tableau_ok n t -> length (fst o) = n -> hermP o ->
   (expect1 t o = 1%Z <-> in_group n t o).
Proof. exact expect_plus_p. Qed.

Theorem expect_minus : forall n t o, tableau_ok n t -> length (fst o) = n -> hermP o ->
   (expect1 t o = (-1)%Z <-> in_group n t (pneg o)).
Proof. exact expect_minus_p. Qed.

Theorem expect_values : forall n t o, tableau_ok n t -> length (fst o) = n -> hermP o ->
   expect1 t o = 1%Z \/ expect1 t o = (-1)%Z \/ expect1 t o = 0%Z.
Proof. exact expect_values_p. Qed.

(* ------------------------------------------------------------------ 7. measurement, determined branch *)
Lemma scan_noupd_fold : forall n r go l order ext p acc,
  (forall j, In j order -> j < n + r -> anti go l j = false) ->
  fold_left (scan_step n r go) order (Build_scan l false ext p acc)
  = Build_scan l false ext p (accfold n go l order acc).
Proof.
  intros n r go l order. induction order as [|j order IH]; intros ext p acc H; [reflexivity|].
  cbn [fold_left]. rewrite scan_step_noupd. unfold accfold. cbn [fold_left]. fold (accfold n go l order).
  destruct (anti go l j) eqn:A.
  - destruct (Nat.ltb_spec j (n + r)) as [L|G].
    + rewrite (H j (or_introl eq_refl) L) in A. discriminate A.
    + apply IH. intros k Hk. apply H. right; exact Hk.
  - apply IH. intros k Hk. apply H. right; exact Hk.
Qed.

Lemma accfold_measure_order : forall n r go l acc, r <= n -> (forall i, i < n + r -> anti go l i = false) ->
  accfold n go l (order_measure n r) acc = accfold n go l (seq (n + r) (n - r)) acc.
Proof.
  intros n r go l acc Hr H. unfold order_measure. rewrite !accfold_app.
  rewrite (accfold_skip n go l (seq r (n - r))) by (intros j Hj; apply in_seq in Hj; apply H; lia).
  rewrite (accfold_skip n go l (seq 0 r)) by (intros j Hj; apply in_seq in Hj; apply H; lia).
  replace (seq n n) with (seq n (r + (n - r))) by (f_equal; lia).
  rewrite seq_app, accfold_app.
  rewrite (accfold_skip n go l (seq n r)) by (intros j Hj; apply in_seq in Hj; apply H; lia).
  reflexivity.
Qed.

Lemma scan_measure_free : forall n r go l, r <= n -> (forall i, i < n + r -> anti go l i = false) ->
  scan_over (order_measure n r) n r go l
  = Build_scan l false false 0 (accfold n go l (seq (n + r) (n - r)) (pid n)).
Proof.
  intros n r go l Hr H. unfold scan_over. rewrite scan_noupd_fold by (intros j _ Hj; apply H; exact Hj).
  rewrite (accfold_measure_order n r go l _ Hr H). reflexivity.
Qed.

Lemma tableau_eta : forall t, {| rows := rows t; rk := rk t |} = t.
Proof. intros [l r]. reflexivity. Qed.

Lemma measure1_free : forall n t (o : pauli) coin, tableau_ok n t ->
  (forall i, i < n + rk t -> anti (fst o) (rows t) i = false) ->
  measure1 t o coin
  = (t, np_measure_out_determ (snd (accfold n (fst o) (rows t) (seq (n + rk t) (n - rk t)) (pid n))) (snd o), 0%Z, false).
Proof.
  intros n t o coin Hok Hfree. pose proof Hok as [_ [Hr _]].
  unfold measure1. rewrite (ok_tN n t Hok). cbv zeta.
  rewrite (scan_measure_free n (rk t) (fst o) (rows t) Hr Hfree). cbn [s_update s_rows s_acc].
  rewrite tableau_eta. reflexivity.
Qed.

Lemma out_determ_same : forall p, (p = 0 \/ p = 2)%Z -> np_measure_out_determ p p = 0%Z.
Proof. intros p [H|H]; subst p; reflexivity. Qed.
Lemma out_determ_neg : forall p, (p = 0 \/ p = 2)%Z -> np_measure_out_determ (np_Pauli_neg p) p = 1%Z.
Proof. intros p [H|H]; subst p; reflexivity. Qed.

Lemma pscale_2_pneg : forall o, pscale 2 o = pneg o.
Proof. reflexivity. Qed.

Lemma pscale_0_herm : forall o, hermP o -> pscale 0 o = o.
Proof.
  intros [g p] H. unfold hermP, pscale in *. cbn [fst snd] in *. destruct H as [H|H]; subst p; reflexivity.
Qed.

(* the free (determined) case in full: outcome, expectation, and group membership *)
Lemma measure1_free_full : forall n t (o : pauli) coin, tableau_ok n t -> length (fst o) = n -> hermP o ->
  (forall i, i < n + rk t -> anti (fst o) (rows t) i = false) ->
  exists out, measure1 t o coin = (t, out, 0%Z, false) /\ (out = 0 \/ out = 1)%Z /\
              expect1 t o = m1pow out /\ in_group n t (pscale (2 * out) o).
Proof.
  intros n t o coin Hok Hlen Hh Hfree.
  rewrite (measure1_free n t o coin Hok Hfree).
  destruct (expect1_cases n t o Hok Hlen Hh) as [[[i [Hi Ha]] _]|[_ [[K [G E]]|[K [G E]]]]].
  - rewrite (Hfree i Hi) in Ha. discriminate Ha.
  - exists 0%Z. rewrite K, (out_determ_same _ Hh). split; [reflexivity|]. split; [left; reflexivity|].
    split; [exact E|]. change (2 * 0)%Z with 0%Z. rewrite (pscale_0_herm o Hh). exact G.
  - exists 1%Z. rewrite K. unfold pneg at 1. cbn [snd]. rewrite (out_determ_neg _ Hh).
    split; [reflexivity|]. split; [right; reflexivity|]. split; [exact E|].
    change (2 * 1)%Z with 2%Z. rewrite pscale_2_pneg. exact G.
Qed.

Theorem measure1_determined : forall n t o coin, tableau_ok n t -> length (fst o) = n -> hermP o ->
   (forall i, (i < n + rk t)%nat -> acq (fst (row (rows t) i)) (fst o) = 0%Z) ->
   exists out, measure1 t o coin = (t, out, 0%Z, false) /\ (out = 0 \/ out = 1)%Z /\ expect1 t o = m1pow out /\
               in_group n t (pscale (2 * out) o).
Proof.
  intros n t o coin Hok Hlen Hh H. apply (measure1_free_full n t o coin Hok Hlen Hh).
  intros i Hi. apply anti_false_iff. apply H; exact Hi.
Qed.

(* ------------------------------------------------------------------ 8. measurement, undetermined branch: the scan *)
Lemma scan_upd_p : forall n r go post l ext p acc,
  s_p (fold_left (scan_step n r go) post (Build_scan l true ext p acc)) = p.
Proof.
  intros n r go post. induction post as [|j post IH]; intros l ext p acc; [reflexivity|].
  cbn [fold_left]. rewrite scan_step_upd. apply IH.
Qed.

Lemma scan_first : forall n r go l order, s_update (scan_over order n r go l) = true ->
  exists pre post, order = pre ++ s_p (scan_over order n r go l) :: post /\
                   (forall j, In j pre -> j < n + r -> anti go l j = false).
Proof.
  intros n r go l order HU. unfold scan_over in *.
  pose proof (scan_pre n r go l order false 0 (pid n)) as H. cbv zeta in H.
  destruct H as [[I1 _]|[pre [p [post [acc' [I1 [I2 [_ [_ I5]]]]]]]]].
  - rewrite I1 in HU. discriminate HU.
  - exists pre, post. rewrite I5, scan_upd_p. split; [exact I1 | exact I2].
Qed.

Lemma prefix_in : forall (A B pre : list nat) p post, A ++ B = pre ++ p :: post -> ~ In p A ->
  forall x, In x A -> In x pre.
Proof.
  induction A as [|a A IH]; intros B pre p post E Hp x Hx; [destruct Hx|].
  destruct pre as [|a' pre]; cbn [app] in E; injection E as E1 E2.
  - exfalso. apply Hp. left. exact E1.
  - subst a'. destruct Hx as [Hx|Hx]; [left; exact Hx|]. right.
    apply (IH B pre p post E2); [|exact Hx]. intros K. apply Hp. right; exact K.
Qed.

Lemma scan_blocked : forall n t go, tableau_ok n t ->
  (exists i, i < n + rk t /\ anti go (rows t) i = true) ->
  let s := scan_over (order_measure n (rk t)) n (rk t) go (rows t) in
  s_update s = true /\ s_p s < n + rk t /\ s_p s < 2 * n /\ anti go (rows t) (s_p s) = true /\
  s_extend s = negb ((rk t <=? s_p s) && (s_p s <? n)) /\ length (s_rows s) = 2 * n /\
  (forall j, j < 2 * n -> prow (s_rows s) j
       = if anti go (rows t) j && negb (j =? s_p s) then mulrow n (rows t) (s_p s) j else prow (rows t) j) /\
  (n <= s_p s -> anti go (rows t) (s_p s - n) = false) /\
  (s_extend s = true <-> forall i, rk t <= i -> i < n -> anti go (rows t) i = false).
Proof.
  intros n t go Hok [i [Hi Ha]] s. pose proof Hok as [HL [Hr _]].
  pose proof (scan_char n (rk t) go (rows t) _ (ord_ok_measure n (rk t) Hr) HL) as C. cbv zeta in C. fold s in C.
  destruct C as [[_ [_ C]]|[C1 [C2 [C3 [C4 [C5 [C6 [C7 C8]]]]]]]].
  - rewrite (C i ltac:(lia) Hi) in Ha. discriminate Ha.
  - split; [exact C1|]. split; [exact C2|]. split; [exact C3|]. split; [exact C4|]. split; [exact C5|].
    split; [rewrite C6; exact HL|]. split; [exact C7|]. split; [exact C8|].
    rewrite C5. split.
    + intros E k Hk1 Hk2.
      destruct (scan_first n (rk t) go (rows t) _ C1) as [pre [post [EO Hpre]]]. fold s in EO.
      unfold order_measure in EO.
      apply Hpre; [|lia].
      apply (prefix_in _ _ _ _ _ EO); [|apply in_seq; lia].
      intros K. apply in_seq in K.
      destruct (Nat.leb_spec (rk t) (s_p s)); destruct (Nat.ltb_spec (s_p s) n); cbn [andb negb] in E;
        try discriminate E; lia.
    + intros H. destruct (Nat.leb_spec (rk t) (s_p s)) as [L1|L1]; [|reflexivity].
      destruct (Nat.ltb_spec (s_p s) n) as [L2|L2]; [|reflexivity].
      rewrite (H (s_p s) L1 L2) in C4. discriminate C4.
Qed.

(* ------------------------------------------------------------------ 9. the block after the loop *)
Lemma install_shape : forall n r go s,
  install n r go s =
  if s_extend s then
    (if s_p s =? r - 1 then l2_of n go (s_rows s) (s_p s)
     else if partner n (s_p s) =? r - 1 then swap_str (l2_of n go (s_rows s) (s_p s)) (s_p s) (partner n (s_p s))
     else swap_str (swap_str (l2_of n go (s_rows s) (s_p s)) (s_p s) (r - 1)) (partner n (s_p s)) (partner n (r - 1)),
     r - 1, r - 1)
  else (l2_of n go (s_rows s) (s_p s), r, s_p s).
Proof.
  intros n r go s. unfold install, l2_of, partner. cbv zeta.
  destruct (s_extend s); [|reflexivity].
  destruct (s_p s =? r - 1); [reflexivity|].
  destruct ((s_p s + n) mod (2 * n) =? r - 1); reflexivity.
Qed.

Lemma prow_eq : forall a b : pauli, fst a = fst b -> snd a = snd b -> a = b.
Proof. intros [? ?] [? ?] H1 H2. cbn [fst snd] in *. subst. reflexivity. Qed.

Lemma prow_swap_str_other : forall l i j k, i < length l -> j < length l -> k <> i -> k <> j ->
  prow (swap_str l i j) k = prow l k.
Proof.
  intros l i j k Hi Hj H1 H2. apply prow_eq.
  - rewrite fst_prow_swap_str by assumption. unfold tr.
    destruct (Nat.eqb_spec k j); [contradiction|]. destruct (Nat.eqb_spec k i); [contradiction|]. reflexivity.
  - apply snd_prow_swap_str.
Qed.

Lemma prow_l2_other : forall n go ls p k, k <> p -> k <> partner n p -> prow (l2_of n go ls p) k = prow ls k.
Proof.
  intros n go ls p k H1 H2. unfold l2_of, set_str. rewrite prow_upd_neq by exact H1.
  apply prow_upd_neq. exact H2.
Qed.

Lemma fst_l2_p : forall n go ls p, p < length ls -> fst (prow (l2_of n go ls p) p) = go.
Proof.
  intros n go ls p H. unfold l2_of. rewrite fst_prow_set_str by (rewrite length_set_str; exact H).
  rewrite Nat.eqb_refl. reflexivity.
Qed.

Lemma length_l2 : forall n go ls p, length (l2_of n go ls p) = length ls.
Proof. intros. unfold l2_of. rewrite !length_set_str. reflexivity. Qed.

(* where the observable ends up *)
Lemma install_pf_row : forall n r go s, r <= n -> length (s_rows s) = 2 * n -> s_p s < 2 * n -> s_p s < n + r ->
  s_extend s = negb ((r <=? s_p s) && (s_p s <? n)) ->
  let '(lf, r', pf) := install n r go s in
  fst (prow lf pf) = go /\ r' <= pf /\ pf < n /\ r' = (if s_extend s then r - 1 else r) /\
  (s_extend s = true -> 1 <= r) /\ length lf = 2 * n.
Proof.
  intros n r go s Hr HL Hp Hp' Hext. rewrite install_shape.
  set (p := s_p s) in *. set (l2 := l2_of n go (s_rows s) p).
  assert (Hl2 : length l2 = 2 * n) by (unfold l2; rewrite length_l2; exact HL).
  assert (Hgo : fst (prow l2 p) = go) by (apply fst_l2_p; rewrite HL; exact Hp).
  pose proof (partner_lt n p Hp) as Hq.
  destruct (s_extend s) eqn:E.
  - assert (Hr1 : 1 <= r).
    { destruct (Nat.leb_spec r p); destruct (Nat.ltb_spec p n); cbn [andb negb] in Hext; try discriminate Hext; lia. }
    assert (Hr' : r - 1 < 2 * n) by lia.
    pose proof (partner_lt n (r - 1) Hr') as Hs'.
    pose proof (partner_neq n (r - 1) Hr') as Hs''.
    destruct (Nat.eqb_spec p (r - 1)) as [E1|E1].
    + rewrite <- E1 at 1. split; [exact Hgo|]. repeat split; try lia; try exact Hl2.
    + destruct (Nat.eqb_spec (partner n p) (r - 1)) as [E2|E2].
      * split; [|repeat split; try lia; try (rewrite length_swap_str; exact Hl2)].
        rewrite fst_prow_swap_str by (rewrite Hl2; assumption). unfold tr.
        rewrite <- E2, Nat.eqb_refl. exact Hgo.
      * split; [|repeat split; try lia; try (rewrite !length_swap_str; exact Hl2)].
        rewrite fst_prow_swap_str by (rewrite length_swap_str, Hl2; assumption). unfold tr at 1.
        destruct (Nat.eqb_spec (r - 1) (partner n (r - 1))) as [K|_]; [exfalso; apply Hs''; auto|].
        destruct (Nat.eqb_spec (r - 1) (partner n p)) as [K|_]; [exfalso; apply E2; auto|].
        rewrite fst_prow_swap_str by (rewrite Hl2; assumption). unfold tr.
        rewrite Nat.eqb_refl. exact Hgo.
  - split; [exact Hgo|].
    destruct (Nat.leb_spec r p); destruct (Nat.ltb_spec p n); cbn [andb negb] in Hext; try discriminate Hext.
    repeat split; try lia; try exact Hl2.
Qed.

(* ------------------------------------------------------------------ 10. measurement, undetermined branch *)
Definition mscan (n : nat) (t : tableau) (go : pstr) : scan :=
  scan_over (order_measure n (rk t)) n (rk t) go (rows t).

Lemma undet_pack : forall n t (o : pauli) coin, tableau_ok n t -> length (fst o) = n -> (coin = 0 \/ coin = 1)%Z ->
  (exists i, i < n + rk t /\ anti (fst o) (rows t) i = true) ->
  exists lf r' pf,
    install n (rk t) (fst o) (mscan n t (fst o)) = (lf, r', pf) /\
    measure1 t o coin = ({| rows := set_phase lf pf (2 * coin)%Z; rk := r' |}, ((2 * coin - snd o) mod 4 / 2)%Z, (-1)%Z, true) /\
    tableau_ok n {| rows := set_phase lf pf (2 * coin)%Z; rk := r' |} /\
    prow (set_phase lf pf (2 * coin)%Z) pf = (fst o, (2 * coin)%Z) /\
    r' <= pf /\ pf < n /\ r' = (if s_extend (mscan n t (fst o)) then rk t - 1 else rk t) /\
    (s_extend (mscan n t (fst o)) = true -> 1 <= rk t) /\ length lf = 2 * n.
Proof.
  intros n t o coin Hok Hlen Hcoin Hblk. pose proof Hok as [HL [Hr _]].
  pose proof (scan_blocked n t (fst o) Hok Hblk) as S. cbv zeta in S. fold (mscan n t (fst o)) in S.
  destruct S as [S1 [S2 [S3 [S4 [S5 [S6 [S7 [S8 S9]]]]]]]].
  pose proof (install_pf_row n (rk t) (fst o) (mscan n t (fst o)) Hr S6 S3 S2 S5) as IP.
  destruct (install n (rk t) (fst o) (mscan n t (fst o))) as [[lf r'] pf] eqn:HI.
  destruct IP as [P1 [P2 [P3 [P4 [P5 P6]]]]].
  exists lf, r', pf. split; [reflexivity|].
  pose proof (kernel_update_ok n t (fst o) _ lf r' pf Hok Hlen (ord_ok_measure n (rk t) Hr) S1 HI) as [_ [_ K3]].
  split; [|split; [|split; [|repeat split; assumption]]].
  - unfold measure1. rewrite (ok_tN n t Hok). cbv zeta. fold (mscan n t (fst o)). rewrite S1, HI. reflexivity.
  - apply K3. lia.
  - apply prow_eq; cbn [fst snd].
    + rewrite fst_prow_set_phase. exact P1.
    + rewrite snd_prow_set_phase by lia. rewrite Nat.eqb_refl. reflexivity.
Qed.

Lemma out_random_cases : forall (o : pauli) coin, hermP o -> (coin = 0 \/ coin = 1)%Z ->
  (((2 * coin - snd o) mod 4 / 2 = 0)%Z /\ (fst o, (2 * coin)%Z) = o) \/
  (((2 * coin - snd o) mod 4 / 2 = 1)%Z /\ (fst o, (2 * coin)%Z) = pneg o).
Proof.
  intros [g p] coin Hh Hc. unfold hermP, pneg, np_Pauli_neg in *. cbn [fst snd] in *.
  destruct Hh as [Hh|Hh]; destruct Hc as [Hc|Hc]; subst p coin; [left|right|right|left]; split; reflexivity.
Qed.

Lemma measure1_undetermined_p : forall n t (o : pauli) coin, tableau_ok n t -> length (fst o) = n -> hermP o ->
   (coin = 0 \/ coin = 1)%Z ->
   (exists i, (i < n + rk t)%nat /\ acq (fst (row (rows t) i)) (fst o) = 1%Z) ->
   exists t' out, measure1 t o coin = (t', out, (-1)%Z, true) /\ out = ((2 * coin - snd o) mod 4 / 2)%Z /\
                  expect1 t o = 0%Z /\
                  expect1 t' o = m1pow out /\
                  (rk t' = rk t \/ S (rk t') = rk t) /\
                  (S (rk t') = rk t <-> forall i, (rk t <= i < n)%nat -> acq (fst (row (rows t) i)) (fst o) = 0%Z).
Proof.
  intros n t o coin Hok Hlen Hh Hcoin Hblk.
  assert (Hblk' : exists i, i < n + rk t /\ anti (fst o) (rows t) i = true).
  { destruct Hblk as [i [Hi Ha]]. exists i. split; [exact Hi|]. apply anti_true_iff; exact Ha. }
  destruct (undet_pack n t o coin Hok Hlen Hcoin Hblk') as [lf [r' [pf [HI [HM [Hok' [Hrow [P2 [P3 [P4 [P5 P6]]]]]]]]]]].
  pose proof (scan_blocked n t (fst o) Hok Hblk') as S. cbv zeta in S. fold (mscan n t (fst o)) in S.
  destruct S as [_ [_ [_ [_ [_ [_ [_ [_ S9]]]]]]]].
  set (t' := {| rows := set_phase lf pf (2 * coin)%Z; rk := r' |}) in *.
  exists t', ((2 * coin - snd o) mod 4 / 2)%Z.
  split; [exact HM|]. split; [reflexivity|]. split; [apply (expect1_blocked n t o Hok Hblk')|].
  split; [|split].
  - assert (G : in_group n t' (fst o, (2 * coin)%Z)).
    { rewrite <- Hrow. apply (in_group_row n t' pf Hok'); cbn [rk t']; assumption. }
    destruct (out_random_cases o coin Hh Hcoin) as [[E1 E2]|[E1 E2]]; rewrite E1, E2 in *.
    + apply (expect_plus_p n t' o Hok' Hlen Hh). exact G.
    + apply (expect_minus_p n t' o Hok' Hlen Hh). exact G.
  - cbn [rk t']. rewrite P4. destruct (s_extend (mscan n t (fst o))); [right|left; reflexivity].
    specialize (P5 eq_refl). lia.
  - cbn [rk t']. rewrite P4. destruct (s_extend (mscan n t (fst o))) eqn:E.
    + specialize (P5 eq_refl). split; [|intros _; lia].
      intros _ i [Hi1 Hi2]. apply anti_false_iff. destruct S9 as [S9 _]. apply (S9 eq_refl i Hi1 Hi2).
    + split; [intros K; exfalso; lia|].
      intros H. exfalso. destruct S9 as [_ S9].
      assert (K : false = true); [|discriminate K].
      apply S9. intros i Hi1 Hi2. apply anti_false_iff. apply H. lia.
Qed.

Theorem measure1_undetermined : forall n t o coin, tableau_ok n t -> length (fst o) = n -> hermP o -> (coin = 0 \/ coin = 1)%Z ->
   (exists i, (i < n + rk t)%nat /\ acq (fst (row (rows t) i)) (fst o) = 1%Z) ->
   exists t' out, measure1 t o coin = (t', out, (-1)%Z, true) /\ out = ((2 * coin - snd o) mod 4 / 2)%Z /\ expect1 t o = 0%Z /\
                  expect1 t' o = m1pow out /\
                  (rk t' = rk t \/ S (rk t') = rk t) /\
                  (S (rk t') = rk t <-> forall i, (rk t <= i < n)%nat -> acq (fst (row (rows t) i)) (fst o) = 0%Z).
Proof. exact measure1_undetermined_p. Qed.

(* ------------------------------------------------------------------ 11. repeated measurement *)
Lemma m1pow_inj01 : forall a b, (a = 0 \/ a = 1)%Z -> (b = 0 \/ b = 1)%Z -> m1pow a = m1pow b -> a = b.
Proof. intros a b [Ha|Ha] [Hb|Hb] H; subst a b; try reflexivity; discriminate H. Qed.

Lemma out_random_01 : forall (o : pauli) coin, hermP o -> (coin = 0 \/ coin = 1)%Z ->
  ((2 * coin - snd o) mod 4 / 2 = 0 \/ (2 * coin - snd o) mod 4 / 2 = 1)%Z.
Proof.
  intros o coin Hh Hc. destruct (out_random_cases o coin Hh Hc) as [[E _]|[E _]]; rewrite E; auto.
Qed.

Lemma measure1_repeat_p : forall n t (o : pauli) c1 c2, tableau_ok n t -> length (fst o) = n -> hermP o ->
   (c1 = 0 \/ c1 = 1)%Z ->
   let '(t1, out1, lp1, u1) := measure1 t o c1 in
   measure1 t1 o c2 = (t1, out1, 0%Z, false).
Proof.
  intros n t o c1 c2 Hok Hlen Hh Hc1. pose proof Hok as [_ [Hr _]].
  destruct (blocked n (rk t) (fst o) (rows t) (seq 0 (2 * n))) eqn:B.
  - apply blocked_true_iff in B; [|exact Hr].
    destruct (undet_pack n t o c1 Hok Hlen Hc1 B) as [lf [r' [pf [HI [HM [Hok' [Hrow [P2 [P3 _]]]]]]]]].
    assert (B' : exists i, (i < n + rk t)%nat /\ acq (fst (row (rows t) i)) (fst o) = 1%Z).
    { destruct B as [i [Hi Ha]]. exists i. split; [exact Hi|]. apply anti_true_iff; exact Ha. }
    destruct (measure1_undetermined_p n t o c1 Hok Hlen Hh Hc1 B') as [t'' [out [HM' [Eout [_ [Eexp _]]]]]].
    rewrite HM in HM'. injection HM' as Et Eo. rewrite HM.
    set (t' := {| rows := set_phase lf pf (2 * c1)%Z; rk := r' |}) in *.
    subst t''.
    assert (G : in_group n t' (fst o, (2 * c1)%Z)).
    { rewrite <- Hrow. apply (in_group_row n t' pf Hok'); cbn [rk t']; assumption. }
    pose proof (in_group_free n t' _ (fst o) Hok' G eq_refl) as Hfree.
    destruct (measure1_free_full n t' o c2 Hok' Hlen Hh Hfree) as [out' [HM2 [H01 [Eexp' _]]]].
    rewrite HM2. f_equal. f_equal. f_equal.
    rewrite Eo. apply m1pow_inj01; [exact H01 | rewrite Eout; apply out_random_01; assumption |].
    rewrite <- Eexp', <- Eexp. reflexivity.
  - pose proof (blocked_false_all n (rk t) _ _ Hr B) as Hfree.
    rewrite (measure1_free n t o c1 Hok Hfree). apply (measure1_free n t o c2 Hok Hfree).
Qed.

Theorem measure1_repeat : forall n t o c1 c2, tableau_ok n t -> length (fst o) = n -> hermP o -> (c1 = 0 \/ c1 = 1)%Z ->
   let '(t1, out1, lp1, u1) := measure1 t o c1 in
   measure1 t1 o c2 = (t1, out1, 0%Z, false).
Proof. exact measure1_repeat_p. Qed.

(* ------------------------------------------------------------------ 12. products over the updated rows *)
Lemma gxor_idn_r : forall n g, length g = n -> gxor g (id_str n) = g.
Proof. intros n g H. rewrite <- H. apply gxor_id_r. Qed.

Lemma gxor_cancel_r : forall n a e, length a = n -> length e = n -> gxor (gxor a e) e = a.
Proof. intros n a e Ha He. rewrite gxor_assoc, gxor_self, He. apply gxor_idn_r; exact Ha. Qed.

Definition sg (n : nat) (b : bool) (g : pstr) : pstr := if b then g else id_str n.

Lemma sg_length : forall n b g, length g = n -> length (sg n b g) = n.
Proof. intros n [|] g H; cbn [sg]; [exact H | apply id_str_length]. Qed.

Lemma rprod_fst_length : forall n sel rs, Forall (wf n) rs -> length (fst (rprod n sel rs)) = n.
Proof. intros n sel rs H. destruct (wf_rprod n sel rs H) as [L _]. exact L. Qed.

Lemma rprod_map_mul_fst : forall n go e sel rs, Forall (wf n) rs -> wf n e ->
  fst (rprod n sel (map (fun r => if acqb (fst r) go then pmul r e else r) rs))
  = gxor (fst (rprod n sel rs)) (sg n (acqsel sel rs go) (fst e)).
Proof.
  intros n go e sel. induction sel as [|b sel IH]; intros [|r rs] HW We; cbn [map rprod acqsel sg];
    try (cbn [pid fst]; rewrite gxor_self, id_str_length; reflexivity).
  inversion_clear HW as [|? ? Wr HW']. pose proof We as [Le _]. pose proof Wr as [Lr _].
  pose proof (rprod_fst_length n sel rs HW') as LR.
  specialize (IH rs HW' We).
  destruct b; cbn [andb]; [|rewrite xorb_false_l; exact IH].
  rewrite pmul_fst, IH, pmul_fst.
  set (R := fst (rprod n sel rs)) in *. set (gr := @fst pstr Z r) in *. set (ge := @fst pstr Z e) in *.
  destruct (acqb gr go); destruct (acqsel sel rs go); cbn [xorb sg fst].
  - rewrite pmul_fst. fold gr ge.
    rewrite (gxor_comm R ge), <- (gxor_assoc (gxor gr ge) ge R), (gxor_cancel_r n gr ge Lr Le).
    symmetry. apply gxor_idn_r. rewrite gxor_length; [exact Lr | transitivity n; [exact Lr | symmetry; exact LR]].
  - rewrite pmul_fst. fold gr ge. rewrite (gxor_idn_r n R LR).
    rewrite gxor_assoc, (gxor_comm ge R), <- gxor_assoc. reflexivity.
  - rewrite <- gxor_assoc. reflexivity.
  - rewrite (gxor_idn_r n R LR). symmetry. apply gxor_idn_r.
    rewrite gxor_length; [exact Lr | transitivity n; [exact Lr | symmetry; exact LR]].
Qed.

Lemma rprod_upd_unsel : forall n sel rs k X, nth k sel false = false -> rprod n sel (upd rs k X) = rprod n sel rs.
Proof.
  intros n sel. induction sel as [|b sel IH]; intros [|r rs] k X H; try reflexivity.
  destruct k as [|k]; cbn [upd rprod].
  - cbn [nth] in H. subst b. reflexivity.
  - cbn [nth] in H. rewrite (IH rs k X H). reflexivity.
Qed.

Lemma rprod_upd_sel_fst : forall n sel rs k, Forall (wf n) rs -> k < length rs ->
  fst (rprod n (upd sel k false) rs)
  = gxor (fst (rprod n sel rs)) (sg n (nth k sel false) (fst (nth k rs (pid 0)))).
Proof.
  intros n sel. induction sel as [|b sel IH]; intros [|r rs] k HW Hk; try (cbn [length] in Hk; lia).
  - cbn [upd rprod]. destruct k; cbn [nth sg pid fst]; rewrite gxor_self, id_str_length; reflexivity.
  - inversion_clear HW as [|? ? Wr HW']. pose proof Wr as [Lr _].
    pose proof (rprod_fst_length n sel rs HW') as LR.
    destruct k as [|k]; cbn [upd rprod nth].
    + destruct b; cbn [sg].
      * rewrite pmul_fst. rewrite (gxor_comm (fst r)). symmetry. apply (gxor_cancel_r n); assumption.
      * symmetry. apply gxor_idn_r. exact LR.
    + cbn [length] in Hk. specialize (IH rs k HW' ltac:(lia)).
      destruct b.
      * rewrite !pmul_fst, IH, gxor_assoc. reflexivity.
      * exact IH.
Qed.

Lemma acqsel_upd : forall g sel rs k, k < length rs ->
  acqsel (upd sel k false) rs g
  = xorb (acqsel sel rs g) (nth k sel false && acqb (fst (nth k rs (pid 0))) g).
Proof.
  intros g sel. induction sel as [|b sel IH]; intros [|r rs] k Hk; try (cbn [length] in Hk; lia).
  - destruct k; reflexivity.
  - destruct k as [|k]; cbn [upd acqsel nth].
    + destruct b, (acqb (fst r) g), (acqsel sel rs g); reflexivity.
    + cbn [length] in Hk. rewrite (IH rs k ltac:(lia)).
      destruct b, (acqb (fst r) g), (acqsel sel rs g), (nth k sel false), (acqb (fst (nth k rs (pid 0))) g); reflexivity.
Qed.

Lemma rprod_in_group : forall n t sel rs, tableau_ok n t -> (forall x, In x rs -> in_group n t x) ->
  in_group n t (rprod n sel rs).
Proof.
  intros n t sel. induction sel as [|b sel IH]; intros [|r rs] Hok H; cbn [rprod]; try apply (in_group_pid n t Hok).
  assert (H' : forall x, In x rs -> in_group n t x) by (intros x Hx; apply H; right; exact Hx).
  destruct b; [|apply IH; assumption].
  apply in_group_pmul; [exact Hok | apply H; left; reflexivity | apply IH; assumption].
Qed.

Lemma length_upd_sel : forall (sel : list bool) k v, length (upd sel k v) = length sel.
Proof. intros. apply length_upd. Qed.

(* ------------------------------------------------------------------ 13. the active rows after an undetermined measurement *)
Lemma prow_set_phase_other : forall l j ph k, k <> j -> prow (set_phase l j ph) k = prow l k.
Proof. intros. unfold set_phase. apply prow_upd_neq. assumption. Qed.

(* extension: the old active rows are not touched by the block after the loop *)
Lemma install_ext_rows : forall n r go ls p k, length ls = 2 * n -> r <= n -> 1 <= r -> p < 2 * n -> p < n + r ->
  ~ (r <= p /\ p < n) -> r <= k -> k < n ->
  prow (if p =? r - 1 then l2_of n go ls p
        else if partner n p =? r - 1 then swap_str (l2_of n go ls p) p (partner n p)
        else swap_str (swap_str (l2_of n go ls p) p (r - 1)) (partner n p) (partner n (r - 1))) k
  = prow ls k.
Proof.
  intros n r go ls p k HL Hr Hr1 Hp Hp' Hnp Hk1 Hk2.
  assert (Hr' : r - 1 < 2 * n) by lia.
  pose proof (partner_lt n p Hp) as Hq. pose proof (partner_lt n (r - 1) Hr') as Hs.
  assert (Kp : k <> p) by lia.
  assert (Kq : k <> partner n p).
  { destruct (partner_spec n p Hp) as [[? E]|[? E]]; rewrite E; lia. }
  assert (Kr : k <> r - 1) by lia.
  assert (Ks : k <> partner n (r - 1)).
  { destruct (partner_spec n (r - 1) Hr') as [[? E]|[? E]]; rewrite E; lia. }
  assert (Hl2 : length (l2_of n go ls p) = 2 * n) by (rewrite length_l2; exact HL).
  destruct (p =? r - 1); [apply prow_l2_other; assumption|].
  destruct (partner n p =? r - 1).
  - rewrite prow_swap_str_other by (try rewrite Hl2; assumption). apply prow_l2_other; assumption.
  - rewrite prow_swap_str_other by (try rewrite length_swap_str, Hl2; assumption).
    rewrite prow_swap_str_other by (try rewrite Hl2; assumption). apply prow_l2_other; assumption.
Qed.

Lemma mulrow_pmul : forall n l p j, j < n -> mulrow n l p j = pmul (prow l j) (prow l p).
Proof. intros n l p j H. unfold mulrow. apply Nat.ltb_lt in H. rewrite H. reflexivity. Qed.

Lemma measure1_keeps_commuting_p : forall n t (o : pauli) coin (a : pauli), tableau_ok n t -> length (fst o) = n ->
   hermP o -> (coin = 0 \/ coin = 1)%Z ->
   in_group n t a -> acq (fst a) (fst o) = 0%Z -> in_group n (fst (fst (fst (measure1 t o coin)))) a.
Proof.
  intros n t o coin a Hok Hlen Hh Hcoin Ha Hcomm. pose proof Hok as [HL [Hr _]].
  destruct (blocked n (rk t) (fst o) (rows t) (seq 0 (2 * n))) eqn:B.
  2:{ pose proof (blocked_false_all n (rk t) _ _ Hr B) as Hfree.
      rewrite (measure1_free n t o coin Hok Hfree). cbn [fst]. exact Ha. }
  apply blocked_true_iff in B; [|exact Hr].
  destruct (undet_pack n t o coin Hok Hlen Hcoin B) as [lf [r' [pf [HI [HM [Hok' [Hrow [P2 [P3 [P4 [P5 P6]]]]]]]]]]].
  rewrite HM. cbn [fst].
  pose proof (scan_blocked n t (fst o) Hok B) as S. cbv zeta in S. fold (mscan n t (fst o)) in S.
  destruct S as [S1 [S2 [S3 [S4 [S5 [S6 [S7 [S8 S9]]]]]]]].
  rewrite install_shape in HI.
  set (go := @fst pstr Z o) in *. set (s := mscan n t go) in *. set (p := s_p s) in *.
  set (ph := (2 * coin)%Z) in *.
  apply (in_group_rprod n t a Hok) in Ha. destruct Ha as [sel [Lsel Ea]].
  assert (Hsel : acqsel sel (active t) go = false).
  { rewrite <- (acqb_rprod_sel n go sel _ (active_wf n t Hok)). rewrite Ea.
    apply TableauInv.zb_inj. rewrite <- acq_acqb. exact Hcomm. }
  set (t' := {| rows := set_phase lf pf ph; rk := r' |}) in *.
  apply (in_group_rprod n t' a Hok').
  destruct (s_extend s) eqn:E.
  - (* extension: new active list = new row :: old active list *)
    specialize (P5 eq_refl). injection HI as Elf Er' Epf. subst r' pf.
    assert (Hnp : ~ (rk t <= p /\ p < n)).
    { intros [K1 K2]. apply Nat.leb_le in K1. apply Nat.ltb_lt in K2. rewrite K1, K2 in S5. discriminate S5. }
    assert (Hrows : forall k, rk t <= k -> k < n -> prow (rows t') k = prow (rows t) k).
    { intros k K1 K2. cbn [rows t']. rewrite prow_set_phase_other by lia. rewrite <- Elf.
      rewrite (install_ext_rows n (rk t) go (s_rows s) p k S6 Hr P5 S3 S2 Hnp K1 K2).
      rewrite (S7 k ltac:(lia)). destruct S9 as [S9 _]. rewrite (S9 eq_refl k K1 K2). reflexivity. }
    assert (Eact : active t' = nth 0 (active t') (pid 0) :: active t).
    { apply (nth_ext _ _ (pid 0) (pid 0)).
      - cbn [length]. rewrite (active_length n t' Hok'), (active_length n t Hok). cbn [rk t']. lia.
      - intros j Hj. rewrite (active_length n t' Hok') in Hj. cbn [rk t'] in Hj.
        destruct j as [|j]; [reflexivity|]. cbn [nth].
        rewrite (active_nth n t' (S j) Hok') by (cbn [rk t']; exact Hj).
        rewrite (active_nth n t j Hok) by lia. cbn [rk t'].
        replace (rk t - 1 + S j) with (rk t + j) by lia. apply Hrows; lia. }
    exists (false :: sel). split; [cbn [length rk t']; lia|].
    rewrite Eact. cbn [rprod]. exact Ea.
  - (* no extension: the pivot is an active stabilizer *)
    injection HI as Elf Er' Epf. subst r' pf.
    assert (Hp1 : rk t <= p /\ p < n).
    { destruct (Nat.leb_spec (rk t) p); destruct (Nat.ltb_spec p n); cbn [andb negb] in S5; try discriminate S5; lia. }
    destruct Hp1 as [Hp1 Hp2].
    set (e := prow (rows t) p).
    set (f := fun r0 : pauli => if acqb (fst r0) go then pmul r0 e else r0).
    set (kk := p - rk t).
    assert (Hkk : kk < n - rk t) by (unfold kk; lia).
    assert (Hrows : forall j, j < n - rk t -> j <> kk -> prow (rows t') (rk t + j) = f (prow (rows t) (rk t + j))).
    { intros j J1 J2. cbn [rows t']. assert (J3 : rk t + j <> p) by (unfold kk in J2; lia).
      rewrite prow_set_phase_other by exact J3. rewrite <- Elf.
      rewrite prow_l2_other; [|exact J3|].
      2:{ destruct (partner_spec n p S3) as [[? E']|[? E']]; fold p in E'; rewrite E'; lia. }
      rewrite (S7 (rk t + j) ltac:(lia)). apply Nat.eqb_neq in J3. rewrite J3. cbn [negb]. rewrite andb_true_r.
      unfold f. rewrite <- anti_acqb. destruct (anti go (rows t) (rk t + j)); [|reflexivity].
      apply mulrow_pmul. lia. }
    assert (Lact : length (active t) = n - rk t) by apply (active_length n t Hok).
    assert (Eact : active t' = upd (map f (active t)) kk (nth kk (active t') (pid 0))).
    { apply (nth_ext _ _ (pid 0) (pid 0)).
      - rewrite length_upd, map_length, (active_length n t' Hok'), Lact. reflexivity.
      - intros j Hj. rewrite (active_length n t' Hok') in Hj. cbn [rk t'] in Hj.
        destruct (Nat.eq_dec j kk) as [J|J].
        + subst j. rewrite nth_upd_eq by (rewrite map_length, Lact; exact Hkk). reflexivity.
        + rewrite nth_upd_neq by auto.
          rewrite (nth_map_lt f (active t) j (pid 0) (pid 0)) by (rewrite Lact; exact Hj).
          rewrite (active_nth n t' j Hok') by (cbn [rk t']; exact Hj).
          rewrite (active_nth n t j Hok Hj). cbn [rk t']. apply Hrows; assumption. }
    assert (Ekk : nth kk (active t) (pid 0) = e).
    { rewrite (active_nth n t kk Hok Hkk). unfold e, kk. f_equal. lia. }
    assert (Ge : in_group n t e) by (apply (in_group_row n t p Hok); assumption).
    assert (We : wf n e) by (destruct (group_hermitian n t e Hok Ge) as [W _]; exact W).
    set (sel' := upd sel kk false).
    assert (Lsel' : length sel' = n - rk t) by (unfold sel'; rewrite length_upd; exact Lsel).
    assert (Hunsel : nth kk sel' false = false).
    { unfold sel'. apply nth_upd_eq. rewrite Lsel. exact Hkk. }
    assert (Gb : in_group n t (rprod n sel' (map f (active t)))).
    { apply (rprod_in_group n t sel' _ Hok). intros x Hx. apply in_map_iff in Hx. destruct Hx as [y [Ey Hy]].
      destruct (active_In n t y Hok Hy) as [j [Hj Ey']].
      assert (Gy : in_group n t y) by (rewrite Ey'; apply (in_group_row n t _ Hok); lia).
      rewrite <- Ey. unfold f. destruct (acqb (fst y) go); [apply in_group_pmul; assumption | exact Gy]. }
    assert (Ap : acqb (fst e) go = true).
    { unfold e. rewrite <- anti_acqb. exact S4. }
    assert (Fb : fst (rprod n sel' (map f (active t))) = fst a).
    { refine (eq_trans (rprod_map_mul_fst n go e sel' (active t) (active_wf n t Hok) We) _).
      unfold sel'. rewrite (rprod_upd_sel_fst n sel (active t) kk (active_wf n t Hok)) by (rewrite Lact; exact Hkk).
      rewrite (acqsel_upd go sel (active t) kk) by (rewrite Lact; exact Hkk).
      rewrite Ekk, Ap, Hsel, Ea. rewrite xorb_false_l, andb_true_r.
      destruct We as [Le _].
      apply (gxor_cancel_r n); [|apply sg_length; exact Le].
      rewrite <- Ea. apply rprod_fst_length. apply (active_wf n t Hok). }
    assert (Eb : rprod n sel' (map f (active t)) = a).
    { apply (group_same_str n t _ a Hok Gb); [|exact Fb].
      apply (in_group_rprod n t a Hok). exists sel. split; assumption. }
    exists sel'. split; [cbn [rk t']; exact Lsel'|].
    rewrite Eact. rewrite (rprod_upd_unsel n sel' _ kk _ Hunsel). exact Eb.
Qed.

Theorem measure1_keeps_commuting : forall n t o coin a, tableau_ok n t -> length (fst o) = n -> hermP o -> (coin = 0 \/ coin = 1)%Z ->
   in_group n t a -> acq (fst a) (fst o) = 0%Z -> in_group n (fst (fst (fst (measure1 t o coin)))) a.
Proof. exact measure1_keeps_commuting_p. Qed.
