(* Proofs/ParseFacts.v -- descriptions, printing and tokens round-trip (pauli(), __repr__, pauli_tokenize). *)
From Coq Require Import ZArith List Bool Lia ZifyBool Arith.
From PC Require Import Gen.Kernels Gen.Tables Model.Base Model.Pauli Model.Ket Model.Spec Model.Parse Proofs.PauliFacts.
Import ListNotations.
Open Scope Z_scope.
Ltac Zify.zify_post_hook ::= Z.to_euclidean_division_equations.

(* ------------------------------------------------------------------ *)
(* finite tables                                                        *)

Theorem tok_phase_table : np_tok_phase 0 = 4 /\ np_tok_phase 1 = 6 /\ np_tok_phase 2 = 5 /\ np_tok_phase 3 = 7.
Proof. repeat split; vm_compute; reflexivity. Qed.

Theorem tok_site_table : np_tok_site 0 0 = 0 /\ np_tok_site 1 0 = 1 /\ np_tok_site 1 1 = 2 /\ np_tok_site 0 1 = 3.
Proof. repeat split; vm_compute; reflexivity. Qed.

Definition site_code (s : site) : Z := np_tok_site (zb (fst s)) (zb (snd s)).
Definition site_letter (s : site) : Z := 1000 + repr_letter (fst s) (snd s).

(* the effect a site token must have *)
Definition eff_of (s : site) : parse_effect :=
  match s with
  | (false, false) => EffSkip
  | (true, false) => EffX
  | (true, true) => EffY
  | (false, true) => EffZ
  end.
Definition site_tk (tk : site -> Z) : Prop :=
  forall s, lookup_effect parse_dispatch (tok_key (tk s)) = Some (eff_of s).

Lemma site_tk_code : site_tk site_code.
Proof. intros [[|] [|]]; vm_compute; reflexivity. Qed.
Lemma site_tk_letter : site_tk site_letter.
Proof. intros [[|] [|]]; vm_compute; reflexivity. Qed.

(* lookups of the non-site tokens that occur *)
Lemma lk_plus  : lookup_effect parse_dispatch (tok_key 1043) = Some (EffSetP 0). Proof. reflexivity. Qed.
Lemma lk_minus : lookup_effect parse_dispatch (tok_key 1045) = Some (EffSetP 2). Proof. reflexivity. Qed.
Lemma lk_i     : lookup_effect parse_dispatch (tok_key 1105) = Some (EffAddP 1). Proof. reflexivity. Qed.
Lemma lk_space : lookup_effect parse_dispatch (tok_key 1032) = None. Proof. reflexivity. Qed.
Lemma lk_4 : lookup_effect parse_dispatch (tok_key 4) = Some (EffSetP 0). Proof. reflexivity. Qed.
Lemma lk_5 : lookup_effect parse_dispatch (tok_key 5) = Some (EffSetP 2). Proof. reflexivity. Qed.
Lemma lk_6 : lookup_effect parse_dispatch (tok_key 6) = Some (EffSetP 1). Proof. reflexivity. Qed.
Lemma lk_7 : lookup_effect parse_dispatch (tok_key 7) = Some (EffSetP 3). Proof. reflexivity. Qed.

Lemma lk_tok_phase : forall p, 0 <= p < 4 ->
  lookup_effect parse_dispatch (tok_key (np_tok_phase p)) = Some (EffSetP p).
Proof.
  intros p Hp.
  assert (E : p = 0 \/ p = 1 \/ p = 2 \/ p = 3) by lia.
  destruct E as [-> | [-> | [-> | ->]]]; reflexivity.
Qed.

Global Opaque parse_dispatch.

(* ------------------------------------------------------------------ *)
(* list helpers                                                         *)

Lemma upd_nth_same : forall A (g : list A) pos d, upd g pos (nth pos g d) = g.
Proof.
  induction g as [|a g IH]; intros [|pos] d; cbn [upd nth]; try reflexivity.
  rewrite IH. reflexivity.
Qed.

Lemma upd_app_mid : forall A (pre : list A) a v post, upd (pre ++ a :: post) (length pre) v = pre ++ v :: post.
Proof.
  induction pre as [|b pre IH]; intros a v post; cbn [app length upd]; [reflexivity|].
  rewrite IH. reflexivity.
Qed.

Lemma firstn_len_app : forall A (g r : list A), firstn (length g) (g ++ r) = g.
Proof.
  intros A g r. rewrite firstn_app, firstn_all, Nat.sub_diag. cbn [firstn]. apply app_nil_r.
Qed.

Lemma id_str_add : forall a b, id_str (a + b) = id_str a ++ id_str b.
Proof. intros a b. unfold id_str. apply repeat_app. Qed.

(* enumerate generalised over the starting index *)
Definition enum_from (i0 : nat) (l : list Z) : list (Z * Z) := combine (map Z.of_nat (seq i0 (length l))) l.

Lemma enumerate_eq : forall l, enumerate l = enum_from 0 l.
Proof. reflexivity. Qed.
Lemma enum_from_nil : forall i0, enum_from i0 [] = [].
Proof. reflexivity. Qed.
Lemma enum_from_cons : forall i0 t l, enum_from i0 (t :: l) = (Z.of_nat i0, t) :: enum_from (S i0) l.
Proof. reflexivity. Qed.
Lemma enum_from_app : forall l1 l2 i0, enum_from i0 (l1 ++ l2) = enum_from i0 l1 ++ enum_from (i0 + length l1) l2.
Proof.
  induction l1 as [|t l1 IH]; intros l2 i0.
  - cbn [app length]. rewrite enum_from_nil, Nat.add_0_r. reflexivity.
  - cbn [app length]. rewrite !enum_from_cons, IH. cbn [app].
    replace (S i0 + length l1)%nat with (i0 + S (length l1))%nat by lia. reflexivity.
Qed.
Arguments enum_from : simpl never.

(* ------------------------------------------------------------------ *)
(* single steps of the loop                                             *)

Lemma step_guard : forall i h n, i - h < Z.of_nat n -> negb (i - h <? Z.of_nat n) = false.
Proof. intros i h n H. apply Z.ltb_lt in H. rewrite H. reflexivity. Qed.

Lemma step_setp : forall n g h p i mu v,
  lookup_effect parse_dispatch (tok_key mu) = Some (EffSetP v) -> i - h < Z.of_nat n ->
  parse_step n (Some (g, h, p)) (i, mu) = Some (g, h + 1, v).
Proof. intros n g h p i mu v Hl Hg. unfold parse_step. rewrite (step_guard _ _ _ Hg), Hl. reflexivity. Qed.

Lemma step_addp : forall n g h p i mu d,
  lookup_effect parse_dispatch (tok_key mu) = Some (EffAddP d) -> i - h < Z.of_nat n ->
  parse_step n (Some (g, h, p)) (i, mu) = Some (g, h + 1, p + d).
Proof. intros n g h p i mu v Hl Hg. unfold parse_step. rewrite (step_guard _ _ _ Hg), Hl. reflexivity. Qed.

Lemma step_none : forall n g h p i mu,
  lookup_effect parse_dispatch (tok_key mu) = None -> i - h < Z.of_nat n ->
  parse_step n (Some (g, h, p)) (i, mu) = Some (g, h + 1, p).
Proof. intros n g h p i mu Hl Hg. unfold parse_step. rewrite (step_guard _ _ _ Hg), Hl. reflexivity. Qed.

Lemma step_site : forall tk, site_tk tk -> forall n g h p i s pos,
  i - h = Z.of_nat pos -> (pos < n)%nat -> nth pos g I_site = I_site ->
  parse_step n (Some (g, h, p)) (i, tk s) = Some (upd g pos s, h, p).
Proof.
  intros tk Htk n g h p i s pos Hi Hpos Hnth.
  assert (Hg : i - h < Z.of_nat n) by lia.
  assert (Hsame : upd g pos I_site = g) by (rewrite <- Hnth at 1; apply upd_nth_same).
  unfold parse_step. rewrite (step_guard _ _ _ Hg), Htk, Hi, Nat2Z.id, Hnth.
  destruct s as [[|] [|]]; cbn [eff_of fst snd I_site]; try reflexivity.
  change (false, false) with I_site. rewrite Hsame. reflexivity.
Qed.

(* ------------------------------------------------------------------ *)
(* loop invariant for a run of site tokens                              *)

Lemma fold_sites : forall tk, site_tk tk -> forall n h p post ss pre i0,
  Z.of_nat i0 - h = Z.of_nat (length pre) -> (length pre + length ss <= n)%nat ->
  fold_left (parse_step n) (enum_from i0 (map tk ss)) (Some (pre ++ id_str (length ss) ++ post, h, p))
  = Some (pre ++ ss ++ post, h, p).
Proof.
  intros tk Htk n h p post.
  induction ss as [|s ss IH]; intros pre i0 Hidx Hlen.
  - reflexivity.
  - cbn [map length] in *. rewrite enum_from_cons. cbn [fold_left].
    rewrite id_str_S. cbn [app].
    rewrite (step_site tk Htk n _ h p (Z.of_nat i0) s (length pre) Hidx); [| lia | apply nth_middle].
    rewrite upd_app_mid.
    change (pre ++ s :: id_str (length ss) ++ post) with (pre ++ [s] ++ id_str (length ss) ++ post).
    rewrite app_assoc.
    rewrite IH.
    + rewrite <- app_assoc. reflexivity.
    + rewrite app_length. cbn [length]. lia.
    + rewrite app_length. cbn [length]. lia.
Qed.

(* ------------------------------------------------------------------ *)
(* a prefix of non-site tokens followed by site tokens                  *)

Definition prefix_runs (pfx : list Z) (p : Z) : Prop :=
  forall n g, (length pfx <= n)%nat ->
    fold_left (parse_step n) (enum_from 0 pfx) (Some (g, 0, 0)) = Some (g, Z.of_nat (length pfx), p).

Lemma parse_with_prefix : forall tk, site_tk tk -> forall pfx p ss,
  prefix_runs pfx p -> parse_tokens (pfx ++ map tk ss) = Some (ss, p).
Proof.
  intros tk Htk pfx p ss Hpfx.
  unfold parse_tokens, parse_items. rewrite enumerate_eq, enum_from_app, fold_left_app.
  rewrite Hpfx by (rewrite app_length; lia).
  rewrite app_length, map_length, (Nat.add_comm (length pfx)), id_str_add.
  change (id_str (length ss) ++ id_str (length pfx)) with ([] ++ id_str (length ss) ++ id_str (length pfx)).
  rewrite (fold_sites tk Htk); cbn [length app]; try lia.
  rewrite Nat2Z.id.
  replace (length ss + length pfx - length pfx)%nat with (length ss) by lia.
  rewrite firstn_len_app. reflexivity.
Qed.

Lemma prefix_runs_nil : prefix_runs [] 0.
Proof. intros n g _. reflexivity. Qed.

Lemma prefix_runs_1 : forall t v, lookup_effect parse_dispatch (tok_key t) = Some (EffSetP v) -> prefix_runs [t] v.
Proof.
  intros t v Hl n g Hn. cbn [length] in Hn.
  rewrite enum_from_cons, enum_from_nil. cbn [fold_left].
  rewrite (step_setp _ _ _ _ _ _ _ Hl) by lia. reflexivity.
Qed.

Lemma prefix_runs_i : prefix_runs [1105] 1.
Proof.
  intros n g Hn. cbn [length] in Hn.
  rewrite enum_from_cons, enum_from_nil. cbn [fold_left].
  rewrite (step_addp _ _ _ _ _ _ _ lk_i) by lia. reflexivity.
Qed.

Lemma prefix_runs_set_i : forall t v, lookup_effect parse_dispatch (tok_key t) = Some (EffSetP v) ->
  prefix_runs [t; 1105] (v + 1).
Proof.
  intros t v Hl n g Hn. cbn [length] in Hn.
  rewrite !enum_from_cons, enum_from_nil. cbn [fold_left].
  rewrite (step_setp _ _ _ _ _ _ _ Hl) by lia.
  rewrite (step_addp _ _ _ _ _ _ _ lk_i) by lia. reflexivity.
Qed.

Lemma prefix_runs_space_set : forall t v, lookup_effect parse_dispatch (tok_key t) = Some (EffSetP v) ->
  prefix_runs [1032; t] v.
Proof.
  intros t v Hl n g Hn. cbn [length] in Hn.
  rewrite !enum_from_cons, enum_from_nil. cbn [fold_left].
  rewrite (step_none _ _ _ _ _ _ lk_space) by lia.
  rewrite (step_setp _ _ _ _ _ _ _ Hl) by lia. reflexivity.
Qed.

(* ------------------------------------------------------------------ *)
(* the requested theorems                                               *)

Theorem parse_codes : forall g, parse_tokens (map site_code g) = Some (g, 0).
Proof. intros g. exact (parse_with_prefix site_code site_tk_code [] 0 g prefix_runs_nil). Qed.

Theorem parse_letters : forall g, parse_tokens (map (fun s => 1000 + repr_letter (fst s) (snd s)) g) = Some (g, 0).
Proof. intros g. exact (parse_with_prefix site_letter site_tk_letter [] 0 g prefix_runs_nil). Qed.

Theorem parse_dict_full : forall g, parse_dict (length g) (enumerate (map site_code g)) = Some (g, 0).
Proof.
  intros g. rewrite <- (parse_codes g). unfold parse_dict, parse_tokens. rewrite map_length. reflexivity.
Qed.

Theorem parse_prefixes : forall g,
  let L := map (fun s => 1000 + repr_letter (fst s) (snd s)) g in
  parse_tokens (1043 :: L) = Some (g, 0) /\ parse_tokens (1045 :: L) = Some (g, 2) /\ parse_tokens (1105 :: L) = Some (g, 1) /\
  parse_tokens (1045 :: 1105 :: L) = Some (g, 3) /\ parse_tokens (1043 :: 1105 :: L) = Some (g, 1).
Proof.
  intros g L. subst L. repeat split.
  - exact (parse_with_prefix site_letter site_tk_letter [1043] 0 g (prefix_runs_1 _ _ lk_plus)).
  - exact (parse_with_prefix site_letter site_tk_letter [1045] 2 g (prefix_runs_1 _ _ lk_minus)).
  - exact (parse_with_prefix site_letter site_tk_letter [1105] 1 g prefix_runs_i).
  - exact (parse_with_prefix site_letter site_tk_letter [1045; 1105] 3 g (prefix_runs_set_i _ _ lk_minus)).
  - exact (parse_with_prefix site_letter site_tk_letter [1043; 1105] 1 g (prefix_runs_set_i _ _ lk_plus)).
Qed.

(* printing then parsing: holds for every N (including N = 0) *)
Theorem parse_repr_any : forall a, 0 <= snd a < 4 -> parse_tokens (repr_tokens a) = Some a.
Proof.
  intros [g p] Hp. cbn [snd] in Hp.
  unfold repr_tokens, repr_pauli. cbn [fst snd]. rewrite map_app, map_map.
  change (map (fun x : site => 1000 + repr_letter (fst x) (snd x)) g) with (map site_letter g).
  assert (E : p = 0 \/ p = 1 \/ p = 2 \/ p = 3) by lia.
  destruct E as [-> | [-> | [-> | ->]]].
  - exact (parse_with_prefix site_letter site_tk_letter [1032; 1043] 0 g (prefix_runs_space_set _ _ lk_plus)).
  - exact (parse_with_prefix site_letter site_tk_letter [1043; 1105] 1 g (prefix_runs_set_i _ _ lk_plus)).
  - exact (parse_with_prefix site_letter site_tk_letter [1032; 1045] 2 g (prefix_runs_space_set _ _ lk_minus)).
  - exact (parse_with_prefix site_letter site_tk_letter [1045; 1105] 3 g (prefix_runs_set_i _ _ lk_minus)).
Qed.

Theorem parse_repr : forall a, (1 <= length (fst a))%nat -> 0 <= snd a < 4 -> parse_tokens (repr_tokens a) = Some a.
Proof. intros a _ Hp. apply parse_repr_any, Hp. Qed.

(* tokenizing then parsing *)
Theorem parse_tokenize : forall a, 0 <= snd a < 4 -> parse_tokens (tokenize a) = Some a.
Proof.
  intros [g p] Hp. cbn [snd] in Hp.
  unfold tokenize. cbn [fst snd].
  change (map (fun s : site => np_tok_site (zb (fst s)) (zb (snd s))) g) with (map site_code g).
  unfold parse_tokens, parse_items. rewrite enumerate_eq, enum_from_app, fold_left_app.
  rewrite app_length, map_length. cbn [length].
  change (@length (bool * bool)%type g) with (@length site g).
  rewrite id_str_add.
  change (id_str (length g) ++ id_str 1) with ([] ++ id_str (length g) ++ id_str 1).
  rewrite (fold_sites site_code site_tk_code); cbn [length app]; try lia.
  rewrite enum_from_cons, enum_from_nil. cbn [fold_left].
  rewrite (step_setp _ _ _ _ _ _ _ (lk_tok_phase p Hp)) by lia.
  replace (length g + 1 - Z.to_nat (0 + 1))%nat with (length g) by lia.
  rewrite firstn_len_app. reflexivity.
Qed.
