(* Proofs/RandomCliffordFacts.v -- random_clifford_from returns a symplectic matrix for every accepted
   draw sequence, for every N; the first two rows are the drawn pair. *)
From Coq Require Import ZArith List Bool Lia ZifyBool Arith.
From PC Require Import Gen.Kernels Model.Base Model.Pauli Model.Ket Model.Spec Proofs.PauliFacts.
From PC Require Import Model.CMap Model.Diag Model.Random Proofs.DiagFacts.
Import ListNotations.
Open Scope Z_scope.
Ltac Zify.zify_post_hook ::= Z.to_euclidean_division_equations.

(* ------------------------------------------------------------------ the rotation is an involution *)
Lemma rotate1_signless_involutive : forall g a, length g = length a ->
  rotate1_signless g (rotate1_signless g a) = a.
Proof.
  intros g a HL. rewrite (rot_eq g a). destruct (acqb g a) eqn:E.
  - rewrite rot_eq. rewrite acqb_xor_r by (symmetry; exact HL). rewrite E, acqb_self. cbn [xorb].
    rewrite gxor_assoc, gxor_self, HL. apply gxor_id_r.
  - rewrite rot_eq, E. reflexivity.
Qed.

Lemma apply_gens_cons : forall g gens a, apply_gens (g :: gens) a = apply_gens gens (rotate1_signless g a).
Proof. reflexivity. Qed.

Lemma apply_gens_rev_inv : forall gens a, Forall (fun x : pstr => length x = length a) gens ->
  apply_gens (rev gens) (apply_gens gens a) = a.
Proof.
  induction gens as [|g gens IH]; intros a HF; [reflexivity|].
  inversion_clear HF as [|? ? Hg HF'].
  rewrite apply_gens_cons. cbn [rev]. rewrite apply_gens_app.
  rewrite IH.
  - unfold apply_gens. cbn [fold_left]. apply rotate1_signless_involutive. exact Hg.
  - rewrite rot_length by exact Hg. exact HF'.
Qed.

(* the undo loop of random_clifford_ is a map *)
Lemma fold_rot_map : forall gens (rows : list pstr),
  fold_left (fun rows g => map (rotate1_signless g) rows) gens rows = map (apply_gens gens) rows.
Proof.
  induction gens as [|g gens IH]; intros rows; cbn [fold_left].
  - unfold apply_gens. cbn [fold_left]. symmetry. apply map_id.
  - rewrite IH, map_map. apply map_ext. intros a. reflexivity.
Qed.

Lemma nth_map_nil : forall (f : pstr -> pstr) (rows : list pstr) i, (i < length rows)%nat ->
  nth i (map f rows) [] = f (nth i rows []).
Proof.
  intros f rows i Hi. rewrite (nth_indep (map f rows) [] (f [])) by (rewrite map_length; exact Hi).
  apply map_nth.
Qed.

(* ------------------------------------------------------------------ diagonalize2 with projections *)
Lemma diag2_gens_length : forall g1 g2 i0, (i0 < length g1)%nat -> length g2 = length g1 ->
  Forall (fun x : pstr => length x = length g1) (fst (fst (diagonalize2 g1 g2 i0))).
Proof.
  intros g1 g2 i0 Hi HL. pose proof (diag1_length g1 i0 Hi) as HF. unfold diagonalize1 in HF.
  unfold diagonalize2. destruct (diag_stage1 g1 i0) as [gs1 g1'] eqn:E. cbn [fst] in HF.
  change (fold_left (fun acc g => follow g acc) gs1 g2) with (apply_gens gs1 g2).
  assert (HF2 : Forall (fun x : pstr => length x = length g2) gs1) by (rewrite HL; exact HF).
  pose proof (apply_gens_length gs1 g2 HF2) as HL2.
  destruct (negb (is_onsite (apply_gens gs1 g2) i0)); cbn [fst]; [|exact HF].
  apply Forall_app. split; [exact HF|]. constructor; [|constructor].
  rewrite upd_length, HL2. exact HL.
Qed.

Lemma diag2_proj : forall g1 g2, (0 < length g1)%nat -> length g2 = length g1 -> acq g1 g2 = 1 ->
  apply_gens (fst (fst (diagonalize2 g1 g2 0))) g1 = snd (fst (diagonalize2 g1 g2 0)) /\
  apply_gens (fst (fst (diagonalize2 g1 g2 0))) g2 = snd (diagonalize2 g1 g2 0) /\
  snd (fst (diagonalize2 g1 g2 0)) = z_at (length g1) 0 /\
  is_onsite (snd (diagonalize2 g1 g2 0)) 0 = true /\
  fst (sget (snd (diagonalize2 g1 g2 0)) 0) = true.
Proof.
  intros g1 g2 Hi HL HA. pose proof (diag2_spec g1 g2 0%nat Hi HL HA) as H.
  destruct (diagonalize2 g1 g2 0) as [[gens g1'] g2']. cbn [fst snd]. exact H.
Qed.

Lemma random_clifford_SS : forall m g1 g2 rest,
  random_clifford_from (S (S m)) ((g1, g2) :: rest) =
  map (apply_gens (rev (fst (fst (diagonalize2 g1 g2 0)))))
      (snd (fst (diagonalize2 g1 g2 0)) :: snd (diagonalize2 g1 g2 0) ::
       map (fun r => I_site :: r) (random_clifford_from (S m) rest)).
Proof.
  intros. cbn [random_clifford_from].
  destruct (diagonalize2 g1 g2 0) as [[gens g1'] g2']. cbn [fst snd]. apply fold_rot_map.
Qed.

Lemma random_clifford_1 : forall g1 g2 rest, random_clifford_from 1 ((g1, g2) :: rest) = [g1; g2].
Proof. reflexivity. Qed.

(* ------------------------------------------------------------------ expected_acq index arithmetic *)
Lemma div2_SS : forall i, (S (S i) / 2 = S (i / 2))%nat.
Proof.
  intros i. replace (S (S i)) with (i + 1 * 2)%nat by lia. rewrite Nat.div_add by lia. lia.
Qed.

Lemma expected_acq_SS : forall i j, expected_acq (S (S i)) (S (S j)) = expected_acq i j.
Proof.
  intros i j. unfold expected_acq. rewrite !div2_SS.
  destruct (Nat.eqb_spec (S (i / 2)) (S (j / 2))), (Nat.eqb_spec (i / 2) (j / 2)),
    (Nat.eqb_spec (S (S i)) (S (S j))), (Nat.eqb_spec i j); cbn [andb negb]; try reflexivity; exfalso; lia.
Qed.
Lemma expected_acq_SS_0 : forall i, expected_acq (S (S i)) 0 = 0.
Proof. intros i. unfold expected_acq. rewrite div2_SS. reflexivity. Qed.
Lemma expected_acq_SS_1 : forall i, expected_acq (S (S i)) 1 = 0.
Proof. intros i. unfold expected_acq. rewrite div2_SS. reflexivity. Qed.
Lemma expected_acq_0_SS : forall i, expected_acq 0 (S (S i)) = 0.
Proof. intros i. unfold expected_acq. rewrite div2_SS. reflexivity. Qed.
Lemma expected_acq_1_SS : forall i, expected_acq 1 (S (S i)) = 0.
Proof. intros i. unfold expected_acq. rewrite div2_SS. reflexivity. Qed.

(* ------------------------------------------------------------------ symplectic row lists *)
(* 2k rows of width w with the canonical relations *)
Definition sym_rows (w k : nat) (rows : list pstr) : Prop :=
  length rows = (2 * k)%nat /\ Forall (fun r : pstr => length r = w) rows /\
  forall i j, (i < 2 * k)%nat -> (j < 2 * k)%nat -> acq (nth i rows []) (nth j rows []) = expected_acq i j.

Lemma sym_rows_nil : forall w, sym_rows w 0 [].
Proof. intros w. split; [reflexivity|]. split; [constructor|]. intros i j Hi. lia. Qed.

Lemma sym_rows_cons2 : forall w k (a b : pstr) (rest : list pstr), sym_rows w k rest ->
  length a = w -> length b = w -> acqb a b = true ->
  Forall (fun r : pstr => acqb a r = false /\ acqb b r = false) rest ->
  sym_rows w (S k) (a :: b :: rest).
Proof.
  intros w k a b rest [HL [HF HS]] Ha Hb Hab HC.
  split; [cbn [length]; rewrite HL; lia|]. split; [constructor; [exact Ha|constructor; [exact Hb|exact HF]]|].
  assert (HN : forall i, (i < 2 * k)%nat -> acqb a (nth i rest []) = false /\ acqb b (nth i rest []) = false).
  { intros i Hi. rewrite Forall_forall in HC. apply HC. apply nth_In. rewrite HL. exact Hi. }
  intros i j Hi Hj.
  destruct i as [|[|i]], j as [|[|j]]; cbn [nth].
  - rewrite acq_acqb, acqb_self. reflexivity.
  - rewrite acq_acqb, Hab. reflexivity.
  - rewrite expected_acq_0_SS, acq_acqb. destruct (HN j ltac:(lia)) as [H1 _]. rewrite H1. reflexivity.
  - rewrite acq_acqb, acqb_sym, Hab. reflexivity.
  - rewrite acq_acqb, acqb_self. reflexivity.
  - rewrite expected_acq_1_SS, acq_acqb. destruct (HN j ltac:(lia)) as [_ H1]. rewrite H1. reflexivity.
  - rewrite expected_acq_SS_0, acq_acqb, acqb_sym. destruct (HN i ltac:(lia)) as [H1 _]. rewrite H1. reflexivity.
  - rewrite expected_acq_SS_1, acq_acqb, acqb_sym. destruct (HN i ltac:(lia)) as [_ H1]. rewrite H1. reflexivity.
  - rewrite expected_acq_SS. apply HS; lia.
Qed.

Lemma sym_rows_pad : forall w k rows, sym_rows w k rows ->
  sym_rows (S w) k (map (fun r : pstr => I_site :: r) rows).
Proof.
  intros w k rows [HL [HF HS]].
  split; [rewrite map_length; exact HL|]. split.
  - rewrite Forall_forall in *. intros r Hr. apply in_map_iff in Hr. destruct Hr as [r0 [E Hr0]].
    subst r. cbn [length]. f_equal. apply HF. exact Hr0.
  - intros i j Hi Hj. rewrite !nth_map_nil by (rewrite HL; assumption).
    rewrite acq_acqb. cbn [acqb]. rewrite acqb_site_I_l, xorb_false_l.
    rewrite <- acq_acqb. apply HS; assumption.
Qed.

Lemma sym_rows_gens : forall w k rows gens, sym_rows w k rows ->
  Forall (fun x : pstr => length x = w) gens -> sym_rows w k (map (apply_gens gens) rows).
Proof.
  intros w k rows gens [HL [HF HS]] HG.
  assert (HR : forall i, (i < 2 * k)%nat -> length (nth i rows []) = w).
  { intros i Hi. rewrite Forall_forall in HF. apply HF. apply nth_In. rewrite HL. exact Hi. }
  split; [rewrite map_length; exact HL|]. split.
  - rewrite Forall_forall in *. intros r Hr. apply in_map_iff in Hr. destruct Hr as [r0 [E Hr0]].
    subst r. rewrite apply_gens_length; [apply HF; exact Hr0|].
    rewrite Forall_forall. intros x Hx. rewrite (HG x Hx). symmetry. apply HF. exact Hr0.
  - intros i j Hi Hj. rewrite !nth_map_nil by (rewrite HL; assumption).
    rewrite acq_acqb. rewrite apply_gens_acqb.
    + rewrite <- acq_acqb. apply HS; assumption.
    + rewrite !HR by assumption. reflexivity.
    + rewrite HR by assumption. exact HG.
Qed.

(* ------------------------------------------------------------------ strings trivial away from site 0 *)
Lemma acqb_all_trivial_l : forall (t r : pstr), (forall j, nontrivial (sget t j) = false) -> acqb t r = false.
Proof.
  induction t as [|s t IH]; intros [|x r] H; try reflexivity.
  cbn [acqb]. rewrite IH.
  - pose proof (H 0%nat) as H0. rewrite sget_cons_0 in H0. rewrite (nontrivial_false s H0), acqb_site_I_l. reflexivity.
  - intros j. specialize (H (S j)). rewrite sget_cons_S in H. exact H.
Qed.

Lemma onsite0_pad_commute : forall (g r : pstr), is_onsite g 0 = true -> acqb g (I_site :: r) = false.
Proof.
  intros [|s t] r H; [reflexivity|]. cbn [acqb]. rewrite acqb_site_I_r, xorb_false_l.
  apply acqb_all_trivial_l. intros j. rewrite is_onsite_spec in H.
  specialize (H (S j) ltac:(lia)). rewrite sget_cons_S in H. exact H.
Qed.

Lemma z_at_0_pad_commute : forall n (r : pstr), acqb (z_at (S n) 0) (I_site :: r) = false.
Proof.
  intros n r. unfold z_at. rewrite id_str_S. cbn [upd acqb].
  rewrite acqb_site_I_r, acqb_id_l. reflexivity.
Qed.

(* ------------------------------------------------------------------ the requested theorems *)
Definition pair_ok (k : nat) (p : pstr * pstr) : Prop := length (fst p) = k /\ length (snd p) = k /\ acq (fst p) (snd p) = 1.
(* pairs as delivered by random_pair: the j-th pair on n - j qubits, anticommuting *)
Fixpoint pairs_ok (n : nat) (pairs : list (pstr * pstr)) : Prop :=
  match n, pairs with
  | O, _ => True
  | S m, p :: rest => pair_ok (S m) p /\ pairs_ok m rest
  | S _, [] => False
  end.

Lemma acq_1_acqb : forall a b, acq a b = 1 -> acqb a b = true.
Proof. intros a b H. rewrite acq_acqb in H. destruct (acqb a b); [reflexivity|discriminate H]. Qed.

Lemma random_clifford_sym : forall m pairs, pairs_ok (S m) pairs ->
  sym_rows (S m) (S m) (random_clifford_from (S m) pairs).
Proof.
  induction m as [|m IH]; intros [|[g1 g2] rest] H; try (exfalso; exact H).
  - destruct H as [[H1 [H2 HA]] _]. cbn [fst snd] in *. rewrite random_clifford_1.
    apply sym_rows_cons2; [apply sym_rows_nil|exact H1|exact H2|apply acq_1_acqb; exact HA|constructor].
  - destruct H as [[H1 [H2 HA]] Hrest]. cbn [fst snd] in *.
    assert (Hi : (0 < length g1)%nat) by (rewrite H1; lia).
    assert (HL : length g2 = length g1) by (rewrite H1, H2; reflexivity).
    pose proof (diag2_gens_length g1 g2 0%nat Hi HL) as HG.
    destruct (diag2_proj g1 g2 Hi HL HA) as [D1 [D2 [D3 [D4 D5]]]].
    rewrite random_clifford_SS. rewrite H1 in HG, D3.
    assert (L2 : length (snd (diagonalize2 g1 g2 0)) = S (S m)).
    { rewrite <- D2. rewrite apply_gens_length; [exact H2|]. rewrite H2. exact HG. }
    apply sym_rows_gens; [|apply Forall_rev; exact HG].
    apply sym_rows_cons2.
    + apply sym_rows_pad. apply IH. exact Hrest.
    + rewrite D3. apply z_at_length.
    + exact L2.
    + rewrite D3. rewrite acqb_z_at; [exact D5|lia|exact L2].
    + rewrite Forall_forall. intros r Hr. apply in_map_iff in Hr. destruct Hr as [r0 [E _]]. subst r.
      split; [rewrite D3; apply z_at_0_pad_commute|apply onsite0_pad_commute; exact D4].
Qed.

Theorem random_clifford_shape : forall n pairs, (1 <= n)%nat -> pairs_ok n pairs ->
   length (random_clifford_from n pairs) = (2 * n)%nat /\ Forall (fun r => length r = n) (random_clifford_from n pairs).
Proof.
  intros [|m] pairs Hn H; [lia|]. destruct (random_clifford_sym m pairs H) as [HL [HF _]].
  split; [exact HL|exact HF].
Qed.

Theorem random_clifford_symplectic : forall n pairs i j, (1 <= n)%nat -> pairs_ok n pairs -> (i < 2 * n)%nat -> (j < 2 * n)%nat ->
   acq (nth i (random_clifford_from n pairs) []) (nth j (random_clifford_from n pairs) []) = expected_acq i j.
Proof.
  intros [|m] pairs i j Hn H Hi Hj; [lia|]. destruct (random_clifford_sym m pairs H) as [_ [_ HS]].
  apply HS; assumption.
Qed.

Theorem random_clifford_symplectic_b : forall n pairs, (1 <= n)%nat -> pairs_ok n pairs -> symplectic_b (random_clifford_from n pairs) = true.
Proof.
  intros n pairs Hn H. unfold symplectic_b.
  destruct (random_clifford_shape n pairs Hn H) as [HL _]. rewrite HL.
  apply forallb_forall. intros i Hi. apply forallb_forall. intros j Hj.
  apply in_seq in Hi. apply in_seq in Hj. apply Z.eqb_eq.
  apply random_clifford_symplectic; [exact Hn|exact H|lia|lia].
Qed.

(* the first two rows are the drawn pair itself: the undo rotations restore it *)
Theorem random_clifford_first_pair : forall n g1 g2 rest, (1 <= n)%nat -> pairs_ok n ((g1, g2) :: rest) ->
   nth 0 (random_clifford_from n ((g1, g2) :: rest)) [] = g1 /\ nth 1 (random_clifford_from n ((g1, g2) :: rest)) [] = g2.
Proof.
  intros [|[|m]] g1 g2 rest Hn H; [lia| |].
  - rewrite random_clifford_1. split; reflexivity.
  - destruct H as [[H1 [H2 HA]] Hrest]. cbn [fst snd] in *.
    assert (Hi : (0 < length g1)%nat) by (rewrite H1; lia).
    assert (HL : length g2 = length g1) by (rewrite H1, H2; reflexivity).
    pose proof (diag2_gens_length g1 g2 0%nat Hi HL) as HG.
    destruct (diag2_proj g1 g2 Hi HL HA) as [D1 [D2 _]].
    rewrite random_clifford_SS. cbn [map nth]. rewrite <- D1, <- D2.
    split; apply apply_gens_rev_inv; [exact HG|rewrite HL; exact HG].
Qed.
