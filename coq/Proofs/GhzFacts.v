(* Proofs/GhzFacts.v -- ghz_state(N) for EVERY N: the stabilizers Z_i Z_{i+1} (i < N-1) and X...X commute, are independent,
   and stabilizer_state / stabilizer_state_c installs exactly them as the N active rows of a pure (r = 0) tableau;
   hence the GHZ correlations <Z_i Z_{i+1}> = <X...X> = 1. *)
From Coq Require Import ZArith List Bool Lia ZifyBool Arith.
From PC Require Import Gen.Kernels Model.Base Model.Pauli Model.Ket Model.CMap Model.Tableau Model.Spec
  Proofs.PauliFacts Proofs.Transform Proofs.TableauInv Proofs.ReachFacts Proofs.MeasureFacts Proofs.ProjectCFacts.
Import ListNotations.
Open Scope Z_scope.

(* ------------------------------------------------------------------ definitions (names fixed) *)
Definition zz_str (n i : nat) : pstr := map (fun j => (false, Nat.eqb j i || Nat.eqb j (S i))) (seq 0 n).     (* Z on qubits i and i+1 *)
Definition xall_str (n : nat) : pstr := repeat (true, false) n.
Definition ghz_stabs (n : nat) : plist := map (fun i => (zz_str n i, 0)) (seq 0 (n - 1)) ++ [(xall_str n, 0)].

Local Open Scope nat_scope.

Ltac bsolve :=
  repeat match goal with
  | |- context [Nat.eqb ?x ?y] => destruct (Nat.eqb_spec x y)
  | |- context [Nat.leb ?x ?y] => destruct (Nat.leb_spec x y)
  | |- context [Nat.ltb ?x ?y] => destruct (Nat.ltb_spec x y)
  end; cbn [andb orb xorb negb]; try reflexivity; try (exfalso; lia).

(* ------------------------------------------------------------------ shapes *)
Lemma zz_str_length : forall n i, length (zz_str n i) = n.
Proof. intros n i. unfold zz_str. rewrite map_length, seq_length. reflexivity. Qed.

Lemma xall_str_length : forall n, length (xall_str n) = n.
Proof. intros n. apply repeat_length. Qed.

Definition zzrows (n a m : nat) : plist := map (fun i => (zz_str n i, 0%Z)) (seq a m).

Lemma ghz_stabs_zzrows : forall n, ghz_stabs n = zzrows n 0 (n - 1) ++ [(xall_str n, 0%Z)].
Proof. reflexivity. Qed.

Lemma zzrows_length : forall n a m, length (zzrows n a m) = m.
Proof. intros n a m. unfold zzrows. rewrite map_length, seq_length. reflexivity. Qed.

Lemma ghz_stabs_length : forall n, 1 <= n -> @length pauli (ghz_stabs n) = n.
Proof. intros n Hn. rewrite ghz_stabs_zzrows, app_length, zzrows_length. cbn [length]. lia. Qed.

Lemma zzrows_wf : forall n a m, Forall (wf n) (zzrows n a m).
Proof.
  intros n a m. apply Forall_forall. intros r Hr. unfold zzrows in Hr. apply in_map_iff in Hr.
  destruct Hr as [i [<- _]]. split; cbn [fst snd]; [apply zz_str_length | lia].
Qed.

Lemma ghz_stabs_herm : forall n, Forall (fun a : pauli => length (fst a) = n /\ hermP a) (ghz_stabs n).
Proof.
  intros n. apply Forall_forall. intros r Hr. rewrite ghz_stabs_zzrows in Hr. apply in_app_iff in Hr.
  destruct Hr as [Hr|[<-|[]]].
  - unfold zzrows in Hr. apply in_map_iff in Hr. destruct Hr as [i [<- _]]. cbn [fst]. split; [apply zz_str_length | left; reflexivity].
  - cbn [fst]. split; [apply xall_str_length | left; reflexivity].
Qed.

Lemma ghz_In : forall n g, In g (map (@fst pstr Z) (ghz_stabs n)) -> (exists i, S i < n /\ g = zz_str n i) \/ g = xall_str n.
Proof.
  intros n g Hg. apply in_map_iff in Hg. destruct Hg as [r [<- Hr]]. rewrite ghz_stabs_zzrows in Hr.
  apply in_app_iff in Hr. destruct Hr as [Hr|[<-|[]]].
  - left. unfold zzrows in Hr. apply in_map_iff in Hr. destruct Hr as [i [<- Hi]]. apply in_seq in Hi.
    exists i. split; [lia | reflexivity].
  - right. reflexivity.
Qed.

(* ------------------------------------------------------------------ commutation *)
Definition ztype (g : pstr) : Prop := Forall (fun s : site => fst s = false) g.

Lemma ztype_zz : forall n i, ztype (zz_str n i).
Proof.
  intros n i. apply Forall_forall. intros s Hs. unfold zz_str in Hs. apply in_map_iff in Hs.
  destruct Hs as [j [<- _]]. reflexivity.
Qed.

Lemma acqb_ztype : forall a b, ztype a -> ztype b -> acqb a b = false.
Proof.
  induction a as [|x a IH]; intros [|y b] Ha Hb; cbn [acqb]; try reflexivity.
  inversion_clear Ha as [|? ? Hx Ha']. inversion_clear Hb as [|? ? Hy Hb'].
  rewrite (IH b Ha' Hb'). unfold acqb_site. rewrite Hx, Hy. rewrite !andb_false_r. reflexivity.
Qed.

(* a Z-type string against X...X: parity of the number of Z's; for Z_i Z_{i+1} restricted to the window [a, a+m) *)
Lemma acqb_zz_window : forall i m a,
  acqb (map (fun j => (false, Nat.eqb j i || Nat.eqb j (S i))) (seq a m)) (repeat (true, false) m)
  = xorb ((a <=? i) && (i <? a + m)) ((a <=? S i) && (S i <? a + m)).
Proof.
  intros i. induction m as [|m IH]; intros a.
  - cbn [seq map repeat acqb]. bsolve.
  - cbn [seq map repeat acqb]. rewrite IH. unfold acqb_site. cbn [fst snd]. bsolve.
Qed.

Lemma acqb_zz_xall : forall n i, S i < n -> acqb (zz_str n i) (xall_str n) = false.
Proof.
  intros n i Hi. unfold zz_str, xall_str. rewrite acqb_zz_window. bsolve.
Qed.

Theorem ghz_commute : forall n, all_commute (map fst (ghz_stabs n)) = true.
Proof.
  intros n. unfold all_commute. apply forallb_forall. intros a Ha. apply forallb_forall. intros b Hb.
  apply Z.eqb_eq. rewrite acq_acqb.
  assert (E : acqb a b = false); [|rewrite E; reflexivity].
  apply ghz_In in Ha. apply ghz_In in Hb.
  destruct Ha as [[i [Hi ->]]| ->]; destruct Hb as [[k [Hk ->]]| ->].
  - apply acqb_ztype; apply ztype_zz.
  - apply acqb_zz_xall; exact Hi.
  - rewrite acqb_sym. apply acqb_zz_xall; exact Hk.
  - apply acqb_self.
Qed.

(* ------------------------------------------------------------------ independence *)
Lemma nth_id_str : forall n j, nth j (id_str n) I_site = I_site.
Proof.
  induction n as [|n IH]; intros [|j]; rewrite ?id_str_S, ?id_str_0; cbn [nth]; try reflexivity. apply IH.
Qed.

Lemma nth_gxor : forall a b j, length a = length b ->
  nth j (gxor a b) I_site = xor_site (nth j a I_site) (nth j b I_site).
Proof.
  induction a as [|x a IH]; intros [|y b] j H; try discriminate H.
  - destruct j; reflexivity.
  - cbn [gxor]. destruct j as [|j]; cbn [nth]; [reflexivity|]. apply IH. cbn [length] in H. lia.
Qed.

Lemma nth_zz : forall n i j, nth j (zz_str n i) I_site = (false, (j <? n) && ((j =? i) || (j =? S i))).
Proof.
  intros n i j. unfold zz_str. destruct (Nat.ltb_spec j n) as [L|G].
  - rewrite nth_map_seq by exact L. reflexivity.
  - rewrite nth_overflow by (rewrite map_length, seq_length; exact G). reflexivity.
Qed.

Lemma rprod_nil_rows : forall n sel, rprod n sel [] = pid n.
Proof. intros n [|b sel]; reflexivity. Qed.

Lemma zzrows_S : forall n a m, zzrows n a (S m) = (zz_str n a, 0%Z) :: zzrows n (S a) m.
Proof. reflexivity. Qed.

Lemma rprod_zz_len : forall n sel a m, length (fst (rprod n sel (zzrows n a m))) = n.
Proof. intros n sel a m. apply (wf_rprod n sel _ (zzrows_wf n a m)). Qed.

(* a product of ZZ rows has no X component ... *)
Lemma zcomb_x : forall n sel a m j, fst (nth j (fst (rprod n sel (zzrows n a m))) I_site) = false.
Proof.
  intros n. induction sel as [|b sel IH]; intros a m j.
  - cbn [rprod pid fst]. rewrite nth_id_str. reflexivity.
  - destruct m as [|m]; [unfold zzrows; cbn [seq map]; rewrite rprod_nil_rows; cbn [pid fst]; rewrite nth_id_str; reflexivity|].
    rewrite zzrows_S. cbn [rprod]. destruct b; [|apply IH].
    rewrite pmul_fst. cbn [fst]. rewrite nth_gxor by (rewrite zz_str_length, rprod_zz_len; reflexivity).
    rewrite xor_site_spec. cbn [fst]. rewrite IH, nth_zz. reflexivity.
Qed.

(* ... and is the identity on every qubit below the first row's index *)
Lemma zcomb_low : forall n sel a m j, j < a -> nth j (fst (rprod n sel (zzrows n a m))) I_site = I_site.
Proof.
  intros n. induction sel as [|b sel IH]; intros a m j Hj.
  - cbn [rprod pid fst]. apply nth_id_str.
  - destruct m as [|m]; [unfold zzrows; cbn [seq map]; rewrite rprod_nil_rows; cbn [pid fst]; apply nth_id_str|].
    rewrite zzrows_S. cbn [rprod]. destruct b; [|apply IH; lia].
    rewrite pmul_fst. cbn [fst]. rewrite nth_gxor by (rewrite zz_str_length, rprod_zz_len; reflexivity).
    rewrite IH by lia. rewrite nth_zz.
    replace ((j <? n) && ((j =? a) || (j =? S a))) with false by bsolve. reflexivity.
Qed.

Lemma zz_indep_aux : forall n sel a m, length sel = m -> a + m < n ->
  (forall j, a <= j < a + m -> nth j (fst (rprod n sel (zzrows n a m))) I_site = I_site) ->
  sel = repeat false m.
Proof.
  intros n. induction sel as [|b sel IH]; intros a m HL Hn H.
  - cbn [length] in HL. subst m. reflexivity.
  - destruct m as [|m]; [discriminate HL|]. cbn [length] in HL. injection HL as HL.
    rewrite zzrows_S in H. cbn [rprod] in H. destruct b.
    + exfalso. specialize (H a ltac:(lia)). rewrite pmul_fst in H. cbn [fst] in H.
      rewrite nth_gxor in H by (rewrite zz_str_length, rprod_zz_len; reflexivity).
      rewrite zcomb_low in H by lia. rewrite nth_zz in H. rewrite xor_site_I_r in H.
      replace ((a <? n) && ((a =? a) || (a =? S a))) with true in H by bsolve. discriminate H.
    + cbn [repeat]. f_equal. apply (IH (S a) m HL); [lia|]. intros j Hj. apply H. lia.
Qed.

Lemma combine_app_eq : forall A B (l1 : list A) (r1 : list B) l2 r2, length l1 = length r1 ->
  combine (l1 ++ l2) (r1 ++ r2) = combine l1 r1 ++ combine l2 r2.
Proof.
  induction l1 as [|x l1 IH]; intros [|y r1] l2 r2 H; try discriminate H; [reflexivity|].
  cbn [app combine]. f_equal. apply IH. cbn [length] in H. lia.
Qed.

Lemma combine_row_snoc : forall n sel b (rs : plist) r, length sel = length rs ->
  combine_row n (sel ++ [b]) (rs ++ [r]) = combine_step (combine_row n sel rs) (b, r).
Proof.
  intros n sel b rs r H. unfold combine_row. rewrite combine_app_eq by exact H.
  rewrite fold_left_app. reflexivity.
Qed.

Lemma repeat_snoc : forall A (x : A) n, repeat x n ++ [x] = repeat x (S n).
Proof. intros A x. induction n as [|n IH]; [reflexivity|]. cbn [repeat app]. f_equal. exact IH. Qed.

Theorem ghz_independent : forall n sel, (1 <= n)%nat -> length sel = length (ghz_stabs n) -> fst (combine_row n sel (ghz_stabs n)) = id_str n -> sel = repeat false (length (ghz_stabs n)).
Proof.
  intros n sel Hn HL H.
  change (length sel = @length pauli (ghz_stabs n)) in HL.
  change (sel = repeat false (@length pauli (ghz_stabs n))).
  rewrite ghz_stabs_length in * by exact Hn.
  destruct n as [|n']; [lia|].
  assert (Hne : sel <> []) by (intros ->; discriminate HL).
  destruct (exists_last Hne) as [sel' [b ->]]. clear Hne.
  rewrite app_length in HL. cbn [length] in HL.
  assert (HL' : length sel' = n') by lia. clear HL.
  rewrite ghz_stabs_zzrows in H. replace (S n' - 1) with n' in H by lia.
  rewrite combine_row_snoc in H by (rewrite zzrows_length; exact HL').
  rewrite (combine_row_rprod (S n')) in H by apply zzrows_wf.
  unfold combine_step in H. cbn [fst snd] in H. destruct b.
  - exfalso. cbn [fst] in H.
    assert (E : nth 0 (gxor (fst (rprod (S n') sel' (zzrows (S n') 0 n'))) (xall_str (S n'))) I_site = I_site)
      by (rewrite H; apply nth_id_str).
    rewrite nth_gxor in E by (rewrite rprod_zz_len, xall_str_length; reflexivity).
    rewrite xor_site_spec in E. apply (f_equal fst) in E. cbn [fst] in E. rewrite zcomb_x in E.
    cbn in E. discriminate E.
  - rewrite <- repeat_snoc. f_equal.
    apply (zz_indep_aux (S n') sel' 0 n' HL'); [lia|]. intros j _. rewrite H. apply nth_id_str.
Qed.

(* ------------------------------------------------------------------ the state *)
Theorem ghz_state_general : forall n, (1 <= n)%nat -> exists t, stabilizer_state_c n (ghz_stabs n) = Some t /\ tableau_ok n t /\ rk t = 0%nat /\ stabilizers t = ghz_stabs n.
Proof.
  intros n Hn. destruct (stabilizer_state_c n (ghz_stabs n)) as [t|] eqn:E.
  - exists t. pose proof (stabilizer_state_c_ok n _ t (ghz_stabs_herm n) E) as Hok.
    assert (HLn : @length pauli (ghz_stabs n) = n) by (apply ghz_stabs_length; exact Hn).
    destruct (stabilizer_state_c_rows n _ t (ghz_stabs_herm n) ltac:(change (@length pauli (ghz_stabs n) <= n); lia) E
                (fun sel => ghz_independent n sel Hn)) as [Hrk Hrows].
    change (rk t = n - @length pauli (ghz_stabs n)) in Hrk.
    change (firstn (@length pauli (ghz_stabs n)) (skipn (rk t) (rows t)) = ghz_stabs n) in Hrows.
    rewrite HLn in Hrk, Hrows.
    split; [reflexivity|]. split; [exact Hok|]. split; [lia|].
    unfold stabilizers. rewrite (ok_tN n t Hok). replace (n - rk t) with n by lia. exact Hrows.
  - exfalso. unfold stabilizer_state_c in E. rewrite ghz_commute in E. discriminate E.
Qed.

(* the same for the phase-updating variant *)
Theorem ghz_state_general' : forall n, (1 <= n)%nat -> exists t, stabilizer_state n (ghz_stabs n) = Some t /\ tableau_ok n t /\ rk t = 0%nat /\ stabilizers t = ghz_stabs n.
Proof.
  intros n Hn. destruct (stabilizer_state n (ghz_stabs n)) as [t|] eqn:E.
  - exists t. pose proof (stabilizer_state_ok n _ t (ghz_stabs_herm n) E) as Hok.
    assert (HLn : @length pauli (ghz_stabs n) = n) by (apply ghz_stabs_length; exact Hn).
    destruct (stabilizer_state_rows n _ t (ghz_stabs_herm n) ltac:(change (@length pauli (ghz_stabs n) <= n); lia) E
                (fun sel => ghz_independent n sel Hn)) as [Hrk Hrows].
    change (rk t = n - @length pauli (ghz_stabs n)) in Hrk.
    change (firstn (@length pauli (ghz_stabs n)) (skipn (rk t) (rows t)) = ghz_stabs n) in Hrows.
    rewrite HLn in Hrk, Hrows.
    split; [reflexivity|]. split; [exact Hok|]. split; [lia|].
    unfold stabilizers. rewrite (ok_tN n t Hok). replace (n - rk t) with n by lia. exact Hrows.
  - exfalso. unfold stabilizer_state in E. rewrite ghz_commute in E. discriminate E.
Qed.

(* ------------------------------------------------------------------ consequences: the GHZ correlations *)
Lemma ghz_nth_zz : forall n i, S i < n -> nth i (ghz_stabs n) (pid 0) = (zz_str n i, 0%Z).
Proof.
  intros n i Hi. rewrite ghz_stabs_zzrows. rewrite app_nth1 by (rewrite zzrows_length; lia).
  unfold zzrows. rewrite nth_map_seq by lia. reflexivity.
Qed.

Lemma ghz_nth_x : forall n, 1 <= n -> nth (n - 1) (ghz_stabs n) (pid 0) = (xall_str n, 0%Z).
Proof.
  intros n Hn. rewrite ghz_stabs_zzrows. rewrite app_nth2 by (rewrite zzrows_length; lia).
  rewrite zzrows_length, Nat.sub_diag. reflexivity.
Qed.

(* every listed stabilizer is in the group of a tableau whose active rows are the list *)
Lemma stabs_in_group : forall n t k, tableau_ok n t -> k < n - rk t -> in_group n t (nth k (stabilizers t) (pid 0)).
Proof.
  intros n t k Hok Hk. apply (in_group_rprod n t _ Hok).
  exists (map (fun j => Nat.eqb k j) (seq 0 (length (active t)))). split.
  - rewrite map_length, seq_length. apply (active_length n t Hok).
  - rewrite (rprod_unit_sel n _ k (active_wf n t Hok)) by (rewrite (active_length n t Hok); exact Hk).
    rewrite active_stabilizers. reflexivity.
Qed.

Local Open Scope Z_scope.
Theorem ghz_expectations : forall n t i, (1 <= n)%nat -> stabilizer_state_c n (ghz_stabs n) = Some t -> (S i < n)%nat ->
   expect1 t (zz_str n i, 0) = 1 /\ expect1 t (xall_str n, 0) = 1.
Proof.
  intros n t i Hn E Hi.
  destruct (ghz_state_general n Hn) as [t' [E' [Hok [Hrk Hst]]]]. rewrite E in E'. injection E' as <-.
  split.
  - apply (expect_plus n t _ Hok); [apply zz_str_length | left; reflexivity |].
    rewrite <- (ghz_nth_zz n i Hi), <- Hst. apply (stabs_in_group n t i Hok). rewrite Hrk; lia.
  - apply (expect_plus n t _ Hok); [apply xall_str_length | left; reflexivity |].
    rewrite <- (ghz_nth_x n Hn), <- Hst. apply (stabs_in_group n t (n - 1)%nat Hok). rewrite Hrk; lia.
Qed.
