(* Proofs/BackwardFacts.v -- the backward pass of a circuit with measurement layers (post-selection on a record) never
   rejects a record that a forward run has produced.
   Invariant used for MAIN (group-theoretic form of "the overlap Tr(rho_s rho_t) is non-zero"):
   there is no g with g in G(s) and -g in G(t)  ([compat]). *)
From Coq Require Import ZArith List Bool Lia ZifyBool Arith Setoid Morphisms.
From PC Require Import Gen.Kernels Model.Base Model.Pauli Model.Ket Model.Z2 Model.CMap Model.Tableau Model.Circuit Model.Spec
  Model.Poly Model.PolySem Model.Sample Proofs.PolyFacts Proofs.TraceFacts
  Proofs.PauliFacts Proofs.Rotate Proofs.Transform Proofs.CircuitFacts Proofs.MaskFacts Proofs.InverseFacts Proofs.CompileFacts
  Proofs.TableauInv Proofs.MeasureCircuitFacts Proofs.ReachFacts Proofs.MeasureFacts Proofs.ProjectionFacts
  Proofs.ProjectorFacts Proofs.OverlapFacts.
Import ListNotations.
Open Scope Z_scope.
Ltac Zify.zify_post_hook ::= Z.to_euclidean_division_equations.

(* ------------------------------------------------------------------ definitions (names fixed) *)
Definition mclay_ok (n : nat) (c : clayer) : Prop :=
  match c with CL ly => layer_ok n ly | ML qs => Forall (fun q => (q < n)%nat) qs end.

(* a pure valid state *)
Definition pure_ok (n : nat) (t : tableau) : Prop := tableau_ok n t /\ rk t = 0%nat.

(* ------------------------------------------------------------------ 0. counting measured qubits *)
Lemma count_measured_acc : forall c a,
  fold_left (fun acc x => match x with ML q => (acc + length q)%nat | CL _ => acc end) c a
  = (a + count_measured c)%nat.
Proof.
  induction c as [|x c IH]; intros a; unfold count_measured; cbn [fold_left]; [lia|].
  rewrite (IH (match x with CL _ => a | ML q => (a + length q)%nat end)).
  rewrite (IH (match x with CL _ => 0%nat | ML q => (0 + length q)%nat end)).
  destruct x; lia.
Qed.

Lemma count_measured_cons : forall x c,
  count_measured (x :: c) = (match x with ML q => length q | CL _ => 0%nat end + count_measured c)%nat.
Proof.
  intros x c. unfold count_measured at 1. cbn [fold_left]. rewrite count_measured_acc. destruct x; lia.
Qed.

Lemma count_measured_app : forall a b, count_measured (a ++ b) = (count_measured a + count_measured b)%nat.
Proof.
  induction a as [|x a IH]; intros b; [reflexivity|].
  cbn [app]. rewrite !count_measured_cons, IH. lia.
Qed.

Lemma count_measured_rev : forall c, count_measured (rev c) = count_measured c.
Proof.
  induction c as [|x c IH]; [reflexivity|].
  cbn [rev]. rewrite count_measured_app, IH, !count_measured_cons. unfold count_measured at 2. cbn [fold_left]. lia.
Qed.

(* ------------------------------------------------------------------ 1. gate layers act on states as valid maps *)
Definition tmap (M : cmap) (t : tableau) : tableau := {| rows := pauli_transform M (rows t); rk := rk t |}.

Lemma cstep_total : forall n gs acc, Forall (gate_proper n) gs -> exists fb, opt_fold (cstep n) gs acc = Some fb.
Proof.
  intros n gs. induction gs as [|g gs IH]; intros acc HG; [exists acc; reflexivity|].
  inversion_clear HG as [|? ? Hg HG']. cbn [opt_fold].
  destruct (gate_compile_ok n g Hg) as (f & b & E & _).
  assert (E' : cstep n acc g = Some (embed (fst acc) f (gmask g n), embed (snd acc) b (gmask g n))).
  { unfold cstep. rewrite E. reflexivity. }
  rewrite E'. apply IH. exact HG'.
Qed.

Lemma layer_compile_total : forall n ly, layer_ok n ly -> exists ly', layer_compile n ly = Some ly'.
Proof.
  intros n ly (Hm & HG & HP). rewrite layer_compile_unfold.
  destruct (cstep_total n (lgates ly) (identity_map n, identity_map n) HG) as [fb E]. rewrite E. eexists; reflexivity.
Qed.

Lemma tableau_ok_tN : forall n t, tableau_ok n t -> tN t = n.
Proof. intros n t H. apply (ok_tN n t H). Qed.

Lemma layer_maps_state : forall n ly, layer_ok n ly ->
  exists F B, valid_map n F /\ valid_map n B /\ inverse F = Some B /\ inverse B = Some F /\
    (forall t, tableau_ok n t -> state_apply (layer_forward (tN t) ly) t = Some (tmap F t)) /\
    (forall t, tableau_ok n t -> state_apply (layer_backward (tN t) ly) t = Some (tmap B t)).
Proof.
  intros n ly Hly. destruct (layer_compile_total n ly Hly) as [ly' E].
  destruct (layer_compile_spec n ly ly' Hly E) as (F & B & _ & VF & VB & IFB & SF & SB).
  exists F, B. split; [exact VF|]. split; [exact VB|]. split; [exact IFB|].
  split; [exact (inverse_involutive n F B VF IFB)|].
  split; intros t Hok; unfold state_apply; rewrite (tableau_ok_tN n t Hok);
    [rewrite (SF _ (tableau_rows_wf n t Hok)) | rewrite (SB _ (tableau_rows_wf n t Hok))]; reflexivity.
Qed.

Lemma tmap_ok : forall n M t, valid_map n M -> tableau_ok n t -> tableau_ok n (tmap M t).
Proof.
  intros n M t HM Hok. apply (sstep_ok n t (STransform M None) (tmap M t) Hok); [split; [exact I|exact HM]|reflexivity].
Qed.

Lemma tmap_rk : forall M t, rk (tmap M t) = rk t.
Proof. reflexivity. Qed.

Lemma tmap_inv : forall n F B t, valid_map n F -> valid_map n B -> inverse F = Some B -> tableau_ok n t ->
  tmap F (tmap B t) = t.
Proof.
  intros n F B t VF VB IFB Hok. unfold tmap. cbn [rows rk].
  pose proof (tableau_rows_wf n t Hok) as HW.
  rewrite <- (pauli_transform_compose n B F (rows t) VB VF HW).
  rewrite (inverse_left n F B VF IFB), (pauli_transform_identity n _ HW). apply tableau_eta.
Qed.

Lemma active_tmap : forall M t, active (tmap M t) = map (transform1 M) (active t).
Proof.
  intros M t. unfold active, tmap, tN. cbn [rows rk]. unfold pauli_transform.
  rewrite map_length, <- firstn_map, <- skipn_map. reflexivity.
Qed.

(* the image of a group element is in the group of the image state *)
Lemma tmap_group : forall n M t b, valid_map n M -> tableau_ok n t -> in_group n t b ->
  in_group n (tmap M t) (transform1 M b).
Proof.
  intros n M t b HM Hok Hb. pose proof (tmap_ok n M t HM Hok) as Hok'.
  apply (in_group_rprod n t b Hok) in Hb. destruct Hb as [sel [Ls Eb]].
  apply (in_group_rprod n _ _ Hok'). exists sel. split; [rewrite tmap_rk; exact Ls|].
  rewrite active_tmap, (rprod_map_transform n M sel (active t) HM (active_wf n t Hok)), Eb. reflexivity.
Qed.

Lemma transform1_pneg : forall M a, transform1 M (pneg a) = pneg (transform1 M a).
Proof. intros M a. rewrite <- !pscale_2_pneg. apply transform_scale. Qed.

(* ------------------------------------------------------------------ 2. the Z observables *)
Definition ztype (g : pstr) : Prop := Forall (fun s : site => fst s = false) g.

Lemma acqb_ztype : forall g1 g2, ztype g1 -> ztype g2 -> acqb g1 g2 = false.
Proof.
  intros g1 g2 H1. revert g2. induction H1 as [|a r1 Ha _ IH]; intros g2 H2; [reflexivity|].
  destruct H2 as [|b r2 Hb H2]; [reflexivity|]. cbn [acqb]. rewrite (IH r2 H2).
  unfold acqb_site. rewrite Ha, Hb. destruct (snd a), (snd b); reflexivity.
Qed.

Lemma ztype_upd : forall g q, ztype g -> ztype (upd g q (false, true)).
Proof.
  unfold ztype. intros g q H. revert q. induction H as [|a r Ha H IH]; intros q; [destruct q; constructor|].
  destruct q as [|q]; cbn [upd]; constructor; auto.
Qed.

Lemma ztype_z_obs : forall n q, ztype (fst (z_obs n q)).
Proof.
  intros n q. unfold z_obs. cbn [fst]. apply ztype_upd. unfold id_str. apply Forall_forall.
  intros s Hs. apply repeat_spec in Hs. subst s. reflexivity.
Qed.

Lemma z_obs_commute : forall n q q', acq (fst (z_obs n q)) (fst (z_obs n q')) = 0.
Proof. intros n q q'. rewrite acq_acqb, (acqb_ztype _ _ (ztype_z_obs n q) (ztype_z_obs n q')). reflexivity. Qed.

Lemma z_obs_len : forall n q, length (fst (z_obs n q)) = n.
Proof. intros n q. unfold z_obs. cbn [fst]. rewrite length_upd. unfold id_str. apply repeat_length. Qed.

(* the signed observable  (-1)^out Z_q *)
Definition zs (n q : nat) (out : Z) : pauli := (fst (z_obs n q), 2 * out).

Lemma zs_len : forall n q out, length (fst (zs n q out)) = n.
Proof. intros. apply z_obs_len. Qed.

Lemma zs_herm : forall n q out, (out = 0 \/ out = 1) -> hermP (zs n q out).
Proof. intros n q out [H|H]; subst out; [left|right]; reflexivity. Qed.

Lemma zs_wf : forall n q out, (out = 0 \/ out = 1) -> wf n (zs n q out).
Proof. intros n q out H. apply herm_wf_o; [apply zs_len | apply zs_herm; exact H]. Qed.

Lemma z_obs_herm : forall n q, hermP (z_obs n q).
Proof. intros. left. reflexivity. Qed.

Lemma zs_commute : forall n q q' a b, acq (fst (zs n q a)) (fst (zs n q' b)) = 0.
Proof. intros. apply z_obs_commute. Qed.

(* ------------------------------------------------------------------ 3. one forward measurement of Z_q on a pure state *)
Lemma blocked_dec : forall (t : tableau) (go : pstr) m,
  (forall i, (i < m)%nat -> acq (fst (row (rows t) i)) go = 0) \/
  (exists i, (i < m)%nat /\ acq (fst (row (rows t) i)) go = 1).
Proof.
  intros t go m. induction m as [|m [IH|[i [Hi Hx]]]].
  - left. intros i Hi. lia.
  - destruct (acq_01 (fst (row (rows t) m)) go) as [H|H].
    + left. intros i Hi. destruct (Nat.eq_dec i m) as [->|Hne]; [exact H | apply IH; lia].
    + right. exists m. split; [lia|exact H].
  - right. exists i. split; [lia|exact Hx].
Qed.

Lemma measure1_z_step : forall n t q coin, pure_ok n t -> (q < n)%nat -> (coin = 0 \/ coin = 1) ->
  let r := measure1 t (z_obs n q) coin in
  let t1 := fst (fst (fst r)) in let out := snd (fst (fst r)) in
  pure_ok n t1 /\ (out = 0 \/ out = 1) /\ in_group n t1 (zs n q out) /\
  (forall h, in_group n t h -> acq (fst h) (fst (z_obs n q)) = 0 -> in_group n t1 h).
Proof.
  intros n t q coin [Hok Hrk] Hq Hc. cbv zeta.
  pose proof (z_obs_len n q) as Lo. pose proof (z_obs_herm n q) as Ho.
  assert (HP : pure_ok n (fst (fst (fst (measure1 t (z_obs n q) coin))))).
  { pose proof (measure1_ok n t (z_obs n q) coin Hok Lo Hc) as M.
    destruct (measure1 t (z_obs n q) coin) as [[[t1 out] lp] used]. cbn [fst].
    destruct M as (M1 & M2 & _). split; [exact M1 | lia]. }
  split; [exact HP|].
  destruct (blocked_dec t (fst (z_obs n q)) (n + rk t)) as [Hfree|Hblk].
  - destruct (measure1_determined n t (z_obs n q) coin Hok Lo Ho Hfree) as (out & E & Hout & _ & G).
    rewrite E. cbn [fst snd]. split; [exact Hout|]. split; [|intros h Hh _; exact Hh].
    replace (zs n q out) with (pscale (2 * out) (z_obs n q)); [exact G|].
    unfold pscale, zs, z_obs. cbn [fst snd]. f_equal. destruct Hout; subst out; reflexivity.
  - destruct (measure1_undetermined n t (z_obs n q) coin Hok Lo Ho Hc Hblk) as (t' & out & E & Eout & _).
    pose proof (measure1_new_stabilizer n t (z_obs n q) coin Hok Lo Ho Hc Hblk) as G.
    pose proof (fun h => measure1_keeps_commuting n t (z_obs n q) coin h Hok Lo Ho Hc) as K.
    rewrite E in *. cbn [fst snd] in *.
    assert (Ec : out = coin). { rewrite Eout. unfold z_obs. cbn [snd]. destruct Hc; subst coin; reflexivity. }
    subst out. rewrite Ec. split; [exact Hc|]. split; [exact G|]. intros h Hh Hcomm. apply K; assumption.
Qed.

(* ------------------------------------------------------------------ 4. one post-selection on a pure state *)
(* undetermined case: post-selection builds the same tableau as stabilizer_measure with the coin that installs the phase of o *)
Lemma postselect1_blocked : forall n t (o : pauli), tableau_ok n t -> rk t = 0%nat -> length (fst o) = n -> hermP o ->
  (exists i, (i < n + rk t)%nat /\ anti (fst o) (rows t) i = true) ->
  fst (postselect1 t o) = fst (fst (fst (measure1 t o (snd o / 2)))).
Proof.
  intros n t o Hok Hrk Lo Ho B. pose proof Hok as [HL [Hr _]].
  destruct (herm_half o Ho) as [_ E2].
  unfold postselect1, measure1. rewrite (ok_tN n t Hok). cbv zeta. rewrite Hrk, order_measure_pure.
  pose proof (scan_char n 0 (fst o) (rows t) _ (ord_ok_plain n 0) HL) as C. cbv zeta in C.
  destruct C as [[_ [_ C]]|[C1 [C2 [C3 [C4 [C5 _]]]]]].
  { exfalso. destruct B as [i [Hi Ha]]. rewrite Hrk in Hi. rewrite (C i ltac:(lia) Hi) in Ha. discriminate Ha. }
  rewrite C1, install_shape, C5.
  replace (negb ((0 <=? s_p (scan_over (order_plain n) n 0 (fst o) (rows t)))%nat &&
                 (s_p (scan_over (order_plain n) n 0 (fst o) (rows t)) <? n)%nat)) with false
    by (symmetry; apply negb_false_iff, andb_true_iff; split; [apply Nat.leb_le | apply Nat.ltb_lt]; lia).
  cbn [fst]. unfold np_measure_coin_phase. rewrite E2. reflexivity.
Qed.

Lemma postselect1_rk : forall t o, rk (fst (postselect1 t o)) = rk t.
Proof. intros t o. unfold postselect1. cbv zeta. destruct (s_update _); reflexivity. Qed.

Lemma postselect1_step : forall n s (so : pauli), pure_ok n s -> length (fst so) = n -> hermP so ->
  ~ in_group n s (pneg so) ->
  snd (postselect1 s so) <> 0 /\ pure_ok n (fst (postselect1 s so)) /\ in_group n (fst (postselect1 s so)) so /\
  (forall g, in_group n (fst (postselect1 s so)) g -> in_group n s g \/ in_group n s (pmul g so)).
Proof.
  intros n s so [Hok Hrk] Lo Ho Hneg.
  assert (HP : pure_ok n (fst (postselect1 s so))).
  { split; [apply (postselect1_ok n s so Hok Hrk Lo Ho) | rewrite postselect1_rk; exact Hrk]. }
  destruct (postselect1_full n s so Hok Hrk Lo Ho) as [[B [E1 [G _]]]|[_ [Et [[E1 [G _]]|[E1 [G _]]]]]].
  - split; [rewrite E1; discriminate|]. split; [exact HP|]. split; [exact G|].
    intros g Hg. rewrite (postselect1_blocked n s so Hok Hrk Lo Ho B) in Hg.
    destruct (herm_half so Ho) as [Hc E2].
    assert (B' : exists i, (i < n + rk s)%nat /\ acq (fst (row (rows s) i)) (fst so) = 1).
    { destruct B as [i [Hi Ha]]. exists i. split; [exact Hi|]. apply anti_true_iff. exact Ha. }
    apply (measure1_group_exact n s so (snd so / 2) g Hok Lo Ho Hc B') in Hg.
    rewrite E2, pair_eta in Hg. destruct Hg as (b & Hb & Hbc & [->| ->]); [left; exact Hb|].
    right. destruct (group_hermitian n s b Hok Hb) as [Wb _].
    rewrite (mul_o_o n b so Wb (herm_wf_o n so Lo Ho) Ho). exact Hb.
  - split; [rewrite E1; discriminate|]. split; [exact HP|]. rewrite Et. split; [exact G|]. intros g Hg. left. exact Hg.
  - exfalso. exact (Hneg G).
Qed.

(* ------------------------------------------------------------------ 5. the invariant: no g with g in G(s) and -g in G(t)
   (equivalently: the overlap Tr(rho_s rho_t) is not zero) *)
Definition compat (n : nat) (s t : tableau) : Prop := forall g, in_group n s g -> in_group n t (pneg g) -> False.

Lemma compat_refl : forall n t, tableau_ok n t -> compat n t t.
Proof. intros n t Hok g G1 G2. exact (group_sign_unique n t g Hok G1 G2). Qed.

Lemma pmul_pneg_l_comm : forall g so : pauli, acq (fst g) (fst so) = 0 -> pmul (pneg g) so = pneg (pmul g so).
Proof.
  intros g so H. rewrite (acq_spec_comm (pneg g) so) by exact H. rewrite pmul_pneg_r.
  rewrite (acq_spec_comm g so H). reflexivity.
Qed.

(* zero overlap when o in G(t) and -o in G(s): such a pair is excluded by the invariant *)
Lemma compat_excludes : forall n s t (o : pauli), hermP o -> compat n s t -> in_group n t o -> ~ in_group n s (pneg o).
Proof. intros n s t o Ho C Gt Gs. apply (C (pneg o) Gs). rewrite (pneg_pneg o Ho). exact Gt. Qed.

(* the measurement step: s0 = post-selection of s1 on so, t1 = measurement of t with outcome so *)
Lemma compat_measure_step : forall n s1 s0 t t1 (so : pauli),
  tableau_ok n s0 -> tableau_ok n t1 ->
  in_group n s0 so -> (forall g, in_group n s0 g -> in_group n s1 g \/ in_group n s1 (pmul g so)) ->
  in_group n t1 so -> (forall h, in_group n t h -> acq (fst h) (fst so) = 0 -> in_group n t1 h) ->
  compat n s1 t1 -> compat n s0 t.
Proof.
  intros n s1 s0 t t1 so Hs0 Ht1 S1 S2 T1 T2 C g Gs Gt.
  pose proof (group_abelian n s0 g so Hs0 Gs S1) as Hc.
  assert (Gt1 : in_group n t1 (pneg g)) by (apply T2; [exact Gt | exact Hc]).
  destruct (S2 g Gs) as [G1|G1].
  - exact (C g G1 Gt1).
  - apply (C (pmul g so) G1). rewrite <- (pmul_pneg_l_comm g so Hc). apply (in_group_pmul n t1 _ _ Ht1 Gt1 T1).
Qed.

(* invariance under a common valid map, stated for the way it is used: s0 = B(s1), t1 = F(t), B = F^-1 *)
Lemma compat_gate_step : forall n F B s1 t, valid_map n F -> valid_map n B -> inverse F = Some B ->
  tableau_ok n s1 -> tableau_ok n t -> compat n s1 (tmap F t) -> compat n (tmap B s1) t.
Proof.
  intros n F B s1 t VF VB IFB Hs1 Ht C g Gs Gt.
  pose proof (tmap_group n F (tmap B s1) g VF (tmap_ok n B s1 VB Hs1) Gs) as G1.
  rewrite (tmap_inv n F B s1 VF VB IFB Hs1) in G1.
  pose proof (tmap_group n F t (pneg g) VF Ht Gt) as G2. rewrite transform1_pneg in G2.
  exact (C _ G1 G2).
Qed.

(* ------------------------------------------------------------------ 6. unfolding the list kernels *)
Definition hd_coin (coins : list Z) : Z := match coins with c :: _ => c | [] => 0 end.
Definition m1_t (t : tableau) (o : pauli) (coins : list Z) : tableau := fst (fst (fst (measure1 t o (hd_coin coins)))).
Definition m1_out (t : tableau) (o : pauli) (coins : list Z) : Z := snd (fst (fst (measure1 t o (hd_coin coins)))).
Definition m1_coins (t : tableau) (o : pauli) (coins : list Z) : list Z :=
  if snd (measure1 t o (hd_coin coins)) then tl coins else coins.

Lemma measure_cons : forall t o rest coins,
  fst (fst (fst (measure t (o :: rest) coins))) = fst (fst (fst (measure (m1_t t o coins) rest (m1_coins t o coins)))) /\
  snd (fst (fst (measure t (o :: rest) coins)))
  = m1_out t o coins :: snd (fst (fst (measure (m1_t t o coins) rest (m1_coins t o coins)))) /\
  snd (measure t (o :: rest) coins) = snd (measure (m1_t t o coins) rest (m1_coins t o coins)).
Proof.
  intros t o rest coins. unfold m1_t, m1_out, m1_coins, hd_coin. cbn [measure].
  destruct (measure1 t o match coins with [] => 0 | c :: _ => c end) as [[[t1 out] lp] used]. cbn [fst snd].
  destruct (measure t1 rest (if used then tl coins else coins)) as [[[t2 outs] lp2] cl]. cbn [fst snd]. auto.
Qed.

Lemma hd_coin_bit : forall coins, bit_coins coins -> hd_coin coins = 0 \/ hd_coin coins = 1.
Proof. intros [|c coins] H; [left; reflexivity|]. inversion_clear H. assumption. Qed.

Lemma m1_coins_bit : forall t o coins, bit_coins coins -> bit_coins (m1_coins t o coins).
Proof. intros t o coins H. unfold m1_coins. destruct (snd _); [apply bit_coins_tl|]; exact H. Qed.

Lemma mlayer_forward_proj : forall n t qs coins, tN t = n ->
  fst (fst (fst (mlayer_forward t qs coins))) = fst (fst (fst (measure t (map (z_obs n) qs) coins))) /\
  snd (fst (fst (mlayer_forward t qs coins))) = map m1pow (snd (fst (fst (measure t (map (z_obs n) qs) coins)))) /\
  snd (mlayer_forward t qs coins) = snd (measure t (map (z_obs n) qs) coins).
Proof.
  intros n t qs coins E. unfold mlayer_forward. cbv zeta. rewrite E.
  destruct (measure t (map (z_obs n) qs) coins) as [[[t' outs] lp] cl]. cbn [fst snd]. auto.
Qed.

(* the post-selection on the recorded value of one qubit *)
Definition qstep (s : tableau) (q : nat) (r : Z) : option tableau :=
  match postselect s (z_obs (tN s) q) ((1 - r) / 2) with
  | Some (s', pr) => if pr =? 0 then None else Some s'
  | None => None
  end.

Lemma mlayer_backward_rev_cons : forall s q rq r rres,
  mlayer_backward_rev s (q :: rq) (r :: rres)
  = match qstep s q r with Some s' => mlayer_backward_rev s' rq rres | None => None end.
Proof.
  intros. cbn [mlayer_backward_rev]. unfold qstep.
  destruct (postselect s (z_obs (tN s) q) ((1 - r) / 2)) as [[s' pr]|]; [|reflexivity].
  destruct (pr =? 0); reflexivity.
Qed.

Lemma mlayer_backward_rev_snoc : forall rq rres s q r, length rq = length rres ->
  mlayer_backward_rev s (rq ++ [q]) (rres ++ [r])
  = match mlayer_backward_rev s rq rres with Some s1 => qstep s1 q r | None => None end.
Proof.
  induction rq as [|q0 rq IH]; intros [|r0 rres] s q r HL; try discriminate HL.
  - cbn [app]. rewrite mlayer_backward_rev_cons. cbn [mlayer_backward_rev]. destruct (qstep s q r); reflexivity.
  - cbn [app]. rewrite !mlayer_backward_rev_cons. destruct (qstep s q0 r0) as [s'|]; [|reflexivity].
    apply IH. cbn [length] in HL. lia.
Qed.

Lemma qstep_postselect1 : forall n s q out, pure_ok n s -> (out = 0 \/ out = 1) ->
  qstep s q (m1pow out) = if snd (postselect1 s (zs n q out)) =? 0 then None else Some (fst (postselect1 s (zs n q out))).
Proof.
  intros n s q out [Hok Hrk] Hout. unfold qstep, postselect. rewrite (ok_tN n s Hok), Hrk. cbn [Nat.eqb].
  replace (fst (z_obs n q), (snd (z_obs n q) + (1 - m1pow out) / 2 * 2) mod 4) with (zs n q out).
  2:{ unfold zs, z_obs. cbn [fst snd]. f_equal. destruct Hout; subst out; reflexivity. }
  destruct (postselect1 s (zs n q out)) as [s' pr]. reflexivity.
Qed.

(* ------------------------------------------------------------------ 7. a measurement layer, forward *)
Definition zobs_list (n : nat) (qs : list nat) : plist := map (z_obs n) qs.

Lemma measure_z_pure : forall n qs t coins, pure_ok n t -> bit_coins coins -> Forall (fun q => (q < n)%nat) qs ->
  pure_ok n (fst (fst (fst (measure t (zobs_list n qs) coins)))) /\
  length (snd (fst (fst (measure t (zobs_list n qs) coins)))) = length qs /\
  bit_coins (snd (measure t (zobs_list n qs) coins)).
Proof.
  intros n qs. induction qs as [|q qs IH]; intros t coins HP Hc HQ.
  - cbn. auto.
  - inversion_clear HQ as [|? ? Hq HQ']. unfold zobs_list. cbn [map]. fold (zobs_list n qs).
    destruct (measure_cons t (z_obs n q) (zobs_list n qs) coins) as (E1 & E2 & E3). rewrite E1, E2, E3.
    destruct (measure1_z_step n t q (hd_coin coins) HP Hq (hd_coin_bit coins Hc)) as (HP1 & _).
    destruct (IH (m1_t t (z_obs n q) coins) (m1_coins t (z_obs n q) coins) HP1 (m1_coins_bit _ _ _ Hc) HQ') as (I1 & I2 & I3).
    split; [exact I1|]. split; [cbn [length]; rewrite I2; reflexivity | exact I3].
Qed.

Lemma mlayer_forward_pure : forall n t qs coins, pure_ok n t -> bit_coins coins -> Forall (fun q => (q < n)%nat) qs ->
  pure_ok n (fst (fst (fst (mlayer_forward t qs coins)))) /\
  length (snd (fst (fst (mlayer_forward t qs coins)))) = length qs /\
  bit_coins (snd (mlayer_forward t qs coins)).
Proof.
  intros n t qs coins HP Hc HQ. destruct (mlayer_forward_proj n t qs coins (ok_tN n t (proj1 HP))) as (E1 & E2 & E3).
  rewrite E1, E2, E3, map_length. apply (measure_z_pure n qs t coins HP Hc HQ).
Qed.

(* group elements commuting with all measured Z's survive the layer *)
Lemma measure_z_keeps : forall n qs t coins h, pure_ok n t -> bit_coins coins -> Forall (fun q => (q < n)%nat) qs ->
  in_group n t h -> (forall q, acq (fst h) (fst (z_obs n q)) = 0) ->
  in_group n (fst (fst (fst (measure t (zobs_list n qs) coins)))) h.
Proof.
  intros n qs. induction qs as [|q qs IH]; intros t coins h HP Hc HQ Hh Hcomm.
  - exact Hh.
  - inversion_clear HQ as [|? ? Hq HQ']. unfold zobs_list. cbn [map]. fold (zobs_list n qs).
    destruct (measure_cons t (z_obs n q) (zobs_list n qs) coins) as (E1 & _). rewrite E1.
    destruct (measure1_z_step n t q (hd_coin coins) HP Hq (hd_coin_bit coins Hc)) as (HP1 & _ & _ & K).
    apply IH; [exact HP1 | apply m1_coins_bit; exact Hc | exact HQ' | apply K; [exact Hh | apply Hcomm] | exact Hcomm].
Qed.

Inductive all2 {A B} (R : A -> B -> Prop) : list A -> list B -> Prop :=
| all2_nil : all2 R [] []
| all2_cons : forall a b l l', R a b -> all2 R l l' -> all2 R (a :: l) (b :: l').

Lemma all2_length : forall A B (R : A -> B -> Prop) l l', all2 R l l' -> length l = length l'.
Proof. intros A B R l l' H. induction H; cbn [length]; congruence. Qed.

Lemma all2_app : forall A B (R : A -> B -> Prop) l1 l1' l2 l2', all2 R l1 l1' -> all2 R l2 l2' -> all2 R (l1 ++ l2) (l1' ++ l2').
Proof. intros A B R l1 l1' l2 l2' H1 H2. induction H1; cbn [app]; [exact H2 | constructor; assumption]. Qed.

Lemma all2_rev : forall A B (R : A -> B -> Prop) l l', all2 R l l' -> all2 R (rev l) (rev l').
Proof.
  intros A B R l l' H. induction H; cbn [rev]; [constructor|]. apply all2_app; [assumption|]. constructor; [assumption|constructor].
Qed.

Lemma all2_impl : forall A B (R R' : A -> B -> Prop) l l', (forall a b, R a b -> R' a b) -> all2 R l l' -> all2 R' l l'.
Proof. intros A B R R' l l' HI H. induction H; constructor; auto. Qed.

(* after the layer every recorded signed Z_q is in the group of the final state *)
Lemma measure_z_all_in_group : forall n qs t coins, pure_ok n t -> bit_coins coins -> Forall (fun q => (q < n)%nat) qs ->
  all2 (fun q out => (out = 0 \/ out = 1) /\ in_group n (fst (fst (fst (measure t (zobs_list n qs) coins)))) (zs n q out))
       qs (snd (fst (fst (measure t (zobs_list n qs) coins)))).
Proof.
  intros n qs. induction qs as [|q qs IH]; intros t coins HP Hc HQ.
  - cbn. constructor.
  - inversion_clear HQ as [|? ? Hq HQ']. unfold zobs_list. cbn [map]. fold (zobs_list n qs).
    destruct (measure_cons t (z_obs n q) (zobs_list n qs) coins) as (E1 & E2 & _). rewrite E1, E2.
    destruct (measure1_z_step n t q (hd_coin coins) HP Hq (hd_coin_bit coins Hc)) as (HP1 & Hout & G & _).
    constructor.
    + split; [exact Hout|].
      apply (measure_z_keeps n qs _ _ _ HP1 (m1_coins_bit _ _ _ Hc) HQ' G). intros q'. apply z_obs_commute.
    + apply (IH _ _ HP1 (m1_coins_bit _ _ _ Hc) HQ').
Qed.

(* ------------------------------------------------------------------ 8. post-selecting a pure state on observables of its own group *)
Lemma qstep_fixed : forall n s q out, pure_ok n s -> (out = 0 \/ out = 1) -> in_group n s (zs n q out) ->
  qstep s q (m1pow out) = Some s.
Proof.
  intros n s q out HP Hout G. rewrite (qstep_postselect1 n s q out HP Hout). destruct HP as [Hok Hrk].
  destruct (postselect1_spec_p n s (zs n q out) Hok Hrk (zs_len n q out) (zs_herm n q out Hout)) as (P2 & _ & _ & _ & Pt).
  cbv zeta in *. apply P2 in G. rewrite G. cbn [Z.eqb]. rewrite Pt by (rewrite G; discriminate). reflexivity.
Qed.

Lemma backward_fixed : forall n s rq routs, pure_ok n s ->
  all2 (fun q out => (out = 0 \/ out = 1) /\ in_group n s (zs n q out)) rq routs ->
  mlayer_backward_rev s rq (map m1pow routs) = Some s.
Proof.
  intros n s rq routs HP H. induction H as [|q out rq routs [Hout G] _ IH]; [reflexivity|].
  cbn [map]. rewrite mlayer_backward_rev_cons, (qstep_fixed n s q out HP Hout G). exact IH.
Qed.

(* 2. one measurement layer: the record just produced is accepted with certainty and leaves the state unchanged *)
Theorem mlayer_backward_after_forward : forall n t qs coins, tableau_ok n t -> rk t = 0%nat -> bit_coins coins ->
   Forall (fun q => (q < n)%nat) qs ->
   let '(t', res, lp, coins') := mlayer_forward t qs coins in mlayer_backward t' qs res = Some t'.
Proof.
  intros n t qs coins Hok Hrk Hc HQ.
  assert (HP : pure_ok n t) by (split; assumption).
  destruct (mlayer_forward_proj n t qs coins (ok_tN n t Hok)) as (E1 & E2 & _).
  destruct (mlayer_forward_pure n t qs coins HP Hc HQ) as (HP' & HL & _).
  pose proof (measure_z_all_in_group n qs t coins HP Hc HQ) as HA. fold (zobs_list n qs) in E1, E2.
  destruct (mlayer_forward t qs coins) as [[[t' res] lp] coins']. cbn [fst snd] in *.
  unfold mlayer_backward. rewrite HL, Nat.eqb_refl. subst res. rewrite <- map_rev. rewrite <- E1 in HA.
  apply (backward_fixed n t' (rev qs) _ HP'). apply all2_rev. exact HA.
Qed.

(* ------------------------------------------------------------------ 9. a measurement layer, backward from any compatible state *)
Lemma qstep_compat : forall n s1 t q coins, pure_ok n t -> bit_coins coins -> (q < n)%nat ->
  pure_ok n s1 -> compat n s1 (m1_t t (z_obs n q) coins) ->
  exists s0, qstep s1 q (m1pow (m1_out t (z_obs n q) coins)) = Some s0 /\ pure_ok n s0 /\ compat n s0 t.
Proof.
  intros n s1 t q coins HP Hc Hq HS C.
  destruct (measure1_z_step n t q (hd_coin coins) HP Hq (hd_coin_bit coins Hc)) as (HP1 & Hout & G & K).
  fold (m1_t t (z_obs n q) coins) in HP1, G, K. fold (m1_out t (z_obs n q) coins) in Hout, G.
  set (out := m1_out t (z_obs n q) coins) in *. set (t1 := m1_t t (z_obs n q) coins) in *.
  pose proof (zs_herm n q out Hout) as Ho.
  pose proof (compat_excludes n s1 t1 (zs n q out) Ho C G) as Hneg.
  destruct (postselect1_step n s1 (zs n q out) HS (zs_len n q out) Ho Hneg) as (Hpr & HP0 & S1 & S2).
  rewrite (qstep_postselect1 n s1 q out HS Hout).
  destruct (snd (postselect1 s1 (zs n q out)) =? 0) eqn:E; [exfalso; apply Hpr; lia|].
  exists (fst (postselect1 s1 (zs n q out))). split; [reflexivity|]. split; [exact HP0|].
  apply (compat_measure_step n s1 _ t t1 (zs n q out) (proj1 HP0) (proj1 HP1) S1 S2 G K C).
Qed.

Lemma measure_backward_compat : forall n qs t coins s, pure_ok n t -> bit_coins coins -> Forall (fun q => (q < n)%nat) qs ->
  pure_ok n s -> compat n s (fst (fst (fst (measure t (zobs_list n qs) coins)))) ->
  exists s0, mlayer_backward_rev s (rev qs) (rev (map m1pow (snd (fst (fst (measure t (zobs_list n qs) coins)))))) = Some s0 /\
             pure_ok n s0 /\ compat n s0 t.
Proof.
  intros n qs. induction qs as [|q qs IH]; intros t coins s HP Hc HQ HS C.
  - exists s. cbn in *. auto.
  - inversion_clear HQ as [|? ? Hq HQ']. unfold zobs_list in *. cbn [map] in *. fold (zobs_list n qs) in *.
    destruct (measure_cons t (z_obs n q) (zobs_list n qs) coins) as (E1 & E2 & _). rewrite E1 in C. rewrite E2.
    destruct (measure1_z_step n t q (hd_coin coins) HP Hq (hd_coin_bit coins Hc)) as (HP1 & _).
    fold (m1_t t (z_obs n q) coins) in HP1.
    destruct (IH _ _ s HP1 (m1_coins_bit t (z_obs n q) coins Hc) HQ' HS C) as (s1 & B1 & HS1 & C1).
    destruct (measure_z_pure n qs _ _ HP1 (m1_coins_bit t (z_obs n q) coins Hc) HQ') as (_ & HL & _).
    cbn [map rev]. rewrite mlayer_backward_rev_snoc by (rewrite !rev_length, map_length, HL; reflexivity).
    rewrite B1. apply (qstep_compat n s1 t q coins HP Hc Hq HS1 C1).
Qed.

Lemma mlayer_backward_compat : forall n qs t coins s, pure_ok n t -> bit_coins coins -> Forall (fun q => (q < n)%nat) qs ->
  pure_ok n s -> compat n s (fst (fst (fst (mlayer_forward t qs coins)))) ->
  exists s0, mlayer_backward s qs (snd (fst (fst (mlayer_forward t qs coins)))) = Some s0 /\ pure_ok n s0 /\ compat n s0 t.
Proof.
  intros n qs t coins s HP Hc HQ HS C.
  destruct (mlayer_forward_proj n t qs coins (ok_tN n t (proj1 HP))) as (E1 & E2 & _).
  destruct (mlayer_forward_pure n t qs coins HP Hc HQ) as (_ & HL & _).
  unfold mlayer_backward. rewrite HL, Nat.eqb_refl. rewrite E1 in C. rewrite E2.
  apply (measure_backward_compat n qs t coins s HP Hc HQ HS C).
Qed.

(* ------------------------------------------------------------------ 10. the backward pass keeps pure valid states *)
Lemma qstep_pure : forall n s q r s', pure_ok n s -> (q < n)%nat -> qstep s q r = Some s' -> pure_ok n s'.
Proof.
  intros n s q r s' [Hok Hrk] Hq H. unfold qstep, postselect in H. rewrite (ok_tN n s Hok), Hrk in H. cbn [Nat.eqb] in H.
  set (o := (fst (z_obs n q), (snd (z_obs n q) + (1 - r) / 2 * 2) mod 4) : pauli) in *.
  assert (Ho : hermP o). { unfold o, hermP, z_obs. cbn [fst snd]. lia. }
  pose proof (postselect1_ok n s o Hok Hrk (z_obs_len n q) Ho) as K. pose proof (postselect1_rk s o) as R.
  destruct (postselect1 s o) as [s1 pr]. cbn [fst] in *. destruct (pr =? 0); [discriminate H|].
  injection H as <-. split; [exact K | lia].
Qed.

Lemma mlayer_backward_rev_pure : forall n rq rres s s', pure_ok n s -> Forall (fun q => (q < n)%nat) rq ->
  mlayer_backward_rev s rq rres = Some s' -> pure_ok n s'.
Proof.
  intros n rq. induction rq as [|q rq IH]; intros rres s s' HP HQ H.
  - cbn in H. injection H as <-. exact HP.
  - inversion_clear HQ as [|? ? Hq HQ']. destruct rres as [|r rres]; [discriminate H|].
    rewrite mlayer_backward_rev_cons in H. destruct (qstep s q r) as [s1|] eqn:E; [|discriminate H].
    apply (IH rres s1 s' (qstep_pure n s q r s1 HP Hq E) HQ' H).
Qed.

Lemma mlayer_backward_pure : forall n qs res s s', pure_ok n s -> Forall (fun q => (q < n)%nat) qs ->
  mlayer_backward s qs res = Some s' -> pure_ok n s'.
Proof.
  intros n qs res s s' HP HQ H. unfold mlayer_backward in H. destruct (length res =? length qs)%nat; [|discriminate H].
  apply (mlayer_backward_rev_pure n (rev qs) (rev res) s s' HP (Forall_rev HQ) H).
Qed.

Lemma mcircuit_backward_rev_pure : forall n rc s rr s', Forall (mclay_ok n) rc -> pure_ok n s ->
  mcircuit_backward_rev rc s rr = Some s' -> pure_ok n s'.
Proof.
  intros n rc. induction rc as [|x rc IH]; intros s rr s' HC HP H.
  - cbn in H. injection H as <-. exact HP.
  - inversion_clear HC as [|? ? Hx HC']. destruct x as [ly|qs]; cbn [mcircuit_backward_rev mclay_ok] in *.
    + destruct (layer_maps_state n ly Hx) as (F & B & VF & VB & _ & _ & _ & SB).
      rewrite (SB s (proj1 HP)) in H. apply (IH _ _ _ HC' (conj (tmap_ok n B s VB (proj1 HP)) (proj2 HP)) H).
    + destruct (mlayer_backward s qs (rev (firstn (length qs) rr))) as [s1|] eqn:E; [|discriminate H].
      apply (IH _ _ _ HC' (mlayer_backward_pure n qs _ s s1 HP Hx E) H).
Qed.

(* 1. invariants *)
Theorem mcircuit_backward_ok : forall n c t record t', Forall (mclay_ok n) c -> tableau_ok n t -> rk t = 0%nat ->
   mcircuit_backward c t record = Some t' -> tableau_ok n t' /\ rk t' = 0%nat.
Proof.
  intros n c t record t' HC Hok Hrk H. unfold mcircuit_backward in H.
  destruct (length record =? count_measured c)%nat; [|discriminate H].
  apply (mcircuit_backward_rev_pure n (rev c) t (rev record) t' (Forall_rev HC) (conj Hok Hrk) H).
Qed.

Theorem mcircuit_forward_pure : forall n c t coins t' res lp, Forall (mclay_ok n) c -> tableau_ok n t -> rk t = 0%nat ->
   bit_coins coins ->
   mcircuit_forward c t coins = Some (t', res, lp) -> tableau_ok n t' /\ rk t' = 0%nat /\ length res = count_measured c.
Proof.
  intros n c. induction c as [|x c IH]; intros t coins t' res lp HC Hok Hrk Hc H.
  - cbn in H. injection H as <- <- _. auto.
  - inversion_clear HC as [|? ? Hx HC']. rewrite count_measured_cons. destruct x as [ly|qs]; cbn [mcircuit_forward mclay_ok] in *.
    + destruct (layer_maps_state n ly Hx) as (F & B & VF & VB & _ & _ & SF & _).
      rewrite (SF t Hok) in H. apply (IH _ _ _ _ _ HC' (tmap_ok n F t VF Hok) Hrk Hc H).
    + destruct (mlayer_forward_pure n t qs coins (conj Hok Hrk) Hc Hx) as ([Hok1 Hrk1] & HL & Hc1).
      destruct (mlayer_forward t qs coins) as [[[t1 res1] lp1] coins1]. cbn [fst snd] in *.
      destruct (mcircuit_forward c t1 coins1) as [[[t2 res2] lp2]|] eqn:E; [|discriminate H].
      injection H as <- <- _. destruct (IH _ _ _ _ _ HC' Hok1 Hrk1 Hc1 E) as (I1 & I2 & I3).
      split; [exact I1|]. split; [exact I2|]. rewrite app_length, HL, I3. reflexivity.
Qed.

(* ------------------------------------------------------------------ 11. instruction-level view of the backward pass *)
Lemma skipn_skipn_add : forall A a b (l : list A), skipn a (skipn b l) = skipn (b + a) l.
Proof.
  intros A a b. induction b as [|b IH]; intros l; [reflexivity|]. destruct l as [|x l]; [destruct a; reflexivity|].
  cbn [skipn Nat.add]. apply IH.
Qed.

Lemma mcircuit_backward_rev_app : forall rc1 rc2 s rr,
  mcircuit_backward_rev (rc1 ++ rc2) s rr
  = match mcircuit_backward_rev rc1 s rr with
    | Some s' => mcircuit_backward_rev rc2 s' (skipn (count_measured rc1) rr)
    | None => None
    end.
Proof.
  induction rc1 as [|x rc1 IH]; intros rc2 s rr; [reflexivity|].
  cbn [app]. rewrite count_measured_cons. destruct x as [ly|qs]; cbn [mcircuit_backward_rev].
  - destruct (state_apply (layer_backward (tN s) ly) s) as [s1|]; [|reflexivity]. rewrite IH. reflexivity.
  - destruct (mlayer_backward s qs (rev (firstn (length qs) rr))) as [s1|]; [|reflexivity].
    rewrite IH, skipn_skipn_add. reflexivity.
Qed.

Lemma firstn_app_exact : forall A (l1 l2 : list A) k, k = length l1 -> firstn k (l1 ++ l2) = l1.
Proof. intros A l1 l2 k ->. rewrite firstn_app, Nat.sub_diag, firstn_all. cbn [firstn]. apply app_nil_r. Qed.

Lemma skipn_app_exact : forall A (l1 l2 : list A) k, k = length l1 -> skipn k (l1 ++ l2) = l2.
Proof. intros A l1 l2 k ->. rewrite skipn_app, Nat.sub_diag, skipn_all. reflexivity. Qed.

(* ------------------------------------------------------------------ 12. MAIN *)
Lemma forward_backward_compat : forall n c t coins t' res lp s extra, Forall (mclay_ok n) c -> pure_ok n t -> bit_coins coins ->
  mcircuit_forward c t coins = Some (t', res, lp) -> pure_ok n s -> compat n s t' ->
  exists s0, mcircuit_backward_rev (rev c) s (rev res ++ extra) = Some s0 /\ pure_ok n s0 /\ compat n s0 t.
Proof.
  intros n c. induction c as [|x c IH]; intros t coins t' res lp s extra HC HP Hc H HS C.
  - cbn in H. injection H as <- <- _. exists s. cbn. auto.
  - inversion_clear HC as [|? ? Hx HC']. cbn [rev]. rewrite mcircuit_backward_rev_app.
    destruct x as [ly|qs]; cbn [mcircuit_forward mclay_ok] in *.
    + destruct (layer_maps_state n ly Hx) as (F & B & VF & VB & IFB & _ & SF & SB).
      rewrite (SF t (proj1 HP)) in H.
      destruct (IH _ _ _ _ _ s extra HC' (conj (tmap_ok n F t VF (proj1 HP)) (proj2 HP)) Hc H HS C) as (s1 & B1 & HS1 & C1).
      rewrite B1. cbn [mcircuit_backward_rev]. rewrite (SB s1 (proj1 HS1)).
      exists (tmap B s1). split; [reflexivity|]. split; [exact (conj (tmap_ok n B s1 VB (proj1 HS1)) (proj2 HS1))|].
      apply (compat_gate_step n F B s1 t VF VB IFB (proj1 HS1) (proj1 HP) C1).
    + destruct (mlayer_forward_pure n t qs coins HP Hc Hx) as (HP1 & HL & Hc1).
      pose proof (fun s1 => mlayer_backward_compat n qs t coins s1 HP Hc Hx) as ML.
      destruct (mlayer_forward t qs coins) as [[[t1 res1] lp1] coins1]. cbn [fst snd] in *.
      destruct (mcircuit_forward c t1 coins1) as [[[t2 res2] lp2]|] eqn:E; [|discriminate H].
      injection H as <- <- _.
      destruct (mcircuit_forward_pure n c t1 coins1 t2 res2 lp2 HC' (proj1 HP1) (proj2 HP1) Hc1 E) as (_ & _ & HL2).
      rewrite rev_app_distr, <- app_assoc.
      destruct (IH _ _ _ _ _ s (rev res1 ++ extra) HC' HP1 Hc1 E HS C) as (s1 & B1 & HS1 & C1).
      rewrite B1. rewrite skipn_app_exact by (rewrite rev_length, count_measured_rev; symmetry; exact HL2).
      cbn [mcircuit_backward_rev]. rewrite firstn_app_exact by (rewrite rev_length; symmetry; exact HL).
      rewrite rev_involutive.
      destruct (ML s1 HS1 C1) as (s0 & B0 & HS0 & C0). rewrite B0. exists s0. auto.
Qed.

(* 3. MAIN: for every circuit, state and coin schedule, the record of the run is accepted by the backward pass from the final state *)
Theorem forward_record_is_accepted : forall n c t coins t' res lp, Forall (mclay_ok n) c -> tableau_ok n t -> rk t = 0%nat ->
   bit_coins coins ->
   mcircuit_forward c t coins = Some (t', res, lp) -> exists tb, mcircuit_backward c t' res = Some tb.
Proof.
  intros n c t coins t' res lp HC Hok Hrk Hc H.
  destruct (mcircuit_forward_pure n c t coins t' res lp HC Hok Hrk Hc H) as (Hok' & Hrk' & HL).
  destruct (forward_backward_compat n c t coins t' res lp t' [] HC (conj Hok Hrk) Hc H (conj Hok' Hrk') (compat_refl n t' Hok'))
    as (s0 & B0 & _).
  exists s0. unfold mcircuit_backward. rewrite HL, Nat.eqb_refl. rewrite app_nil_r in B0. exact B0.
Qed.

(* strengthening: the state reached by the backward pass is again a pure valid state that has non-zero overlap with the initial state
   (no g in its group with -g in the group of the initial state) *)
Theorem forward_record_backward_state : forall n c t coins t' res lp, Forall (mclay_ok n) c -> tableau_ok n t -> rk t = 0%nat ->
   bit_coins coins ->
   mcircuit_forward c t coins = Some (t', res, lp) ->
   exists tb, mcircuit_backward c t' res = Some tb /\ tableau_ok n tb /\ rk tb = 0%nat /\
              (forall g, in_group n tb g -> ~ in_group n t (pneg g)).
Proof.
  intros n c t coins t' res lp HC Hok Hrk Hc H.
  destruct (mcircuit_forward_pure n c t coins t' res lp HC Hok Hrk Hc H) as (Hok' & Hrk' & HL).
  destruct (forward_backward_compat n c t coins t' res lp t' [] HC (conj Hok Hrk) Hc H (conj Hok' Hrk') (compat_refl n t' Hok'))
    as (s0 & B0 & [HS0 HR0] & C0).
  exists s0. unfold mcircuit_backward. rewrite HL, Nat.eqb_refl. rewrite app_nil_r in B0.
  split; [exact B0|]. split; [exact HS0|]. split; [exact HR0|]. intros g G1 G2. exact (C0 g G1 G2).
Qed.

(* ------------------------------------------------------------------ 13. the invariant and the overlap Tr(rho_s rho_t)
   "zero overlap when o in G(t) and -o in G(s)": a violation of [compat] forces the overlap to vanish, i.e. a non-zero overlap
   implies [compat].  (MAIN is proved with the group-level invariant, which is all it needs.) *)
Lemma overlap_zero_of_opposite : forall n s t (o : pauli), tableau_ok n s -> tableau_ok n t -> length (fst o) = n -> hermP o ->
  in_group n t o -> in_group n s (pneg o) ->
  trace_sem n (pmulp (density_poly s) (density_poly t)) = c0.
Proof.
  intros n s t o Hs Ht Lo Ho Gt Gs.
  pose proof (density_poly_sized n s Hs) as WS. pose proof (density_poly_sized n t Ht) as WT.
  pose proof (well_sized_proj n o Lo) as WP.
  assert (ET : meq n (amp (density_poly t))
                      (mmul n (amp (proj_poly n o)) (mmul n (amp (density_poly t)) (amp (proj_poly n o))))).
  { transitivity (amp (sandwich n o (density_poly t))).
    - intros k k' Hk. symmetry. apply (sandwich_eigen_plus n t o k k' Ht Lo Ho Gt Hk).
    - unfold sandwich. rewrite (amp_mmul n _ _ WP (well_sized_pmulp n _ _ WT WP)), (amp_mmul n _ _ WT WP). reflexivity. }
  assert (ES : meq n (mmul n (amp (proj_poly n o)) (mmul n (amp (density_poly s)) (amp (proj_poly n o)))) mzero).
  { transitivity (amp (sandwich n o (density_poly s))).
    - unfold sandwich. rewrite (amp_mmul n _ _ WP (well_sized_pmulp n _ _ WS WP)), (amp_mmul n _ _ WS WP). reflexivity.
    - intros k k' Hk. apply (sandwich_eigen_minus n s o k k' Hs Lo Ho Gs Hk). }
  set (A := amp (density_poly s)) in *. set (B := amp (density_poly t)) in *. set (P := amp (proj_poly n o)) in *.
  rewrite trace_sem_mtr, (amp_mmul n _ _ WS WT). fold A B.
  rewrite ET at 1. rewrite <- (mmul_assoc n A P (mmul n B P)), mtr_cyclic, (mmul_assoc n B P (mmul n A P)), ES.
  rewrite mtr_cyclic, (mmul_mzero_l n B). apply mtr_mzero.
Qed.

Corollary overlap_nonzero_compat : forall n s t, tableau_ok n s -> tableau_ok n t ->
  trace_sem n (pmulp (density_poly s) (density_poly t)) <> c0 -> compat n s t.
Proof.
  intros n s t Hs Ht H g G1 G2. apply H. destruct (group_hermitian n s g Hs G1) as [[Lg _] Hg].
  apply (overlap_zero_of_opposite n s t (pneg g) Hs Ht); [exact Lg | apply hermP_pneg; exact Hg | exact G2 |].
  rewrite (pneg_pneg g Hg). exact G1.
Qed.

(* the converse: the invariant implies a non-zero overlap (t pure).  The overlap is computed by the sequential projection of t on
   the stabilizers of s (OverlapFacts.overlap_is_trace); under [compat] the projection never meets an observable whose negative
   is in the current group, and the projected state stays compatible with s. *)
Lemma ptrace1_compat_step : forall n s t z h (o : pauli), tableau_ok n s -> pure_ok n t -> in_group n s o -> compat n s t ->
  pure_ok n (fst (fst (ptrace1 (t, z, h) o))) /\ snd (fst (ptrace1 (t, z, h) o)) = z /\ compat n s (fst (fst (ptrace1 (t, z, h) o))).
Proof.
  intros n s t z h o Hs [Hok Hrk] Go C.
  destruct (group_hermitian n s o Hs Go) as [[Lo _] Ho].
  destruct (ptrace1_spec_p n t o z h Hok Hrk Lo Ho) as (Hok' & Hrk' & Cases). cbv zeta in *.
  split; [split; assumption|].
  destruct Cases as [(G & Et & Ez & _)|[(G & _)|(E0 & Ez & _)]].
  - rewrite Et. split; [exact Ez | exact C].
  - exfalso. exact (C o Go G).
  - split; [exact Ez|].
    apply (expect_zero n t o Hok Lo Ho) in E0.
    assert (B : exists i, (i < n + rk t)%nat /\ anti (fst o) (rows t) i = true).
    { destruct E0 as [i [Hi Ha]]. exists i. split; [exact Hi | apply anti_true_iff; exact Ha]. }
    rewrite (ptrace1_blocked n t o z h Hok Hrk Lo Ho B). cbn [fst].
    destruct (herm_half o Ho) as [Hc E2].
    intros g G1 G2.
    apply (measure1_group_exact n t o (snd o / 2) (pneg g) Hok Lo Ho Hc E0) in G2.
    rewrite E2, pair_eta in G2. destruct G2 as (b & Hb & Hbc & [Eb|Eb]).
    + rewrite <- Eb in Hb. exact (C g G1 Hb).
    + pose proof (group_abelian n s g o Hs G1 Go) as Hgo.
      destruct (group_hermitian n t b Hok Hb) as [Wb _].
      assert (Eb' : b = pneg (pmul g o)).
      { rewrite <- (pmul_pneg_l_comm g o Hgo), Eb. symmetry. apply (mul_o_o n b o Wb (herm_wf_o n o Lo Ho) Ho). }
      rewrite Eb' in Hb. exact (C (pmul g o) (in_group_pmul n s g o Hs G1 Go) Hb).
Qed.

Lemma ptrace_fold_compat : forall n s obs t z h, tableau_ok n s -> (forall o, In o obs -> in_group n s o) ->
  pure_ok n t -> compat n s t -> snd (fst (fold_left ptrace1 obs (t, z, h))) = z.
Proof.
  intros n s obs. induction obs as [|o obs IH]; intros t z h Hs HI HP C; [reflexivity|].
  cbn [fold_left].
  destruct (ptrace1_compat_step n s t z h o Hs HP (HI o (or_introl eq_refl)) C) as (HP' & Ez & C').
  destruct (ptrace1 (t, z, h) o) as [[t' z'] h']. cbn [fst snd] in *. subst z'.
  apply (IH t' z h' Hs (fun o' Ho' => HI o' (or_intror Ho')) HP' C').
Qed.

Lemma c1_neq_c0 : c1 <> c0.
Proof. intros H. apply (f_equal (fun c : coef => Qcanon.this (fst c))) in H. vm_compute in H. discriminate H. Qed.

Lemma half_pow_neq_c0 : forall k, half_pow k <> c0.
Proof. intros k H. pose proof (half_pow_two_pow k) as E. rewrite H, cmul_0_l in E. exact (c1_neq_c0 (eq_sym E)). Qed.

Theorem compat_overlap_nonzero : forall n s t, tableau_ok n s -> tableau_ok n t -> rk t = 0%nat -> compat n s t ->
  trace_sem n (pmulp (density_poly s) (density_poly t)) <> c0.
Proof.
  intros n s t Hs Ht Hrk C.
  pose proof (density_poly_sized n s Hs) as WS. pose proof (density_poly_sized n t Ht) as WT.
  rewrite trace_sem_mtr, (amp_mmul n _ _ WS WT), mtr_cyclic, <- (amp_mmul n _ _ WT WS), <- trace_sem_mtr.
  pose proof (overlap_is_trace n t s Ht Hrk Hs) as E.
  assert (Z : snd (fst (projection_trace t (stabilizers s))) = false).
  { unfold projection_trace. apply (ptrace_fold_compat n s _ t false 0%nat Hs); [|split; assumption|exact C].
    intros o Ho. rewrite <- active_stabilizers in Ho. destruct (active_In n s o Hs Ho) as [j [Hj ->]].
    apply (in_group_row n s _ Hs); lia. }
  destruct (projection_trace t (stabilizers s)) as [[t' zero] halv]. cbn [fst snd] in Z. subst zero.
  rewrite E. unfold trace_value. rewrite <- half_pow_add. apply half_pow_neq_c0.
Qed.

(* for pure states the invariant IS "the overlap is not zero" *)
Corollary compat_iff_overlap : forall n s t, tableau_ok n s -> tableau_ok n t -> rk t = 0%nat ->
  (compat n s t <-> trace_sem n (pmulp (density_poly s) (density_poly t)) <> c0).
Proof.
  intros n s t Hs Ht Hrk. split; [apply compat_overlap_nonzero; assumption | apply overlap_nonzero_compat; assumption].
Qed.

(* MAIN with the overlap: the backward pass accepts the record and ends in a pure state with non-zero overlap with the initial state *)
Theorem forward_record_backward_overlap : forall n c t coins t' res lp, Forall (mclay_ok n) c -> tableau_ok n t -> rk t = 0%nat ->
   bit_coins coins ->
   mcircuit_forward c t coins = Some (t', res, lp) ->
   exists tb, mcircuit_backward c t' res = Some tb /\ tableau_ok n tb /\ rk tb = 0%nat /\
              trace_sem n (pmulp (density_poly tb) (density_poly t)) <> c0.
Proof.
  intros n c t coins t' res lp HC Hok Hrk Hc H.
  destruct (forward_record_backward_state n c t coins t' res lp HC Hok Hrk Hc H) as (tb & B & Hb & Rb & Cb).
  exists tb. split; [exact B|]. split; [exact Hb|]. split; [exact Rb|].
  apply (compat_overlap_nonzero n tb t Hb Hok Hrk). intros g G1 G2. exact (Cb g G1 G2).
Qed.

Print Assumptions mcircuit_forward_pure.
Print Assumptions mcircuit_backward_ok.
Print Assumptions mlayer_backward_after_forward.
Print Assumptions forward_record_is_accepted.
Print Assumptions forward_record_backward_state.
Print Assumptions overlap_zero_of_opposite.
Print Assumptions compat_iff_overlap.
Print Assumptions forward_record_backward_overlap.
