(* Proofs/SampleFacts.v -- sampling and the density-matrix expansion enumerate the stabilizer group;
   classical-shadow snapshots are valid states. *)
From Coq Require Import ZArith List Bool Lia ZifyBool Arith.
From PC Require Import Gen.Kernels Model.Base Model.Pauli Model.Ket Model.CMap Model.Tableau Model.Circuit Model.Spec
  Model.Sample Proofs.PauliFacts Proofs.Transform Proofs.TableauInv Proofs.MeasureFacts Proofs.ReachFacts.
Import ListNotations.
Open Scope Z_scope.
Ltac Zify.zify_post_hook ::= Z.to_euclidean_division_equations.

(* ------------------------------------------------------------------ list lemmas *)
Lemma NoDup_map_inj_on : forall (A B : Type) (f : A -> B) (l : list A),
  (forall x y, In x l -> In y l -> f x = f y -> x = y) -> NoDup l -> NoDup (map f l).
Proof.
  intros A B f l. induction l as [|a l IH]; intros Hinj Hnd; cbn [map]; [constructor|].
  inversion_clear Hnd as [|? ? Hna Hnd']. constructor.
  - intros Hin. apply in_map_iff in Hin. destruct Hin as [x [Ex Hx]].
    assert (x = a) by (apply Hinj; [right; exact Hx | left; reflexivity | exact Ex]).
    subst x. exact (Hna Hx).
  - apply IH; [|exact Hnd']. intros x y Hx Hy. apply Hinj; right; assumption.
Qed.

Lemma NoDup_app_disj : forall (A : Type) (l1 l2 : list A),
  NoDup l1 -> NoDup l2 -> (forall x, In x l1 -> In x l2 -> False) -> NoDup (l1 ++ l2).
Proof.
  intros A l1. induction l1 as [|a l1 IH]; intros l2 H1 H2 Hd; cbn [app]; [exact H2|].
  inversion_clear H1 as [|? ? Hna H1']. constructor.
  - intros Hin. apply in_app_or in Hin. destruct Hin as [Hin|Hin]; [exact (Hna Hin)|].
    apply (Hd a); [left; reflexivity | exact Hin].
  - apply IH; [exact H1' | exact H2|]. intros x Hx1 Hx2. apply (Hd x); [right; exact Hx1 | exact Hx2].
Qed.

(* ------------------------------------------------------------------ all_bitvecs *)
Theorem all_bitvecs_length : forall k, length (all_bitvecs k) = (2 ^ k)%nat.
Proof.
  induction k as [|k IH]; [reflexivity|].
  cbn [all_bitvecs]. rewrite app_length, !map_length, IH. rewrite Nat.pow_succ_r'. lia.
Qed.

Theorem all_bitvecs_complete : forall k v, length v = k -> In v (all_bitvecs k).
Proof.
  induction k as [|k IH]; intros [|b v] HL; try discriminate HL.
  - left; reflexivity.
  - cbn [all_bitvecs]. cbn [length] in HL. apply in_or_app.
    assert (Hv : In v (all_bitvecs k)) by (apply IH; lia).
    destruct b; [right | left]; apply in_map; exact Hv.
Qed.

Theorem all_bitvecs_shape : forall k v, In v (all_bitvecs k) -> length v = k.
Proof.
  induction k as [|k IH]; intros v Hin.
  - cbn [all_bitvecs] in Hin. destruct Hin as [E|[]]. subst v. reflexivity.
  - cbn [all_bitvecs] in Hin. apply in_app_or in Hin.
    destruct Hin as [Hin|Hin]; apply in_map_iff in Hin; destruct Hin as [w [E Hw]]; subst v;
      cbn [length]; f_equal; apply IH; exact Hw.
Qed.

Theorem all_bitvecs_nodup : forall k, NoDup (all_bitvecs k).
Proof.
  induction k as [|k IH].
  - cbn [all_bitvecs]. constructor; [intros []|constructor].
  - cbn [all_bitvecs]. apply NoDup_app_disj.
    + apply NoDup_map_inj_on; [|exact IH]. intros x y _ _ E. inversion E. reflexivity.
    + apply NoDup_map_inj_on; [|exact IH]. intros x y _ _ E. inversion E. reflexivity.
    + intros x H1 H2. apply in_map_iff in H1. apply in_map_iff in H2.
      destruct H1 as [a [E1 _]]. destruct H2 as [b [E2 _]]. subst x. discriminate E2.
Qed.

(* ------------------------------------------------------------------ sampling *)
Lemma sample_rows_In : forall n t C (a : pauli), tableau_ok n t -> In a (sample_rows t C) ->
  exists sel, In sel C /\ gprod n sel (active t) = a.
Proof.
  intros n t C a Hok Hin. unfold sample_rows, pauli_combine in Hin.
  rewrite (ok_tN n t Hok) in Hin. apply in_map_iff in Hin. destruct Hin as [sel [E Hs]].
  exists sel. split; [exact Hs | exact E].
Qed.

Theorem sample_in_group : forall n t C a, tableau_ok n t -> Forall (fun sel => length sel = (n - rk t)%nat) C ->
  In a (sample_rows t C) -> in_group n t a.
Proof.
  intros n t C a Hok HC Hin. destruct (sample_rows_In n t C a Hok Hin) as [sel [Hs E]].
  exists sel. split; [|exact E]. rewrite Forall_forall in HC. exact (HC sel Hs).
Qed.

Theorem sample_expect_plus : forall n t C a, tableau_ok n t -> Forall (fun sel => length sel = (n - rk t)%nat) C ->
  In a (sample_rows t C) -> expect1 t a = 1.
Proof.
  intros n t C a Hok HC Hin. pose proof (sample_in_group n t C a Hok HC Hin) as G.
  destruct (group_hermitian n t a Hok G) as [[HL _] HH].
  apply (expect_plus n t a Hok HL HH). exact G.
Qed.

(* ------------------------------------------------------------------ selections <-> group elements *)
Lemma selection_str_injective : forall n t s1 s2, tableau_ok n t -> length s1 = (n - rk t)%nat -> length s2 = (n - rk t)%nat ->
  fst (gprod n s1 (active t)) = fst (gprod n s2 (active t)) -> s1 = s2.
Proof.
  intros n t s1 s2 Hok L1 L2 E.
  rewrite !(gprod_rprod n _ _ (active_wf n t Hok)) in E.
  exact (rprod_fst_inj n t s1 s2 Hok L1 L2 E).
Qed.

Theorem selection_injective : forall n t s1 s2, tableau_ok n t -> length s1 = (n - rk t)%nat -> length s2 = (n - rk t)%nat ->
  gprod n s1 (active t) = gprod n s2 (active t) -> s1 = s2.
Proof.
  intros n t s1 s2 Hok L1 L2 E. apply (selection_str_injective n t s1 s2 Hok L1 L2). rewrite E. reflexivity.
Qed.

(* ------------------------------------------------------------------ density_terms *)
Lemma density_terms_eq : forall n t, tableau_ok n t ->
  density_terms t = map (fun sel => gprod n sel (active t)) (all_bitvecs (n - rk t)).
Proof.
  intros n t Hok. unfold density_terms, pauli_combine. rewrite (ok_tN n t Hok). reflexivity.
Qed.

Theorem density_terms_length : forall n t, tableau_ok n t -> length (density_terms t) = (2 ^ (n - rk t))%nat.
Proof.
  intros n t Hok. rewrite (density_terms_eq n t Hok), map_length. apply all_bitvecs_length.
Qed.

Theorem density_terms_complete : forall n t a, tableau_ok n t -> (in_group n t a <-> In a (density_terms t)).
Proof.
  intros n t a Hok. rewrite (density_terms_eq n t Hok). split.
  - intros [sel [HL E]]. apply in_map_iff. exists sel. split; [exact E|].
    apply all_bitvecs_complete. exact HL.
  - intros Hin. apply in_map_iff in Hin. destruct Hin as [sel [E Hs]].
    exists sel. split; [apply all_bitvecs_shape; exact Hs | exact E].
Qed.

Theorem density_terms_strings_nodup : forall n t, tableau_ok n t -> NoDup (map fst (density_terms t)).
Proof.
  intros n t Hok. rewrite (density_terms_eq n t Hok), map_map.
  apply NoDup_map_inj_on; [|apply all_bitvecs_nodup].
  intros x y Hx Hy E.
  apply (selection_str_injective n t x y Hok (all_bitvecs_shape _ _ Hx) (all_bitvecs_shape _ _ Hy) E).
Qed.

Theorem density_terms_nodup : forall n t, tableau_ok n t -> NoDup (density_terms t).
Proof.
  intros n t Hok. apply (NoDup_map_inv fst). exact (density_terms_strings_nodup n t Hok).
Qed.

(* ------------------------------------------------------------------ snapshots *)
Theorem snapshot_ok : forall n base povm coins, tableau_ok n base -> tableau_ok n povm -> Forall (fun c => c = 0 \/ c = 1) coins ->
  tableau_ok n (fst (fst (snapshot base povm coins))).
Proof.
  intros n base povm coins Hb Hp Hc. unfold snapshot.
  assert (Hobs : Forall (fun o : pauli => length (fst o) = n) (stabilizers povm)).
  { rewrite <- active_stabilizers. pose proof (active_wf n povm Hp) as W.
    rewrite Forall_forall in *. intros o Ho. destruct (W o Ho) as [HL _]. exact HL. }
  pose proof (measure_ok n (stabilizers povm) base coins Hb Hobs Hc) as M.
  destruct (measure base (stabilizers povm) coins) as [[[t' outs] lp] rest].
  destruct M as [M _]. exact M.
Qed.
