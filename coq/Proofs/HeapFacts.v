(* Proofs/HeapFacts.v -- frame reasoning for C17. *)
From Coq Require Import ZArith List Bool Lia Arith String.
From PC Require Import Gen.Copies Model.Base Model.Heap.
Import ListNotations.

Lemma frame : forall f W h o, respects f W -> (forall l, In l (olocs o) -> ~ In l W) -> denote (f h) o = denote h o.
Proof.
  intros f W h o HR HS. unfold denote. f_equal. apply map_ext_in. intros l Hl. apply HR. apply HS. exact Hl.
Qed.

(* separation is forever: once two objects share no array, no history of operations that write only into the second can change what the first denotes *)
Theorem separation_forever : forall o1 o2 fs h, sep o1 o2 -> Forall (fun f => respects f (olocs o2)) fs ->
  denote (fold_left (fun hh f => f hh) fs h) o1 = denote h o1.
Proof.
  intros o1 o2 fs. induction fs as [|f fs IH]; intros h HS HF; cbn [fold_left]; [reflexivity|].
  inversion_clear HF as [|? ? Hf HF']. rewrite IH by assumption.
  apply (frame f (olocs o2)); [exact Hf | exact HS].
Qed.

Lemma hupd_other : forall h l v l', l' <> l -> hupd h l v l' = h l'.
Proof. intros h l v l' H. unfold hupd. destruct (Nat.eqb l' l) eqn:E; [apply Nat.eqb_eq in E; contradiction | reflexivity]. Qed.
Lemma hupd_same : forall h l v, hupd h l v l = v.
Proof. intros. unfold hupd. rewrite Nat.eqb_refl. reflexivity. Qed.

Lemma alloc_copy_outside : forall src fresh h l, ~ In l fresh -> alloc_copy h src fresh l = h l.
Proof.
  induction src as [|s src IH]; intros [|f fresh] h l H; cbn [alloc_copy]; try reflexivity.
  rewrite IH by (intro X; apply H; right; exact X). apply hupd_other. intro E; apply H; left; symmetry; exact E.
Qed.

Lemma alloc_copy_fresh : forall src fresh h, length fresh = length src -> NoDup fresh -> (forall l, In l src -> ~ In l fresh) ->
  map (alloc_copy h src fresh) fresh = map h src.
Proof.
  induction src as [|s src IH]; intros [|f fresh] h HL HN HS; cbn [alloc_copy map length] in *; try discriminate HL; [reflexivity|].
  inversion_clear HN as [|? ? Hf HN']. f_equal.
  - rewrite alloc_copy_outside by exact Hf. apply hupd_same.
  - rewrite IH; [| lia | exact HN' | intros l Hl X; apply (HS l (or_intror Hl)); right; exact X].
    apply map_ext_in. intros l Hl. apply hupd_other. intro E. subst l. apply (HS f (or_intror Hl)). left; reflexivity.
Qed.

(* copy is faithful: the copy denotes what the original denoted, and the original still denotes the same *)
Theorem copy_faithful : forall h fresh o, length fresh = length (olocs o) -> NoDup fresh -> (forall l, In l (olocs o) -> ~ In l fresh) ->
  let '(h', c) := copy_obj h fresh o in denote h' c = denote h o /\ denote h' o = denote h o.
Proof.
  intros h fresh o HL HN HS. unfold copy_obj, denote. cbn [olocs oscal]. split; f_equal.
  - apply alloc_copy_fresh; assumption.
  - apply map_ext_in. intros l Hl. apply alloc_copy_outside. apply HS. exact Hl.
Qed.

(* copy is independent: the two objects share no array ... *)
Theorem copy_separate : forall h fresh o, (forall l, In l (olocs o) -> ~ In l fresh) ->
  sep o (snd (copy_obj h fresh o)) /\ sep (snd (copy_obj h fresh o)) o.
Proof.
  intros h fresh o HS. unfold sep, copy_obj; cbn [snd olocs]. split; intros l H1 H2; [exact (HS l H1 H2) | exact (HS l H2 H1)].
Qed.

(* ... hence mutating either one, in any way and any number of times, never changes the other *)
Corollary copy_independent_forever : forall h fresh o fs, length fresh = length (olocs o) -> NoDup fresh -> (forall l, In l (olocs o) -> ~ In l fresh) ->
  let '(h', c) := copy_obj h fresh o in
  (Forall (fun f => respects f (olocs c)) fs -> denote (fold_left (fun hh f => f hh) fs h') o = denote h o) /\
  (Forall (fun f => respects f (olocs o)) fs -> denote (fold_left (fun hh f => f hh) fs h') c = denote h o).
Proof.
  intros h fresh o fs HL HN HS. pose proof (copy_faithful h fresh o HL HN HS) as HF. pose proof (copy_separate h fresh o HS) as [S1 S2].
  unfold copy_obj in *. cbn [snd] in *. destruct HF as [F1 F2]. split; intro HR.
  - rewrite (separation_forever o _ fs _ S1 HR). exact F2.
  - rewrite (separation_forever _ o fs _ S2 HR). exact F1.
Qed.

(* conversely, a copy() that passes an array attribute without .copy() is NOT independent: a write through the copy is seen by the original *)
Theorem sharing_copy_refuted : exists h fresh o f,
  let '(h', c) := copy_obj_sharing h fresh [true] o in respects f (olocs c) /\ denote (f h') o <> denote h' o.
Proof.
  exists (fun _ => [0%Z]), [1%nat], {| olocs := [0%nat]; oscal := [] |}, (fun h => hupd h 0%nat [7%Z]).
  cbn. split.
  - intros h l H. apply hupd_other. intro E. apply H. left. symmetry. exact E.
  - intro E. discriminate E.
Qed.

(* a query writes nothing: empty footprint, so every object denotes the same afterwards *)
Theorem query_frame : forall f h o, respects f [] -> denote (f h) o = denote h o.
Proof. intros f h o H. apply (frame f []); [exact H | intros l _ X; exact X]. Qed.

(* an in-place operation writes only into its receiver: arguments separated from the receiver are unchanged *)
Theorem inplace_frame : forall f h recv arg, respects f (olocs recv) -> sep arg recv -> denote (f h) arg = denote h arg.
Proof. intros f h recv arg H S. apply (frame f (olocs recv)); assumption. Qed.

(* the copy table extracted from the source: every array attribute is passed as a fresh array and bound to the parameter of the same name; no attribute is forgotten *)
Lemma copy_table_is_ok : copy_table_ok = true.
Proof. vm_compute. reflexivity. Qed.
Lemma copy_table_is_complete : copy_table_complete = true.
Proof. vm_compute. reflexivity. Qed.
