(* Proofs/SbrgFacts.v -- invariants of the SBRG loop (Model/Sbrg.v):
   MAIN 2  the circuit consists of local rotation gates, those of iteration i0 acting on qubits >= i0 only;
   MAIN 1  the effective Hamiltonian is diagonal, for every input, N and tolerances (code after the repair e14aace);
           for the loop before the repair (sbrg_old) the statement is refuted by two witnesses;
   MAIN 3  on commuting Hamiltonians with zero tolerances (N >= 1) the run is exact: heff = the input rotated by the circuit. *)
From Coq Require Import ZArith List Bool Lia ZifyBool Arith.
From Coq Require Import QArith Qcanon.
From PC Require Import Gen.Kernels Model.Base Model.Pauli Model.Ket Model.CMap Model.Spec Model.Circuit Model.Diag
  Model.Poly Model.PolySem Model.Sbrg
  Proofs.PauliFacts Proofs.Rotate Proofs.CircuitFacts Proofs.DiagFacts Proofs.DiagCircuitFacts Proofs.MaskFacts
  Proofs.PolyFacts Proofs.TraceFacts Proofs.ProjectorFacts Proofs.UnitaryFacts Proofs.CompileFacts.
Import ListNotations.
Open Scope Z_scope.
Ltac Zify.zify_post_hook ::= Z.to_euclidean_division_equations.

(* ------------------------------------------------------------------ statements' vocabulary (names fixed) *)
Definition ztype_upto (k : nat) (g : pstr) : Prop := forall j, (j < k)%nat -> fst (nth j g (false,false)) = false.      (* no X or Y component on qubits < k *)
Definition diagonal (g : pstr) : Prop := ztype_upto (length g) g.

Definition tstr (t : term) : pstr := fst (snd t).
(* terms are well formed: n sites, phase in [0,4) *)
Definition pwf (n : nat) (p : poly) : Prop := Forall (fun t : term => wf n (snd t)) p.

(* ------------------------------------------------------------------ lists *)
Lemma Forall_filter : forall (A : Type) (P : A -> Prop) (f : A -> bool) l, Forall P l -> Forall P (filter f l).
Proof.
  intros A P f l H. rewrite Forall_forall in *. intros x Hx. apply filter_In in Hx. apply H. exact (proj1 Hx).
Qed.

Lemma Forall_filter_true : forall (A : Type) (f : A -> bool) l, Forall (fun x => f x = true) (filter f l).
Proof. intros A f l. apply Forall_forall. intros x Hx. apply filter_In in Hx. exact (proj2 Hx). Qed.

Lemma Forall_firstn : forall (A : Type) (P : A -> Prop) k l, Forall P l -> Forall P (firstn k l).
Proof.
  intros A P k. induction k as [|k IH]; intros [|a l] H; cbn [firstn]; try constructor.
  - inversion H; assumption.
  - apply IH. inversion H; assumption.
Qed.

Lemma filter_nil_all : forall (A : Type) (f : A -> bool) l, filter f l = [] -> Forall (fun x => f x = false) l.
Proof.
  intros A f. induction l as [|a l IH]; intros H; [constructor|].
  cbn [filter] in H. destruct (f a) eqn:E; [discriminate H|]. constructor; [exact E | apply IH; exact H].
Qed.

Lemma Forall_and_in : forall (A : Type) (P Q : A -> Prop) l, Forall P l -> Forall Q l -> Forall (fun x => P x /\ Q x) l.
Proof. intros A P Q l HP HQ. rewrite Forall_forall in *. intros x Hx. split; auto. Qed.

Lemma map2_map_snd : forall (F : pauli -> pauli) (p : poly),
  map2 (fun (t : term) (a : pauli) => (fst t, a)) p (map F (map snd p)) = map (fun t => (fst t, F (snd t))) p.
Proof. intros F. induction p as [|t p IH]; [reflexivity|]. cbn [map map2]. rewrite IH. reflexivity. Qed.

(* ------------------------------------------------------------------ reduce keeps properties of the strings; its phases are 0 *)
Lemma insert_Forall_str : forall (P : pstr -> Prop) g c acc, P g ->
  Forall (fun b : pstr * coef => P (fst b)) acc -> Forall (fun b : pstr * coef => P (fst b)) (insert_term g c acc).
Proof.
  intros P g c acc Hg. induction acc as [|[h d] r IH]; intros HF; cbn [insert_term].
  - constructor; [exact Hg | constructor].
  - inversion_clear HF as [|? ? Hh Hr]. destruct (bits_cmp (flat g) (flat h)).
    + constructor; [exact Hh | exact Hr].
    + constructor; [exact Hg|]. constructor; [exact Hh | exact Hr].
    + constructor; [exact Hh | apply IH; exact Hr].
Qed.

Lemma aggregate_Forall_str : forall (P : pstr -> Prop) (p : poly), Forall (fun t => P (tstr t)) p ->
  Forall (fun b : pstr * coef => P (fst b)) (aggregate p).
Proof.
  intros P p. unfold aggregate.
  assert (G : forall acc, Forall (fun b : pstr * coef => P (fst b)) acc -> Forall (fun t => P (tstr t)) p ->
              Forall (fun b : pstr * coef => P (fst b))
                (fold_left (fun acc t => insert_term (fst (snd t)) (cipow (snd (snd t)) (fst t)) acc) p acc)).
  { induction p as [|t p IH]; intros acc Ha Hp; cbn [fold_left]; [exact Ha|].
    inversion_clear Hp as [|? ? Ht Hp']. apply IH; [|exact Hp']. apply insert_Forall_str; assumption. }
  intros Hp. apply G; [constructor | exact Hp].
Qed.

Lemma reduce_Forall_str : forall (P : pstr -> Prop) tol2 (p : poly), Forall (fun t => P (tstr t)) p ->
  Forall (fun t => P (tstr t)) (reduce tol2 p).
Proof.
  intros P tol2 p Hp. unfold reduce. apply Forall_map. apply Forall_filter.
  pose proof (aggregate_Forall_str P p Hp) as H. eapply Forall_impl; [|exact H]. intros [g c] Hg. exact Hg.
Qed.

Lemma reduce_pwf : forall n tol2 p, well_sized n p -> pwf n (reduce tol2 p).
Proof.
  intros n tol2 p W. unfold pwf. apply Forall_forall. intros t Ht. split.
  - pose proof (reduce_Forall_str (fun g => length g = n) tol2 p W) as H. rewrite Forall_forall in H. exact (H t Ht).
  - rewrite (reduce_phases_zero tol2 p t Ht). lia.
Qed.

Lemma pwf_well_sized : forall n p, pwf n p -> well_sized n p.
Proof. intros n p H. eapply Forall_impl; [|exact H]. intros t [L _]. exact L. Qed.

Lemma pwf_phases : forall n p, pwf n p -> Forall (fun t : term => 0 <= snd (snd t) < 4) p.
Proof. intros n p H. eapply Forall_impl; [|exact H]. intros t [_ R]. exact R. Qed.

Lemma pwf_of : forall n p, well_sized n p -> Forall (fun t : term => 0 <= snd (snd t) < 4) p -> pwf n p.
Proof. intros n p W R. apply Forall_and_in; assumption. Qed.

Lemma pwf_app : forall n p q, pwf n p -> pwf n q -> pwf n (p ++ q).
Proof. intros n p q Hp Hq. apply Forall_app. split; assumption. Qed.

(* ------------------------------------------------------------------ the causal rotation gates act on the suffix of every term *)
Definition causal_rot (gen : pauli) (i0 : nat) (a : pauli) : pauli :=
  let r := rotate1 gen (skipn i0 (fst a), snd a) in (firstn i0 (fst a) ++ fst r, snd r).
Definition causal_fold (gens : list pstr) (i0 : nat) (a : pauli) : pauli :=
  let r := rot_fold gens (skipn i0 (fst a), snd a) in (firstn i0 (fst a) ++ fst r, snd r).

Lemma wf_split : forall i0 k (a : pauli), wf (i0 + k) a ->
  length (firstn i0 (fst a)) = i0 /\ length (skipn i0 (fst a)) = k /\ wf k (skipn i0 (fst a), snd a).
Proof.
  intros i0 k a [L R]. assert (H1 : length (firstn i0 (fst a)) = i0) by (apply firstn_length_le; lia).
  assert (H2 : length (skipn i0 (fst a)) = k) by (rewrite skipn_length; lia).
  split; [exact H1|]. split; [exact H2|]. split; cbn [fst snd]; assumption.
Qed.

Lemma causal_rot_wf : forall i0 k gen a, wf k gen -> wf (i0 + k) a -> wf (i0 + k) (causal_rot gen i0 a).
Proof.
  intros i0 k gen a Hg Ha. destruct (wf_split i0 k a Ha) as (H1 & H2 & H3).
  destruct (rotate_wf k gen _ Hg H3) as [L R]. unfold causal_rot. split; cbn [fst snd].
  - rewrite app_length, H1, L. reflexivity.
  - exact R.
Qed.

Lemma causal_gate_forward : forall (gen : pauli) i0 k (p : poly), length (fst gen) = k -> pwf (i0 + k) p ->
  poly_gate_forward (i0 + k) (rotation_gate gen (Some (seq i0 k))) p = map (fun t => (fst t, causal_rot gen i0 (snd t))) p.
Proof.
  intros gen i0 k p HL Hp. unfold poly_gate_forward.
  assert (EF : exists F, forall l, gate_forward (i0 + k) (rotation_gate gen (Some (seq i0 k))) l = Some (map F l)).
  { rewrite (rotation_gate_causal_eq gen i0 k HL). unfold gate_forward. cbn [gk].
    match goal with |- context [if ?b then _ else _] => destruct b end; eexists; intros l; reflexivity. }
  destruct EF as [F HF]. rewrite HF, map2_map_snd. apply map_ext_in. intros t Ht. f_equal.
  unfold pwf in Hp. rewrite Forall_forall in Hp. specialize (Hp t Ht).
  destruct (wf_split i0 k _ Hp) as (H1 & H2 & _).
  pose proof (rotation_gate_causal_acts gen i0 k _ _ (snd (snd t)) HL H1 H2 (proj2 Hp)) as E.
  rewrite HF in E. cbn [map] in E. rewrite firstn_skipn in E. injection E as E.
  replace (snd t) with (fst (snd t), snd (snd t)) at 1 by (destruct (snd t); reflexivity). exact E.
Qed.

Lemma causal_fold_cons : forall i0 k gen gens (a : pauli), length gen = k -> wf (i0 + k) a ->
  causal_fold (gen :: gens) i0 a = causal_fold gens i0 (causal_rot (gen, 0) i0 a).
Proof.
  intros i0 k gen gens a Hg Ha. destruct (wf_split i0 k a Ha) as (H1 & H2 & H3).
  unfold causal_fold, causal_rot. cbn [fst snd]. rewrite rot_fold_cons.
  rewrite (firstn_app_exact _ i0) by exact H1. rewrite (skipn_app_exact _ i0) by exact H1.
  rewrite <- surjective_pairing. reflexivity.
Qed.

Lemma poly_gates_forward_nil : forall n p, poly_gates_forward n [] p = p.
Proof. reflexivity. Qed.
Lemma poly_gates_forward_cons : forall n g gs p, poly_gates_forward n (g :: gs) p = poly_gates_forward n gs (poly_gate_forward n g p).
Proof. reflexivity. Qed.
Lemma poly_gates_forward_app : forall n gs1 gs2 p, poly_gates_forward n (gs1 ++ gs2) p = poly_gates_forward n gs2 (poly_gates_forward n gs1 p).
Proof. intros. unfold poly_gates_forward. apply fold_left_app. Qed.

Lemma causal_gates_forward : forall i0 k gens (p : poly), Forall (fun x : pstr => length x = k) gens -> pwf (i0 + k) p ->
  poly_gates_forward (i0 + k) (map (fun gen => rotation_gate (gen, 0) (Some (seq i0 k))) gens) p
  = map (fun t => (fst t, causal_fold gens i0 (snd t))) p.
Proof.
  intros i0 k gens. induction gens as [|gen gens IH]; intros p HF Hp.
  - cbn [map]. rewrite poly_gates_forward_nil. rewrite <- (map_id p) at 1. apply map_ext_in. intros t Ht.
    unfold pwf in Hp. rewrite Forall_forall in Hp. specialize (Hp t Ht).
    unfold causal_fold. rewrite rot_fold_nil. cbn [fst snd]. rewrite firstn_skipn. destruct t as [c [g ph]]; reflexivity.
  - inversion_clear HF as [|? ? Hg HF']. cbn [map]. rewrite poly_gates_forward_cons.
    rewrite (causal_gate_forward (gen, 0) i0 k p Hg Hp).
    rewrite IH; [|exact HF'|].
    + rewrite map_map. apply map_ext_in. intros t Ht. cbn [fst snd]. f_equal. symmetry.
      unfold pwf in Hp. rewrite Forall_forall in Hp. apply (causal_fold_cons i0 k); [exact Hg | exact (Hp t Ht)].
    + unfold pwf. apply Forall_map. eapply Forall_impl; [|exact Hp]. intros t Ht. cbn [snd].
      apply causal_rot_wf; [apply gen0_wf; exact Hg | exact Ht].
Qed.

Lemma causal_fold_wf : forall i0 k gens a, Forall (fun x : pstr => length x = k) gens -> wf (i0 + k) a -> wf (i0 + k) (causal_fold gens i0 a).
Proof.
  intros i0 k gens a HF Ha. destruct (wf_split i0 k a Ha) as (H1 & H2 & H3).
  destruct (rot_fold_wf k gens _ HF H3) as [L R]. unfold causal_fold. split; cbn [fst snd].
  - rewrite app_length, H1, L. reflexivity.
  - exact R.
Qed.

(* the gate program of the causal diagonalize *)
Lemma diagonalize_pauli_causal_eq : forall n g i0, length g = n -> (i0 < n)%nat ->
  diagonalize_pauli g i0 true = map (fun gen => rotation_gate (gen, 0) (Some (seq i0 (n - i0)))) (diagonalize1 (skipn i0 g) 0)
  /\ Forall (fun x : pstr => length x = (n - i0)%nat) (diagonalize1 (skipn i0 g) 0).
Proof.
  intros n g i0 HL Hi. split.
  - unfold diagonalize_pauli. rewrite HL. reflexivity.
  - assert (HS : length (skipn i0 g) = (n - i0)%nat) by (rewrite skipn_length, HL; reflexivity).
    rewrite <- HS. apply diag1_length. rewrite HS. lia.
Qed.

Lemma causal_gates_ok : forall n i0 gens, (i0 < n)%nat -> Forall (fun x : pstr => length x = (n - i0)%nat) gens ->
  Forall (fun gt => gate_ok n gt /\ Forall (fun q => (i0 <= q)%nat) (gq gt))
         (map (fun gen => rotation_gate (gen, 0) (Some (seq i0 (n - i0)))) gens).
Proof.
  intros n i0 gens Hi HF. apply Forall_map. eapply Forall_impl; [|exact HF]. intros gen Hg. cbv beta in Hg. split.
  - replace n with (i0 + (n - i0))%nat at 1 by lia. apply rotation_gate_causal_ok. exact Hg.
  - rewrite (rotation_gate_causal_eq (gen, 0) i0 (n - i0) Hg). cbn [gq].
    apply Forall_forall. intros q Hq. apply in_map_iff in Hq. destruct Hq as [q' [<- _]]. lia.
Qed.

(* ------------------------------------------------------------------ argmax *)
Lemma argmax_from_bound : forall p i best bn, (best < i)%nat -> (argmax_from p i best bn < i + length p)%nat.
Proof.
  induction p as [|t r IH]; intros i best bn H; cbn [argmax_from length]; [lia|].
  destruct (negb (Qcle_bool (cnorm2 (fst t)) bn)).
  - specialize (IH (S i) i (cnorm2 (fst t)) ltac:(lia)). lia.
  - specialize (IH (S i) best bn ltac:(lia)). lia.
Qed.

Lemma argmax_norm_lt : forall t r, (argmax_norm (t :: r) < length (t :: r))%nat.
Proof. intros t r. cbn [argmax_norm length]. pose proof (argmax_from_bound r 1 0 (cnorm2 (fst t)) ltac:(lia)). lia. Qed.

Lemma term_get_In : forall p i, (i < length p)%nat -> In (term_get p i) p.
Proof. intros p i H. unfold term_get. apply nth_In. exact H. Qed.

(* ------------------------------------------------------------------ x-bits of strings *)
Definition xbit (g : pstr) (j : nat) : bool := fst (sget g j).

Lemma ztype_upto_xbit : forall k g, ztype_upto k g <-> (forall j, (j < k)%nat -> xbit g j = false).
Proof. intros k g. split; intros H j Hj; exact (H j Hj). Qed.

Lemma xbit_gxor : forall a b j, length a = length b -> xbit (gxor a b) j = xorb (xbit a j) (xbit b j).
Proof. intros a b j H. unfold xbit. rewrite sget_gxor by exact H. rewrite xor_site_spec. reflexivity. Qed.

Lemma ztype_gxor : forall k a b, length a = length b -> ztype_upto k a -> ztype_upto k b -> ztype_upto k (gxor a b).
Proof.
  intros k a b HL Ha Hb. apply ztype_upto_xbit. intros j Hj. rewrite xbit_gxor by exact HL.
  rewrite (proj1 (ztype_upto_xbit k a) Ha j Hj), (proj1 (ztype_upto_xbit k b) Hb j Hj). reflexivity.
Qed.

Lemma ztype_S : forall k g, ztype_upto k g -> xbit g k = false -> ztype_upto (S k) g.
Proof.
  intros k g H Hk. apply ztype_upto_xbit. intros j Hj.
  destruct (Nat.eq_dec j k) as [->|Hne]; [exact Hk|]. apply (proj1 (ztype_upto_xbit k g) H). lia.
Qed.

Lemma ztype_weaken : forall k k' g, (k' <= k)%nat -> ztype_upto k g -> ztype_upto k' g.
Proof. intros k k' g Hle H j Hj. apply H. lia. Qed.

Lemma sget_app1 : forall (x y : pstr) j, (j < length x)%nat -> sget (x ++ y) j = sget x j.
Proof. intros x y j H. unfold sget. apply app_nth1. exact H. Qed.
Lemma sget_app2 : forall (x y : pstr) j, (length x <= j)%nat -> sget (x ++ y) j = sget y (j - length x).
Proof. intros x y j H. unfold sget. apply app_nth2. lia. Qed.

Lemma sget_skipn : forall i (g : pstr) j, sget (skipn i g) j = sget g (i + j).
Proof.
  induction i as [|i IH]; intros g j; [reflexivity|].
  destruct g as [|s g]; [cbn [skipn]; rewrite !sget_nil; reflexivity|].
  cbn [skipn Nat.add]. rewrite sget_cons_S. apply IH.
Qed.

Lemma is_id_str_all : forall g, (forall j, nontrivial (sget g j) = false) -> is_id_str g = true.
Proof.
  intros g H. destruct (is_id_str g) eqn:E; [reflexivity|].
  destruct (is_id_str_false g E) as [j [_ Hj]]. rewrite H in Hj. discriminate Hj.
Qed.

Lemma is_id_skipn_S : forall i g, is_id_str (skipn i g) = true -> is_id_str (skipn (S i) g) = true.
Proof.
  intros i g H. apply is_id_str_all. intros j. rewrite sget_skipn.
  pose proof (is_id_str_true _ H (S j)) as E. rewrite sget_skipn in E.
  replace (S i + j)%nat with (i + S j)%nat by lia. exact E.
Qed.

Lemma nontrivial_xbit : forall s, nontrivial s = false -> fst s = false.
Proof. intros [x z] H. unfold nontrivial in H. cbn [fst snd] in *. destruct x; [discriminate H | reflexivity]. Qed.

Lemma is_id_diagonal : forall g, is_id_str g = true -> diagonal g.
Proof. intros g H j _. apply nontrivial_xbit. exact (is_id_str_true g H j). Qed.

(* Z-type up to and including i0 and trivial beyond i0 = diagonal *)
Lemma ztype_trivial_diagonal : forall i0 g, ztype_upto (S i0) g -> is_id_str (skipn (S i0) g) = true -> diagonal g.
Proof.
  intros i0 g HZ HT j _. destruct (Nat.lt_ge_cases j (S i0)) as [Hlt|Hge]; [exact (HZ j Hlt)|].
  apply nontrivial_xbit. pose proof (is_id_str_true _ HT (j - S i0)%nat) as E. rewrite sget_skipn in E.
  replace (S i0 + (j - S i0))%nat with j in E by lia. exact E.
Qed.

Lemma ztype_app_prefix : forall i0 (x y : pstr), length x = i0 -> ztype_upto i0 (x ++ y) <-> ztype_upto i0 x.
Proof.
  intros i0 x y HL. split; intros H j Hj.
  - pose proof (H j Hj) as E. change (fst (sget (x ++ y) j) = false) in E. rewrite sget_app1 in E by lia. exact E.
  - change (fst (sget (x ++ y) j) = false). rewrite sget_app1 by lia. exact (H j Hj).
Qed.

(* ------------------------------------------------------------------ strings and phases of products, inverses *)
Lemma pmulp_In : forall p q u, In u (pmulp p q) -> exists s t, In s p /\ In t q /\ tstr u = gxor (tstr s) (tstr t) /\ 0 <= snd (snd u) < 4.
Proof.
  intros p q u H. unfold pmulp in H. apply in_flat_map in H. destruct H as [s [Hs H]].
  apply in_map_iff in H. destruct H as [t [E Ht]]. exists s, t. subst u. unfold tstr, np_batch_dot_phase. cbn [fst snd].
  repeat split; try assumption; lia.
Qed.

Lemma pmulp_pwf : forall n p q, well_sized n p -> well_sized n q -> pwf n (pmulp p q).
Proof.
  intros n p q Wp Wq. apply pwf_of; [apply well_sized_pmulp; assumption|].
  apply Forall_forall. intros u Hu. destruct (pmulp_In p q u Hu) as (s & t & _ & _ & _ & R). exact R.
Qed.

Lemma pmulp_Forall_str : forall (P : pstr -> Prop) p q,
  (forall s t, In s p -> In t q -> P (gxor (tstr s) (tstr t))) -> Forall (fun u => P (tstr u)) (pmulp p q).
Proof.
  intros P p q H. apply Forall_forall. intros u Hu. destruct (pmulp_In p q u Hu) as (s & t & Hs & Ht & E & _).
  rewrite E. apply H; assumption.
Qed.

Lemma pscal_str : forall (P : term -> Prop) c p, (forall t, P t -> P (cmul c (fst t), snd t)) -> Forall P p -> Forall P (pscal c p).
Proof. intros P c p H HF. unfold pscal. apply Forall_map. eapply Forall_impl; [|exact HF]. exact H. Qed.

Lemma mono_inverse_snd : forall t, tstr (mono_inverse t) = tstr t /\ 0 <= snd (snd (mono_inverse t)) < 4.
Proof.
  intros t. unfold mono_inverse, o_div, o_rmul, tstr.
  repeat match goal with |- context [if ?b then _ else _] => destruct b end; cbn [fst snd];
    unfold np_Pauli_rmul_i, np_Pauli_rmul_m1, np_Pauli_rmul_mi; split; try reflexivity; lia.
Qed.

(* ------------------------------------------------------------------ the perturbative update *)
Lemma perturb_pwf : forall n tol2 dtol2 i0 leading htmp, pwf n htmp -> (leading < length htmp)%nat ->
  pwf n (sbrg_perturb tol2 dtol2 i0 leading htmp).
Proof.
  intros n tol2 dtol2 i0 leading htmp H Hlead. unfold sbrg_perturb.
  destruct (Nat.eqb _ 0); [exact H|].
  destruct (firstn _ _) as [|u prod] eqn:EP; [apply Forall_filter; exact H|]. rewrite <- EP.
  set (offdiag := filter (fun t => negb (commutes_at i0 t)) htmp) in *.
  assert (Wo : well_sized n offdiag) by (apply pwf_well_sized, Forall_filter; exact H).
  assert (Wprod : well_sized n (firstn (2 * length offdiag) (reduce tol2 (pmulp offdiag offdiag)))).
  { apply Forall_firstn. apply pwf_well_sized, reduce_pwf, well_sized_pmulp; exact Wo. }
  apply reduce_pwf. apply well_sized_app.
  - apply pwf_well_sized, Forall_filter. exact H.
  - unfold pscal. apply Forall_map. cbn [fst snd].
    assert (W1 : well_sized n [mono_inverse (term_get htmp leading)]).
    { constructor; [|constructor]. cbv beta. destruct (mono_inverse_snd (term_get htmp leading)) as [E _].
      change (length (tstr (mono_inverse (term_get htmp leading))) = n). rewrite E.
      pose proof (pwf_well_sized n htmp H) as W. unfold well_sized in W. rewrite Forall_forall in W.
      apply (W (term_get htmp leading)). apply term_get_In. exact Hlead. }
    exact (well_sized_pmulp n _ _ W1 Wprod).
Qed.

(* ------------------------------------------------------------------ the rotation stage of an iteration *)
Lemma step_rotation : forall n i0 (htmp1 : poly) lead, pwf n htmp1 -> (i0 < n)%nat -> In lead htmp1 ->
  let gens := diagonalize1 (skipn i0 (tstr lead)) 0 in
  Forall (fun x : pstr => length x = (n - i0)%nat) gens /\
  diagonalize_pauli (fst (snd lead)) i0 true = map (fun gen => rotation_gate (gen, 0) (Some (seq i0 (n - i0)))) gens /\
  forall p, pwf n p ->
    poly_gates_forward n (diagonalize_pauli (fst (snd lead)) i0 true) p = map (fun t => (fst t, causal_fold gens i0 (snd t))) p.
Proof.
  intros n i0 htmp1 lead Hp Hi Hin gens.
  assert (HL : length (fst (snd lead)) = n).
  { unfold pwf in Hp. rewrite Forall_forall in Hp. exact (proj1 (Hp lead Hin)). }
  destruct (diagonalize_pauli_causal_eq n (fst (snd lead)) i0 HL Hi) as [E HF].
  split; [exact HF|]. split; [exact E|]. intros p Hpp. rewrite E.
  replace n with (i0 + (n - i0))%nat at 1 by lia. apply causal_gates_forward; [exact HF|].
  replace (i0 + (n - i0))%nat with n by lia. exact Hpp.
Qed.

Lemma rotated_pwf : forall n i0 gens (p : poly), (i0 < n)%nat -> Forall (fun x : pstr => length x = (n - i0)%nat) gens -> pwf n p ->
  pwf n (map (fun t : term => (fst t, causal_fold gens i0 (snd t))) p).
Proof.
  intros n i0 gens p Hi HF Hp. unfold pwf. apply Forall_map. eapply Forall_impl; [|exact Hp]. intros t Ht. cbn [snd].
  replace n with (i0 + (n - i0))%nat by lia. apply causal_fold_wf; [exact HF|].
  replace (i0 + (n - i0))%nat with n by lia. exact Ht.
Qed.

(* ------------------------------------------------------------------ unfolding one iteration *)
Lemma sbrg_step_break : forall n tol2 dtol2 st i0, sbrg_breaks st = true ->
  sbrg_step n tol2 dtol2 st i0 =
  {| s_htmp := []; s_heff := reduce dtol2 (s_heff st ++ filter is_identity_term (s_htmp st)); s_gates := s_gates st |}.
Proof.
  intros n tol2 dtol2 st i0 H. unfold sbrg_breaks in H. unfold sbrg_step.
  destruct (filter (fun t => negb (is_identity_term t)) (s_htmp st)); [reflexivity | discriminate H].
Qed.

Lemma sbrg_step_go : forall n tol2 dtol2 st i0, sbrg_breaks st = false ->
  let htmp1 := filter (fun t => negb (is_identity_term t)) (s_htmp st) in
  let leading := argmax_norm htmp1 in
  let gs := diagonalize_pauli (fst (snd (term_get htmp1 leading))) i0 true in
  let htmp3 := sbrg_perturb tol2 dtol2 i0 leading (poly_gates_forward n gs htmp1) in
  (leading < length htmp1)%nat /\
  sbrg_step n tol2 dtol2 st i0 =
  {| s_htmp := filter (fun t => negb (trivial_after i0 t)) htmp3;
     s_heff := reduce dtol2 (reduce dtol2 (s_heff st ++ filter is_identity_term (s_htmp st)) ++ filter (trivial_after i0) htmp3);
     s_gates := s_gates st ++ gs |}.
Proof.
  intros n tol2 dtol2 st i0 H. unfold sbrg_breaks in H. unfold sbrg_step. cbv zeta.
  destruct (filter (fun t => negb (is_identity_term t)) (s_htmp st)) as [|t0 r]; [discriminate H|].
  split; [apply argmax_norm_lt | reflexivity].
Qed.

(* ------------------------------------------------------------------ MAIN 2 *)
Definition gate_causal (n i0 : nat) (gt : gate) : Prop := gate_ok n gt /\ Forall (fun q => (i0 <= q)%nat) (gq gt).

Lemma step_basic : forall n tol2 dtol2 st i0, (i0 < n)%nat -> pwf n (s_htmp st) ->
  pwf n (s_htmp (sbrg_step n tol2 dtol2 st i0)) /\
  exists gs, s_gates (sbrg_step n tol2 dtol2 st i0) = s_gates st ++ gs /\ Forall (gate_causal n i0) gs.
Proof.
  intros n tol2 dtol2 st i0 Hi Hp. destruct (sbrg_breaks st) eqn:EB.
  - rewrite (sbrg_step_break _ _ _ _ _ EB). cbn [s_htmp s_gates]. split; [constructor|].
    exists []. rewrite app_nil_r. split; [reflexivity | constructor].
  - destruct (sbrg_step_go n tol2 dtol2 st i0 EB) as (Hlead & E). rewrite E. clear E. cbn [s_htmp s_gates].
    set (htmp1 := filter (fun t => negb (is_identity_term t)) (s_htmp st)) in *.
    set (lead := term_get htmp1 (argmax_norm htmp1)) in *.
    assert (Hp1 : pwf n htmp1) by (apply Forall_filter; exact Hp).
    assert (Hin : In lead htmp1) by (apply term_get_In; exact Hlead).
    destruct (step_rotation n i0 htmp1 lead Hp1 Hi Hin) as (HF & EG & ER). rewrite (ER htmp1 Hp1).
    split.
    + apply Forall_filter. apply perturb_pwf.
      * apply rotated_pwf; assumption.
      * rewrite map_length. exact Hlead.
    + eexists. split; [reflexivity|]. rewrite EG. apply causal_gates_ok; assumption.
Qed.

Lemma sbrg_upto_S : forall n tol2 dtol2 h m,
  sbrg_upto n tol2 dtol2 h (S m) = sbrg_iter n tol2 dtol2 (sbrg_upto n tol2 dtol2 h m) m.
Proof. intros. unfold sbrg_upto. rewrite seq_S, fold_left_app. reflexivity. Qed.

Lemma sbrg_upto_0 : forall n tol2 dtol2 h, sbrg_upto n tol2 dtol2 h 0 = (false, sbrg_init n h).
Proof. reflexivity. Qed.

(* induction principle over the loop: P is indexed by the number of iterations done *)
Lemma sbrg_upto_inv : forall n tol2 dtol2 h (P : nat -> sbrg_state -> Prop),
  P 0%nat (sbrg_init n h) ->
  (forall i, (i < n)%nat -> fst (sbrg_upto n tol2 dtol2 h i) = false -> P i (snd (sbrg_upto n tol2 dtol2 h i)) ->
             P (S i) (sbrg_step n tol2 dtol2 (snd (sbrg_upto n tol2 dtol2 h i)) i)) ->
  (forall i st, P i st -> s_htmp st = [] -> P (S i) st) ->
  forall m, (m <= n)%nat ->
    P m (snd (sbrg_upto n tol2 dtol2 h m)) /\
    (fst (sbrg_upto n tol2 dtol2 h m) = true -> s_htmp (snd (sbrg_upto n tol2 dtol2 h m)) = []).
Proof.
  intros n tol2 dtol2 h P H0 Hstep Hstay. induction m as [|m IH]; intros Hm.
  - rewrite sbrg_upto_0. cbn [fst snd]. split; [exact H0 | discriminate].
  - destruct (IH ltac:(lia)) as [IP IF]. rewrite sbrg_upto_S. unfold sbrg_iter.
    destruct (fst (sbrg_upto n tol2 dtol2 h m)) eqn:EF.
    + split; [apply Hstay; [exact IP | apply IF; reflexivity] | intros _; apply IF; reflexivity].
    + cbn [fst snd]. split; [apply Hstep; [lia | exact EF | exact IP]|].
      intros HB. rewrite (sbrg_step_break _ _ _ _ _ HB). reflexivity.
Qed.

(* the gates of the circuit are local rotation gates; those added by iteration i0 act on qubits >= i0 only *)
Fixpoint causal_blocks (n i : nat) (blocks : list (list gate)) : Prop :=
  match blocks with [] => True | b :: r => Forall (gate_causal n i) b /\ causal_blocks n (S i) r end.

Lemma causal_blocks_snoc : forall n blocks i b, causal_blocks n i blocks -> Forall (gate_causal n (i + length blocks)) b ->
  causal_blocks n i (blocks ++ [b]).
Proof.
  intros n. induction blocks as [|c blocks IH]; intros i b H Hb; cbn [app causal_blocks length] in *.
  - rewrite Nat.add_0_r in Hb. split; [exact Hb | exact I].
  - destruct H as [Hc Hr]. split; [exact Hc|]. apply IH; [exact Hr|]. replace (S i + length blocks)%nat with (i + S (length blocks))%nat by lia. exact Hb.
Qed.

Theorem sbrg_gates_causal : forall n tol2 dtol2 h, well_sized n h -> Forall (fun t => 0 <= snd (snd t) < 4) h ->
  exists blocks, snd (sbrg n tol2 dtol2 h) = concat blocks /\ causal_blocks n 0 blocks.
Proof.
  intros n tol2 dtol2 h W R.
  pose (P := fun (i : nat) (st : sbrg_state) => pwf n (s_htmp st) /\
              exists blocks, length blocks = i /\ s_gates st = concat blocks /\ causal_blocks n 0 blocks).
  destruct (sbrg_upto_inv n tol2 dtol2 h P) with (m := n) as [[_ (blocks & _ & E & HB)] _].
  - split; [apply pwf_of; assumption|]. exists []. repeat split.
  - intros i Hi _ [Hp (blocks & HL & E & HB)].
    destruct (step_basic n tol2 dtol2 _ i Hi Hp) as [Hp' (gs & EG & HG)]. split; [exact Hp'|].
    exists (blocks ++ [gs]). split; [rewrite app_length, HL; cbn [length]; lia|]. split.
    + rewrite EG, E, concat_app. cbn [concat]. rewrite app_nil_r. reflexivity.
    + apply causal_blocks_snoc; [exact HB|]. rewrite HL. exact HG.
  - intros i st [Hp (blocks & HL & E & HB)] _. split; [exact Hp|].
    exists (blocks ++ [[]]). split; [rewrite app_length, HL; cbn [length]; lia|]. split.
    + rewrite concat_app. cbn [concat]. rewrite !app_nil_r. exact E.
    + apply causal_blocks_snoc; [exact HB | constructor].
  - lia.
  - exists blocks. split; [exact E | exact HB].
Qed.

Lemma causal_blocks_ok : forall n blocks i, causal_blocks n i blocks -> Forall (gate_ok n) (concat blocks).
Proof.
  intros n. induction blocks as [|b r IH]; intros i H; cbn [concat]; [constructor|].
  destruct H as [Hb Hr]. apply Forall_app. split; [|exact (IH _ Hr)].
  eapply Forall_impl; [|exact Hb]. intros g [Hg _]. exact Hg.
Qed.

Theorem sbrg_gates_ok : forall n tol2 dtol2 h, well_sized n h -> Forall (fun t => 0 <= snd (snd t) < 4) h -> Forall (gate_ok n) (snd (sbrg n tol2 dtol2 h)).
Proof.
  intros n tol2 dtol2 h W R. destruct (sbrg_gates_causal n tol2 dtol2 h W R) as (blocks & E & HB).
  rewrite E. exact (causal_blocks_ok n blocks 0 HB).
Qed.

(* ------------------------------------------------------------------ MAIN 1: structure of the terms *)
Lemma commutes_at_xbit : forall i0 t, commutes_at i0 t = negb (xbit (tstr t) i0).
Proof. reflexivity. Qed.

Lemma perturb_ztype : forall n tol2 dtol2 i0 leading htmp, pwf n htmp ->
  Forall (fun t => ztype_upto i0 (tstr t)) htmp -> (leading < length htmp)%nat ->
  ztype_upto (S i0) (tstr (term_get htmp leading)) ->
  Forall (fun t => ztype_upto (S i0) (tstr t)) (sbrg_perturb tol2 dtol2 i0 leading htmp).
Proof.
  intros n tol2 dtol2 i0 leading htmp Hp HZ Hlead HLZ. unfold sbrg_perturb.
  assert (Hdiag : Forall (fun t => ztype_upto (S i0) (tstr t)) (filter (commutes_at i0) htmp)).
  { pose proof (Forall_and_in _ _ _ _ (Forall_filter _ _ (commutes_at i0) _ HZ) (Forall_filter_true _ (commutes_at i0) htmp)) as H.
    eapply Forall_impl; [|exact H]. intros t [H1 H2]. cbv beta in H1, H2.
    apply ztype_S; [exact H1|]. rewrite commutes_at_xbit in H2. apply negb_true_iff in H2. exact H2. }
  set (offdiag := filter (fun t => negb (commutes_at i0 t)) htmp) in *.
  destruct (Nat.eqb (length offdiag) 0) eqn:EL.
  - apply Nat.eqb_eq in EL. apply length_zero_iff_nil in EL. apply filter_nil_all in EL.
    pose proof (Forall_and_in _ _ _ _ HZ EL) as H. eapply Forall_impl; [|exact H]. intros t [H1 H2]. cbv beta in H1, H2.
    apply ztype_S; [exact H1|]. rewrite commutes_at_xbit, negb_involutive in H2. exact H2.
  - destruct (firstn (2 * length offdiag) (reduce tol2 (pmulp offdiag offdiag))) as [|u prod] eqn:EP; [exact Hdiag|].
    rewrite <- EP.
    assert (Ho : Forall (fun t : term => (length (tstr t) = n /\ ztype_upto i0 (tstr t)) /\ xbit (tstr t) i0 = true) offdiag).
    { apply Forall_and_in.
      - apply Forall_filter. apply Forall_and_in; [exact (pwf_well_sized n htmp Hp) | exact HZ].
      - pose proof (Forall_filter_true _ (fun t => negb (commutes_at i0 t)) htmp) as H.
        eapply Forall_impl; [|exact H]. intros t Ht. cbv beta in Ht. rewrite commutes_at_xbit, negb_involutive in Ht. exact Ht. }
    rewrite Forall_forall in Ho.
    assert (Hprod : Forall (fun t : term => length (tstr t) = n /\ ztype_upto (S i0) (tstr t))
                      (firstn (2 * length offdiag) (reduce tol2 (pmulp offdiag offdiag)))).
    { apply Forall_firstn. apply (reduce_Forall_str (fun g => length g = n /\ ztype_upto (S i0) g)).
      apply (pmulp_Forall_str (fun g => length g = n /\ ztype_upto (S i0) g)). intros s t Hs Ht.
      destruct (Ho s Hs) as [[Ls Zs] Xs]. destruct (Ho t Ht) as [[Lt Zt] Xt].
      assert (LL : length (tstr s) = length (tstr t)) by (rewrite Ls, Lt; reflexivity).
      split; [rewrite gxor_length by exact LL; exact Ls|].
      apply ztype_S; [apply ztype_gxor; assumption|]. rewrite xbit_gxor by exact LL. rewrite Xs, Xt. reflexivity. }
    apply (reduce_Forall_str (fun g => ztype_upto (S i0) g)). apply Forall_app. split.
    + exact Hdiag.
    + unfold pscal. apply Forall_map. cbn [fst snd].
      apply (pmulp_Forall_str (fun g => ztype_upto (S i0) g)). intros s t Hs Ht.
      destruct Hs as [<-|[]]. rewrite Forall_forall in Hprod. destruct (Hprod t Ht) as [Lt Zt].
      destruct (mono_inverse_snd (term_get htmp leading)) as [E _]. rewrite E.
      apply ztype_gxor; [|exact HLZ | exact Zt].
      rewrite Lt. pose proof (pwf_well_sized n htmp Hp) as W. unfold well_sized in W. rewrite Forall_forall in W.
      apply (W (term_get htmp leading)). apply term_get_In. exact Hlead.
Qed.

(* the rotated leading term is  prefix (x) Z_{i0} *)
Lemma lead_rotated : forall n i0 (a : pauli), wf n a -> (i0 < n)%nat -> is_id_str (skipn i0 (fst a)) = false ->
  fst (causal_fold (diagonalize1 (skipn i0 (fst a)) 0) i0 a) = firstn i0 (fst a) ++ z_at (n - i0) 0.
Proof.
  intros n i0 a [L R] Hi Hid. unfold causal_fold. cbn [fst]. rewrite rot_fold_fst. cbn [fst].
  assert (HS : length (skipn i0 (fst a)) = (n - i0)%nat) by (rewrite skipn_length, L; reflexivity).
  rewrite diag1_spec; [rewrite HS; reflexivity | rewrite HS; lia | exact Hid].
Qed.

Lemma causal_fold_prefix : forall n i0 gens (a : pauli), wf n a -> (i0 < n)%nat ->
  exists y, fst (causal_fold gens i0 a) = firstn i0 (fst a) ++ y /\ length (firstn i0 (fst a)) = i0.
Proof.
  intros n i0 gens a [L R] Hi. eexists. split; [reflexivity|]. apply firstn_length_le. lia.
Qed.

Lemma causal_fold_ztype : forall n i0 gens (a : pauli), wf n a -> (i0 < n)%nat -> ztype_upto i0 (fst a) ->
  ztype_upto i0 (fst (causal_fold gens i0 a)).
Proof.
  intros n i0 gens a Ha Hi HZ. destruct (causal_fold_prefix n i0 gens a Ha Hi) as (y & E & HL). rewrite E.
  apply (ztype_app_prefix i0 _ y HL). rewrite <- (firstn_skipn i0 (fst a)) in HZ.
  exact (proj1 (ztype_app_prefix i0 _ _ HL) HZ).
Qed.

Lemma z_at_xbit : forall k j, xbit (z_at k 0) j = false.
Proof.
  intros k j. unfold xbit, z_at. destruct (Nat.eq_dec j 0) as [->|Hne].
  - destruct k; [reflexivity|]. rewrite sget_upd_same by (rewrite id_str_length; lia). reflexivity.
  - rewrite sget_upd_other by lia. rewrite sget_id_str. reflexivity.
Qed.

Lemma lead_rotated_ztype : forall i0 (x : pstr) k, length x = i0 -> ztype_upto i0 x -> ztype_upto (S i0) (x ++ z_at k 0).
Proof.
  intros i0 x k HL HZ. apply ztype_S; [apply (ztype_app_prefix i0 _ _ HL); exact HZ|].
  unfold xbit. rewrite sget_app2 by lia. rewrite HL, Nat.sub_diag. apply z_at_xbit.
Qed.

(* the invariant at the start of iteration i0 *)
Definition hstr_ok (i0 : nat) (g : pstr) : Prop := diagonal g /\ is_id_str (skipn i0 g) = true.
Definition Inv1 (n i0 : nat) (st : sbrg_state) : Prop :=
  pwf n (s_htmp st) /\
  Forall (fun t => ztype_upto i0 (tstr t)) (s_htmp st) /\
  Forall (fun t => is_identity_term t = false -> is_id_str (skipn i0 (tstr t)) = false) (s_htmp st) /\
  pwf n (s_heff st) /\
  Forall (fun t => hstr_ok i0 (tstr t)) (s_heff st).

Lemma hstr_ok_S : forall i0 g, hstr_ok i0 g -> hstr_ok (S i0) g.
Proof. intros i0 g [D T]. split; [exact D | apply is_id_skipn_S; exact T]. Qed.

Lemma Inv1_init : forall n h, well_sized n h -> Forall (fun t => 0 <= snd (snd t) < 4) h -> Inv1 n 0 (sbrg_init n h).
Proof.
  intros n h W R. unfold Inv1, sbrg_init. cbn [s_htmp s_heff].
  split; [apply pwf_of; assumption|]. split; [apply Forall_forall; intros t _ j Hj; lia|].
  split; [apply Forall_forall; intros t _ Ht; exact Ht|].
  split.
  - constructor; [|constructor]. split; cbn [fst snd pid]; [apply id_str_length | lia].
  - constructor; [|constructor]. unfold hstr_ok, tstr. cbn [fst snd pid skipn].
    split; [apply is_id_diagonal|]; apply is_id_str_id.
Qed.

Lemma Inv1_stay : forall n i0 st, Inv1 n i0 st -> s_htmp st = [] -> Inv1 n (S i0) st.
Proof.
  intros n i0 st (H1 & H2 & H3 & H4 & H5) E. unfold Inv1. rewrite E. repeat split; try constructor; try exact H4.
  eapply Forall_impl; [|exact H5]. intros t. apply hstr_ok_S.
Qed.

(* heff after `heff += htmp[mask_identity]` *)
Lemma heff1_ok : forall n dtol2 i0 st, Inv1 n i0 st ->
  pwf n (reduce dtol2 (s_heff st ++ filter is_identity_term (s_htmp st))) /\
  Forall (fun t => hstr_ok i0 (tstr t)) (reduce dtol2 (s_heff st ++ filter is_identity_term (s_htmp st))).
Proof.
  intros n dtol2 i0 st (H1 & H2 & H3 & H4 & H5). split.
  - apply reduce_pwf, well_sized_app; [exact (pwf_well_sized _ _ H4) | apply Forall_filter; exact (pwf_well_sized _ _ H1)].
  - apply (reduce_Forall_str (hstr_ok i0)). apply Forall_app. split; [exact H5|].
    pose proof (Forall_filter_true _ is_identity_term (s_htmp st)) as H. eapply Forall_impl; [|exact H].
    intros t Ht. cbv beta in Ht. unfold is_identity_term in Ht. fold (tstr t) in Ht. split; [apply is_id_diagonal; exact Ht|].
    apply is_id_str_all. intros j. rewrite sget_skipn. exact (is_id_str_true _ Ht _).
Qed.

Lemma Inv1_step : forall n tol2 dtol2 st i0, (i0 < n)%nat -> Inv1 n i0 st ->
  Inv1 n (S i0) (sbrg_step n tol2 dtol2 st i0).
Proof.
  intros n tol2 dtol2 st i0 Hi HI. destruct (heff1_ok n dtol2 i0 st HI) as [Hh1 Hh2].
  destruct HI as (H1 & H2 & H3 & H4 & H5).
  assert (Hh2' : Forall (fun t => hstr_ok (S i0) (tstr t)) (reduce dtol2 (s_heff st ++ filter is_identity_term (s_htmp st)))).
  { eapply Forall_impl; [|exact Hh2]. intros t. apply hstr_ok_S. }
  destruct (sbrg_breaks st) eqn:EB.
  - rewrite (sbrg_step_break _ _ _ _ _ EB). unfold Inv1. cbn [s_htmp s_heff].
    repeat split; try constructor; assumption.
  - destruct (sbrg_step_go n tol2 dtol2 st i0 EB) as (Hlead & E). rewrite E. clear E.
    set (htmp1 := filter (fun t => negb (is_identity_term t)) (s_htmp st)) in *.
    set (lead := term_get htmp1 (argmax_norm htmp1)) in *.
    assert (Hp1 : pwf n htmp1) by (apply Forall_filter; exact H1).
    assert (Hin : In lead htmp1) by (apply term_get_In; exact Hlead).
    destruct (step_rotation n i0 htmp1 lead Hp1 Hi Hin) as (HF & EG & ER). rewrite (ER htmp1 Hp1) in *. clear ER EG.
    set (gens := diagonalize1 (skipn i0 (tstr lead)) 0) in *.
    set (htmp2 := map (fun t : term => (fst t, causal_fold gens i0 (snd t))) htmp1) in *.
    assert (Hp2 : pwf n htmp2) by (apply rotated_pwf; assumption).
    assert (HZ1 : Forall (fun t => ztype_upto i0 (tstr t)) htmp1) by (apply Forall_filter; exact H2).
    assert (HZ2 : Forall (fun t => ztype_upto i0 (tstr t)) htmp2).
    { unfold htmp2. apply Forall_map. pose proof (Forall_and_in _ _ _ _ Hp1 HZ1) as H.
      eapply Forall_impl; [|exact H]. intros t [Wt Zt]. unfold tstr. cbn [snd].
      apply (causal_fold_ztype n); assumption. }
    assert (Hlead2 : (argmax_norm htmp1 < length htmp2)%nat) by (unfold htmp2; rewrite map_length; exact Hlead).
    assert (Wlead : wf n (snd lead)).
    { unfold pwf in Hp1. rewrite Forall_forall in Hp1. exact (Hp1 lead Hin). }
    assert (HLZ : ztype_upto (S i0) (tstr (term_get htmp2 (argmax_norm htmp1)))).
    { assert (EL : term_get htmp2 (argmax_norm htmp1) = (fst lead, causal_fold gens i0 (snd lead))).
      { unfold term_get, htmp2, lead, term_get.
        rewrite (nth_indep _ dflt_term ((fun t : term => (fst t, causal_fold gens i0 (snd t))) dflt_term)) by exact Hlead2.
        exact (map_nth (fun t : term => (fst t, causal_fold gens i0 (snd t))) htmp1 dflt_term (argmax_norm htmp1)). }
      rewrite EL. unfold tstr. cbn [snd]. unfold gens, tstr.
      assert (Hid : is_id_str (skipn i0 (fst (snd lead))) = false).
      { assert (Hl : In lead (s_htmp st) /\ negb (is_identity_term lead) = true) by (apply (proj1 (filter_In (fun t => negb (is_identity_term t)) lead (s_htmp st))); exact Hin).
        destruct Hl as [Hl1 Hl2]. rewrite Forall_forall in H3. apply (H3 lead Hl1). apply negb_true_iff. exact Hl2. }
      rewrite (lead_rotated n i0 (snd lead) Wlead Hi Hid).
      assert (HLf : length (firstn i0 (fst (snd lead))) = i0) by (apply firstn_length_le; rewrite (proj1 Wlead); lia).
      apply lead_rotated_ztype; [exact HLf|].
      rewrite Forall_forall in HZ1. pose proof (HZ1 lead Hin) as Z. unfold tstr in Z.
      rewrite <- (firstn_skipn i0 (fst (snd lead))) in Z.
      exact (proj1 (ztype_app_prefix i0 _ _ HLf) Z). }
    pose proof (perturb_pwf n tol2 dtol2 i0 _ htmp2 Hp2 Hlead2) as Hp3.
    pose proof (perturb_ztype n tol2 dtol2 i0 _ htmp2 Hp2 HZ2 Hlead2 HLZ) as HZ3.
    set (htmp3 := sbrg_perturb tol2 dtol2 i0 (argmax_norm htmp1) htmp2) in *.
    unfold Inv1. cbn [s_htmp s_heff]. split; [apply Forall_filter; exact Hp3|].
    split; [apply Forall_filter; exact HZ3|]. split.
    { pose proof (Forall_filter_true _ (fun t => negb (trivial_after i0 t)) htmp3) as H.
      eapply Forall_impl; [|exact H]. intros t Ht _. cbv beta in Ht. apply negb_true_iff in Ht. exact Ht. }
    split.
    { apply reduce_pwf, well_sized_app; [exact (pwf_well_sized _ _ Hh1) | apply Forall_filter; exact (pwf_well_sized _ _ Hp3)]. }
    apply (reduce_Forall_str (hstr_ok (S i0))). apply Forall_app. split; [exact Hh2'|].
    pose proof (Forall_and_in _ _ _ _ (Forall_filter _ _ (trivial_after i0) _ HZ3) (Forall_filter_true _ (trivial_after i0) htmp3)) as H.
    eapply Forall_impl; [|exact H]. intros t [Zt Tt]. cbv beta in Zt, Tt. unfold trivial_after in Tt. fold (tstr t) in Tt.
    split; [exact (ztype_trivial_diagonal i0 _ Zt Tt) | exact Tt].
Qed.

Lemma sbrg_Inv1 : forall n tol2 dtol2 h, well_sized n h -> Forall (fun t => 0 <= snd (snd t) < 4) h ->
  Inv1 n n (snd (sbrg_run n tol2 dtol2 h)).
Proof.
  intros n tol2 dtol2 h W R. unfold sbrg_run.
  destruct (sbrg_upto_inv n tol2 dtol2 h (Inv1 n)) with (m := n) as [H _].
  - apply Inv1_init; assumption.
  - intros i Hi HF HI. apply Inv1_step; assumption.
  - apply Inv1_stay.
  - lia.
  - exact H.
Qed.

(* MAIN 1: the effective Hamiltonian is diagonal, for every input Hamiltonian, every N, every tolerance *)
Theorem sbrg_heff_diagonal : forall n tol2 dtol2 h, well_sized n h -> Forall (fun t => 0 <= snd (snd t) < 4) h ->
   Forall (fun t => diagonal (fst (snd t))) (fst (sbrg n tol2 dtol2 h)).
Proof.
  intros n tol2 dtol2 h W R. destruct (sbrg_Inv1 n tol2 dtol2 h W R) as (_ & _ & _ & _ & H5).
  unfold sbrg. cbn [fst]. eapply Forall_impl; [|exact H5]. intros t [D _]. exact D.
Qed.

(* ---- the loop BEFORE the repair e14aace (Model/Sbrg.v: sbrg_old) does NOT have this property ---- *)
Definition diagonal_b (g : pstr) : bool := forallb (fun s : site => negb (fst s)) g.
Lemma diagonal_b_complete : forall g, diagonal g -> diagonal_b g = true.
Proof.
  intros g H. unfold diagonal_b. apply forallb_forall. intros s Hs.
  destruct (In_nth g s (false, false) Hs) as [j [Hj E]]. specialize (H j Hj). rewrite E in H. rewrite H. reflexivity.
Qed.
Lemma not_all_diagonal : forall p : poly, forallb (fun t => diagonal_b (tstr t)) p = false -> ~ Forall (fun t : term => diagonal (fst (snd t))) p.
Proof.
  intros p H HF. assert (E : forallb (fun t => diagonal_b (tstr t)) p = true).
  { apply forallb_forall. intros t Ht. rewrite Forall_forall in HF. apply diagonal_b_complete. exact (HF t Ht). }
  rewrite E in H. discriminate H.
Qed.

Definition qre (a : Z) (b : positive) : coef := (Q2Qc (a # b), 0%Qc).
(* 1 qubit, H = Z + 2^-20 X, tol = 1e-8, default tolerance 1e-10: the X term is smaller than sqrt(tol), its square is dropped, prod is empty *)
Definition cex_small : poly := [(qre 1 1, ([(false, true)], 0)); (qre 1 1048576, ([(true, false)], 0))].
Definition cex_tol2 : Qc := Q2Qc (1 # 10000000000000000).
Definition cex_dtol2 : Qc := Q2Qc (1 # 100000000000000000000).
(* 1 qubit, H = 2 Z + X + i Y (not Hermitian), both tolerances 0: (X + iY)^2 = 0 *)
Definition cex_nilpotent : poly := [(qre 2 1, ([(false, true)], 0)); (qre 1 1, ([(true, false)], 0)); (qre 1 1, ([(true, true)], 1))].

Theorem sbrg_old_heff_not_always_diagonal :
  (well_sized 1 cex_small /\ Forall (fun t => 0 <= snd (snd t) < 4) cex_small /\
   ~ Forall (fun t => diagonal (fst (snd t))) (fst (sbrg_old 1 cex_tol2 cex_dtol2 cex_small))) /\
  (well_sized 1 cex_nilpotent /\ Forall (fun t => 0 <= snd (snd t) < 4) cex_nilpotent /\
   ~ Forall (fun t => diagonal (fst (snd t))) (fst (sbrg_old 1 0%Qc 0%Qc cex_nilpotent))).
Proof.
  split; (split; [repeat constructor|]; split; [repeat constructor; cbn; lia|]; apply not_all_diagonal; vm_compute; reflexivity).
Qed.

(* ================================================================== MAIN 3: commuting Hamiltonians, zero tolerances *)
(* ------------------------------------------------------------------ a rotation gate is conjugation: it respects equality of matrices *)
Definition peq (n : nat) (p q : poly) : Prop := forall k k', length k = n -> amp p k k' = amp q k k'.

Lemma peq_refl : forall n p, peq n p p.
Proof. intros n p k k' _. reflexivity. Qed.
Lemma peq_sym : forall n p q, peq n p q -> peq n q p.
Proof. intros n p q H k k' Hk. symmetry. apply H. exact Hk. Qed.
Lemma peq_trans : forall n p q r, peq n p q -> peq n q r -> peq n p r.
Proof. intros n p q r H1 H2 k k' Hk. rewrite (H1 k k' Hk). apply H2. exact Hk. Qed.

Definition rot_gate_ok (n : nat) (g : gate) : Prop :=
  gate_ok n g /\ exists gen, gk g = GGen gen /\ hermP gen /\ 0 <= snd gen < 4.
Definition glift (n : nat) (g : gate) : pauli :=
  match gk g with GGen gen => lift (gmask g n) gen | GMap _ _ => pid n end.

Lemma glift_wf : forall n g, rot_gate_ok n g -> wf n (glift n g) /\ hermP (glift n g).
Proof.
  intros n g [Hok (gen & EK & HH & HR)]. unfold glift. rewrite EK. split.
  - apply (lift_wf n (length (fst gen))); [apply gmask_length|]. split; [reflexivity | exact HR].
  - unfold hermP. rewrite lift_snd. exact HH.
Qed.

Lemma gate_forward_lift : forall n g (p : poly), rot_gate_ok n g -> pwf n p ->
  poly_gate_forward n g p = map (fun t => (fst t, rotate1 (glift n g) (snd t))) p.
Proof.
  intros n g p [Hok (gen & EK & HH & HR)] Hp. unfold poly_gate_forward.
  assert (Hl : Forall (wf n) (map snd p)) by (apply Forall_map; exact Hp).
  rewrite (gate_forward_masked n g _ Hok Hl). unfold gate_kernel, glift. rewrite EK.
  rewrite map2_map_snd. apply map_ext_in. intros t Ht. f_equal.
  rewrite <- rotate1_masked_eq. apply (rotate_masked_lift n).
  - apply gmask_length.
  - rewrite (gmask_count n g Hok). destruct Hok as (_ & _ & SH). rewrite EK in SH. symmetry. exact SH.
  - unfold pwf in Hp. rewrite Forall_forall in Hp. exact (proj1 (Hp t Ht)).
Qed.

Lemma rotated1_pwf : forall n G (p : poly), wf n G -> pwf n p -> pwf n (map (fun t : term => (fst t, rotate1 G (snd t))) p).
Proof.
  intros n G p WG Hp. unfold pwf. apply Forall_map. eapply Forall_impl; [|exact Hp]. intros t Ht. cbn [snd].
  apply rotate_wf; assumption.
Qed.

Lemma c2_cancel : forall x y, cmul c2 x = cmul c2 y -> x = y.
Proof.
  intros x y H. rewrite <- (cmul_1_l x), <- (cmul_1_l y), <- chalf_c2, !cmul_assoc, H. reflexivity.
Qed.

Lemma rotate_congr : forall n G p p', wf n G -> hermP G -> pwf n p -> pwf n p' -> peq n p p' ->
  peq n (map (fun t : term => (fst t, rotate1 G (snd t))) p) (map (fun t : term => (fst t, rotate1 G (snd t))) p').
Proof.
  intros n G p p' WG HG Hp Hp' E k k' Hk. apply c2_cancel.
  pose proof (rotate_poly_is_conjugation n G p k k' WG HG (pwf_well_sized _ _ Hp) (pwf_phases _ _ Hp) Hk) as E1.
  pose proof (rotate_poly_is_conjugation n G p' k k' WG HG (pwf_well_sized _ _ Hp') (pwf_phases _ _ Hp') Hk) as E2.
  eapply eq_trans; [symmetry; exact E1|]. eapply eq_trans; [|exact E2]. clear E1 E2.
  pose proof (well_sized_rot_op n G (proj1 WG)) as WV. pose proof (well_sized_rot_op_dag n G (proj1 WG)) as WVd.
  pose proof (pwf_well_sized _ _ Hp) as W. pose proof (pwf_well_sized _ _ Hp') as W'.
  assert (Wpv : well_sized n (pmulp p (rot_op n G))) by ws.
  assert (Wpv' : well_sized n (pmulp p' (rot_op n G))) by ws.
  apply (amp_pmulp_congr n _ _ _ _ WVd WVd Wpv Wpv'); [intros; reflexivity | | exact Hk].
  intros m m' Hm. apply (amp_pmulp_congr n _ _ _ _ W W' WV WV); [exact E | intros; reflexivity | exact Hm].
Qed.

Lemma gates_forward_congr : forall n gs p p', Forall (rot_gate_ok n) gs -> pwf n p -> pwf n p' -> peq n p p' ->
  peq n (poly_gates_forward n gs p) (poly_gates_forward n gs p').
Proof.
  intros n gs. induction gs as [|g gs IH]; intros p p' HG Hp Hp' E; [exact E|].
  inversion_clear HG as [|? ? Hg HG']. rewrite !poly_gates_forward_cons.
  destruct (glift_wf n g Hg) as [WG HH].
  rewrite (gate_forward_lift n g p Hg Hp), (gate_forward_lift n g p' Hg Hp').
  apply IH; [exact HG' | apply rotated1_pwf; assumption | apply rotated1_pwf; assumption|].
  apply rotate_congr; assumption.
Qed.

Lemma causal_gates_rot_ok : forall n i0 gens, (i0 < n)%nat -> Forall (fun x : pstr => length x = (n - i0)%nat) gens ->
  Forall (rot_gate_ok n) (map (fun gen => rotation_gate (gen, 0) (Some (seq i0 (n - i0)))) gens).
Proof.
  intros n i0 gens Hi HF. pose proof (causal_gates_ok n i0 gens Hi HF) as H.
  rewrite Forall_map in *. pose proof (Forall_and_in _ _ _ _ HF H) as H2.
  eapply Forall_impl; [|exact H2]. intros gen [Hg [Hok _]]. cbv beta in Hg. split; [exact Hok|].
  rewrite (rotation_gate_causal_eq (gen, 0) i0 (n - i0) Hg). cbn [gk snd]. eexists. split; [reflexivity|].
  split; [left; reflexivity | cbn [snd]; lia].
Qed.

(* ------------------------------------------------------------------ amp bookkeeping *)
Lemma amp_filter_split : forall (f : term -> bool) p k k',
  amp p k k' = cadd (amp (filter f p) k k') (amp (filter (fun t => negb (f t)) p) k k').
Proof.
  intros f p k k'. induction p as [|t p IH]; [rewrite !amp_nil, cadd_0_l; reflexivity|].
  cbn [filter]. destruct (f t); cbn [negb]; rewrite !amp_cons, IH.
  - rewrite cadd_assoc. reflexivity.
  - rewrite <- !cadd_assoc. f_equal. apply cadd_comm.
Qed.

(* ------------------------------------------------------------------ symplectic form on concatenations, Z-type strings *)
Lemma acqb_app : forall x1 y1 x2 y2, length x1 = length y1 -> acqb (x1 ++ x2) (y1 ++ y2) = xorb (acqb x1 y1) (acqb x2 y2).
Proof.
  induction x1 as [|a x1 IH]; intros [|b y1] x2 y2 H; try discriminate H; [cbn [app acqb]; destruct (acqb x2 y2); reflexivity|].
  cbn [app acqb]. rewrite IH by (cbn [length] in H; lia). rewrite xorb_assoc. reflexivity.
Qed.

Lemma acqb_ztype : forall x y, (forall j, xbit x j = false) -> (forall j, xbit y j = false) -> acqb x y = false.
Proof.
  induction x as [|a x IH]; intros [|b y] Hx Hy; try reflexivity.
  cbn [acqb]. rewrite IH.
  - pose proof (Hx 0%nat) as Ha. pose proof (Hy 0%nat) as Hb. unfold xbit in Ha, Hb. rewrite sget_cons_0 in Ha, Hb.
    unfold acqb_site. rewrite Ha, Hb. rewrite !andb_false_r. reflexivity.
  - intros j. specialize (Hx (S j)). unfold xbit in *. rewrite sget_cons_S in Hx. exact Hx.
  - intros j. specialize (Hy (S j)). unfold xbit in *. rewrite sget_cons_S in Hy. exact Hy.
Qed.

Lemma ztype_all : forall i0 (x : pstr), length x = i0 -> ztype_upto i0 x -> forall j, xbit x j = false.
Proof.
  intros i0 x HL HZ j. destruct (Nat.lt_ge_cases j i0) as [Hlt|Hge]; [exact (HZ j Hlt)|].
  unfold xbit. rewrite sget_overflow by lia. reflexivity.
Qed.

(* ------------------------------------------------------------------ the causal fold: symplectic form, trivial suffixes *)
Lemma causal_fold_fst : forall gens i0 (a : pauli),
  fst (causal_fold gens i0 a) = firstn i0 (fst a) ++ apply_gens gens (skipn i0 (fst a)).
Proof. intros. unfold causal_fold. cbn [fst]. rewrite rot_fold_fst. reflexivity. Qed.

Lemma causal_fold_acqb : forall n i0 gens (a b : pauli), (i0 < n)%nat -> Forall (fun x : pstr => length x = (n - i0)%nat) gens ->
  wf n a -> wf n b -> acqb (fst (causal_fold gens i0 a)) (fst (causal_fold gens i0 b)) = acqb (fst a) (fst b).
Proof.
  intros n i0 gens a b Hi HF [La _] [Lb _]. rewrite !causal_fold_fst.
  assert (H1 : length (firstn i0 (fst a)) = length (firstn i0 (fst b))) by (rewrite !firstn_length_le by lia; reflexivity).
  assert (Sa : length (skipn i0 (fst a)) = (n - i0)%nat) by (rewrite skipn_length, La; reflexivity).
  assert (Sb : length (skipn i0 (fst b)) = (n - i0)%nat) by (rewrite skipn_length, Lb; reflexivity).
  rewrite acqb_app by exact H1. rewrite apply_gens_acqb.
  - rewrite <- acqb_app by exact H1. rewrite !firstn_skipn. reflexivity.
  - rewrite Sa, Sb. reflexivity.
  - rewrite Sa. exact HF.
Qed.

Lemma rot_fold_trivial : forall gens (x : pstr) q, is_id_str x = true -> rot_fold gens (x, q) = (x, q).
Proof.
  induction gens as [|g gens IH]; intros x q H; [reflexivity|].
  rewrite rot_fold_cons. rewrite rotate1_acqb. cbn [fst]. rewrite acqb_sym, (acqb_is_id_l x g H). apply IH. exact H.
Qed.

Lemma causal_fold_trivial : forall gens i0 (a : pauli), is_id_str (skipn i0 (fst a)) = true -> causal_fold gens i0 a = a.
Proof.
  intros gens i0 a H. unfold causal_fold. rewrite (rot_fold_trivial gens _ _ H). cbn [fst snd].
  rewrite firstn_skipn. destruct a; reflexivity.
Qed.

(* ------------------------------------------------------------------ the invariant for commuting input *)
Definition commuting (p : poly) : Prop := forall s t, In s p -> In t p -> acq (tstr s) (tstr t) = 0.

Definition Inv3 (n : nat) (h : poly) (i : nat) (st : sbrg_state) : Prop :=
  Inv1 n i st /\ commuting (s_htmp st) /\
  pwf n (poly_gates_forward n (s_gates st) h) /\
  peq n (s_heff st ++ s_htmp st) (poly_gates_forward n (s_gates st) h) /\
  (i = n -> s_htmp st = []).

Lemma acq_0_acqb : forall a b, acq a b = 0 <-> acqb a b = false.
Proof. intros a b. rewrite acq_acqb. destruct (acqb a b); cbn [zb]; split; intros H; try reflexivity; discriminate H. Qed.

Lemma filter_negb_all : forall (A : Type) (f : A -> bool) l, Forall (fun x => f x = true) l -> filter (fun x => negb (f x)) l = [].
Proof.
  intros A f. induction l as [|a l IH]; intros H; [reflexivity|]. inversion_clear H as [|? ? Ha Hl].
  cbn [filter]. rewrite Ha. cbn [negb]. apply IH. exact Hl.
Qed.

Lemma ident_stage_peq : forall n heff htmp,
  peq n (reduce 0%Qc (heff ++ filter is_identity_term htmp) ++ filter (fun t => negb (is_identity_term t)) htmp) (heff ++ htmp).
Proof.
  intros n heff htmp k k' _. rewrite !amp_app, reduce_exact, amp_app, (amp_filter_split is_identity_term htmp k k').
  rewrite cadd_assoc. reflexivity.
Qed.

Lemma perturb_commuting : forall tol2 dtol2 i0 leading htmp, Forall (fun t => commutes_at i0 t = true) htmp ->
  sbrg_perturb tol2 dtol2 i0 leading htmp = htmp.
Proof.
  intros tol2 dtol2 i0 leading htmp H. unfold sbrg_perturb.
  rewrite (filter_negb_all _ (commutes_at i0) htmp H). reflexivity.
Qed.

(* after the rotation every term commutes with  prefix (x) Z_{i0}  and has a Z-type prefix: no off-diagonal term *)
Lemma commuting_no_offdiag : forall n i0 (htmp1 : poly) lead, (i0 < n)%nat -> pwf n htmp1 -> commuting htmp1 ->
  Forall (fun t => ztype_upto i0 (tstr t)) htmp1 -> In lead htmp1 -> is_id_str (skipn i0 (tstr lead)) = false ->
  let gens := diagonalize1 (skipn i0 (tstr lead)) 0 in
  Forall (fun t => commutes_at i0 t = true) (map (fun t : term => (fst t, causal_fold gens i0 (snd t))) htmp1).
Proof.
  intros n i0 htmp1 lead Hi Hp HC HZ Hin Hid gens. apply Forall_map. apply Forall_forall. intros t Ht.
  unfold pwf in Hp. rewrite Forall_forall in Hp, HZ.
  pose proof (Hp lead Hin) as Wl. pose proof (Hp t Ht) as Wt.
  assert (HF : Forall (fun x : pstr => length x = (n - i0)%nat) gens).
  { assert (HS : length (skipn i0 (tstr lead)) = (n - i0)%nat) by (unfold tstr; rewrite skipn_length, (proj1 Wl); reflexivity).
    unfold gens. rewrite <- HS. apply diag1_length. rewrite HS. lia. }
  pose proof (causal_fold_acqb n i0 gens (snd lead) (snd t) Hi HF Wl Wt) as EA.
  pose proof (proj1 (acq_0_acqb _ _) (HC lead t Hin Ht)) as E0. unfold tstr in E0. rewrite E0 in EA. clear E0.
  unfold gens in EA at 1. unfold tstr in EA at 1. rewrite (lead_rotated n i0 (snd lead) Wl Hi Hid) in EA.
  rewrite causal_fold_fst in EA.
  assert (L1 : length (firstn i0 (fst (snd lead))) = i0) by (apply firstn_length_le; rewrite (proj1 Wl); lia).
  assert (L2 : length (firstn i0 (fst (snd t))) = i0) by (apply firstn_length_le; rewrite (proj1 Wt); lia).
  assert (LS : length (skipn i0 (fst (snd t))) = (n - i0)%nat) by (rewrite skipn_length, (proj1 Wt); reflexivity).
  assert (LY : length (apply_gens gens (skipn i0 (fst (snd t)))) = (n - i0)%nat).
  { rewrite apply_gens_length; [exact LS | rewrite LS; exact HF]. }
  rewrite acqb_app in EA by (rewrite L1, L2; reflexivity).
  rewrite acqb_ztype in EA.
  - rewrite (acqb_z_at (n - i0) 0 _ ltac:(lia) LY) in EA. rewrite xorb_false_l in EA.
    rewrite commutes_at_xbit. unfold tstr. cbn [snd]. rewrite causal_fold_fst. unfold xbit.
    rewrite sget_app2 by lia. rewrite L2, Nat.sub_diag, EA. reflexivity.
  - apply (ztype_all i0 _ L1). pose proof (HZ lead Hin) as Z. unfold tstr in Z.
    rewrite <- (firstn_skipn i0 (fst (snd lead))) in Z. exact (proj1 (ztype_app_prefix i0 _ _ L1) Z).
  - apply (ztype_all i0 _ L2). pose proof (HZ t Ht) as Z. unfold tstr in Z.
    rewrite <- (firstn_skipn i0 (fst (snd t))) in Z. exact (proj1 (ztype_app_prefix i0 _ _ L2) Z).
Qed.

Lemma Inv3_init : forall n h, (0 < n)%nat -> well_sized n h -> Forall (fun t => 0 <= snd (snd t) < 4) h ->
  (forall s t, In s h -> In t h -> acq (fst (snd s)) (fst (snd t)) = 0) -> Inv3 n h 0 (sbrg_init n h).
Proof.
  intros n h Hn W R HC. unfold Inv3. split; [apply Inv1_init; assumption|].
  cbn [sbrg_init s_htmp s_heff s_gates]. rewrite poly_gates_forward_nil.
  split; [exact HC|]. split; [apply pwf_of; assumption|]. split; [|lia].
  intros k k' _. rewrite amp_app. unfold pscal, ident_poly. cbn [map fst snd].
  rewrite amp_cons, amp_nil, cmul_0_l, amp_term_c0, !cadd_0_l. reflexivity.
Qed.

Lemma Inv3_stay : forall n h i st, Inv3 n h i st -> s_htmp st = [] -> Inv3 n h (S i) st.
Proof.
  intros n h i st (H1 & H2 & H3 & H4 & _) E. unfold Inv3.
  split; [apply Inv1_stay; assumption|]. split; [exact H2|]. split; [exact H3|]. split; [exact H4|]. intros _. exact E.
Qed.

Lemma commuting_sub : forall p q, commuting p -> (forall t, In t q -> In t p) -> commuting q.
Proof. intros p q H Hs s t Hs1 Ht1. apply H; apply Hs; assumption. Qed.

Lemma Inv3_step : forall n h st i0, (i0 < n)%nat -> Inv3 n h i0 st -> Inv3 n h (S i0) (sbrg_step n 0%Qc 0%Qc st i0).
Proof.
  intros n h st i0 Hi (HI1 & HC & HpR & HE & _).
  pose proof (Inv1_step n 0%Qc 0%Qc st i0 Hi HI1) as HI1'.
  destruct (heff1_ok n 0%Qc i0 st HI1) as [Hh1 Hh2].
  destruct HI1 as (H1 & H2 & H3 & H4 & H5).
  pose proof (ident_stage_peq n (s_heff st) (s_htmp st)) as HS.
  unfold Inv3. split; [exact HI1'|]. clear HI1'.
  destruct (sbrg_breaks st) eqn:EB.
  - rewrite (sbrg_step_break _ _ _ _ _ EB). cbn [s_htmp s_heff s_gates].
    split; [intros s t []|]. split; [exact HpR|]. split; [|reflexivity].
    unfold sbrg_breaks in EB.
    destruct (filter (fun t => negb (is_identity_term t)) (s_htmp st)) eqn:EF; [|discriminate EB].
    exact (peq_trans n _ _ _ HS HE).
  - destruct (sbrg_step_go n 0%Qc 0%Qc st i0 EB) as (Hlead & E). rewrite E. clear E. cbn [s_htmp s_heff s_gates].
    set (heff1 := reduce 0%Qc (s_heff st ++ filter is_identity_term (s_htmp st))) in *.
    set (htmp1 := filter (fun t => negb (is_identity_term t)) (s_htmp st)) in *.
    set (lead := term_get htmp1 (argmax_norm htmp1)) in *.
    assert (Hp1 : pwf n htmp1) by (apply Forall_filter; exact H1).
    assert (Hin : In lead htmp1) by (apply term_get_In; exact Hlead).
    assert (Hsub1 : forall t, In t htmp1 -> In t (s_htmp st)).
    { intros t Ht. exact (proj1 (proj1 (filter_In (fun t => negb (is_identity_term t)) t (s_htmp st)) Ht)). }
    assert (HC1 : commuting htmp1) by (apply (commuting_sub _ _ HC Hsub1)).
    assert (HZ1 : Forall (fun t => ztype_upto i0 (tstr t)) htmp1) by (apply Forall_filter; exact H2).
    assert (Hid : is_id_str (skipn i0 (tstr lead)) = false).
    { assert (Hl : In lead (s_htmp st) /\ negb (is_identity_term lead) = true)
        by (apply (proj1 (filter_In (fun t => negb (is_identity_term t)) lead (s_htmp st))); exact Hin).
      destruct Hl as [Hl1 Hl2]. rewrite Forall_forall in H3. apply (H3 lead Hl1). apply negb_true_iff. exact Hl2. }
    destruct (step_rotation n i0 htmp1 lead Hp1 Hi Hin) as (HF & EG & ER).
    pose proof (commuting_no_offdiag n i0 htmp1 lead Hi Hp1 HC1 HZ1 Hin Hid) as Hall. cbv zeta in Hall.
    set (gens := diagonalize1 (skipn i0 (tstr lead)) 0) in *.
    set (F := fun t : term => (fst t, causal_fold gens i0 (snd t))) in *.
    rewrite (ER htmp1 Hp1). rewrite (perturb_commuting 0%Qc 0%Qc i0 _ _ Hall).
    set (htmp2 := map F htmp1) in *.
    assert (Hp2 : pwf n htmp2) by (apply rotated_pwf; assumption).
    set (gs := diagonalize_pauli (fst (snd lead)) i0 true) in *.
    (* commuting *)
    split.
    { apply (commuting_sub htmp2).
      - intros s' t' Hs' Ht'. unfold htmp2 in Hs', Ht'. apply in_map_iff in Hs', Ht'.
        destruct Hs' as [s [<- Hs]]. destruct Ht' as [t [<- Ht]]. unfold F, tstr. cbn [snd].
        apply acq_0_acqb. unfold pwf in Hp1. rewrite Forall_forall in Hp1.
        rewrite (causal_fold_acqb n i0 gens (snd s) (snd t) Hi HF (Hp1 s Hs) (Hp1 t Ht)).
        apply acq_0_acqb. exact (HC1 s t Hs Ht).
      - intros t Ht. exact (proj1 (proj1 (filter_In _ t htmp2) Ht)). }
    (* the rotated input *)
    rewrite poly_gates_forward_app. rewrite (ER _ HpR).
    split; [apply rotated_pwf; assumption|].
    split.
    { (* heff2 ++ htmp4 = heff1 ++ htmp2 = F (heff1 ++ htmp1) ~ F R *)
      assert (E1 : peq n (reduce 0%Qc (heff1 ++ filter (trivial_after i0) htmp2) ++ filter (fun t => negb (trivial_after i0 t)) htmp2)
                         (heff1 ++ htmp2)).
      { intros k k' _. rewrite !amp_app, reduce_exact, amp_app, (amp_filter_split (trivial_after i0) htmp2 k k').
        rewrite cadd_assoc. reflexivity. }
      apply (peq_trans n _ _ _ E1).
      assert (E2 : heff1 ++ htmp2 = map F (heff1 ++ htmp1)).
      { rewrite map_app. f_equal. rewrite <- (map_id heff1) at 1. apply map_ext_in. intros t Ht.
        rewrite Forall_forall in Hh2. destruct (Hh2 t Ht) as [_ Tt]. unfold F.
        rewrite (causal_fold_trivial gens i0 (snd t) Tt). destruct t; reflexivity. }
      rewrite E2.
      assert (Hp01 : pwf n (heff1 ++ htmp1)) by (apply pwf_app; assumption).
      replace (map F (heff1 ++ htmp1)) with (poly_gates_forward n gs (heff1 ++ htmp1)) by (exact (ER _ Hp01)).
      rewrite <- (ER _ HpR).
      assert (HRG : Forall (rot_gate_ok n) gs) by (rewrite EG; apply causal_gates_rot_ok; assumption).
      apply gates_forward_congr; [exact HRG | exact Hp01 | exact HpR|].
      exact (peq_trans n _ _ _ HS HE). }
    (* the last iteration empties htmp *)
    intros En. apply filter_negb_all. apply Forall_forall. intros t Ht.
    unfold pwf in Hp2. rewrite Forall_forall in Hp2. destruct (Hp2 t Ht) as [Lt _].
    unfold trivial_after. rewrite skipn_all2 by (rewrite Lt; lia). reflexivity.
Qed.

Lemma sbrg_Inv3 : forall n h, (0 < n)%nat -> well_sized n h -> Forall (fun t => 0 <= snd (snd t) < 4) h ->
  (forall s t, In s h -> In t h -> acq (fst (snd s)) (fst (snd t)) = 0) ->
  Inv3 n h n (snd (sbrg_run n 0%Qc 0%Qc h)).
Proof.
  intros n h Hn W R HC. unfold sbrg_run.
  destruct (sbrg_upto_inv n 0%Qc 0%Qc h (Inv3 n h)) with (m := n) as [H _].
  - apply Inv3_init; assumption.
  - intros i Hi _ HI. apply Inv3_step; assumption.
  - apply Inv3_stay.
  - lia.
  - exact H.
Qed.

(* MAIN 3 (N >= 1: for N = 0 the loop body never runs and heff stays 0 * identity whatever h is) *)
Theorem sbrg_commuting_exact : forall n h k k', (0 < n)%nat -> well_sized n h -> Forall (fun t => 0 <= snd (snd t) < 4) h ->
   (forall s t, In s h -> In t h -> acq (fst (snd s)) (fst (snd t)) = 0) -> length k = n ->
   amp (fst (sbrg n 0%Qc 0%Qc h)) k k' = amp (fold_left (fun p g => poly_gate_forward n g p) (snd (sbrg n 0%Qc 0%Qc h)) h) k k'.
Proof.
  intros n h k k' Hn W R HC Hk. destruct (sbrg_Inv3 n h Hn W R HC) as (_ & _ & _ & HE & HL).
  unfold sbrg. cbn [fst snd]. specialize (HL eq_refl). rewrite HL, app_nil_r in HE. exact (HE k k' Hk).
Qed.

Lemma poly_gates_forward_empty : forall n gs, poly_gates_forward n gs [] = [].
Proof.
  intros n gs. induction gs as [|g gs IH]; [reflexivity|]. rewrite poly_gates_forward_cons.
  unfold poly_gate_forward at 1. cbn [map]. destruct (gate_forward n g []); exact IH.
Qed.

(* in the commuting case no perturbative term is ever generated: every iteration only rotates and sorts terms *)
Theorem sbrg_commuting_step_no_perturbation : forall n h i0, (0 < n)%nat -> (i0 < n)%nat -> well_sized n h -> Forall (fun t => 0 <= snd (snd t) < 4) h ->
   (forall s t, In s h -> In t h -> acq (fst (snd s)) (fst (snd t)) = 0) ->
   let st := snd (sbrg_upto n 0%Qc 0%Qc h i0) in
   let htmp1 := filter (fun t => negb (is_identity_term t)) (s_htmp st) in
   let gs := diagonalize_pauli (fst (snd (term_get htmp1 (argmax_norm htmp1)))) i0 true in
   filter (fun t => negb (commutes_at i0 t)) (poly_gates_forward n gs htmp1) = [].
Proof.
  intros n h i0 Hn Hi W R HC st htmp1 gs.
  destruct (sbrg_upto_inv n 0%Qc 0%Qc h (Inv3 n h)) with (m := i0) as [H _].
  - apply Inv3_init; assumption.
  - intros i Hi' _ HI. apply Inv3_step; assumption.
  - apply Inv3_stay.
  - lia.
  - fold st in H. destruct H as ((H1 & H2 & H3 & _ & _) & HC' & _).
    destruct (Nat.eq_dec (length htmp1) 0) as [E0|E0].
    { apply length_zero_iff_nil in E0. unfold gs. rewrite E0. rewrite poly_gates_forward_empty. reflexivity. }
    assert (Hlead : (argmax_norm htmp1 < length htmp1)%nat).
    { destruct htmp1 as [|t0 r]; [contradiction E0; reflexivity | apply argmax_norm_lt]. }
    set (lead := term_get htmp1 (argmax_norm htmp1)) in *.
    assert (Hp1 : pwf n htmp1) by (apply Forall_filter; exact H1).
    assert (Hin : In lead htmp1) by (apply term_get_In; exact Hlead).
    assert (Hsub1 : forall t, In t htmp1 -> In t (s_htmp st)).
    { intros t Ht. exact (proj1 (proj1 (filter_In (fun t => negb (is_identity_term t)) t (s_htmp st)) Ht)). }
    assert (HC1 : commuting htmp1) by (apply (commuting_sub _ _ HC' Hsub1)).
    assert (HZ1 : Forall (fun t => ztype_upto i0 (tstr t)) htmp1) by (apply Forall_filter; exact H2).
    assert (Hid : is_id_str (skipn i0 (tstr lead)) = false).
    { assert (Hl : In lead (s_htmp st) /\ negb (is_identity_term lead) = true)
        by (apply (proj1 (filter_In (fun t => negb (is_identity_term t)) lead (s_htmp st))); exact Hin).
      destruct Hl as [Hl1 Hl2]. rewrite Forall_forall in H3. apply (H3 lead Hl1). apply negb_true_iff. exact Hl2. }
    destruct (step_rotation n i0 htmp1 lead Hp1 Hi Hin) as (_ & _ & ER).
    unfold gs. rewrite (ER htmp1 Hp1). apply filter_negb_all.
    exact (commuting_no_offdiag n i0 htmp1 lead Hi Hp1 HC1 HZ1 Hin Hid).
Qed.

(* ------------------------------------------------------------------ the model evaluated on two examples (same inputs were run through /repo's SBRG:
   heff = 0.125 IZ + 1.15625 ZI, one gate [0,1] generator YX;   and the 3-qubit values below, gates [0,1] YX then [1,2] YX) *)
Definition show_poly (p : poly) := map (fun t : term => (flat (fst (snd t)), snd (snd t), this (fst (fst t)), this (snd (fst t)))) p.
Definition show_gate (g : gate) := (gq g, match gk g with GGen gen => (flat (fst gen), snd gen) | GMap _ _ => ([], -1) end).
Definition ex_tfim2 : poly :=            (* -XX - 0.5 ZI - 0.25 IZ, as the library's own arithmetic orders it *)
  [(qre (-1) 4, ([(false,false);(false,true)], 0)); (qre (-1) 2, ([(false,true);(false,false)], 0)); (qre (-1) 1, ([(true,false);(true,false)], 0))].
Definition ex_three : poly :=            (* -XXI + 0.5 (i^2) IXX - 0.5 ZII - 0.25 IZI - 0.125 IIZ + 0.375 YIY + 0.0625 III, unreduced *)
  [(qre (-1) 1, ([(true,false);(true,false);(false,false)], 0)); (qre 1 2, ([(false,false);(true,false);(true,false)], 2));
   (qre (-1) 2, ([(false,true);(false,false);(false,false)], 0)); (qre (-1) 4, ([(false,false);(false,true);(false,false)], 0));
   (qre (-1) 8, ([(false,false);(false,false);(false,true)], 0)); (qre 3 8, ([(true,true);(false,false);(true,true)], 0));
   (qre 1 16, ([(false,false);(false,false);(false,false)], 0))].

Example sbrg_tfim2_value :
  (show_poly (fst (sbrg 2 cex_tol2 cex_dtol2 ex_tfim2)), map show_gate (snd (sbrg 2 cex_tol2 cex_dtol2 ex_tfim2))) =
  ([([false; false; false; true], 0, 1 # 8, 0%Q); ([false; true; false; false], 0, 37 # 32, 0%Q)],
   [([0%nat; 1%nat], ([true; true; true; false], 0))]).
Proof. vm_compute. reflexivity. Qed.

Example sbrg_three_value :
  (show_poly (fst (sbrg 3 cex_tol2 cex_dtol2 ex_three)), map show_gate (snd (sbrg 3 cex_tol2 cex_dtol2 ex_three))) =
  ([([false; false; false; false; false; false], 0, 1 # 16, 0%Q);
    ([false; false; false; false; false; true], 0, -1 # 32, 0%Q);
    ([false; false; false; true; false; false], 0, 17 # 32, 0%Q);
    ([false; true; false; false; false; false], 0, 157 # 128, 0%Q);
    ([false; true; false; false; false; true], 0, 3 # 32, 0%Q)],
   [([0%nat; 1%nat], ([true; true; true; false], 0)); ([1%nat; 2%nat], ([true; true; true; false], 0))]).
Proof. vm_compute. reflexivity. Qed.

(* the two witnesses, old loop against repaired loop *)
Example sbrg_witnesses_value :
  show_poly (fst (sbrg_old 1 cex_tol2 cex_dtol2 cex_small)) = [([false; true], 0, 1%Q, 0%Q); ([true; false], 0, 1 # 1048576, 0%Q)] /\
  show_poly (fst (sbrg 1 cex_tol2 cex_dtol2 cex_small)) = [([false; true], 0, 1%Q, 0%Q)] /\
  show_poly (fst (sbrg_old 1 0%Qc 0%Qc cex_nilpotent)) = [([false; true], 0, 2%Q, 0%Q); ([true; false], 0, 1%Q, 0%Q); ([true; true], 0, 0%Q, 1%Q)] /\
  show_poly (fst (sbrg 1 0%Qc 0%Qc cex_nilpotent)) = [([false; true], 0, 2%Q, 0%Q)].
Proof. repeat split; vm_compute; reflexivity. Qed.

Print Assumptions sbrg_gates_ok.
Print Assumptions sbrg_gates_causal.
Print Assumptions sbrg_heff_diagonal.
Print Assumptions sbrg_old_heff_not_always_diagonal.
Print Assumptions sbrg_commuting_exact.
Print Assumptions sbrg_commuting_step_no_perturbation.
