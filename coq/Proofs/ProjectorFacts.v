(* Proofs/ProjectorFacts.v -- the post-measurement density matrix is P rho P / Tr(P rho P), P = (1 + O)/2 the projector of the
   recorded outcome.  All statements are about matrix elements (amp) of Pauli polynomials. *)
From Coq Require Import ZArith List Bool Lia ZifyBool Arith Permutation.
From Coq Require Import QArith Qcanon.
From PC Require Import Gen.Kernels Model.Base Model.Pauli Model.Ket Model.CMap Model.Tableau Model.Circuit Model.Spec
  Model.Poly Model.PolySem Model.Sample
  Proofs.PauliFacts Proofs.Transform Proofs.MaskFacts Proofs.TableauInv Proofs.MeasureFacts Proofs.SampleFacts Proofs.PolyFacts
  Proofs.ProjectionFacts Proofs.TraceFacts.
Import ListNotations.
Open Scope Z_scope.
Ltac Zify.zify_post_hook ::= Z.to_euclidean_division_equations.

(* ------------------------------------------------------------------ definitions (names fixed) *)
Definition proj_poly (n : nat) (o : pauli) : poly := [(chalf, pid n); (chalf, o)].            (* P = (1 + O)/2 *)
Definition sandwich (n : nat) (o : pauli) (p : poly) : poly := pmulp (proj_poly n o) (pmulp p (proj_poly n o)).   (* P p P *)
Definition c2 : coef := cadd c1 c1.

(* ------------------------------------------------------------------ coefficients *)
Lemma c2_mul : forall x, cmul c2 x = cadd x x.
Proof. intros x. unfold c2. rewrite cmul_cadd_distr_r, cmul_1_l. reflexivity. Qed.

Lemma chalf_c2 : cmul chalf c2 = c1.
Proof. unfold c2. apply chalf_double. Qed.

Lemma coef_shuffle : forall a b h x : coef,
  cmul (cmul a (cmul h a)) (cmul b x) = cmul (cmul a b) (cmul (cmul a h) x).
Proof. intros a b h x. cring. Qed.

Lemma cneg_invol : forall x : coef, cneg (cneg x) = x.
Proof. intros x. destruct x as [a b]. cring. Qed.

Lemma cadd_cancel4 : forall x y : coef, cadd (cadd x (cneg y)) (cadd y (cneg x)) = c0.
Proof. intros x y. cring. Qed.

(* ------------------------------------------------------------------ amplitude of a single Pauli operator *)
Definition tamp (k k' : ket) (a : pauli) : coef := amp_term (c1, a) k k'.

Lemma amp_term_tamp : forall c a k k', amp_term (c, a) k k' = cmul c (tamp k k' a).
Proof. intros c a k k'. unfold tamp. rewrite <- (cmul_1_r c) at 1. apply amp_term_cmul. Qed.

Lemma tamp_pneg : forall k k' a, tamp k k' (pneg a) = cneg (tamp k k' a).
Proof.
  intros k k' [g p]. unfold tamp, pneg, np_Pauli_neg. cbn [fst snd]. rewrite !amp_term_base.
  rewrite cipow_mod, Z.add_comm, <- cipow_add. rewrite (cipow_2 2 _ eq_refl). apply cmul_cneg_l.
Qed.

Lemma amp_map_tamp : forall c (l : plist) k k',
  amp (map (fun a : pauli => (c, a)) l) k k' = cmul c (csum (map (tamp k k') l)).
Proof.
  intros c l k k'. unfold amp. rewrite map_map, <- csum_map_cmul. apply csum_map_ext.
  intros a _. apply amp_term_tamp.
Qed.

(* ------------------------------------------------------------------ Pauli algebra: o a o = +-a *)
Lemma pmul_pneg_r : forall a b, pmul a (pneg b) = pneg (pmul a b).
Proof. intros a b. exact (pmul_pscale_r 2 a b). Qed.

Lemma conj_comm : forall n a o, wf n a -> wf n o -> hermP o -> acq (fst a) (fst o) = 0 -> pmul o (pmul a o) = a.
Proof.
  intros n a o Wa Wo Ho H. rewrite (acq_spec_comm a o H), <- (pmul_assoc_wf n o o a Wo Wo Wa), (herm_square n o Wo Ho).
  apply pmul_pid_l. exact Wa.
Qed.

Lemma conj_anti : forall n a o, wf n a -> wf n o -> hermP o -> acq (fst a) (fst o) = 1 -> pmul o (pmul a o) = pneg a.
Proof.
  intros n a o Wa Wo Ho H. rewrite (acq_spec_anti a o H), pmul_pneg_r, <- (pmul_assoc_wf n o o a Wo Wo Wa), (herm_square n o Wo Ho).
  rewrite (pmul_pid_l n a Wa). reflexivity.
Qed.

Lemma mul_o_o : forall n a o, wf n a -> wf n o -> hermP o -> pmul (pmul a o) o = a.
Proof.
  intros n a o Wa Wo Ho. rewrite (pmul_assoc_wf n a o o Wa Wo Wo), (herm_square n o Wo Ho). apply pmul_pid_r. exact Wa.
Qed.

(* ------------------------------------------------------------------ the shape of P (h G) P as a list of terms *)
Lemma pmulp_nil_l : forall q, pmulp [] q = [].
Proof. reflexivity. Qed.

Lemma pmulp_map_pair : forall h (l : plist) c x d y,
  pmulp (map (fun a : pauli => (h, a)) l) [(c, x); (d, y)]
  = flat_map (fun a : pauli => [(cmul h c, pmul a x); (cmul h d, pmul a y)]) l.
Proof.
  intros h l c x d y. induction l as [|a l IH]; [reflexivity|].
  cbn [map flat_map]. rewrite pmulp_cons, IH. reflexivity.
Qed.

Lemma map_flat_map_comm : forall {A B C} (F : B -> C) (g : A -> list B) (l : list A),
  map F (flat_map g l) = flat_map (fun a => map F (g a)) l.
Proof.
  intros A B C F g l. induction l as [|a l IH]; [reflexivity|].
  cbn [flat_map]. rewrite map_app, IH. reflexivity.
Qed.

Lemma amp_sandwich_raw : forall n o h (G : plist) k k',
  amp (sandwich n o (map (fun a : pauli => (h, a)) G)) k k'
  = cmul (cmul chalf (cmul h chalf))
      (csum (map (fun a : pauli =>
                    cadd (cadd (tamp k k' (pmul (pid n) (pmul a (pid n)))) (tamp k k' (pmul (pid n) (pmul a o))))
                         (cadd (tamp k k' (pmul o (pmul a (pid n)))) (tamp k k' (pmul o (pmul a o))))) G)).
Proof.
  intros n o h G k k'. unfold sandwich, proj_poly. rewrite pmulp_map_pair.
  rewrite !pmulp_cons, pmulp_nil_l, app_nil_r, amp_app. rewrite !map_flat_map_comm, !amp_flat_map.
  rewrite <- csum_map_cadd, <- csum_map_cmul. apply csum_map_ext. intros a _.
  cbn [map fst snd]. rewrite !amp_cons, !amp_nil, !cadd_0_r, !amp_term_tamp.
  rewrite !cmul_cadd_distr_l. reflexivity.
Qed.

Definition commuting (o : pauli) (l : plist) : plist := filter (fun a : pauli => acq (fst a) (fst o) =? 0) l.

Lemma summand_cases : forall n a o k k', wf n a -> wf n o -> hermP o ->
  cadd (cadd (tamp k k' (pmul (pid n) (pmul a (pid n)))) (tamp k k' (pmul (pid n) (pmul a o))))
       (cadd (tamp k k' (pmul o (pmul a (pid n)))) (tamp k k' (pmul o (pmul a o))))
  = if acq (fst a) (fst o) =? 0 then cmul c2 (cadd (tamp k k' a) (tamp k k' (pmul a o))) else c0.
Proof.
  intros n a o k k' Wa Wo Ho.
  rewrite (pmul_pid_r n a Wa), (pmul_pid_l n a Wa), (pmul_pid_l n (pmul a o) (wf_pmul n a o Wa Wo)).
  destruct (acq_01 (fst a) (fst o)) as [H|H]; rewrite H.
  - cbn [Z.eqb]. rewrite (conj_comm n a o Wa Wo Ho H), <- (acq_spec_comm a o H), c2_mul.
    f_equal. apply cadd_comm.
  - cbn [Z.eqb]. rewrite (conj_anti n a o Wa Wo Ho H), (acq_spec_anti a o H), !tamp_pneg. apply cadd_cancel4.
Qed.

Lemma csum_filter : forall {A} (f : A -> bool) (g : A -> coef) l,
  csum (map (fun a => if f a then g a else c0) l) = csum (map g (filter f l)).
Proof.
  intros A f g l. induction l as [|a l IH]; [reflexivity|].
  cbn [map filter]. rewrite csum_cons, IH. destruct (f a).
  - cbn [map]. rewrite csum_cons. reflexivity.
  - apply cadd_0_l.
Qed.

Lemma herm_wf_o : forall n (o : pauli), length (fst o) = n -> hermP o -> wf n o.
Proof. intros n o L H. apply herm_wf; assumption. Qed.

Lemma terms_wf : forall n t a, tableau_ok n t -> In a (density_terms t) -> wf n a /\ hermP a /\ in_group n t a.
Proof.
  intros n t a Hok Ha. apply (density_terms_complete n t a Hok) in Ha.
  destruct (group_hermitian n t a Hok Ha) as [W H]. auto.
Qed.

(* <k'| P rho P |k> = 2^-(n+1) * sum over the group elements b commuting with o of <k'| b + b o |k> *)
Theorem sandwich_amp : forall n t o k k', tableau_ok n t -> length (fst o) = n -> hermP o ->
  amp (sandwich n o (density_poly t)) k k'
  = cmul (cmul chalf (half_pow n))
      (csum (map (fun a : pauli => cadd (tamp k k' a) (tamp k k' (pmul a o))) (commuting o (density_terms t)))).
Proof.
  intros n t o k k' Hok Lo Ho. pose proof (herm_wf_o n o Lo Ho) as Wo.
  unfold density_poly. rewrite (ok_tN n t Hok), amp_sandwich_raw.
  rewrite (csum_map_ext _ (fun a : pauli => if acq (fst a) (fst o) =? 0
                                             then cmul c2 (cadd (tamp k k' a) (tamp k k' (pmul a o))) else c0)).
  - rewrite (csum_filter (fun a : pauli => acq (fst a) (fst o) =? 0)
                         (fun a : pauli => cmul c2 (cadd (tamp k k' a) (tamp k k' (pmul a o))))).
    fold (commuting o (density_terms t)). rewrite csum_map_cmul, coef_shuffle, chalf_c2, cmul_1_l. reflexivity.
  - intros a Ha. destruct (terms_wf n t a Hok Ha) as [Wa _]. apply (summand_cases n a o k k' Wa Wo Ho).
Qed.

(* ------------------------------------------------------------------ the group is abelian *)
Lemma group_abelian : forall n t a b, tableau_ok n t -> in_group n t a -> in_group n t b -> acq (fst a) (fst b) = 0.
Proof.
  intros n t a b Hok Ga Gb. destruct (acq_01 (fst a) (fst b)) as [H|H]; [exact H|]. exfalso.
  pose proof (in_group_pmul n t a b Hok Ga Gb) as G1. pose proof (in_group_pmul n t b a Hok Gb Ga) as G2.
  rewrite (acq_spec_anti a b H) in G1. exact (group_sign_unique n t _ Hok G2 G1).
Qed.

Lemma filter_all : forall {A} (f : A -> bool) l, (forall x, In x l -> f x = true) -> filter f l = l.
Proof.
  intros A f l. induction l as [|a l IH]; intros H; [reflexivity|].
  cbn [filter]. rewrite (H a (or_introl eq_refl)), IH; [reflexivity|]. intros x Hx. apply H. right. exact Hx.
Qed.

Lemma commuting_all : forall n t o, tableau_ok n t -> (forall a, in_group n t a -> acq (fst a) (fst o) = 0) ->
  commuting o (density_terms t) = density_terms t.
Proof.
  intros n t o Hok H. unfold commuting. apply filter_all. intros a Ha.
  apply (density_terms_complete n t a Hok) in Ha. rewrite (H a Ha). reflexivity.
Qed.

Lemma in_commuting : forall n t o a, tableau_ok n t ->
  (In a (commuting o (density_terms t)) <-> in_group n t a /\ acq (fst a) (fst o) = 0).
Proof.
  intros n t o a Hok. unfold commuting. rewrite filter_In, <- (density_terms_complete n t a Hok), Z.eqb_eq. reflexivity.
Qed.

Lemma density_amp : forall n t k k', tableau_ok n t ->
  amp (density_poly t) k k' = cmul (half_pow n) (csum (map (tamp k k') (density_terms t))).
Proof. intros n t k k' Hok. unfold density_poly. rewrite (ok_tN n t Hok). apply amp_map_tamp. Qed.

(* ------------------------------------------------------------------ determined cases *)
Theorem sandwich_eigen_plus : forall n t o k k', tableau_ok n t -> length (fst o) = n -> hermP o -> in_group n t o -> length k = n ->
   amp (sandwich n o (density_poly t)) k k' = amp (density_poly t) k k'.
Proof.
  intros n t o k k' Hok Lo Ho Go _.
  rewrite (sandwich_amp n t o k k' Hok Lo Ho), (density_amp n t k k' Hok).
  rewrite (commuting_all n t o Hok) by (intros a Ga; apply (group_abelian n t a o Hok Ga Go)).
  rewrite csum_map_cadd.
  assert (E : csum (map (fun a : pauli => tamp k k' (pmul a o)) (density_terms t)) = csum (map (tamp k k') (density_terms t))).
  { rewrite (csum_map_ext _ (fun a : pauli => tamp k k' (pmul o a))).
    - rewrite <- (map_map (pmul o) (tamp k k')).
      apply csum_perm, Permutation_map, (group_mul_perm n t o Hok).
      apply (density_terms_complete n t o Hok). exact Go.
    - intros a Ha. destruct (terms_wf n t a Hok Ha) as [_ [_ Ga]].
      rewrite (acq_spec_comm a o (group_abelian n t a o Hok Ga Go)). reflexivity. }
  rewrite E, (cmul_comm chalf), cmul_assoc, chalf_double. reflexivity.
Qed.

Theorem sandwich_eigen_minus : forall n t o k k', tableau_ok n t -> length (fst o) = n -> hermP o -> in_group n t (pneg o) -> length k = n ->
   amp (sandwich n o (density_poly t)) k k' = c0.
Proof.
  intros n t o k k' Hok Lo Ho Gm _.
  assert (Comm : forall a, in_group n t a -> acq (fst a) (fst o) = 0).
  { intros a Ga. exact (group_abelian n t a (pneg o) Hok Ga Gm). }
  rewrite (sandwich_amp n t o k k' Hok Lo Ho).
  rewrite (commuting_all n t o Hok Comm), csum_map_cadd.
  assert (E : csum (map (fun a : pauli => tamp k k' (pmul a o)) (density_terms t)) = cneg (csum (map (tamp k k') (density_terms t)))).
  { rewrite (csum_map_ext _ (fun a : pauli => cneg (tamp k k' (pmul (pneg o) a)))).
    - rewrite csum_map_cneg. f_equal. rewrite <- (map_map (pmul (pneg o)) (tamp k k')).
      apply csum_perm, Permutation_map, (group_mul_perm n t (pneg o) Hok).
      apply (density_terms_complete n t (pneg o) Hok). exact Gm.
    - intros a Ha. destruct (terms_wf n t a Hok Ha) as [_ [_ Ga]].
      rewrite <- (acq_spec_comm a (pneg o) (group_abelian n t a (pneg o) Hok Ga Gm)).
      rewrite pmul_pneg_r, tamp_pneg.
      rewrite cneg_invol. reflexivity. }
  rewrite E, cadd_cneg_r, cmul_0_r. reflexivity.
Qed.

(* ------------------------------------------------------------------ the new group as a disjoint union  C + C.o *)
Definition extended (o : pauli) (l : plist) : plist := commuting o l ++ map (fun a : pauli => pmul a o) (commuting o l).

Lemma extended_nodup : forall n t o, tableau_ok n t -> length (fst o) = n -> hermP o -> ~ in_group n t o ->
  NoDup (extended o (density_terms t)).
Proof.
  intros n t o Hok Lo Ho Hno. pose proof (herm_wf_o n o Lo Ho) as Wo.
  assert (HC : forall a, In a (commuting o (density_terms t)) -> wf n a /\ hermP a /\ in_group n t a).
  { intros a Ha. apply (in_commuting n t o a Hok) in Ha. destruct Ha as [Ga _].
    destruct (group_hermitian n t a Hok Ga) as [W H]. auto. }
  assert (NC : NoDup (commuting o (density_terms t))).
  { unfold commuting. apply NoDup_filter. apply (density_terms_nodup n t Hok). }
  unfold extended. apply NoDup_app_disj.
  - exact NC.
  - apply NoDup_map_inj_on; [|exact NC]. intros x y Hx Hy E.
    destruct (HC x Hx) as [Wx _]. destruct (HC y Hy) as [Wy _].
    rewrite <- (mul_o_o n x o Wx Wo Ho), E. apply (mul_o_o n y o Wy Wo Ho).
  - intros x Hx Hx'. apply in_map_iff in Hx'. destruct Hx' as [y [E Hy]].
    destruct (HC x Hx) as [Wx [_ Gx]]. destruct (HC y Hy) as [Wy [Hhy Gy]].
    apply Hno. pose proof (in_group_pmul n t y x Hok Gy Gx) as G.
    rewrite <- E, <- (pmul_assoc_wf n y y o Wy Wy Wo), (herm_square n y Wy Hhy), (pmul_pid_l n o Wo) in G. exact G.
Qed.

Lemma extended_perm : forall n t t' o, tableau_ok n t -> tableau_ok n t' -> length (fst o) = n -> hermP o -> ~ in_group n t o ->
  (forall a, in_group n t' a <-> exists b, in_group n t b /\ acq (fst b) (fst o) = 0 /\ (a = b \/ a = pmul b o)) ->
  Permutation (density_terms t') (extended o (density_terms t)).
Proof.
  intros n t t' o Hok Hok' Lo Ho Hno Char. apply NoDup_Permutation.
  - apply (density_terms_nodup n t' Hok').
  - apply (extended_nodup n t o Hok Lo Ho Hno).
  - intros x. rewrite <- (density_terms_complete n t' x Hok'), Char. unfold extended. rewrite in_app_iff, in_map_iff. split.
    + intros [b [Gb [Cb [E|E]]]].
      * left. subst x. apply (in_commuting n t o b Hok). auto.
      * right. exists b. split; [symmetry; exact E|]. apply (in_commuting n t o b Hok). auto.
    + intros [Hx|[b [E Hb]]].
      * apply (in_commuting n t o x Hok) in Hx. destruct Hx as [Gx Cx]. exists x. auto.
      * apply (in_commuting n t o b Hok) in Hb. destruct Hb as [Gb Cb]. exists b. auto.
Qed.

Lemma extended_sum : forall o l k k',
  csum (map (tamp k k') (extended o l))
  = csum (map (fun a : pauli => cadd (tamp k k' a) (tamp k k' (pmul a o))) (commuting o l)).
Proof.
  intros o l k k'. unfold extended. rewrite map_app, csum_app, map_map, csum_map_cadd. reflexivity.
Qed.

(* rho' = 2 P rho P whenever the new group is {b, b.o : b in the old group commuting with o} and o is not already in the old group *)
Theorem sandwich_general : forall n t t' o, tableau_ok n t -> tableau_ok n t' -> length (fst o) = n -> hermP o ->
   ~ in_group n t o ->
   (forall a, in_group n t' a <-> exists b, in_group n t b /\ acq (fst b) (fst o) = 0 /\ (a = b \/ a = pmul b o)) ->
   forall k k', amp (density_poly t') k k' = cmul c2 (amp (sandwich n o (density_poly t)) k k').
Proof.
  intros n t t' o Hok Hok' Lo Ho Hno Char k k'.
  rewrite (sandwich_amp n t o k k' Hok Lo Ho), (density_amp n t' k k' Hok').
  rewrite (csum_perm _ _ (Permutation_map (tamp k k') (extended_perm n t t' o Hok Hok' Lo Ho Hno Char))).
  rewrite extended_sum. rewrite <- !cmul_assoc, (cmul_comm c2 chalf), chalf_c2, cmul_1_l. reflexivity.
Qed.

Theorem sandwich_undetermined : forall n t t' o, tableau_ok n t -> tableau_ok n t' -> length (fst o) = n -> hermP o ->
   (exists a, in_group n t a /\ acq (fst a) (fst o) = 1) ->
   (forall a, in_group n t' a <-> exists b, in_group n t b /\ acq (fst b) (fst o) = 0 /\ (a = b \/ a = pmul b o)) ->
   forall k k', length k = n -> amp (density_poly t') k k' = cmul c2 (amp (sandwich n o (density_poly t)) k k').
Proof.
  intros n t t' o Hok Hok' Lo Ho [a [Ga Aa]] Char k k' _.
  apply (sandwich_general n t t' o Hok Hok' Lo Ho); [|exact Char].
  intros Go. assert (K : 0 = 1); [|discriminate K].
  transitivity (acq (fst a) (fst o)); [symmetry; exact (group_abelian n t a o Hok Ga Go) | exact Aa].
Qed.

(* the rank-dropping case: every old group element commutes with o, and neither o nor -o is in the old group
   (then rk t = S (rk t'), which is not needed for the amplitudes) *)
Theorem sandwich_extend : forall n t t' o, tableau_ok n t -> tableau_ok n t' -> length (fst o) = n -> hermP o ->
   (forall a, in_group n t a -> acq (fst a) (fst o) = 0) -> ~ in_group n t o -> ~ in_group n t (pneg o) ->
   (forall a, in_group n t' a <-> exists b, in_group n t b /\ acq (fst b) (fst o) = 0 /\ (a = b \/ a = pmul b o)) ->
   forall k k', length k = n -> amp (density_poly t') k k' = cmul c2 (amp (sandwich n o (density_poly t)) k k').
Proof.
  intros n t t' o Hok Hok' Lo Ho _ Hno _ Char k k' _.
  exact (sandwich_general n t t' o Hok Hok' Lo Ho Hno Char k k').
Qed.

(* in that case the rank does drop by one: the new group has twice as many elements *)
Theorem sandwich_extend_rank : forall n t t' o, tableau_ok n t -> tableau_ok n t' -> length (fst o) = n -> hermP o ->
   (forall a, in_group n t a -> acq (fst a) (fst o) = 0) -> ~ in_group n t o ->
   (forall a, in_group n t' a <-> exists b, in_group n t b /\ acq (fst b) (fst o) = 0 /\ (a = b \/ a = pmul b o)) ->
   rk t = S (rk t').
Proof.
  intros n t t' o Hok Hok' Lo Ho Comm Hno Char.
  pose proof (Permutation_length (extended_perm n t t' o Hok Hok' Lo Ho Hno Char)) as E.
  unfold extended in E. rewrite app_length, map_length, (commuting_all n t o Hok Comm) in E.
  rewrite (density_terms_length n t Hok), (density_terms_length n t' Hok') in E.
  pose proof Hok as [_ [Hr _]]. pose proof Hok' as [_ [Hr' _]].
  assert (E2 : (2 ^ (n - rk t') = 2 ^ (S (n - rk t)))%nat) by (rewrite Nat.pow_succ_r'; lia).
  apply Nat.pow_inj_r in E2; lia.
Qed.

(* ------------------------------------------------------------------ Tr(P rho P) = 1/2 when <O> = 0 *)
Lemma trace_sem_ext : forall n p q, (forall k, amp p k k = amp q k k) -> trace_sem n p = trace_sem n q.
Proof. intros n p q H. unfold trace_sem. apply csum_map_ext. intros k _. apply H. Qed.

Lemma sandwich_trace_half_p : forall n t (o : pauli), tableau_ok n t -> length (fst o) = n -> hermP o -> expect1 t o = 0 ->
   cmul c2 (trace_sem n (sandwich n o (density_poly t))) = c1.
Proof.
  intros n t o Hok Lo Ho E0. pose proof (herm_wf_o n o Lo Ho) as Wo.
  assert (Hno : ~ in_group n t o).
  { intros G. apply (expect_plus n t o Hok Lo Ho) in G. rewrite G in E0. discriminate E0. }
  assert (Hnm : ~ in_group n t (pneg o)).
  { intros G. apply (expect_minus n t o Hok Lo Ho) in G. rewrite G in E0. discriminate E0. }
  set (q := cmul chalf (half_pow n)).
  set (C := commuting o (density_terms t)).
  rewrite (trace_sem_ext n _ (map (fun a : pauli => (q, a)) (extended o (density_terms t)))).
  2:{ intros k. rewrite (sandwich_amp n t o k k Hok Lo Ho), amp_map_tamp, extended_sum. reflexivity. }
  assert (HC : forall a, In a C -> wf n a /\ in_group n t a).
  { intros a Ha. apply (in_commuting n t o a Hok) in Ha. destruct Ha as [Ga _].
    destruct (group_hermitian n t a Hok Ga) as [W _]. auto. }
  rewrite trace_sem_terms.
  2:{ unfold well_sized. apply Forall_forall. intros x Hx. apply in_map_iff in Hx. destruct Hx as [a [E Ha]]. subst x.
      cbn [fst snd]. unfold extended in Ha. fold C in Ha. apply in_app_or in Ha. destruct Ha as [Ha|Ha].
      - destruct (HC a Ha) as [[L _] _]. exact L.
      - apply in_map_iff in Ha. destruct Ha as [b [E Hb]]. subst a. destruct (HC b Hb) as [Wb _].
        destruct (wf_pmul n b o Wb Wo) as [L _]. exact L. }
  rewrite map_map. cbn [fst snd]. unfold extended. fold C. rewrite map_app, csum_app, map_map.
  rewrite (csum_unique _ C (pid n)).
  - rewrite csum_all_zero.
    + unfold pid at 1 2. cbn [fst snd]. rewrite is_id_str_id, cadd_0_r, (cipow_0 0 _ eq_refl).
      unfold q. rewrite cmul_assoc, half_pow_two_pow, cmul_1_r, (cmul_comm c2), chalf_c2. reflexivity.
    + intros b Hb. destruct (is_id_str (fst (pmul b o))) eqn:E; [|reflexivity]. exfalso.
      destruct (HC b Hb) as [[Lb Rb] Gb]. apply is_id_str_eq in E.
      rewrite pmul_fst, gxor_length in E by (rewrite Lb, Lo; reflexivity). rewrite Lb in E.
      apply (gxor_eq_id n _ _ Lb Lo) in E.
      destruct (group_hermitian n t b Hok Gb) as [_ Hb'].
      destruct (herm_same_str b o Hb' Ho E) as [K|K]; rewrite K in Gb; [exact (Hno Gb) | exact (Hnm Gb)].
  - apply (in_commuting n t o (pid n) Hok). split; [apply (in_group_pid n t Hok)|].
    rewrite acq_acqb. unfold pid. cbn [fst]. rewrite acqb_id_l. reflexivity.
  - intros x Hx Hne. destruct (is_id_str (fst x)) eqn:E; [|reflexivity]. exfalso. apply Hne.
    destruct (HC x Hx) as [[Lx _] Gx]. apply is_id_str_eq in E.
    apply (group_same_str n t x (pid n) Hok Gx (in_group_pid n t Hok)).
    rewrite E, Lx. reflexivity.
  - unfold C, commuting. apply NoDup_filter. apply (density_terms_nodup n t Hok).
Qed.

Theorem sandwich_trace_half : forall n t o, tableau_ok n t -> length (fst o) = n -> hermP o -> expect1 t o = 0 ->
   cmul c2 (trace_sem n (sandwich n o (density_poly t))) = c1.
Proof. exact sandwich_trace_half_p. Qed.

(* ------------------------------------------------------------------ the measurement kernel *)
Lemma measure1_density_p : forall n t (o : pauli) coin k k', tableau_ok n t -> length (fst o) = n -> hermP o -> (coin = 0 \/ coin = 1) ->
   (exists i, (i < n + rk t)%nat /\ acq (fst (row (rows t) i)) (fst o) = 1) -> length k = n ->
   let t' := fst (fst (fst (measure1 t o coin))) in
   amp (density_poly t') k k' = cmul c2 (amp (sandwich n (fst o, 2 * coin) (density_poly t)) k k').
Proof.
  intros n t o coin k k' Hok Lo Ho Hcoin Hblk _ t'.
  pose proof (undet_rows n t o coin Hok Lo Ho Hcoin (blk_anti n t o Hblk)) as U. cbv zeta in U. fold t' in U.
  destruct U as [Hok' _].
  set (so := (fst o, 2 * coin) : pauli).
  assert (Hso : hermP so).
  { unfold hermP, so. cbn [snd]. destruct Hcoin as [H|H]; rewrite H; [left|right]; reflexivity. }
  apply (sandwich_general n t t' so Hok Hok' Lo Hso).
  - intros G. destruct (blk_anti n t o Hblk) as [i [Hi Ha]].
    rewrite (in_group_free n t so (fst o) Hok G eq_refl i Hi) in Ha. discriminate Ha.
  - intros a. exact (measure1_group_exact n t o coin a Hok Lo Ho Hcoin Hblk).
Qed.

Theorem measure1_density : forall n t o coin k k', tableau_ok n t -> length (fst o) = n -> hermP o -> (coin = 0 \/ coin = 1) ->
   (exists i, (i < n + rk t)%nat /\ acq (fst (row (rows t) i)) (fst o) = 1) -> length k = n ->
   let t' := fst (fst (fst (measure1 t o coin))) in
   amp (density_poly t') k k' = cmul c2 (amp (sandwich n (fst o, 2 * coin) (density_poly t)) k k').
Proof. exact measure1_density_p. Qed.
