(* Proofs/CliffordUnitary.v -- every valid Clifford map is implemented by a (scaled) unitary: GeneratedFacts (decomposition into pi/4 rotations)
   combined with UnitaryFacts (a rotation is conjugation by 1 + iG in the ket semantics). *)
From Coq Require Import ZArith List.
From PC Require Import Model.Base Model.Pauli Model.Ket Model.CMap Model.Spec Model.Poly Model.PolySem Proofs.GeneratedFacts Proofs.UnitaryFacts.
Import ListNotations.
Open Scope Z_scope.

Theorem clifford_map_unitary : forall n m, valid_map n m ->
  exists V Vd K,
    (forall k k', length k = n -> amp (pmulp Vd V) k k' = cmul (two_pow K) (amp (ident_poly n) k k')) /\
    (forall a k k', wf n a -> length k = n -> amp (pmulp Vd (pmulp [(c1, a)] V)) k k' = cmul (two_pow K) (amp [(c1, transform1 m a)] k k')).
Proof.
  intros n m Hm.
  destruct (GeneratedFacts.map_is_rotation_product n m Hm) as [gens [Hg Ha]].
  exact (UnitaryFacts.map_unitary_from_decomposition n m gens Hg Ha).
Qed.
