(* Proofs/Rotate.v -- Clifford rotation by a Pauli generator (utils.clifford_rotate and the masked variants). *)
From Coq Require Import ZArith List Bool Lia ZifyBool Arith.
From PC Require Import Gen.Kernels Model.Base Model.Pauli Model.Ket Model.CMap Model.Spec Proofs.PauliFacts.
Import ListNotations.
Open Scope Z_scope.
Ltac Zify.zify_post_hook ::= Z.to_euclidean_division_equations.   (* lets lia decide goals with mod and / by constants *)

(* length goals: hypotheses mention [pstr] / [list site] with different implicit arguments, so match up to conversion *)
Ltac len :=
  first [ assumption | symmetry; assumption
        | etransitivity; [eassumption | symmetry; eassumption]
        | etransitivity; [symmetry; eassumption | eassumption]
        | etransitivity; [eassumption | eassumption]
        | etransitivity; [symmetry; eassumption | symmetry; eassumption] ].

(* ------------------------------------------------------------------ small algebra of pscale / pneg / pshift *)
Definition rot_bits (a g : pstr) : pstr :=
  map2 (fun s t => (bz (np_rotate_bit (zb (fst s)) (zb (fst t))), bz (np_rotate_bit (zb (snd s)) (zb (snd t))))) a g.

Lemma rot_bits_gxor : forall a g, rot_bits a g = gxor a g.
Proof.
  unfold rot_bits. induction a as [|x a IH]; intros [|y g]; cbn [map2 gxor]; try reflexivity.
  rewrite IH. reflexivity.
Qed.

Lemma rotate1_unfold : forall gen a,
  rotate1 gen a = if bz (acq (fst gen) (fst a))
                  then (gxor (fst a) (fst gen), (snd a + snd gen + 1 + ipow (fst a) (fst gen)) mod 4)
                  else a.
Proof.
  intros gen a. unfold rotate1. fold (rot_bits (fst a) (fst gen)). rewrite rot_bits_gxor. reflexivity.
Qed.

Lemma pscale_fst : forall k a, fst (pscale k a) = fst a.
Proof. reflexivity. Qed.
Lemma pscale_snd : forall k a, snd (pscale k a) = (snd a + k) mod 4.
Proof. reflexivity. Qed.

Lemma pauli_eq : forall a b : pauli, fst a = fst b -> snd a = snd b -> a = b.
Proof. intros [ga pa] [gb pb]; cbn [fst snd]; intros; subst; reflexivity. Qed.

Lemma pneg_pscale : forall a, pneg a = pscale 2 a.
Proof. reflexivity. Qed.
Lemma pshift_pscale : forall k a, pshift k a = pscale k a.
Proof. reflexivity. Qed.

Lemma pscale_pscale : forall k l a, pscale k (pscale l a) = pscale (l + k) a.
Proof. intros. unfold pscale; cbn [fst snd]. f_equal. lia. Qed.

Lemma pscale_mod : forall k l a, k mod 4 = l mod 4 -> pscale k a = pscale l a.
Proof. intros. unfold pscale. f_equal. lia. Qed.

Lemma pscale_0_norm : forall a, 0 <= snd a < 4 -> pscale 0 a = a.
Proof. intros [g p] H; unfold pscale; cbn [fst snd] in *. f_equal. lia. Qed.

Lemma pscale_norm : forall k a, k mod 4 = 0 -> 0 <= snd a < 4 -> pscale k a = a.
Proof. intros [|k|k] [g p] Hk H; unfold pscale; cbn [fst snd] in *; f_equal; lia. Qed.

Lemma pmul_pscale_l : forall k a b, pmul (pscale k a) b = pscale k (pmul a b).
Proof.
  intros. unfold pmul, pscale, np_matmul_phase; cbn [fst snd]. f_equal. lia.
Qed.
Lemma pmul_pscale_r : forall k a b, pmul a (pscale k b) = pscale k (pmul a b).
Proof.
  intros. unfold pmul, pscale, np_matmul_phase; cbn [fst snd]. f_equal. lia.
Qed.

Lemma pmul_wf : forall n a b, length (fst a) = n -> length (fst b) = n -> wf n (pmul a b).
Proof.
  intros n a b Ha Hb. split; [|apply pmul_range].
  rewrite pmul_fst, gxor_length; len.
Qed.

Lemma bz_zb : forall b, bz (zb b) = b.
Proof. intros [|]; reflexivity. Qed.

(* ------------------------------------------------------------------ the two cases *)
Theorem rotate_commute : forall gen a, acq (fst gen) (fst a) = 0 -> rotate1 gen a = a.
Proof. intros gen a H. unfold rotate1. rewrite H. reflexivity. Qed.

Theorem rotate_anticommute : forall gen a, length (fst gen) = length (fst a) -> acq (fst gen) (fst a) = 1 ->
  rotate1 gen a = pscale 1 (pmul a gen).
Proof.
  intros [g pg] [x pa] _ H. rewrite rotate1_unfold. cbn [fst snd] in *. rewrite H. cbn [bz Z.eqb negb].
  unfold pscale, pmul, np_matmul_phase; cbn [fst snd]. f_equal. lia.
Qed.

(* ------------------------------------------------------------------ conjugation by a Hermitian generator *)
Lemma herm_square : forall n gen, wf n gen -> hermP gen -> pmul gen gen = pid n.
Proof.
  intros n gen [HL HR] HH. rewrite pmul_square, HL. unfold pid. f_equal.
  destruct HH as [E|E]; rewrite E; reflexivity.
Qed.

Theorem conj_commute : forall n gen a, wf n gen -> hermP gen -> wf n a -> acq (fst gen) (fst a) = 0 ->
  pmul (pmul gen a) gen = a.
Proof.
  intros n gen a Hg HH Ha Hc.
  rewrite (acq_spec_comm gen a Hc).
  pose proof (herm_square n gen Hg HH) as HS.
  destruct Hg as [Lg Rg], Ha as [La Ra].
  rewrite pmul_assoc by len.
  rewrite HS.
  rewrite <- La. rewrite pmul_id_r. destruct a as [g p]; cbn [fst snd] in *. f_equal. lia.
Qed.

Theorem conj_anticommute : forall n gen a, wf n gen -> hermP gen -> wf n a -> acq (fst gen) (fst a) = 1 ->
  pmul (pmul gen a) gen = pneg a.
Proof.
  intros n gen a Hg HH Ha Hc.
  rewrite (acq_spec_anti gen a Hc).
  pose proof (herm_square n gen Hg HH) as HS.
  destruct Hg as [Lg Rg], Ha as [La Ra].
  rewrite pneg_pscale, pmul_pscale_l.
  rewrite pmul_assoc by len.
  rewrite HS.
  rewrite <- La. rewrite pmul_id_r. destruct a as [g p]; unfold pscale, pneg, np_Pauli_neg; cbn [fst snd] in *. f_equal. lia.
Qed.

Theorem rotate_wf : forall n gen a, wf n gen -> wf n a -> wf n (rotate1 gen a).
Proof.
  intros n gen a [Lg Rg] [La Ra]. rewrite rotate1_unfold.
  destruct (bz (acq (fst gen) (fst a))); [|split; assumption].
  split; cbn [fst snd]; [|lia]. rewrite gxor_length; len.
Qed.

(* ------------------------------------------------------------------ boolean case analysis *)
Lemma rotate1_acqb : forall gen a : pauli,
  rotate1 gen a = if acqb (fst gen) (fst a) then pscale 1 (pmul a gen) else a.
Proof.
  intros gen a. rewrite rotate1_unfold, acq_acqb, bz_zb.
  destruct (acqb (fst gen) (fst a)); [|reflexivity].
  unfold pscale, pmul, np_matmul_phase; cbn [fst snd]. f_equal. lia.
Qed.

Lemma rotate1_fst : forall gen a : pauli,
  fst (rotate1 gen a) = if acqb (fst gen) (fst a) then gxor (fst a) (fst gen) else fst a.
Proof. intros. rewrite rotate1_acqb. destruct (acqb (fst gen) (fst a)); reflexivity. Qed.

Lemma acqb_gen_rot : forall gen a : pauli, length (fst gen) = length (fst a) ->
  acqb (fst gen) (fst (rotate1 gen a)) = acqb (fst gen) (fst a).
Proof.
  intros gen a HL. rewrite rotate1_fst. destruct (acqb (fst gen) (fst a)) eqn:E; [|exact E].
  rewrite acqb_xor_r by len. rewrite E, acqb_self. reflexivity.
Qed.

Lemma mul_gen_gen : forall n (gen a : pauli), wf n gen -> hermP gen -> wf n a -> pmul (pmul a gen) gen = a.
Proof.
  intros n gen a Hg HH Ha. pose proof (herm_square n gen Hg HH) as HS.
  destruct Hg as [Lg Rg], Ha as [La Ra].
  rewrite pmul_assoc by len. rewrite HS, <- La, pmul_id_r.
  destruct a as [g p]; cbn [fst snd] in *. f_equal. lia.
Qed.

Lemma wf_pscale : forall n k a, wf n a -> wf n (pscale k a).
Proof. intros n k a [L R]. split; [exact L|]. rewrite pscale_snd. lia. Qed.

Lemma wf_pneg : forall n a, wf n a -> wf n (pneg a).
Proof. intros n a H. rewrite pneg_pscale. apply wf_pscale, H. Qed.

Lemma hermP_pneg : forall a, hermP a -> hermP (pneg a).
Proof. intros [g p] [H|H]; cbn [snd] in H; subst p; [right|left]; reflexivity. Qed.

Theorem rotate_neg_inverse : forall n gen a, wf n gen -> hermP gen -> wf n a -> rotate1 (pneg gen) (rotate1 gen a) = a.
Proof.
  intros n gen a Hg HH Ha.
  assert (HL : length (fst gen) = length (fst a)) by (destruct Hg, Ha; len).
  rewrite (rotate1_acqb (pneg gen)). change (fst (pneg gen)) with (fst gen).
  rewrite acqb_gen_rot by exact HL.
  rewrite rotate1_acqb. destruct (acqb (fst gen) (fst a)); [|reflexivity].
  rewrite pneg_pscale, pmul_pscale_l, pmul_pscale_r, !pscale_pscale.
  rewrite (mul_gen_gen n gen a Hg HH Ha).
  apply pscale_norm; [reflexivity | apply Ha].
Qed.

Theorem rotate_inverse_neg : forall n gen a, wf n gen -> hermP gen -> wf n a -> rotate1 gen (rotate1 (pneg gen) a) = a.
Proof.
  intros n gen a Hg HH Ha.
  assert (HL : length (fst (pneg gen)) = length (fst a)) by (destruct Hg, Ha; cbn [pneg fst]; len).
  pose proof (acqb_gen_rot (pneg gen) a HL) as E. change (fst (pneg gen)) with (fst gen) in E.
  rewrite (rotate1_acqb gen). rewrite E.
  rewrite rotate1_acqb. change (fst (pneg gen)) with (fst gen).
  destruct (acqb (fst gen) (fst a)); [|reflexivity].
  rewrite pneg_pscale, pmul_pscale_l, pmul_pscale_r, pmul_pscale_l, !pscale_pscale.
  rewrite (mul_gen_gen n gen a Hg HH Ha).
  apply pscale_norm; [reflexivity | apply Ha].
Qed.

Lemma rotate_sq : forall n (gen a : pauli), wf n gen -> hermP gen -> wf n a ->
  rotate1 gen (rotate1 gen a) = if acqb (fst gen) (fst a) then pneg a else a.
Proof.
  intros n gen a Hg HH Ha.
  assert (HL : length (fst gen) = length (fst a)) by (destruct Hg, Ha; len).
  rewrite (rotate1_acqb gen (rotate1 gen a)). rewrite acqb_gen_rot by exact HL.
  rewrite rotate1_acqb. destruct (acqb (fst gen) (fst a)); [|reflexivity].
  rewrite pmul_pscale_l, !pscale_pscale. rewrite (mul_gen_gen n gen a Hg HH Ha). reflexivity.
Qed.

Theorem rotate_four : forall n gen a, wf n gen -> hermP gen -> wf n a ->
  rotate1 gen (rotate1 gen (rotate1 gen (rotate1 gen a))) = a.
Proof.
  intros n gen a Hg HH Ha.
  rewrite (rotate_sq n gen a Hg HH Ha).
  destruct (acqb (fst gen) (fst a)) eqn:E.
  - rewrite (rotate_sq n gen (pneg a) Hg HH (wf_pneg n a Ha)). change (fst (pneg a)) with (fst a). rewrite E.
    change (pneg (pneg a)) with (pscale 2 (pscale 2 a)). rewrite pscale_pscale. apply pscale_norm; [reflexivity | apply Ha].
  - rewrite (rotate_sq n gen a Hg HH Ha). rewrite E. reflexivity.
Qed.

(* ------------------------------------------------------------------ rotation is an algebra homomorphism *)
Theorem rotate_hom : forall n gen a b, wf n gen -> hermP gen -> wf n a -> wf n b ->
  rotate1 gen (pmul a b) = pmul (rotate1 gen a) (rotate1 gen b).
Proof.
  intros n gen a b Hg HH Ha Hb.
  assert (Lg : length (fst gen) = n) by apply Hg.
  assert (La : length (fst a) = n) by apply Ha.
  assert (Lb : length (fst b) = n) by apply Hb.
  rewrite (rotate1_acqb gen (pmul a b)), (rotate1_acqb gen a), (rotate1_acqb gen b).
  rewrite pmul_fst, acqb_xor_r by len.
  destruct (acqb (fst gen) (fst a)) eqn:Ea, (acqb (fst gen) (fst b)) eqn:Eb; cbn [xorb].
  - (* both anticommute *)
    rewrite pmul_pscale_l, pmul_pscale_r, pscale_pscale.
    rewrite (pmul_assoc a gen (pmul b gen)) by (rewrite ?pmul_fst, ?gxor_length; len).
    rewrite <- (pmul_assoc gen b gen) by len.
    rewrite (conj_anticommute n gen b Hg HH Hb) by (rewrite acq_acqb, Eb; reflexivity).
    change (pneg b) with (pscale 2 b). rewrite pmul_pscale_r, pscale_pscale.
    symmetry. apply pscale_norm; [reflexivity | apply pmul_range].
  - (* a anticommutes, b commutes *)
    rewrite pmul_pscale_l. f_equal.
    rewrite !pmul_assoc by len. f_equal.
    apply acq_spec_comm. rewrite acq_acqb, acqb_sym, Eb. reflexivity.
  - rewrite pmul_pscale_r. f_equal. apply pmul_assoc; len.
  - reflexivity.
Qed.

Theorem rotate_acq : forall n gen a b, length (fst gen) = n -> length (fst a) = n -> length (fst b) = n ->
  acq (fst (rotate1 gen a)) (fst (rotate1 gen b)) = acq (fst a) (fst b).
Proof.
  intros n [g pg] [x pa] [y pb] Lg La Lb. rewrite !acq_acqb. f_equal.
  rewrite !rotate1_fst. cbn [fst snd] in *.
  destruct (acqb g x) eqn:Ea, (acqb g y) eqn:Eb;
    rewrite ?acqb_xor_l, ?acqb_xor_r by (rewrite ?gxor_length; len);
    rewrite ?(acqb_sym x g), ?(acqb_sym y g), ?Ea, ?Eb, ?acqb_self; try reflexivity.
  all: destruct (acqb x y); reflexivity.
Qed.

(* parity of the ipow sum is the symplectic form *)
Lemma ipow_site_parity : forall s t, ipow_site s t mod 2 = zb (acqb_site s t).
Proof. intros [[|] [|]] [[|] [|]]; vm_compute; reflexivity. Qed.

Lemma sum2_ipow_parity : forall g1 g2, sum2 ipow_site g1 g2 mod 2 = zb (acqb g1 g2).
Proof.
  induction g1 as [|a g1 IH]; intros [|b g2]; cbn [sum2 acqb]; try reflexivity.
  specialize (IH g2). pose proof (ipow_site_parity a b).
  destruct (acqb_site a b), (acqb g1 g2); cbn [xorb zb] in *; lia.
Qed.

Lemma ipow_parity : forall g1 g2, ipow g1 g2 mod 2 = zb (acqb g1 g2).
Proof. intros. unfold ipow. rewrite modulus_ipow. pose proof (sum2_ipow_parity g1 g2). lia. Qed.

Theorem rotate_herm : forall n gen a, wf n gen -> hermP gen -> wf n a -> hermP a -> hermP (rotate1 gen a).
Proof.
  intros n [g pg] [x pa] Hg HH Ha HA. rewrite rotate1_unfold, acq_acqb, bz_zb. cbn [fst snd] in *.
  destruct (acqb g x) eqn:E; [|exact HA].
  unfold hermP in *; cbn [fst snd] in *.
  pose proof (ipow_parity x g) as P. rewrite acqb_sym, E in P. cbn [zb] in P.
  destruct HH, HA; lia.
Qed.

Theorem rotate_scale : forall gen k a, rotate1 gen (pscale k a) = pscale k (rotate1 gen a).
Proof.
  intros [g pg] k [x pa]. rewrite !rotate1_unfold. unfold pscale; cbn [fst snd].
  destruct (bz (acq g x)); [|reflexivity]. cbn [fst snd]. f_equal. lia.
Qed.

(* ------------------------------------------------------------------ gather / scatter against the lifted generator *)
Lemma count_true_cons_t : forall m, count_true (true :: m) = S (count_true m).
Proof. reflexivity. Qed.
Lemma count_true_cons_f : forall m, count_true (false :: m) = count_true m.
Proof. reflexivity. Qed.
Lemma count_true_nil : count_true [] = 0%nat.
Proof. reflexivity. Qed.
Arguments count_true : simpl never.

Definition lift_str (m : list bool) (g : pstr) : pstr := scatter m (id_str (length m)) g.

Lemma lift_str_nil : forall g, lift_str [] g = [].
Proof. reflexivity. Qed.
Lemma lift_str_t : forall m y g, lift_str (true :: m) (y :: g) = y :: lift_str m g.
Proof. reflexivity. Qed.
Lemma lift_str_f : forall m g, lift_str (false :: m) g = I_site :: lift_str m g.
Proof. reflexivity. Qed.
Arguments lift_str : simpl never.

Lemma lift_fst : forall m gen, fst (lift m gen) = lift_str m (fst gen).
Proof. reflexivity. Qed.
Lemma lift_snd : forall m gen, snd (lift m gen) = snd gen.
Proof. reflexivity. Qed.

Lemma lift_str_length : forall m g, length (lift_str m g) = length m.
Proof.
  induction m as [|[|] m IH]; intros g.
  - reflexivity.
  - destruct g as [|y g].
    + unfold lift_str. cbn [length]. rewrite id_str_S. cbn [scatter length]. f_equal. apply (IH []).
    + rewrite lift_str_t. cbn [length]. f_equal. apply IH.
  - rewrite lift_str_f. cbn [length]. f_equal. apply IH.
Qed.

Lemma ipow_gather_lift : forall m x g, length x = length m -> count_true m = length g ->
  sum2 ipow_site (gather m x) g mod 4 = sum2 ipow_site x (lift_str m g) mod 4.
Proof.
  induction m as [|[|] m IH]; intros [|s x] g Hx Hc; try discriminate Hx.
  - reflexivity.
  - rewrite count_true_cons_t in Hc. destruct g as [|y g]; [discriminate Hc|].
    rewrite lift_str_t. cbn [gather sum2]. cbn [length] in Hx, Hc.
    specialize (IH x g ltac:(lia) ltac:(lia)). lia.
  - rewrite count_true_cons_f in Hc. rewrite lift_str_f. cbn [gather sum2]. cbn [length] in Hx.
    specialize (IH x g ltac:(lia) Hc). pose proof (ipow_site_I_r s). lia.
Qed.

Lemma acqb_site_I_r : forall s, acqb_site s I_site = false.
Proof. intros s. rewrite acqb_site_sym. apply acqb_site_I_l. Qed.

Lemma acqb_gather_lift : forall m x g, length x = length m -> count_true m = length g ->
  acqb g (gather m x) = acqb (lift_str m g) x.
Proof.
  induction m as [|[|] m IH]; intros [|s x] g Hx Hc; try discriminate Hx.
  - rewrite count_true_nil in Hc. destruct g; [reflexivity | discriminate Hc].
  - rewrite count_true_cons_t in Hc. destruct g as [|y g]; [discriminate Hc|].
    rewrite lift_str_t. cbn [gather acqb]. cbn [length] in Hx, Hc.
    rewrite (IH x g) by lia. reflexivity.
  - rewrite count_true_cons_f in Hc. rewrite lift_str_f. cbn [gather acqb]. cbn [length] in Hx.
    rewrite (IH x g) by lia. rewrite acqb_site_I_l. destruct (acqb (lift_str m g) x); reflexivity.
Qed.

Lemma scatter_gxor_lift : forall m x g, length x = length m -> count_true m = length g ->
  scatter m x (gxor (gather m x) g) = gxor x (lift_str m g).
Proof.
  induction m as [|[|] m IH]; intros [|s x] g Hx Hc; try discriminate Hx.
  - reflexivity.
  - rewrite count_true_cons_t in Hc. destruct g as [|y g]; [discriminate Hc|].
    rewrite lift_str_t. cbn [gather gxor scatter]. cbn [length] in Hx, Hc.
    rewrite (IH x g) by lia. reflexivity.
  - rewrite count_true_cons_f in Hc. rewrite lift_str_f. cbn [gather gxor scatter]. cbn [length] in Hx.
    rewrite (IH x g) by lia. rewrite xor_site_I_r. reflexivity.
Qed.

Lemma scatter_gather : forall A (m : list bool) (x : list A), scatter m x (gather m x) = x.
Proof.
  induction m as [|[|] m IH]; intros [|s x]; try reflexivity; cbn [gather scatter]; rewrite IH; reflexivity.
Qed.

Lemma gather_neg_scatter : forall A (m : list bool) (x sub : list A),
  gather (map negb m) (scatter m x sub) = gather (map negb m) x.
Proof.
  induction m as [|[|] m IH]; intros [|s x] sub; try reflexivity; cbn [map negb scatter].
  - destruct sub as [|t sub]; cbn [gather]; apply IH.
  - cbn [gather]. f_equal. apply IH.
Qed.

(* masked rotation = rotation by the generator lifted to the full register; qubits outside the mask are untouched *)
Theorem rotate_masked_lift : forall N m gen a, length m = N -> count_true m = length (fst gen) -> length (fst a) = N ->
  rotate1_masked gen m a = rotate1 (lift m gen) a.
Proof.
  intros N m [g pg] [x pa] Hm Hc Ha. cbn [fst snd] in *.
  assert (Hx : length x = length m) by len.
  unfold rotate1_masked. rewrite !rotate1_unfold. rewrite lift_fst, lift_snd. cbn [fst snd].
  rewrite !acq_acqb, !bz_zb. rewrite (acqb_gather_lift m x g Hx Hc).
  destruct (acqb (lift_str m g) x); cbn [fst snd].
  - f_equal.
    + apply scatter_gxor_lift; assumption.
    + unfold ipow. rewrite modulus_ipow. pose proof (ipow_gather_lift m x g Hx Hc). lia.
  - rewrite scatter_gather. reflexivity.
Qed.

Theorem rotate_masked_outside : forall N m gen a, length m = N -> count_true m = length (fst gen) -> length (fst a) = N ->
  gather (map negb m) (fst (rotate1_masked gen m a)) = gather (map negb m) (fst a).
Proof.
  intros N m gen a _ _ _. unfold rotate1_masked. cbn [fst]. apply gather_neg_scatter.
Qed.

(* ------------------------------------------------------------------ the rotation map lists the rotated X_i / Z_i *)
Theorem rotation_map_rows : forall gen k, (k < 2 * length (fst gen))%nat ->
  nth k (rotation_map gen) (pid 0) = rotate1 gen (unit_str (length (fst gen)) k, 0).
Proof.
  intros gen k Hk. unfold rotation_map, clifford_rotate, identity_map.
  set (n := length (fst gen)) in *.
  rewrite map_map.
  set (f := fun j : nat => rotate1 gen (unit_str n j, 0)).
  rewrite (nth_indep (map f (seq 0 (2 * n))) (pid 0) (f 0%nat))
    by (rewrite map_length, seq_length; exact Hk).
  rewrite (map_nth f). rewrite seq_nth by exact Hk. reflexivity.
Qed.
