(* Proofs/TorchTwins.v -- every formula / table re-extracted from torchclifford equals its pyclifford twin (and the np twins among themselves).
   Kept in a file of its own so that a change to a torch formula breaks exactly the properties that claim the torch port (C01, C13, C20), not every
   property whose proofs rest on the numpy algebra. *)
From Coq Require Import ZArith List Bool Lia ZifyBool.
From PC Require Import Gen.Kernels Gen.Tables Model.Base Model.Pauli Model.Parse Model.Index.
Import ListNotations.
Open Scope Z_scope.

(* torch twins of the per-site summands coincide with the numpy ones on bits *)
Lemma torch_terms_agree : forall a b c d : bool,
  torch_acq_term (zb a) (zb b) (zb c) (zb d) mod 2 = np_acq_term (zb a) (zb b) (zb c) (zb d) mod 2 /\
  torch_ipow_term (zb a) (zb b) (zb c) (zb d) mod 4 = np_ipow_term (zb a) (zb b) (zb c) (zb d) mod 4 /\
  torch_ipow_product_term (zb a) (zb b) (zb c) (zb d) mod 4 = np_ipow_term (zb a) (zb b) (zb c) (zb d) mod 4 /\
  torch_ps0_term (zb a) (zb b) mod 4 = np_ps0_term (zb a) (zb b) mod 4 /\
  np_acq_mat_term (zb a) (zb b) (zb c) (zb d) mod 2 = np_acq_term (zb a) (zb b) (zb c) (zb d) mod 2.
Proof. intros [|] [|] [|] [|]; vm_compute; repeat split; reflexivity. Qed.
Lemma torch_moduli_agree :
  torch_acq_modulus = np_acq_modulus /\ torch_ipow_modulus = np_ipow_modulus /\
  torch_ipow_product_modulus = np_ipow_modulus /\ torch_ps0_modulus = np_ps0_modulus /\
  np_acq_mat_modulus = np_acq_modulus /\ np_p0_modulus = np_ps0_modulus.
Proof. repeat split; reflexivity. Qed.
Lemma torch_matmul_agree : forall p1 p2 ip a b,
  torch_matmul_phase p1 p2 ip = np_matmul_phase p1 p2 ip /\ torch_matmul_bit a b = np_matmul_bit a b /\
  np_batch_dot_phase p1 p2 ip = np_matmul_phase p1 p2 ip /\ np_batch_dot_bit a b = np_matmul_bit a b.
Proof. intros; repeat split; reflexivity. Qed.

Lemma torch_tokens_agree : forall x z p : bool * bool, True ->
  (forall a b : bool, torch_tok_site (zb a) (zb b) = np_tok_site (zb a) (zb b)) /\
  (torch_tok_phase 0 = np_tok_phase 0 /\ torch_tok_phase 1 = np_tok_phase 1 /\ torch_tok_phase 2 = np_tok_phase 2 /\ torch_tok_phase 3 = np_tok_phase 3).
Proof. intros _ _ _ _. split; [intros [|] [|]; vm_compute; reflexivity | vm_compute; repeat split; reflexivity]. Qed.

