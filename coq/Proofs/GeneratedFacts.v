(* Proofs/GeneratedFacts.v -- every valid Clifford map is a product of pi/4 Pauli rotations:
   its action on operators equals a finite sequence of clifford_rotate steps by Hermitian generators. *)
From Coq Require Import ZArith List Bool Lia ZifyBool Arith.
From PC Require Import Gen.Kernels Model.Base Model.Pauli Model.Ket Model.CMap Model.Spec Model.Diag.
From PC Require Import Proofs.PauliFacts Proofs.Rotate Proofs.Transform Proofs.DiagFacts Proofs.MaskFacts
                       Proofs.InverseFacts Proofs.RandomCliffordFacts.
Import ListNotations.
Open Scope Z_scope.
Ltac Zify.zify_post_hook ::= Z.to_euclidean_division_equations.

Definition rotate_seq1 (gens : list pauli) (a : pauli) : pauli := fold_left (fun x g => rotate1 g x) gens a.

Definition hgen (n : nat) (g : pauli) : Prop := wf n g /\ hermP g.

(* ------------------------------------------------------------------ basic algebra of rotation sequences *)
Lemma rotate_seq1_nil : forall a, rotate_seq1 [] a = a.
Proof. reflexivity. Qed.
Lemma rotate_seq1_cons : forall g gens a, rotate_seq1 (g :: gens) a = rotate_seq1 gens (rotate1 g a).
Proof. reflexivity. Qed.
Lemma rotate_seq1_app : forall l1 l2 a, rotate_seq1 (l1 ++ l2) a = rotate_seq1 l2 (rotate_seq1 l1 a).
Proof. intros. unfold rotate_seq1. apply fold_left_app. Qed.

Lemma rotate_seq1_wf : forall n gens a, Forall (hgen n) gens -> wf n a -> wf n (rotate_seq1 gens a).
Proof.
  induction gens as [|g gens IH]; intros a HF Wa; [exact Wa|].
  inversion_clear HF as [|? ? [Wg Hg] HF']. rewrite rotate_seq1_cons. apply IH; [exact HF'|].
  apply rotate_wf; assumption.
Qed.

Lemma rotate_seq1_herm : forall n gens a, Forall (hgen n) gens -> wf n a -> hermP a -> hermP (rotate_seq1 gens a).
Proof.
  induction gens as [|g gens IH]; intros a HF Wa Ha; [exact Ha|].
  inversion_clear HF as [|? ? [Wg Hg] HF']. rewrite rotate_seq1_cons. apply IH; [exact HF'| |].
  - apply rotate_wf; assumption.
  - apply (rotate_herm n); assumption.
Qed.

Lemma rotate_seq1_pid : forall n gens, rotate_seq1 gens (pid n) = pid n.
Proof.
  induction gens as [|g gens IH]; [reflexivity|]. rewrite rotate_seq1_cons, rotate_pid. exact IH.
Qed.

Lemma rotate_seq1_scale : forall gens k a, rotate_seq1 gens (pscale k a) = pscale k (rotate_seq1 gens a).
Proof.
  induction gens as [|g gens IH]; intros k a; [reflexivity|].
  rewrite !rotate_seq1_cons, rotate_scale. apply IH.
Qed.

Theorem rotate_seq1_hom : forall n gens a b, Forall (hgen n) gens -> wf n a -> wf n b ->
  rotate_seq1 gens (pmul a b) = pmul (rotate_seq1 gens a) (rotate_seq1 gens b).
Proof.
  induction gens as [|g gens IH]; intros a b HF Wa Wb; [reflexivity|].
  inversion_clear HF as [|? ? [Wg Hg] HF']. rewrite !rotate_seq1_cons.
  rewrite (rotate_hom n) by assumption.
  apply IH; [exact HF' | apply rotate_wf; assumption | apply rotate_wf; assumption].
Qed.

(* the reversed sequence of negated generators undoes a sequence *)
Definition inv_gens (gens : list pauli) : list pauli := rev (map pneg gens).

Lemma inv_gens_hgen : forall n gens, Forall (hgen n) gens -> Forall (hgen n) (inv_gens gens).
Proof.
  intros n gens HF. unfold inv_gens. apply Forall_rev. apply Forall_map.
  eapply Forall_impl; [|exact HF]. intros g [Wg Hg]. split; [apply wf_pneg; exact Wg | apply hermP_pneg; exact Hg].
Qed.

Lemma rotate_seq1_inv : forall n gens a, Forall (hgen n) gens -> wf n a ->
  rotate_seq1 (inv_gens gens) (rotate_seq1 gens a) = a.
Proof.
  induction gens as [|g gens IH]; intros a HF Wa; [reflexivity|].
  inversion_clear HF as [|? ? [Wg Hg] HF']. unfold inv_gens in *. cbn [map rev].
  rewrite rotate_seq1_cons, rotate_seq1_app. rewrite IH by (try exact HF'; apply rotate_wf; assumption).
  rewrite rotate_seq1_cons, rotate_seq1_nil. apply (rotate_neg_inverse n); assumption.
Qed.

(* ------------------------------------------------------------------ 1. the extension lemma *)
(* two phase-exact homomorphisms that agree on the 2n unit generators agree on every operator *)
Definition phase_hom (n : nat) (F : pauli -> pauli) : Prop :=
  F (pid n) = pid n /\
  (forall a b, wf n a -> wf n b -> F (pmul a b) = pmul (F a) (F b)) /\
  (forall k a, F (pscale k a) = pscale k (F a)) /\
  (forall a, wf n a -> wf n (F a)).

Theorem hom_ext_generators : forall n F G, phase_hom n F -> phase_hom n G ->
  (forall k, (k < 2 * n)%nat -> F (unit_str n k, 0) = G (unit_str n k, 0)) ->
  forall a, wf n a -> F a = G a.
Proof.
  intros n F G [F1 [F2 [F3 F4]]] [G1 [G2 [G3 G4]]] HE a Wa.
  rewrite <- (hom_acts n F F1 F2 F3 F4 a Wa), <- (hom_acts n G G1 G2 G3 G4 a Wa).
  f_equal. unfold identity_map. rewrite !map_map. apply map_ext_in. intros k Hk.
  apply in_seq in Hk. apply HE. lia.
Qed.

Lemma rotate_seq1_phase_hom : forall n gens, Forall (hgen n) gens -> phase_hom n (rotate_seq1 gens).
Proof.
  intros n gens HF. split; [apply rotate_seq1_pid|]. split; [|split].
  - intros a b Wa Wb. apply (rotate_seq1_hom n); assumption.
  - intros k a. apply rotate_seq1_scale.
  - intros a Wa. apply rotate_seq1_wf; assumption.
Qed.

Lemma transform_phase_hom : forall n m, valid_map n m -> phase_hom n (transform1 m).
Proof.
  intros n m HV. split; [apply transform_pid; exact HV|]. split; [|split].
  - intros a b Wa Wb. apply (transform_hom n); [exact HV | apply Wa | apply Wb].
  - intros k a. apply transform_scale.
  - intros a Wa. apply transform_wf; [exact HV | apply Wa].
Qed.

(* a map that agrees with a rotation sequence on the generators is that rotation sequence *)
Theorem map_rotation_ext : forall n m gens, valid_map n m -> Forall (hgen n) gens ->
  (forall k, (k < 2 * n)%nat -> row m k = rotate_seq1 gens (unit_str n k, 0)) ->
  forall a, wf n a -> transform1 m a = rotate_seq1 gens a.
Proof.
  intros n m gens HV HF HE. apply (hom_ext_generators n).
  - apply transform_phase_hom; exact HV.
  - apply rotate_seq1_phase_hom; exact HF.
  - intros k Hk. rewrite (transform_unit n m k HV Hk). apply HE; exact Hk.
Qed.

(* ------------------------------------------------------------------ 2. the sign-fixing lemma *)
(* A table whose strings are already the unit strings differs from the identity map by a sign pattern.
   Conjugation by the Pauli string Q (= rotating twice by Q) flips exactly the rows anticommuting with Q;
   the bits of Q are read off the pattern: Q anticommutes with unit k iff bit (partner k) of Q is set. *)
Definition sign_bit (a : pauli) : bool := negb (snd a =? 0).
Definition sign_fix (n : nat) (T : plist) : pauli :=
  (unflat (map (fun k => sign_bit (row T (partner k))) (seq 0 (2 * n))), 0).

Lemma sign_fix_hgen : forall n T, hgen n (sign_fix n T).
Proof.
  intros n T. split; [split|left; reflexivity]; cbn [sign_fix fst snd]; [|lia].
  apply unflat_length. rewrite map_length, seq_length. reflexivity.
Qed.

Lemma sign_fix_acqb : forall n T k, (k < 2 * n)%nat ->
  acqb (fst (sign_fix n T)) (unit_str n k) = sign_bit (row T k).
Proof.
  intros n T k Hk. rewrite acqb_sym.
  rewrite (acqb_unit_str n k) by (try exact Hk; apply (sign_fix_hgen n T)).
  cbn [sign_fix fst]. rewrite (flat_unflat n) by (rewrite map_length, seq_length; reflexivity).
  pose proof (partner_lt n k Hk) as Hp.
  rewrite Z2Facts.nth_map_lt with (d' := 0%nat) by (rewrite seq_length; exact Hp).
  rewrite seq_nth by exact Hp. cbn [Nat.add]. rewrite partner_invol. reflexivity.
Qed.

Theorem sign_fix_spec : forall n T, length T = (2 * n)%nat ->
  (forall k, (k < 2 * n)%nat -> fst (row T k) = unit_str n k /\ hermP (row T k)) ->
  map (rotate_seq1 [sign_fix n T; sign_fix n T]) T = identity_map n.
Proof.
  intros n T HL HT. destruct (sign_fix_hgen n T) as [WQ HQ].
  apply (plist_ext (2 * n)); [rewrite map_length; exact HL | apply identity_map_length |].
  intros k Hk. rewrite row_map by (rewrite HL; exact Hk). rewrite row_identity by exact Hk.
  destruct (HT k Hk) as [Hs Hh].
  assert (Wk : wf n (row T k)).
  { apply herm_wf; [rewrite Hs; apply unit_str_length | exact Hh]. }
  rewrite !rotate_seq1_cons, rotate_seq1_nil.
  rewrite (rotate_sq n _ _ WQ HQ Wk). rewrite Hs, sign_fix_acqb by exact Hk.
  destruct (row T k) as [g p]. cbn [fst snd] in *. subst g. unfold sign_bit, hermP in *; cbn [snd] in *.
  destruct Hh as [E|E]; subst p; reflexivity.
Qed.

(* ------------------------------------------------------------------ 3. the signless decomposition *)
Definition unit_rows (n : nat) : list pstr := map (fun k => unit_str n k) (seq 0 (2 * n)).
Definition pad (g : pstr) : pstr := I_site :: g.
Definition site1 (n : nat) (s : site) : pstr := s :: id_str n.        (* the one-site string s on qubit 0 of n+1 *)

Lemma unit_rows_S : forall n,
  unit_rows (S n) = site1 n (true, false) :: site1 n (false, true) :: map pad (unit_rows n).
Proof.
  intros n. unfold unit_rows. replace (2 * S n)%nat with (S (S (2 * n))) by lia.
  cbn [seq map]. rewrite unit_str_S_0, unit_str_S_1. f_equal. f_equal.
  rewrite <- !seq_shift, !map_map. apply map_ext. intros k. rewrite unit_str_S_SS. reflexivity.
Qed.

Lemma unit_rows_identity : forall n, map fst (identity_map n) = unit_rows n.
Proof. intros n. unfold identity_map, unit_rows. rewrite map_map. reflexivity. Qed.

(* rotations by padded generators act on the tail only *)
Lemma rot_pad : forall g a, rotate1_signless (pad g) (pad a) = pad (rotate1_signless g a).
Proof.
  intros g a. unfold pad. rewrite !rot_eq, acqb_cons, acqb_site_I_l, xorb_false_l.
  destruct (acqb g a); [|reflexivity]. cbn [gxor]. rewrite xor_site_I_l. reflexivity.
Qed.

Lemma apply_gens_pad : forall gs a, apply_gens (map pad gs) (pad a) = pad (apply_gens gs a).
Proof.
  induction gs as [|g gs IH]; intros a; [reflexivity|].
  cbn [map]. rewrite !apply_gens_cons, rot_pad. apply IH.
Qed.

Lemma rot_pad_site : forall n g s, rotate1_signless (pad g) (site1 n s) = site1 n s.
Proof.
  intros n g s. unfold pad, site1. rewrite rot_eq, acqb_cons, acqb_site_I_l, acqb_id_r. reflexivity.
Qed.

Lemma apply_gens_pad_site : forall n gs s, apply_gens (map pad gs) (site1 n s) = site1 n s.
Proof.
  induction gs as [|g gs IH]; intros s; [reflexivity|].
  cbn [map]. rewrite apply_gens_cons, rot_pad_site. apply IH.
Qed.

(* one-site rotations *)
Lemma rot_site : forall n s t,
  rotate1_signless (site1 n s) (site1 n t) = site1 n (if acqb_site s t then xor_site t s else t).
Proof.
  intros n s t. unfold site1. rewrite rot_eq, acqb_cons, acqb_id_l, xorb_false_r.
  destruct (acqb_site s t); [|reflexivity]. cbn [gxor]. rewrite gxor_self, id_str_length. reflexivity.
Qed.

(* the fixed one-qubit sequence taking (Z, X-or-Y) to (X, Z) *)
Definition fix2 (n : nat) (z : bool) : list pstr :=
  if z then [site1 n (false, true); site1 n (true, true)] else [site1 n (true, true)].

Lemma fix2_length : forall n z, Forall (fun x : pstr => length x = S n) (fix2 n z).
Proof.
  intros n z. unfold fix2, site1. destruct z; repeat constructor; cbn [length]; rewrite id_str_length; reflexivity.
Qed.

Lemma fix2_spec : forall n z,
  apply_gens (fix2 n z) (site1 n (false, true)) = site1 n (true, false) /\
  apply_gens (fix2 n z) (site1 n (true, z)) = site1 n (false, true).
Proof.
  intros n z. unfold fix2. destruct z; unfold apply_gens; cbn [fold_left]; rewrite !rot_site; split; reflexivity.
Qed.

Lemma z_at_0_site1 : forall n, z_at (S n) 0 = site1 n (false, true).
Proof. intros n. unfold z_at, site1. rewrite id_str_S. reflexivity. Qed.

Lemma onsite0_shape : forall n (g : pstr), length g = S n -> is_onsite g 0 = true -> g = site1 n (sget g 0).
Proof.
  intros n [|s t] HL Hon; [discriminate HL|]. cbn [length] in HL. rewrite sget_cons_0. unfold site1. f_equal.
  rewrite is_onsite_spec in Hon.
  apply sget_ext; [rewrite id_str_length; lia|]. intros j Hj. rewrite sget_id_str.
  apply nontrivial_false. specialize (Hon (S j) ltac:(lia)). rewrite sget_cons_S in Hon. exact Hon.
Qed.

(* rows commuting with X_0 and Z_0 are trivial on qubit 0 *)
Lemma commute_site0_pad : forall n (r : pstr), length r = S n ->
  acqb (site1 n (true, false)) r = false -> acqb (site1 n (false, true)) r = false -> r = pad (tl r).
Proof.
  intros n [|[x z] t] HL HX HZ; [discriminate HL|]. unfold site1, pad in *. cbn [tl].
  rewrite acqb_cons, acqb_id_l, xorb_false_r in HX, HZ.
  destruct x, z; try discriminate HX; try discriminate HZ. reflexivity.
Qed.

Lemma sym_rows_peel : forall n rest,
  sym_rows (S n) (S n) (site1 n (true, false) :: site1 n (false, true) :: rest) ->
  exists rest2, rest = map pad rest2 /\ sym_rows n n rest2.
Proof.
  intros n rest [HL [HF HS]]. cbn [length] in HL.
  assert (HLr : length rest = (2 * n)%nat) by lia.
  inversion_clear HF as [|? ? _ HF1]. inversion_clear HF1 as [|? ? _ HFr].
  assert (HP : forall r, In r rest -> r = pad (tl r)).
  { intros r Hr. destruct (In_nth rest r [] Hr) as [i [Hi E]].
    rewrite Forall_forall in HFr.
    pose proof (HS 0%nat (S (S i)) ltac:(lia) ltac:(lia)) as H0.
    pose proof (HS 1%nat (S (S i)) ltac:(lia) ltac:(lia)) as H1.
    cbn [nth] in H0, H1. rewrite E in H0, H1.
    rewrite expected_acq_0_SS, acq_acqb in H0. rewrite expected_acq_1_SS, acq_acqb in H1.
    apply (commute_site0_pad n); [apply HFr; exact Hr | |].
    - destruct (acqb (site1 n (true, false)) r); [discriminate H0 | reflexivity].
    - destruct (acqb (site1 n (false, true)) r); [discriminate H1 | reflexivity]. }
  assert (HE : rest = map pad (map (@tl site) rest)).
  { rewrite map_map. rewrite <- (map_id rest) at 1. apply map_ext_in. exact HP. }
  assert (HL2 : length (map (@tl site) rest) = (2 * n)%nat) by (rewrite map_length; exact HLr).
  remember (map (@tl site) rest) as rest2 eqn:ER.
  exists rest2. split; [exact HE|].
  split; [exact HL2|]. split.
  - rewrite Forall_forall in *. intros t Ht. rewrite ER in Ht. apply in_map_iff in Ht. destruct Ht as [r [E Hr]]. subst t.
    pose proof (HFr r Hr) as Lr. rewrite (HP r Hr) in Lr. unfold pad in Lr. cbn [length] in Lr. lia.
  - intros i j Hi Hj.
    pose proof (HS (S (S i)) (S (S j)) ltac:(lia) ltac:(lia)) as H. cbn [nth] in H.
    rewrite expected_acq_SS in H. rewrite <- H. rewrite HE.
    rewrite !nth_map_nil by (eapply Nat.lt_le_trans; [eassumption | apply Nat.eq_le_incl; symmetry; exact HL2]).
    unfold pad. rewrite !acq_acqb, acqb_cons, acqb_site_I_l, xorb_false_l. reflexivity.
Qed.

Theorem signless_decomposition : forall n rows, sym_rows n n rows ->
  exists gs, Forall (fun x : pstr => length x = n) gs /\ map (apply_gens gs) rows = unit_rows n.
Proof.
  induction n as [|n IH]; intros rows HSym.
  - exists []. split; [constructor|]. destruct HSym as [HL _]. destruct rows; [reflexivity | discriminate HL].
  - pose proof HSym as [HL [HF HS]].
    destruct rows as [|a [|b rest]]; try (cbn [length] in HL; lia).
    pose proof HF as HF0. inversion_clear HF0 as [|? ? La HF1]. inversion_clear HF1 as [|? ? Lb _].
    assert (HA : acq a b = 1) by (exact (HS 0%nat 1%nat ltac:(lia) ltac:(lia))).
    assert (Hi : (0 < length a)%nat) by (rewrite La; lia).
    assert (HLab : length b = length a) by (rewrite La, Lb; reflexivity).
    pose proof (diag2_gens_length a b 0%nat Hi HLab) as HG. rewrite La in HG.
    destruct (diag2_proj a b Hi HLab HA) as [D1 [D2 [D3 [D4 D5]]]].
    set (R := fst (fst (diagonalize2 a b 0))) in *.
    set (b' := snd (diagonalize2 a b 0)) in *.
    rewrite D3, La, z_at_0_site1 in D1.
    assert (Lb' : length b' = S n).
    { rewrite <- D2. rewrite apply_gens_length; [exact Lb|]. rewrite Lb. exact HG. }
    pose proof (onsite0_shape n b' Lb' D4) as Eb'.
    destruct (sget b' 0) as [x z] eqn:Es. cbn [fst] in D5. subst x.
    destruct (fix2_spec n z) as [F1 F2].
    assert (HG1 : Forall (fun x : pstr => length x = S n) (R ++ fix2 n z)).
    { apply Forall_app. split; [exact HG | apply fix2_length]. }
    pose proof (sym_rows_gens (S n) (S n) _ (R ++ fix2 n z) HSym HG1) as HSym1.
    cbn [map] in HSym1. rewrite !apply_gens_app, D1, D2, Eb', F1, F2 in HSym1.
    destruct (sym_rows_peel n _ HSym1) as [rest2 [E2 HSym2]].
    destruct (IH rest2 HSym2) as [gs2 [HG2 HU]].
    exists ((R ++ fix2 n z) ++ map pad gs2). split.
    + apply Forall_app. split; [exact HG1|]. apply Forall_map. eapply Forall_impl; [|exact HG2].
      intros g Lg. unfold pad. cbn [length]. rewrite Lg. reflexivity.
    + rewrite unit_rows_S, <- HU. cbn [map].
      rewrite !(apply_gens_app (R ++ fix2 n z)).
      rewrite !(apply_gens_app R), D1, D2, Eb', F1, F2, !apply_gens_pad_site. f_equal. f_equal.
      transitivity (map (apply_gens (map pad gs2)) (map (apply_gens (R ++ fix2 n z)) rest)).
      { rewrite map_map. apply map_ext. intros r. apply apply_gens_app. }
      rewrite E2, !map_map. apply map_ext. intros r. apply apply_gens_pad.
Qed.

(* ------------------------------------------------------------------ 4. assembling the main theorem *)
Lemma valid_sym_rows : forall n m, valid_map n m -> sym_rows n n (map fst m).
Proof.
  intros n m HV. pose proof (valid_rows_wf n m HV) as HW. destruct HV as [HL [HR HA]].
  assert (HN : forall i, (i < 2 * n)%nat -> nth i (map fst m) [] = fst (row m i)).
  { intros i Hi. unfold row. apply Z2Facts.nth_map_lt. rewrite HL. exact Hi. }
  split; [rewrite map_length; exact HL|]. split.
  - apply Forall_map. eapply Forall_impl; [|exact HW]. intros a [La _]. exact La.
  - intros i j Hi Hj. rewrite !HN by assumption. apply HA; assumption.
Qed.

Definition lift_gens (gs : list pstr) : list pauli := map (fun g : pstr => (g, 0)) gs.

Lemma lift_gens_hgen : forall n gs, Forall (fun x : pstr => length x = n) gs -> Forall (hgen n) (lift_gens gs).
Proof.
  intros n gs HG. unfold lift_gens. apply Forall_map. eapply Forall_impl; [|exact HG].
  intros g Lg. split; [split; cbn [fst snd]; [exact Lg | lia] | left; reflexivity].
Qed.

Lemma rotate_seq1_lift_fst : forall gs a, fst (rotate_seq1 (lift_gens gs) a) = apply_gens gs (fst a).
Proof.
  induction gs as [|g gs IH]; intros a; [reflexivity|].
  unfold lift_gens in *. cbn [map]. rewrite rotate_seq1_cons, IH, apply_gens_cons.
  rewrite rotate1_fst, rot_eq. cbn [fst]. destruct (acqb g (fst a)); reflexivity.
Qed.

(* every valid map is brought to the identity map by a rotation sequence ... *)
Theorem map_reduces_to_identity : forall n m, valid_map n m ->
  exists gens, Forall (hgen n) gens /\ map (rotate_seq1 gens) m = identity_map n.
Proof.
  intros n m HV.
  destruct (signless_decomposition n (map fst m) (valid_sym_rows n m HV)) as [gs [HG HU]].
  pose proof (lift_gens_hgen n gs HG) as HF1.
  pose proof HV as [HL [HR _]].
  set (T := map (rotate_seq1 (lift_gens gs)) m).
  assert (LT : length T = (2 * n)%nat) by (unfold T; rewrite map_length; exact HL).
  assert (HT : forall k, (k < 2 * n)%nat -> fst (row T k) = unit_str n k /\ hermP (row T k)).
  { intros k Hk. unfold T. rewrite row_map by (rewrite HL; exact Hk). destruct (HR k Hk) as [Wk Hk'].
    split; [|apply (rotate_seq1_herm n); assumption].
    rewrite rotate_seq1_lift_fst.
    assert (E : nth k (map (apply_gens gs) (map fst m)) [] = nth k (unit_rows n) []) by (rewrite HU; reflexivity).
    rewrite map_map in E. unfold unit_rows in E.
    rewrite Z2Facts.nth_map_lt with (d' := pid 0) in E by (rewrite HL; exact Hk).
    rewrite Z2Facts.nth_map_lt with (d' := 0%nat) in E by (rewrite seq_length; exact Hk).
    rewrite seq_nth in E by exact Hk. exact E. }
  pose proof (sign_fix_spec n T LT HT) as HS.
  exists (lift_gens gs ++ [sign_fix n T; sign_fix n T]). split.
  - apply Forall_app. split; [exact HF1|]. repeat constructor; apply sign_fix_hgen.
  - rewrite <- HS. unfold T. rewrite map_map. apply map_ext. intros a. apply rotate_seq1_app.
Qed.

(* ... hence is generated from the identity map by the inverse sequence *)
Theorem map_generated_from_identity : forall n m, valid_map n m ->
  exists gens, Forall (hgen n) gens /\ map (rotate_seq1 gens) (identity_map n) = m.
Proof.
  intros n m HV. destruct (map_reduces_to_identity n m HV) as [G [HF HE]].
  exists (inv_gens G). split; [apply inv_gens_hgen; exact HF|].
  rewrite <- HE, map_map. rewrite <- (map_id m) at 2. apply map_ext_in. intros a Ha.
  apply (rotate_seq1_inv n); [exact HF|].
  pose proof (valid_rows_wf n m HV) as HW. rewrite Forall_forall in HW. apply HW; exact Ha.
Qed.

(* MAIN *)
Theorem map_is_rotation_product : forall n m, valid_map n m ->
   exists gens : list pauli, Forall (fun g => wf n g /\ hermP g) gens /\ forall a, wf n a -> transform1 m a = rotate_seq1 gens a.
Proof.
  intros n m HV. destruct (map_generated_from_identity n m HV) as [gens [HF HE]].
  exists gens. split; [exact HF|].
  apply (map_rotation_ext n m gens HV HF). intros k Hk.
  rewrite <- HE at 1. rewrite row_map by (rewrite identity_map_length; exact Hk).
  rewrite row_identity by exact Hk. reflexivity.
Qed.

Corollary map_is_rotation_product_list : forall n m, valid_map n m -> exists gens, Forall (fun g => wf n g /\ hermP g) gens /\ forall l, Forall (wf n) l -> pauli_transform m l = map (rotate_seq1 gens) l.
Proof.
  intros n m HV. destruct (map_is_rotation_product n m HV) as [gens [HF HA]].
  exists gens. split; [exact HF|]. intros l Hl. unfold pauli_transform.
  apply map_ext_in. intros a Ha. apply HA. rewrite Forall_forall in Hl. apply Hl; exact Ha.
Qed.

(* consequence: multiplicativity of a valid map's action follows from that of the rotations (re-proves transform_hom
   on well-formed operands without using it in this last step) *)
Corollary transform_hom_from_rotations : forall n m a b, valid_map n m -> wf n a -> wf n b ->
  transform1 m (pmul a b) = pmul (transform1 m a) (transform1 m b).
Proof.
  intros n m a b HV Wa Wb. destruct (map_is_rotation_product n m HV) as [gens [HF HA]].
  rewrite !HA by (try assumption; apply wf_pmul; assumption).
  apply (rotate_seq1_hom n); assumption.
Qed.

(* the generating sequence is invertible: the inverse sequence undoes the map *)
Corollary map_rotation_product_inverse : forall n m, valid_map n m ->
  exists gens, Forall (fun g => wf n g /\ hermP g) gens /\
    forall a, wf n a -> rotate_seq1 gens (transform1 m a) = a.
Proof.
  intros n m HV. destruct (map_is_rotation_product n m HV) as [gens [HF HA]].
  exists (inv_gens gens). split; [apply inv_gens_hgen; exact HF|].
  intros a Wa. rewrite HA by exact Wa. apply (rotate_seq1_inv n); assumption.
Qed.

(* ------------------------------------------------------------------ small-instance checks of the constructions *)
Example sign_fix_check_Z : let T := [([(true, false)], 2); ([(false, true)], 0)] in
  map (rotate_seq1 [sign_fix 1 T; sign_fix 1 T]) T = identity_map 1.
Proof. vm_compute. reflexivity. Qed.
Example sign_fix_check_2q : let T := [([(true, false); (false, false)], 2); ([(false, true); (false, false)], 0);
                                      ([(false, false); (true, false)], 2); ([(false, false); (false, true)], 2)] in
  map (rotate_seq1 [sign_fix 2 T; sign_fix 2 T]) T = identity_map 2.
Proof. vm_compute. reflexivity. Qed.
Example fix2_check : forall z, map (apply_gens (fix2 1 z)) [site1 1 (false, true); site1 1 (true, z)]
                               = [site1 1 (true, false); site1 1 (false, true)].
Proof. intros [|]; vm_compute; reflexivity. Qed.
