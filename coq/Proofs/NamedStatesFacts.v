(* Proofs/NamedStatesFacts.v -- the named state constructors (zero_state, one_state, maximally_mixed_state, random_bit_state,
   random_pauli_state) denote the density matrices their names say. *)
From Coq Require Import ZArith List Bool Lia ZifyBool Arith Permutation Setoid Morphisms.
From Coq Require Import QArith Qcanon.
From PC Require Import Gen.Kernels Model.Base Model.Pauli Model.Ket Model.Z2 Model.CMap Model.Tableau Model.Entropy Model.Circuit Model.Spec
  Model.Poly Model.PolySem Model.Sample Model.Diag Model.Random
  Proofs.PauliFacts Proofs.Transform Proofs.MaskFacts Proofs.TableauInv Proofs.Z2Facts Proofs.RankFacts Proofs.MeasureFacts Proofs.ReachFacts
  Proofs.SampleFacts Proofs.PolyFacts Proofs.ProjectionFacts Proofs.TraceFacts Proofs.PositiveFacts Proofs.ProjectorFacts Proofs.OverlapFacts
  Proofs.BackwardFacts Proofs.LinAlgFacts Proofs.PureEntropyFacts Proofs.ReducedStateFacts Proofs.RandomFacts Proofs.ProbSumFacts.
Import ListNotations.
Open Scope Z_scope.
Ltac Zify.zify_post_hook ::= Z.to_euclidean_division_equations.

(* ------------------------------------------------------------------ definitions (names fixed) *)
(* the tableau of a computational-basis state with arbitrary destabilizer signs:
   rows 0..n-1 = (-1)^{b_q} Z_q, rows n..2n-1 = (-1)^{d_q} X_q, rank 0 *)
Definition bit_state (n : nat) (bits dsigns : list bool) : tableau :=
  {| rows := map (fun qb : nat * bool => (fst (prow (rows (zero_state n)) (fst qb)), if snd qb then 2 else 0)) (combine (seq 0 n) bits)
          ++ map (fun qb : nat * bool => (fst (prow (rows (zero_state n)) (n + fst qb)), if snd qb then 2 else 0)) (combine (seq 0 n) dsigns);
     rk := 0 |}.

Local Open Scope nat_scope.

(* ------------------------------------------------------------------ the rows of bit_state *)
Lemma combine_seq_length : forall n (bits : list bool), length bits = n -> length (combine (seq 0 n) bits) = n.
Proof. intros n bits H. rewrite combine_length, seq_length, H. apply Nat.min_id. Qed.

Lemma nth_combine_seq : forall n (bits : list bool) q, length bits = n -> q < n ->
  nth q (combine (seq 0 n) bits) (0, false) = (q, nth q bits false).
Proof.
  intros n bits q H Hq. rewrite combine_nth by (rewrite seq_length; symmetry; exact H).
  rewrite seq_nth by exact Hq. reflexivity.
Qed.

Lemma bit_state_row : forall n bits dsigns i, length bits = n -> length dsigns = n -> i < 2 * n ->
  prow (rows (bit_state n bits dsigns)) i =
  (fst (prow (rows (zero_state n)) i), if nth (if i <? n then i else i - n) (if i <? n then bits else dsigns) false then 2%Z else 0%Z).
Proof.
  intros n bits dsigns i Hb Hd Hi. unfold bit_state. cbn [rows]. unfold prow at 1.
  set (f := fun qb : nat * bool => (fst (prow (rows (zero_state n)) (fst qb)), if snd qb then 2%Z else 0%Z)).
  set (g := fun qb : nat * bool => (fst (prow (rows (zero_state n)) (n + fst qb)), if snd qb then 2%Z else 0%Z)).
  destruct (Nat.ltb_spec i n) as [L|G].
  - rewrite app_nth1 by (rewrite map_length, combine_seq_length; assumption).
    rewrite (nth_indep _ (pid 0) (f (0, false))) by (rewrite map_length, combine_seq_length; assumption).
    rewrite map_nth, nth_combine_seq by assumption. reflexivity.
  - rewrite app_nth2 by (rewrite map_length, combine_seq_length; assumption).
    rewrite map_length, combine_seq_length by assumption.
    rewrite (nth_indep _ (pid 0) (g (0, false))) by (rewrite map_length, combine_seq_length by assumption; lia).
    rewrite map_nth, nth_combine_seq by (try assumption; lia). unfold g. cbn [fst snd].
    replace (n + (i - n)) with i by lia. reflexivity.
Qed.

Lemma bit_state_length : forall n bits dsigns, length bits = n -> length dsigns = n ->
  length (rows (bit_state n bits dsigns)) = 2 * n.
Proof.
  intros n bits dsigns Hb Hd. unfold bit_state. cbn [rows].
  rewrite app_length, !map_length, !combine_seq_length by assumption. lia.
Qed.

Theorem bit_state_ok : forall n bits dsigns, length bits = n -> length dsigns = n -> tableau_ok n (bit_state n bits dsigns).
Proof.
  intros n bits dsigns Hb Hd. destruct (zero_state_ok n) as [HL [Hr [Hlen [Hh Hacq]]]].
  unfold tableau_ok. split; [apply bit_state_length; assumption|]. split; [unfold bit_state; cbn [rk]; lia|].
  unfold row in *. fold (prow (rows (bit_state n bits dsigns))). split; [|split].
  - intros i Hi. change (nth i (rows (bit_state n bits dsigns)) (pid 0)) with (prow (rows (bit_state n bits dsigns)) i).
    rewrite bit_state_row by assumption. cbn [fst]. apply Hlen. exact Hi.
  - intros i Hi. change (nth i (rows (bit_state n bits dsigns)) (pid 0)) with (prow (rows (bit_state n bits dsigns)) i).
    rewrite bit_state_row by assumption. unfold hermP. cbn [snd].
    destruct (nth _ _ false); [right | left]; reflexivity.
  - intros i j Hi Hj.
    change (nth i (rows (bit_state n bits dsigns)) (pid 0)) with (prow (rows (bit_state n bits dsigns)) i).
    change (nth j (rows (bit_state n bits dsigns)) (pid 0)) with (prow (rows (bit_state n bits dsigns)) j).
    rewrite !bit_state_row by assumption. cbn [fst]. apply Hacq; assumption.
Qed.

(* ------------------------------------------------------------------ the Z rows of the zero state *)
Lemma ustr_id : forall k a' j, j < a' -> ustr k a' j = id_str k.
Proof.
  induction k as [|k IHk]; intros a' j Ha; [reflexivity|]. rewrite id_str_S. cbn [ustr].
  rewrite (proj2 (Nat.eqb_neq j a')) by lia. rewrite (proj2 (Nat.eqb_neq j (a' + 1))) by lia.
  apply f_equal. apply IHk. lia.
Qed.

Lemma ustr_z : forall m a q, q < m -> ustr m a (a + 2 * q + 1) = upd (id_str m) q (false, true).
Proof.
  induction m as [|m IH]; intros a q Hq; [lia|].
  rewrite id_str_S. cbn [ustr]. destruct q as [|q]; cbn [upd].
  - rewrite (proj2 (Nat.eqb_neq (a + 2 * 0 + 1) a)) by lia. rewrite (proj2 (Nat.eqb_eq (a + 2 * 0 + 1) (a + 1))) by lia.
    apply f_equal. apply ustr_id. lia.
  - rewrite (proj2 (Nat.eqb_neq (a + 2 * S q + 1) a)) by lia. rewrite (proj2 (Nat.eqb_neq (a + 2 * S q + 1) (a + 1))) by lia.
    apply f_equal. replace (a + 2 * S q + 1) with ((a + 2) + 2 * q + 1) by lia. apply IH. lia.
Qed.

Lemma zero_state_zrow : forall n q, q < n -> fst (prow (rows (zero_state n)) q) = fst (z_obs n q).
Proof.
  intros n q Hq. unfold zero_state, to_state. cbn [rows]. rewrite init_row by lia. cbn [fst].
  unfold init_idx. destruct (Nat.ltb_spec q n); [|lia]. rewrite unit_str_ustr.
  replace (2 * q + 1) with (0 + 2 * q + 1) by lia. rewrite ustr_z by exact Hq. reflexivity.
Qed.

Lemma bit_state_stabilizers : forall n bits dsigns, length bits = n -> length dsigns = n ->
  stabilizers (bit_state n bits dsigns) = bit_obs n bits.
Proof.
  intros n bits dsigns Hb Hd. unfold stabilizers.
  rewrite (tN_ok n _ (bit_state_length n bits dsigns Hb Hd)). unfold bit_state. cbn [rows rk skipn].
  rewrite Nat.sub_0_r.
  rewrite firstn_app, map_length, combine_seq_length, Nat.sub_diag by exact Hb. cbn [firstn]. rewrite app_nil_r.
  rewrite firstn_all2 by (rewrite map_length, combine_seq_length by exact Hb; lia).
  unfold bit_obs. apply map_ext_in. intros [q b] Hin. cbn [fst snd].
  apply in_combine_l in Hin. apply in_seq in Hin. rewrite zero_state_zrow by lia. reflexivity.
Qed.

Local Open Scope Z_scope.

(* rho = |b><b| : independent of the destabilizer signs *)
Theorem bit_state_density : forall n bits dsigns k k', length bits = n -> length dsigns = n -> length k = n -> length k' = n ->
  amp (density_poly (bit_state n bits dsigns)) k k' = if ket_eqb k bits && ket_eqb k' bits then c1 else c0.
Proof.
  intros n bits dsigns k k' Hb Hd Hk Hk'.
  pose proof (proj_prod_density n (bit_state n bits dsigns) k k' (bit_state_ok n bits dsigns Hb Hd) Hk) as H.
  rewrite (bit_state_stabilizers n bits dsigns Hb Hd) in H. cbn [rk] in H.
  change (two_pow 0) with c1 in H. rewrite cmul_1_l in H. rewrite <- H.
  apply bit_projector; assumption.
Qed.

(* ------------------------------------------------------------------ recognising a bit_state from its rows *)
Local Open Scope nat_scope.

Lemma bit_state_eq : forall n bits dsigns l, length bits = n -> length dsigns = n -> length l = 2 * n ->
  (forall i, i < 2 * n -> prow l i =
     (fst (prow (rows (zero_state n)) i), if nth (if i <? n then i else i - n) (if i <? n then bits else dsigns) false then 2%Z else 0%Z)) ->
  {| rows := l; rk := 0 |} = bit_state n bits dsigns.
Proof.
  intros n bits dsigns l Hb Hd HL H.
  assert (E : l = rows (bit_state n bits dsigns)).
  { apply (nth_ext _ _ (pid 0) (pid 0)).
    - rewrite bit_state_length by assumption. exact HL.
    - intros i Hi. rewrite HL in Hi. change (prow l i = prow (rows (bit_state n bits dsigns)) i).
      rewrite bit_state_row by assumption. apply H. exact Hi. }
  rewrite E. reflexivity.
Qed.

Lemma nth_repeat_lt : forall (b : bool) n i, i < n -> nth i (repeat b n) false = b.
Proof. intros b n i Hi. rewrite (nth_indep _ false b) by (rewrite repeat_length; exact Hi). apply nth_repeat. Qed.

Lemma zero_state_bit_state : forall n, zero_state n = bit_state n (repeat false n) (repeat false n).
Proof.
  intros n. destruct (zero_state_ok n) as [HL _].
  rewrite <- (bit_state_eq n (repeat false n) (repeat false n) (rows (zero_state n))); try apply repeat_length; try exact HL.
  - reflexivity.
  - intros i Hi. destruct (i <? n); rewrite nth_repeat; unfold zero_state, to_state; cbn [rows];
      rewrite init_row by exact Hi; reflexivity.
Qed.

Lemma one_state_bit_state : forall n,
  {| rows := map (fun a : pauli => (fst a, 2%Z)) (rows (zero_state n)); rk := 0 |} = bit_state n (repeat true n) (repeat true n).
Proof.
  intros n. destruct (zero_state_ok n) as [HL _].
  apply bit_state_eq; try apply repeat_length.
  - rewrite map_length. exact HL.
  - intros i Hi. change (prow (map (fun a : pauli => (fst a, 2%Z)) (rows (zero_state n))) i)
      with (row (map (fun a : pauli => (fst a, 2%Z)) (rows (zero_state n))) i).
    rewrite row_map_in by (rewrite HL; exact Hi). unfold row, prow.
    destruct (Nat.ltb_spec i n); rewrite nth_repeat_lt by lia; reflexivity.
Qed.

Local Open Scope Z_scope.

Theorem zero_state_density : forall n k k', length k = n -> length k' = n ->
  amp (density_poly (zero_state n)) k k' = if ket_eqb k (repeat false n) && ket_eqb k' (repeat false n) then c1 else c0.
Proof.
  intros n k k' Hk Hk'. rewrite zero_state_bit_state. apply bit_state_density; try assumption; apply repeat_length.
Qed.

Theorem one_state_density : forall n k k', length k = n -> length k' = n ->
  amp (density_poly {| rows := map (fun a => (fst a, 2)) (rows (zero_state n)); rk := 0 |}) k k'
  = if ket_eqb k (repeat true n) && ket_eqb k' (repeat true n) then c1 else c0.
Proof.
  intros n k k' Hk Hk'. rewrite one_state_bit_state. apply bit_state_density; try assumption; apply repeat_length.
Qed.

(* the maximally mixed state is 2^-n times the identity *)
Theorem mixed_state_density : forall n k k', length k = n -> length k' = n ->
  amp (density_poly (mixed_state n)) k k' = if ket_eqb k k' then half_pow n else c0.
Proof.
  intros n k k' Hk Hk'.
  pose proof (proj_prod_density n (mixed_state n) k k' (mixed_state_ok n) Hk) as H.
  assert (E : stabilizers (mixed_state n) = []).
  { unfold stabilizers. destruct (mixed_state_ok n) as [HL _]. rewrite (tN_ok n _ HL).
    unfold mixed_state, to_state. cbn [rk]. rewrite Nat.sub_diag. reflexivity. }
  rewrite E in H. cbn [proj_prod] in H. rewrite (amp_ident n k k' Hk) in H.
  unfold mixed_state at 1, to_state in H. cbn [rk] in H.
  rewrite <- (cmul_1_l (amp (density_poly (mixed_state n)) k k')), <- (half_pow_two_pow n), cmul_assoc, <- H.
  destruct (ket_eqb k k'); [apply cmul_1_r | apply cmul_0_r].
Qed.

(* ------------------------------------------------------------------ product states *)
(* strings of weight at most one: commutation is decided on the one shared site, so it survives restriction to any region *)
Lemma weight_cons : forall s g, weight (s :: g) = (if nontrivial s then 1 else 0) + weight g.
Proof.
  intros s g. unfold weight. cbn [filter]. destruct (nontrivial s); [|reflexivity].
  cbn [length]. lia.
Qed.

Lemma weight_nonneg : forall g, 0 <= weight g.
Proof. intros g. unfold weight. lia. Qed.

Lemma weight_0_acqb : forall g h, weight g = 0 -> acqb g h = false.
Proof.
  induction g as [|s g IH]; intros [|b h] H; try reflexivity.
  rewrite weight_cons in H. pose proof (weight_nonneg g) as P. cbn [acqb].
  destruct (nontrivial s) eqn:E; [lia|].
  rewrite (acqb_site_trivial_l s b E), IH by lia. reflexivity.
Qed.

Lemma single_site_restrict_commute : forall c g h, weight g <= 1 -> weight h <= 1 -> acqb g h = false ->
  acqb (gather c g) (gather c h) = false.
Proof.
  induction c as [|b c IH]; intros g h Wg Wh A; [reflexivity|].
  destruct g as [|s g]; [destruct b; reflexivity|].
  destruct h as [|s' h]; [destruct b; cbn [gather]; [|destruct (gather c g)]; reflexivity|].
  rewrite weight_cons in Wg, Wh. pose proof (weight_nonneg g) as Pg. pose proof (weight_nonneg h) as Ph.
  cbn [acqb] in A.
  assert (B : acqb_site s s' = false /\ acqb g h = false).
  { destruct (nontrivial s) eqn:E.
    - assert (G : acqb g h = false) by (apply weight_0_acqb; lia).
      rewrite G, xorb_false_r in A. split; assumption.
    - rewrite (acqb_site_trivial_l s s' E), xorb_false_l in A. split; [apply acqb_site_trivial_l|]; assumption. }
  destruct B as [B1 B2].
  assert (I : acqb (gather c g) (gather c h) = false).
  { apply IH; try exact B2; destruct (nontrivial s), (nontrivial s'); lia. }
  destruct b; cbn [gather acqb]; rewrite ?B1, I; reflexivity.
Qed.

Local Open Scope nat_scope.

(* an isotropic family in dimension 2k has rank at most k *)
Lemma isotropic_rank_le : forall k W, rect (2 * k) W -> isotropic W -> z2rank W <= k.
Proof.
  intros k W HW Hiso.
  destruct (sf_perp_dim k W HW) as [d [[K [RK [IK [LK SK]]]] E]].
  destruct (has_dim_span (2 * k) W HW) as [B [RB [IB [LB SB]]]].
  assert (length B <= length K); [|lia].
  apply (indep_le_span (2 * k)); auto. intros v Hv. apply SK.
  assert (Sv : in_span (2 * k) W v) by (apply SB; apply in_span_In; assumption).
  split; [apply (in_span_length _ W); assumption|].
  intros w Hw. rewrite sf_sym. apply (sf_span_l k W w v HW); [|exact Sv].
  intros r Hr. apply Hiso; assumption.
Qed.

Local Open Scope Z_scope.

(* PRODUCT STATES: if every active stabilizer of a pure valid state is supported on a single qubit, every region has entropy 0 *)
Theorem product_state_entropy_zero : forall n t m, tableau_ok n t -> rk t = 0%nat -> length m = n ->
  Forall (fun a : pauli => (weight (fst a) <= 1)) (stabilizers t) -> entropy_ref (map fst (stabilizers t)) m = 0.
Proof.
  intros n t m Hok Hrk Hm HW.
  (* lower bound: the entropy is the log2-rank of the reduced state *)
  destruct (reduced_state_entropy n t m Hok Hm) as [tA [_ [HE _]]].
  rewrite (entropy_is_ref n t m Hok Hm) in HE.
  (* upper bound: the generators restricted to the complement stay mutually commuting *)
  set (c := map negb m) in *.
  set (gs := map fst (stabilizers t)) in *.
  assert (Lgs : length gs = n).
  { unfold gs. rewrite map_length. pose proof (ok_active_count n t Hok) as P. rewrite Hrk, Nat.sub_0_r in P. exact P. }
  assert (Hlen : forall g, In g gs -> length g = n).
  { intros g Hg. unfold gs in Hg. apply in_map_iff in Hg. destruct Hg as [a [<- Ha]].
    rewrite <- active_stabilizers in Ha. pose proof (active_wf n t Hok) as W. rewrite Forall_forall in W. exact (proj1 (W a Ha)). }
  assert (Lc : length c = n) by (unfold c; rewrite map_length; exact Hm).
  set (W := map (fun g : pstr => flat (gather c g)) gs).
  assert (RW : rect (2 * count_true c) W).
  { unfold rect, W. apply Forall_forall. intros r Hr. apply in_map_iff in Hr. destruct Hr as [g [<- Hg]].
    rewrite RankFacts.flat_length, RankFacts.gather_length; [reflexivity|]. rewrite Lc. apply Hlen. exact Hg. }
  assert (IW : isotropic W).
  { intros a b Ha Hb. unfold W in Ha, Hb. apply in_map_iff in Ha. destruct Ha as [g [<- Hg]].
    apply in_map_iff in Hb. destruct Hb as [h [<- Hh]]. rewrite <- sf_flat.
    unfold gs in Hg, Hh. apply in_map_iff in Hg. destruct Hg as [x [<- Hx]]. apply in_map_iff in Hh. destruct Hh as [y [<- Hy]].
    rewrite Forall_forall in HW.
    apply single_site_restrict_commute; [apply HW; exact Hx | apply HW; exact Hy |].
    rewrite <- active_stabilizers in Hx, Hy. exact (active_allcomm n t Hok x y Hx Hy). }
  pose proof (isotropic_rank_le (count_true c) W RW IW) as HR.
  unfold c in HR at 1. rewrite ct_negb, Hm in HR. pose proof (ct_le m) as HC. rewrite Hm in HC.
  unfold entropy_ref in *. fold c in HE |- *. fold W in HE |- *. rewrite Lgs in *.
  change (z2rank (map (fun g : list site => flat (gather c g)) gs)) with (z2rank W) in *. lia.
Qed.

(* the same statement for the value the code computes (StabilizerState.entropy = entropy_of on the active strings) *)
Corollary product_state_entropy_code_zero : forall n t m, tableau_ok n t -> rk t = 0%nat -> length m = n ->
  Forall (fun a : pauli => (weight (fst a) <= 1)) (stabilizers t) -> entropy t m = 0 /\ entropy_of n (map fst (stabilizers t)) m = 0.
Proof.
  intros n t m Hok Hrk Hm HW.
  assert (E : entropy t m = 0).
  { rewrite (entropy_is_ref n t m Hok Hm). apply (product_state_entropy_zero n t m); assumption. }
  split; [exact E|]. unfold entropy in E. rewrite (ok_tN n t Hok) in E. exact E.
Qed.

(* ------------------------------------------------------------------ the state of a tensor product of one-qubit maps *)
Lemma weight_app : forall a b, weight (a ++ b) = weight a + weight b.
Proof. intros a b. unfold weight. rewrite filter_app, app_length. lia. Qed.

Lemma weight_repeat_I : forall k, weight (repeat I_site k) = 0.
Proof.
  induction k as [|k IH]; [reflexivity|]. cbn [repeat]. rewrite weight_cons, IH. reflexivity.
Qed.

Lemma weight_le_length : forall g, weight g <= Z.of_nat (length g).
Proof.
  induction g as [|s g IH]; [reflexivity|]. rewrite weight_cons. cbn [length]. destruct (nontrivial s); lia.
Qed.

Lemma weight_embedded : forall i j a, weight (repeat I_site i ++ a ++ repeat I_site j) = weight a.
Proof. intros i j a. rewrite !weight_app, !weight_repeat_I. lia. Qed.

(* every row of the block-diagonal table is supported on one qubit *)
Lemma random_pauli_rows_weight : forall pairs,
  Forall (fun p : pstr * pstr => weight (fst p) <= 1 /\ weight (snd p) <= 1) pairs ->
  Forall (fun g : pstr => weight g <= 1) (random_pauli_from pairs).
Proof.
  intros pairs H. rewrite Forall_forall in H. apply Forall_forall. intros g Hg.
  unfold random_pauli_from in Hg. apply in_flat_map in Hg. destruct Hg as [[i [a b]] [Hin Hg]].
  apply in_combine_r in Hin. destruct (H (a, b) Hin) as [Wa Wb]. cbn [fst snd] in Wa, Wb.
  destruct Hg as [<-|[<-|[]]]; rewrite weight_embedded; assumption.
Qed.

Lemma Forall_odds_evens : forall (A : Type) (P : A -> Prop) l, Forall P l -> Forall P (odds l) /\ Forall P (evens l).
Proof.
  intros A P. fix IH 1. intros [|a [|b l]] H.
  - split; constructor.
  - split; [constructor | exact H].
  - inversion_clear H as [|? ? Ha H1]. inversion_clear H1 as [|? ? Hb H2]. destruct (IH l H2) as [I1 I2].
    cbn [odds evens]. split; constructor; assumption.
Qed.

Lemma Forall_stabilizers : forall (P : pauli -> Prop) t, Forall P (rows t) -> Forall P (stabilizers t).
Proof.
  intros P t H. rewrite Forall_forall in H. apply Forall_forall. intros a Ha. apply H.
  unfold stabilizers in Ha. apply In_firstn_In in Ha.
  rewrite <- (firstn_skipn (rk t) (rows t)). apply in_or_app. right. exact Ha.
Qed.

(* general form: one-site SUPPORT of the drawn pairs is all that matters; the phases (and even their number) are arbitrary *)
Theorem random_pauli_state_is_product_gen : forall pairs phases,
  Forall (fun p : pstr * pstr => weight (fst p) <= 1 /\ weight (snd p) <= 1) pairs ->
  Forall (fun a : pauli => weight (fst a) <= 1) (stabilizers (to_state (combine (random_pauli_from pairs) phases) 0)).
Proof.
  intros pairs phases H. apply Forall_stabilizers. unfold to_state. cbn [rows]. unfold map_to_state.
  assert (F : Forall (fun a : pauli => weight (fst a) <= 1) (combine (random_pauli_from pairs) phases)).
  { pose proof (random_pauli_rows_weight pairs H) as R. rewrite Forall_forall in R.
    apply Forall_forall. intros [g p] Hin. apply in_combine_l in Hin. cbn [fst]. apply R. exact Hin. }
  destruct (Forall_odds_evens _ _ _ F) as [F1 F2]. apply Forall_app. split; assumption.
Qed.

(* ... and the state of a tensor product of one-qubit maps is such a state: the pairs drawn by random_pauli are one-site strings *)
Theorem random_pauli_state_is_product : forall pairs phases,
  Forall (fun p : pstr * pstr => length (fst p) = 1%nat /\ length (snd p) = 1%nat) pairs ->
  Forall (fun a : pauli => weight (fst a) <= 1) (stabilizers (to_state (combine (random_pauli_from pairs) phases) 0)).
Proof.
  intros pairs phases H. apply random_pauli_state_is_product_gen.
  eapply Forall_impl; [|exact H]. intros [a b] [La Lb]. cbn [fst snd] in *.
  pose proof (weight_le_length a) as Wa. pose proof (weight_le_length b) as Wb. rewrite La in Wa. rewrite Lb in Wb.
  split; lia.
Qed.

Print Assumptions bit_state_ok.
Print Assumptions bit_state_density.
Print Assumptions zero_state_density.
Print Assumptions one_state_density.
Print Assumptions mixed_state_density.
Print Assumptions product_state_entropy_zero.
Print Assumptions product_state_entropy_code_zero.
Print Assumptions random_pauli_state_is_product_gen.
Print Assumptions random_pauli_state_is_product.
