(* Proofs/ProjectionFacts.v -- the post-measurement stabilizer group is exactly <(-1)^out O> x {commuting old stabilizers};
   post-selection on a pure state. *)
From Coq Require Import ZArith List Bool Lia ZifyBool Arith.
From PC Require Import Gen.Kernels Model.Base Model.Pauli Model.Ket Model.CMap Model.Tableau Model.Circuit Model.Spec
  Proofs.PauliFacts Proofs.Transform Proofs.MaskFacts Proofs.TableauInv Proofs.MeasureFacts.
Import ListNotations.
Open Scope Z_scope.
Ltac Zify.zify_post_hook ::= Z.to_euclidean_division_equations.

(* ------------------------------------------------------------------ 1. closure *)
Theorem group_has_identity : forall n t, tableau_ok n t -> in_group n t (pid n).
Proof. exact in_group_pid. Qed.

Theorem group_closed : forall n t a b, tableau_ok n t -> in_group n t a -> in_group n t b -> in_group n t (pmul a b).
Proof. exact in_group_pmul. Qed.

(* ------------------------------------------------------------------ 2. the new stabilizer; the determined case *)
Lemma blk_anti : forall n t (o : pauli),
  (exists i, (i < n + rk t)%nat /\ acq (fst (row (rows t) i)) (fst o) = 1) ->
  exists i, (i < n + rk t)%nat /\ anti (fst o) (rows t) i = true.
Proof.
  intros n t o [i [Hi Ha]]. exists i. split; [exact Hi|]. apply anti_true_iff; exact Ha.
Qed.

Lemma measure1_new_stabilizer_p : forall n t (o : pauli) coin, tableau_ok n t -> length (fst o) = n -> hermP o -> (coin = 0 \/ coin = 1) ->
   (exists i, (i < n + rk t)%nat /\ acq (fst (row (rows t) i)) (fst o) = 1) ->
   in_group n (fst (fst (fst (measure1 t o coin)))) (fst o, 2 * coin).
Proof.
  intros n t o coin Hok Hlen Hh Hcoin Hblk.
  destruct (undet_pack n t o coin Hok Hlen Hcoin (blk_anti n t o Hblk))
    as [lf [r' [pf [HI [HM [Hok' [Hrow [P2 [P3 _]]]]]]]]].
  rewrite HM. cbn [fst]. rewrite <- Hrow.
  apply (in_group_row n _ pf Hok'); cbn [rk]; assumption.
Qed.

Theorem measure1_new_stabilizer : forall n t o coin, tableau_ok n t -> length (fst o) = n -> hermP o -> (coin = 0 \/ coin = 1) ->
   (exists i, (i < n + rk t)%nat /\ acq (fst (row (rows t) i)) (fst o) = 1) ->
   in_group n (fst (fst (fst (measure1 t o coin)))) (fst o, 2 * coin).
Proof. exact measure1_new_stabilizer_p. Qed.

Theorem measure1_determined_group : forall n t o coin a, tableau_ok n t -> length (fst o) = n -> hermP o ->
   (forall i, (i < n + rk t)%nat -> acq (fst (row (rows t) i)) (fst o) = 0) ->
   (in_group n (fst (fst (fst (measure1 t o coin)))) a <-> in_group n t a).
Proof.
  intros n t o coin a Hok Hlen Hh H.
  destruct (measure1_determined n t o coin Hok Hlen Hh H) as [out [HM _]].
  rewrite HM. cbn [fst]. split; auto.
Qed.

(* ------------------------------------------------------------------ 3. post-selection on a pure state *)
Local Open Scope nat_scope.

Lemma scan_plain_free : forall n r go l, r <= n -> (forall i, i < n + r -> anti go l i = false) ->
  scan_over (order_plain n) n r go l
  = Build_scan l false false 0 (accfold n go l (seq (n + r) (n - r)) (pid n)).
Proof.
  intros n r go l Hr H. unfold scan_over. rewrite scan_noupd_fold by (intros j _ Hj; apply H; exact Hj).
  unfold order_plain. rewrite (accfold_full n r go l _ Hr H). reflexivity.
Qed.

Lemma pneg_snd_neq : forall (o : pauli), hermP o -> (snd (pneg o) =? snd o)%Z = false.
Proof.
  intros [g p] [H|H]; cbn [fst snd] in *; subst p; reflexivity.
Qed.

Lemma postselect1_full : forall n t (o : pauli), tableau_ok n t -> rk t = 0 -> length (fst o) = n -> hermP o ->
  ((exists i, i < n + rk t /\ anti (fst o) (rows t) i = true) /\
   snd (postselect1 t o) = 1%Z /\ in_group n (fst (postselect1 t o)) o /\ expect1 t o = 0%Z)
  \/
  ((forall i, i < n + rk t -> anti (fst o) (rows t) i = false) /\ fst (postselect1 t o) = t /\
   ((snd (postselect1 t o) = 2%Z /\ in_group n t o /\ expect1 t o = 1%Z) \/
    (snd (postselect1 t o) = 0%Z /\ in_group n t (pneg o) /\ expect1 t o = (-1)%Z))).
Proof.
  intros n t o Hok Hrk Hlen Hh. pose proof Hok as [HL [Hr _]].
  pose proof (postselect1_ok n t o Hok Hrk Hlen Hh) as Hok'.
  assert (EP : postselect1 t o =
    let s := scan_over (order_plain n) n (rk t) (fst o) (rows t) in
    if s_update s then
      ({| rows := set_phase (l2_of n (fst o) (s_rows s) (s_p s)) (s_p s) (snd o); rk := rk t |}, 1%Z)
    else ({| rows := s_rows s; rk := rk t |}, if (snd (s_acc s) =? snd o)%Z then 2%Z else 0%Z)).
  { unfold postselect1. rewrite (ok_tN n t Hok). rewrite Hrk. reflexivity. }
  cbv zeta in EP.
  set (go := @fst pstr Z o) in *.
  destruct (expect1_cases n t o Hok Hlen Hh) as [[B E]|[Hfree HC]].
  - left. split; [exact B|]. fold go in B.
    pose proof (scan_char n (rk t) go (rows t) _ (ord_ok_plain n (rk t)) HL) as C. cbv zeta in C.
    set (s := scan_over (order_plain n) n (rk t) go (rows t)) in *.
    destruct C as [[_ [_ C]]|[C1 [C2 [C3 [C4 [C5 [C6 [C7 C8]]]]]]]].
    { destruct B as [i [Hi Ha]]. rewrite (C i ltac:(lia) Hi) in Ha. discriminate Ha. }
    rewrite C1 in EP. rewrite EP in *. cbn [fst snd] in *. split; [reflexivity|]. split; [|exact E].
    set (p := s_p s) in *.
    set (t' := {| rows := set_phase (l2_of n go (s_rows s) p) p (snd o); rk := rk t |}) in *.
    assert (Erow : prow (rows t') p = o).
    { apply prow_eq; cbn [rows t'].
      - rewrite fst_prow_set_phase. apply fst_l2_p. rewrite C6, HL. exact C3.
      - rewrite snd_prow_set_phase by (rewrite length_l2, C6, HL; exact C3). rewrite Nat.eqb_refl. reflexivity. }
    rewrite <- Erow. apply (in_group_row n t' p Hok'); cbn [rk t']; lia.
  - right. split; [exact Hfree|]. fold go in Hfree.
    rewrite (scan_plain_free n (rk t) go (rows t) Hr Hfree) in EP. cbn [s_update s_rows s_acc] in EP.
    rewrite tableau_eta in EP. rewrite EP. cbn [fst snd]. split; [reflexivity|].
    destruct HC as [[K [G E]]|[K [G E]]]; fold go in K; rewrite K.
    + left. rewrite Z.eqb_refl. auto.
    + right. rewrite (pneg_snd_neq o Hh). auto.
Qed.

Lemma postselect1_born_p : forall n t (o : pauli), tableau_ok n t -> rk t = 0%nat -> length (fst o) = n -> hermP o ->
   snd (postselect1 t o) = (1 + expect1 t o)%Z.
Proof.
  intros n t o Hok Hrk Hlen Hh.
  destruct (postselect1_full n t o Hok Hrk Hlen Hh) as [[_ [E1 [_ E2]]]|[_ [_ [[E1 [_ E2]]|[E1 [_ E2]]]]]];
    rewrite E1, E2; reflexivity.
Qed.

Theorem postselect1_born : forall n t o, tableau_ok n t -> rk t = 0%nat -> length (fst o) = n -> hermP o ->
   snd (postselect1 t o) = (1 + expect1 t o)%Z.
Proof. exact postselect1_born_p. Qed.

Lemma postselect1_spec_p : forall n t (o : pauli), tableau_ok n t -> rk t = 0%nat -> length (fst o) = n -> hermP o ->
   let t' := fst (postselect1 t o) in let pr := snd (postselect1 t o) in
   (pr = 2 <-> in_group n t o)%Z /\ (pr = 0 <-> in_group n t (pneg o))%Z /\ (pr = 2 \/ pr = 1 \/ pr = 0)%Z /\
   (pr = 1%Z -> in_group n t' o /\ expect1 t o = 0%Z) /\ (pr <> 1%Z -> t' = t).
Proof.
  intros n t o Hok Hrk Hlen Hh. cbv zeta.
  destruct (postselect1_full n t o Hok Hrk Hlen Hh) as [[B [E1 [G E2]]]|[Hfree [Et [[E1 [G E2]]|[E1 [G E2]]]]]];
    rewrite E1.
  - destruct B as [i [Hi Ha]].
    split; [split; [intros K; discriminate K|]|split; [split; [intros K; discriminate K|]|]].
    + intros G'. rewrite (in_group_free n t o (fst o) Hok G' eq_refl i Hi) in Ha. discriminate Ha.
    + intros G'. rewrite (in_group_free n t (pneg o) (fst o) Hok G' eq_refl i Hi) in Ha. discriminate Ha.
    + split; [auto|]. split; [auto|]. intros K. exfalso. apply K. reflexivity.
  - split; [split; auto|]. split; [split; [intros K; discriminate K|]|].
    + intros G'. exfalso. exact (group_sign_unique n t o Hok G G').
    + split; [auto|]. split; [intros K; discriminate K|]. intros _. exact Et.
  - split; [split; [intros K; discriminate K|]|]. 
    + intros G'. exfalso. exact (group_sign_unique n t o Hok G' G).
    + split; [split; auto|]. split; [auto|]. split; [intros K; discriminate K|]. intros _. exact Et.
Qed.

Theorem postselect1_spec : forall n t o, tableau_ok n t -> rk t = 0%nat -> length (fst o) = n -> hermP o ->
   let '(t', pr) := postselect1 t o in
   (pr = 2 <-> in_group n t o)%Z /\ (pr = 0 <-> in_group n t (pneg o))%Z /\ (pr = 2 \/ pr = 1 \/ pr = 0)%Z /\
   (pr = 1%Z -> in_group n t' o /\ expect1 t o = 0%Z) /\ (pr <> 1%Z -> t' = t).
Proof.
  intros n t o Hok Hrk Hlen Hh. pose proof (postselect1_spec_p n t o Hok Hrk Hlen Hh) as H. cbv zeta in H.
  destruct (postselect1 t o) as [t' pr]. exact H.
Qed.

(* ------------------------------------------------------------------ 4. the active rows after an undetermined measurement *)
(* every active row of the new tableau is the signed observable or an old group element commuting with the observable *)
Lemma undet_rows : forall n t (o : pauli) coin, tableau_ok n t -> length (fst o) = n -> hermP o -> (coin = 0 \/ coin = 1)%Z ->
  (exists i, i < n + rk t /\ anti (fst o) (rows t) i = true) ->
  let t' := fst (fst (fst (measure1 t o coin))) in
  tableau_ok n t' /\
  forall k, rk t' <= k -> k < n ->
    prow (rows t') k = (fst o, (2 * coin)%Z) \/
    (in_group n t (prow (rows t') k) /\ acqb (fst (prow (rows t') k)) (fst o) = false).
Proof.
  intros n t o coin Hok Hlen Hh Hcoin B. pose proof Hok as [HL [Hr _]]. cbv zeta.
  destruct (undet_pack n t o coin Hok Hlen Hcoin B) as [lf [r' [pf [HI [HM [Hok' [Hrow [P2 [P3 [P4 [P5 P6]]]]]]]]]]].
  rewrite HM. cbn [fst]. split; [exact Hok'|].
  pose proof (scan_blocked n t (fst o) Hok B) as S. cbv zeta in S. fold (mscan n t (fst o)) in S.
  destruct S as [S1 [S2 [S3 [S4 [S5 [S6 [S7 [S8 S9]]]]]]]].
  rewrite install_shape in HI.
  set (go := @fst pstr Z o) in *. set (s := mscan n t go) in *. set (p := s_p s) in *.
  set (ph := (2 * coin)%Z) in *.
  set (t' := {| rows := set_phase lf pf ph; rk := r' |}) in *.
  intros k Hk1 Hk2. cbn [rk t'] in Hk1.
  destruct (Nat.eq_dec k pf) as [Ekp|Ekp]; [left; rewrite Ekp; exact Hrow|]. right.
  destruct (s_extend s) eqn:E.
  - specialize (P5 eq_refl). injection HI as Elf Er' Epf. subst r' pf.
    assert (Hnp : ~ (rk t <= p /\ p < n)).
    { intros [K1 K2]. apply Nat.leb_le in K1. apply Nat.ltb_lt in K2. rewrite K1, K2 in S5. discriminate S5. }
    assert (K1 : rk t <= k) by lia.
    assert (Erow : prow (rows t') k = prow (rows t) k).
    { cbn [rows t']. rewrite prow_set_phase_other by lia. rewrite <- Elf.
      rewrite (install_ext_rows n (rk t) go (s_rows s) p k S6 Hr P5 S3 S2 Hnp K1 Hk2).
      rewrite (S7 k ltac:(lia)). destruct S9 as [S9 _]. rewrite (S9 eq_refl k K1 Hk2). reflexivity. }
    rewrite Erow. split; [apply (in_group_row n t k Hok); assumption|].
    rewrite <- anti_acqb. destruct S9 as [S9 _]. apply (S9 eq_refl k K1 Hk2).
  - injection HI as Elf Er' Epf. subst r' pf.
    assert (Hp1 : rk t <= p /\ p < n).
    { destruct (Nat.leb_spec (rk t) p); destruct (Nat.ltb_spec p n); cbn [andb negb] in S5; try discriminate S5; lia. }
    destruct Hp1 as [Hp1 Hp2].
    set (e := prow (rows t) p).
    assert (Erow : prow (rows t') k = if anti go (rows t) k then pmul (prow (rows t) k) e else prow (rows t) k).
    { cbn [rows t']. rewrite prow_set_phase_other by exact Ekp. rewrite <- Elf.
      rewrite prow_l2_other; [|exact Ekp|].
      2:{ destruct (partner_spec n p S3) as [[? E']|[? E']]; fold p in E'; rewrite E'; lia. }
      rewrite (S7 k ltac:(lia)). apply Nat.eqb_neq in Ekp. rewrite Ekp. cbn [negb]. rewrite andb_true_r.
      destruct (anti go (rows t) k); [|reflexivity].
      apply mulrow_pmul. exact Hk2. }
    assert (Ge : in_group n t e) by (apply (in_group_row n t p Hok); assumption).
    assert (Gk : in_group n t (prow (rows t) k)) by (apply (in_group_row n t k Hok); assumption).
    rewrite Erow. destruct (anti go (rows t) k) eqn:Ak.
    + split; [apply in_group_pmul; assumption|].
      destruct (group_hermitian n t e Hok Ge) as [[Le _] _].
      destruct (group_hermitian n t _ Hok Gk) as [[Lk _] _].
      rewrite pmul_fst, acqb_xor_l by (rewrite Le, Lk; reflexivity).
      rewrite <- anti_acqb, Ak. unfold e. rewrite <- anti_acqb.
      rewrite S4. reflexivity.
    + split; [exact Gk|]. rewrite <- anti_acqb. exact Ak.
Qed.

(* ------------------------------------------------------------------ 5. the set <so> x {commuting old group elements} is closed under products *)
Lemma pmul_four : forall n (a b c d : pauli), wf n a -> wf n b -> wf n c -> wf n d ->
  acq (fst b) (fst c) = 0%Z ->
  pmul (pmul a b) (pmul c d) = pmul (pmul a c) (pmul b d).
Proof.
  intros n a b c d [La _] [Lb _] [Lc _] [Ld _] Hc.
  assert (Lcd : length (fst (pmul c d)) = n) by (rewrite pmul_fst, gxor_length; congruence).
  assert (Lbd : length (fst (pmul b d)) = n) by (rewrite pmul_fst, gxor_length; congruence).
  rewrite (pmul_assoc a b (pmul c d) (eq_trans La (eq_sym Lb)) (eq_trans Lb (eq_sym Lcd))).
  rewrite <- (pmul_assoc b c d (eq_trans Lb (eq_sym Lc)) (eq_trans Lc (eq_sym Ld))).
  rewrite (acq_spec_comm b c Hc).
  rewrite (pmul_assoc c b d (eq_trans Lc (eq_sym Lb)) (eq_trans Lb (eq_sym Ld))).
  rewrite <- (pmul_assoc a c (pmul b d) (eq_trans La (eq_sym Lc)) (eq_trans Lc (eq_sym Lbd))).
  reflexivity.
Qed.

Section Closure.
Variables (n : nat) (t : tableau) (so : pauli).
Hypothesis Hok : tableau_ok n t.
Hypothesis Lso : length (fst so) = n.
Hypothesis Hso : hermP so.

Definition spow (e : bool) : pauli := if e then so else pid n.
Definition inS (a : pauli) : Prop :=
  exists (b : pauli) e, in_group n t b /\ acqb (fst b) (fst so) = false /\ a = pmul b (spow e).

Lemma wf_so : wf n so.
Proof. apply herm_wf; assumption. Qed.

Lemma wf_spow : forall e, wf n (spow e).
Proof. intros [|]; [exact wf_so | apply wf_pid]. Qed.

Lemma so_square : pmul so so = pid n.
Proof.
  rewrite pmul_square, Lso. unfold pid. f_equal. destruct Hso as [H|H]; rewrite H; reflexivity.
Qed.

Lemma spow_mul : forall e1 e2, pmul (spow e1) (spow e2) = spow (xorb e1 e2).
Proof.
  intros [|] [|]; cbn [spow xorb].
  - exact so_square.
  - apply pmul_pid_r. exact wf_so.
  - apply pmul_pid_l. exact wf_so.
  - apply pmul_pid_l. apply wf_pid.
Qed.

Lemma inS_pid : inS (pid n).
Proof.
  exists (pid n), false. split; [apply (in_group_pid n t Hok)|]. split; [apply acqb_id_l|].
  cbn [spow]. symmetry. apply pmul_pid_l. apply wf_pid.
Qed.

Lemma inS_mul : forall a1 a2, inS a1 -> inS a2 -> inS (pmul a1 a2).
Proof.
  intros a1 a2 [b1 [e1 [G1 [C1 E1]]]] [b2 [e2 [G2 [C2 E2]]]].
  destruct (group_hermitian n t b1 Hok G1) as [W1 _]. destruct (group_hermitian n t b2 Hok G2) as [W2 _].
  exists (pmul b1 b2), (xorb e1 e2). split; [apply in_group_pmul; assumption|]. split.
  - pose proof W1 as [L1 _]. pose proof W2 as [L2 _].
    rewrite pmul_fst, acqb_xor_l by (rewrite L1, L2; reflexivity). rewrite C1, C2. reflexivity.
  - rewrite E1, E2, <- spow_mul. apply (pmul_four n); try assumption; try apply wf_spow.
    rewrite acq_acqb. change 0%Z with (zb false). f_equal.
    destruct e1; cbn [spow]; [rewrite acqb_sym; exact C2 | apply acqb_id_l].
Qed.

Lemma inS_rprod : forall sel rs, (forall x, In x rs -> inS x) -> inS (rprod n sel rs).
Proof.
  intros sel. induction sel as [|b sel IH]; intros [|r rs] H; cbn [rprod]; try apply inS_pid.
  assert (H' : forall x, In x rs -> inS x) by (intros x Hx; apply H; right; exact Hx).
  destruct b; [|apply IH; assumption].
  apply inS_mul; [apply H; left; reflexivity | apply IH; assumption].
Qed.
End Closure.

(* ------------------------------------------------------------------ 6. the post-measurement group, exactly *)
Lemma measure1_group_exact_p : forall n t (o : pauli) coin (a : pauli), tableau_ok n t -> length (fst o) = n -> hermP o ->
   (coin = 0 \/ coin = 1)%Z ->
   (exists i, (i < n + rk t)%nat /\ acq (fst (row (rows t) i)) (fst o) = 1%Z) ->
   let t' := fst (fst (fst (measure1 t o coin))) in
   let so : pauli := (fst o, (2 * coin)%Z) in
   (in_group n t' a <->
    exists b : pauli, in_group n t b /\ acq (fst b) (fst o) = 0%Z /\ (a = b \/ a = pmul b so)).
Proof.
  intros n t o coin a Hok Hlen Hh Hcoin Hblk t' so.
  pose proof (undet_rows n t o coin Hok Hlen Hh Hcoin (blk_anti n t o Hblk)) as U. cbv zeta in U. fold t' in U.
  destruct U as [Hok' Hrows].
  assert (Lso : length (fst so) = n) by exact Hlen.
  assert (Hso : hermP so).
  { unfold hermP, so. cbn [snd]. destruct Hcoin as [H|H]; rewrite H; [left|right]; reflexivity. }
  assert (Gso : in_group n t' so) by exact (measure1_new_stabilizer_p n t o coin Hok Hlen Hh Hcoin Hblk).
  split.
  - intros Ha. apply (in_group_rprod n t' a Hok') in Ha. destruct Ha as [sel [Lsel Ea]].
    assert (HS : inS n t so a).
    { rewrite <- Ea. apply (inS_rprod n t so Hok Lso Hso). intros x Hx.
      destruct (active_In n t' x Hok' Hx) as [j [Hj Ex]].
      destruct (Hrows (rk t' + j) ltac:(lia) ltac:(pose proof Hok' as [_ [Hr' _]]; lia)) as [K|[K1 K2]].
      - exists (pid n), true. split; [apply (in_group_pid n t Hok)|]. split; [apply acqb_id_l|].
        cbn [spow]. rewrite Ex, K. symmetry. apply pmul_pid_l. apply (wf_so n so Lso Hso).
      - exists x, false. rewrite Ex. split; [exact K1|]. split; [exact K2|].
        cbn [spow]. symmetry. apply pmul_pid_r. destruct (group_hermitian n t _ Hok K1) as [W _]. exact W. }
    destruct HS as [b [e [Gb [Cb Eb]]]]. exists b. split; [exact Gb|]. split.
    + rewrite acq_acqb. change (fst o) with (fst so). rewrite Cb. reflexivity.
    + destruct e; cbn [spow] in Eb; [right; exact Eb|left].
      rewrite Eb. apply pmul_pid_r. destruct (group_hermitian n t b Hok Gb) as [W _]. exact W.
  - intros [b [Gb [Cb Eab]]].
    assert (Gb' : in_group n t' b) by exact (measure1_keeps_commuting_p n t o coin b Hok Hlen Hh Hcoin Gb Cb).
    destruct Eab as [E|E]; rewrite E; [exact Gb'|].
    apply in_group_pmul; assumption.
Qed.

Theorem measure1_group_exact : forall n t o coin a, tableau_ok n t -> length (fst o) = n -> hermP o -> (coin = 0 \/ coin = 1)%Z ->
   (exists i, (i < n + rk t)%nat /\ acq (fst (row (rows t) i)) (fst o) = 1%Z) ->
   let t' := fst (fst (fst (measure1 t o coin))) in
   let so := (fst o, (2 * coin)%Z) in
   (in_group n t' a <-> exists b, in_group n t b /\ acq (fst b) (fst o) = 0%Z /\ (a = b \/ a = pmul b so)).
Proof. exact measure1_group_exact_p. Qed.
