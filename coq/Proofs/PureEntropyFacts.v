(* Proofs/PureEntropyFacts.v -- the pure-state branch of stabilizer_entropy (half the GF(2) rank of the
   commutation matrix of the region-restricted crossing stabilizers) equals the reference formula
   |A| - N + rank(generators restricted to the complement), for every N. *)
From Coq Require Import ZArith List Bool Lia Arith.
From PC Require Import Model.Base Model.Pauli Model.Z2 Model.Entropy
  Proofs.PauliFacts Proofs.Z2Facts Proofs.RankFacts Proofs.LinAlgFacts.
Import ListNotations.
Local Open Scope nat_scope.

(* ------------------------------------------------------------------ *)
(* the symplectic form on flat vectors [x0;z0;x1;z1;...]               *)
(* ------------------------------------------------------------------ *)

Fixpoint sf (u v : list bool) : bool :=
  match u, v with
  | x1 :: z1 :: u', x2 :: z2 :: v' => xorb (xorb (z1 && x2) (x1 && z2)) (sf u' v')
  | _, _ => false
  end.

Fixpoint swapxz (u : list bool) : list bool :=
  match u with x :: z :: r => z :: x :: swapxz r | _ => [] end.

Lemma sf_flat : forall g1 g2, acqb g1 g2 = sf (flat g1) (flat g2).
Proof.
  induction g1 as [|[x1 z1] g1 IH]; intros [|[x2 z2] g2]; cbn [acqb flat sf]; auto.
  rewrite IH. reflexivity.
Qed.

Lemma sf_sym : forall u v, sf u v = sf v u.
Proof.
  fix IH 1. intros [|x1 [|z1 u]] [|x2 [|z2 v]]; cbn [sf]; auto.
  rewrite (IH u v). destruct x1, z1, x2, z2; reflexivity.
Qed.

Lemma sf_dot : forall k u v, length v = 2 * k -> sf u v = dot (swapxz u) v.
Proof.
  induction k as [|k IH]; intros u [|x2 [|z2 v]] H; cbn [length] in H; try lia.
  - destruct u as [|x1 [|z1 u]]; reflexivity.
  - destruct u as [|x1 [|z1 u]]; cbn [sf swapxz dot]; auto.
    rewrite (IH u v) by lia. destruct (z1 && x2), (x1 && z2), (dot (swapxz u) v); reflexivity.
Qed.

Lemma vzero_2S : forall k, vzero (2 * S k) = false :: false :: vzero (2 * k).
Proof. intros k. replace (2 * S k) with (S (S (2 * k))) by lia. reflexivity. Qed.

Lemma swapxz_vadd : forall u v, length u = length v -> swapxz (vadd u v) = vadd (swapxz u) (swapxz v).
Proof.
  unfold vadd. fix IH 1. intros [|x [|z u]] [|x' [|z' v]] H; cbn [length] in H; try discriminate H;
    cbn [map2 swapxz]; auto.
  rewrite (IH u v) by (injection H as H; exact H). reflexivity.
Qed.

Lemma swapxz_length : forall k u, length u = 2 * k -> length (swapxz u) = 2 * k.
Proof.
  induction k as [|k IH]; intros [|x [|z u]] H; cbn [length] in H; try lia; cbn [swapxz length].
  - reflexivity.
  - rewrite (IH u) by lia. lia.
Qed.

Lemma swapxz_invol : forall k u, length u = 2 * k -> swapxz (swapxz u) = u.
Proof.
  induction k as [|k IH]; intros [|x [|z u]] H; cbn [length] in H; try lia; cbn [swapxz].
  - reflexivity.
  - rewrite (IH u) by lia. reflexivity.
Qed.

Lemma swapxz_vzero : forall k, swapxz (vzero (2 * k)) = vzero (2 * k).
Proof.
  induction k as [|k IH]; [reflexivity|]. rewrite vzero_2S. cbn [swapxz]. rewrite IH. reflexivity.
Qed.

Lemma swapxz_linear : forall k, linear (2 * k) (2 * k) swapxz.
Proof.
  intros k. split; [|split].
  - intros u v Hu Hv. apply swapxz_vadd. congruence.
  - apply swapxz_vzero.
  - intros v. apply swapxz_length.
Qed.

Lemma swapxz_rank : forall k rows, rect (2 * k) rows -> z2rank (map swapxz rows) = z2rank rows.
Proof.
  intros k rows H. apply (rank_injective (2 * k) (2 * k)); auto.
  - apply swapxz_linear.
  - intros v Hv E. rewrite <- (swapxz_invol k v) by (apply (in_span_length _ rows); auto).
    rewrite E. apply swapxz_vzero.
Qed.

Lemma sf_vadd_l : forall u u' v, length u = length u' ->
  sf (vadd u u') v = xorb (sf u v) (sf u' v).
Proof.
  unfold vadd. fix IH 1. intros [|x [|z u]] [|x' [|z' u']] v H; cbn [length] in H; try discriminate H;
    cbn [map2 sf]; auto.
  destruct v as [|x2 [|z2 v]]; auto.
  rewrite (IH u u' v) by (injection H as H; exact H).
  destruct x, z, x', z', x2, z2, (sf u v), (sf u' v); reflexivity.
Qed.

Lemma sf_vadd_r : forall u v v', length v = length v' ->
  sf u (vadd v v') = xorb (sf u v) (sf u v').
Proof. intros u v v' Hv. rewrite !(sf_sym u). apply sf_vadd_l; auto. Qed.

Lemma sf_zero_l : forall n v, sf (vzero n) v = false.
Proof.
  unfold vzero. fix IH 1. intros [|[|n]] v; cbn [repeat sf]; auto.
  destruct v as [|x2 [|z2 v]]; auto. rewrite (IH n v). reflexivity.
Qed.

Lemma sf_zero_r : forall n v, sf v (vzero n) = false.
Proof. intros n v. rewrite sf_sym. apply sf_zero_l. Qed.

(* a vector orthogonal to all rows is orthogonal to their span *)
Lemma sf_span_l : forall k rows v x, rect (2 * k) rows ->
  (forall r, In r rows -> sf r v = false) -> in_span (2 * k) rows x -> sf x v = false.
Proof.
  intros k rows v x H Hall [sel [_ <-]]. revert sel.
  induction rows as [|r rows IH]; intros sel.
  - rewrite lincomb_nil_r. apply sf_zero_l.
  - apply rect_cons in H. destruct H as [Hr H].
    assert (IH' := IH H (fun r' Hr' => Hall r' (or_intror Hr'))).
    destruct sel as [|b s]; cbn [lincomb]; [apply sf_zero_l|].
    destruct b; [|apply IH'].
    rewrite sf_vadd_l by (rewrite lincomb_length by auto; exact Hr).
    rewrite IH', (Hall r (or_introl eq_refl)). reflexivity.
Qed.

(* L3: non-degeneracy of the symplectic form: dim W^perp = 2k - dim W *)
Theorem sf_perp_dim : forall k W, rect (2 * k) W ->
  exists d, has_dim (2 * k) (fun v => length v = 2 * k /\ forall w, In w W -> sf w v = false) d /\
            d + z2rank W = 2 * k.
Proof.
  intros k W HW.
  assert (HW' : rect (2 * k) (map swapxz W)) by (apply (rect_map_linear (2 * k)); auto; apply swapxz_linear).
  destruct (perp_dim (2 * k) (map swapxz W) HW') as [d [Hd E]].
  exists d. split.
  - apply (has_dim_ext _ _ _ d Hd). intros v. split; intros [H1 H2]; (split; [exact H1|]).
    + intros w Hw. rewrite (sf_dot k) by exact H1. apply H2. apply in_map. exact Hw.
    + intros w Hw. apply in_map_iff in Hw. destruct Hw as [w0 [<- Hw0]].
      rewrite <- (sf_dot k) by exact H1. apply H2. exact Hw0.
  - rewrite (swapxz_rank k) in E by exact HW. exact E.
Qed.

(* ------------------------------------------------------------------ *)
(* restriction to a region and extension by zero, on flat vectors      *)
(* ------------------------------------------------------------------ *)

Fixpoint res (m : list bool) (v : list bool) : list bool :=
  match m, v with
  | b :: m', x :: z :: v' => if b then x :: z :: res m' v' else res m' v'
  | _, _ => []
  end.

Fixpoint ext (m : list bool) (w : list bool) : list bool :=
  match m with
  | [] => []
  | true :: m' => match w with
                  | x :: z :: w' => x :: z :: ext m' w'
                  | _ => false :: false :: ext m' []
                  end
  | false :: m' => false :: false :: ext m' w
  end.

Lemma count_true_cons : forall b m, count_true (b :: m) = (if b then 1 else 0) + count_true m.
Proof. intros [|] m; reflexivity. Qed.

Lemma res_flat : forall m g, flat (gather m g) = res m (flat g).
Proof.
  induction m as [|b m IH]; intros [|[x z] g]; cbn [gather flat res]; auto.
  - destruct b; reflexivity.
  - destruct b; cbn [flat]; rewrite IH; reflexivity.
Qed.

Lemma res_length : forall m v, length v = 2 * length m -> length (res m v) = 2 * count_true m.
Proof.
  induction m as [|b m IH]; intros [|x [|z v]] H; cbn [length] in H; try lia; cbn [res].
  - reflexivity.
  - rewrite count_true_cons. destruct b; cbn [length]; rewrite IH by lia; lia.
Qed.

Lemma res_vadd : forall m u v, length u = 2 * length m -> length v = 2 * length m ->
  res m (vadd u v) = vadd (res m u) (res m v).
Proof.
  unfold vadd. induction m as [|b m IH]; intros [|x [|z u]] [|x' [|z' v]] Hu Hv; cbn [length] in Hu, Hv; try lia;
    cbn [map2 res]; auto.
  destruct b; cbn [map2]; rewrite IH by lia; reflexivity.
Qed.

Lemma res_vzero : forall m, res m (vzero (2 * length m)) = vzero (2 * count_true m).
Proof.
  induction m as [|b m IH]; [reflexivity|]. cbn [length]. rewrite vzero_2S. cbn [res].
  rewrite IH, count_true_cons. destruct b; [|reflexivity].
  replace (2 * (1 + count_true m)) with (2 * S (count_true m)) by lia. rewrite vzero_2S. reflexivity.
Qed.

Lemma res_linear : forall m, linear (2 * length m) (2 * count_true m) (res m).
Proof.
  intros m. split; [|split].
  - apply res_vadd.
  - apply res_vzero.
  - apply res_length.
Qed.

Lemma ext_length : forall m w, length (ext m w) = 2 * length m.
Proof.
  induction m as [|b m IH]; intros w; [reflexivity|]. cbn [ext length].
  destruct b; [destruct w as [|x [|z w]]|]; cbn [length]; rewrite IH; lia.
Qed.

Lemma res_ext : forall m w, length w = 2 * count_true m -> res m (ext m w) = w.
Proof.
  induction m as [|b m IH]; intros w H.
  - destruct w; [reflexivity|discriminate H].
  - rewrite count_true_cons in H. destruct b; cbn [ext].
    + destruct w as [|x [|z w]]; cbn [length] in H; try lia. cbn [res]. rewrite IH by lia. reflexivity.
    + cbn [res]. apply IH. lia.
Qed.

Lemma resn_ext : forall m w, res (map negb m) (ext m w) = vzero (2 * count_true (map negb m)).
Proof.
  induction m as [|b m IH]; intros w; [reflexivity|]. cbn [map]. rewrite count_true_cons.
  destruct b; cbn [ext negb].
  - destruct w as [|x [|z w]]; cbn [res]; apply IH.
  - cbn [res]. rewrite IH.
    replace (2 * (1 + count_true (map negb m))) with (2 * S (count_true (map negb m))) by lia.
    rewrite vzero_2S. reflexivity.
Qed.

Lemma sf_ext : forall m w v, length v = 2 * length m -> length w = 2 * count_true m ->
  sf (ext m w) v = sf w (res m v).
Proof.
  induction m as [|b m IH]; intros w [|x [|z v]] Hv Hw; cbn [length] in Hv; try lia.
  - destruct w; [reflexivity|discriminate Hw].
  - rewrite count_true_cons in Hw. destruct b; cbn [ext res].
    + destruct w as [|x' [|z' w]]; cbn [length] in Hw; try lia. cbn [sf]. rewrite IH by lia. reflexivity.
    + cbn [sf andb]. rewrite IH by lia. apply xorb_false_l.
Qed.

Lemma sf_split : forall m u v, length u = 2 * length m -> length v = 2 * length m ->
  sf u v = xorb (sf (res m u) (res m v)) (sf (res (map negb m) u) (res (map negb m) v)).
Proof.
  induction m as [|b m IH]; intros [|x [|z u]] [|x' [|z' v]] Hu Hv; cbn [length] in Hu, Hv; try lia.
  - reflexivity.
  - cbn [map]. destruct b; cbn [negb res sf]; rewrite (IH u v) by lia.
    + destruct (xorb (z && x') (x && z')), (sf (res m u) (res m v)),
        (sf (res (map negb m) u) (res (map negb m) v)); reflexivity.
    + destruct (xorb (z && x') (x && z')), (sf (res m u) (res m v)),
        (sf (res (map negb m) u) (res (map negb m) v)); reflexivity.
Qed.

Lemma res_both_zero : forall m v, length v = 2 * length m ->
  res m v = vzero (2 * count_true m) -> res (map negb m) v = vzero (2 * count_true (map negb m)) ->
  v = vzero (2 * length m).
Proof.
  induction m as [|b m IH]; intros [|x [|z v]] Hv H1 H2; cbn [length] in Hv; try lia.
  - reflexivity.
  - cbn [length]. rewrite vzero_2S. cbn [map] in H2. rewrite count_true_cons in H1, H2.
    destruct b; cbn [negb res] in H1, H2.
    + replace (2 * (1 + count_true m)) with (2 * S (count_true m)) in H1 by lia.
      rewrite vzero_2S in H1. injection H1 as -> -> H1. rewrite (IH v); auto. lia.
    + replace (2 * (1 + count_true (map negb m))) with (2 * S (count_true (map negb m))) in H2 by lia.
      rewrite vzero_2S in H2. injection H2 as -> -> H2. rewrite (IH v); auto. lia.
Qed.

Lemma count_true_negb : forall m, count_true m + count_true (map negb m) = length m.
Proof.
  induction m as [|b m IH]; [reflexivity|]. cbn [map length]. rewrite !count_true_cons.
  destruct b; cbn [negb]; lia.
Qed.

(* ------------------------------------------------------------------ *)
(* L4: maximal isotropy                                                *)
(* ------------------------------------------------------------------ *)

Definition isotropic (G : list (list bool)) : Prop := forall a b, In a G -> In b G -> sf a b = false.

(* n independent commuting vectors in dimension 2n span their own symplectic complement *)
Theorem max_isotropic : forall n G, length G = n -> rect (2 * n) G -> independent (2 * n) G -> isotropic G ->
  forall v, length v = 2 * n -> (forall g, In g G -> sf g v = false) -> in_span (2 * n) G v.
Proof.
  intros n G LG HG IG Hiso v Lv Hv.
  destruct (sf_perp_dim n G HG) as [d [[K [RK [IK [LK SK]]]] E]].
  rewrite (independent_rank (2 * n) G HG IG) in E.
  apply (eq_dim_span (2 * n) G K); auto.
  - intros g Hg. apply SK. split; [apply (rect_In _ G); auto|]. intros w Hw. apply Hiso; auto.
  - lia.
  - apply SK. split; assumption.
Qed.

(* ------------------------------------------------------------------ *)
(* L5: rank of the Gram matrix of the restricted generators            *)
(* ------------------------------------------------------------------ *)

Definition gram_map (R : list (list bool)) (w : list bool) : list bool := map (sf w) R.
Definition gram (R : list (list bool)) : list (list bool) := map (gram_map R) R.

Lemma gram_map_linear : forall c R, linear c (length R) (gram_map R).
Proof.
  intros c R. unfold gram_map. split; [|split].
  - intros u v Hu Hv. rewrite vadd_xr, xr_map. apply map_ext. intros r. apply sf_vadd_l. congruence.
  - apply map_all_false. intros r _. apply sf_zero_l.
  - intros v _. apply map_length.
Qed.

Lemma gram_map_zero : forall R w, gram_map R w = vzero (length R) <-> forall r, In r R -> sf r w = false.
Proof.
  intros R w. unfold gram_map. rewrite map_all_false. split; intros H r Hr; [rewrite sf_sym|rewrite sf_sym]; auto.
Qed.

Theorem gram_rank_core : forall n m G, length m = n -> length G = n -> rect (2 * n) G ->
  independent (2 * n) G -> isotropic G ->
  z2rank (gram (map (res m) G)) + 2 * n
  = 2 * (count_true m + z2rank (map (res (map negb m)) G)).
Proof.
  intros n m G Lm LG HG IG Hiso.
  set (nm := map negb m). set (a := count_true m). set (b := count_true nm).
  set (GA := map (res m) G). set (GB := map (res nm) G).
  assert (Lnm : length nm = n) by (unfold nm; rewrite map_length; exact Lm).
  assert (LinA : linear (2 * n) (2 * a) (res m)) by (rewrite <- Lm; apply res_linear).
  assert (LinB : linear (2 * n) (2 * b) (res nm)) by (rewrite <- Lnm; apply res_linear).
  assert (HGA : rect (2 * a) GA) by (apply (rect_map_linear (2 * n)); auto).
  set (SA := fun v => in_span (2 * n) G v /\ res nm v = vzero (2 * b)).
  set (Perp := fun w => length w = 2 * a /\ forall r, In r GA -> sf r w = false).
  (* facts relating the two *)
  assert (F1 : forall w, Perp w -> SA (ext m w)).
  { intros w [Lw Hw]. split; [|apply resn_ext].
    apply (max_isotropic n); auto.
    - rewrite ext_length. lia.
    - intros g Hg. rewrite sf_sym. rewrite sf_ext; [|rewrite (rect_In _ G g HG Hg); lia|exact Lw].
      rewrite sf_sym. apply Hw. apply in_map. exact Hg. }
  assert (F2 : forall s, SA s -> Perp (res m s)).
  { intros s [Hs1 Hs2].
    assert (Ls : length s = 2 * n) by (apply (in_span_length _ G); auto).
    split; [destruct LinA as [_ [_ Hl]]; apply Hl; exact Ls|].
    intros r Hr. apply in_map_iff in Hr. destruct Hr as [g [<- Hg]].
    assert (Lg : length g = 2 * n) by (apply (rect_In _ G); auto).
    assert (E := sf_split m g s ltac:(lia) ltac:(lia)). fold nm in E.
    rewrite Hs2, sf_zero_r, xorb_false_r in E. rewrite <- E.
    rewrite sf_sym. apply (sf_span_l n G g s HG); auto. }
  assert (F3 : forall w, Perp w -> in_span (2 * a) GA w).
  { intros w Hw. destruct (F1 w Hw) as [H1 _].
    rewrite <- (res_ext m w) by (destruct Hw as [Lw _]; exact Lw).
    apply (in_span_map (2 * n)); auto. }
  (* the three dimension counts *)
  destruct (rank_nullity (2 * n) (2 * b) (res nm) G LinB HG) as [d1 [Hd1 E1]].
  fold SA in Hd1. fold GB in E1. rewrite (independent_rank (2 * n) G HG IG), LG in E1.
  destruct (sf_perp_dim a GA HGA) as [d2 [Hd2 E2]]. fold Perp in Hd2.
  destruct (rank_nullity (2 * a) (length GA) (gram_map GA) GA (gram_map_linear _ GA) HGA) as [d3 [Hd3 E3]].
  fold (gram GA) in E3.
  (* d3 = d2 *)
  assert (E32 : d3 = d2).
  { apply (has_dim_unique (2 * a) _ _ d3 d2 Hd3 Hd2). intros w. split.
    - intros [H1 H2]. split; [apply (in_span_length _ GA); auto|]. apply gram_map_zero. exact H2.
    - intros Hw. split; [apply F3; exact Hw|]. apply gram_map_zero. destruct Hw as [_ Hw]. exact Hw. }
  (* d1 = d2 *)
  assert (E12 : d1 = d2).
  { destruct Hd1 as [K1 [RK [IK [LK SK]]]].
    apply (has_dim_unique (2 * a) Perp Perp d1 d2); [|exact Hd2|intros; tauto].
    exists (map (res m) K1). split; [apply (rect_map_linear (2 * n)); auto|]. split; [|split].
    - intros sel Lsel Hz. rewrite map_length in *.
      rewrite <- (lincomb_map (2 * n) (2 * a)) in Hz by auto.
      assert (Hx : SA (lincomb (2 * n) sel K1)) by (apply SK; exists sel; split; auto).
      destruct Hx as [Hx1 Hx2].
      apply IK; auto.
      replace (vzero (2 * n)) with (vzero (2 * length m)) by (rewrite Lm; reflexivity).
      apply (res_both_zero m); [rewrite Lm; apply lincomb_length; exact RK|exact Hz|exact Hx2].
    - rewrite map_length. exact LK.
    - intros w. split.
      + intros Hw. destruct (in_span_map_inv (2 * n) (2 * a) (res m) K1 w LinA RK Hw) as [x [Hx <-]].
        apply F2. apply SK. exact Hx.
      + intros Hw. rewrite <- (res_ext m w) by (destruct Hw as [Lw _]; exact Lw).
        apply (in_span_map (2 * n)); auto. apply SK. apply F1. exact Hw. }
  fold a. fold nm. fold GA. fold GB. lia.
Qed.

(* ------------------------------------------------------------------ *)
(* dropping zero rows / zero columns does not change the rank          *)
(* ------------------------------------------------------------------ *)

Lemma gather_In' : forall (A : Type) (k : A) mk l, In k (gather mk l) -> In k l.
Proof.
  intros A k. induction mk as [|b mk IH]; intros [|a l] H; cbn [gather] in H; try contradiction.
  - destruct b; contradiction.
  - destruct b; [destruct H as [<-|H]; [left; reflexivity|]|]; right; apply IH; exact H.
Qed.

Lemma gather_map' : forall (A B : Type) (f : A -> B) mk l, gather mk (map f l) = map f (gather mk l).
Proof.
  intros A B f. induction mk as [|b mk IH]; intros [|a l]; cbn [map gather]; auto.
  - destruct b; reflexivity.
  - destruct b; cbn [map]; rewrite IH; reflexivity.
Qed.

Definition zero_off (mask : list bool) (v : list bool) : Prop :=
  Forall2 (fun (b x : bool) => b = false -> x = false) mask v.

Lemma zero_off_length : forall mask v, zero_off mask v -> length v = length mask.
Proof. intros mask v H. symmetry. apply (F2_length _ _ _ _ _ H). Qed.

Lemma zero_off_subspace : forall mask, subspace (length mask) (zero_off mask).
Proof.
  intros mask. split; [|split].
  - unfold zero_off, vzero. induction mask as [|b mask IH]; cbn [length repeat]; constructor; auto.
  - unfold zero_off, vadd. intros u v Hu. revert v.
    induction Hu as [|b x mask u Hb Hu IH]; intros v Hv; inversion Hv as [|b' y mask' v' Hb' Hv' E1 E2]; subst;
      cbn [map2]; constructor.
    + intros E. rewrite (Hb E), (Hb' E). reflexivity.
    + apply IH. exact Hv'.
  - apply zero_off_length.
Qed.

Lemma gather_vadd : forall mask u v, length u = length mask -> length v = length mask ->
  gather mask (vadd u v) = vadd (gather mask u) (gather mask v).
Proof.
  unfold vadd. induction mask as [|b mask IH]; intros [|x u] [|y v] Hu Hv; cbn [length] in Hu, Hv; try lia;
    cbn [map2 gather]; auto.
  destruct b; cbn [map2]; rewrite IH by lia; reflexivity.
Qed.

Lemma gather_vzero : forall mask, gather mask (vzero (length mask)) = vzero (count_true mask).
Proof.
  unfold vzero. induction mask as [|b mask IH]; [reflexivity|]. cbn [length repeat gather].
  rewrite IH, count_true_cons. destruct b; reflexivity.
Qed.

Lemma gather_linear : forall mask, linear (length mask) (count_true mask) (gather mask).
Proof.
  intros mask. split; [|split].
  - apply gather_vadd.
  - apply gather_vzero.
  - intros v H. apply gather_length. exact H.
Qed.

Lemma zero_off_gather_zero : forall mask v, zero_off mask v ->
  gather mask v = vzero (count_true mask) -> v = vzero (length mask).
Proof.
  unfold zero_off, vzero. intros mask v H. induction H as [|b x mask v Hb H IH]; intros E; [reflexivity|].
  cbn [length repeat]. rewrite count_true_cons in E. destruct b; cbn [gather plus repeat] in E.
  - injection E as -> E. rewrite IH by exact E. reflexivity.
  - rewrite (Hb eq_refl), IH by exact E. reflexivity.
Qed.

Lemma rank_drop_cols : forall mask X, (forall r, In r X -> zero_off mask r) ->
  z2rank (map (gather mask) X) = z2rank X.
Proof.
  intros mask X H.
  assert (HX : rect (length mask) X).
  { apply Forall_forall. intros r Hr. apply zero_off_length. apply H. exact Hr. }
  apply (rank_injective (length mask) (count_true mask)); auto.
  - apply gather_linear.
  - intros v Hv E. apply zero_off_gather_zero; auto.
    apply (span_in_subspace (length mask) _ X); auto. apply zero_off_subspace.
Qed.

Lemma rank_drop_rows : forall c mask X, rect c X ->
  Forall2 (fun (b : bool) (r : list bool) => b = false -> r = vzero c) mask X ->
  z2rank (gather mask X) = z2rank X.
Proof.
  intros c mask X HX HF.
  assert (HG : rect c (gather mask X)).
  { apply Forall_forall. intros r Hr. apply (rect_In c X); auto. apply (gather_In' _ r mask); exact Hr. }
  apply (z2rank_span_invariant_gen c); auto.
  apply same_span_of_rows; auto.
  - intros r Hr. apply in_span_In; auto. apply (gather_In' _ r mask); exact Hr.
  - intros r Hr.
    assert (Hc : In r (gather mask X) \/ r = vzero c).
    { clear HX HG. induction HF as [|b x mask X Hb HF IH]; [destruct Hr|].
      destruct Hr as [<-|Hr].
      - destruct b; [left; left; reflexivity|right; apply Hb; reflexivity].
      - destruct (IH Hr) as [H|H]; [|right; exact H]. left. destruct b; cbn [gather]; [right|]; exact H. }
    destruct Hc as [Hc| ->]; [apply in_span_In; auto|apply in_span_zero].
Qed.

(* L5 (second part): rows of R that are orthogonal to all of R can be dropped from the Gram matrix *)
Lemma gram_gather : forall mask R, gram (gather mask R) = gather mask (map (gather mask) (gram R)).
Proof.
  intros mask R. unfold gram. rewrite gather_map', !gather_map', map_map.
  apply map_ext. intros a. unfold gram_map. symmetry. apply gather_map'.
Qed.

Lemma zero_off_gram_row : forall (R : list (list bool)) a mask R1, In a R ->
  Forall2 (fun (b : bool) (r : list bool) => b = false -> forall r', In r' R -> sf r r' = false) mask R1 ->
  zero_off mask (map (sf a) R1).
Proof.
  intros R a mask R1 Ha HF. unfold zero_off.
  induction HF as [|b r mk rs Hb HF IH]; cbn [map]; constructor; auto.
  intros E. rewrite sf_sym. apply Hb; auto.
Qed.

Lemma zero_rows_gram : forall (R : list (list bool)) (F : list bool -> list bool) z mask R1,
  (forall r, (forall r', In r' R -> sf r r' = false) -> F r = z) ->
  Forall2 (fun (b : bool) (r : list bool) => b = false -> forall r', In r' R -> sf r r' = false) mask R1 ->
  Forall2 (fun (b : bool) (r : list bool) => b = false -> r = z) mask (map F R1).
Proof.
  intros R F z mask R1 HFz HF.
  induction HF as [|b r mk rs Hb HF IH]; cbn [map]; constructor; auto.
Qed.

Theorem gram_drop : forall R mask,
  Forall2 (fun (b : bool) (r : list bool) => b = false -> forall r', In r' R -> sf r r' = false) mask R ->
  z2rank (gram (gather mask R)) = z2rank (gram R).
Proof.
  intros R mask HF.
  assert (LM : length mask = length R) by (apply (F2_length _ _ _ _ _ HF)).
  rewrite gram_gather.
  rewrite (rank_drop_rows (count_true mask)).
  - apply rank_drop_cols. intros r Hr. unfold gram in Hr. apply in_map_iff in Hr.
    destruct Hr as [a [<- Ha]]. unfold gram_map. apply (zero_off_gram_row R); auto.
  - apply Forall_forall. intros r Hr. apply in_map_iff in Hr. destruct Hr as [x [<- Hx]].
    apply gather_length. unfold gram in Hx. apply in_map_iff in Hx. destruct Hx as [a [<- Ha]].
    unfold gram_map. rewrite map_length. congruence.
  - unfold gram. rewrite map_map. apply (zero_rows_gram R); auto.
    intros r Hr. replace (gram_map R r) with (vzero (length mask)); [apply gather_vzero|].
    rewrite LM. symmetry. unfold gram_map. apply map_all_false. exact Hr.
Qed.

(* ------------------------------------------------------------------ *)
(* L6: assembly                                                        *)
(* ------------------------------------------------------------------ *)

Lemma bz_zb : forall b, bz (zb b) = b.
Proof. intros [|]; reflexivity. Qed.

Lemma gram_acq : forall l, zmat_to_bmat (acq_mat l) = gram (map flat l).
Proof.
  intros l. unfold zmat_to_bmat, acq_mat, gram. rewrite !map_map. apply map_ext. intros a.
  unfold gram_map. rewrite !map_map. apply map_ext. intros b.
  rewrite acq_acqb, bz_zb. apply sf_flat.
Qed.

Lemma any_site_false : forall g, any_site g = false -> flat g = vzero (2 * length g).
Proof.
  unfold any_site. induction g as [|[x z] g IH]; intros H; [reflexivity|].
  cbn [existsb] in H. apply orb_false_iff in H. destruct H as [H1 H2].
  unfold nontrivial in H1. cbn [fst snd] in H1. apply orb_false_iff in H1. destruct H1 as [-> ->].
  cbn [length flat]. rewrite vzero_2S, IH by exact H2. reflexivity.
Qed.

Lemma acq_zero_sf : forall a b, acq a b = 0%Z -> sf (flat a) (flat b) = false.
Proof.
  intros a b H. rewrite acq_acqb in H. rewrite <- sf_flat. destruct (acqb a b); [discriminate H|reflexivity].
Qed.

(* the rows the code drops are orthogonal to every restricted generator *)
Lemma across_rows : forall n (gs : list pstr) m, length m = n -> (forall g, In g gs -> length g = n) ->
  (forall a b, In a gs -> In b gs -> acq a b = 0%Z) ->
  forall gs1, (forall g, In g gs1 -> In g gs) ->
  Forall2 (fun (b : bool) (r : list bool) => b = false ->
             forall r', In r' (map (res m) (map flat gs)) -> sf r r' = false)
    (map2 andb (map (fun g => any_site (gather m g)) gs1)
               (map (fun g => any_site (gather (map negb m) g)) gs1))
    (map (res m) (map flat gs1)).
Proof.
  intros n gs m Lm Hlen Hcomm. induction gs1 as [|g gs1 IH]; intros Hsub; cbn [map map2]; constructor.
  - intros E r' Hr'. apply in_map_iff in Hr'. destruct Hr' as [f' [<- Hf']].
    apply in_map_iff in Hf'. destruct Hf' as [g' [<- Hg']].
    assert (Hg : In g gs) by (apply Hsub; left; reflexivity).
    assert (Lg : length (flat g) = 2 * length m) by (rewrite flat_length, (Hlen g Hg), Lm; reflexivity).
    assert (Lg' : length (flat g') = 2 * length m) by (rewrite flat_length, (Hlen g' Hg'), Lm; reflexivity).
    apply andb_false_iff in E. destruct E as [E|E]; apply any_site_false in E.
    + rewrite <- res_flat, E. apply sf_zero_l.
    + assert (S := sf_split m (flat g) (flat g') Lg Lg').
      rewrite (acq_zero_sf g g' (Hcomm g g' Hg Hg')) in S.
      rewrite <- (res_flat (map negb m) g), E, sf_zero_l, xorb_false_r in S. symmetry. exact S.
  - apply IH. intros g0 Hg0. apply Hsub. right. exact Hg0.
Qed.

(* the rows kept by the code: generators with support on both sides, restricted to the region *)
Definition crossing_sub (gs : list pstr) (m : list bool) : list pstr :=
  map (gather m)
    (gather (map2 andb (map (fun g => any_site (gather m g)) gs)
                       (map (fun g => any_site (gather (map negb m) g)) gs)) gs).

(* the Gram rank is exactly twice the reference entropy; in particular it is even *)
Theorem crossing_gram_rank : forall n (gs : list pstr) m, length m = n -> length gs = n ->
   (forall g, In g gs -> length g = n) ->
   independent (2 * n) (map flat gs) ->
   (forall a b, In a gs -> In b gs -> acq a b = 0%Z) ->
   Z.of_nat (z2rank (zmat_to_bmat (acq_mat (crossing_sub gs m)))) = (2 * entropy_ref gs m)%Z.
Proof.
  intros n gs m Lm Lgs Hlen Hind Hcomm.
  unfold crossing_sub, entropy_ref. unfold pstr in *. rewrite Lgs.
  set (across := map2 andb (map (fun g => any_site (gather m g)) gs)
                           (map (fun g => any_site (gather (map negb m) g)) gs)).
  set (G := map flat gs).
  assert (HG : rect (2 * n) G) by (apply flat_rect; exact Hlen).
  assert (Hiso : isotropic G).
  { intros a b Ha Hb. apply in_map_iff in Ha. destruct Ha as [ga [<- Ha]].
    apply in_map_iff in Hb. destruct Hb as [gb [<- Hb]]. apply acq_zero_sf. apply Hcomm; assumption. }
  rewrite gram_acq.
  assert (Esub : map flat (map (gather m) (gather across gs)) = gather across (map (res m) G)).
  { unfold G. rewrite !gather_map', !map_map. apply map_ext. intros g. apply res_flat. }
  rewrite Esub.
  rewrite (gram_drop (map (res m) G) across).
  2:{ unfold across, G. apply (across_rows n gs m Lm Hlen Hcomm gs). auto. }
  assert (Eref : map (fun g => flat (gather (map negb m) g)) gs = map (res (map negb m)) G).
  { unfold G. rewrite map_map. apply map_ext. intros g. apply res_flat. }
  rewrite Eref.
  assert (Core := gram_rank_core n m G Lm ltac:(unfold G; rewrite map_length; exact Lgs) HG Hind Hiso).
  lia.
Qed.

Corollary crossing_gram_rank_even : forall n (gs : list pstr) m, length m = n -> length gs = n ->
   (forall g, In g gs -> length g = n) ->
   independent (2 * n) (map flat gs) ->
   (forall a b, In a gs -> In b gs -> acq a b = 0%Z) ->
   Nat.even (z2rank (zmat_to_bmat (acq_mat (crossing_sub gs m)))) = true.
Proof.
  intros n gs m Lm Lgs Hlen Hind Hcomm.
  assert (E := crossing_gram_rank n gs m Lm Lgs Hlen Hind Hcomm).
  apply Nat.even_spec. exists (Z.to_nat (entropy_ref gs m)). lia.
Qed.

Theorem pure_branch_general : forall n gs m, length m = n -> length gs = n -> (forall g, In g gs -> length g = n) ->
   independent (2 * n) (map flat gs) ->
   (forall a b, In a gs -> In b gs -> acq a b = 0%Z) ->
   entropy_of n gs m = entropy_ref gs m.
Proof.
  intros n gs m Lm Lgs Hlen Hind Hcomm.
  assert (E := crossing_gram_rank n gs m Lm Lgs Hlen Hind Hcomm).
  unfold entropy_of. fold (crossing_sub gs m). unfold pstr in *. rewrite Lgs, Nat.eqb_refl.
  cbv zeta. fold (crossing_sub gs m). unfold pstr in *. rewrite E.
  rewrite Z.mul_comm, Z.div_mul by lia. reflexivity.
Qed.
