(* Proofs/JointBornFacts.v -- measuring a LIST of mutually commuting Hermitian observables:
   the returned log-probability is log2 Tr(rho P_1 ... P_k) (joint Born rule), the post-measurement density matrix is
   Pi rho Pi / Tr(rho Pi) with Pi = P_1 ... P_k (entry by entry), and repeating the measurement is deterministic. *)
From Coq Require Import ZArith List Bool Lia ZifyBool Arith Permutation Setoid Morphisms.
From Coq Require Import QArith Qcanon.
From PC Require Import Gen.Kernels Model.Base Model.Pauli Model.Ket Model.CMap Model.Tableau Model.Circuit Model.Spec
  Model.Poly Model.PolySem Model.Sample
  Proofs.PauliFacts Proofs.Transform Proofs.MaskFacts Proofs.TableauInv Proofs.MeasureFacts Proofs.SampleFacts Proofs.PolyFacts
  Proofs.ProjectionFacts Proofs.TraceFacts Proofs.PositiveFacts Proofs.ProjectorFacts Proofs.OverlapFacts Proofs.MeasureCircuitFacts.
Import ListNotations.
Open Scope Z_scope.

(* ------------------------------------------------------------------ definitions (names fixed) *)
(* the observable of outcome bit b for the (signed) observable o: (-1)^b o *)
Definition signed_obs (o : pauli) (b : Z) : pauli := (fst o, (snd o + 2 * b) mod 4).
Definition signed_list (obs : plist) (outs : list Z) : plist := map2 signed_obs obs outs.

(* ------------------------------------------------------------------ the signed observable *)
Lemma signed_obs_pscale : forall o b, signed_obs o b = pscale (2 * b) o.
Proof. reflexivity. Qed.

Lemma signed_obs_fst : forall o b, fst (signed_obs o b) = fst o.
Proof. reflexivity. Qed.

Lemma signed_obs_0 : forall o, hermP o -> signed_obs o 0 = o.
Proof. intros o H. rewrite signed_obs_pscale. apply pscale_0_herm. exact H. Qed.

Lemma signed_obs_1 : forall o, signed_obs o 1 = pneg o.
Proof. intros o. reflexivity. Qed.

Lemma signed_obs_herm : forall o b, hermP o -> (b = 0 \/ b = 1) -> hermP (signed_obs o b).
Proof.
  intros [g p] b H Hb. unfold hermP, signed_obs in *. cbn [fst snd] in *.
  destruct H as [H|H]; destruct Hb as [Hb|Hb]; subst p b; [left|right|right|left]; reflexivity.
Qed.

(* the outcome bit recorded in the undetermined case makes the signed observable the installed stabilizer (fst o, 2 coin) *)
Lemma signed_obs_random : forall (o : pauli) coin, hermP o -> (coin = 0 \/ coin = 1) ->
  signed_obs o ((2 * coin - snd o) mod 4 / 2) = (fst o, 2 * coin).
Proof.
  intros [g p] coin H Hc. unfold hermP, signed_obs in *. cbn [fst snd] in *.
  destruct H as [H|H]; destruct Hc as [Hc|Hc]; subst p coin; reflexivity.
Qed.

Lemma signed_list_cons : forall o rest out outs,
  signed_list (o :: rest) (out :: outs) = signed_obs o out :: signed_list rest outs.
Proof. reflexivity. Qed.

Lemma signed_list_ok : forall n obs outs, Forall (obs_ok n) obs -> Forall (fun b => b = 0 \/ b = 1) outs ->
  Forall (obs_ok n) (signed_list obs outs).
Proof.
  intros n obs. induction obs as [|o rest IH]; intros outs Hobs Houts; [constructor|].
  destruct outs as [|out outs]; [constructor|].
  inversion_clear Hobs as [|? ? [Lo Ho] Hrest]. inversion_clear Houts as [|? ? Hb Houts'].
  rewrite signed_list_cons. constructor; [|apply IH; assumption].
  split; [exact Lo | apply signed_obs_herm; assumption].
Qed.

Lemma signed_list_In : forall obs outs x, In x (signed_list obs outs) -> exists o, In o obs /\ fst x = fst o.
Proof.
  induction obs as [|o rest IH]; intros outs x Hx; [destruct Hx|].
  destruct outs as [|out outs]; [destruct Hx|].
  rewrite signed_list_cons in Hx. destruct Hx as [Hx|Hx].
  - exists o. split; [left; reflexivity | subst x; reflexivity].
  - destruct (IH outs x Hx) as [o' [Ho' E]]. exists o'. split; [right; exact Ho' | exact E].
Qed.

(* ------------------------------------------------------------------ one step (names: measure1_born_step) *)
(* Either the outcome is determined: the signed observable is already in the group, the state is unchanged, lp = 0;
   or it is not: the recorded outcome selects the projector P of the new stabilizer, rho' = 2 P rho P, Tr(P rho P) = 1/2, lp = -1.
   In both cases the signed observable is a stabilizer afterwards and group elements commuting with o survive. *)
Lemma measure1_born_step : forall n t (o : pauli) coin, tableau_ok n t -> length (fst o) = n -> hermP o -> (coin = 0 \/ coin = 1) ->
  let '(t', out, lp, used) := measure1 t o coin in
  tableau_ok n t' /\ (out = 0 \/ out = 1) /\ in_group n t' (signed_obs o out) /\
  (forall a, in_group n t a -> acq (fst a) (fst o) = 0 -> in_group n t' a) /\
  ((used = false /\ lp = 0 /\ t' = t /\ in_group n t (signed_obs o out)) \/
   (used = true /\ lp = -1 /\
    cmul c2 (trace_sem n (sandwich n (signed_obs o out) (density_poly t))) = c1 /\
    forall k k', length k = n ->
      amp (density_poly t') k k' = cmul c2 (amp (sandwich n (signed_obs o out) (density_poly t)) k k'))).
Proof.
  intros n t o coin Hok Lo Ho Hcoin.
  destruct (expect1_cases n t o Hok Lo Ho) as [[B _]|[Hfree _]].
  - assert (Hblk : exists i, (i < n + rk t)%nat /\ acq (fst (row (rows t) i)) (fst o) = 1).
    { destruct B as [i [Hi Ha]]. exists i. split; [exact Hi|]. apply anti_true_iff. exact Ha. }
    destruct (measure1_undetermined n t o coin Hok Lo Ho Hcoin Hblk) as [t' [out [HM [Eout _]]]].
    pose proof (measure1_ok n t o coin Hok Lo Hcoin) as M.
    pose proof (measure1_new_stabilizer n t o coin Hok Lo Ho Hcoin Hblk) as G.
    pose proof (fun a => measure1_keeps_commuting n t o coin a Hok Lo Ho Hcoin) as K.
    pose proof (fun k k' => measure1_density n t o coin k k' Hok Lo Ho Hcoin Hblk) as D. cbv zeta in D.
    rewrite HM in M, G, K, D |- *. cbn [fst] in G, K, D.
    destruct M as [Hok' _].
    assert (Eso : signed_obs o out = (fst o, 2 * coin)).
    { rewrite Eout. apply signed_obs_random; assumption. }
    rewrite Eso.
    assert (Hso : hermP (fst o, 2 * coin)).
    { rewrite <- Eso. apply signed_obs_herm; [exact Ho|]. rewrite Eout. apply out_random_01; assumption. }
    split; [exact Hok'|]. split; [rewrite Eout; apply out_random_01; assumption|].
    split; [exact G|]. split; [exact K|]. right.
    split; [reflexivity|]. split; [reflexivity|]. split.
    + apply (sandwich_trace_half n t (fst o, 2 * coin) Hok Lo Hso).
      apply (expect1_blocked n t (fst o, 2 * coin) Hok). exact B.
    + intros k k' Hk. apply D. exact Hk.
  - destruct (measure1_free_full n t o coin Hok Lo Ho Hfree) as [out [HM [H01 [_ G]]]].
    rewrite HM. rewrite <- signed_obs_pscale in G.
    split; [exact Hok|]. split; [exact H01|]. split; [exact G|]. split; [intros a Ga _; exact Ga|].
    left. auto.
Qed.

(* ------------------------------------------------------------------ identity factors *)
Lemma pmulp_ident_l : forall n (p : poly), Forall (fun u : term => wf n (snd u)) p -> pmulp (ident_poly n) p = p.
Proof.
  intros n p H. unfold ident_poly. rewrite pmulp_cons, pmulp_nil_l, app_nil_r. cbn [fst snd].
  induction H as [|[c a] p Ha _ IH]; [reflexivity|].
  cbn [map fst snd] in *. rewrite IH, cmul_1_l, (pmul_pid_l n a Ha). reflexivity.
Qed.

Lemma pmulp_ident_r : forall n (p : poly), Forall (fun u : term => wf n (snd u)) p -> pmulp p (ident_poly n) = p.
Proof.
  intros n p H. induction H as [|[c a] p Ha _ IH]; [reflexivity|].
  rewrite pmulp_cons, IH. unfold ident_poly. cbn [map fst snd app] in *. rewrite cmul_1_r, (pmul_pid_r n a Ha). reflexivity.
Qed.

Lemma density_poly_wf : forall n t, tableau_ok n t -> Forall (fun u : term => wf n (snd u)) (density_poly t).
Proof.
  intros n t Hok. apply Forall_forall. intros u Hu. unfold density_poly in Hu.
  apply in_map_iff in Hu. destruct Hu as [a [E Ha]]. subst u. cbn [snd].
  destruct (terms_wf n t a Hok Ha) as [W _]. exact W.
Qed.

(* ------------------------------------------------------------------ matrix algebra for the post-state *)
Lemma mmul_comm_shift : forall n P Q X, meq n (mmul n P Q) (mmul n Q P) ->
  meq n (mmul n (mmul n P Q) X) (mmul n Q (mmul n P X)).
Proof. intros n P Q X H. rewrite H. apply mmul_assoc. Qed.

(* (P Q) R (P Q) = Q (P R P) Q when P Q = Q P *)
Lemma sandwich_prod_mat : forall n P Q R, meq n (mmul n P Q) (mmul n Q P) ->
  meq n (mmul n (mmul n P Q) (mmul n R (mmul n P Q))) (mmul n Q (mmul n (mmul n P (mmul n R P)) Q)).
Proof.
  intros n P Q R H. rewrite (mmul_comm_shift n P Q _ H).
  rewrite <- (mmul_assoc n R P Q), <- (mmul_assoc n P (mmul n R P) Q). reflexivity.
Qed.

Lemma post_step : forall n rho o rest, well_sized n rho -> obs_ok n o -> Forall (obs_ok n) rest ->
  (forall b, In b rest -> acq (fst o) (fst b) = 0) ->
  meq n (amp (pmulp (proj_prod n (o :: rest)) (pmulp rho (proj_prod n (o :: rest)))))
        (mmul n (amp (proj_prod n rest)) (mmul n (amp (sandwich n o rho)) (amp (proj_prod n rest)))).
Proof.
  intros n rho o rest WR Hobs Hrest Hc. pose proof Hobs as [Lo Ho].
  pose proof (well_sized_proj n o Lo) as WP.
  pose proof (well_sized_proj_prod n rest (obs_ok_len n rest Hrest)) as WQ.
  pose proof (well_sized_pmulp n _ _ WP WQ) as WPQ.
  cbn [proj_prod].
  rewrite (amp_mmul n _ _ WPQ (well_sized_pmulp n _ _ WR WPQ)), (amp_mmul n _ _ WR WPQ), (amp_mmul n _ _ WP WQ).
  rewrite (sandwich_prod_mat n _ _ _ (proj_comm_prod n o rest Hobs Hrest Hc)).
  unfold sandwich.
  rewrite (amp_mmul n _ _ WP (well_sized_pmulp n _ _ WR WP)), (amp_mmul n _ _ WR WP). reflexivity.
Qed.

Lemma mscal_mscal : forall n c d A, meq n (mscal c (mscal d A)) (mscal (cmul c d) A).
Proof. intros n c d A k k' _. unfold mscal. symmetry. apply cmul_assoc. Qed.

Lemma to_nat_step : forall lp, lp <= 0 -> Z.to_nat (- (-1 + lp)) = S (Z.to_nat (- lp)).
Proof. intros lp H. lia. Qed.

(* ------------------------------------------------------------------ the fold over the list *)
Lemma measure_fold : forall n obs t coins, tableau_ok n t -> Forall (obs_ok n) obs ->
  (forall a b, In a obs -> In b obs -> acq (fst a) (fst b) = 0) -> bit_coins coins ->
  let m := measure t obs coins in
  let t' := fst (fst (fst m)) in
  let outs := snd (fst (fst m)) in
  let lp := snd (fst m) in
  tableau_ok n t' /\ length outs = length obs /\ Forall (fun b => b = 0 \/ b = 1) outs /\ lp <= 0 /\
  Forall (in_group n t') (signed_list obs outs) /\
  (forall a, in_group n t a -> (forall o, In o obs -> acq (fst a) (fst o) = 0) -> in_group n t' a) /\
  trace_sem n (pmulp (density_poly t) (proj_prod n (signed_list obs outs))) = half_pow (Z.to_nat (- lp)) /\
  meq n (mscal (half_pow (Z.to_nat (- lp))) (amp (density_poly t')))
        (amp (pmulp (proj_prod n (signed_list obs outs)) (pmulp (density_poly t) (proj_prod n (signed_list obs outs))))).
Proof.
  intros n obs. induction obs as [|o rest IH]; intros t coins Hok Hobs Hc HC; cbv zeta.
  - cbn [measure fst snd length]. change (signed_list [] []) with (@nil pauli). cbn [proj_prod].
    change (Z.to_nat (- 0)) with 0%nat. cbn [half_pow].
    split; [exact Hok|]. split; [reflexivity|]. split; [constructor|]. split; [lia|]. split; [constructor|].
    split; [intros a Ga _; exact Ga|]. split.
    + apply trace_rho_ident. exact Hok.
    + rewrite (pmulp_ident_r n _ (density_poly_wf n t Hok)), (pmulp_ident_l n _ (density_poly_wf n t Hok)).
      intros k k' _. unfold mscal. apply cmul_1_l.
  - inversion_clear Hobs as [|? ? Ho Hrest]. pose proof Ho as [Lo Hh].
    assert (Hc1 : forall b, In b rest -> acq (fst o) (fst b) = 0).
    { intros b Hb. apply Hc; [left; reflexivity | right; exact Hb]. }
    assert (Hc2 : forall a b, In a rest -> In b rest -> acq (fst a) (fst b) = 0).
    { intros a b Ha Hb. apply Hc; right; assumption. }
    cbn [measure].
    set (c := match coins with c :: _ => c | [] => 0 end).
    assert (Hcb : c = 0 \/ c = 1).
    { unfold c. destruct coins as [|c0 cs]; [left; reflexivity | inversion_clear HC; assumption]. }
    pose proof (measure1_born_step n t o c Hok Lo Hh Hcb) as S.
    destruct (measure1 t o c) as [[[t1 out] lp1] used].
    destruct S as [Hok1 [Hout [Gso [Keep S]]]].
    assert (HC' : bit_coins (if used then tl coins else coins)).
    { destruct used; [apply bit_coins_tl|]; exact HC. }
    specialize (IH t1 _ Hok1 Hrest Hc2 HC'). cbv zeta in IH.
    destruct (measure t1 rest (if used then tl coins else coins)) as [[[t2 outs] lp2] cl].
    cbn [fst snd] in IH |- *.
    destruct IH as [Hok2 [Hlen [Hbits [Hlp2 [Gs [Keep2 [Born Post]]]]]]].
    rewrite signed_list_cons.
    set (so := signed_obs o out) in *. set (rest' := signed_list rest outs) in *.
    assert (Hso : obs_ok n so).
    { split; [exact Lo | apply signed_obs_herm; assumption]. }
    pose proof Hso as [Lso Hhso].
    assert (Hrest' : Forall (obs_ok n) rest') by (apply signed_list_ok; assumption).
    assert (Hc1' : forall b, In b rest' -> acq (fst so) (fst b) = 0).
    { intros b Hb. destruct (signed_list_In rest outs b Hb) as [o' [Ho' E]].
      rewrite E. change (fst so) with (fst o). apply Hc1. exact Ho'. }
    pose proof (density_poly_sized n t Hok) as WR.
    pose proof (well_sized_proj_prod n rest' (obs_ok_len n rest' Hrest')) as WQ.
    assert (Hlp1 : lp1 = 0 \/ lp1 = -1).
    { destruct S as [[_ [E _]]|[_ [E _]]]; [left | right]; exact E. }
    split; [exact Hok2|]. split; [cbn [length]; f_equal; exact Hlen|].
    split; [constructor; assumption|]. split; [lia|].
    split.
    { constructor; [|exact Gs]. apply Keep2; [exact Gso|].
      intros o' Ho'. change (fst so) with (fst o). apply Hc1. exact Ho'. }
    split.
    { intros a Ga Ca. apply Keep2.
      - apply Keep; [exact Ga | apply Ca; left; reflexivity].
      - intros o' Ho'. apply Ca. right. exact Ho'. }
    destruct S as [[_ [El [Et Gt]]]|[_ [El [_ D]]]]; subst lp1.
    + subst t1. rewrite Z.add_0_l.
      assert (M : meq n (amp (sandwich n so (density_poly t))) (amp (density_poly t))).
      { intros k k' Hk. apply (sandwich_eigen_plus n t so k k' Hok Lso Hhso Gt Hk). }
      split.
      * rewrite (trace_step n t so rest' Hok Hso Hrest' Hc1').
        rewrite M, <- (amp_mmul n _ _ WR WQ). exact Born.
      * rewrite (post_step n (density_poly t) so rest' WR Hso Hrest' Hc1').
        rewrite M, <- (amp_mmul n _ _ WR WQ), <- (amp_mmul n _ _ WQ (well_sized_pmulp n _ _ WR WQ)). exact Post.
    + assert (M : meq n (amp (sandwich n so (density_poly t))) (mscal chalf (amp (density_poly t1)))).
      { intros k k' Hk. unfold mscal. rewrite (D k k' Hk). symmetry. apply chalf_c2_cancel. }
      pose proof (density_poly_sized n t1 Hok1) as WR1.
      rewrite (to_nat_step lp2 Hlp2). cbn [half_pow].
      split.
      * rewrite (trace_step n t so rest' Hok Hso Hrest' Hc1').
        rewrite M, (mmul_mscal_l n), mtr_mscal.
        rewrite <- (amp_mmul n _ _ WR1 WQ), <- trace_sem_mtr, Born. reflexivity.
      * rewrite (post_step n (density_poly t) so rest' WR Hso Hrest' Hc1').
        rewrite M, (mmul_mscal_l n), (mmul_mscal_r n).
        rewrite <- (amp_mmul n _ _ WR1 WQ), <- (amp_mmul n _ _ WQ (well_sized_pmulp n _ _ WR1 WQ)).
        rewrite <- Post. symmetry. apply mscal_mscal.
Qed.

(* ------------------------------------------------------------------ a list of observables whose signed versions are stabilizers *)
Lemma measure_determined_list : forall n obs outs t coins, tableau_ok n t -> Forall (obs_ok n) obs ->
  Forall (fun b => b = 0 \/ b = 1) outs -> length outs = length obs ->
  Forall (in_group n t) (signed_list obs outs) ->
  measure t obs coins = (t, outs, 0, coins).
Proof.
  intros n obs. induction obs as [|o rest IH]; intros outs t coins Hok Hobs Hbits Hlen HG.
  - destruct outs; [reflexivity | discriminate Hlen].
  - destruct outs as [|out outs]; [discriminate Hlen|].
    inversion_clear Hobs as [|? ? [Lo Hh] Hrest]. inversion_clear Hbits as [|? ? Hb Hbits'].
    rewrite signed_list_cons in HG. inversion_clear HG as [|? ? G HG'].
    cbn [length] in Hlen. injection Hlen as Hlen.
    pose proof (in_group_free n t (signed_obs o out) (fst o) Hok G eq_refl) as Hfree.
    destruct (measure1_free_full n t o (match coins with c :: _ => c | [] => 0 end) Hok Lo Hh Hfree)
      as [out' [HM [H01 [_ G']]]].
    rewrite <- signed_obs_pscale in G'.
    assert (E : out' = out).
    { destruct Hb as [Hb|Hb]; destruct H01 as [H01|H01]; subst out out'; try reflexivity; exfalso.
      - rewrite (signed_obs_0 o Hh) in G. rewrite signed_obs_1 in G'. exact (group_sign_unique n t o Hok G G').
      - rewrite (signed_obs_0 o Hh) in G'. rewrite signed_obs_1 in G. exact (group_sign_unique n t o Hok G' G). }
    subst out'.
    cbn [measure]. rewrite HM. cbv beta iota.
    rewrite (IH outs t coins Hok Hrest Hbits' Hlen HG'). reflexivity.
Qed.

(* ------------------------------------------------------------------ main theorems (names fixed) *)
Theorem measure_outcomes_are_bits : forall n t obs coins, tableau_ok n t ->
   Forall (fun o => length (fst o) = n /\ hermP o) obs ->
   (forall a b, In a obs -> In b obs -> acq (fst a) (fst b) = 0) ->
   bit_coins coins -> (length obs <= length coins)%nat ->
   let '(t', outs, lp, rest) := measure t obs coins in
   length outs = length obs /\ Forall (fun b => b = 0 \/ b = 1) outs /\ lp <= 0.
Proof.
  intros n t obs coins Hok Hobs Hc HC _.
  pose proof (measure_fold n obs t coins Hok Hobs Hc HC) as H. cbv zeta in H.
  destruct (measure t obs coins) as [[[t' outs] lp] cl]. cbn [fst snd] in H.
  destruct H as [_ [H1 [H2 [H3 _]]]]. auto.
Qed.

(* JOINT BORN RULE: the returned log-probability is log2 of Tr(rho P_1 ... P_k), P_j the projector of the j-th recorded outcome *)
Theorem measure_joint_born : forall n t obs coins, tableau_ok n t ->
   Forall (fun o => length (fst o) = n /\ hermP o) obs ->
   (forall a b, In a obs -> In b obs -> acq (fst a) (fst b) = 0) ->
   bit_coins coins -> (length obs <= length coins)%nat ->
   let '(t', outs, lp, rest) := measure t obs coins in
   trace_sem n (pmulp (density_poly t) (proj_prod n (signed_list obs outs))) = half_pow (Z.to_nat (- lp)).
Proof.
  intros n t obs coins Hok Hobs Hc HC _.
  pose proof (measure_fold n obs t coins Hok Hobs Hc HC) as H. cbv zeta in H.
  destruct (measure t obs coins) as [[[t' outs] lp] cl]. cbn [fst snd] in H.
  destruct H as [_ [_ [_ [_ [_ [_ [H _]]]]]]]. exact H.
Qed.

(* POST-STATE: rho' = Pi rho Pi / Tr(rho Pi), Pi = P_1 ... P_k, entry by entry *)
Theorem measure_post_state : forall n t obs coins, tableau_ok n t ->
   Forall (fun o => length (fst o) = n /\ hermP o) obs ->
   (forall a b, In a obs -> In b obs -> acq (fst a) (fst b) = 0) ->
   bit_coins coins -> (length obs <= length coins)%nat ->
   let '(t', outs, lp, rest) := measure t obs coins in
   forall k k', length k = n ->
     cmul (half_pow (Z.to_nat (- lp))) (amp (density_poly t') k k')
     = amp (pmulp (proj_prod n (signed_list obs outs)) (pmulp (density_poly t) (proj_prod n (signed_list obs outs)))) k k'.
Proof.
  intros n t obs coins Hok Hobs Hc HC _.
  pose proof (measure_fold n obs t coins Hok Hobs Hc HC) as H. cbv zeta in H.
  destruct (measure t obs coins) as [[[t' outs] lp] cl]. cbn [fst snd] in H.
  destruct H as [_ [_ [_ [_ [_ [_ [_ H]]]]]]]. intros k k' Hk. exact (H k k' Hk).
Qed.

(* repeating the measurement returns the same outcomes with probability one and leaves the state unchanged *)
Theorem measure_repeat : forall n t obs coins, tableau_ok n t ->
   Forall (fun o => length (fst o) = n /\ hermP o) obs ->
   (forall a b, In a obs -> In b obs -> acq (fst a) (fst b) = 0) ->
   bit_coins coins -> (length obs <= length coins)%nat ->
   let '(t', outs, lp, rest) := measure t obs coins in
   forall coins2, bit_coins coins2 -> measure t' obs coins2 = (t', outs, 0, coins2).
Proof.
  intros n t obs coins Hok Hobs Hc HC _.
  pose proof (measure_fold n obs t coins Hok Hobs Hc HC) as H. cbv zeta in H.
  destruct (measure t obs coins) as [[[t' outs] lp] cl]. cbn [fst snd] in H.
  destruct H as [Hok' [Hlen [Hbits [_ [HG _]]]]]. intros coins2 _.
  apply (measure_determined_list n obs outs t' coins2 Hok' Hobs Hbits Hlen HG).
Qed.

Print Assumptions measure_outcomes_are_bits.
Print Assumptions measure1_born_step.
Print Assumptions measure_joint_born.
Print Assumptions measure_post_state.
Print Assumptions measure_repeat.
