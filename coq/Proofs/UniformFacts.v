(* Proofs/UniformFacts.v -- exact uniformity of random_clifford on the finite groups N = 1 and N = 2, by complete enumeration of the accepted raw draws.
   Each output matrix is encoded as a positive number (its bits) and counted in a PositiveMap. *)
From Coq Require Import ZArith List Bool FMapPositive.
From PC Require Import Model.Base Model.Pauli Model.CMap Model.Diag Model.Random.
Import ListNotations.

Fixpoint code_bits (l : list bool) (acc : positive) : positive :=
  match l with [] => acc | b :: r => code_bits r (if b then xI acc else xO acc) end.
Definition code_mat (m : list pstr) : positive := code_bits (flat_map flat m) xH.

Definition count_table (l : list (list pstr)) : PositiveMap.t nat :=
  fold_left (fun t m => let k := code_mat m in
                        PositiveMap.add k (S (match PositiveMap.find k t with Some c => c | None => O end)) t) l (PositiveMap.empty nat).
Definition all_counts_are (k : nat) (l : list (list pstr)) : bool :=
  forallb (fun kv => Nat.eqb (snd kv) k) (PositiveMap.elements (count_table l)).
Definition distinct_outputs (l : list (list pstr)) : nat := PositiveMap.cardinal (count_table l).

(* the code is injective on matrices of a fixed shape, so equal codes mean equal matrices: checked here on the enumerated outputs *)
Definition shapes_ok (n : nat) (l : list (list pstr)) : bool :=
  forallb (fun m => Nat.eqb (length m) (2 * n) && forallb (fun r => Nat.eqb (length r) n) m) l.

(* N = 1: 12 accepted raw draws -> 6 distinct symplectic matrices, each hit exactly twice *)
Lemma uniform_1 :
  length (all_raw_cliffords 1) = 12%nat /\ shapes_ok 1 (all_raw_cliffords 1) = true /\
  forallb symplectic_b (all_raw_cliffords 1) = true /\
  distinct_outputs (all_raw_cliffords 1) = 6%nat /\ all_counts_are 2 (all_raw_cliffords 1) = true.
Proof. vm_compute. repeat split; reflexivity. Qed.

(* N = 2: 240 * 12 = 2880 accepted raw draws -> 720 = |Sp(4,2)| distinct symplectic matrices, each hit exactly 4 times *)
Lemma uniform_2 :
  length (all_raw_cliffords 2) = 2880%nat /\ shapes_ok 2 (all_raw_cliffords 2) = true /\
  forallb symplectic_b (all_raw_cliffords 2) = true /\
  distinct_outputs (all_raw_cliffords 2) = 720%nat /\ all_counts_are 4 (all_raw_cliffords 2) = true.
Proof. vm_compute. repeat split; reflexivity. Qed.

(* the sampler entangles: some accepted draw on two qubits maps X0 to a string supported on both qubits *)
Lemma entangles_2 : existsb (fun m => match m with r0 :: _ => forallb nontrivial r0 | [] => false end) (all_raw_cliffords 2) = true.
Proof. vm_compute. reflexivity. Qed.

Lemma code_bits_inj : forall l1 l2 a1 a2, length l1 = length l2 -> code_bits l1 a1 = code_bits l2 a2 -> l1 = l2 /\ a1 = a2.
Proof.
  induction l1 as [|b1 l1 IH]; intros [|b2 l2] a1 a2 HL H; cbn in *; try discriminate HL.
  - split; [reflexivity | exact H].
  - injection HL as HL. destruct (IH l2 _ _ HL H) as [E1 E2]. subst l2.
    destruct b1, b2; try discriminate E2; injection E2 as ->; split; reflexivity.
Qed.
