(* Proofs/RankFacts.v -- z2rank as implemented computes the dimension of the row space; entropy facts *)
From Coq Require Import ZArith List Bool Lia ZifyBool Arith.
From PC Require Import Model.Base Model.Z2 Model.Entropy Proofs.Z2Facts.
Import ListNotations.
Open Scope Z_scope.
Ltac Zify.zify_post_hook ::= Z.to_euclidean_division_equations.
Local Open Scope nat_scope.

Definition vzero (c : nat) : list bool := repeat false c.
Definition vadd (u v : list bool) : list bool := map2 xorb u v.
(* linear combination of the rows selected by sel *)
Fixpoint lincomb (c : nat) (sel : list bool) (rows : list (list bool)) : list bool :=
  match sel, rows with
  | s :: sel', r :: rows' => if s then vadd r (lincomb c sel' rows') else lincomb c sel' rows'
  | _, _ => vzero c
  end.
Definition in_span (c : nat) (rows : list (list bool)) (v : list bool) : Prop :=
  exists sel, length sel = length rows /\ lincomb c sel rows = v.
Definition independent (c : nat) (rows : list (list bool)) : Prop :=
  forall sel, length sel = length rows -> lincomb c sel rows = vzero c -> sel = repeat false (length rows).
Definition same_span (c : nat) (a b : list (list bool)) : Prop := forall v, in_span c a v <-> in_span c b v.
Definition rect (c : nat) (a : list (list bool)) : Prop := Forall (fun r => length r = c) a.

(* ------------------------------------------------------------------ *)
(* vectors                                                             *)
(* ------------------------------------------------------------------ *)

Lemma vadd_xr : forall u v, vadd u v = xr u v.
Proof. reflexivity. Qed.

Lemma vzero_length : forall c, length (vzero c) = c.
Proof. intros. apply repeat_length. Qed.

Lemma vadd_length : forall c u v, length u = c -> length v = c -> length (vadd u v) = c.
Proof. intros c u v Hu Hv. rewrite vadd_xr, xr_length; congruence. Qed.

Lemma nth_vadd : forall c u v j, length u = c -> length v = c ->
  nth j (vadd u v) false = xorb (nth j u false) (nth j v false).
Proof. intros c u v j Hu Hv. rewrite vadd_xr. apply nth_xr. congruence. Qed.

Lemma nth_vzero : forall c j, nth j (vzero c) false = false.
Proof. intros. apply nth_repeat_false. Qed.

Lemma vec_ext : forall c (u v : list bool), length u = c -> length v = c ->
  (forall j, nth j u false = nth j v false) -> u = v.
Proof.
  intros c u v Hu Hv H. apply nth_ext with (d := false) (d' := false).
  - congruence.
  - intros j _. apply H.
Qed.

Lemma vadd_comm : forall u v, vadd u v = vadd v u.
Proof.
  unfold vadd. induction u as [|a u IH]; intros [|b v]; cbn [map2]; auto.
  rewrite IH. f_equal. apply xorb_comm.
Qed.

Lemma vadd_assoc : forall u v w, vadd (vadd u v) w = vadd u (vadd v w).
Proof. intros. rewrite !vadd_xr. apply xr_a. Qed.

Lemma vadd_self : forall c u, length u = c -> vadd u u = vzero c.
Proof. intros c u H. rewrite vadd_xr, xr_self, H. reflexivity. Qed.

Lemma vadd_zero_r : forall c u, length u = c -> vadd u (vzero c) = u.
Proof.
  intros c u H. apply (vec_ext c); auto.
  - apply vadd_length; auto. apply vzero_length.
  - intros j. rewrite (nth_vadd c) by (auto; apply vzero_length).
    rewrite nth_vzero. apply xorb_false_r.
Qed.

Lemma vadd_zero_l : forall c u, length u = c -> vadd (vzero c) u = u.
Proof. intros. rewrite vadd_comm. apply vadd_zero_r; auto. Qed.

Lemma vadd_invol : forall c u v, length u = c -> length v = c -> vadd (vadd u v) v = u.
Proof. intros c u v Hu Hv. rewrite !vadd_xr. apply xr_invol. congruence. Qed.

Lemma vadd_cancel : forall c u v, length u = c -> length v = c -> vadd u v = vzero c -> u = v.
Proof.
  intros c u v Hu Hv H.
  rewrite <- (vadd_invol c u v Hu Hv). rewrite H. apply vadd_zero_l; auto.
Qed.

(* ------------------------------------------------------------------ *)
(* rect                                                                *)
(* ------------------------------------------------------------------ *)

Lemma rect_nil : forall c, rect c [].
Proof. intros. constructor. Qed.

Lemma rect_cons : forall c r a, rect c (r :: a) <-> length r = c /\ rect c a.
Proof.
  intros c r a. unfold rect. split.
  - intros H. inversion_clear H. auto.
  - intros [H1 H2]. constructor; auto.
Qed.

Lemma rect_app : forall c a b, rect c (a ++ b) <-> rect c a /\ rect c b.
Proof. intros. unfold rect. apply Forall_app. Qed.

Lemma rect_In : forall c a r, rect c a -> In r a -> length r = c.
Proof. intros c a r H Hi. unfold rect in H. rewrite Forall_forall in H. auto. Qed.

(* ------------------------------------------------------------------ *)
(* lincomb                                                             *)
(* ------------------------------------------------------------------ *)

Lemma lincomb_length : forall c rows sel, rect c rows -> length (lincomb c sel rows) = c.
Proof.
  induction rows as [|r rows IH]; intros [|s sel] H; cbn [lincomb]; try apply vzero_length.
  apply rect_cons in H. destruct H as [Hr H].
  destruct s; auto. apply vadd_length; auto.
Qed.

Lemma lincomb_nil_l : forall c rows, lincomb c [] rows = vzero c.
Proof. reflexivity. Qed.

Lemma lincomb_nil_r : forall c sel, lincomb c sel [] = vzero c.
Proof. intros c [|s sel]; reflexivity. Qed.

Lemma lincomb_false : forall c n rows, lincomb c (repeat false n) rows = vzero c.
Proof.
  induction n as [|n IH]; intros [|r rows]; cbn [repeat lincomb]; auto.
Qed.

Lemma lincomb_vadd : forall c rows s1 s2, rect c rows ->
  length s1 = length rows -> length s2 = length rows ->
  lincomb c (map2 xorb s1 s2) rows = vadd (lincomb c s1 rows) (lincomb c s2 rows).
Proof.
  induction rows as [|r rows IH]; intros [|a s1] [|b s2] H H1 H2; cbn [length] in *; try lia.
  - cbn [map2 lincomb]. symmetry. apply vadd_self. apply vzero_length.
  - apply rect_cons in H. destruct H as [Hr H].
    cbn [map2 lincomb].
    assert (E := IH s1 s2 H ltac:(lia) ltac:(lia)).
    assert (L1 := lincomb_length c rows s1 H).
    assert (L2 := lincomb_length c rows s2 H).
    set (A := lincomb c s1 rows) in *. set (B := lincomb c s2 rows) in *.
    destruct a, b; cbn [xorb]; rewrite E.
    + apply (vec_ext c); repeat apply vadd_length; auto.
      intros j. rewrite !(nth_vadd c) by (repeat apply vadd_length; auto).
      destruct (nth j r false), (nth j A false), (nth j B false); reflexivity.
    + symmetry. apply vadd_assoc.
    + apply (vec_ext c); repeat apply vadd_length; auto.
      intros j. rewrite !(nth_vadd c) by (repeat apply vadd_length; auto).
      destruct (nth j r false), (nth j A false), (nth j B false); reflexivity.
    + reflexivity.
Qed.

Lemma lincomb_app : forall c r1 r2 s1 s2, rect c r1 -> rect c r2 -> length s1 = length r1 ->
  lincomb c (s1 ++ s2) (r1 ++ r2) = vadd (lincomb c s1 r1) (lincomb c s2 r2).
Proof.
  induction r1 as [|r r1 IH]; intros r2 [|a s1] s2 H1 H2 Hl; cbn [length] in *; try lia.
  - cbn [app lincomb]. symmetry. apply vadd_zero_l. apply lincomb_length; auto.
  - apply rect_cons in H1. destruct H1 as [Hr H1].
    cbn [app lincomb]. rewrite IH by (auto; lia).
    destruct a; auto. symmetry. apply vadd_assoc.
Qed.

(* ------------------------------------------------------------------ *)
(* all-false selectors                                                 *)
(* ------------------------------------------------------------------ *)

Lemma all_false_iff : forall (sel : list bool) n, length sel = n ->
  (sel = repeat false n <-> Forall (fun b => b = false) sel).
Proof.
  induction sel as [|b sel IH]; intros [|n] H; cbn [length] in *; try lia.
  - split; auto.
  - cbn [repeat]. split.
    + intros E. injection E as Eb E. constructor; auto. apply (IH n); auto.
    + intros E. inversion_clear E. f_equal; auto. apply IH; auto.
Qed.

(* ------------------------------------------------------------------ *)
(* span                                                                *)
(* ------------------------------------------------------------------ *)

Lemma in_span_length : forall c rows v, rect c rows -> in_span c rows v -> length v = c.
Proof. intros c rows v H [sel [_ E]]. subst v. apply lincomb_length; auto. Qed.

Lemma in_span_zero : forall c rows, in_span c rows (vzero c).
Proof.
  intros c rows. exists (repeat false (length rows)). split.
  - apply repeat_length.
  - apply lincomb_false.
Qed.

Lemma in_span_vadd : forall c rows u v, rect c rows ->
  in_span c rows u -> in_span c rows v -> in_span c rows (vadd u v).
Proof.
  intros c rows u v H [s1 [L1 E1]] [s2 [L2 E2]].
  exists (map2 xorb s1 s2). split.
  - rewrite map2_length; congruence.
  - rewrite lincomb_vadd; auto. congruence.
Qed.

Lemma in_span_cons_mono : forall c r rows v, in_span c rows v -> in_span c (r :: rows) v.
Proof.
  intros c r rows v [sel [L E]]. exists (false :: sel). split.
  - cbn [length]. lia.
  - exact E.
Qed.

Lemma in_span_head : forall c r rows, rect c (r :: rows) -> in_span c (r :: rows) r.
Proof.
  intros c r rows H. apply rect_cons in H. destruct H as [Hr H].
  exists (true :: repeat false (length rows)). split.
  - cbn [length]. rewrite repeat_length. reflexivity.
  - cbn [lincomb]. rewrite lincomb_false. apply vadd_zero_r; auto.
Qed.

Lemma in_span_In : forall c rows v, rect c rows -> In v rows -> in_span c rows v.
Proof.
  induction rows as [|r rows IH]; intros v H Hi.
  - destruct Hi.
  - destruct Hi as [->|Hi].
    + apply in_span_head; auto.
    + apply in_span_cons_mono. apply IH; auto. apply rect_cons in H. tauto.
Qed.

Lemma in_span_nth : forall c rows k, rect c rows -> k < length rows -> in_span c rows (nth k rows []).
Proof. intros. apply in_span_In; auto. apply nth_In; auto. Qed.

(* the span is closed under linear combinations *)
Lemma in_span_closed : forall c A B v, rect c B ->
  (forall r, In r A -> in_span c B r) -> in_span c A v -> in_span c B v.
Proof.
  intros c A B v HB. revert v.
  induction A as [|r A IH]; intros v HA [sel [L E]].
  - rewrite lincomb_nil_r in E. subst v. apply in_span_zero.
  - destruct sel as [|s sel]; cbn [length] in L; try lia.
    cbn [lincomb] in E.
    assert (HA' : forall r', In r' A -> in_span c B r') by (intros; apply HA; right; auto).
    assert (Ht : in_span c B (lincomb c sel A)).
    { apply IH; auto. exists sel. split; auto. }
    destruct s; subst v; auto.
    apply in_span_vadd; auto. apply HA. left; auto.
Qed.

Lemma same_span_refl : forall c a, same_span c a a.
Proof. intros c a v. tauto. Qed.

Lemma same_span_sym : forall c a b, same_span c a b -> same_span c b a.
Proof. intros c a b H v. symmetry. apply H. Qed.

Lemma same_span_trans : forall c a b d, same_span c a b -> same_span c b d -> same_span c a d.
Proof. intros c a b d H1 H2 v. rewrite (H1 v). apply H2. Qed.

Lemma same_span_of_rows : forall c A B, rect c A -> rect c B ->
  (forall r, In r A -> in_span c B r) -> (forall r, In r B -> in_span c A r) -> same_span c A B.
Proof.
  intros c A B HA HB H1 H2 v. split; intros H.
  - apply (in_span_closed c A B); auto.
  - apply (in_span_closed c B A); auto.
Qed.

(* the inductive span of Z2Facts is contained in in_span *)
Lemma span_in_span : forall m M v, rect m M -> span m M v -> in_span m M v.
Proof.
  intros m M v H Hs. induction Hs.
  - apply in_span_zero.
  - apply in_span_nth; auto.
  - rewrite <- vadd_xr. apply in_span_vadd; auto.
Qed.

(* ------------------------------------------------------------------ *)
(* independence                                                        *)
(* ------------------------------------------------------------------ *)

Lemma indep_iff : forall c rows, independent c rows <->
  (forall sel, length sel = length rows -> lincomb c sel rows = vzero c -> Forall (fun b => b = false) sel).
Proof.
  intros c rows. split; intros H sel L E.
  - apply (all_false_iff sel (length rows) L). apply H; auto.
  - apply (all_false_iff sel (length rows) L). apply H; auto.
Qed.

Lemma indep_nil : forall c, independent c [].
Proof. intros c sel L _. destruct sel; cbn [length] in L; try lia. reflexivity. Qed.

Lemma lincomb_middle : forall c u1 u2 x s1 s2 b, rect c u1 -> rect c u2 -> length x = c ->
  length s1 = length u1 ->
  lincomb c (s1 ++ b :: s2) (u1 ++ x :: u2) = lincomb c (b :: s1 ++ s2) (x :: u1 ++ u2).
Proof.
  intros c u1 u2 x s1 s2 b H1 H2 Hx L.
  rewrite lincomb_app; auto.
  2:{ apply rect_cons; auto. }
  cbn [lincomb]. rewrite lincomb_app; auto.
  assert (LA := lincomb_length c u1 s1 H1). assert (LB := lincomb_length c u2 s2 H2).
  set (A := lincomb c s1 u1) in *. set (B := lincomb c s2 u2) in *.
  destruct b; auto.
  apply (vec_ext c); repeat apply vadd_length; auto.
  intros j. rewrite !(nth_vadd c) by (repeat apply vadd_length; auto).
  destruct (nth j x false), (nth j A false), (nth j B false); reflexivity.
Qed.

Lemma indep_move_front : forall c u1 x u2, rect c (u1 ++ x :: u2) ->
  independent c (u1 ++ x :: u2) -> independent c (x :: u1 ++ u2).
Proof.
  intros c u1 x u2 Hr H. apply rect_app in Hr. destruct Hr as [H1 Hr].
  apply rect_cons in Hr. destruct Hr as [Hx H2].
  rewrite indep_iff in H. apply indep_iff.
  intros sel L E. destruct sel as [|b s]; cbn [length] in L; try lia.
  rewrite app_length in L.
  assert (Es : s = firstn (length u1) s ++ skipn (length u1) s) by (symmetry; apply firstn_skipn).
  set (s1 := firstn (length u1) s) in *. set (s2 := skipn (length u1) s) in *.
  assert (L1 : length s1 = length u1).
  { unfold s1. rewrite firstn_length. lia. }
  rewrite Es in E. rewrite <- lincomb_middle in E; auto.
  apply H in E.
  - apply Forall_app in E. destruct E as [E1 E2]. inversion_clear E2.
    constructor; auto. rewrite Es. apply Forall_app. auto.
  - rewrite !app_length. cbn [length].
    assert (length s = length s1 + length s2) by (rewrite Es at 1; apply app_length).
    lia.
Qed.

Lemma split_cases : forall (A : Type) (P Q : A -> Prop) l, (forall v, In v l -> P v \/ Q v) ->
  Forall P l \/ exists l1 v l2, l = l1 ++ v :: l2 /\ Q v.
Proof.
  induction l as [|a l IH]; intros H.
  - left. constructor.
  - destruct (H a (or_introl eq_refl)) as [Ha|Ha].
    + destruct IH as [IH|[l1 [v [l2 [E Q']]]]].
      * intros v Hv. apply H. right; auto.
      * left. constructor; auto.
      * right. exists (a :: l1), v, l2. split; auto. rewrite E. reflexivity.
    + right. exists [], a, l. split; auto.
Qed.

Lemma in_span_cons_cases : forall c x w v, in_span c (x :: w) v ->
  in_span c w v \/ exists t, in_span c w t /\ v = vadd x t.
Proof.
  intros c x w v [sel [L E]]. destruct sel as [|s sel]; cbn [length] in L; try lia.
  cbn [lincomb] in E.
  assert (Ht : in_span c w (lincomb c sel w)) by (exists sel; split; auto; lia).
  destruct s.
  - right. exists (lincomb c sel w). auto.
  - left. subst v. auto.
Qed.

Lemma F2_length : forall (A B : Type) (R : A -> B -> Prop) l1 l2, Forall2 R l1 l2 -> length l1 = length l2.
Proof. intros A B R l1 l2 H. induction H; cbn [length]; auto. Qed.

Definition red_rel (c : nat) (w : list (list bool)) (v v' v'' : list bool) : Prop :=
  in_span c w v'' /\ (v'' = v' \/ v'' = vadd v' v).

Lemma reduce_family : forall c w x v t0 u, rect c w -> length x = c -> length v = c ->
  in_span c w t0 -> v = vadd x t0 ->
  (forall v', In v' u -> in_span c (x :: w) v') ->
  exists u'', Forall2 (red_rel c w v) u u''.
Proof.
  intros c w x v t0 u Hw Hx Hv Ht0 Ev.
  assert (Lt0 := in_span_length c w t0 Hw Ht0).
  induction u as [|v' u IH]; intros H.
  - exists []. constructor.
  - destruct IH as [u'' IH]. { intros; apply H; right; auto. }
    destruct (in_span_cons_cases c x w v' (H v' (or_introl eq_refl))) as [Hc|[t [Hc Et]]].
    + exists (v' :: u''). constructor; auto. split; auto.
    + exists (vadd v' v :: u''). constructor; auto. split; auto.
      assert (Lt := in_span_length c w t Hw Hc).
      replace (vadd v' v) with (vadd t t0).
      * apply in_span_vadd; auto.
      * subst v' v. apply (vec_ext c); repeat apply vadd_length; auto.
        intros j. rewrite !(nth_vadd c) by (repeat apply vadd_length; auto).
        destruct (nth j x false), (nth j t false), (nth j t0 false); reflexivity.
Qed.

Lemma red_lincomb : forall c w v u u'', rect c w -> length v = c -> rect c u ->
  Forall2 (red_rel c w v) u u'' ->
  forall sel, length sel = length u ->
  exists b : bool, lincomb c sel u'' = lincomb c (b :: sel) (v :: u).
Proof.
  intros c w v u u'' Hw Hv Hu HF. induction HF as [|v' v'' u u'' HR HF IH]; intros sel L.
  - exists false. destruct sel; reflexivity.
  - apply rect_cons in Hu. destruct Hu as [Hv' Hu].
    destruct sel as [|s sel]; cbn [length] in L; try lia.
    destruct (IH Hu sel ltac:(lia)) as [b' E].
    cbn [lincomb] in *.
    destruct s.
    2:{ exists b'. exact E. }
    rewrite E. destruct HR as [Hs [->| ->]].
    + exists b'. destruct b'; auto.
      assert (LA := lincomb_length c u sel Hu). set (A := lincomb c sel u) in *.
      apply (vec_ext c); repeat apply vadd_length; auto.
      intros j. rewrite !(nth_vadd c) by (repeat apply vadd_length; auto).
      destruct (nth j v false), (nth j v' false), (nth j A false); reflexivity.
    + exists (negb b').
      assert (LA := lincomb_length c u sel Hu). set (A := lincomb c sel u) in *.
      destruct b'; cbn [negb].
      * apply (vec_ext c); repeat apply vadd_length; auto.
        intros j. rewrite !(nth_vadd c) by (repeat apply vadd_length; auto).
        destruct (nth j v false), (nth j v' false), (nth j A false); reflexivity.
      * apply (vec_ext c); repeat apply vadd_length; auto.
        intros j. rewrite !(nth_vadd c) by (repeat apply vadd_length; auto).
        destruct (nth j v false), (nth j v' false), (nth j A false); reflexivity.
Qed.

Lemma red_rect : forall c w v u u'', rect c w -> Forall2 (red_rel c w v) u u'' -> rect c u''.
Proof.
  intros c w v u u'' Hw HF. induction HF as [|v' v'' u u'' HR HF IH].
  - apply rect_nil.
  - apply rect_cons. split; auto. destruct HR as [Hs _]. apply (in_span_length c w); auto.
Qed.

Lemma red_in_span : forall c w v u u'', Forall2 (red_rel c w v) u u'' ->
  forall r, In r u'' -> in_span c w r.
Proof.
  intros c w v u u'' HF. induction HF as [|v' v'' u u'' HR HF IH]; intros r Hi.
  - destruct Hi.
  - destruct Hi as [<-|Hi]; auto. destruct HR; auto.
Qed.

Lemma red_indep : forall c w v u u'', rect c w -> length v = c -> rect c u ->
  Forall2 (red_rel c w v) u u'' -> independent c (v :: u) -> independent c u''.
Proof.
  intros c w v u u'' Hw Hv Hu HF H.
  rewrite indep_iff in H. apply indep_iff. intros sel L E.
  assert (L' : length sel = length u) by (rewrite (F2_length _ _ _ _ _ HF); auto).
  destruct (red_lincomb c w v u u'' Hw Hv Hu HF sel L') as [b Eb].
  rewrite Eb in E. apply H in E.
  - inversion_clear E. auto.
  - cbn [length]. lia.
Qed.

(* an independent family inside the span of m vectors has at most m elements *)
Theorem indep_le_span : forall c u w, rect c u -> rect c w -> independent c u ->
  (forall v, In v u -> in_span c w v) -> length u <= length w.
Proof.
  intros c u w. revert u. induction w as [|x w IH]; intros u Hu Hw Hi Hs.
  - destruct u as [|v u]; auto. exfalso.
    assert (Ev : v = vzero c).
    { destruct (Hs v (or_introl eq_refl)) as [sel [_ E]]. rewrite lincomb_nil_r in E. auto. }
    specialize (Hi (true :: repeat false (length u))).
    cbn [length lincomb repeat] in Hi. rewrite repeat_length, lincomb_false in Hi.
    subst v. rewrite (vadd_self c) in Hi by apply vzero_length.
    specialize (Hi eq_refl eq_refl). discriminate Hi.
  - apply rect_cons in Hw. destruct Hw as [Hx Hw].
    destruct (split_cases _ (in_span c w) (fun v => exists t, in_span c w t /\ v = vadd x t) u) as [HP|HQ].
    + intros v Hv. apply in_span_cons_cases. auto.
    + rewrite Forall_forall in HP. cbn [length]. specialize (IH u Hu Hw Hi HP). lia.
    + destruct HQ as [u1 [v [u2 [Eu [t0 [Ht0 Ev]]]]]]. subst u.
      assert (Hi' := indep_move_front c u1 v u2 Hu Hi).
      apply rect_app in Hu. destruct Hu as [Hu1 Hu]. apply rect_cons in Hu. destruct Hu as [Hv Hu2].
      assert (Hu' : rect c (u1 ++ u2)) by (apply rect_app; auto).
      destruct (reduce_family c w x v t0 (u1 ++ u2) Hw Hx Hv Ht0 Ev) as [u'' HF].
      { intros v' Hv'. apply Hs. apply in_app_iff in Hv'. apply in_app_iff.
        destruct Hv'; auto. right; right; auto. }
      assert (Hi'' := red_indep c w v _ u'' Hw Hv Hu' HF Hi').
      assert (Hr'' := red_rect c w v _ u'' Hw HF).
      specialize (IH u'' Hr'' Hw Hi'' (red_in_span c w v _ u'' HF)).
      rewrite <- (F2_length _ _ _ _ _ HF) in IH.
      rewrite app_length in *. cbn [length]. lia.
Qed.

(* dimension is well defined *)
Theorem basis_size_unique : forall c b1 b2, rect c b1 -> rect c b2 ->
  independent c b1 -> independent c b2 -> same_span c b1 b2 -> length b1 = length b2.
Proof.
  intros c b1 b2 H1 H2 I1 I2 S.
  assert (length b1 <= length b2).
  { apply (indep_le_span c); auto. intros v Hv. apply S. apply in_span_In; auto. }
  assert (length b2 <= length b1).
  { apply (indep_le_span c); auto. intros v Hv. apply S. apply in_span_In; auto. }
  lia.
Qed.

(* ------------------------------------------------------------------ *)
(* echelon families are independent                                    *)
(* ------------------------------------------------------------------ *)

Inductive echelon : list (list bool) -> Prop :=
| ech_nil : echelon []
| ech_cons : forall r rest p, nth p r false = true ->
    Forall (fun r' => nth p r' false = false) rest -> echelon rest -> echelon (r :: rest).

Lemma lincomb_col_zero : forall c p rows sel, rect c rows ->
  Forall (fun r' => nth p r' false = false) rows -> nth p (lincomb c sel rows) false = false.
Proof.
  induction rows as [|r rows IH]; intros [|s sel] Hr HF; cbn [lincomb]; try apply nth_vzero.
  apply rect_cons in Hr. destruct Hr as [Hr Hrows]. inversion_clear HF as [|? ? H1 H2].
  destruct s; auto.
  rewrite (nth_vadd c) by (auto; apply lincomb_length; auto).
  rewrite H1, IH; auto.
Qed.

Lemma echelon_independent : forall c rows, rect c rows -> echelon rows -> independent c rows.
Proof.
  intros c rows Hr He. apply indep_iff. induction He as [|r rest p Hp HF He IH]; intros sel L E.
  - destruct sel; cbn [length] in L; try lia. constructor.
  - apply rect_cons in Hr. destruct Hr as [Hr Hrest].
    destruct sel as [|s sel]; cbn [length] in L; try lia.
    cbn [lincomb] in E. destruct s.
    + exfalso.
      assert (E' : nth p (vadd r (lincomb c sel rest)) false = nth p (vzero c) false) by (rewrite E; auto).
      rewrite (nth_vadd c) in E' by (auto; apply lincomb_length; auto).
      rewrite Hp, lincomb_col_zero, nth_vzero in E' by auto. discriminate E'.
    + constructor; auto; apply IH; auto.
Qed.

Lemma echelon_firstn : forall r M, r <= length M ->
  (forall k, k < r -> exists p, bget M k p = true /\ forall k', k < k' -> k' < r -> bget M k' p = false) ->
  echelon (firstn r M).
Proof.
  induction r as [|r IH]; intros M L H.
  - cbn [firstn]. constructor.
  - destruct M as [|row0 M]; cbn [length] in L; try lia.
    cbn [firstn].
    destruct (H 0 ltac:(lia)) as [p [Hp Hz]].
    apply (ech_cons row0 (firstn r M) p).
    + exact Hp.
    + apply Forall_forall. intros x Hx.
      destruct (In_nth _ _ [] Hx) as [k' [Hk' Ex]].
      rewrite firstn_length in Hk'.
      rewrite nth_firstn_lt in Ex by lia. subst x.
      apply (Hz (S k')); lia.
    + apply IH. lia.
      intros k Hk. destruct (H (S k) ltac:(lia)) as [q [Hq Hqz]].
      exists q. split.
      * exact Hq.
      * intros k' H1 H2. apply (Hqz (S k')); lia.
Qed.

(* ------------------------------------------------------------------ *)
(* wf <-> rect                                                         *)
(* ------------------------------------------------------------------ *)

Lemma wf_rect : forall n c M, wf n c M -> rect c M.
Proof.
  intros n c M [Hl Hr]. apply Forall_forall. intros x Hx.
  destruct (In_nth _ _ [] Hx) as [k [Hk Ex]]. subst x. apply Hr. lia.
Qed.

Lemma rect_wf : forall c a, rect c a -> wf (length a) c a.
Proof.
  intros c a H. split; auto. intros k Hk. apply (rect_In c a); auto. apply nth_In; auto.
Qed.

Lemma rect_firstn : forall c n a, rect c a -> rect c (firstn n a).
Proof.
  intros c n a H. rewrite <- (firstn_skipn n a) in H. apply rect_app in H. tauto.
Qed.

Lemma In_firstn_In : forall (A : Type) n (l : list A) x, In x (firstn n l) -> In x l.
Proof.
  intros A n l x H. rewrite <- (firstn_skipn n l). apply in_app_iff. auto.
Qed.

(* ------------------------------------------------------------------ *)
(* invariant of the rank loop                                          *)
(* ------------------------------------------------------------------ *)

Definition ZR (M : bmat) (nr r i : nat) : Prop :=
  forall k j, r <= k -> k < nr -> j < i -> bget M k j = false.
Definition EC (M : bmat) (nr r : nat) : Prop :=
  forall k, k < r -> exists p, bget M k p = true /\ forall k', k < k' -> k' < nr -> bget M k' p = false.
Definition RInv (nr c : nat) (M0 M : bmat) (r i : nat) : Prop :=
  wf nr c M /\ r <= nr /\ sub c M0 M /\ sub c M M0 /\ ZR M nr r i /\ EC M nr r.

Lemma ZR_prefix : forall nr c M r i k, wf nr c M -> ZR M nr r i -> r <= k -> k < nr -> i <= c ->
  firstn i (nth k M []) = repeat false i.
Proof.
  intros nr c M r i k [Hl Hrow] HZ H1 H2 H3. apply zero_prefix.
  - rewrite Hrow; auto.
  - intros j Hj. apply (HZ k j); auto.
Qed.

Lemma mem_seq_rows : forall r nr k, S r <= k -> k < nr -> mem k (seq (S r) (nr - S r)) = true.
Proof. intros. apply mem_seq_true. lia. Qed.

Lemma mem_seq_rows_false : forall r nr k, k <= r -> mem k (seq (S r) (nr - S r)) = false.
Proof.
  intros. apply not_true_is_false. intros E. apply mem_seq_true in E. lia.
Qed.

Lemma step_elim : forall nr c M0 M r i, RInv nr c M0 M r i -> r < nr -> i < c -> bget M r i = true ->
  RInv nr c M0 (elim_rows M i r (seq (S r) (nr - S r))) (S r) (S i).
Proof.
  intros nr c M0 M r i [Hwf [Hr [Hs1 [Hs2 [HZ HE]]]]] Hrn Hic Hp.
  set (js := seq (S r) (nr - S r)).
  destruct (elim_step nr c M i r js Hwf Hrn) as [Hwf' [Hnth [Ht1 Ht2]]].
  - intros H. apply in_seq in H. lia.
  - apply seq_NoDup.
  - intros j Hj. apply in_seq in Hj. lia.
  - apply (ZR_prefix nr c M r i r); auto; lia.
  - set (M' := elim_rows M i r js) in *.
    assert (Hb : forall k j, k < nr -> bget M' k j =
       if mem k js && bget M k i then xorb (bget M k j) (bget M r j) else bget M k j).
    { intros k j Hk. apply (elim_bget nr c); auto. }
    assert (HZ' : ZR M' nr (S r) (S i)).
    { intros k j H1 H2 H3. rewrite Hb by auto. unfold js. rewrite mem_seq_rows by lia. cbn [andb].
      destruct (Nat.eq_dec j i) as [->|Hji].
      - destruct (bget M k i) eqn:E; auto. rewrite Hp. reflexivity.
      - assert (E1 : bget M k j = false) by (apply HZ; lia).
        assert (E2 : bget M r j = false) by (apply HZ; lia).
        rewrite E1, E2. destruct (bget M k i); reflexivity. }
    split; [|split; [|split; [|split; [|split]]]]; auto.
    + apply (sub_trans c _ M); auto.
    + apply (sub_trans c _ M); auto.
    + intros k Hk. destruct (Nat.eq_dec k r) as [->|Hkr].
      * exists i. split.
        -- rewrite Hb by auto. unfold js. rewrite mem_seq_rows_false by lia. exact Hp.
        -- intros k' H1 H2. apply HZ'; lia.
      * destruct (HE k ltac:(lia)) as [p [Hpk Hpz]]. exists p. split.
        -- rewrite Hb by lia. unfold js. rewrite mem_seq_rows_false by lia. exact Hpk.
        -- intros k' H1 H2. rewrite Hb by auto.
           rewrite (Hpz k') by lia. rewrite (Hpz r) by lia.
           destruct (mem k' js && bget M k' i); reflexivity.
Qed.

Lemma step_swap : forall nr c M0 M r i k, RInv nr c M0 M r i -> r < k -> k < nr -> i <= c ->
  bget M k i = true ->
  RInv nr c M0 (swap_from M i r k) r i /\ bget (swap_from M i r k) r i = true.
Proof.
  intros nr c M0 M r i k [Hwf [Hr [Hs1 [Hs2 [HZ HE]]]]] Hrk Hkn Hic Hp.
  destruct (swap_step nr c M i r k Hwf Hrk Hkn) as [Hwf' [Hi' [Hk' [Ho [Ht1 Ht2]]]]].
  - rewrite (ZR_prefix nr c M r i r), (ZR_prefix nr c M r i k); auto; lia.
  - set (M' := swap_from M i r k) in *.
    split.
    2:{ unfold bget. rewrite Hi'. exact Hp. }
    split; [|split; [|split; [|split; [|split]]]]; auto.
    + apply (sub_trans c _ M); auto.
    + apply (sub_trans c _ M); auto.
    + intros k0 j H1 H2 H3. unfold bget.
      destruct (Nat.eq_dec k0 r) as [->|Hne1]; [rewrite Hi'; apply (HZ k j); lia|].
      destruct (Nat.eq_dec k0 k) as [->|Hne2]; [rewrite Hk'; apply (HZ r j); lia|].
      rewrite Ho by auto. apply (HZ k0 j); lia.
    + intros k0 Hk0. destruct (HE k0 Hk0) as [p [Hpk Hpz]]. exists p. split.
      * unfold bget. rewrite Ho by lia. exact Hpk.
      * intros k' H1 H2. unfold bget.
        destruct (Nat.eq_dec k' r) as [->|Hne1]; [rewrite Hi'; apply (Hpz k); lia|].
        destruct (Nat.eq_dec k' k) as [->|Hne2]; [rewrite Hk'; apply (Hpz r); lia|].
        rewrite Ho by auto. apply (Hpz k'); lia.
Qed.

Lemma step_none : forall nr c M0 M r i, RInv nr c M0 M r i -> bget M r i = false ->
  (forall k, S r <= k < S r + (nr - S r) -> bget M k i = false) ->
  RInv nr c M0 M r (S i).
Proof.
  intros nr c M0 M r i [Hwf [Hr [Hs1 [Hs2 [HZ HE]]]]] Hp Hnone.
  split; [|split; [|split; [|split; [|split]]]]; auto.
  intros k j H1 H2 H3.
  destruct (Nat.eq_dec j i) as [->|Hji].
  - destruct (Nat.eq_dec k r) as [->|Hkr]; auto. apply Hnone. lia.
  - apply HZ; lia.
Qed.

Lemma rank_inv : forall len nr c M0 i M r, i + len = c -> RInv nr c M0 M r i ->
  exists M', wf nr c M' /\ z2rank_cols M nr r (seq i len) <= nr /\ sub c M0 M' /\ sub c M' M0 /\
     EC M' nr (z2rank_cols M nr r (seq i len)) /\
     (z2rank_cols M nr r (seq i len) = nr \/ ZR M' nr (z2rank_cols M nr r (seq i len)) c).
Proof.
  induction len as [|len IH]; intros nr c M0 i M r Hil HI.
  - cbn [seq z2rank_cols]. assert (i = c) by lia. subst i.
    destruct HI as [Hwf [Hr [Hs1 [Hs2 [HZ HE]]]]]. exists M. tauto.
  - cbn [seq z2rank_cols].
    destruct (Nat.eqb r nr) eqn:Ern.
    + apply Nat.eqb_eq in Ern. destruct HI as [Hwf [Hr [Hs1 [Hs2 [HZ HE]]]]]. exists M. tauto.
    + apply Nat.eqb_neq in Ern.
      assert (Hrn : r < nr) by (destruct HI as [_ [Hr _]]; lia).
      destruct (bget M r i) eqn:Ep.
      * apply (IH nr c M0 (S i)); [lia|]. apply step_elim; auto. lia.
      * destruct (find_pivot M i (S r) (nr - S r)) as [k|] eqn:Efp.
        -- apply find_pivot_some in Efp. destruct Efp as [Hk Hpk].
           destruct (step_swap nr c M0 M r i k HI) as [HI1 Hp1]; auto; try lia.
           apply (IH nr c M0 (S i)); [lia|]. apply step_elim; auto. lia.
        -- apply (IH nr c M0 (S i)); [lia|]. apply step_none; auto.
           apply find_pivot_none; auto.
Qed.

Lemma RInv_init : forall c a, rect c a -> RInv (length a) c a a 0 0.
Proof.
  intros c a H. split; [|split; [|split; [|split; [|split]]]].
  - apply rect_wf; auto.
  - lia.
  - apply sub_refl.
  - apply sub_refl.
  - intros k j _ _ Hj. lia.
  - intros k Hk. lia.
Qed.

Lemma sub_rows_in_span : forall c A B, rect c B -> sub c A B -> forall r, In r A -> in_span c B r.
Proof.
  intros c A B HB Hs r Hr. destruct (In_nth _ _ [] Hr) as [k [Hk E]]. subst r.
  apply span_in_span; auto.
Qed.

Lemma zero_row : forall c (u : list bool), length u = c -> (forall j, j < c -> nth j u false = false) -> u = vzero c.
Proof.
  intros c u L H. apply (vec_ext c); auto. apply vzero_length.
  intros j. rewrite nth_vzero. destruct (Nat.lt_ge_cases j c) as [Hj|Hj]; auto.
  apply nth_overflow. lia.
Qed.

(* the algorithm returns the size of a basis of the row space *)
Theorem z2rank_basis : forall c a, rect c a -> ncols a = c \/ a = [] ->
   exists basis, length basis = z2rank a /\ rect c basis /\ independent c basis /\ same_span c basis a.
Proof.
  intros c a Ha Hc. destruct Hc as [Hc| ->].
  2:{ exists []. split; [reflexivity|]. split; [apply rect_nil|]. split; [apply indep_nil|apply same_span_refl]. }
  unfold z2rank. rewrite Hc.
  destruct (rank_inv c (length a) c a 0 a 0 ltac:(lia) (RInv_init c a Ha))
    as [M' [Hwf [Hr [Hs1 [Hs2 [HE Hend]]]]]].
  set (r' := z2rank_cols a (length a) 0 (seq 0 c)) in *.
  assert (HM' : rect c M') by (apply (wf_rect (length a)); auto).
  destruct Hwf as [Hl Hrow].
  exists (firstn r' M').
  split; [|split; [|split]].
  - rewrite firstn_length. lia.
  - apply rect_firstn; auto.
  - apply echelon_independent. apply rect_firstn; auto.
    apply echelon_firstn. lia.
    intros k Hk. destruct (HE k Hk) as [p [Hp Hz]]. exists p. split; auto.
    intros k' H1 H2. apply Hz; lia.
  - apply (same_span_trans c _ M').
    + apply same_span_of_rows; auto. apply rect_firstn; auto.
      * intros r Hr0. apply in_span_In; auto. apply (In_firstn_In _ r'); auto.
      * intros r Hr0. destruct (In_nth _ _ [] Hr0) as [k [Hk E]]. subst r.
        destruct (Nat.lt_ge_cases k r') as [Hkr|Hkr].
        -- apply in_span_In. apply rect_firstn; auto.
           rewrite <- (nth_firstn_lt _ r' M' k []) by auto.
           apply nth_In. rewrite firstn_length. lia.
        -- destruct Hend as [Hend|Hend]; [lia|].
           rewrite (zero_row c (nth k M' [])).
           ++ apply in_span_zero.
           ++ apply Hrow. lia.
           ++ intros j Hj. apply (Hend k j); lia.
    + apply same_span_of_rows; auto.
      * apply (sub_rows_in_span c M' a); auto.
      * apply (sub_rows_in_span c a M'); auto.
Qed.

(* ------------------------------------------------------------------ *)
(* the rank depends only on the row space                              *)
(* ------------------------------------------------------------------ *)

Lemma rect_ncols : forall c a, rect c a -> ncols a = c \/ a = [].
Proof.
  intros c [|r a] H; auto. left. apply rect_cons in H. cbn [ncols]. tauto.
Qed.

(* general form: no non-emptiness hypotheses are needed *)
Theorem z2rank_span_invariant_gen : forall c a b, rect c a -> rect c b ->
  same_span c a b -> z2rank a = z2rank b.
Proof.
  intros c a b Ha Hb S.
  destruct (z2rank_basis c a Ha (rect_ncols c a Ha)) as [ba [La [Ra [Ia Sa]]]].
  destruct (z2rank_basis c b Hb (rect_ncols c b Hb)) as [bb [Lb [Rb [Ib Sb]]]].
  rewrite <- La, <- Lb. apply (basis_size_unique c); auto.
  apply (same_span_trans c _ a); auto. apply (same_span_trans c _ b); auto.
  apply same_span_sym; auto.
Qed.

Theorem z2rank_span_invariant : forall c a b, rect c a -> rect c b -> a <> [] -> b <> [] ->
  same_span c a b -> z2rank a = z2rank b.
Proof. intros c a b Ha Hb _ _ S. apply (z2rank_span_invariant_gen c); auto. Qed.

Lemma sel_cases : forall sel : list bool,
  Forall (fun b => b = false) sel \/ exists s1 s2, sel = s1 ++ true :: s2.
Proof.
  induction sel as [|b sel IH].
  - left. constructor.
  - destruct b.
    + right. exists [], sel. reflexivity.
    + destruct IH as [IH|[s1 [s2 E]]].
      * left. constructor; auto.
      * right. exists (false :: s1), s2. rewrite E. reflexivity.
Qed.

(* a family whose span has dimension equal to its size is independent *)
Lemma full_dim_independent : forall c a basis, rect c a -> rect c basis -> independent c basis ->
  same_span c basis a -> length basis = length a -> independent c a.
Proof.
  intros c a basis Ha Hb Ib HS Hlen. apply indep_iff. intros sel L E.
  destruct (sel_cases sel) as [HF|[s1 [s2 Es]]]; auto. exfalso.
  subst sel. rewrite app_length in L. cbn [length] in L.
  assert (Ea : a = firstn (length s1) a ++ skipn (length s1) a) by (symmetry; apply firstn_skipn).
  set (a1 := firstn (length s1) a) in *.
  assert (L1 : length s1 = length a1) by (unfold a1; rewrite firstn_length; lia).
  assert (L2 : length (skipn (length s1) a) = S (length s2)) by (rewrite skipn_length; lia).
  destruct (skipn (length s1) a) as [|x a2]; cbn [length] in L2; try lia.
  rewrite Ea in Ha. apply rect_app in Ha. destruct Ha as [Ha1 Ha2].
  apply rect_cons in Ha2. destruct Ha2 as [Hx Ha2].
  assert (Ha' : rect c (a1 ++ a2)) by (apply rect_app; auto).
  rewrite Ea in E. rewrite lincomb_middle in E; auto. cbn [lincomb] in E.
  apply (vadd_cancel c) in E; auto.
  2:{ apply lincomb_length; auto. }
  assert (Hx' : in_span c (a1 ++ a2) x).
  { exists (s1 ++ s2). split; auto. rewrite !app_length. lia. }
  assert (Hle : length basis <= length (a1 ++ a2)).
  { apply (indep_le_span c); auto. intros v Hv.
    apply (in_span_closed c a); auto.
    - intros r Hr. rewrite Ea in Hr. apply in_app_iff in Hr. destruct Hr as [Hr|[Hr|Hr]].
      + apply in_span_In; auto. apply in_app_iff; auto.
      + subst r. exact Hx'.
      + apply in_span_In; auto. apply in_app_iff; auto.
    - apply HS. apply in_span_In; auto. }
  rewrite Hlen in Hle. rewrite Ea in Hle. rewrite !app_length in Hle. cbn [length] in Hle. lia.
Qed.

Theorem z2rank_full_iff_independent_gen : forall c a, rect c a ->
  (z2rank a = length a <-> independent c a).
Proof.
  intros c a Ha.
  destruct (z2rank_basis c a Ha (rect_ncols c a Ha)) as [ba [La [Ra [Ia Sa]]]].
  split; intros H.
  - apply (full_dim_independent c a ba); auto. congruence.
  - rewrite <- La. apply (basis_size_unique c); auto.
Qed.

Theorem z2rank_full_iff_independent : forall c a, rect c a -> a <> [] ->
  (z2rank a = length a <-> independent c a).
Proof. intros c a Ha _. apply z2rank_full_iff_independent_gen; auto. Qed.

(* ------------------------------------------------------------------ *)
(* consequences for the entropy kernel (reference formula)             *)
(* ------------------------------------------------------------------ *)

Lemma map_negb_repeat : forall b n, map negb (repeat b n) = repeat (negb b) n.
Proof. induction n as [|n IH]; cbn [repeat map]; auto. rewrite IH. reflexivity. Qed.

Lemma gather_all_true : forall (A : Type) n (l : list A), length l <= n -> gather (repeat true n) l = l.
Proof.
  induction n as [|n IH]; intros [|a l] H; cbn [repeat gather length] in *; auto; try lia.
  rewrite IH by lia. reflexivity.
Qed.

Lemma gather_all_false : forall (A : Type) n (l : list A), gather (repeat false n) l = [].
Proof.
  induction n as [|n IH]; intros [|a l]; cbn [repeat gather]; auto.
Qed.

Lemma count_true_all_false : forall n, count_true (repeat false n) = 0.
Proof. unfold count_true. induction n as [|n IH]; cbn [repeat filter length]; auto. Qed.

Lemma count_true_all_true : forall n, count_true (repeat true n) = n.
Proof. unfold count_true. induction n as [|n IH]; cbn [repeat filter length]; auto. Qed.

Lemma flat_length : forall g, length (flat g) = 2 * length g.
Proof.
  induction g as [|[x z] g IH]; cbn [flat length]; auto. rewrite IH. lia.
Qed.

Lemma gather_length : forall (A : Type) (m : list bool) (l : list A), length l = length m ->
  length (gather m l) = count_true m.
Proof.
  unfold count_true. induction m as [|b m IH]; intros [|a l] H; cbn [length] in H; try lia.
  - reflexivity.
  - destruct b; cbn [gather filter length]; rewrite IH by lia; reflexivity.
Qed.

Lemma z2rank_no_cols : forall a, ncols a = 0 -> z2rank a = 0.
Proof. intros a H. unfold z2rank. rewrite H. reflexivity. Qed.

(* (a) empty region: mask all false (n at least the length of every generator) *)
Theorem entropy_ref_empty_gen : forall gs n, (forall g, In g gs -> length g <= n) ->
  entropy_ref gs (repeat false n) = (Z.of_nat (z2rank (map flat gs)) - Z.of_nat (length gs))%Z.
Proof.
  intros gs n H. unfold entropy_ref.
  rewrite count_true_all_false, map_negb_repeat. cbn [negb].
  rewrite (map_ext_in _ flat).
  - unfold pstr in *. lia.
  - intros g Hg. rewrite gather_all_true; auto.
Qed.

Theorem entropy_ref_empty : forall gs,
  (forall g, In g gs -> length g = match gs with g0 :: _ => length g0 | [] => 0 end) ->
  entropy_ref gs (repeat false (match gs with g0 :: _ => length g0 | [] => 0 end)) =
  (Z.of_nat (z2rank (map flat gs)) - Z.of_nat (length gs))%Z.
Proof.
  intros gs H. apply entropy_ref_empty_gen. intros g Hg. rewrite (H g Hg). lia.
Qed.

Lemma flat_rect : forall gs n, (forall g, In g gs -> length g = n) -> rect (2 * n) (map flat gs).
Proof.
  intros gs n H. apply Forall_forall. intros r Hr. apply in_map_iff in Hr.
  destruct Hr as [g [<- Hg]]. rewrite flat_length, (H g Hg). reflexivity.
Qed.

(* ... so it vanishes iff the generators are linearly independent *)
Theorem entropy_ref_empty_zero_iff : forall gs n, (forall g, In g gs -> length g = n) ->
  (entropy_ref gs (repeat false n) = 0%Z <-> independent (2 * n) (map flat gs)).
Proof.
  intros gs n H. rewrite entropy_ref_empty_gen.
  2:{ intros g Hg. rewrite (H g Hg). lia. }
  rewrite <- (z2rank_full_iff_independent_gen (2 * n) (map flat gs) (flat_rect gs n H)).
  rewrite map_length. unfold pstr in *. lia.
Qed.

(* (b) full region: mask all true; the complement has no columns *)
Theorem entropy_ref_full : forall gs n,
  entropy_ref gs (repeat true n) = (Z.of_nat n - Z.of_nat (length gs))%Z.
Proof.
  intros gs n. unfold entropy_ref.
  rewrite count_true_all_true, map_negb_repeat. cbn [negb].
  rewrite z2rank_no_cols.
  - unfold pstr in *. lia.
  - destruct gs as [|g gs]; cbn [map ncols]; auto. rewrite gather_all_false. reflexivity.
Qed.

(* the restriction of the generators to the complement of the region *)
Definition restrict_compl (m : list bool) (gs : list pstr) : bmat :=
  map (fun g => flat (gather (map negb m) g)) gs.

Lemma restrict_compl_rect : forall m gs, (forall g, In g gs -> length g = length m) ->
  rect (2 * count_true (map negb m)) (restrict_compl m gs).
Proof.
  intros m gs H. apply Forall_forall. intros r Hr. apply in_map_iff in Hr.
  destruct Hr as [g [<- Hg]]. rewrite flat_length, gather_length; auto.
  rewrite map_length. auto.
Qed.

Lemma entropy_ref_restrict : forall gs m,
  entropy_ref gs m = (Z.of_nat (count_true m) - Z.of_nat (length gs) + Z.of_nat (z2rank (restrict_compl m gs)))%Z.
Proof. reflexivity. Qed.

(* (c) the value depends on the generators only through the span of their restriction to the
   complement, and through their number *)
Theorem entropy_ref_span_invariant_gen : forall c gs1 gs2 m,
  rect c (restrict_compl m gs1) -> rect c (restrict_compl m gs2) ->
  same_span c (restrict_compl m gs1) (restrict_compl m gs2) ->
  (entropy_ref gs1 m + Z.of_nat (length gs1) = entropy_ref gs2 m + Z.of_nat (length gs2))%Z.
Proof.
  intros c gs1 gs2 m H1 H2 S. rewrite !entropy_ref_restrict.
  rewrite (z2rank_span_invariant_gen c _ _ H1 H2 S). unfold pstr in *. lia.
Qed.

Theorem entropy_ref_span_invariant : forall c gs1 gs2 m,
  rect c (restrict_compl m gs1) -> rect c (restrict_compl m gs2) ->
  same_span c (restrict_compl m gs1) (restrict_compl m gs2) ->
  length gs1 = length gs2 ->
  entropy_ref gs1 m = entropy_ref gs2 m.
Proof.
  intros c gs1 gs2 m H1 H2 S L.
  assert (E := entropy_ref_span_invariant_gen c gs1 gs2 m H1 H2 S). unfold pstr in *. lia.
Qed.

(* same, with the shape hypotheses discharged from the generator lengths *)
Corollary entropy_ref_span_invariant_len : forall gs1 gs2 m,
  (forall g, In g gs1 -> length g = length m) -> (forall g, In g gs2 -> length g = length m) ->
  same_span (2 * count_true (map negb m)) (restrict_compl m gs1) (restrict_compl m gs2) ->
  length gs1 = length gs2 ->
  entropy_ref gs1 m = entropy_ref gs2 m.
Proof.
  intros gs1 gs2 m H1 H2 S L.
  apply (entropy_ref_span_invariant (2 * count_true (map negb m))); auto; apply restrict_compl_rect; auto.
Qed.

(* the mixed-state branch of the implementation is the reference formula *)
Lemma entropy_of_mixed_ref : forall n gs m, length gs <> n -> entropy_of n gs m = entropy_ref gs m.
Proof.
  intros n gs m H. unfold entropy_of, entropy_ref.
  apply Nat.eqb_neq in H. rewrite H. unfold pstr in *. lia.
Qed.
