(* Model/Dispatch.v -- a universal value type and a by-name dispatcher, so that the
   correspondence check can drive every model function through one entry point
   (extracted to OCaml, or evaluated inside Coq with vm_compute on the same text).
   Definitions only. *)
From Coq Require Import String.
From Coq Require Import QArith Qcanon.
From PC Require Export Model.Circuit Model.Entropy Model.Parse Model.Random Model.Diag Model.Index Model.Poly Model.Sample Model.Sbrg.
Open Scope Z_scope.

Inductive val := VZ (z : Z) | VL (l : list val) | VE (code : Z).

Fixpoint val_eqb (a b : val) : bool :=
  match a, b with
  | VZ x, VZ y => Z.eqb x y
  | VE x, VE y => Z.eqb x y
  | VL l, VL m =>
      (fix go (l m : list val) : bool :=
         match l, m with [], [] => true | x :: l', y :: m' => val_eqb x y && go l' m' | _, _ => false end) l m
  | _, _ => false
  end.

(* ---- decoders (total; malformed input decodes to defaults) ---- *)
Definition dZ (v : val) : Z := match v with VZ z => z | _ => 0 end.
Definition dN (v : val) : nat := Z.to_nat (dZ v).
Definition dB (v : val) : bool := bz (dZ v).
Definition dL {A} (f : val -> A) (v : val) : list A := match v with VL l => map f l | _ => [] end.
Definition dOpt {A} (f : val -> A) (v : val) : option A :=
  match v with VL (x :: _) => Some (f x) | _ => None end.
Definition dStr (v : val) : pstr := unflat (dL dB v).
Definition dPauli (v : val) : pauli :=
  match v with VL [g; p] => (dStr g, dZ p) | _ => ([], 0) end.
Definition dPlist := dL dPauli.
Definition dMask := dL dB.
Definition dTab (v : val) : tableau :=
  match v with VL [l; r] => {| rows := dPlist l; rk := dN r |} | _ => {| rows := []; rk := 0 |} end.
Definition dBmat (v : val) : bmat := dL (dL dB) v.
Definition dGate (v : val) : gate :=
  match v with
  | VL [qs; VL [VZ 0; g]] => {| gq := dL dN qs; gk := GGen (dPauli g) |}
  | VL [qs; VL [VZ 1; f; b]] => {| gq := dL dN qs; gk := GMap (dOpt dPlist f) (dOpt dPlist b) |}
  | VL [qs; VL [VZ 2; nm]] =>
      match named_gate (dZ nm) (dL dN qs) with Some g => g | None => {| gq := dL dN qs; gk := GMap None None |} end
  | _ => {| gq := []; gk := GMap None None |}
  end.
Definition dInstr (v : val) : instr :=
  match v with
  | VL [VZ 0; g] => IGate (dGate g)
  | VL [VZ 1; qs] => IMeasure (dL dN qs)
  | _ => IMeasure []
  end.

(* coefficients: [[re_num re_den] [im_num im_den]] *)
Definition dQ (v : val) : Qc :=
  match v with VL [a; b] => Q2Qc (Qmake (dZ a) (Z.to_pos (dZ b))) | _ => Q2Qc 0 end.
Definition dCoef (v : val) : coef := match v with VL [a; b] => (dQ a, dQ b) | _ => c0 end.
Definition dTerm (v : val) : term := match v with VL [c; a] => (dCoef c, dPauli a) | _ => (c0, ([], 0)) end.
Definition dObj (v : val) : pobj :=
  match v with
  | VL [VZ 0; a] => OPauli (dPauli a)
  | VL [VZ 1; c; a] => OMono (dCoef c) (dPauli a)
  | VL [VZ 2; n; VL ts] => OPoly (dN n) (map dTerm ts)
  | VL [VZ 3; l] => OList (dPlist l)
  | VL [VZ 4; c] => ONum (dCoef c)
  | _ => OErr
  end.
(* ---- encoders ---- *)
Definition eB (b : bool) : val := VZ (zb b).
Definition eN (n : nat) : val := VZ (Z.of_nat n).
Definition eL {A} (f : A -> val) (l : list A) : val := VL (map f l).
Definition eOpt {A} (f : A -> val) (o : option A) : val := match o with Some a => VL [f a] | None => VL [] end.
Definition eStr (g : pstr) : val := eL eB (flat g).
Definition ePauli (a : pauli) : val := VL [eStr (fst a); VZ (snd a)].
Definition ePlist := eL ePauli.
Definition eTab (t : tableau) : val := VL [ePlist (rows t); eN (rk t)].
Definition eBmat (m : bmat) : val := eL (eL eB) m.
Definition eGateShape (g : gate) : val := eL eN (gq g).
Definition eLayers (c : list clayer) : val :=
  eL (fun x => match x with
               | CL l => VL [VZ 0; eL eGateShape (lgates l)]
               | ML q => VL [VZ 1; eL eN q] end) c.
Definition eQ (q : Qc) : val := VL [VZ (Qnum (this q)); VZ (Zpos (Qden (this q)))].
Definition eCoef (c : coef) : val := VL [eQ (fst c); eQ (snd c)].
Definition errNone : val := VE 1.        (* the code raises here *)
Definition eOptE {A} (f : A -> val) (o : option A) : val := match o with Some a => f a | None => errNone end.

Definition eObj (o : pobj) : val :=
  match o with
  | OPauli a => VL [VZ 0; ePauli a]
  | OMono c a => VL [VZ 1; eCoef c; ePauli a]
  | OPoly n p => VL [VZ 2; eN n; eL (fun t : term => VL [eCoef (fst t); ePauli (snd t)]) p]
  | OList l => VL [VZ 3; ePlist l]
  | ONum c => VL [VZ 4; eCoef c]
  | OErr => VE 1
  end.
(* expression trees: [0 obj] leaf | [1 e] neg | [2 c e] rmul | [3 e c] div | [4 e1 e2] add | [5 e1 e2] sub | [6 e1 e2] matmul | [7 e] reduce *)
Fixpoint eval_expr (fuel : nat) (tol2 : Qc) (v : val) : pobj :=
  match fuel with
  | O => OErr
  | S f =>
      match v with
      | VL [VZ 0; o] => dObj o
      | VL [VZ 1; e] => o_neg (eval_expr f tol2 e)
      | VL [VZ 2; c; e] => o_rmul (dCoef c) (eval_expr f tol2 e)
      | VL [VZ 3; e; c] => o_div (eval_expr f tol2 e) (dCoef c)
      | VL [VZ 4; a; b] => o_add tol2 (eval_expr f tol2 a) (eval_expr f tol2 b)
      | VL [VZ 5; a; b] => o_sub tol2 (eval_expr f tol2 a) (eval_expr f tol2 b)
      | VL [VZ 6; a; b] => o_matmul (eval_expr f tol2 a) (eval_expr f tol2 b)
      | VL [VZ 7; e] => o_reduce tol2 (eval_expr f tol2 e)
      | _ => OErr
      end
  end.
Local Open Scope string_scope.
Local Open Scope Z_scope.
Definition is (a b : string) : bool := String.eqb a b.

Definition arg (v : val) (k : nat) : val := match v with VL l => nth k l (VL []) | _ => VL [] end.

Definition run (name : string) (a : val) : val :=
  let a0 := arg a 0 in let a1 := arg a 1 in let a2 := arg a 2 in let a3 := arg a 3 in
  (* ---- Pauli kernels ---- *)
  if is name "acq" then VZ (acq (dStr a0) (dStr a1))
  else if is name "ipow" then VZ (ipow (dStr a0) (dStr a1))
  else if is name "p0" then VZ (p0 (dStr a0))
  else if is name "acq_mat" then eL (eL VZ) (acq_mat (dL dStr a0))
  else if is name "pmul" then ePauli (pmul (dPauli a0) (dPauli a1))
  else if is name "pmul_chain" then
         ePauli (match dPlist a0 with [] => pid 0 | x :: r => fold_left pmul r x end)
  else if is name "batch_mul" then ePlist (batch_mul (dPlist a0) (dPlist a1))
  else if is name "prmul" then ePauli (prmul (dZ a0) (dPauli a1))
  else if is name "pneg" then ePauli (pneg (dPauli a0))
  else if is name "combine" then ePlist (pauli_combine (dN a0) (dL dMask a1) (dPlist a2))
  else if is name "transform" then ePlist (transform_by (dPlist a0) (dOpt dMask a1) (dPlist a2))
  else if is name "rotate" then ePlist (rotate_by (dPauli a0) (dOpt dMask a1) (dPlist a2))
  else if is name "rotate_seq" then
         ePlist (fold_left (fun l gm => rotate_by (dPauli (arg gm 0)) (dOpt dMask (arg gm 1)) l)
                           (match a0 with VL l => l | _ => [] end) (dPlist a1))
  else if is name "front" then eN (front (dStr a0))
  else if is name "condense" then let '(g, q) := condense (dStr a0) in VL [eStr g; eL eN q]
  else if is name "is_onsite" then eB (is_onsite (dStr a0) (dN a1))
  else if is name "weight" then VZ (weight (dStr a0))
  else if is name "mask" then eL eB (mask_of (dL dN a0) (dN a1))
  (* ---- Z2 ---- *)
  else if is name "z2rank" then eN (z2rank (dBmat a0))
  else if is name "z2inv" then eOptE eBmat (z2inv (dBmat a0))
  (* ---- maps ---- *)
  else if is name "identity_map" then ePlist (identity_map (dN a0))
  else if is name "compose" then ePlist (compose (dPlist a0) (dPlist a1))
  else if is name "inverse" then eOptE ePlist (inverse (dPlist a0))
  else if is name "embed" then ePlist (embed (dPlist a0) (dPlist a1) (dMask a2))
  else if is name "rotation_map" then ePlist (rotation_map (dPauli a0))
  else if is name "map_to_state" then ePlist (map_to_state (dPlist a0))
  else if is name "state_to_map" then ePlist (state_to_map (dPlist a0))
  else if is name "valid_map" then eB (valid_map_b (dPlist a0))
  (* ---- states ---- *)
  else if is name "tableau_ok" then eB (tableau_ok_b (dTab a0))
  else if is name "measure" then
         let '(t, outs, lp, cl) := measure (dTab a0) (dPlist a1) (dL dZ a2) in
         VL [eTab t; eL VZ outs; VZ lp; eN (length cl)]
  else if is name "measure_flags" then
         eL eB ((fix go (t : tableau) (os : plist) : list bool :=
                   match os with [] => [] | o :: r => let '(t1, _, _, u) := measure1 t o 0 in u :: go t1 r end) (dTab a0) (dPlist a1))
  else if is name "expect" then eL VZ (expect (dTab a0) (dPlist a1))
  else if is name "project" then eTab (project_c (dTab a0) (dL dStr a1))
  else if is name "projection_trace" then
         let '(t, z, h) := projection_trace (dTab a0) (dPlist a1) in VL [eTab t; eB z; eN h]
  else if is name "postselect" then
         let '(t, pr) := postselect1 (dTab a0) (dPauli a1) in VL [eTab t; VZ pr]
  else if is name "stabilizer_state" then eOptE eTab (stabilizer_state_c (dN a0) (dPlist a1))
  else if is name "zero_state" then eTab (zero_state (dN a0))
  else if is name "mixed_state" then eTab (mixed_state (dN a0))
  else if is name "stabilizers" then ePlist (stabilizers (dTab a0))
  else if is name "entropy" then VZ (entropy (dTab a0) (dMask a1))
  else if is name "entropy_of" then VZ (entropy_of (dN a0) (dL dStr a1) (dMask a2))
  else if is name "entropy_ref" then VZ (entropy_ref (dL dStr a0) (dMask a1))
  else if is name "state_rotate" then
         eTab {| rows := rotate_by (dPauli a0) (dOpt dMask a1) (rows (dTab a2)); rk := rk (dTab a2) |}
  else if is name "state_transform" then
         eTab {| rows := transform_by (dPlist a0) (dOpt dMask a1) (rows (dTab a2)); rk := rk (dTab a2) |}
  (* ---- circuits ---- *)
  else if is name "named_gate_map" then
         match named_gate (dZ a0) (dL dN a1) with
         | Some {| gq := _; gk := GMap (Some m) _ |} => ePlist m
         | _ => errNone end
  else if is name "gate_forward" then eOptE ePlist (gate_forward (dN a0) (dGate a1) (dPlist a2))
  else if is name "gate_backward" then eOptE ePlist (gate_backward (dN a0) (dGate a1) (dPlist a2))
  else if is name "gate_compile" then
         eOptE (fun fb : cmap * cmap => VL [ePlist (fst fb); ePlist (snd fb)]) (gate_compile (dGate a0))
  else if is name "circ_layers" then eLayers (circ_build (dL dInstr a0))
  else if is name "circ_forward" then        (* n, program, input list, mode: 0 plain, 1 layer-compiled, 2 circuit-compiled *)
         let n := dN a0 in
         let c := only_layers (circ_build (dL dInstr a1)) in
         let mode := dZ a3 in
         if mode =? 0 then eOptE ePlist (circuit_forward n c (dPlist a2))
         else match circuit_compile n c with
              | Some (c', (f, _)) =>
                  if mode =? 1 then eOptE ePlist (circuit_forward n c' (dPlist a2))
                  else ePlist (transform_by f None (dPlist a2))
              | None => errNone end
  else if is name "circ_backward" then
         let n := dN a0 in
         let c := only_layers (circ_build (dL dInstr a1)) in
         let mode := dZ a3 in
         if mode =? 0 then eOptE ePlist (circuit_backward n c (dPlist a2))
         else match circuit_compile n c with
              | Some (c', (_, b)) =>
                  if mode =? 1 then eOptE ePlist (circuit_backward n c' (dPlist a2))
                  else ePlist (transform_by b None (dPlist a2))
              | None => errNone end
  else if is name "circ_maps" then
         match circuit_compile (dN a0) (only_layers (circ_build (dL dInstr a1))) with
         | Some (_, (f, b)) => VL [ePlist f; ePlist b]
         | None => errNone end
  else if is name "mcirc_forward" then     (* program, state, coins *)
         match mcircuit_forward (circ_build (dL dInstr a0)) (dTab a1) (dL dZ a2) with
         | Some (t, res, lp) => VL [eTab t; eL VZ res; VZ lp]
         | None => errNone end
  else if is name "mcirc_backward" then     (* program, state, record *)
         eOptE eTab (mcircuit_backward (circ_build (dL dInstr a0)) (dTab a1) (dL dZ a2))
  else if is name "postselect_m" then       (* state, pauli, res : the method-level postselect *)
         match postselect (dTab a0) (dPauli a1) (dZ a2) with Some (t, pr) => VL [eTab t; VZ pr] | None => errNone end
  (* ---- parsing / printing ---- *)
  else if is name "parse" then eOptE ePauli (parse_tokens (dL dZ a0))
  else if is name "parse_dict" then eOptE ePauli (parse_dict (dN a0) (dL (fun v => (dZ (arg v 0), dZ (arg v 1))) a1))
  else if is name "repr" then eL VZ (repr_pauli (dPauli a0))
  else if is name "tokenize" then eL VZ (tokenize (dPauli a0))
  else if is name "sample_rows" then ePlist (sample_rows (dTab a0) (dL dMask a1))
  else if is name "density_terms" then ePlist (density_terms (dTab a0))
  else if is name "snapshot" then
         let '(t, outs, lp) := snapshot (dTab a0) (dTab a1) (dL dZ a2) in VL [eTab t; eL VZ outs; VZ lp]
  (* ---- polynomials ---- *)
  else if is name "poly_eval" then eObj (eval_expr 64 (dQ a0 * dQ a0)%Qc a1)   (* tol, expression *)
  else if is name "poly_trace_impl" then eOptE eCoef (trace_impl (dObj a0))
  else if is name "poly_trace_true" then eOptE eCoef (trace_true (dObj a0))
  else if is name "poly_rotate" then
         match dObj a2 with OPoly n p => eObj (OPoly n (poly_rotate (dPauli a0) (dOpt dMask a1) p)) | _ => VE 1 end
  else if is name "poly_transform" then
         match dObj a2 with OPoly n p => eObj (OPoly n (poly_transform (dPlist a0) (dOpt dMask a1) p)) | _ => VE 1 end
  else if is name "sbrg" then                                              (* tol, default tol of reduce, Hamiltonian *)
         match dObj a2 with
         | OPoly n p =>
             let '(heff, gs) := sbrg n (dQ a0 * dQ a0)%Qc (dQ a1 * dQ a1)%Qc p in
             VL [eObj (OPoly n heff);
                 eL (fun g => VL [eL eN (gq g); match gk g with GGen gen => ePauli gen | _ => VE 1 end]) gs]
         | _ => VE 1
         end
  (* ---- indexing ---- *)
  else if is name "get_int" then eOptE ePauli (get_int (dPlist a0) (dZ a1))
  else if is name "get_slice" then ePlist (get_slice (dPlist a0) (dOpt dZ a1) (dOpt dZ a2))
  else if is name "get_mask" then ePlist (get_mask (dPlist a0) (dMask a1))
  else if is name "get_idx" then eOptE ePlist (get_idx (dPlist a0) (dL dZ a1))
  else if is name "list_neg" then ePlist (list_neg (dPlist a0))
  else if is name "list_rmul" then ePlist (list_rmul (dZ a0) (dPlist a1))
  else if is name "list_weight" then eL VZ (list_weight (dPlist a0))
  (* ---- random (as functions of the drawn bits) ---- *)
  else if is name "fix_pair" then let '(g1, g2) := fix_pair (dStr a0) (dStr a1) in VL [eStr g1; eStr g2]
  else if is name "diag1" then eL eStr (diagonalize1 (dStr a0) (dN a1))
  else if is name "diag2" then
         let '(gs, g1, g2) := diagonalize2 (dStr a0) (dStr a1) (dN a2) in VL [eL eStr gs; eStr g1; eStr g2]
  else if is name "random_clifford_from" then
         eL eStr (random_clifford_from (dN a0) (dL (fun v => (dStr (arg v 0), dStr (arg v 1))) a1))
  else if is name "random_pauli_from" then
         eL eStr (random_pauli_from (dL (fun v => (dStr (arg v 0), dStr (arg v 1))) a0))
  else if is name "symplectic" then eB (symplectic_b (dL dStr a0))
  else VE 99.
