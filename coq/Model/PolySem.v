(* Model/PolySem.v -- denotation of Pauli polynomials: the linear extension of the ket action (Model/Ket.v).
   amp p k k' is the matrix element <k'| P |k> of P = sum_t c_t i^(p_t) sigma[g_t], as an exact Gaussian rational.  Definitions only. *)
From Coq Require Import QArith Qcanon.
From PC Require Export Model.Ket Model.Poly.
Open Scope Z_scope.

Fixpoint ket_eqb (a b : ket) : bool :=
  match a, b with
  | [], [] => true
  | x :: r, y :: s => eqb x y && ket_eqb r s
  | _, _ => false
  end.

Definition csum (l : list coef) : coef := fold_right cadd c0 l.

(* one term: c * i^p * sigma[g] |k> = c * i^e |k1> *)
Definition amp_term (t : term) (k k' : ket) : coef :=
  let (e, k1) := act (snd t) k in if ket_eqb k1 k' then cipow e (fst t) else c0.
Definition amp (p : poly) (k k' : ket) : coef := csum (map (fun t => amp_term t k k') p).

(* all computational basis kets of n qubits *)
Fixpoint all_kets (n : nat) : list ket :=
  match n with O => [[]] | S m => map (cons false) (all_kets m) ++ map (cons true) (all_kets m) end.
(* Tr P = sum_k <k|P|k> *)
Definition trace_sem (n : nat) (p : poly) : coef := csum (map (fun k => amp p k k) (all_kets n)).

(* the matrix product expressed through the monomial structure of the right factor:
   <k'| P Q |k> = sum over terms t of Q of (c_t i^e) <k'| P |k_t>   where  t|k> = c_t i^e |k_t> *)
Definition amp_after (p q : poly) (k k' : ket) : coef :=
  csum (map (fun t => let (e, k1) := act (snd t) k in cmul (cipow e (fst t)) (amp p k1 k')) q).

(* denotation of an object as (n, polynomial); numbers denote multiples of the identity once n is known *)
Definition den (n : nat) (o : pobj) : option poly :=
  match o with
  | ONum c => Some (pscal c (ident_poly n))
  | _ => match as_poly o with Some (_, p) => Some p | None => None end
  end.
Definition well_sized (n : nat) (p : poly) : Prop := Forall (fun t => length (fst (snd t)) = n) p.
