(* Model/Entropy.v -- utils.stabilizer_entropy and StabilizerState.entropy.  Definitions only. *)
From PC Require Export Model.Tableau.

Definition any_site (g : pstr) : bool := existsb nontrivial g.
Definition zmat_to_bmat (m : list (list Z)) : bmat := map (map bz) m.

(* gs: active stabilizer strings (L rows); m: boolean mask over qubits.
   [pure_branch]: the code takes it when L == N. *)
Definition entropy_of (n : nat) (gs : list pstr) (m : list bool) : Z :=
  let inside := map (fun g => any_site (gather m g)) gs in
  let outside := map (fun g => any_site (gather (map negb m) g)) gs in
  let across := map2 andb inside outside in
  let sub := map (gather m) (gather across gs) in
  let rk_acq := Z.of_nat (z2rank (zmat_to_bmat (acq_mat sub))) in
  if Nat.eqb (length gs) n then rk_acq / 2
  else
    Z.of_nat (count_true m)
    - (Z.of_nat (length gs) - Z.of_nat (z2rank (map (fun g => flat (gather (map negb m) g)) gs))).

(* StabilizerState.entropy on a boolean mask; empty index list returns 0 before any mask is built *)
Definition entropy (t : tableau) (m : list bool) : Z :=
  entropy_of (tN t) (map fst (stabilizers t)) m.

(* reference formula: |A| - L + rank(gs restricted to the complement) *)
Definition entropy_ref (gs : list pstr) (m : list bool) : Z :=
  Z.of_nat (count_true m) - Z.of_nat (length gs)
  + Z.of_nat (z2rank (map (fun g => flat (gather (map negb m) g)) gs)).
