(* Model/Poly.v -- PauliMonomial / PauliPolynomial arithmetic of paulialg.py over EXACT Gaussian rationals
   (Qc * Qc with Leibniz equality).  The isinstance dispatch of every dunder is mirrored in source order.
   IEEE rounding of complex128 is not modelled (see DESIGN.md): the correspondence uses dyadic inputs on which it is exact.
   Definitions only. *)
From Coq Require Import QArith Qcanon.
From PC Require Export Model.Pauli.
From PC Require Import Gen.Kernels.
Open Scope Z_scope.

Definition coef : Type := (Qc * Qc)%type.                 (* re + i im *)
Definition c0 : coef := (0%Qc, 0%Qc).
Definition c1 : coef := (1%Qc, 0%Qc).
Definition cadd (a b : coef) : coef := ((fst a + fst b)%Qc, (snd a + snd b)%Qc).
Definition cneg (a : coef) : coef := ((- fst a)%Qc, (- snd a)%Qc).
Definition cmul (a b : coef) : coef :=
  ((fst a * fst b - snd a * snd b)%Qc, (fst a * snd b + snd a * fst b)%Qc).
Definition cnorm2 (a : coef) : Qc := (fst a * fst a + snd a * snd a)%Qc.
Definition cinv (a : coef) : coef :=                       (* 1/a ; 1/0 is totalised to 0 (Python raises ZeroDivisionError) *)
  let n := cnorm2 a in ((fst a / n)%Qc, (- snd a / n)%Qc).
Definition cmul_i (a : coef) : coef := ((- snd a)%Qc, fst a).
Definition cipow (p : Z) (a : coef) : coef :=              (* i^p * a *)
  let k := p mod 4 in
  if k =? 0 then a else if k =? 1 then cmul_i a else if k =? 2 then cneg a else cneg (cmul_i a).
Definition ceqb (a b : coef) : bool := Qc_eq_bool (fst a) (fst b) && Qc_eq_bool (snd a) (snd b).
Definition cis (re im : Z) (a : coef) : bool := ceqb a (Q2Qc (inject_Z re), Q2Qc (inject_Z im)).

Definition term : Type := (coef * pauli)%type.
Definition poly : Type := list term.                       (* (cs[k], (gs[k], ps[k])) *)

Inductive pobj :=
| OPauli (a : pauli)
| OMono (c : coef) (a : pauli)
| OPoly (n : nat) (p : poly)                                (* n = number of qubits (needed by pauli_identity for empty polynomials) *)
| OList (l : plist)
| ONum (c : coef)
| OErr.                                                     (* the code raises *)

(* ---- reduce: numpy.unique(axis=0) order = lexicographic on the flat bits, 0 < 1 ---- *)
Fixpoint bits_cmp (a b : list bool) : comparison :=
  match a, b with
  | [], [] => Eq
  | [], _ => Lt
  | _, [] => Gt
  | x :: r, y :: s => match x, y with
                      | false, true => Lt | true, false => Gt | _, _ => bits_cmp r s end
  end.
Fixpoint insert_term (g : pstr) (c : coef) (acc : list (pstr * coef)) : list (pstr * coef) :=
  match acc with
  | [] => [(g, c)]
  | (h, d) :: r => match bits_cmp (flat g) (flat h) with
                   | Lt => (g, c) :: acc
                   | Eq => (h, cadd d c) :: r
                   | Gt => (h, d) :: insert_term g c r
                   end
  end.
Definition aggregate (p : poly) : list (pstr * coef) :=
  fold_left (fun acc t => insert_term (fst (snd t)) (cipow (snd (snd t)) (fst t)) acc) p [].
(* |c| > tol  decided exactly on squares; tol2 = tol^2 *)
Definition Qcle_bool (a b : Qc) : bool := Qle_bool a b.
Definition keep (tol2 : Qc) (c : coef) : bool := negb (Qcle_bool (cnorm2 c) tol2).
Definition reduce (tol2 : Qc) (p : poly) : poly :=
  map (fun gc => (snd gc, (fst gc, 0))) (filter (fun gc => keep tol2 (snd gc)) (aggregate p)).

(* ---- casts ---- *)
Definition nq (a : pauli) : nat := length (fst a).
Definition mono_poly (c : coef) (a : pauli) : poly := [(c, a)].
Definition list_poly (l : plist) : poly := map (fun a => (c1, a)) l.
Definition ident_poly (n : nat) : poly := [(c1, pid n)].
Definition as_poly (o : pobj) : option (nat * poly) :=
  match o with
  | OPauli a => Some (nq a, mono_poly c1 a)
  | OMono c a => Some (nq a, mono_poly c a)
  | OPoly n p => Some (n, p)
  | OList l => Some (width l, list_poly l)
  | _ => None
  end.

Definition pscal (c : coef) (p : poly) : poly := map (fun t => (cmul c (fst t), snd t)) p.
Definition pmulp (p q : poly) : poly :=                       (* utils.batch_dot, row-major *)
  flat_map (fun s => map (fun t => (cmul (fst s) (fst t),
      (gxor (fst (snd s)) (fst (snd t)),
       np_batch_dot_phase (snd (snd s)) (snd (snd t)) (ipow (fst (snd s)) (fst (snd t)))))) q) p.

(* ---- __neg__ ---- *)
Definition o_neg (o : pobj) : pobj :=
  match o with
  | OPauli a => OPauli (pneg a)
  | OMono c a => OMono (cneg c) a
  | OPoly n p => OPoly n (map (fun t => (cneg (fst t), snd t)) p)
  | OList l => OList (map pneg l)
  | ONum c => ONum (cneg c)
  | OErr => OErr
  end.

(* ---- c * obj  (__rmul__) ---- *)
Definition o_rmul (c : coef) (o : pobj) : pobj :=
  match o with
  | OPauli a =>
      if cis 1 0 c then OPauli a
      else if cis 0 1 c then OPauli (fst a, np_Pauli_rmul_i (snd a))
      else if cis (-1) 0 c then OPauli (fst a, np_Pauli_rmul_m1 (snd a))
      else if cis 0 (-1) c then OPauli (fst a, np_Pauli_rmul_mi (snd a))
      else OMono (cmul c c1) a
  | OMono d a => OMono (cmul c d) a
  | OPoly n p => OPoly n (pscal c p)
  | OList l =>
      if cis 1 0 c then OList l
      else if cis 0 1 c then OList (map (fun a => (fst a, np_PauliList_rmul_i (snd a))) l)
      else if cis (-1) 0 c then OList (map (fun a => (fst a, np_PauliList_rmul_m1 (snd a))) l)
      else if cis 0 (-1) c then OList (map (fun a => (fst a, np_PauliList_rmul_mi (snd a))) l)
      else OErr
  | ONum d => ONum (cmul c d)
  | OErr => OErr
  end.
Definition o_div (o : pobj) (c : coef) : pobj := o_rmul (cinv c) o.

(* ---- __add__ : everything is promoted to a polynomial, concatenated and reduced with the default tolerance ---- *)
Definition o_add (tol2 : Qc) (x y : pobj) : pobj :=
  match x, y with
  | ONum a, ONum b => ONum (cadd a b)
  | OErr, _ | _, OErr => OErr
  | OList _, ONum _ | ONum _, OList _ => OErr              (* PauliList has no __add__ / __radd__ *)
  | OList _, OList _ => OErr
  | _, _ =>
      let px := match x with ONum c => match as_poly y with Some (n, _) => Some (n, pscal c (ident_poly n)) | None => None end
                           | _ => as_poly x end in
      let py := match y with ONum c => match as_poly x with Some (n, _) => Some (n, pscal c (ident_poly n)) | None => None end
                           | _ => as_poly y end in
      match px, py with
      | Some (n, p), Some (_, q) => OPoly n (reduce tol2 (match x with ONum _ => q ++ p | _ => p ++ q end))
      | _, _ => OErr
      end
  end.
(* __sub__ is self + (-other); numbers and PauliList have no usable __sub__/__rsub__ with these classes *)
Definition o_sub (tol2 : Qc) (x y : pobj) : pobj :=
  match x, y with
  | ONum a, ONum b => ONum (cadd a (cneg b))
  | ONum _, _ => OErr
  | OList _, _ => OErr
  | _, _ => o_add tol2 x (o_neg y)
  end.

(* ---- __matmul__ ---- *)
Definition is_alg (o : pobj) : bool := match o with OPauli _ | OMono _ _ | OPoly _ _ => true | _ => false end.
Definition o_matmul (x y : pobj) : pobj :=
  match x, y with
  | OPauli a, OPauli b => OPauli (pmul a b)
  | _, _ =>
      if is_alg x && is_alg y then
        match as_poly x, as_poly y with
        | Some (n, p), Some (_, q) => OPoly n (pmulp p q)
        | _, _ => OErr
        end
      else OErr
  end.

(* ---- reduce / trace ---- *)
Definition o_reduce (tol2 : Qc) (o : pobj) : pobj :=
  match o with OPoly n p => OPoly n (reduce tol2 p) | _ => OErr end.
(* trace as implemented: identity strings contribute c * 2^N, the phase is IGNORED (known finding) *)
Definition two_pow (n : nat) : coef := (Q2Qc (inject_Z (2 ^ Z.of_nat n)), 0%Qc).
Definition trace_impl (o : pobj) : option coef :=
  match o with
  | OPauli a => Some (if is_id_str (fst a) then two_pow (nq a) else c0)
  | OMono c a => Some (if is_id_str (fst a) then cmul c (two_pow (nq a)) else c0)
  | OPoly n p => Some (fold_left cadd (map (fun t => if is_id_str (fst (snd t)) then cmul (fst t) (two_pow n) else c0) p) c0)
  | _ => None
  end.
(* trace of the denoted operator *)
Definition trace_true (o : pobj) : option coef :=
  match as_poly o with
  | Some (n, p) => Some (fold_left cadd (map (fun t => if is_id_str (fst (snd t)) then cipow (snd (snd t)) (cmul (fst t) (two_pow n)) else c0) p) c0)
  | None => None
  end.

(* rotations and maps act term by term, coefficients untouched *)
Definition poly_rotate (gen : pauli) (m : option (list bool)) (p : poly) : poly :=
  map2 (fun t a => (fst t, a)) p (rotate_by gen m (map snd p)).
Definition poly_transform (mp : plist) (m : option (list bool)) (p : poly) : poly :=
  map2 (fun t a => (fst t, a)) p (transform_by mp m (map snd p)).
