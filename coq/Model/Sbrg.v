(* Model/Sbrg.v -- SBRG(hmdl, max_rate = 2., tol) of circuit.py: the spectrum bifurcation renormalisation group loop,
   over exact Gaussian rationals.  Order of operations and of terms as in the source.  Definitions only.

   for i0 in range(N):
       mask_identity = all(htmp.gs == 0, -1); heff += htmp[mask_identity]; htmp = htmp[~mask_identity]
       if len(htmp) == 0: break
       leading = argmax(abs(htmp.cs))
       circ_i0 = diagonalize(htmp[leading], i0, causal=True); circ.compose(circ_i0); circ_i0.forward(htmp)
       mask_commute = htmp.gs[:,2*i0] == 0; len_anti = sum(~mask_commute)
       if len_anti != 0:
           diag = htmp[mask_commute]; offdiag = htmp[~mask_commute]; len_max = int(round(max_rate * len_anti))
           prod = (offdiag @ offdiag).reduce(tol)[:len_max]
           if len(prod) != 0: htmp = diag + 0.5 * (htmp[leading].inverse() @ prod)
           else: htmp = diag                                   (repair e14aace; before it htmp was left unchanged: sbrg_old below)
       mask_trivial = all(htmp.gs[:,(2*i0+2):] == 0, -1); heff += htmp[mask_trivial]; htmp = htmp[~mask_trivial]

   `a + b` / `a += b` on polynomials = concatenate, then reduce() with the DEFAULT tolerance (dtol2 = its square);
   `.reduce(tol)` uses SBRG's own tolerance (tol2 = its square).  IEEE rounding is not modelled (dyadic inputs are exact). *)
From Coq Require Import QArith Qcanon.
From PC Require Export Model.Poly Model.Diag.
Open Scope Z_scope.

(* one gate applied to every term of a polynomial, as CliffordGate.forward does on a PauliPolynomial
   (PauliList.rotate_by / transform_by on gs, ps; cs untouched).  For a rotation gate this is
   poly_rotate gen (None | Some mask) p. *)
Definition poly_gate_forward (n : nat) (g : gate) (p : poly) : poly :=
  match gate_forward n g (map snd p) with
  | Some l => map2 (fun t a => (fst t, a)) p l
  | None => p                                            (* the code raises; not reached from SBRG (rotation gates only) *)
  end.
(* circ_i0.forward(htmp): the (at most two) gates of diagonalize(.., causal=True) all contain qubit i0, so
   CliffordCircuit.take puts them in consecutive layers, in order *)
Definition poly_gates_forward (n : nat) (gs : list gate) (p : poly) : poly :=
  fold_left (fun q g => poly_gate_forward n g q) gs p.

(* numpy.argmax(numpy.abs(cs)): index of the FIRST term of maximal |c| (compared exactly on |c|^2) *)
Fixpoint argmax_from (p : poly) (i best : nat) (bn : Qc) : nat :=
  match p with
  | [] => best
  | t :: r => if negb (Qcle_bool (cnorm2 (fst t)) bn)            (* strictly larger *)
              then argmax_from r (S i) i (cnorm2 (fst t))
              else argmax_from r (S i) best bn
  end.
Definition argmax_norm (p : poly) : nat :=
  match p with [] => 0%nat | t :: r => argmax_from r 1 0 (cnorm2 (fst t)) end.

(* PauliMonomial.inverse: Pauli(g) / (c * 1j**p) = (1/(c i^p)) * Pauli(g) through Pauli.__rmul__:
   a factor 1, i, -1, -i stays a Pauli (phase 0,1,2,3; coefficient 1 once cast to a polynomial),
   any other factor gives a monomial with that coefficient and phase 0.  1/0 is totalised to 0. *)
Definition mono_inverse (t : term) : term :=
  match o_div (OPauli (fst (snd t), 0)) (cipow (snd (snd t)) (fst t)) with
  | OPauli a => (c1, a)
  | OMono c a => (c, a)
  | _ => t
  end.

Definition half : coef := (Q2Qc (1 # 2), 0%Qc).
Definition dflt_term : term := (c0, ([], 0)).
Definition term_get (p : poly) (i : nat) : term := nth i p dflt_term.

(* the boolean masks, per term *)
Definition is_identity_term (t : term) : bool := is_id_str (fst (snd t)).                  (* all(gs == 0, -1) *)
Definition commutes_at (i0 : nat) (t : term) : bool := negb (fst (sget (fst (snd t)) i0)).  (* gs[:,2*i0] == 0 *)
Definition trivial_after (i0 : nat) (t : term) : bool := is_id_str (skipn (S i0) (fst (snd t))).  (* all(gs[:,2*i0+2:] == 0, -1) *)

Record sbrg_state := { s_htmp : poly; s_heff : poly; s_gates : list gate }.

(* the perturbative update of htmp after the rotation (leading = index of the leading term) *)
Definition sbrg_perturb (tol2 dtol2 : Qc) (i0 leading : nat) (htmp : poly) : poly :=
  let offdiag := filter (fun t => negb (commutes_at i0 t)) htmp in
  let len_anti := length offdiag in
  if Nat.eqb len_anti 0 then htmp
  else
    let diag := filter (commutes_at i0) htmp in
    let len_max := (2 * len_anti)%nat in
    let prod := firstn len_max (reduce tol2 (pmulp offdiag offdiag)) in
    match prod with
    | [] => diag
    | _ :: _ => reduce dtol2 (diag ++ pscal half (pmulp [mono_inverse (term_get htmp leading)] prod))
    end.

(* one iteration of the for-loop *)
Definition sbrg_step (n : nat) (tol2 dtol2 : Qc) (st : sbrg_state) (i0 : nat) : sbrg_state :=
  let heff1 := reduce dtol2 (s_heff st ++ filter is_identity_term (s_htmp st)) in
  let htmp1 := filter (fun t => negb (is_identity_term t)) (s_htmp st) in
  match htmp1 with
  | [] => {| s_htmp := []; s_heff := heff1; s_gates := s_gates st |}                       (* break *)
  | _ :: _ =>
      let leading := argmax_norm htmp1 in
      let gs := diagonalize_pauli (fst (snd (term_get htmp1 leading))) i0 true in
      let htmp2 := poly_gates_forward n gs htmp1 in
      let htmp3 := sbrg_perturb tol2 dtol2 i0 leading htmp2 in
      {| s_htmp := filter (fun t => negb (trivial_after i0 t)) htmp3;
         s_heff := reduce dtol2 (heff1 ++ filter (trivial_after i0) htmp3);
         s_gates := s_gates st ++ gs |}
  end.

(* the `break` test of an iteration, as a function of the state at its start *)
Definition sbrg_breaks (st : sbrg_state) : bool :=
  match filter (fun t => negb (is_identity_term t)) (s_htmp st) with [] => true | _ :: _ => false end.

(* heff = pauli_zero(N) = 0 * identity: one term with coefficient 0 *)
Definition sbrg_init (n : nat) (h : poly) : sbrg_state :=
  {| s_htmp := h; s_heff := pscal c0 (ident_poly n); s_gates := [] |}.

(* fold over range(N); the flag records that the loop was left by `break`: later iterations do nothing *)
Definition sbrg_iter (n : nat) (tol2 dtol2 : Qc) (acc : bool * sbrg_state) (i0 : nat) : bool * sbrg_state :=
  if fst acc then acc else (sbrg_breaks (snd acc), sbrg_step n tol2 dtol2 (snd acc) i0).
(* the state (and break flag) at the start of iteration m *)
Definition sbrg_upto (n : nat) (tol2 dtol2 : Qc) (h : poly) (m : nat) : bool * sbrg_state :=
  fold_left (sbrg_iter n tol2 dtol2) (seq 0 m) (false, sbrg_init n h).
Definition sbrg_run (n : nat) (tol2 dtol2 : Qc) (h : poly) : bool * sbrg_state := sbrg_upto n tol2 dtol2 h n.
(* returns (heff, the gates of circ in the order they were taken) *)
Definition sbrg (n : nat) (tol2 dtol2 : Qc) (h : poly) : poly * list gate :=
  let st := snd (sbrg_run n tol2 dtol2 h) in (s_heff st, s_gates st).

(* ---- the loop BEFORE the repair e14aace: with `len_anti != 0` and `len(prod) == 0` htmp KEPT its off-diagonal terms ---- *)
Definition sbrg_perturb_old (tol2 dtol2 : Qc) (i0 leading : nat) (htmp : poly) : poly :=
  let offdiag := filter (fun t => negb (commutes_at i0 t)) htmp in
  let len_anti := length offdiag in
  if Nat.eqb len_anti 0 then htmp
  else
    let diag := filter (commutes_at i0) htmp in
    let len_max := (2 * len_anti)%nat in
    let prod := firstn len_max (reduce tol2 (pmulp offdiag offdiag)) in
    match prod with
    | [] => htmp
    | _ :: _ => reduce dtol2 (diag ++ pscal half (pmulp [mono_inverse (term_get htmp leading)] prod))
    end.
Definition sbrg_step_old (n : nat) (tol2 dtol2 : Qc) (st : sbrg_state) (i0 : nat) : sbrg_state :=
  let heff1 := reduce dtol2 (s_heff st ++ filter is_identity_term (s_htmp st)) in
  let htmp1 := filter (fun t => negb (is_identity_term t)) (s_htmp st) in
  match htmp1 with
  | [] => {| s_htmp := []; s_heff := heff1; s_gates := s_gates st |}
  | _ :: _ =>
      let leading := argmax_norm htmp1 in
      let gs := diagonalize_pauli (fst (snd (term_get htmp1 leading))) i0 true in
      let htmp2 := poly_gates_forward n gs htmp1 in
      let htmp3 := sbrg_perturb_old tol2 dtol2 i0 leading htmp2 in
      {| s_htmp := filter (fun t => negb (trivial_after i0 t)) htmp3;
         s_heff := reduce dtol2 (heff1 ++ filter (trivial_after i0) htmp3);
         s_gates := s_gates st ++ gs |}
  end.
Definition sbrg_iter_old (n : nat) (tol2 dtol2 : Qc) (acc : bool * sbrg_state) (i0 : nat) : bool * sbrg_state :=
  if fst acc then acc else (sbrg_breaks (snd acc), sbrg_step_old n tol2 dtol2 (snd acc) i0).
Definition sbrg_old (n : nat) (tol2 dtol2 : Qc) (h : poly) : poly * list gate :=
  let st := snd (fold_left (sbrg_iter_old n tol2 dtol2) (seq 0 n) (false, sbrg_init n h)) in (s_heff st, s_gates st).
