(* Model/Tableau.v -- StabilizerState and the stabilizer kernels of utils.py:
   stabilizer_project, stabilizer_measure, stabilizer_expect, stabilizer_projection_trace,
   stabilizer_postselection.  The loops are mirrored step by step; the coin of each
   undetermined measurement is an INPUT (list of coins consumed in order).
   Definitions only. *)
From PC Require Export Model.CMap.
From PC Require Import Gen.Kernels.

Record tableau := { rows : plist ; rk : nat }.      (* 2N rows, log2-rank r *)

Definition tN (t : tableau) : nat := (length (rows t) / 2)%nat.
Definition prow (l : plist) (j : nat) : pauli := nth j l (pid 0).

(* ---- loop state of the scan over j in range(2N) ---- *)
Record scan := { s_rows : plist ; s_update : bool ; s_extend : bool ; s_p : nat ; s_acc : pauli }.

(* one iteration of the j-loop of stabilizer_measure for observable string go.
   [phases]: whether stabilizer phases are updated (measure/projection_trace: yes; project: no) *)
Definition scan_step (n r : nat) (go : pstr) (s : scan) (j : nat) : scan :=
  let rowj := prow (s_rows s) j in
  if bz (acq (fst rowj) go) then
    if s_update s then
      let rowp := prow (s_rows s) (s_p s) in
      let newp := if Nat.ltb j n
                  then np_measure_update_phase (snd rowj) (snd rowp) (ipow (fst rowj) (fst rowp))
                  else snd rowj in
      {| s_rows := upd (s_rows s) j (gxor (fst rowj) (fst rowp), newp);
         s_update := true; s_extend := s_extend s; s_p := s_p s; s_acc := s_acc s |}
    else if Nat.ltb j (n + r) then
      {| s_rows := s_rows s; s_update := true;
         s_extend := negb (Nat.leb r j && Nat.ltb j n); s_p := j; s_acc := s_acc s |}
    else
      let st := prow (s_rows s) (j - n) in
      {| s_rows := s_rows s; s_update := false; s_extend := s_extend s; s_p := s_p s;
         s_acc := (gxor (fst (s_acc s)) (fst st),
                   np_measure_acc_phase (snd (s_acc s)) (snd st) (ipow (fst (s_acc s)) (fst st))) |}
  else s.

(* the order in which rows are visited: index order (project, projection_trace, postselection);
   stabilizer_measure visits the active stabilizers [r,N) first, then the standby stabilizers
   [0,r), then the destabilizers [N,2N) *)
Definition order_plain (n : nat) : list nat := seq 0 (2 * n).
Definition order_measure (n r : nat) : list nat := seq r (n - r) ++ seq 0 r ++ seq n n.

Definition scan_over (order : list nat) (n r : nat) (go : pstr) (l : plist) : scan :=
  fold_left (scan_step n r go) order
    {| s_rows := l; s_update := false; s_extend := false; s_p := 0%nat; s_acc := pid n |}.

(* the block after the loop: move row p to its dual q, put the observable at p, and on
   extension decrease r and bring the new stabilizer to row r.  Returns rows, r, final p.
   Only the strings move in the code (gs_stb); the phase array ps_stb stays in place. *)
Definition set_str (l : plist) (j : nat) (g : pstr) : plist := upd l j (g, snd (prow l j)).
Definition swap_str (l : plist) (i j : nat) : plist :=
  set_str (set_str l i (fst (prow l j))) j (fst (prow l i)).

Definition install (n r : nat) (go : pstr) (s : scan) : plist * nat * nat :=
  let p := s_p s in
  let q := ((p + n) mod (2 * n))%nat in
  let l1 := set_str (s_rows s) q (fst (prow (s_rows s) p)) in
  let l2 := set_str l1 p go in
  if s_extend s then
    let r' := (r - 1)%nat in
    if Nat.eqb p r' then (l2, r', r')
    else if Nat.eqb q r' then (swap_str l2 p q, r', r')
    else let s' := ((r' + n) mod (2 * n))%nat in
         (swap_str (swap_str l2 p r') q s', r', r')
  else (l2, r, p).

Definition set_phase (l : plist) (j : nat) (p : Z) : plist := upd l j (fst (prow l j), p).

(* ---- stabilizer_measure: one observable, given coin; returns tableau, outcome bit, log2prob, coin used? ---- *)
Definition measure1 (t : tableau) (o : pauli) (coin : Z) : tableau * Z * Z * bool :=
  let n := tN t in
  let s := scan_over (order_measure n (rk t)) n (rk t) (fst o) (rows t) in
  if s_update s then
    let '(l, r', p) := install n (rk t) (fst o) s in
    let ph := np_measure_coin_phase coin in
    ({| rows := set_phase l p ph; rk := r' |}, np_measure_out_random ph (snd o), -1, true)
  else
    ({| rows := s_rows s; rk := rk t |}, np_measure_out_determ (snd (s_acc s)) (snd o), 0, false).

(* list of observables; coins consumed only by undetermined ones; returns the unused coins too *)
Fixpoint measure (t : tableau) (obs : plist) (coins : list Z) : tableau * list Z * Z * list Z :=
  match obs with
  | [] => (t, [], 0, coins)
  | o :: rest =>
      let c := match coins with c :: _ => c | [] => 0 end in
      let '(t1, out, lp, used) := measure1 t o c in
      let '(t2, outs, lp2, cl) := measure t1 rest (if used then tl coins else coins) in
      (t2, out :: outs, lp + lp2, cl)
  end.

(* ---- stabilizer_expect ---- *)
Fixpoint expect_scan (n r : nat) (l : plist) (go : pstr) (js : list nat) (acc : pauli) : option pauli :=
  match js with
  | [] => Some acc
  | j :: rest =>
      if bz (acq (fst (prow l j)) go) then
        if Nat.ltb j (n + r) then None
        else let st := prow l (j - n) in
             expect_scan n r l go rest
               (gxor (fst acc) (fst st), np_expect_acc_phase (snd acc) (snd st) (ipow (fst acc) (fst st)))
      else expect_scan n r l go rest acc
  end.
Definition expect1 (t : tableau) (o : pauli) : Z :=
  let n := tN t in
  match expect_scan n (rk t) (rows t) (fst o) (seq 0 (2 * n)) (pid n) with
  | None => 0
  | Some acc => np_expect_value (snd acc) (snd o)
  end.
Definition expect (t : tableau) (obs : plist) : list Z := map (expect1 t) obs.

(* ---- stabilizer_project (strings only; used by stabilizer_state) ---- *)
Definition project1 (t : tableau) (go : pstr) : tableau :=
  let n := tN t in
  let s := scan_over (order_plain n) n (rk t) go (rows t) in
  if s_update s then
    let '(l, r', _) := install n (rk t) go s in {| rows := l; rk := r' |}
  else {| rows := s_rows s; rk := rk t |}.
Definition project (t : tableau) (gos : list pstr) : tableau := fold_left project1 gos t.

(* ---- stabilizer_projection_trace: trace as (zero?, number of halvings) ---- *)
Definition ptrace1 (st : tableau * bool * nat) (o : pauli) : tableau * bool * nat :=
  let '(t, zero, halv) := st in
  let n := tN t in
  let s := scan_over (order_plain n) n (rk t) (fst o) (rows t) in
  if s_update s then
    let '(l, r', p) := install n (rk t) (fst o) s in
    ({| rows := set_phase l p (snd o); rk := r' |}, zero, S halv)
  else
    ({| rows := s_rows s; rk := rk t |}, zero || negb (snd (s_acc s) =? snd o), halv).
Definition projection_trace (t : tableau) (obs : plist) : tableau * bool * nat :=
  fold_left ptrace1 obs (t, false, O).

(* ---- stabilizer_postselection (pure states: r = 0, scan threshold N) ---- *)
Definition postselect1 (t : tableau) (o : pauli) : tableau * Z :=   (* prob code: 2 = 1.0, 1 = 0.5, 0 = 0.0 *)
  let n := tN t in
  let s := scan_over (order_plain n) n 0 (fst o) (rows t) in
  if s_update s then
    let p := s_p s in
    let q := ((p + n) mod (2 * n))%nat in
    let l1 := set_str (s_rows s) q (fst (prow (s_rows s) p)) in
    let l2 := set_str l1 p (fst o) in
    ({| rows := set_phase l2 p (snd o); rk := rk t |}, 1)
  else
    ({| rows := s_rows s; rk := rk t |}, if snd (s_acc s) =? snd o then 2 else 0).

(* ---- constructors and conversions ---- *)
Definition to_state (m : cmap) (r : nat) : tableau := {| rows := map_to_state m; rk := r |}.
Definition to_map (t : tableau) : cmap := state_to_map (rows t).
Definition zero_state (n : nat) : tableau := to_state (identity_map n) 0.
Definition mixed_state (n : nat) : tableau := to_state (identity_map n) n.
Definition stabilizers (t : tableau) : plist := firstn (tN t - rk t) (skipn (rk t) (rows t)).

(* stabilizer_state(paulis): commutation check, project flipud, then signs *)
Definition all_commute (gs : list pstr) : bool :=
  forallb (fun a => forallb (fun b => acq a b =? 0) gs) gs.
Fixpoint set_phases_from (l : plist) (j : nat) (ps : list Z) : plist :=
  match ps with [] => l | p :: rest => set_phases_from (set_phase l j p) (S j) rest end.
Definition stabilizer_state (n : nat) (stabs : plist) : option tableau :=
  if all_commute (map fst stabs) then
    let t := project (mixed_state n) (rev (map fst stabs)) in
    Some {| rows := set_phases_from (rows t) (rk t) (map snd stabs); rk := rk t |}
  else None.

(* ---- the tableau invariant (decidable form) ---- *)
Definition tab_expected_acq (n i j : nat) : Z :=
  if (Nat.eqb (i + n) j) || (Nat.eqb (j + n) i) then 1 else 0.
Definition tableau_ok_b (t : tableau) : bool :=
  let n := tN t in
  let l := rows t in
  Nat.eqb (length l) (2 * n)
  && Nat.leb (rk t) n
  && forallb (fun r => Nat.eqb (length (fst r)) n) l
  && forallb (fun i => forallb (fun j => acq (fst (prow l i)) (fst (prow l j)) =? tab_expected_acq n i j)
                               (seq 0 (2 * n))) (seq 0 (2 * n))
  && forallb (fun i => herm (prow l i) && (0 <=? snd (prow l i)) && (snd (prow l i) <? 4)) (seq 0 (2 * n)).

(* ---- the kernels exactly as the code runs them on the string array only ----
   utils.stabilizer_project receives gs_stb alone: strings are combined and moved, the phase array ps is not touched at all.  The scan above (shared with
   stabilizer_measure) also updates phases; the code-faithful projection therefore keeps the ORIGINAL phase of every row position. *)
Definition keep_phases (old new : plist) : plist := map2 (fun o n => (fst n, snd o)) old new.
Definition project_c (t : tableau) (gos : list pstr) : tableau :=
  let t' := project t gos in {| rows := keep_phases (rows t) (rows t'); rk := rk t' |}.
Definition stabilizer_state_c (n : nat) (stabs : plist) : option tableau :=
  if all_commute (map fst stabs) then
    let t := project_c (mixed_state n) (rev (map fst stabs)) in
    Some {| rows := set_phases_from (rows t) (rk t) (map snd stabs); rk := rk t |}
  else None.
