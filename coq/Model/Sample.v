(* Model/Sample.v -- StabilizerState.sample and StabilizerState.density_matrix (stabilizer.py), ClassicalShadow snapshots (device.py).
   The drawn selection matrix C is an input.  Definitions only. *)
From PC Require Export Model.Tableau Model.Circuit.

(* sample(L): rows of C select active stabilizers, multiplied in order *)
Definition sample_rows (t : tableau) (C : list (list bool)) : plist :=
  pauli_combine (tN t) C (stabilizers t).

(* binary_repr(arange(2^k)): all bit vectors of length k, most significant bit first, in increasing numerical order *)
Fixpoint all_bitvecs (k : nat) : list (list bool) :=
  match k with O => [[]] | S k' => map (cons false) (all_bitvecs k') ++ map (cons true) (all_bitvecs k') end.

(* density_matrix: every product of active stabilizers once, each with weight 2^-N *)
Definition density_terms (t : tableau) : plist :=
  pauli_combine (tN t) (all_bitvecs (tN t - rk t)) (stabilizers t).

(* ClassicalShadow.snapshots for one back-evolved basis state [povm]: copy the base state, measure the stabilizers of povm *)
Definition snapshot (base povm : tableau) (coins : list Z) : tableau * list Z * Z :=
  let '(t, outs, lp, _) := measure base (stabilizers povm) coins in (t, outs, lp).
