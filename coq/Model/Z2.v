(* Model/Z2.v -- GF(2) linear algebra of pyclifford/utils.py: z2rank, z2inv.
   Matrices are lists of rows of bool.  The loops of the code are mirrored step by step
   (same pivot search, same partial-row swaps and additions).  Definitions only. *)
From PC Require Export Model.Base.

Definition bmat := list (list bool).

Definition brow_get (r : list bool) (j : nat) : bool := nth j r false.
Definition bget (a : bmat) (i j : nat) : bool := brow_get (nth i a []) j.

(* a[j, i:] = (a[j, i:] + a[i, i:]) % 2 *)
Definition row_add_from (c : nat) (rj ri : list bool) : list bool :=
  firstn c rj ++ map2 xorb (skipn c rj) (skipn c ri).
(* swap rows r,k from column c on *)
Definition row_mix (c : nat) (keep other : list bool) : list bool :=
  firstn c keep ++ skipn c other.

(* first k in [from, n) with a[k,c] nonzero *)
Fixpoint find_pivot (a : bmat) (c : nat) (from : nat) (fuel : nat) : option nat :=
  match fuel with
  | O => None
  | S f => if bget a from c then Some from else find_pivot a c (S from) f
  end.

(* for j in range(lo, hi): if a[j,c]: a[j,c:] += a[r,c:] *)
Fixpoint elim_rows (a : bmat) (c r : nat) (js : list nat) : bmat :=
  match js with
  | [] => a
  | j :: rest =>
      let a' := if bget a j c then upd a j (row_add_from c (nth j a []) (nth r a [])) else a in
      elim_rows a' c r rest
  end.

Definition swap_from (a : bmat) (c i k : nat) : bmat :=
  let ri := nth i a [] in let rk := nth k a [] in
  upd (upd a i (row_mix c ri rk)) k (row_mix c rk ri).

(* ---- z2rank ---- *)
(* state: matrix, current row r; columns processed left to right; early exit when r = nr *)
Fixpoint z2rank_cols (a : bmat) (nr : nat) (r : nat) (cols : list nat) : nat :=
  match cols with
  | [] => r
  | i :: rest =>
      if Nat.eqb r nr then r
      else if bget a r i then
             z2rank_cols (elim_rows a i r (seq (S r) (nr - S r))) nr (S r) rest
           else match find_pivot a i (S r) (nr - S r) with
                | Some k => let a1 := swap_from a i r k in
                            z2rank_cols (elim_rows a1 i r (seq (S r) (nr - S r))) nr (S r) rest
                | None => z2rank_cols a nr r rest
                end
  end.
Definition ncols (a : bmat) : nat := match a with [] => O | r :: _ => length r end.
Definition z2rank (a : bmat) : nat := z2rank_cols a (length a) 0 (seq 0 (ncols a)).

(* ---- z2inv ---- *)
Definition unit_row (n i : nat) : list bool := map (fun j => Nat.eqb i j) (seq 0 n).
Definition augment (a : bmat) : bmat :=
  let n := length a in map2 (fun r i => r ++ unit_row n i) a (seq 0 n).

Fixpoint z2inv_fwd (a : bmat) (n : nat) (cols : list nat) : option bmat :=
  match cols with
  | [] => Some a
  | i :: rest =>
      if bget a i i then z2inv_fwd (elim_rows a i i (seq (S i) (n - S i))) n rest
      else match find_pivot a i (S i) (n - S i) with
           | Some k => let a1 := swap_from a i i k in
                       z2inv_fwd (elim_rows a1 i i (seq (S i) (n - S i))) n rest
           | None => None           (* raise ValueError('binary matrix not invertable.') *)
           end
  end.
(* for i in range(n-1,0,-1): for j in range(i): if a[j,i]: a[j,i:] += a[i,i:] *)
Fixpoint z2inv_bwd (a : bmat) (is_ : list nat) : bmat :=
  match is_ with
  | [] => a
  | i :: rest => z2inv_bwd (elim_rows a i i (seq 0 i)) rest
  end.
Definition z2inv (m : bmat) : option bmat :=
  let n := length m in
  match z2inv_fwd (augment m) n (seq 0 n) with
  | None => None
  | Some a => Some (map (skipn n) (z2inv_bwd a (rev (seq 1 (n - 1)))))
  end.

(* reference operations used in statements *)
Definition bdot (u v : list bool) : bool := fold_left xorb (map2 andb u v) false.
Definition bcol (a : bmat) (j : nat) : list bool := map (fun r => brow_get r j) a.
Definition bmul (a b : bmat) : bmat :=
  map (fun r => map (fun j => bdot r (bcol b j)) (seq 0 (ncols b))) a.
Definition bident (n : nat) : bmat := map (unit_row n) (seq 0 n).
