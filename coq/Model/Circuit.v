(* Model/Circuit.v -- CliffordGate / CliffordLayer / MeasureLayer / CliffordCircuit / Circuit
   of circuit.py (deterministic gates only; random gates are handled in Random.v).
   Definitions only. *)
From PC Require Export Model.Tableau.
From PC Require Import Gen.Tables.

Inductive gkind :=
| GGen (gen : pauli)                                  (* rotation generator (condensed) *)
| GMap (fwd : option cmap) (bwd : option cmap).       (* explicit maps, at least one given *)

Record gate := { gq : list nat ; gk : gkind }.

Definition gmask (g : gate) (n : nat) : list bool := mask_of (gq g) n.
Definition gate_n (g : gate) : nat := length (gq g).

Definition opt_or_inv (a b : option cmap) : option cmap :=
  match a with Some m => Some m | None => match b with Some m' => inverse m' | None => None end end.

(* CliffordGate.forward on a Pauli list of n qubits; None = the code raises *)
Definition gate_forward (n : nat) (g : gate) (l : plist) : option plist :=
  match gk g with
  | GGen gen => Some (rotate_by gen (if Nat.eqb (gate_n g) n then None else Some (gmask g n)) l)
  | GMap f b =>
      match opt_or_inv f b with
      | Some m => Some (transform_by m (if Nat.eqb (gate_n g) n then None else Some (gmask g n)) l)
      | None => None
      end
  end.
(* CliffordGate.backward: always goes through the mask for maps *)
Definition gate_backward (n : nat) (g : gate) (l : plist) : option plist :=
  match gk g with
  | GGen gen => Some (rotate_by (pneg gen) (if Nat.eqb (gate_n g) n then None else Some (gmask g n)) l)
  | GMap f b =>
      match opt_or_inv b f with
      | Some m => Some (transform_by m (Some (gmask g n)) l)
      | None => None
      end
  end.

(* CliffordGate.compile: both maps *)
Definition gate_compile (g : gate) : option (cmap * cmap) :=
  match gk g with
  | GGen gen => Some (rotation_map gen, rotation_map (pneg gen))
  | GMap f b =>
      match opt_or_inv f b, opt_or_inv b f with
      | Some fm, Some bm => Some (fm, bm)
      | _, _ => None
      end
  end.

Record layer := { lgates : list gate ; lmaps : option (cmap * cmap) }.

Inductive clayer :=
| CL (l : layer)
| ML (qs : list nat).                 (* MeasureLayer on these qubits *)

Fixpoint opt_fold {A B} (f : A -> B -> option A) (l : list B) (a : A) : option A :=
  match l with [] => Some a | b :: r => match f a b with Some a' => opt_fold f r a' | None => None end end.

Definition layer_forward (n : nat) (ly : layer) (l : plist) : option plist :=
  match lmaps ly with
  | Some (f, _) => Some (transform_by f None l)
  | None => opt_fold (fun acc g => gate_forward n g acc) (lgates ly) l
  end.
(* note: backward applies the gates of a layer in the same (forward) order; they are disjoint *)
Definition layer_backward (n : nat) (ly : layer) (l : plist) : option plist :=
  match lmaps ly with
  | Some (_, b) => Some (transform_by b None l)
  | None => opt_fold (fun acc g => gate_backward n g acc) (lgates ly) l
  end.

Definition layer_compile (n : nat) (ly : layer) : option layer :=
  match opt_fold (fun (acc : cmap * cmap) g =>
                    match gate_compile g with
                    | Some (fm, bm) => Some (embed (fst acc) fm (gmask g n), embed (snd acc) bm (gmask g n))
                    | None => None
                    end) (lgates ly) (identity_map n, identity_map n) with
  | Some fb => Some {| lgates := lgates ly; lmaps := Some fb |}
  | None => None
  end.

(* ---- take: sliding a gate back through layers it does not overlap ---- *)
Definition disjointb (a b : list nat) : bool := forallb (fun x => negb (existsb (Nat.eqb x) b)) a.
Definition gate_indep (g h : gate) : bool := disjointb (gq g) (gq h).
Definition layer_indep (ly : layer) (g : gate) : bool := forallb (fun h => gate_indep h g) (lgates ly).
Definition layer_add (ly : layer) (g : gate) : layer := {| lgates := lgates ly ++ [g]; lmaps := lmaps ly |}.

(* layers are kept LAST FIRST in these two functions *)
Fixpoint layer_take (rl : list clayer) (g : gate) : list clayer :=
  match rl with
  | [] => []
  | ML q :: rest => ML q :: rest                      (* not reachable from take *)
  | CL cur :: prevs =>
      match prevs with
      | [] => [CL (layer_add cur g)]
      | ML _ :: _ => CL (layer_add cur g) :: prevs
      | CL pl :: _ => if layer_indep pl g then CL cur :: layer_take prevs g
                      else CL (layer_add cur g) :: prevs
      end
  end.

Definition new_layer (g : gate) : clayer := CL {| lgates := [g]; lmaps := None |}.
Definition empty_layer : clayer := CL {| lgates := []; lmaps := None |}.

(* CliffordCircuit.take / Circuit.take for a gate (rl: last layer first) *)
Definition circ_take (rl : list clayer) (g : gate) : list clayer :=
  match rl with
  | CL last :: _ => if layer_indep last g then layer_take rl g else new_layer g :: rl
  | _ => new_layer g :: rl
  end.
Definition circ_take_measure (rl : list clayer) (qs : list nat) : list clayer := ML qs :: rl.

Inductive instr := IGate (g : gate) | IMeasure (qs : list nat).
Definition circ_build (prog : list instr) : list clayer :=   (* returns layers FIRST first *)
  rev (fold_left (fun rl i => match i with IGate g => circ_take rl g | IMeasure q => circ_take_measure rl q end)
                 prog [empty_layer]).

(* ---- unitary circuits (no measurement layers) ---- *)
Definition only_layers (c : list clayer) : list layer :=
  flat_map (fun x => match x with CL l => [l] | ML _ => [] end) c.

Definition circuit_forward (n : nat) (c : list layer) (l : plist) : option plist :=
  opt_fold (fun acc ly => layer_forward n ly acc) c l.
Definition circuit_backward (n : nat) (c : list layer) (l : plist) : option plist :=
  opt_fold (fun acc ly => layer_backward n ly acc) (rev c) l.

(* CliffordCircuit.compile / Circuit.compile (unitary): forward maps composed in layer order,
   backward maps prepended: backward_map = layer.backward_map.compose(self.backward_map) *)
Definition circuit_compile (n : nat) (c : list layer) : option (list layer * (cmap * cmap)) :=
  match opt_fold (fun (acc : list layer * (cmap * cmap)) ly =>
                    match layer_compile n ly with
                    | Some ly' =>
                        match lmaps ly' with
                        | Some (f, b) =>
                            Some (fst acc ++ [ly'],
                                  (compose (fst (snd acc)) f,
                                   compose b (snd (snd acc))))
                        | None => None
                        end
                    | None => None
                    end) c ([], (identity_map n, identity_map n)) with
  | Some r => Some r
  | None => None
  end.

(* ---- named gates (tables generated from source) ---- *)
Definition named_gate (name : Z) (qs : list nat) : option gate :=
  (* 0 H, 1 S, 2 X, 3 Y, 4 Z, 5 CNOT, 100+k C(k) *)
  let mk t := Some {| gq := qs; gk := GMap (Some t) None |} in
  if name =? 5 then
    match qs with
    | [a; b] => if Nat.ltb a b then mk gate_CNOT_asc else mk gate_CNOT_desc
    | _ => None
    end
  else match qs with
       | [_] =>
           if name =? 0 then mk gate_H else if name =? 1 then mk gate_S else if name =? 2 then mk gate_X
           else if name =? 3 then mk gate_Y else if name =? 4 then mk gate_Z
           else if (100 <=? name) then
                  match nth_error gate_C_table (Z.to_nat (name - 100)) with Some t => mk t | None => None end
                else None
       | _ => None
       end.

(* ---- circuits with measurement on states ---- *)
Definition z_obs (n : nat) (q : nat) : pauli := (upd (id_str n) q (false, true), 0).

(* MeasureLayer.forward *)
Definition mlayer_forward (t : tableau) (qs : list nat) (coins : list Z)
  : tableau * list Z * Z * list Z :=        (* state, results (+1/-1), log2prob, remaining coins *)
  let n := tN t in
  let obs := map (z_obs n) qs in
  let '(t', outs, lp, coins') := measure t obs coins in
  (t',
   map (fun o => Gen.Kernels.m1pow o) outs, lp, coins').

Definition state_apply (f : plist -> option plist) (t : tableau) : option tableau :=
  match f (rows t) with Some l => Some {| rows := l; rk := rk t |} | None => None end.

Fixpoint mcircuit_forward (c : list clayer) (t : tableau) (coins : list Z)
  : option (tableau * list Z * Z) :=
  match c with
  | [] => Some (t, [], 0)
  | CL ly :: rest =>
      match state_apply (layer_forward (tN t) ly) t with
      | Some t' => mcircuit_forward rest t' coins
      | None => None
      end
  | ML qs :: rest =>
      let '(t', res, lp, coins') := mlayer_forward t qs coins in
      match mcircuit_forward rest t' coins' with
      | Some (t'', res', lp') => Some (t'', res ++ res', lp + lp')
      | None => None
      end
  end.

(* ---- backward of circuits with measurement: post-selection on a record (+1/-1 per measured qubit, in forward order) ---- *)
(* StabilizerState.postselect(P, res): requires a pure state; the observable is (-1)^res-signed P *)
Definition postselect (t : tableau) (p : pauli) (res : Z) : option (tableau * Z) :=
  if Nat.eqb (rk t) 0 then Some (postselect1 t (fst p, (snd p + res * 2) mod 4)) else None.

(* MeasureLayer.backward: qubits in reverse order, result slice aligned with the qubits *)
Fixpoint mlayer_backward_rev (t : tableau) (rq : list nat) (rres : list Z) : option tableau :=
  match rq, rres with
  | [], _ => Some t
  | q :: rq', r :: rres' =>
      match postselect t (z_obs (tN t) q) ((1 - r) / 2) with
      | Some (t', pr) => if pr =? 0 then None else mlayer_backward_rev t' rq' rres'
      | None => None
      end
  | _ :: _, [] => None
  end.
Definition mlayer_backward (t : tableau) (qs : list nat) (res : list Z) : option tableau :=
  if Nat.eqb (length res) (length qs) then mlayer_backward_rev t (rev qs) (rev res) else None.

Definition count_measured (c : list clayer) : nat :=
  fold_left (fun acc x => match x with ML q => (acc + length q)%nat | CL _ => acc end) c 0%nat.

(* Circuit.backward with a record: layers in reverse; each measurement layer consumes its slice from the END of the record *)
Fixpoint mcircuit_backward_rev (rc : list clayer) (t : tableau) (rrecord : list Z) : option tableau :=
  match rc with
  | [] => Some t
  | CL ly :: rest =>
      match state_apply (layer_backward (tN t) ly) t with
      | Some t' => mcircuit_backward_rev rest t' rrecord
      | None => None
      end
  | ML qs :: rest =>
      let k := length qs in
      match mlayer_backward t qs (rev (firstn k rrecord)) with
      | Some t' => mcircuit_backward_rev rest t' (skipn k rrecord)
      | None => None
      end
  end.
Definition mcircuit_backward (c : list clayer) (t : tableau) (record : list Z) : option tableau :=
  if Nat.eqb (length record) (count_measured c) then mcircuit_backward_rev (rev c) t (rev record) else None.
