(* Model/Diag.v -- pauli_diagonalize1 / pauli_diagonalize2 of utils.py and diagonalize of
   circuit.py (generator lists and the gates built from them).  Definitions only. *)
From PC Require Export Model.Circuit.

Definition sget (g : pstr) (i : nat) : site := nth i g I_site.
Definition set_x (g : pstr) (i : nat) (b : bool) : pstr := upd g i (b, snd (sget g i)).
Definition set_z (g : pstr) (i : nat) (b : bool) : pstr := upd g i (fst (sget g i), b).
(* g[2i] = (g[2i]+g[2i+1])%2 ; g[2i+1] = (g[2i+1]+g[2i])%2 *)
Definition xyz_cycle (g : pstr) (i : nat) : pstr :=
  let s := sget g i in
  let x' := xorb (fst s) (snd s) in
  upd g i (x', xorb (snd s) x').

(* first stage shared by diagonalize1 and diagonalize2: returns generators and updated g1 *)
Definition diag_stage1 (g1 : pstr) (i0 : nat) : list pstr * pstr :=
  if is_onsite g1 i0 && negb (fst (sget g1 i0)) then ([], g1)
  else
    let '(gsA, g1a) :=
      if negb (fst (sget g1 i0)) then
        let g := if negb (snd (sget g1 i0)) then xyz_cycle g1 (front g1) else g1 in
        let g := set_x g i0 true in
        ([g], gxor g1 g)
      else ([], g1) in
    let g' := set_z g1a i0 (negb (snd (sget g1a i0))) in
    (gsA ++ [g'], gxor g1a g').

Definition diagonalize1 (g1 : pstr) (i0 : nat) : list pstr := fst (diag_stage1 g1 i0).

(* g2 = (g2 + acq(g,g2)*g) % 2 *)
Definition follow (g : pstr) (g2 : pstr) : pstr := if bz (acq g g2) then gxor g2 g else g2.

Definition diagonalize2 (g1 g2 : pstr) (i0 : nat) : list pstr * pstr * pstr :=
  let '(gs1, g1') := diag_stage1 g1 i0 in
  let g2' := fold_left (fun acc g => follow g acc) gs1 g2 in
  if negb (is_onsite g2' i0) then
    let g := upd g2' i0 (false, true) in
    (gs1 ++ [g], g1', gxor g2' g)
  else (gs1, g1', g2').

(* clifford_rotation_gate(Pauli(g)) with optional qubit relabelling (causal mode) *)
Definition rotation_gate (gen : pauli) (labels : option (list nat)) : gate :=
  let '(gc, qs) := condense (fst gen) in
  let qs' := match labels with None => qs | Some lab => map (fun q => nth q lab 0%nat) qs end in
  {| gq := qs'; gk := GGen (gc, snd gen) |}.

(* diagonalize(Pauli, i0, causal): the gate program *)
Definition diagonalize_pauli (g : pstr) (i0 : nat) (causal : bool) : list gate :=
  if causal then
    map (fun gen => rotation_gate (gen, 0) (Some (seq i0 (length g - i0)))) (diagonalize1 (skipn i0 g) 0)
  else
    map (fun gen => rotation_gate (gen, 0) None) (diagonalize1 g i0).
