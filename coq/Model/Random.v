(* Model/Random.v -- the samplers of utils.py as deterministic functions of the drawn bits:
   random_pair (after the draw), random_clifford (given the pair drawn at each level).
   Definitions only. *)
From PC Require Export Model.Diag.

(* random_pair after drawing g1 (nonzero) and g2 *)
Definition fix_pair (g1 g2 : pstr) : pstr * pstr :=
  if acq g1 g2 =? 0 then
    let i := front g1 in
    let s1 := sget g1 i in let s2 := sget g2 i in
    (g1, upd g2 i (xorb (fst s2) (snd s1), xorb (snd s2) (xorb (fst s1) (snd s1))))
  else (g1, g2).

(* random_clifford_: pairs[k] is the (already fixed) pair drawn at recursion depth k, on n-k qubits *)
Fixpoint random_clifford_from (n : nat) (pairs : list (pstr * pstr)) : list pstr :=
  match pairs with
  | [] => []
  | (g1, g2) :: rest =>
      match n with
      | O => []
      | S O => [g1; g2]
      | S n' =>
          let '(gens, g1', g2') := diagonalize2 g1 g2 0 in
          let sub := random_clifford_from n' rest in
          let rows0 := g1' :: g2' :: map (fun r => I_site :: r) sub in
          fold_left (fun rows g => map (rotate1_signless g) rows) (rev gens) rows0
      end
  end.

(* random_pauli: block diagonal of single-qubit pairs *)
Definition random_pauli_from (pairs : list (pstr * pstr)) : list pstr :=
  let n := length pairs in
  flat_map (fun ip : nat * (pstr * pstr) =>
              let '(i, (a, b)) := ip in
              [repeat I_site i ++ a ++ repeat I_site (n - i - 1);
               repeat I_site i ++ b ++ repeat I_site (n - i - 1)])
           (combine (seq 0 n) pairs).

(* ---- exact uniformity on the finite groups N = 1, 2: enumerate every accepted raw draw ---- *)
Fixpoint all_strs (n : nat) : list pstr :=
  match n with
  | O => [[]]
  | S m => flat_map (fun s => map (cons s) (all_strs m)) [(false, false); (true, false); (false, true); (true, true)]
  end.
(* accepted raw draws of random_pair on n qubits: g1 non-zero (re-drawn otherwise), g2 arbitrary; fixed to an anticommuting pair *)
Definition all_pairs (n : nat) : list (pstr * pstr) :=
  flat_map (fun g1 => if is_id_str g1 then [] else map (fun g2 => fix_pair g1 g2) (all_strs n)) (all_strs n).
Definition all_raw_cliffords (n : nat) : list (list pstr) :=
  match n with
  | 1%nat => map (fun p => random_clifford_from 1 [p]) (all_pairs 1)
  | 2%nat => flat_map (fun p2 => map (fun p1 => random_clifford_from 2 [p2; p1]) (all_pairs 1)) (all_pairs 2)
  | _ => []
  end.
Definition str_eqb (a b : pstr) : bool := forallb (fun ab => eqb (fst (fst ab)) (fst (snd ab)) && eqb (snd (fst ab)) (snd (snd ab))) (combine a b) && Nat.eqb (length a) (length b).
Definition mat_eqb (a b : list pstr) : bool := forallb (fun ab => str_eqb (fst ab) (snd ab)) (combine a b) && Nat.eqb (length a) (length b).
Definition count_mat (m : list pstr) (l : list (list pstr)) : nat := length (filter (mat_eqb m) l).
Definition symplectic_b (m : list pstr) : bool :=
  let n2 := length m in
  forallb (fun i => forallb (fun j => acq (nth i m []) (nth j m []) =? expected_acq i j) (seq 0 n2)) (seq 0 n2).
