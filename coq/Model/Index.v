(* Model/Index.v -- PauliList.__getitem__ (int / slice / boolean mask / index array), N, L, weight,
   __neg__ and __rmul__ on lists.  Python indexing conventions are written out.  Definitions only. *)
From PC Require Export Model.Pauli.

Definition norm_index (len : nat) (i : Z) : option nat :=
  let i' := if i <? 0 then i + Z.of_nat len else i in
  if (0 <=? i') && (i' <? Z.of_nat len) then Some (Z.to_nat i') else None.      (* IndexError otherwise *)

Definition get_int {A} (l : list A) (i : Z) : option A :=
  match norm_index (length l) i with Some k => nth_error l k | None => None end.

(* slice [start:stop] with step 1; None bounds; python clamps *)
Definition clamp (len : nat) (i : Z) : nat :=
  let i' := if i <? 0 then i + Z.of_nat len else i in
  if i' <? 0 then 0%nat else if Z.of_nat len <? i' then len else Z.to_nat i'.
Definition get_slice {A} (l : list A) (start stop : option Z) : list A :=
  let len := length l in
  let a := match start with Some s => clamp len s | None => 0%nat end in
  let b := match stop with Some s => clamp len s | None => len end in
  firstn (b - a) (skipn a l).

Definition get_mask {A} (l : list A) (m : list bool) : list A := gather m l.

Fixpoint get_idx {A} (l : list A) (idx : list Z) : option (list A) :=
  match idx with
  | [] => Some []
  | i :: r => match get_int l i, get_idx l r with Some a, Some t => Some (a :: t) | _, _ => None end
  end.

Definition list_neg (l : plist) : plist := map pneg l.
Definition list_rmul (c : Z) (l : plist) : plist := map (prmul c) l.
Definition list_weight (l : plist) : list Z := map (fun a => weight (fst a)) l.
