(* Model/Heap.v -- a small memory model for C17: array locations, objects as records of locations and scalars, operations with write footprints.
   numpy / torch array semantics (fancy-index copies vs views) are MODELLED here, not verified: which attributes each copy() passes as a fresh
   array is re-extracted from the source (Gen/Copies.v), and the dynamic check validates the footprints against np.shares_memory.  Definitions only. *)
From Coq Require Import String.
From PC Require Export Model.Base.
From PC Require Import Gen.Copies.

Definition loc := nat.
Definition heap := loc -> list Z.                     (* contents of every array *)
Record obj := { olocs : list loc ; oscal : list Z }.   (* arrays referenced (in attribute order) and scalar attributes *)

Definition denote (h : heap) (o : obj) : list (list Z) * list Z := (map h (olocs o), oscal o).
Definition sep (a b : obj) : Prop := forall l, In l (olocs a) -> ~ In l (olocs b).

(* an operation as a heap transformer; it respects a write footprint W when it leaves every location outside W untouched *)
Definition respects (f : heap -> heap) (W : list loc) : Prop := forall h l, ~ In l W -> f h l = h l.

Definition hupd (h : heap) (l : loc) (v : list Z) : heap := fun l' => if Nat.eqb l' l then v else h l'.

(* copy(): one fresh location per array attribute, initialised with the contents of the original; scalars copied by value *)
Fixpoint alloc_copy (h : heap) (src fresh : list loc) : heap :=
  match src, fresh with
  | s :: src', f :: fresh' => alloc_copy (hupd h f (h s)) src' fresh'
  | _, _ => h
  end.
Definition copy_obj (h : heap) (fresh : list loc) (o : obj) : heap * obj :=
  (alloc_copy h (olocs o) fresh, {| olocs := fresh; oscal := oscal o |}).

(* a copy() that passes some attribute WITHOUT .copy(): the new object shares that location *)
Definition copy_obj_sharing (h : heap) (fresh : list loc) (shared : list bool) (o : obj) : heap * obj :=
  let locs := map (fun x : bool * loc * loc => if fst (fst x) then snd (fst x) else snd x) (combine (combine shared (olocs o)) fresh) in
  (alloc_copy h (olocs o) fresh, {| olocs := locs; oscal := oscal o |}).

(* the table generated from source: every array attribute of every copy() is passed fresh and bound to the parameter of the same name *)
Definition is_array_attr (a : string) : bool :=
  existsb (String.eqb a) ["g"; "gs"; "ps"; "cs"; "generator"; "forward_map"; "backward_map"]%string.
Definition row_ok (r : string * string * string * copy_how * string) : bool :=
  let '(_, _, attr, how, bound) := r in
  String.eqb attr bound &&
  (if is_array_attr attr then match how with Cfresh => true | _ => false end
   else match how with Cscalar => true | Cfresh => true | Cshared => false end).
Definition copy_table_ok : bool := forallb row_ok copy_table.

(* every class copies ALL of its array attributes *)
Definition class_attrs (backend cls : string) : list string :=
  map (fun r => let '(_, _, attr, _, _) := r in attr)
      (filter (fun r => let '(b, c, _, _, _) := r in String.eqb b backend && String.eqb c cls) copy_table).
Definition expected_attrs : list (string * string * list string) :=
  [("np", "Pauli", ["g"; "p"]); ("np", "PauliList", ["gs"; "ps"]); ("np", "PauliMonomial", ["g"; "p"; "c"]); ("np", "PauliPolynomial", ["gs"; "ps"; "cs"]);
   ("np", "CliffordMap", ["gs"; "ps"]); ("np", "StabilizerState", ["gs"; "ps"; "r"]);
   ("torch", "Pauli", ["g"; "p"]); ("torch", "PauliList", ["gs"; "ps"]); ("torch", "PauliPolynomial", ["gs"; "ps"; "cs"]);
   ("torch", "CliffordMap", ["gs"; "ps"]); ("torch", "StabilizerState", ["gs"; "ps"; "r"]);
   ("np", "CliffordGate", ["generator"; "forward_map"; "backward_map"]); ("np", "CliffordLayer", ["forward_map"; "backward_map"]);
   ("np", "CliffordCircuit", ["forward_map"; "backward_map"])]%string.
Definition list_str_eqb (a b : list string) : bool :=
  Nat.eqb (length a) (length b) && forallb (fun xy => String.eqb (fst xy) (snd xy)) (combine a b).
Definition copy_table_complete : bool :=
  forallb (fun e => let '(b, c, attrs) := e in list_str_eqb (class_attrs b c) attrs) expected_attrs.
