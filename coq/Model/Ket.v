(* Model/Ket.v -- the semantic root: the four textbook 2x2 Pauli matrices and the action of a
   Pauli operator i^p sigma[g] on computational-basis kets.  A Pauli operator is a monomial
   matrix, so  act a k = (e, k')  (meaning  a|k> = i^e |k'>)  IS its matrix, and composition of
   actions IS the matrix product.  Definitions only. *)
From PC Require Export Model.Pauli.

(* entry (row r, column c) of a 2x2 matrix, as Some e for i^e and None for 0 *)
Definition mat_I (r c : bool) : option Z := if eqb r c then Some 0 else None.
Definition mat_X (r c : bool) : option Z := if eqb r c then None else Some 0.
Definition mat_Y (r c : bool) : option Z :=            (* [[0,-i],[i,0]] *)
  match r, c with false, true => Some 3 | true, false => Some 1 | _, _ => None end.
Definition mat_Z (r c : bool) : option Z :=            (* [[1,0],[0,-1]] *)
  match r, c with false, false => Some 0 | true, true => Some 2 | _, _ => None end.
Definition mat_site (s : site) : bool -> bool -> option Z :=
  match s with
  | (false, false) => mat_I | (true, false) => mat_X | (true, true) => mat_Y | (false, true) => mat_Z
  end.

(* sigma[(x,z)] |k> = i^e |k'> *)
Definition act_site (s : site) (k : bool) : Z * bool :=
  (zb (fst s) * zb (snd s) + 2 * zb (snd s) * zb k, xorb k (fst s)).

Fixpoint act_str (g : pstr) (k : ket) : Z * ket :=
  match g, k with
  | s :: g', b :: k' =>
      let (e, b') := act_site s b in
      let (e', k'') := act_str g' k' in (e + e', b' :: k'')
  | _, _ => (0, [])
  end.

Definition act (a : pauli) (k : ket) : Z * ket :=
  let (e, k') := act_str (fst a) k in ((snd a + e) mod 4, k').

(* composition of two monomial actions: first f, then g *)
Definition act_comp (g f : ket -> Z * ket) (k : ket) : Z * ket :=
  let (e1, k1) := f k in let (e2, k2) := g k1 in ((e1 + e2) mod 4, k2).

(* operators as equal when strings agree and phases agree mod 4 *)
Definition peq (a b : pauli) : Prop := fst a = fst b /\ snd a mod 4 = snd b mod 4.
