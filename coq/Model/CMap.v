(* Model/CMap.v -- CliffordMap (stabilizer.py): identity, compose, inverse, embed,
   rotation map, map/state conversion.  Definitions only. *)
From PC Require Export Model.Pauli Model.Z2.
From PC Require Import Gen.Kernels.

Definition cmap := plist.                      (* 2N rows, order X0,Z0,X1,Z1,... *)

Definition unit_str (n : nat) (k : nat) : pstr := unflat (unit_row (2 * n) k).
Definition identity_map (n : nat) : cmap := map (fun k => (unit_str n k, 0)) (seq 0 (2 * n)).

(* CliffordMap.compose: self first, then other *)
Definition compose (a b : cmap) : cmap := pauli_transform b a.

(* CliffordMap.inverse *)
Definition cmap_bits (m : cmap) : bmat := map (fun r => flat (fst r)) m.
Definition inverse (m : cmap) : option cmap :=
  match z2inv (cmap_bits m) with
  | None => None
  | Some ginv =>
      let mis := pauli_combine (width m) ginv m in
      Some (map2 (fun row c => (unflat row, np_inverse_phase (snd c) (p0 (unflat row)))) ginv mis)
  end.

(* CliffordMap.embed: self.gs[ix_(mask2,mask2)] = small.gs ; self.ps[mask2] = small.ps *)
Definition mask2 (m : list bool) : list bool := flat (map (fun b => (b, b)) m).
Definition embed (big : cmap) (small : cmap) (m : list bool) : cmap :=
  let m2 := mask2 m in
  scatter m2 big
    (map2 (fun brow srow => (scatter m (fst brow) (fst srow), snd srow)) (gather m2 big) small).

(* clifford_rotation_map *)
Definition rotation_map (gen : pauli) : cmap :=
  clifford_rotate gen (identity_map (length (fst gen))).

(* utils.map_to_state / state_to_map *)
Fixpoint evens {A} (l : list A) : list A :=
  match l with a :: _ :: r => a :: evens r | [a] => [a] | [] => [] end.
Fixpoint odds {A} (l : list A) : list A :=
  match l with _ :: b :: r => b :: odds r | _ => [] end.
Fixpoint interleave {A} (l1 l2 : list A) : list A :=
  match l1, l2 with a :: r1, b :: r2 => a :: b :: interleave r1 r2 | _, _ => [] end.
Definition map_to_state (m : cmap) : plist := odds m ++ evens m.
Definition state_to_map (t : plist) : cmap :=
  let n := (length t / 2)%nat in interleave (skipn n t) (firstn n t).

(* validity of a Clifford map: canonical commutation relations, Hermitian images *)
Definition herm (a : pauli) : bool := Z.even (snd a).
Definition expected_acq (i j : nat) : Z :=
  if (Nat.eqb (i / 2) (j / 2)) && negb (Nat.eqb i j) then 1 else 0.
Definition valid_map_b (m : cmap) : bool :=
  let n2 := length m in
  forallb (fun i => forallb (fun j =>
      acq (fst (nth i m (pid 0))) (fst (nth j m (pid 0))) =? expected_acq i j) (seq 0 n2)) (seq 0 n2)
  && forallb herm m
  && forallb (fun r => Nat.eqb (2 * length (fst r)) n2) m
  && forallb (fun r => (0 <=? snd r) && (snd r <? 4)) m.
