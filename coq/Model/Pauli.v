(* Model/Pauli.v -- the Pauli kernels of pyclifford/utils.py and the Pauli / PauliList
   methods built on them.  The per-site summands and the scalar phase formulas are the
   GENERATED definitions of Gen/Kernels.v (re-extracted from /repo on every run).
   Definitions only. *)
From PC Require Export Model.Base.
From PC Require Import Gen.Kernels.

(* ---- per-site summands lifted to sites ---- *)
Definition acq_site (a b : site) : Z :=
  np_acq_term (zb (fst a)) (zb (snd a)) (zb (fst b)) (zb (snd b)).
Definition ipow_site (a b : site) : Z :=
  np_ipow_term (zb (fst a)) (zb (snd a)) (zb (fst b)) (zb (snd b)).
Definition p0_site (a : site) : Z := np_ps0_term (zb (fst a)) (zb (snd a)).
Definition bitadd (a b : bool) : bool := bz (np_matmul_bit (zb a) (zb b)).
Definition xor_site (a b : site) : site := (bitadd (fst a) (fst b), bitadd (snd a) (snd b)).

Fixpoint sum2 (f : site -> site -> Z) (g1 g2 : pstr) : Z :=
  match g1, g2 with a :: r1, b :: r2 => f a b + sum2 f r1 r2 | _, _ => 0 end.
Fixpoint sum1 (f : site -> Z) (g : pstr) : Z :=
  match g with a :: r => f a + sum1 f r | [] => 0 end.

(* utils.acq / ipow / p0 / ps0 *)
Definition acq (g1 g2 : pstr) : Z := sum2 acq_site g1 g2 mod np_acq_modulus.
Definition ipow (g1 g2 : pstr) : Z := sum2 ipow_site g1 g2 mod np_ipow_modulus.
Definition p0 (g : pstr) : Z := sum1 p0_site g mod np_ps0_modulus.
Fixpoint gxor (g1 g2 : pstr) : pstr :=          (* (g1 + g2) % 2 *)
  match g1, g2 with a :: r1, b :: r2 => xor_site a b :: gxor r1 r2 | _, _ => [] end.
Definition acq_mat (gs : list pstr) : list (list Z) :=
  map (fun a => map (fun b => acq a b) gs) gs.

(* Pauli.__matmul__ *)
Definition pmul (a b : pauli) : pauli :=
  (gxor (fst a) (fst b), np_matmul_phase (snd a) (snd b) (ipow (fst a) (fst b))).
Definition pneg (a : pauli) : pauli := (fst a, np_Pauli_neg (snd a)).
Definition pshift (k : Z) (a : pauli) : pauli := (fst a, (snd a + k) mod 4).
Definition pid (n : nat) : pauli := (id_str n, 0).

(* Pauli.__rmul__ by 1, i, -1, -i (code: 0,1,2,3) *)
Definition prmul (c : Z) (a : pauli) : pauli :=
  (fst a, if c =? 0 then np_Pauli_rmul_one (snd a) else if c =? 1 then np_Pauli_rmul_i (snd a)
          else if c =? 2 then np_Pauli_rmul_m1 (snd a) else np_Pauli_rmul_mi (snd a)).

(* utils.batch_dot without coefficients: row-major list of all products *)
Definition batch_mul (l1 l2 : plist) : plist :=
  flat_map (fun a => map (fun b =>
     (gxor (fst a) (fst b), np_batch_dot_phase (snd a) (snd b) (ipow (fst a) (fst b)))) l2) l1.

(* utils.pauli_combine: ordered left-accumulating product of the selected rows *)
Definition combine_step (acc : pauli) (sr : bool * pauli) : pauli :=
  if fst sr then
    (gxor (fst acc) (fst (snd sr)),
     np_combine_phase (snd acc) (snd (snd sr)) (ipow (fst acc) (fst (snd sr))))
  else acc.
Definition combine_row (n : nat) (sel : list bool) (rows : plist) : pauli :=
  fold_left combine_step (combine sel rows) (pid n).
Definition pauli_combine (n : nat) (C : list (list bool)) (rows : plist) : plist :=
  map (fun sel => combine_row n sel rows) C.

(* utils.pauli_transform; n = number of qubits of the map's images *)
Definition width (m : plist) : nat := match m with [] => 0%nat | r :: _ => length (fst r) end.
Definition transform1 (m : plist) (a : pauli) : pauli :=
  let c := combine_row (width m) (flat (fst a)) m in
  (fst c, np_transform_phase (snd a) (p0 (fst a)) (snd c)).
Definition pauli_transform (m : plist) (l : plist) : plist := map (transform1 m) l.

(* utils.clifford_rotate, one row; generator (g,pg) *)
Definition rotate1 (gen : pauli) (a : pauli) : pauli :=
  if bz (acq (fst gen) (fst a)) then
    (map2 (fun s t => (bz (np_rotate_bit (zb (fst s)) (zb (fst t))), bz (np_rotate_bit (zb (snd s)) (zb (snd t)))))
          (fst a) (fst gen),
     np_rotate_phase (snd a) (snd gen) (ipow (fst a) (fst gen)))
  else a.
Definition clifford_rotate (gen : pauli) (l : plist) : plist := map (rotate1 gen) l.
Definition rotate1_signless (g : pstr) (a : pstr) : pstr :=
  if bz (acq g a) then gxor a g else a.

(* masked variants: PauliList.rotate_by / transform_by with mask (gather, act, scatter) *)
Definition rotate1_masked (gen : pauli) (m : list bool) (a : pauli) : pauli :=
  let r := rotate1 gen (gather m (fst a), snd a) in
  (scatter m (fst a) (fst r), snd r).
Definition transform1_masked (mp : plist) (m : list bool) (a : pauli) : pauli :=
  let r := transform1 mp (gather m (fst a), snd a) in
  (scatter m (fst a) (fst r), snd r).
Definition rotate_by (gen : pauli) (m : option (list bool)) (l : plist) : plist :=
  match m with None => clifford_rotate gen l | Some mk => map (rotate1_masked gen mk) l end.
Definition transform_by (mp : plist) (m : option (list bool)) (l : plist) : plist :=
  match m with None => pauli_transform mp l | Some mk => map (transform1_masked mp mk) l end.

(* Pauli.weight, Pauli.trace (strings only) *)
Definition nontrivial (s : site) : bool := fst s || snd s.
Definition weight (g : pstr) : Z := Z.of_nat (length (filter nontrivial g)).
Definition is_id_str (g : pstr) : bool := forallb (fun s => negb (nontrivial s)) g.

(* utils.front: first nontrivial site, N-1 for the identity string (loop variable after the loop) *)
Fixpoint front_from (i : nat) (g : pstr) : nat :=
  match g with
  | [] => (i - 1)%nat
  | s :: r => if nontrivial s then i else front_from (S i) r
  end.
Definition front (g : pstr) : nat := front_from 0 g.

(* utils.condense *)
Definition condense (g : pstr) : pstr * list nat :=
  let m := map nontrivial g in
  (gather m g, gather m (seq 0 (length g))).

(* utils.pauli_is_onsite *)
Fixpoint is_onsite_from (i : nat) (i0 : nat) (g : pstr) : bool :=
  match g with
  | [] => true
  | s :: r => if Nat.eqb i i0 then is_onsite_from (S i) i0 r
              else if nontrivial s then false else is_onsite_from (S i) i0 r
  end.
Definition is_onsite (g : pstr) (i0 : nat) : bool := is_onsite_from 0 i0 g.
