(* Model/Base.v -- representation shared by the whole model.  Definitions only. *)
From Coq Require Export ZArith List Bool.
Export ListNotations.
Open Scope Z_scope.

Definition site : Type := (bool * bool)%type.        (* (x,z) of one qubit *)
Definition pstr : Type := list site.                   (* Pauli string, length N *)
Definition pauli : Type := (pstr * Z)%type.            (* i^p sigma[g] *)
Definition plist : Type := list pauli.
Definition ket : Type := list bool.

Definition zb (b : bool) : Z := if b then 1 else 0.
Definition bz (z : Z) : bool := negb (z =? 0).          (* Python truthiness of an int *)

Definition I_site : site := (false, false).
Definition id_str (n : nat) : pstr := repeat I_site n.

(* flat view [x0;z0;x1;z1;...] used by the code's arrays *)
Fixpoint flat (g : pstr) : list bool :=
  match g with [] => [] | (x, z) :: r => x :: z :: flat r end.
Fixpoint unflat (l : list bool) : pstr :=
  match l with x :: z :: r => (x, z) :: unflat r | _ => [] end.

Fixpoint upd {A} (l : list A) (i : nat) (v : A) : list A :=
  match l, i with
  | [], _ => []
  | _ :: r, O => v :: r
  | a :: r, S i' => a :: upd r i' v
  end.

Fixpoint map2 {A B C} (f : A -> B -> C) (l1 : list A) (l2 : list B) : list C :=
  match l1, l2 with a :: r1, b :: r2 => f a b :: map2 f r1 r2 | _, _ => [] end.

Definition swap {A} (d : A) (l : list A) (i j : nat) : list A :=
  upd (upd l i (nth j l d)) j (nth i l d).

Fixpoint gather {A} (m : list bool) (l : list A) : list A :=
  match m, l with
  | true :: m', a :: l' => a :: gather m' l'
  | false :: m', _ :: l' => gather m' l'
  | _, _ => []
  end.

(* write the elements of [sub] into the masked positions of [l], in order *)
Fixpoint scatter {A} (m : list bool) (l : list A) (sub : list A) : list A :=
  match m, l with
  | true :: m', a :: l' => match sub with s :: sub' => s :: scatter m' l' sub' | [] => a :: scatter m' l' [] end
  | false :: m', a :: l' => a :: scatter m' l' sub
  | _, _ => l
  end.

Fixpoint mask_of (qs : list nat) (n : nat) : list bool :=
  match qs with [] => repeat false n | q :: r => upd (mask_of r n) q true end.

Definition count_true (m : list bool) : nat := length (filter (fun b => b) m).

Definition pnorm (p : Z) : Z := p mod 4.
