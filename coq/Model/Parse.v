(* Model/Parse.v -- pauli() / __repr__ / pauli_tokenize of paulialg.py and utils.py.
   Tokens are integers: the integer codes 0..7 as themselves, a character c as 1000 + ord c.
   The dispatch table, the repr tables and the token formulas are GENERATED from source.
   Definitions only. *)
From PC Require Export Model.Pauli.
From PC Require Import Gen.Kernels Gen.Tables.

Definition tok_key (t : Z) : Z + Z := if 1000 <=? t then inr (t - 1000) else inl t.
Definition key_eqb (a b : Z + Z) : bool :=
  match a, b with inl x, inl y => x =? y | inr x, inr y => x =? y | _, _ => false end.
Fixpoint lookup_effect (tbl : list ((Z + Z) * parse_effect)) (k : Z + Z) : option parse_effect :=
  match tbl with
  | [] => None
  | (k', e) :: r => if key_eqb k' k then Some e else lookup_effect r k
  end.

(* loop state of pauli(): g (N sites), h, p *)
Definition parse_step (n : nat) (st : option (pstr * Z * Z)) (im : Z * Z) : option (pstr * Z * Z) :=
  match st with
  | None => None
  | Some (g, h, p) =>
      let '(i, mu) := im in
      if negb (i - h <? Z.of_nat n) then None          (* assert i-h < N *)
      else
        let pos := Z.to_nat (i - h) in
        match lookup_effect parse_dispatch (tok_key mu) with
        | Some EffSkip => Some (g, h, p)
        | Some EffX => Some (upd g pos (true, snd (nth pos g I_site)), h, p)
        | Some EffY => Some (upd g pos (true, true), h, p)
        | Some EffZ => Some (upd g pos (fst (nth pos g I_site), true), h, p)
        | Some (EffSetP v) => Some (g, h + 1, v)
        | Some (EffAddP d) => Some (g, h + 1, p + d)
        | None => Some (g, h + 1, p)
        end
  end.
Definition parse_items (n : nat) (items : list (Z * Z)) : option pauli :=
  match fold_left (parse_step n) items (Some (id_str n, 0, 0)) with
  | None => None
  | Some (g, h, p) => Some (firstn (n - Z.to_nat h) g, p)        (* g[:-2*h] *)
  end.
Definition enumerate (l : list Z) : list (Z * Z) := combine (map Z.of_nat (seq 0 (length l))) l.
Definition parse_tokens (l : list Z) : option pauli := parse_items (length l) (enumerate l).
Definition parse_dict (n : nat) (items : list (Z * Z)) : option pauli := parse_items n items.

(* Pauli.__repr__ as a list of character codes *)
Definition repr_pauli (a : pauli) : list Z :=
  nth (Z.to_nat (snd a)) repr_prefix [] ++ map (fun s => repr_letter (fst s) (snd s)) (fst a).
Definition repr_tokens (a : pauli) : list Z := map (fun c => 1000 + c) (repr_pauli a).

(* utils.pauli_tokenize, one row *)
Definition tokenize (a : pauli) : list Z :=
  map (fun s => np_tok_site (zb (fst s)) (zb (snd s))) (fst a) ++ [np_tok_phase (snd a)].
