(* Model/Spec.v -- Prop-level predicates used in the statements of the theorems. Definitions only. *)
From PC Require Export Model.Ket Model.CMap Model.Tableau Model.Circuit.

Definition wf (n : nat) (a : pauli) : Prop := length (fst a) = n /\ 0 <= snd a < 4.
Definition hermP (a : pauli) : Prop := snd a = 0 \/ snd a = 2.
Definition row (m : plist) (i : nat) : pauli := nth i m (pid 0).

(* a valid Clifford map on n qubits: 2n normalised Hermitian rows of n sites obeying the
   canonical commutation relations (row 2j = image of X_j, row 2j+1 = image of Z_j) *)
Definition valid_map (n : nat) (m : cmap) : Prop :=
  length m = (2 * n)%nat /\
  (forall i, (i < 2 * n)%nat -> wf n (row m i) /\ hermP (row m i)) /\
  (forall i j, (i < 2 * n)%nat -> (j < 2 * n)%nat ->
     acq (fst (row m i)) (fst (row m j)) = expected_acq i j).

(* a valid stabilizer tableau on n qubits with log2-rank r: 2n Hermitian rows (phases 0 or 2) of n sites,
   row j anticommuting with row j+-n and with no other row *)
Definition tableau_ok (n : nat) (t : tableau) : Prop :=
  length (rows t) = (2 * n)%nat /\ (rk t <= n)%nat /\
  (forall i, (i < 2 * n)%nat -> length (fst (row (rows t) i)) = n) /\
  (forall i, (i < 2 * n)%nat -> hermP (row (rows t) i)) /\
  (forall i j, (i < 2 * n)%nat -> (j < 2 * n)%nat ->
     acq (fst (row (rows t) i)) (fst (row (rows t) j)) = tab_expected_acq n i j).

(* product of a list of operators, left to right *)
Definition pprod (n : nat) (l : plist) : pauli := fold_left pmul l (pid n).

(* the operator i^k * a *)
Definition pscale (k : Z) (a : pauli) : pauli := (fst a, (snd a + k) mod 4).

(* lift an operator on the masked qubits to the full register (identity elsewhere) *)
Definition lift (m : list bool) (a : pauli) : pauli := (scatter m (id_str (length m)) (fst a), snd a).
