(* Props/C03.v -- applying a Clifford map is a unitary conjugation (phase-exact homomorphism).  Property theorems only.
   Proved: transform by a valid map is a centre-fixing automorphism of the Pauli group (identity to identity, generators to the listed images, products to products
   with the exact phase, commutation, Hermiticity and squares preserved, phases pulled out), AND "a single unitary U exists": every valid map is a product of pi/4
   rotations (Proofs/GeneratedFacts.v) each of which is conjugation by 1 + iG in the ket semantics (Proofs/UnitaryFacts.v), see C03_implemented_by_a_unitary below. *)
From PC Require Import Gen.Kernels Model.Base Model.Pauli Model.CMap Model.Spec Proofs.PauliFacts Proofs.Transform Proofs.Rotate Proofs.MaskFacts Model.Ket Model.Poly Model.PolySem Proofs.GeneratedFacts Proofs.UnitaryFacts Proofs.CliffordUnitary.

Theorem C03_identity_to_identity : forall n m, valid_map n m -> transform1 m (pid n) = pid n.
Proof. exact transform_pid. Qed.
Print Assumptions C03_identity_to_identity.
Theorem C03_generators_to_listed_images : forall n m k, valid_map n m -> (k < 2*n)%nat -> transform1 m (unit_str n k, 0) = row m k.
Proof. exact transform_unit. Qed.
Print Assumptions C03_generators_to_listed_images.
Theorem C03_products_to_products : forall n m a b, valid_map n m -> length (fst a) = n -> length (fst b) = n ->
  transform1 m (pmul a b) = pmul (transform1 m a) (transform1 m b).
Proof. exact transform_hom. Qed.
Print Assumptions C03_products_to_products.
Theorem C03_commutation_preserved : forall n m a b, valid_map n m -> length (fst a) = n -> length (fst b) = n ->
  acq (fst (transform1 m a)) (fst (transform1 m b)) = acq (fst a) (fst b).
Proof. exact transform_acq. Qed.
Print Assumptions C03_commutation_preserved.
Theorem C03_hermiticity_preserved : forall n m a, valid_map n m -> length (fst a) = n -> Z.even (snd a) = true ->
  Z.even (snd (transform1 m a)) = true.
Proof. exact transform_herm. Qed.
Print Assumptions C03_hermiticity_preserved.
Theorem C03_phase_pulled_out : forall m k a, transform1 m (pscale k a) = pscale k (transform1 m a).
Proof. exact transform_scale. Qed.
Print Assumptions C03_phase_pulled_out.
Theorem C03_result_well_formed : forall n m a, valid_map n m -> length (fst a) = n -> wf n (transform1 m a).
Proof. exact transform_wf. Qed.
Print Assumptions C03_result_well_formed.
Theorem C03_squares_preserved : forall n m a, valid_map n m -> length (fst a) = n ->
  pmul (transform1 m a) (transform1 m a) = transform1 m (pmul a a).
Proof. intros n m a H L. symmetry. apply (transform_hom n m a a H L L). Qed.
Print Assumptions C03_squares_preserved.
(* lists / polynomials: row by row, coefficients untouched (structural) *)
Theorem C03_rowwise : forall m l, pauli_transform m l = map (transform1 m) l.
Proof. reflexivity. Qed.
Print Assumptions C03_rowwise.
(* a map applied through a qubit mask acts as the same map embedded among identity wires *)
Theorem C03_masked_is_embedded : forall N n mk m a, length mk = N -> count_true mk = n -> valid_map n m -> wf N a ->
  transform1_masked m mk a = transform1 (embed (identity_map N) m mk) a.
Proof. exact transform_masked_embed. Qed.
Print Assumptions C03_masked_is_embedded.
Theorem C03_embedded_valid : forall N n mk m, length mk = N -> count_true mk = n -> valid_map n m ->
  valid_map N (embed (identity_map N) m mk).
Proof. exact embed_valid. Qed.
Print Assumptions C03_embedded_valid.
(* the map built from a rotation generator acts identically to the rotation itself *)
Theorem C03_rotation_map_acts_as_rotation : forall n gen a, wf n gen -> hermP gen -> wf n a ->
  transform1 (rotation_map gen) a = rotate1 gen a.
Proof. exact rotation_map_acts. Qed.
Print Assumptions C03_rotation_map_acts_as_rotation.
Theorem C03_rotation_map_valid : forall n gen, wf n gen -> hermP gen -> valid_map n (rotation_map gen).
Proof. exact rotation_map_valid. Qed.
Print Assumptions C03_rotation_map_valid.
(* torch uses the same formulas *)
(* A SINGLE UNITARY EXISTS.  Every valid map is a product of pi/4 Pauli rotations (constructively: diagonalise the images of X_0,Z_0, recurse, fix signs), and
   each rotation is conjugation by V_G = 1 + iG (V_G^dag V_G = 2; sqrt 2 is irrational, so the unnormalised operator is used) in the ket semantics.  Hence there are
   polynomials V, Vd = V^dag and K with  Vd V = 2^K  and  Vd P V = 2^K * transform(P)  for every Pauli operator P, phase included: U = V / 2^(K/2) is the unitary. *)
Theorem C03_implemented_by_a_unitary : forall n m, valid_map n m ->
  exists V Vd K,
    (forall k k', length k = n -> amp (pmulp Vd V) k k' = cmul (two_pow K) (amp (ident_poly n) k k')) /\
    (forall a k k', wf n a -> length k = n -> amp (pmulp Vd (pmulp [(c1, a)] V)) k k' = cmul (two_pow K) (amp [(c1, transform1 m a)] k k')).
Proof. exact clifford_map_unitary. Qed.
Print Assumptions C03_implemented_by_a_unitary.
Theorem C03_product_of_rotations : forall n m, valid_map n m ->
  exists gens : list pauli, Forall (fun g => wf n g /\ hermP g) gens /\ forall a, wf n a -> transform1 m a = GeneratedFacts.rotate_seq1 gens a.
Proof. exact map_is_rotation_product. Qed.
Print Assumptions C03_product_of_rotations.
Theorem C03_torch_formulas : forall a b c,
  torch_transform_phase a b c = np_transform_phase a b c /\ torch_combine_phase a b c = np_combine_phase a b c /\
  torch_combine_bit a b = np_combine_bit a b.
Proof. intros; repeat split; reflexivity. Qed.
Print Assumptions C03_torch_formulas.
