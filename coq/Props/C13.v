(* Props/C13.v -- torchclifford computes the same results as pyclifford (port equivalence).  Property theorems only.
   PARTIAL by design: the numpy model is the reference; for the port, what is PROVED is that every formula and table the translator re-extracts from torchclifford on every run
   coincides with its pyclifford twin (per-site summands and moduli of acq / ipow / ipow_product / ps0, matmul / combine / transform / rotate phase formulas incl. the vectorised
   mask form, token formulas, copy tables).  The control flow of the vectorised kernels (nonzero-order combine, first-nonzero pivot, argmax front, strided map/state conversion)
   is tied to the model by the three-way correspondence check (numpy == torch == model on the same inputs).  Open findings of the port are listed in known_findings.json. *)
From Coq Require Import String.
From PC Require Import Gen.Kernels Gen.Copies Model.Base Model.Pauli Model.Heap Proofs.PauliFacts Proofs.IndexFacts Proofs.HeapFacts Proofs.TorchTwins.
Open Scope Z_scope.

Theorem C13_summands_agree : forall a b c d : bool,
  torch_acq_term (zb a) (zb b) (zb c) (zb d) mod 2 = np_acq_term (zb a) (zb b) (zb c) (zb d) mod 2 /\
  torch_ipow_term (zb a) (zb b) (zb c) (zb d) mod 4 = np_ipow_term (zb a) (zb b) (zb c) (zb d) mod 4 /\
  torch_ipow_product_term (zb a) (zb b) (zb c) (zb d) mod 4 = np_ipow_term (zb a) (zb b) (zb c) (zb d) mod 4 /\
  torch_ps0_term (zb a) (zb b) mod 4 = np_ps0_term (zb a) (zb b) mod 4 /\
  np_acq_mat_term (zb a) (zb b) (zb c) (zb d) mod 2 = np_acq_term (zb a) (zb b) (zb c) (zb d) mod 2.
Proof. exact torch_terms_agree. Qed.
Print Assumptions C13_summands_agree.
Theorem C13_moduli_agree :
  torch_acq_modulus = np_acq_modulus /\ torch_ipow_modulus = np_ipow_modulus /\
  torch_ipow_product_modulus = np_ipow_modulus /\ torch_ps0_modulus = np_ps0_modulus /\
  np_acq_mat_modulus = np_acq_modulus /\ np_p0_modulus = np_ps0_modulus.
Proof. exact torch_moduli_agree. Qed.
Print Assumptions C13_moduli_agree.
Theorem C13_product_formulas_agree : forall p1 p2 ip a b,
  torch_matmul_phase p1 p2 ip = np_matmul_phase p1 p2 ip /\ torch_matmul_bit a b = np_matmul_bit a b /\
  np_batch_dot_phase p1 p2 ip = np_matmul_phase p1 p2 ip /\ np_batch_dot_bit a b = np_matmul_bit a b.
Proof. exact torch_matmul_agree. Qed.
Print Assumptions C13_product_formulas_agree.
Theorem C13_transform_formulas_agree : forall a b c,
  torch_transform_phase a b c = np_transform_phase a b c /\ torch_combine_phase a b c = np_combine_phase a b c /\
  torch_combine_bit a b = np_combine_bit a b.
Proof. intros; repeat split; reflexivity. Qed.
Print Assumptions C13_transform_formulas_agree.
Theorem C13_rotate_formula_agrees : forall p pg ip a b,
  torch_rotate_phase p pg ip 1 = np_rotate_phase p pg ip /\ torch_rotate_phase p pg ip 0 = p mod 4 /\
  torch_rotate_bit a b 1 = np_rotate_bit a b /\ torch_rotate_bit a b 0 = a mod 2.
Proof. intros. unfold torch_rotate_phase, np_rotate_phase, torch_rotate_bit, np_rotate_bit. repeat split; f_equal; ring. Qed.
Print Assumptions C13_rotate_formula_agrees.
Theorem C13_token_formulas_agree : forall x z p : bool * bool, True ->
  (forall a b : bool, torch_tok_site (zb a) (zb b) = np_tok_site (zb a) (zb b)) /\
  (torch_tok_phase 0 = np_tok_phase 0 /\ torch_tok_phase 1 = np_tok_phase 1 /\ torch_tok_phase 2 = np_tok_phase 2 /\ torch_tok_phase 3 = np_tok_phase 3).
Proof. exact torch_tokens_agree. Qed.
Print Assumptions C13_token_formulas_agree.
Theorem C13_copy_tables_agree : copy_table_ok = true /\ copy_table_complete = true.
Proof. exact (conj copy_table_is_ok copy_table_is_complete). Qed.
Print Assumptions C13_copy_tables_agree.
