(* Props/C16.v -- random Cliffords are valid and uniformly distributed.  Property theorems only.
   The samplers are modelled as deterministic functions of the drawn bits (Model/Random.v).  PARTIAL by nature: that the underlying generators (numba's, numpy's,
   torch's) deliver fair independent bits, and that re-drawing g1 until it is non-zero yields the uniform distribution on non-zero strings (rejection sampling), are
   assumptions; statistical tests in the thorough tier support them.  Proved: for every accepted draw the pair is valid; for a fixed g1 the map g2 -> partner is exactly
   two-to-one onto the anticommuting strings (so uniform raw bits give a uniform partner); EXACT uniformity of random_clifford on the symplectic groups for N = 1 (6 matrices,
   12 draws) and N = 2 (720 = |Sp(4,2)| matrices, 2880 draws) by complete enumeration; the N = 2 sampler entangles. *)
From PC Require Import Model.Tableau Model.Spec Proofs.RandomPauliFacts.
From PC Require Import Model.Base Model.Pauli Model.CMap Model.Diag Model.Random Proofs.RandomFacts Proofs.UniformFacts Proofs.DiagFacts Proofs.RandomCliffordFacts Proofs.RandomBijectionFacts.

Theorem C16_pair_anticommutes : forall g1 g2, length g2 = length g1 -> is_id_str g1 = false -> acq g1 (snd (fix_pair g1 g2)) = 1.
Proof. exact fix_pair_anticommute. Qed.
Print Assumptions C16_pair_anticommutes.
Theorem C16_pair_keeps_first : forall g1 g2, fst (fix_pair g1 g2) = g1.
Proof. exact fix_pair_fst. Qed.
Print Assumptions C16_pair_keeps_first.
(* exactly two raw draws g2 give each anticommuting partner t: t itself and shift g1 t, and they are different *)
Theorem C16_pair_two_to_one : forall g1 g2 t, length g2 = length g1 -> length t = length g1 -> is_id_str g1 = false -> acq g1 t = 1 ->
  (snd (fix_pair g1 g2) = t <-> (g2 = t \/ g2 = shift g1 t)).
Proof. exact fix_pair_two_to_one. Qed.
Print Assumptions C16_pair_two_to_one.
Theorem C16_two_preimages_distinct : forall g1 t, length t = length g1 -> is_id_str g1 = false -> shift g1 t <> t.
Proof. exact shift_distinct. Qed.
Print Assumptions C16_two_preimages_distinct.
Theorem C16_shift_is_an_involution : forall g1 g2, length g2 = length g1 -> is_id_str g1 = false -> shift g1 (shift g1 g2) = g2.
Proof. exact shift_involutive. Qed.
Print Assumptions C16_shift_is_an_involution.
(* the diagonalisation step used by the recursive sampler maps the pair to (Z, X or Y) on the first qubit *)
Theorem C16_recursion_step : forall g1 g2 i0, (i0 < length g1)%nat -> length g2 = length g1 -> acq g1 g2 = 1 ->
  let '(gens, g1', g2') := diagonalize2 g1 g2 i0 in
  apply_gens gens g1 = g1' /\ apply_gens gens g2 = g2' /\
  g1' = z_at (length g1) i0 /\ is_onsite g2' i0 = true /\ fst (sget g2' i0) = true.
Proof. exact diag2_spec. Qed.
Print Assumptions C16_recursion_step.
(* exact uniformity on the finite groups, every accepted raw draw enumerated *)
Theorem C16_uniform_N1 :
  length (all_raw_cliffords 1) = 12%nat /\ shapes_ok 1 (all_raw_cliffords 1) = true /\
  forallb symplectic_b (all_raw_cliffords 1) = true /\
  distinct_outputs (all_raw_cliffords 1) = 6%nat /\ all_counts_are 2 (all_raw_cliffords 1) = true.
Proof. exact uniform_1. Qed.
Print Assumptions C16_uniform_N1.
Theorem C16_uniform_N2 :
  length (all_raw_cliffords 2) = 2880%nat /\ shapes_ok 2 (all_raw_cliffords 2) = true /\
  forallb symplectic_b (all_raw_cliffords 2) = true /\
  distinct_outputs (all_raw_cliffords 2) = 720%nat /\ all_counts_are 4 (all_raw_cliffords 2) = true.
Proof. exact uniform_2. Qed.
Print Assumptions C16_uniform_N2.
Theorem C16_entangles :
  existsb (fun m => match m with r0 :: _ => forallb nontrivial r0 | [] => false end) (all_raw_cliffords 2) = true.
Proof. exact entangles_2. Qed.
Print Assumptions C16_entangles.
Theorem C16_random_pauli_shape : forall pairs, length (random_pauli_from pairs) = (2 * length pairs)%nat.
Proof. exact random_pauli_rows. Qed.
Print Assumptions C16_random_pauli_shape.
(* validity for EVERY N and every accepted draw sequence: the sampled table satisfies the canonical commutation relations, and its first two rows are the drawn pair *)
Theorem C16_random_clifford_symplectic_all_N : forall n pairs i j, (1 <= n)%nat -> pairs_ok n pairs -> (i < 2 * n)%nat -> (j < 2 * n)%nat ->
  acq (nth i (random_clifford_from n pairs) []) (nth j (random_clifford_from n pairs) []) = expected_acq i j.
Proof. exact random_clifford_symplectic. Qed.
Print Assumptions C16_random_clifford_symplectic_all_N.
Theorem C16_random_clifford_shape : forall n pairs, (1 <= n)%nat -> pairs_ok n pairs ->
  length (random_clifford_from n pairs) = (2 * n)%nat /\ Forall (fun r => length r = n) (random_clifford_from n pairs).
Proof. exact random_clifford_shape. Qed.
Print Assumptions C16_random_clifford_shape.
Theorem C16_random_clifford_keeps_the_drawn_pair : forall n g1 g2 rest, (1 <= n)%nat -> pairs_ok n ((g1, g2) :: rest) ->
  nth 0 (random_clifford_from n ((g1, g2) :: rest)) [] = g1 /\ nth 1 (random_clifford_from n ((g1, g2) :: rest)) [] = g2.
Proof. exact random_clifford_first_pair. Qed.
Print Assumptions C16_random_clifford_keeps_the_drawn_pair.
(* EXACT UNIFORMITY FOR EVERY N: the recursion is a BIJECTION from accepted draw sequences (exactly n pairs, the j-th an anticommuting pair on n-j qubits) onto the
   symplectic tables.  So if every level draws its pair uniformly among the anticommuting pairs of that width -- which fix_pair delivers from uniform bits, being exactly
   two-to-one (above) -- every symplectic table is produced by exactly one draw sequence: the output is uniform over the symplectic group.  (Sp(2,2) and Sp(4,2) are also
   counted exhaustively above.)  What stays assumed: that the generators of numba / numpy / torch deliver independent fair bits. *)
Theorem C16_random_clifford_is_a_bijection : forall n, (1 <= n)%nat ->
  forall rows, sym_rows n n rows -> exists! p, draw_ok n p /\ random_clifford_from n p = rows.
Proof. exact random_clifford_bijection. Qed.
Print Assumptions C16_random_clifford_is_a_bijection.
Theorem C16_random_clifford_injective : forall n p q, draw_ok n p -> draw_ok n q -> random_clifford_from n p = random_clifford_from n q -> p = q.
Proof. exact random_clifford_injective. Qed.
Print Assumptions C16_random_clifford_injective.
Theorem C16_random_clifford_onto_the_symplectic_tables : forall n rows, (1 <= n)%nat -> sym_rows n n rows -> exists p, draw_ok n p /\ random_clifford_from n p = rows.
Proof. exact random_clifford_surjective. Qed.
Print Assumptions C16_random_clifford_onto_the_symplectic_tables.

(* RANDOM PAULI MAPS (random_pauli_map: an accepted one-qubit pair per qubit, placed on that qubit, 2N random signs), for EVERY N:
   the table obeys the canonical commutation relations, with any signs from {0,2} it is a valid Clifford map, its states are valid for every rank;
   it IS the tensor product of the drawn one-qubit maps; draws -> tables is injective and onto the block-diagonal symplectic tables, and a qubit has exactly 6 accepted
   pairs (the 6 one-qubit Cliffords modulo signs): independent uniform accepted pairs are independent uniform one-qubit Cliffords -- a uniform product *)
Theorem C16_random_pauli_symplectic_all_N : forall pairs i j, Forall pair1_ok pairs -> (i < 2 * length pairs)%nat -> (j < 2 * length pairs)%nat ->
  acq (nth i (random_pauli_from pairs) []) (nth j (random_pauli_from pairs) []) = expected_acq i j.
Proof. exact random_pauli_symplectic. Qed.
Print Assumptions C16_random_pauli_symplectic_all_N.
Theorem C16_random_pauli_map_valid : forall pairs phases, Forall pair1_ok pairs -> length phases = (2 * length pairs)%nat -> Forall (fun p => p = 0 \/ p = 2) phases ->
  valid_map (length pairs) (combine (random_pauli_from pairs) phases).
Proof. exact random_pauli_map_valid. Qed.
Print Assumptions C16_random_pauli_map_valid.
Theorem C16_random_pauli_state_valid : forall pairs phases r, Forall pair1_ok pairs -> length phases = (2 * length pairs)%nat -> Forall (fun p => p = 0 \/ p = 2) phases -> (r <= length pairs)%nat ->
  tableau_ok (length pairs) (to_state (combine (random_pauli_from pairs) phases) r).
Proof. exact random_pauli_state_valid. Qed.
Print Assumptions C16_random_pauli_state_valid.
Theorem C16_random_pauli_is_the_tensor_product : forall pairs i a b, nth_error pairs i = Some (a, b) -> Forall pair1_ok pairs ->
  nth (2 * i) (random_pauli_from pairs) [] = repeat I_site i ++ a ++ repeat I_site (length pairs - i - 1) /\
  nth (2 * i + 1) (random_pauli_from pairs) [] = repeat I_site i ++ b ++ repeat I_site (length pairs - i - 1).
Proof. exact random_pauli_block. Qed.
Print Assumptions C16_random_pauli_is_the_tensor_product.
Theorem C16_random_pauli_draws_to_tables_injective : forall p q, Forall pair1_ok p -> Forall pair1_ok q -> random_pauli_from p = random_pauli_from q -> p = q.
Proof. exact random_pauli_injective. Qed.
Print Assumptions C16_random_pauli_draws_to_tables_injective.
Theorem C16_random_pauli_onto_the_product_tables : forall n rows, length rows = (2 * n)%nat ->
  (forall i, (i < n)%nat -> exists a b, pair1_ok (a, b) /\ nth (2 * i) rows [] = repeat I_site i ++ a ++ repeat I_site (n - i - 1) /\ nth (2 * i + 1) rows [] = repeat I_site i ++ b ++ repeat I_site (n - i - 1)) ->
  exists pairs, Forall pair1_ok pairs /\ length pairs = n /\ random_pauli_from pairs = rows.
Proof. exact random_pauli_onto_block_tables. Qed.
Print Assumptions C16_random_pauli_onto_the_product_tables.
Theorem C16_six_one_qubit_pairs : length (filter (fun p : pstr * pstr => Z.eqb (acq (fst p) (snd p)) 1) (list_prod (all_strs 1) (all_strs 1))) = 6%nat.
Proof. exact one_qubit_pairs_count. Qed.
Print Assumptions C16_six_one_qubit_pairs.
