(* Props/C19.v -- stabilizer-group sampling and classical-shadow snapshots agree with the state.  Property theorems only.
   The drawn selection matrix is an input of the model (sample_rows t C).  PARTIAL: uniformity of numpy.random.randint is assumed; proved is that the map selection -> group
   element is injective (so a uniform selection is a uniform group element).  Proved for snapshots (Proofs/SnapshotFacts.v): validity; every stabilizer of the
   back-evolved basis, with the recorded sign, is in the snapshot's group (it is an eigenstate of the whole basis); Tr(rho_base rho_snapshot) = 2^lp 2^-r' > 0; purity for a pure basis. *)
From Coq Require Import QArith Qcanon.
From PC Require Import Model.Base Model.Pauli Model.Ket Model.PolySem Model.Tableau Model.Sample Model.Spec Proofs.MeasureFacts Proofs.SampleFacts Proofs.TraceFacts Proofs.OverlapFacts Proofs.MeasureCircuitFacts Proofs.JointBornFacts Proofs.SnapshotFacts.
Open Scope Z_scope.

Theorem C19_samples_are_group_elements : forall n t C a, tableau_ok n t -> Forall (fun sel => length sel = (n - rk t)%nat) C ->
  In a (sample_rows t C) -> in_group n t a.
Proof. exact sample_in_group. Qed.
Print Assumptions C19_samples_are_group_elements.
Theorem C19_samples_have_expectation_plus_one : forall n t C a, tableau_ok n t -> Forall (fun sel => length sel = (n - rk t)%nat) C ->
  In a (sample_rows t C) -> expect1 t a = 1.
Proof. exact sample_expect_plus. Qed.
Print Assumptions C19_samples_have_expectation_plus_one.
Theorem C19_selection_to_group_element_injective : forall n t s1 s2, tableau_ok n t -> length s1 = (n - rk t)%nat -> length s2 = (n - rk t)%nat ->
  gprod n s1 (active t) = gprod n s2 (active t) -> s1 = s2.
Proof. exact selection_injective. Qed.
Print Assumptions C19_selection_to_group_element_injective.
(* binary_repr(arange(2^k)) lists every bit vector exactly once *)
Theorem C19_binary_repr_enumerates : forall k, length (all_bitvecs k) = (2 ^ k)%nat /\ NoDup (all_bitvecs k) /\ (forall v, length v = k -> In v (all_bitvecs k)).
Proof. intro k. exact (conj (all_bitvecs_length k) (conj (all_bitvecs_nodup k) (all_bitvecs_complete k))). Qed.
Print Assumptions C19_binary_repr_enumerates.
(* the density-matrix expansion lists every group element exactly once (2^(N-r) terms, pairwise different even as strings), including the corner N - r = 0 *)
Theorem C19_density_matrix_lists_the_group : forall n t a, tableau_ok n t -> (in_group n t a <-> In a (density_terms t)).
Proof. exact density_terms_complete. Qed.
Print Assumptions C19_density_matrix_lists_the_group.
Theorem C19_density_matrix_each_element_once : forall n t, tableau_ok n t ->
  length (density_terms t) = (2 ^ (n - rk t))%nat /\ NoDup (density_terms t) /\ NoDup (map fst (density_terms t)).
Proof. intros n t H. exact (conj (density_terms_length n t H) (conj (density_terms_nodup n t H) (density_terms_strings_nodup n t H))). Qed.
Print Assumptions C19_density_matrix_each_element_once.
(* a classical-shadow snapshot (copy of the base state measured in the back-evolved basis) is a valid state *)
Theorem C19_snapshot_valid : forall n base povm coins, tableau_ok n base -> tableau_ok n povm -> Forall (fun c => c = 0 \/ c = 1) coins ->
  tableau_ok n (fst (fst (snapshot base povm coins))).
Proof. exact snapshot_ok. Qed.
Print Assumptions C19_snapshot_valid.
(* STABILIZED UP TO SIGN BY THE BACK-EVOLVED BASIS: every stabilizer of the basis state, carrying the recorded outcome as its sign, is an element of the snapshot's
   stabilizer group (one outcome bit per stabilizer, log2-probability <= 0) *)
Theorem C19_snapshot_stabilized_by_the_basis : forall n base povm coins, tableau_ok n base -> tableau_ok n povm -> bit_coins coins ->
  (length (stabilizers povm) <= length coins)%nat ->
  let '(t', outs, lp) := snapshot base povm coins in
  tableau_ok n t' /\ length outs = length (stabilizers povm) /\ Forall (fun b => b = 0 \/ b = 1) outs /\ lp <= 0 /\
  Forall (fun so => in_group n t' so) (signed_list (stabilizers povm) outs).
Proof. exact snapshot_stabilized. Qed.
Print Assumptions C19_snapshot_stabilized_by_the_basis.
(* ... so the snapshot is an eigenstate of the whole basis: measuring the basis again is deterministic and returns the same record *)
Theorem C19_snapshot_is_an_eigenstate_of_the_basis : forall n base povm coins, tableau_ok n base -> tableau_ok n povm -> bit_coins coins ->
  (length (stabilizers povm) <= length coins)%nat ->
  let '(t', outs, lp) := snapshot base povm coins in
  forall coins2, bit_coins coins2 -> measure t' (stabilizers povm) coins2 = (t', outs, 0, coins2).
Proof. exact snapshot_is_eigenstate. Qed.
Print Assumptions C19_snapshot_is_an_eigenstate_of_the_basis.
(* NON-ZERO OVERLAP WITH THE MEASURED STATE: Tr(rho_base rho_snapshot) = 2^lp 2^-r' , a positive real *)
Theorem C19_snapshot_overlap_value : forall n base povm coins, tableau_ok n base -> tableau_ok n povm -> bit_coins coins ->
  (length (stabilizers povm) <= length coins)%nat ->
  let '(t', outs, lp) := snapshot base povm coins in
  trace_sem n (pmulp (density_poly base) (density_poly t')) = cmul (half_pow (Z.to_nat (- lp))) (half_pow (rk t')).
Proof. exact snapshot_overlap_value. Qed.
Print Assumptions C19_snapshot_overlap_value.
Theorem C19_snapshot_overlaps_the_measured_state : forall n base povm coins, tableau_ok n base -> tableau_ok n povm -> bit_coins coins ->
  (length (stabilizers povm) <= length coins)%nat ->
  let '(t', outs, lp) := snapshot base povm coins in
  exists x : Qc, (0 < x)%Qc /\ trace_sem n (pmulp (density_poly base) (density_poly t')) = (x, 0%Qc).
Proof. exact snapshot_overlap_positive. Qed.
Print Assumptions C19_snapshot_overlaps_the_measured_state.
(* for a PURE basis state (the back-evolved computational basis state) the snapshot is pure, whatever the rank of the measured state *)
Theorem C19_snapshot_of_a_pure_basis_is_pure : forall n base povm coins, tableau_ok n base -> tableau_ok n povm -> rk povm = 0%nat ->
  bit_coins coins -> (n <= length coins)%nat ->
  let '(t', outs, lp) := snapshot base povm coins in rk t' = 0%nat.
Proof. exact snapshot_pure. Qed.
Print Assumptions C19_snapshot_of_a_pure_basis_is_pure.
Example C19_corner : density_terms (mixed_state 2) = [(id_str 2, 0)].
Proof. vm_compute. reflexivity. Qed.
