(* Props/C19.v -- stabilizer-group sampling and classical-shadow snapshots agree with the state.  Property theorems only.
   The drawn selection matrix is an input of the model (sample_rows t C).  PARTIAL: uniformity of numpy.random.randint is assumed; proved is that the map selection -> group
   element is injective (so a uniform selection is a uniform group element).  Snapshot overlap with the measured state is positive because the realised outcomes have
   probability 2^lp > 0 (C06); proved here is validity of the snapshot; "stabilized up to sign by the back-evolved basis" follows from C06 (every measured generator is
   afterwards a stabilizer up to sign) and is compared on the implementation by the correspondence check. *)
From PC Require Import Model.Base Model.Pauli Model.Tableau Model.Sample Model.Spec Proofs.MeasureFacts Proofs.SampleFacts.
Open Scope Z_scope.

Theorem C19_samples_are_group_elements : forall n t C a, tableau_ok n t -> Forall (fun sel => length sel = (n - rk t)%nat) C ->
  In a (sample_rows t C) -> in_group n t a.
Proof. exact sample_in_group. Qed.
Print Assumptions C19_samples_are_group_elements.
Theorem C19_samples_have_expectation_plus_one : forall n t C a, tableau_ok n t -> Forall (fun sel => length sel = (n - rk t)%nat) C ->
  In a (sample_rows t C) -> expect1 t a = 1.
Proof. exact sample_expect_plus. Qed.
Print Assumptions C19_samples_have_expectation_plus_one.
Theorem C19_selection_to_group_element_injective : forall n t s1 s2, tableau_ok n t -> length s1 = (n - rk t)%nat -> length s2 = (n - rk t)%nat ->
  gprod n s1 (active t) = gprod n s2 (active t) -> s1 = s2.
Proof. exact selection_injective. Qed.
Print Assumptions C19_selection_to_group_element_injective.
(* binary_repr(arange(2^k)) lists every bit vector exactly once *)
Theorem C19_binary_repr_enumerates : forall k, length (all_bitvecs k) = (2 ^ k)%nat /\ NoDup (all_bitvecs k) /\ (forall v, length v = k -> In v (all_bitvecs k)).
Proof. intro k. exact (conj (all_bitvecs_length k) (conj (all_bitvecs_nodup k) (all_bitvecs_complete k))). Qed.
Print Assumptions C19_binary_repr_enumerates.
(* the density-matrix expansion lists every group element exactly once (2^(N-r) terms, pairwise different even as strings), including the corner N - r = 0 *)
Theorem C19_density_matrix_lists_the_group : forall n t a, tableau_ok n t -> (in_group n t a <-> In a (density_terms t)).
Proof. exact density_terms_complete. Qed.
Print Assumptions C19_density_matrix_lists_the_group.
Theorem C19_density_matrix_each_element_once : forall n t, tableau_ok n t ->
  length (density_terms t) = (2 ^ (n - rk t))%nat /\ NoDup (density_terms t) /\ NoDup (map fst (density_terms t)).
Proof. intros n t H. exact (conj (density_terms_length n t H) (conj (density_terms_nodup n t H) (density_terms_strings_nodup n t H))). Qed.
Print Assumptions C19_density_matrix_each_element_once.
(* a classical-shadow snapshot (copy of the base state measured in the back-evolved basis) is a valid state *)
Theorem C19_snapshot_valid : forall n base povm coins, tableau_ok n base -> tableau_ok n povm -> Forall (fun c => c = 0 \/ c = 1) coins ->
  tableau_ok n (fst (fst (snapshot base povm coins))).
Proof. exact snapshot_ok. Qed.
Print Assumptions C19_snapshot_valid.
Example C19_corner : density_terms (mixed_state 2) = [(id_str 2, 0)].
Proof. vm_compute. reflexivity. Qed.
