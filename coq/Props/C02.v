(* Props/C02.v -- Clifford rotation by a Pauli generator is conjugation by exp(i*pi/4*G).  Property theorems only.
   U = (1+iG)/sqrt2.  U^dagger P U = P if [G,P]=0 and = i P G if {G,P}=0; in the Pauli group this is stated through the
   conjugation identities  G P G = P  resp.  G P G = -P  (so that (1-iG) P (1+iG) = P + i(PG-GP) + GPG = 2P resp. 2iPG). *)
From PC Require Import Gen.Kernels Model.Base Model.Pauli Model.CMap Model.Spec Proofs.PauliFacts Proofs.Rotate Model.Ket Model.Poly Model.PolySem Proofs.UnitaryFacts Proofs.ProjectorFacts.

Theorem C02_commuting_unchanged : forall gen a, acq (fst gen) (fst a) = 0 -> rotate1 gen a = a.
Proof. exact rotate_commute. Qed.
Print Assumptions C02_commuting_unchanged.

Theorem C02_anticommuting_iPG : forall gen a, length (fst gen) = length (fst a) -> acq (fst gen) (fst a) = 1 ->
  rotate1 gen a = pscale 1 (pmul a gen).
Proof. exact rotate_anticommute. Qed.
Print Assumptions C02_anticommuting_iPG.

Theorem C02_conjugation_commuting : forall n gen a, wf n gen -> hermP gen -> wf n a -> acq (fst gen) (fst a) = 0 ->
  pmul (pmul gen a) gen = a.
Proof. exact conj_commute. Qed.
Print Assumptions C02_conjugation_commuting.

Theorem C02_conjugation_anticommuting : forall n gen a, wf n gen -> hermP gen -> wf n a -> acq (fst gen) (fst a) = 1 ->
  pmul (pmul gen a) gen = pneg a.
Proof. exact conj_anticommute. Qed.
Print Assumptions C02_conjugation_anticommuting.

(* a conjugation: multiplicative, commutation- and Hermiticity-preserving *)
Theorem C02_multiplicative : forall n gen a b, wf n gen -> hermP gen -> wf n a -> wf n b ->
  rotate1 gen (pmul a b) = pmul (rotate1 gen a) (rotate1 gen b).
Proof. exact rotate_hom. Qed.
Print Assumptions C02_multiplicative.
Theorem C02_preserves_commutation : forall n gen a b, length (fst gen) = n -> length (fst a) = n -> length (fst b) = n ->
  acq (fst (rotate1 gen a)) (fst (rotate1 gen b)) = acq (fst a) (fst b).
Proof. exact rotate_acq. Qed.
Print Assumptions C02_preserves_commutation.
Theorem C02_preserves_hermiticity : forall n gen a, wf n gen -> hermP gen -> wf n a -> hermP a -> hermP (rotate1 gen a).
Proof. exact rotate_herm. Qed.
Print Assumptions C02_preserves_hermiticity.
Theorem C02_phase_pulled_out : forall gen k a, rotate1 gen (pscale k a) = pscale k (rotate1 gen a).
Proof. exact rotate_scale. Qed.
Print Assumptions C02_phase_pulled_out.

(* rotating by -G undoes rotating by G (both orders); four rotations restore every input *)
Theorem C02_minus_G_undoes : forall n gen a, wf n gen -> hermP gen -> wf n a -> rotate1 (pneg gen) (rotate1 gen a) = a.
Proof. exact rotate_neg_inverse. Qed.
Print Assumptions C02_minus_G_undoes.
Theorem C02_G_undoes_minus : forall n gen a, wf n gen -> hermP gen -> wf n a -> rotate1 gen (rotate1 (pneg gen) a) = a.
Proof. exact rotate_inverse_neg. Qed.
Print Assumptions C02_G_undoes_minus.
Theorem C02_four_rotations : forall n gen a, wf n gen -> hermP gen -> wf n a ->
  rotate1 gen (rotate1 gen (rotate1 gen (rotate1 gen a))) = a.
Proof. exact rotate_four. Qed.
Print Assumptions C02_four_rotations.

(* with a mask: the same rule with the generator lifted to the masked qubits; other qubits untouched *)
Theorem C02_masked_is_lifted : forall N m gen a, length m = N -> count_true m = length (fst gen) -> length (fst a) = N ->
  rotate1_masked gen m a = rotate1 (lift m gen) a.
Proof. exact rotate_masked_lift. Qed.
Print Assumptions C02_masked_is_lifted.
Theorem C02_masked_outside_untouched : forall N m gen a, length m = N -> count_true m = length (fst gen) -> length (fst a) = N ->
  gather (map negb m) (fst (rotate1_masked gen m a)) = gather (map negb m) (fst a).
Proof. exact rotate_masked_outside. Qed.
Print Assumptions C02_masked_outside_untouched.

(* lists, maps and states are rotated row by row; the rotation map lists the rotated X_i / Z_i *)
Theorem C02_rowwise : forall gen l, clifford_rotate gen l = map (rotate1 gen) l.
Proof. reflexivity. Qed.
Print Assumptions C02_rowwise.
Theorem C02_rotation_map_rows : forall gen k, (k < 2 * length (fst gen))%nat ->
  nth k (rotation_map gen) (pid 0) = rotate1 gen (unit_str (length (fst gen)) k, 0).
Proof. exact rotation_map_rows. Qed.
Print Assumptions C02_rotation_map_rows.

(* torch's vectorised formula coincides with the numpy one: the rotation is applied iff the mask bit is 1 *)
Theorem C02_torch_formula : forall p pg ip a b,
  torch_rotate_phase p pg ip 1 = np_rotate_phase p pg ip /\ torch_rotate_phase p pg ip 0 = p mod 4 /\
  torch_rotate_bit a b 1 = np_rotate_bit a b /\ torch_rotate_bit a b 0 = a mod 2.
Proof. intros. unfold torch_rotate_phase, np_rotate_phase, torch_rotate_bit, np_rotate_bit. repeat split; f_equal; ring. Qed.
Print Assumptions C02_torch_formula.

Example C02_example :   (* X rotated by G = Z gives i*X*Z = Y ;  generator -ZZ on a masked register *)
  rotate1 ([(false, true)], 0) ([(true, false)], 0) = ([(true, true)], 0) /\
  rotate1_masked ([(false, true); (false, true)], 2) [true; false; true] ([(true, false); (true, true); (false, false)], 1)
  = ([(true, true); (true, true); (false, true)], 3).
Proof. vm_compute. split; reflexivity. Qed.
(* THE ROTATION IS CONJUGATION BY exp(i pi/4 G), as a matrix identity in the ket semantics (unnormalised V = 1 + iG, V^dag V = 2): V^dag P V = 2 * rotate(P),
   for single operators, for whole polynomials termwise, and for sequences of rotations *)
Theorem C02_rotation_is_conjugation : forall n g a k k', wf n g -> hermP g -> wf n a -> length k = n ->
  amp (pmulp (rot_op_dag n g) (pmulp [(c1, a)] (rot_op n g))) k k' = cmul c2 (amp [(c1, rotate1 g a)] k k').
Proof. exact rotate_is_conjugation. Qed.
Print Assumptions C02_rotation_is_conjugation.
Theorem C02_rotation_operator_unitary : forall n g k k', wf n g -> hermP g -> length k = n ->
  amp (pmulp (rot_op_dag n g) (rot_op n g)) k k' = cmul c2 (amp (ident_poly n) k k').
Proof. exact rot_op_unitary. Qed.
Print Assumptions C02_rotation_operator_unitary.
Theorem C02_rotation_sequence_is_conjugation : forall n gens a k k', Forall (fun g => wf n g /\ hermP g) gens -> wf n a -> length k = n ->
  amp (pmulp (rot_seq_op_dag n gens) (pmulp [(c1, a)] (rot_seq_op n gens))) k k' = cmul (two_pow (length gens)) (amp [(c1, UnitaryFacts.rotate_seq1 gens a)] k k').
Proof. exact rotate_seq_is_conjugation. Qed.
Print Assumptions C02_rotation_sequence_is_conjugation.
