(* Props/C11.v -- named gates are the textbook Cliffords; C(0..23) enumerates the one-qubit group.
   The tables gate_H ... gate_C_table are REGENERATED from circuit.py on every run (Gen/Tables.v); every statement below is
   re-checked against them.  Finite statements are decided by computation over the complete finite domain. *)
From PC Require Import Gen.Tables Model.Base Model.Pauli Model.CMap Model.Circuit Proofs.GateFacts.

(* the standard conjugation tables: (image of X_q, image of Z_q) *)
Theorem C11_H : gate_H = [([Z1], 0); ([X1], 0)].  Proof. exact table_H. Qed.
Print Assumptions C11_H.
Theorem C11_S : gate_S = [([Y1], 0); ([Z1], 0)].  Proof. exact table_S. Qed.
Print Assumptions C11_S.
Theorem C11_X : gate_X = [([X1], 0); ([Z1], 2)].  Proof. exact table_X. Qed.
Print Assumptions C11_X.
Theorem C11_Y : gate_Y = [([X1], 2); ([Z1], 2)].  Proof. exact table_Y. Qed.
Print Assumptions C11_Y.
Theorem C11_Z : gate_Z = [([X1], 2); ([Z1], 0)].  Proof. exact table_Z. Qed.
Print Assumptions C11_Z.
(* CNOT, control = first listed qubit: Xc -> Xc Xt, Zc -> Zc, Xt -> Xt, Zt -> Zc Zt, for either ordering of c and t
   (the mask is order-blind, so for c > t the table is written for the ascending register (t, c)) *)
Theorem C11_CNOT_control_low  : gate_CNOT_asc  = [([X1; X1], 0); ([Z1; I1], 0); ([I1; X1], 0); ([Z1; Z1], 0)].
Proof. exact table_CNOT_asc. Qed.
Print Assumptions C11_CNOT_control_low.
Theorem C11_CNOT_control_high : gate_CNOT_desc = [([X1; I1], 0); ([Z1; Z1], 0); ([X1; X1], 0); ([I1; Z1], 0)].
Proof. exact table_CNOT_desc. Qed.
Print Assumptions C11_CNOT_control_high.
Theorem C11_CNOT_orientation : forall a b, a <> b ->
  named_gate 5 [a; b] = Some {| gq := [a; b]; gk := GMap (Some (if Nat.ltb a b then gate_CNOT_asc else gate_CNOT_desc)) None |}.
Proof. intros a b _. unfold named_gate. cbn [Z.eqb]. destruct (Nat.ltb a b); reflexivity. Qed.
Print Assumptions C11_CNOT_orientation.

(* all named tables are valid Clifford maps with two-sided inverses *)
Theorem C11_named_valid : forallb valid_map_b all_named = true.
Proof. exact named_valid. Qed.
Print Assumptions C11_named_valid.
Theorem C11_named_invertible :
  forallb (fun a => match inverse a with Some b => cmap_eqb (compose a b) (identity_map (length a / 2)) && cmap_eqb (compose b a) (identity_map (length a / 2)) | None => false end) all_named = true.
Proof. exact named_inverse. Qed.
Print Assumptions C11_named_invertible.

(* the 24 indexed gates: valid, pairwise different, closed under composition and inversion *)
Theorem C11_C_has_24 : length gate_C_table = 24%nat.
Proof. exact C_count. Qed.
Print Assumptions C11_C_has_24.
Theorem C11_C_valid : forallb valid_map_b gate_C_table = true.
Proof. exact C_valid. Qed.
Print Assumptions C11_C_valid.
Theorem C11_C_pairwise_distinct : forall i j, (i < 24)%nat -> (j < 24)%nat -> i <> j -> nth i gate_C_table [] <> nth j gate_C_table [].
Proof. exact C_distinct. Qed.
Print Assumptions C11_C_pairwise_distinct.
Theorem C11_C_closed_under_compose :
  forallb (fun a => forallb (fun b => memb (compose a b) gate_C_table) gate_C_table) gate_C_table = true.
Proof. exact C_closed_compose. Qed.
Print Assumptions C11_C_closed_under_compose.
Theorem C11_C_closed_under_inverse :
  forallb (fun a => match inverse a with Some b => memb b gate_C_table && cmap_eqb (compose a b) (identity_map 1) && cmap_eqb (compose b a) (identity_map 1) | None => false end) gate_C_table = true.
Proof. exact C_closed_inverse. Qed.
Print Assumptions C11_C_closed_under_inverse.
Theorem C11_C_contains_identity_and_named :
  memb (identity_map 1) gate_C_table = true /\ forallb (fun g => memb g gate_C_table) [gate_H; gate_S; gate_X; gate_Y; gate_Z] = true.
Proof. exact (conj C_has_identity named_in_C). Qed.
Print Assumptions C11_C_contains_identity_and_named.

(* invalid indices and wrong qubit counts are rejected *)
Theorem C11_index_in_range : forall k q, 0 <= k < 24 ->
  exists t, named_gate (100 + k) [q] = Some {| gq := [q]; gk := GMap (Some t) None |} /\ nth_error gate_C_table (Z.to_nat k) = Some t.
Proof. exact C_index. Qed.
Print Assumptions C11_index_in_range.
Theorem C11_index_out_of_range : forall k q, (-94 <= k < 0 \/ 24 <= k) -> named_gate (100 + k) [q] = None.
Proof. exact C_guard_range. Qed.
Print Assumptions C11_index_out_of_range.
Theorem C11_wrong_arity_1 : forall nm qs, nm <> 5 -> length qs <> 1%nat -> named_gate nm qs = None.
Proof. exact named_guard_arity1. Qed.
Print Assumptions C11_wrong_arity_1.
Theorem C11_wrong_arity_cnot : forall qs, length qs <> 2%nat -> named_gate 5 qs = None.
Proof. exact named_guard_cnot. Qed.
Print Assumptions C11_wrong_arity_cnot.
