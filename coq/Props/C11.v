(* Props/C11.v -- named gates are the textbook Cliffords; C(0..23) enumerates the one-qubit group.
   The tables gate_H ... gate_C_table are REGENERATED from circuit.py on every run (Gen/Tables.v); every statement below is
   re-checked against them.  Finite statements are decided by computation over the complete finite domain. *)
From PC Require Import Gen.Tables Model.Base Model.Pauli Model.CMap Model.Circuit Proofs.GateFacts Model.Spec Model.Ket Model.Poly Model.PolySem Proofs.TraceFacts Proofs.NamedGateFacts.

(* the standard conjugation tables: (image of X_q, image of Z_q) *)
Theorem C11_H : gate_H = [([Z1], 0); ([X1], 0)].  Proof. exact table_H. Qed.
Print Assumptions C11_H.
Theorem C11_S : gate_S = [([Y1], 0); ([Z1], 0)].  Proof. exact table_S. Qed.
Print Assumptions C11_S.
Theorem C11_X : gate_X = [([X1], 0); ([Z1], 2)].  Proof. exact table_X. Qed.
Print Assumptions C11_X.
Theorem C11_Y : gate_Y = [([X1], 2); ([Z1], 2)].  Proof. exact table_Y. Qed.
Print Assumptions C11_Y.
Theorem C11_Z : gate_Z = [([X1], 2); ([Z1], 0)].  Proof. exact table_Z. Qed.
Print Assumptions C11_Z.
(* CNOT, control = first listed qubit: Xc -> Xc Xt, Zc -> Zc, Xt -> Xt, Zt -> Zc Zt, for either ordering of c and t
   (the mask is order-blind, so for c > t the table is written for the ascending register (t, c)) *)
Theorem C11_CNOT_control_low  : gate_CNOT_asc  = [([X1; X1], 0); ([Z1; I1], 0); ([I1; X1], 0); ([Z1; Z1], 0)].
Proof. exact table_CNOT_asc. Qed.
Print Assumptions C11_CNOT_control_low.
Theorem C11_CNOT_control_high : gate_CNOT_desc = [([X1; I1], 0); ([Z1; Z1], 0); ([X1; X1], 0); ([I1; Z1], 0)].
Proof. exact table_CNOT_desc. Qed.
Print Assumptions C11_CNOT_control_high.
Theorem C11_CNOT_orientation : forall a b, a <> b ->
  named_gate 5 [a; b] = Some {| gq := [a; b]; gk := GMap (Some (if Nat.ltb a b then gate_CNOT_asc else gate_CNOT_desc)) None |}.
Proof. intros a b _. unfold named_gate. cbn [Z.eqb]. destruct (Nat.ltb a b); reflexivity. Qed.
Print Assumptions C11_CNOT_orientation.

(* all named tables are valid Clifford maps with two-sided inverses *)
Theorem C11_named_valid : forallb valid_map_b all_named = true.
Proof. exact named_valid. Qed.
Print Assumptions C11_named_valid.
Theorem C11_named_invertible :
  forallb (fun a => match inverse a with Some b => cmap_eqb (compose a b) (identity_map (length a / 2)) && cmap_eqb (compose b a) (identity_map (length a / 2)) | None => false end) all_named = true.
Proof. exact named_inverse. Qed.
Print Assumptions C11_named_invertible.

(* the 24 indexed gates: valid, pairwise different, closed under composition and inversion *)
Theorem C11_C_has_24 : length gate_C_table = 24%nat.
Proof. exact C_count. Qed.
Print Assumptions C11_C_has_24.
Theorem C11_C_valid : forallb valid_map_b gate_C_table = true.
Proof. exact C_valid. Qed.
Print Assumptions C11_C_valid.
Theorem C11_C_pairwise_distinct : forall i j, (i < 24)%nat -> (j < 24)%nat -> i <> j -> nth i gate_C_table [] <> nth j gate_C_table [].
Proof. exact C_distinct. Qed.
Print Assumptions C11_C_pairwise_distinct.
Theorem C11_C_closed_under_compose :
  forallb (fun a => forallb (fun b => memb (compose a b) gate_C_table) gate_C_table) gate_C_table = true.
Proof. exact C_closed_compose. Qed.
Print Assumptions C11_C_closed_under_compose.
Theorem C11_C_closed_under_inverse :
  forallb (fun a => match inverse a with Some b => memb b gate_C_table && cmap_eqb (compose a b) (identity_map 1) && cmap_eqb (compose b a) (identity_map 1) | None => false end) gate_C_table = true.
Proof. exact C_closed_inverse. Qed.
Print Assumptions C11_C_closed_under_inverse.
Theorem C11_C_contains_identity_and_named :
  memb (identity_map 1) gate_C_table = true /\ forallb (fun g => memb g gate_C_table) [gate_H; gate_S; gate_X; gate_Y; gate_Z] = true.
Proof. exact (conj C_has_identity named_in_C). Qed.
Print Assumptions C11_C_contains_identity_and_named.

(* invalid indices and wrong qubit counts are rejected *)
Theorem C11_index_in_range : forall k q, 0 <= k < 24 ->
  exists t, named_gate (100 + k) [q] = Some {| gq := [q]; gk := GMap (Some t) None |} /\ nth_error gate_C_table (Z.to_nat k) = Some t.
Proof. exact C_index. Qed.
Print Assumptions C11_index_in_range.
Theorem C11_index_out_of_range : forall k q, (-94 <= k < 0 \/ 24 <= k) -> named_gate (100 + k) [q] = None.
Proof. exact C_guard_range. Qed.
Print Assumptions C11_index_out_of_range.
Theorem C11_wrong_arity_1 : forall nm qs, nm <> 5 -> length qs <> 1%nat -> named_gate nm qs = None.
Proof. exact named_guard_arity1. Qed.
Print Assumptions C11_wrong_arity_1.
Theorem C11_wrong_arity_cnot : forall qs, length qs <> 2%nat -> named_gate 5 qs = None.
Proof. exact named_guard_cnot. Qed.
Print Assumptions C11_wrong_arity_cnot.
(* THE TABLES ARE THE TEXTBOOK GATES: with the unnormalised operators  X+Z (= sqrt2 H),  1+iZ (= (1+i) S^dagger; the table of S is U P U^dagger for the textbook S = V^dagger),
   X, Y, Z,  1+Z_c+X_t-Z_c X_t (= 2 CNOT)  one has  V^dagger V = s  and  V^dagger P V = s * table(P)  for EVERY Pauli operator P, phase included -- matrix identities in the ket
   semantics, in the orientation of the library's rotations (C02).  All 24 C(k) are products of at most six H / S factors, with the corresponding product of operators. *)
Theorem C11_H_is_conjugation_by_hadamard : forall a k0 k', wf 1 a -> length k0 = 1%nat ->
  amp (pmulp (dag op_H) (pmulp [(c1, a)] op_H)) k0 k' = cmul (zcoef 2) (amp [(c1, transform1 gate_H a)] k0 k').
Proof. exact table_is_conjugation_H. Qed.
Print Assumptions C11_H_is_conjugation_by_hadamard.
Theorem C11_S_is_conjugation_by_phase_gate : forall a k0 k', wf 1 a -> length k0 = 1%nat ->
  amp (pmulp (dag op_S) (pmulp [(c1, a)] op_S)) k0 k' = cmul (zcoef 2) (amp [(c1, transform1 gate_S a)] k0 k').
Proof. exact table_is_conjugation_S. Qed.
Print Assumptions C11_S_is_conjugation_by_phase_gate.
Theorem C11_XYZ_are_conjugation_by_paulis : forall a k0 k', wf 1 a -> length k0 = 1%nat ->
  amp (pmulp (dag op_X) (pmulp [(c1, a)] op_X)) k0 k' = cmul (zcoef 1) (amp [(c1, transform1 gate_X a)] k0 k') /\
  amp (pmulp (dag op_Y) (pmulp [(c1, a)] op_Y)) k0 k' = cmul (zcoef 1) (amp [(c1, transform1 gate_Y a)] k0 k') /\
  amp (pmulp (dag op_Z) (pmulp [(c1, a)] op_Z)) k0 k' = cmul (zcoef 1) (amp [(c1, transform1 gate_Z a)] k0 k').
Proof. intros a k0 k' Ha Hk. repeat split; [exact (table_is_conjugation_X a k0 k' Ha Hk) | exact (table_is_conjugation_Y a k0 k' Ha Hk) | exact (table_is_conjugation_Z a k0 k' Ha Hk)]. Qed.
Print Assumptions C11_XYZ_are_conjugation_by_paulis.
Theorem C11_CNOT_is_conjugation_both_orderings : forall a k0 k', wf 2 a -> length k0 = 2%nat ->
  amp (pmulp (dag op_CNOT01) (pmulp [(c1, a)] op_CNOT01)) k0 k' = cmul (zcoef 4) (amp [(c1, transform1 gate_CNOT_asc a)] k0 k') /\
  amp (pmulp (dag op_CNOT10) (pmulp [(c1, a)] op_CNOT10)) k0 k' = cmul (zcoef 4) (amp [(c1, transform1 gate_CNOT_desc a)] k0 k').
Proof. intros a k0 k' Ha Hk. split; [exact (table_is_conjugation_CNOT_asc a k0 k' Ha Hk) | exact (table_is_conjugation_CNOT_desc a k0 k' Ha Hk)]. Qed.
Print Assumptions C11_CNOT_is_conjugation_both_orderings.
Theorem C11_operators_are_unitary_up_to_scale : forall k1 k1' k2 k2', length k1 = 1%nat -> length k2 = 2%nat ->
  amp (pmulp (dag op_H) op_H) k1 k1' = cmul (zcoef 2) (amp (ident_poly 1) k1 k1') /\
  amp (pmulp (dag op_S) op_S) k1 k1' = cmul (zcoef 2) (amp (ident_poly 1) k1 k1') /\
  amp (pmulp (dag op_CNOT01) op_CNOT01) k2 k2' = cmul (zcoef 4) (amp (ident_poly 2) k2 k2') /\
  amp (pmulp (dag op_CNOT10) op_CNOT10) k2 k2' = cmul (zcoef 4) (amp (ident_poly 2) k2 k2').
Proof. intros k1 k1' k2 k2' H1 H2. repeat split; [exact (op_unitary_H k1 k1' H1) | exact (op_unitary_S k1 k1' H1) | exact (op_unitary_CNOT_asc k2 k2' H2) | exact (op_unitary_CNOT_desc k2 k2' H2)]. Qed.
Print Assumptions C11_operators_are_unitary_up_to_scale.
Theorem C11_every_C_gate_is_a_conjugation : forall i, (i < 24)%nat ->
  exists w, (length w <= 6)%nat /\ nth i gate_C_table [] = word_map w /\
    (forall k0 k', length k0 = 1%nat -> amp (pmulp (dag (word_op w)) (word_op w)) k0 k' = cmul (two_pow (length w)) (amp (ident_poly 1) k0 k')) /\
    (forall a k0 k', wf 1 a -> length k0 = 1%nat ->
       amp (pmulp (dag (word_op w)) (pmulp [(c1, a)] (word_op w))) k0 k' = cmul (two_pow (length w)) (amp [(c1, transform1 (nth i gate_C_table []) a)] k0 k')).
Proof. exact C_table_conjugations. Qed.
Print Assumptions C11_every_C_gate_is_a_conjugation.
