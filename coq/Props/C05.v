(* Props/C05.v -- every reachable stabilizer state is a valid density matrix (tableau invariant).  Property theorems only.
   tableau_ok n t (Model/Spec.v): 2n rows of n sites, all Hermitian (phase 0 or 2), row j anticommuting with its partner j+-n and with no other row, 0 <= r <= n.
   The alphabet sop / step function sstep (Proofs/ReachFacts.v) lists the public state-changing operations; sop_ok is their documented domain.
   "Denotes a positive operator of trace one and rank 2^r" is proved for the density polynomial rho = 2^-N sum_{g in group} g in the ket semantics (exact Gaussian
   rationals): Hermitian matrix, trace 1, rho rho = 2^-r rho entry by entry, and <v|rho|v> = 2^r |rho v|^2 >= 0 for every vector v (Proofs/TraceFacts.v, PositiveFacts.v).
   (rank 2^r then is Tr(2^r rho) for the projector 2^r rho; dense eigenvalues are also checked for N<=3 after every step of every walk by the correspondence check.) *)
From Coq Require Import QArith Qcanon.
From PC Require Import Model.Base Model.Pauli Model.CMap Model.Tableau Model.Circuit Model.Spec Proofs.CircuitFacts Proofs.CompileFacts Proofs.MaskFacts Proofs.TableauInv Proofs.ReachFacts Model.Poly Model.PolySem Model.Sample Proofs.TraceFacts Proofs.PositiveFacts.
Open Scope Z_scope.

(* invariant by induction over histories: every state reachable by any finite sequence of public operations, from any valid start, with any coin schedule *)
Theorem C05_step_preserves_invariant : forall n t o t', tableau_ok n t -> sop_ok n o -> sstep n t o = Some t' -> tableau_ok n t'.
Proof. exact sstep_ok. Qed.
Print Assumptions C05_step_preserves_invariant.
Theorem C05_every_reachable_state_is_valid : forall n t ops t', tableau_ok n t -> Forall (sop_ok n) ops ->
  fold_left (fun acc o => match acc with Some s => sstep n s o | None => None end) ops (Some t) = Some t' -> tableau_ok n t'.
Proof. exact reachable_ok. Qed.
Print Assumptions C05_every_reachable_state_is_valid.
(* constructors *)
Theorem C05_zero_state : forall n, tableau_ok n (zero_state n).
Proof. exact zero_state_ok. Qed.
Print Assumptions C05_zero_state.
Theorem C05_maximally_mixed_state : forall n, tableau_ok n (mixed_state n).
Proof. exact mixed_state_ok. Qed.
Print Assumptions C05_maximally_mixed_state.
Theorem C05_one_state : forall n, tableau_ok n {| rows := map (fun a => (fst a, 2)) (rows (zero_state n)); rk := 0 |}.
Proof. exact one_state_ok. Qed.
Print Assumptions C05_one_state.
Theorem C05_map_to_state : forall n m r, valid_map n m -> (r <= n)%nat -> tableau_ok n (to_state m r).
Proof. exact to_state_ok. Qed.
Print Assumptions C05_map_to_state.
Theorem C05_stabilizer_state : forall n stabs t, Forall (fun a => length (fst a) = n /\ hermP a) stabs ->
  stabilizer_state n stabs = Some t -> tableau_ok n t.
Proof. exact stabilizer_state_ok. Qed.
Print Assumptions C05_stabilizer_state.
(* the individual kernels *)
Theorem C05_measurement_keeps_invariant_and_rank_bookkeeping : forall n t o coin, tableau_ok n t -> length (fst o) = n -> (coin = 0 \/ coin = 1) ->
  let '(t', out, lp, used) := measure1 t o coin in
  tableau_ok n t' /\ (rk t' = rk t \/ S (rk t') = rk t) /\ (used = true -> lp = -1) /\ (used = false -> lp = 0 /\ t' = t).
Proof. exact measure1_ok. Qed.
Print Assumptions C05_measurement_keeps_invariant_and_rank_bookkeeping.
Theorem C05_projection_keeps_invariant : forall n t go, tableau_ok n t -> length go = n -> tableau_ok n (project1 t go).
Proof. exact project1_ok. Qed.
Print Assumptions C05_projection_keeps_invariant.
Theorem C05_postselection_keeps_invariant : forall n t o, tableau_ok n t -> rk t = 0%nat -> length (fst o) = n -> hermP o -> tableau_ok n (fst (postselect1 t o)).
Proof. exact postselect1_ok. Qed.
Print Assumptions C05_postselection_keeps_invariant.
Theorem C05_rotation_keeps_invariant : forall n t gen, tableau_ok n t -> wf n gen -> hermP gen ->
  tableau_ok n {| rows := clifford_rotate gen (rows t); rk := rk t |}.
Proof. exact rotate_tableau_ok. Qed.
Print Assumptions C05_rotation_keeps_invariant.
Theorem C05_map_keeps_invariant : forall n t m, tableau_ok n t -> valid_map n m ->
  tableau_ok n {| rows := pauli_transform m (rows t); rk := rk t |}.
Proof. exact transform_tableau_ok. Qed.
Print Assumptions C05_map_keeps_invariant.
(* consequences: the stabilizers mutually commute, there are exactly N - r of them, state<->map conversion is valid *)
Theorem C05_stabilizers_commute : forall n t i j, tableau_ok n t -> (i < n)%nat -> (j < n)%nat -> acq (fst (row (rows t) i)) (fst (row (rows t) j)) = 0.
Proof. exact ok_active_commute. Qed.
Print Assumptions C05_stabilizers_commute.
Theorem C05_exactly_N_minus_r_generators : forall n t, tableau_ok n t -> length (stabilizers t) = (n - rk t)%nat.
Proof. exact ok_active_count. Qed.
Print Assumptions C05_exactly_N_minus_r_generators.
Theorem C05_state_to_map_valid : forall n t, tableau_ok n t -> valid_map n (to_map t).
Proof. exact to_map_valid. Qed.
Print Assumptions C05_state_to_map_valid.
(* the density matrix of every valid tableau: trace one, and rho * rho = 2^-r rho as matrices (so 2^r rho is a projector of rank 2^r; positivity of a Hermitian idempotent is the
   remaining textbook step) *)
Theorem C05_trace_one : forall n t, tableau_ok n t -> trace_sem n (density_poly t) = c1.
Proof. exact trace_rho_one. Qed.
Print Assumptions C05_trace_one.
Theorem C05_rho_squared : forall n t k k', tableau_ok n t -> length k = n ->
  amp (pmulp (density_poly t) (density_poly t)) k k' = cmul (half_pow (rk t)) (amp (density_poly t) k k').
Proof. exact rho_squared. Qed.
Print Assumptions C05_rho_squared.
Theorem C05_rho_terms_hermitian : forall n t a, tableau_ok n t -> In a (density_terms t) -> hermP a /\ length (fst a) = n.
Proof. exact rho_terms_hermitian. Qed.
Print Assumptions C05_rho_terms_hermitian.
(* POSITIVITY, for every valid tableau and EVERY vector v (a function from kets to exact Gaussian rationals, summed over all 2^N kets):
   <v|rho|v> is a non-negative real, namely 2^r times the squared norm of rho v; and the matrix of rho is Hermitian *)
Theorem C05_positive_semidefinite : forall n t v, tableau_ok n t -> exists x : Qc, (0 <= x)%Qc /\ quad n (density_poly t) v = (x, 0%Qc).
Proof. exact rho_positive. Qed.
Print Assumptions C05_positive_semidefinite.
Theorem C05_quadratic_form_is_a_squared_norm : forall n t v, tableau_ok n t ->
  cmul (half_pow (rk t)) (quad n (density_poly t) v) = csum (map (fun m => cnorm2c (mvec n (density_poly t) v m)) (all_kets n)).
Proof. exact rho_quadratic_form. Qed.
Print Assumptions C05_quadratic_form_is_a_squared_norm.
Theorem C05_hermitian_matrix : forall n t k k', tableau_ok n t -> length k = n -> length k' = n ->
  amp (density_poly t) k' k = cconj (amp (density_poly t) k k').
Proof. exact rho_hermitian_matrix. Qed.
Print Assumptions C05_hermitian_matrix.
(* non-vacuity: a signed, entangled, rank-1 three-qubit tableau satisfies the invariant (decidable form) *)
Example C05_example : tableau_ok_b
  {| rows := [([(true,false);(true,false);(false,false)],2); ([(false,true);(false,true);(false,false)],0); ([(false,false);(false,false);(false,true)],2);
              ([(false,true);(false,false);(false,false)],0); ([(false,false);(true,false);(false,false)],2); ([(false,false);(false,false);(true,false)],0)]; rk := 1 |} = true.
Proof. vm_compute. reflexivity. Qed.
