(* Props/C20.v -- operator descriptions, printing, tokens and indexing round-trip.  Property theorems only. *)
From PC Require Import Gen.Kernels Gen.Tables Model.Base Model.Pauli Model.Parse Model.Index Proofs.PauliFacts Proofs.ParseFacts Proofs.IndexFacts Proofs.TorchTwins.

(* printing then parsing returns the operator including its phase, for every N and all four phases *)
Theorem C20_parse_repr : forall a, 0 <= snd a < 4 -> parse_tokens (repr_tokens a) = Some a.
Proof. exact parse_repr_any. Qed.
Print Assumptions C20_parse_repr.

(* tokenizing then parsing returns the operator *)
Theorem C20_parse_tokenize : forall a, 0 <= snd a < 4 -> parse_tokens (tokenize a) = Some a.
Proof. exact parse_tokenize. Qed.
Print Assumptions C20_parse_tokenize.

Theorem C20_token_tables :
  (np_tok_phase 0 = 4 /\ np_tok_phase 1 = 6 /\ np_tok_phase 2 = 5 /\ np_tok_phase 3 = 7) /\
  (np_tok_site 0 0 = 0 /\ np_tok_site 1 0 = 1 /\ np_tok_site 1 1 = 2 /\ np_tok_site 0 1 = 3).
Proof. exact (conj tok_phase_table tok_site_table). Qed.
Print Assumptions C20_token_tables.

(* code arrays, letter strings and dictionaries describing the same operator construct equal objects *)
Theorem C20_codes   : forall g, parse_tokens (map site_code g) = Some (g, 0).
Proof. exact parse_codes. Qed.
Print Assumptions C20_codes.
Theorem C20_letters : forall g, parse_tokens (map (fun s => 1000 + repr_letter (fst s) (snd s)) g) = Some (g, 0).
Proof. exact parse_letters. Qed.
Print Assumptions C20_letters.
Theorem C20_dict    : forall g, parse_dict (length g) (enumerate (map site_code g)) = Some (g, 0).
Proof. exact parse_dict_full. Qed.
Print Assumptions C20_dict.

(* prefixes '+', '-', 'i', '-i', '+i' *)
Theorem C20_prefixes : forall g,
  let L := map (fun s => 1000 + repr_letter (fst s) (snd s)) g in
  parse_tokens (1043 :: L) = Some (g, 0) /\ parse_tokens (1045 :: L) = Some (g, 2) /\ parse_tokens (1105 :: L) = Some (g, 1) /\
  parse_tokens (1045 :: 1105 :: L) = Some (g, 3) /\ parse_tokens (1043 :: 1105 :: L) = Some (g, 1).
Proof. exact parse_prefixes. Qed.
Print Assumptions C20_prefixes.

(* torch tokenizer uses the same formulas *)
Theorem C20_torch_tokens : forall x z p : bool * bool, True ->
  (forall a b : bool, torch_tok_site (zb a) (zb b) = np_tok_site (zb a) (zb b)) /\
  (torch_tok_phase 0 = np_tok_phase 0 /\ torch_tok_phase 1 = np_tok_phase 1 /\ torch_tok_phase 2 = np_tok_phase 2 /\ torch_tok_phase 3 = np_tok_phase 3).
Proof. exact torch_tokens_agree. Qed.
Print Assumptions C20_torch_tokens.

(* negation and multiplication by 1, i, -1, -i: phase arithmetic mod 4, string untouched *)
Theorem C20_rmul : forall c a, 0 <= c < 4 -> 0 <= snd a < 4 -> prmul c a = (fst a, (snd a + c) mod 4).
Proof. exact prmul_spec. Qed.
Print Assumptions C20_rmul.
Theorem C20_neg : forall a, pneg a = (fst a, (snd a + 2) mod 4).
Proof. exact pneg_spec. Qed.
Print Assumptions C20_neg.
Theorem C20_rmul_list_torch_agree : forall p,
  np_PauliList_rmul_one p = np_Pauli_rmul_one p /\ np_PauliList_rmul_i p = np_Pauli_rmul_i p /\
  np_PauliList_rmul_m1 p = np_Pauli_rmul_m1 p /\ np_PauliList_rmul_mi p = np_Pauli_rmul_mi p /\ np_PauliList_neg p = np_Pauli_neg p.
Proof. exact rmul_list_agree. Qed.
Print Assumptions C20_rmul_list_torch_agree.

(* indexing: integer (python negative indices), slice, boolean mask, index array *)
Theorem C20_get_int : forall (l : plist) i, (0 <= i < Z.of_nat (length l)) -> get_int l i = nth_error l (Z.to_nat i).
Proof. exact get_int_nonneg. Qed.
Print Assumptions C20_get_int.
Theorem C20_get_int_neg : forall (l : plist) i, (- Z.of_nat (length l) <= i < 0) ->
  get_int l i = nth_error l (Z.to_nat (i + Z.of_nat (length l))).
Proof. exact get_int_neg. Qed.
Print Assumptions C20_get_int_neg.
Theorem C20_get_slice_all : forall (l : plist), get_slice l None None = l.
Proof. exact get_slice_all. Qed.
Print Assumptions C20_get_slice_all.
Theorem C20_get_slice_length : forall (l : plist) a b, (0 <= a <= b) -> (b <= Z.of_nat (length l)) ->
  length (get_slice l (Some a) (Some b)) = Z.to_nat (b - a).
Proof. exact get_slice_length. Qed.
Print Assumptions C20_get_slice_length.
Theorem C20_get_idx_map : forall (l : plist) idx r, get_idx l idx = Some r -> length r = length idx.
Proof. exact get_idx_length. Qed.
Print Assumptions C20_get_idx_map.
