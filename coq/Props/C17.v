(* Props/C17.v -- copy is faithful and independent; queries have no side effects.  Property theorems only.
   Memory model (Model/Heap.v): arrays live at locations; an object references locations (and holds scalars); an operation is a heap transformer with a write
   footprint.  MODELLED, not verified: numpy/torch array semantics (which expressions allocate, which return views).  The tie to the code is twofold: (1) the table of
   how every copy() passes every attribute is regenerated from source on every run (Gen/Copies.v) and checked here; (2) the correspondence check validates, on the real
   objects, that copies share no memory (np.shares_memory over all reachable arrays), that queries leave receiver and arguments bit-identical, and that in-place
   operations leave their arguments bit-identical (lazy inverse caches of gates accepted only when equal to the inverse of the partner map). *)
From PC Require Import Gen.Copies Model.Base Model.Heap Proofs.HeapFacts.

Theorem C17_copy_faithful : forall h fresh o, length fresh = length (olocs o) -> NoDup fresh -> (forall l, In l (olocs o) -> ~ In l fresh) ->
  let '(h', c) := copy_obj h fresh o in denote h' c = denote h o /\ denote h' o = denote h o.
Proof. exact copy_faithful. Qed.
Print Assumptions C17_copy_faithful.
Theorem C17_copy_shares_nothing : forall h fresh o, (forall l, In l (olocs o) -> ~ In l fresh) ->
  sep o (snd (copy_obj h fresh o)) /\ sep (snd (copy_obj h fresh o)) o.
Proof. exact copy_separate. Qed.
Print Assumptions C17_copy_shares_nothing.
(* histories: whatever is done to one of them afterwards, any number of times, the other is unchanged *)
Theorem C17_copy_independent_for_every_history : forall h fresh o fs, length fresh = length (olocs o) -> NoDup fresh -> (forall l, In l (olocs o) -> ~ In l fresh) ->
  let '(h', c) := copy_obj h fresh o in
  (Forall (fun f => respects f (olocs c)) fs -> denote (fold_left (fun hh f => f hh) fs h') o = denote h o) /\
  (Forall (fun f => respects f (olocs o)) fs -> denote (fold_left (fun hh f => f hh) fs h') c = denote h o).
Proof. exact copy_independent_forever. Qed.
Print Assumptions C17_copy_independent_for_every_history.
Theorem C17_separation_is_forever : forall o1 o2 fs h, sep o1 o2 -> Forall (fun f => respects f (olocs o2)) fs ->
  denote (fold_left (fun hh f => f hh) fs h) o1 = denote h o1.
Proof. exact separation_forever. Qed.
Print Assumptions C17_separation_is_forever.
Theorem C17_queries_change_nothing : forall f h o, respects f [] -> denote (f h) o = denote h o.
Proof. exact query_frame. Qed.
Print Assumptions C17_queries_change_nothing.
Theorem C17_inplace_changes_receiver_only : forall f h recv arg, respects f (olocs recv) -> sep arg recv -> denote (f h) arg = denote h arg.
Proof. exact inplace_frame. Qed.
Print Assumptions C17_inplace_changes_receiver_only.
(* the source, as it is now: every copy() passes every array attribute through .copy()/.clone(), bound to the parameter of the same name, none forgotten *)
Theorem C17_source_copy_table_fresh_and_well_bound : copy_table_ok = true.
Proof. exact copy_table_is_ok. Qed.
Print Assumptions C17_source_copy_table_fresh_and_well_bound.
Theorem C17_source_copy_table_complete : copy_table_complete = true.
Proof. exact copy_table_is_complete. Qed.
Print Assumptions C17_source_copy_table_complete.
(* ... and this matters: a copy() that shares one array is observably not independent *)
Theorem C17_sharing_copy_is_not_independent : exists h fresh o f,
  let '(h', c) := copy_obj_sharing h fresh [true] o in respects f (olocs c) /\ denote (f h') o <> denote h' o.
Proof. exact sharing_copy_refuted. Qed.
Print Assumptions C17_sharing_copy_is_not_independent.
