(* Props/C01.v -- Pauli multiplication is exact (strings, phases, commutation).
   Property theorems only; each is closed by [exact] of a lemma of Proofs/ and followed by Print Assumptions.
   Semantics: [act a k = (e,k')] means a|k> = i^e|k'>, built from the four 2x2 matrices (Model/Ket.v). *)
From PC Require Import Gen.Kernels Model.Base Model.Pauli Model.Ket Proofs.PauliFacts Proofs.TorchTwins.

(* the ket action is the textbook matrix of each site *)
Theorem C01_action_is_the_matrix : forall s k r,
  mat_site s r k = (if eqb r (snd (act_site s k)) then Some (fst (act_site s k) mod 4) else None).
Proof. exact act_site_is_matrix. Qed.
Print Assumptions C01_action_is_the_matrix.

(* the product returned by the library denotes the matrix product, for all N, strings and all four phases *)
Theorem C01_product_is_matrix_product : forall a b k,
  length (fst a) = length (fst b) -> length k = length (fst a) ->
  act (pmul a b) k = act_comp (act a) (act b) k.
Proof. exact act_pmul. Qed.
Print Assumptions C01_product_is_matrix_product.

(* ... exactly: two operators with the same action are the same string with the same phase *)
Theorem C01_denotation_is_faithful : forall a b, length (fst a) = length (fst b) ->
  (forall k, length k = length (fst a) -> act a k = act b k) -> peq a b.
Proof. exact act_faithful. Qed.
Print Assumptions C01_denotation_is_faithful.

(* anticommutation indicator: 1 exactly when the operators anticommute, 0 exactly when they commute *)
Theorem C01_acq_is_01 : forall g1 g2, acq g1 g2 = 0 \/ acq g1 g2 = 1.
Proof. exact acq_01. Qed.
Print Assumptions C01_acq_is_01.
Theorem C01_acq_1_anticommute : forall a b, acq (fst a) (fst b) = 1 -> pmul a b = pneg (pmul b a).
Proof. exact acq_spec_anti. Qed.
Print Assumptions C01_acq_1_anticommute.
Theorem C01_acq_0_commute : forall a b, acq (fst a) (fst b) = 0 -> pmul a b = pmul b a.
Proof. exact acq_spec_comm. Qed.
Print Assumptions C01_acq_0_commute.
Theorem C01_minus_is_different : forall a, 0 <= snd a < 4 -> pneg a <> a.
Proof. exact pneg_neq. Qed.
Print Assumptions C01_minus_is_different.

(* consequences: associativity, squares, no phase drift along chains of any length *)
Theorem C01_associative : forall a b c, length (fst a) = length (fst b) -> length (fst b) = length (fst c) ->
  pmul (pmul a b) c = pmul a (pmul b c).
Proof. exact pmul_assoc. Qed.
Print Assumptions C01_associative.
Theorem C01_square_is_pm_identity : forall a, pmul a a = (id_str (length (fst a)), (2 * snd a) mod 4).
Proof. exact pmul_square. Qed.
Print Assumptions C01_square_is_pm_identity.
Theorem C01_chain_is_matrix_product : forall n l a k, length (fst a) = n ->
  Forall (fun x => length (fst x) = n) l -> length k = n ->
  act (fold_left pmul l a) k = act_comp (act a) (act_list l) k.
Proof. exact chain_sem. Qed.
Print Assumptions C01_chain_is_matrix_product.
Theorem C01_chain_phase_normalised : forall l a, l <> [] -> 0 <= snd (fold_left pmul l a) < 4.
Proof. exact chain_phase_range. Qed.
Print Assumptions C01_chain_phase_normalised.

(* batch_dot is the row-major list of all pairwise products; torch uses the same summands *)
Theorem C01_batch_is_all_products : forall l1 l2,
  batch_mul l1 l2 = flat_map (fun a => map (fun b => pmul a b) l2) l1.
Proof. exact batch_is_pmul. Qed.
Print Assumptions C01_batch_is_all_products.
Theorem C01_torch_summands_agree : forall a b c d : bool,
  torch_acq_term (zb a) (zb b) (zb c) (zb d) mod 2 = np_acq_term (zb a) (zb b) (zb c) (zb d) mod 2 /\
  torch_ipow_term (zb a) (zb b) (zb c) (zb d) mod 4 = np_ipow_term (zb a) (zb b) (zb c) (zb d) mod 4 /\
  torch_ipow_product_term (zb a) (zb b) (zb c) (zb d) mod 4 = np_ipow_term (zb a) (zb b) (zb c) (zb d) mod 4 /\
  torch_ps0_term (zb a) (zb b) mod 4 = np_ps0_term (zb a) (zb b) mod 4 /\
  np_acq_mat_term (zb a) (zb b) (zb c) (zb d) mod 2 = np_acq_term (zb a) (zb b) (zb c) (zb d) mod 2.
Proof. exact torch_terms_agree. Qed.
Print Assumptions C01_torch_summands_agree.
Theorem C01_torch_formulas_agree : forall p1 p2 ip a b,
  torch_matmul_phase p1 p2 ip = np_matmul_phase p1 p2 ip /\ torch_matmul_bit a b = np_matmul_bit a b /\
  np_batch_dot_phase p1 p2 ip = np_matmul_phase p1 p2 ip /\ np_batch_dot_bit a b = np_matmul_bit a b.
Proof. exact torch_matmul_agree. Qed.
Print Assumptions C01_torch_formulas_agree.
Theorem C01_moduli_agree :
  torch_acq_modulus = np_acq_modulus /\ torch_ipow_modulus = np_ipow_modulus /\
  torch_ipow_product_modulus = np_ipow_modulus /\ torch_ps0_modulus = np_ps0_modulus /\
  np_acq_mat_modulus = np_acq_modulus /\ np_p0_modulus = np_ps0_modulus.
Proof. exact torch_moduli_agree. Qed.
Print Assumptions C01_moduli_agree.

(* non-vacuity: a concrete product with phases i and -i on two qubits *)
Example C01_example :
  pmul ([(true, true); (false, true)], 1) ([(false, true); (true, true)], 3) = ([(true, false); (true, false)], 0).
Proof. vm_compute. reflexivity. Qed.
