(* Props/C09.v -- a circuit acts as the ordered product of its gates.  Property theorems only.
   Circuits are built gate by gate with circ_take (which slides a gate back through the layers it does not overlap); the reference semantics
   run_gates applies the gates one at a time in the order they were added. *)
From PC Require Import Model.Base Model.Pauli Model.CMap Model.Circuit Model.Spec Proofs.CircuitFacts Proofs.CompileFacts.

(* packing gates into layers never changes the action: for EVERY gate program *)
Theorem C09_program_is_ordered_product : forall n prog l, no_measure prog -> Forall (gate_ok n) (gates_of prog) -> Forall (wf n) l ->
  circuit_forward n (only_layers (circ_build prog)) l = run_gates n (gates_of prog) l.
Proof. exact program_sem. Qed.
Print Assumptions C09_program_is_ordered_product.
Theorem C09_take_appends : forall n prog g l, no_measure prog -> Forall (gate_ok n) (gates_of prog) -> gate_ok n g -> Forall (wf n) l ->
  circuit_forward n (only_layers (circ_build (prog ++ [IGate g]))) l
  = match circuit_forward n (only_layers (circ_build prog)) l with Some l' => gate_forward n g l' | None => None end.
Proof. exact take_sem. Qed.
Print Assumptions C09_take_appends.
(* composing circuits = taking the other circuit's gates in order *)
Theorem C09_compose_is_concatenation : forall n p1 p2 l, no_measure p1 -> no_measure p2 ->
  Forall (gate_ok n) (gates_of p1) -> Forall (gate_ok n) (gates_of p2) -> Forall (wf n) l ->
  circuit_forward n (only_layers (circ_build (p1 ++ p2))) l
  = match circuit_forward n (only_layers (circ_build p1)) l with
    | Some l' => circuit_forward n (only_layers (circ_build p2)) l' | None => None end.
Proof. exact compose_sem. Qed.
Print Assumptions C09_compose_is_concatenation.
(* gates on disjoint qubits commute; each gate leaves all other qubits untouched *)
Theorem C09_disjoint_gates_commute : forall n g h l, gate_ok n g -> gate_ok n h -> gate_indep g h = true -> Forall (wf n) l ->
  match gate_forward n g l, gate_forward n h l with
  | Some lg, Some lh => gate_forward n h lg = gate_forward n g lh
  | _, _ => True
  end.
Proof. exact disjoint_commute. Qed.
Print Assumptions C09_disjoint_gates_commute.
Theorem C09_gate_is_local : forall n g l l', gate_ok n g -> Forall (wf n) l -> gate_forward n g l = Some l' ->
  Forall2 (fun a a' => gather (map negb (gmask g n)) (fst a') = gather (map negb (gmask g n)) (fst a)) l l'.
Proof. exact gate_local. Qed.
Print Assumptions C09_gate_is_local.
(* compiling layers, or the whole circuit, into single maps never changes the action *)
Theorem C09_layer_compile_preserves_action : forall n ly ly' l, layer_ok n ly -> Forall (wf n) l ->
  layer_compile n ly = Some ly' -> layer_forward n ly' l = layer_forward n ly l.
Proof. exact layer_compile_sem. Qed.
Print Assumptions C09_layer_compile_preserves_action.
Theorem C09_circuit_compile_preserves_action : forall n c c' f b l, Forall (layer_ok n) c -> Forall (wf n) l ->
  circuit_compile n c = Some (c', (f, b)) ->
  Some (transform_by f None l) = circuit_forward n c l /\ circuit_forward n c' l = circuit_forward n c l.
Proof. exact circuit_compile_sem. Qed.
Print Assumptions C09_circuit_compile_preserves_action.
