(* Props/C06.v -- measurement follows the Born rule and the projection postulate.  Property theorems only.
   A state is its signed stabilizer group: in_group n t a  <->  a is a product of active stabilizers of t (Proofs/MeasureFacts.v).  For a stabilizer state
   Tr(rho O) is +1 / -1 / 0 according to O / -O / neither being in the group (expect1, C07), so the Born probability of outcome 'out' for a Hermitian Pauli O is
   (1 + (-1)^out <O>)/2 in {1, 1/2, 0}; log2 of it is what 'lp' must be.  The coin of an undetermined outcome is a universally quantified input.
   The post-measurement state is characterised at the group level (new group = {b, b.(+-O) : b old, commuting with O}, both inclusions; rank drops exactly when no active
   stabilizer anticommutes) AND as a matrix identity: rho' = P rho P / Tr(P rho P) entry by entry in the ket semantics, Tr(P rho P) = 1/2 (Proofs/ProjectorFacts.v).
   Dense comparison (N<=4) remains in the correspondence check. *)
From PC Require Import Gen.Kernels Model.Base Model.Pauli Model.CMap Model.Tableau Model.Spec Proofs.TableauInv Proofs.MeasureFacts Proofs.ProjectionFacts Model.Poly Model.PolySem Model.Sample Proofs.TraceFacts Proofs.ProjectorFacts Proofs.MeasureCircuitFacts Proofs.OverlapFacts Proofs.JointBornFacts.
Open Scope Z_scope.

(* determined: +-O already a stabilizer: nothing changes, log2-probability 0, the outcome is the eigenvalue fixed by the state *)
Theorem C06_determined_outcome : forall n t o coin, tableau_ok n t -> length (fst o) = n -> hermP o ->
  (forall i, (i < n + rk t)%nat -> acq (fst (row (rows t) i)) (fst o) = 0) ->
  exists out, measure1 t o coin = (t, out, 0, false) /\ (out = 0 \/ out = 1) /\ expect1 t o = m1pow out /\ in_group n t (pscale (2 * out) o).
Proof. exact measure1_determined. Qed.
Print Assumptions C06_determined_outcome.
(* undetermined: expectation 0, either eigenvalue (the coin) with log2-probability -1; afterwards (-1)^out O is a stabilizer;
   the rank drops by one exactly when no active stabilizer anticommuted (an undetermined logical operator was measured) *)
Theorem C06_undetermined_outcome : forall n t o coin, tableau_ok n t -> length (fst o) = n -> hermP o -> (coin = 0 \/ coin = 1) ->
  (exists i, (i < n + rk t)%nat /\ acq (fst (row (rows t) i)) (fst o) = 1) ->
  exists t' out, measure1 t o coin = (t', out, -1, true) /\ out = (2 * coin - snd o) mod 4 / 2 /\ expect1 t o = 0 /\
                 expect1 t' o = m1pow out /\
                 (rk t' = rk t \/ S (rk t') = rk t) /\
                 (S (rk t') = rk t <-> forall i, (rk t <= i < n)%nat -> acq (fst (row (rows t) i)) (fst o) = 0).
Proof. exact measure1_undetermined. Qed.
Print Assumptions C06_undetermined_outcome.
(* the two cases are exhaustive and decided by the expectation value *)
Theorem C06_case_split_by_expectation : forall n t o, tableau_ok n t -> length (fst o) = n -> hermP o ->
  (expect1 t o = 0 <-> exists i, (i < n + rk t)%nat /\ acq (fst (row (rows t) i)) (fst o) = 1).
Proof. exact expect_zero. Qed.
Print Assumptions C06_case_split_by_expectation.
(* projection postulate at the group level: every stabilizer commuting with O survives the measurement *)
Theorem C06_commuting_stabilizers_survive : forall n t o coin a, tableau_ok n t -> length (fst o) = n -> hermP o -> (coin = 0 \/ coin = 1) ->
  in_group n t a -> acq (fst a) (fst o) = 0 -> in_group n (fst (fst (fst (measure1 t o coin)))) a.
Proof. exact measure1_keeps_commuting. Qed.
Print Assumptions C06_commuting_stabilizers_survive.
(* repeating the measurement returns the same outcome with log2-probability 0 and leaves the state unchanged *)
Theorem C06_repeat : forall n t o c1 c2, tableau_ok n t -> length (fst o) = n -> hermP o -> (c1 = 0 \/ c1 = 1) ->
  let '(t1, out1, lp1, u1) := measure1 t o c1 in measure1 t1 o c2 = (t1, out1, 0, false).
Proof. exact measure1_repeat. Qed.
Print Assumptions C06_repeat.
(* the state stays a valid tableau for either coin; lists of observables *)
Theorem C06_list_keeps_invariant : forall n obs t coins, tableau_ok n t -> Forall (fun o => length (fst o) = n) obs ->
  Forall (fun c => c = 0 \/ c = 1) coins ->
  let '(t', outs, lp, rest) := measure t obs coins in tableau_ok n t' /\ (rk t' <= rk t)%nat /\ length outs = length obs.
Proof. exact measure_ok. Qed.
Print Assumptions C06_list_keeps_invariant.
(* the stabilizer group is abelian, Hermitian, independent; a and -a are never both stabilizers (so -I is never a stabilizer) *)
Theorem C06_group_sign_unique : forall n t a, tableau_ok n t -> in_group n t a -> ~ in_group n t (pneg a).
Proof. exact group_sign_unique. Qed.
Print Assumptions C06_group_sign_unique.
Theorem C06_generators_independent : forall n t sel, tableau_ok n t -> length sel = (n - rk t)%nat ->
  fst (gprod n sel (active t)) = id_str n -> sel = repeat false (n - rk t).
Proof. exact group_independent. Qed.
Print Assumptions C06_generators_independent.
Theorem C06_tableau_nondegenerate : forall n t g, tableau_ok n t -> length g = n ->
  (forall i, (i < 2 * n)%nat -> acq (fst (row (rows t) i)) g = 0) -> g = id_str n.
Proof. exact tableau_nondegenerate. Qed.
Print Assumptions C06_tableau_nondegenerate.
(* the projection postulate, exactly: after an undetermined measurement the stabilizer group is generated by the signed observable and the old stabilizers
   commuting with it -- BOTH inclusions; after a determined measurement the group is unchanged *)
Theorem C06_post_measurement_group_exact : forall n t o coin a, tableau_ok n t -> length (fst o) = n -> hermP o -> (coin = 0 \/ coin = 1) ->
  (exists i, (i < n + rk t)%nat /\ acq (fst (row (rows t) i)) (fst o) = 1) ->
  let t' := fst (fst (fst (measure1 t o coin))) in
  let so := (fst o, 2 * coin) in
  (in_group n t' a <-> exists b, in_group n t b /\ acq (fst b) (fst o) = 0 /\ (a = b \/ a = pmul b so)).
Proof. exact measure1_group_exact. Qed.
Print Assumptions C06_post_measurement_group_exact.
Theorem C06_determined_group_unchanged : forall n t o coin a, tableau_ok n t -> length (fst o) = n -> hermP o ->
  (forall i, (i < n + rk t)%nat -> acq (fst (row (rows t) i)) (fst o) = 0) ->
  (in_group n (fst (fst (fst (measure1 t o coin)))) a <-> in_group n t a).
Proof. exact measure1_determined_group. Qed.
Print Assumptions C06_determined_group_unchanged.
Theorem C06_group_closed_under_products : forall n t a b, tableau_ok n t -> in_group n t a -> in_group n t b -> in_group n t (pmul a b).
Proof. exact group_closed. Qed.
Print Assumptions C06_group_closed_under_products.
(* THE PROJECTION POSTULATE AS A MATRIX IDENTITY.  With P = (1 + s O)/2 the projector of the recorded outcome (s O = (fst o, 2*coin)) and rho, rho' the density
   polynomials (2^-N sum over the stabilizer group, as density_matrix builds them) before and after an undetermined measurement:
   rho' = 2 P rho P entry by entry, and Tr(P rho P) = 1/2, i.e. rho' = P rho P / Tr(P rho P); rank-preserving and rank-dropping cases alike *)
Theorem C06_post_state_is_P_rho_P_normalised : forall n t o coin k k', tableau_ok n t -> length (fst o) = n -> hermP o -> (coin = 0 \/ coin = 1) ->
  (exists i, (i < n + rk t)%nat /\ acq (fst (row (rows t) i)) (fst o) = 1) -> length k = n ->
  let t' := fst (fst (fst (measure1 t o coin))) in
  amp (density_poly t') k k' = cmul c2 (amp (sandwich n (fst o, 2 * coin) (density_poly t)) k k').
Proof. exact measure1_density. Qed.
Print Assumptions C06_post_state_is_P_rho_P_normalised.
Theorem C06_born_probability_one_half : forall n t o, tableau_ok n t -> length (fst o) = n -> hermP o -> expect1 t o = 0 ->
  cmul c2 (trace_sem n (sandwich n o (density_poly t))) = c1.
Proof. exact sandwich_trace_half. Qed.
Print Assumptions C06_born_probability_one_half.
(* determined cases: P rho P = rho when O is a stabilizer (probability 1, state unchanged), = 0 when -O is (probability 0) *)
Theorem C06_eigenstate_projection : forall n t o k k', tableau_ok n t -> length (fst o) = n -> hermP o -> length k = n ->
  (in_group n t o -> amp (sandwich n o (density_poly t)) k k' = amp (density_poly t) k k') /\
  (in_group n t (pneg o) -> amp (sandwich n o (density_poly t)) k k' = c0).
Proof. intros n t o k k' Ht Hl Hh Hk. split; intro Hg; [exact (sandwich_eigen_plus n t o k k' Ht Hl Hh Hg Hk) | exact (sandwich_eigen_minus n t o k k' Ht Hl Hh Hg Hk)]. Qed.
Print Assumptions C06_eigenstate_projection.
(* LISTS OF COMMUTING OBSERVABLES (states of every rank, every coin schedule): outcomes are bits and lp <= 0; the JOINT Born rule: 2^lp = Tr(rho P_1...P_k) with P_j the
   projector of the j-th recorded outcome; the post-state is Pi rho Pi / Tr(rho Pi), Pi = P_1...P_k, entry by entry; repeating the list returns the same outcomes with
   probability one and the same state *)
Theorem C06_joint_born_rule : forall n t obs coins, tableau_ok n t -> Forall (fun o => length (fst o) = n /\ hermP o) obs ->
  (forall a b, In a obs -> In b obs -> acq (fst a) (fst b) = 0) -> bit_coins coins -> (length obs <= length coins)%nat ->
  let '(t', outs, lp, rest) := measure t obs coins in
  trace_sem n (pmulp (density_poly t) (proj_prod n (signed_list obs outs))) = half_pow (Z.to_nat (- lp)).
Proof. exact measure_joint_born. Qed.
Print Assumptions C06_joint_born_rule.
Theorem C06_post_state_of_a_list : forall n t obs coins, tableau_ok n t -> Forall (fun o => length (fst o) = n /\ hermP o) obs ->
  (forall a b, In a obs -> In b obs -> acq (fst a) (fst b) = 0) -> bit_coins coins -> (length obs <= length coins)%nat ->
  let '(t', outs, lp, rest) := measure t obs coins in
  forall k k', length k = n -> cmul (half_pow (Z.to_nat (- lp))) (amp (density_poly t') k k')
     = amp (pmulp (proj_prod n (signed_list obs outs)) (pmulp (density_poly t) (proj_prod n (signed_list obs outs)))) k k'.
Proof. exact measure_post_state. Qed.
Print Assumptions C06_post_state_of_a_list.
Theorem C06_repeating_a_list : forall n t obs coins, tableau_ok n t -> Forall (fun o => length (fst o) = n /\ hermP o) obs ->
  (forall a b, In a obs -> In b obs -> acq (fst a) (fst b) = 0) -> bit_coins coins -> (length obs <= length coins)%nat ->
  let '(t', outs, lp, rest) := measure t obs coins in forall coins2, bit_coins coins2 -> measure t' obs coins2 = (t', outs, 0, coins2).
Proof. exact measure_repeat. Qed.
Print Assumptions C06_repeating_a_list.
Theorem C06_list_outcomes_are_bits : forall n t obs coins, tableau_ok n t -> Forall (fun o => length (fst o) = n /\ hermP o) obs ->
  (forall a b, In a obs -> In b obs -> acq (fst a) (fst b) = 0) -> bit_coins coins -> (length obs <= length coins)%nat ->
  let '(t', outs, lp, rest) := measure t obs coins in length outs = length obs /\ Forall (fun b => b = 0 \/ b = 1) outs /\ lp <= 0.
Proof. exact measure_outcomes_are_bits. Qed.
Print Assumptions C06_list_outcomes_are_bits.
(* non-vacuity: the witness of the repaired pivot defect -- mixed state (r=1) with stabilizer Z1 and logical pair Z0/X0, observable X0X1 is undetermined and
   the rank must NOT drop because the active stabilizer Z1 anticommutes *)
Example C06_example :
  let t := {| rows := [([(false,true);(false,false)],0); ([(false,false);(false,true)],0); ([(true,false);(false,false)],0); ([(false,false);(true,false)],0)]; rk := 1 |} in
  tableau_ok_b t = true /\
  match measure1 t ([(true,false);(true,false)], 0) 1 with (t', out, lp, used) => rk t' = 1%nat /\ out = 1 /\ lp = -1 /\ used = true /\ tableau_ok_b t' = true end.
Proof. vm_compute. repeat split; reflexivity. Qed.
