(* Props/C14.v -- mid-circuit measurement and post-selection follow the quantum trajectory.  Property theorems only.
   The trajectory semantics run_instrs executes the program instruction by instruction (gates on the tableau rows, measurement layers = direct Z measurements with the
   given coin schedule).  Proved: the layered Circuit with measurement layers computes exactly that trajectory for EVERY program, state and coin schedule; measurement
   layers stay in program order (no gate ever crosses one); one +-1 result per measured qubit, in order; the state stays a valid tableau.  The Born-rule content of
   a single measurement / post-selection is C06 (MeasureFacts); the model-level definitions of postselect and Circuit.backward are tied to the code by correspondence. *)
From PC Require Import Model.Base Model.Pauli Model.Tableau Model.Circuit Model.Spec Proofs.CircuitFacts Proofs.MeasureCircuitFacts Proofs.TableauInv Proofs.MeasureFacts Proofs.ProjectionFacts Proofs.CompileFacts Model.Poly Model.PolySem Model.Sample Proofs.TraceFacts Proofs.BackwardFacts.
Open Scope Z_scope.

Theorem C14_measurements_keep_program_order : forall prog,
  map (fun x => match x with ML q => Some q | CL _ => None end) (filter (fun x => match x with ML _ => true | CL _ => false end) (circ_build prog))
  = map Some (flat_map (fun i => match i with IMeasure q => [q] | IGate _ => [] end) prog).
Proof. exact build_measure_order. Qed.
Print Assumptions C14_measurements_keep_program_order.
(* the layer chain is: each maximal run of gates layered on its own, separated by the measurement layers -- no gate moves across a measurement *)
Theorem C14_no_gate_crosses_a_measurement : forall prog,
  circ_build prog = blocks [empty_layer] (fst (segments prog)) (snd (segments prog)).
Proof. exact build_segments. Qed.
Print Assumptions C14_no_gate_crosses_a_measurement.
Theorem C14_circuit_is_the_trajectory : forall n prog t coins, wf_state n t -> (rk t <= n)%nat -> Forall (fun c => c = 0 \/ c = 1) coins ->
  Forall (gate_ok n) (gates_of prog) ->
  (forall qs q, In (IMeasure qs) prog -> In q qs -> (q < n)%nat) ->
  mcircuit_forward (circ_build prog) t coins = run_instrs prog t coins.
Proof. exact mcircuit_sem. Qed.
Print Assumptions C14_circuit_is_the_trajectory.
Theorem C14_results_in_order_one_per_qubit : forall prog t coins t' res lp, run_instrs prog t coins = Some (t', res, lp) ->
  length res = length (flat_map (fun i => match i with IMeasure q => q | IGate _ => [] end) prog) /\ Forall (fun r => r = 1 \/ r = -1) res.
Proof. exact run_instrs_results. Qed.
Print Assumptions C14_results_in_order_one_per_qubit.
Theorem C14_trajectory_keeps_shape_and_rank_bound : forall n prog t coins t' res lp, wf_state n t -> (rk t <= n)%nat ->
  Forall (fun c => c = 0 \/ c = 1) coins -> Forall (gate_ok n) (gates_of prog) ->
  run_instrs prog t coins = Some (t', res, lp) -> wf_state n t' /\ (rk t' <= n)%nat.
Proof. exact run_instrs_wf. Qed.
Print Assumptions C14_trajectory_keeps_shape_and_rank_bound.
(* a measurement layer is a direct measurement of Z on its qubits: state AND rank are updated (by definition of mlayer_forward, mirrored from the repaired code) *)
Theorem C14_layer_is_direct_measurement : forall t qs coins,
  mlayer_forward t qs coins =
  (let '(t', outs, lp, coins') := measure t (map (z_obs (tN t)) qs) coins in (t', map (fun o => Gen.Kernels.m1pow o) outs, lp, coins')).
Proof. reflexivity. Qed.
Print Assumptions C14_layer_is_direct_measurement.
(* post-selection keeps the invariant *)
Theorem C14_postselect_keeps_invariant : forall n t o, tableau_ok n t -> rk t = 0%nat -> length (fst o) = n -> hermP o ->
  tableau_ok n (fst (postselect1 t o)).
Proof. exact postselect1_ok. Qed.
Print Assumptions C14_postselect_keeps_invariant.
(* post-selection of a signed Pauli on a pure state returns the Born probability of the requested outcome (code 2 = 1.0, 1 = 0.5, 0 = 0.0): 1 + <o>;
   the state is projected (o becomes a stabilizer) when the probability is 1/2 and is unchanged when it is 1 or 0 *)
Theorem C14_postselect_born_probability : forall n t o, tableau_ok n t -> rk t = 0%nat -> length (fst o) = n -> hermP o ->
  snd (postselect1 t o) = 1 + expect1 t o.
Proof. exact postselect1_born. Qed.
Print Assumptions C14_postselect_born_probability.
Theorem C14_postselect_projects_or_leaves_unchanged : forall n t o, tableau_ok n t -> rk t = 0%nat -> length (fst o) = n -> hermP o ->
  let '(t', pr) := postselect1 t o in
  (pr = 2 <-> in_group n t o) /\ (pr = 0 <-> in_group n t (pneg o)) /\ (pr = 2 \/ pr = 1 \/ pr = 0) /\
  (pr = 1 -> in_group n t' o /\ expect1 t o = 0) /\ (pr <> 1 -> t' = t).
Proof. exact postselect1_spec. Qed.
Print Assumptions C14_postselect_projects_or_leaves_unchanged.
(* BACKWARD THROUGH MEASUREMENTS.  For every layered circuit (proper gate layers, measurement layers on qubits < n), every pure valid state and every coin schedule:
   the forward run keeps the state pure and valid and records one result per measured qubit; the backward pass keeps it pure and valid; a measurement layer replayed
   backward right after it ran accepts its own record and leaves the state unchanged; and the record of a whole run is NEVER rejected by the backward pass started from
   the final state (the code raises "not possible" only for records that no run can produce from that state) -- with non-zero overlap between the state reached backward
   and the initial state *)
Theorem C14_forward_keeps_pure_states_valid : forall n c t coins t' res lp, Forall (mclay_ok n) c -> tableau_ok n t -> rk t = 0%nat -> bit_coins coins ->
  mcircuit_forward c t coins = Some (t', res, lp) -> tableau_ok n t' /\ rk t' = 0%nat /\ length res = count_measured c.
Proof. exact mcircuit_forward_pure. Qed.
Print Assumptions C14_forward_keeps_pure_states_valid.
Theorem C14_backward_keeps_pure_states_valid : forall n c t record t', Forall (mclay_ok n) c -> tableau_ok n t -> rk t = 0%nat ->
  mcircuit_backward c t record = Some t' -> tableau_ok n t' /\ rk t' = 0%nat.
Proof. exact mcircuit_backward_ok. Qed.
Print Assumptions C14_backward_keeps_pure_states_valid.
Theorem C14_layer_accepts_its_own_record : forall n t qs coins, tableau_ok n t -> rk t = 0%nat -> bit_coins coins -> Forall (fun q => (q < n)%nat) qs ->
  let '(t', res, lp, coins') := mlayer_forward t qs coins in mlayer_backward t' qs res = Some t'.
Proof. exact mlayer_backward_after_forward. Qed.
Print Assumptions C14_layer_accepts_its_own_record.
Theorem C14_backward_accepts_every_produced_record : forall n c t coins t' res lp, Forall (mclay_ok n) c -> tableau_ok n t -> rk t = 0%nat -> bit_coins coins ->
  mcircuit_forward c t coins = Some (t', res, lp) -> exists tb, mcircuit_backward c t' res = Some tb.
Proof. exact forward_record_is_accepted. Qed.
Print Assumptions C14_backward_accepts_every_produced_record.
Theorem C14_backward_state_overlaps_the_initial_state : forall n c t coins t' res lp, Forall (mclay_ok n) c -> tableau_ok n t -> rk t = 0%nat -> bit_coins coins ->
  mcircuit_forward c t coins = Some (t', res, lp) ->
  exists tb, mcircuit_backward c t' res = Some tb /\ tableau_ok n tb /\ rk tb = 0%nat /\ trace_sem n (pmulp (density_poly tb) (density_poly t)) <> c0.
Proof. exact forward_record_backward_overlap. Qed.
Print Assumptions C14_backward_state_overlaps_the_initial_state.
