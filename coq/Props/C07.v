(* Props/C07.v -- expectations, overlaps and bit-string probabilities equal the trace formulas.  Property theorems only.
   For a stabilizer state rho = 2^-N sum_{s in group} s and a Pauli operator O, Tr(rho O) = sum_s 2^-N Tr(s O) is +1 if O is in the group, -1 if -O is, and 0
   otherwise (Tr sigma[g] = 2^N [g = identity], C15_trace_is_matrix_trace; the group contains each string at most once with one sign, C06_group_sign_unique).
   Proved here: expect1 returns exactly that classification, for every N, every rank and sign pattern.  The polynomial / monomial / single-Pauli paths are the
   coefficient- and phase-weighted sums of these values (expect_poly below, mirroring the repaired code); overlaps and get_prob go through projection_trace, whose
   value is proved to be Tr(rho P_1...P_k) and, divided by 2^r_sigma as the code does, Tr(rho sigma) (Proofs/OverlapFacts.v; pure rho, as the code requires).
   The group-sum expansion of rho itself is C19; float arithmetic of the polynomial path is outside the model. *)
From Coq Require Import QArith Qcanon.
From PC Require Import Model.Base Model.Pauli Model.CMap Model.Tableau Model.Spec Model.Poly Proofs.TableauInv Proofs.MeasureFacts Model.PolySem Model.Sample Proofs.TraceFacts Proofs.ProjectorFacts Proofs.OverlapFacts Proofs.ProbSumFacts.
Open Scope Z_scope.

Theorem C07_expectation_plus_one : forall n t o, tableau_ok n t -> length (fst o) = n -> hermP o -> (expect1 t o = 1 <-> in_group n t o).
Proof. exact expect_plus. Qed.
Print Assumptions C07_expectation_plus_one.
Theorem C07_expectation_minus_one : forall n t o, tableau_ok n t -> length (fst o) = n -> hermP o -> (expect1 t o = -1 <-> in_group n t (pneg o)).
Proof. exact expect_minus. Qed.
Print Assumptions C07_expectation_minus_one.
Theorem C07_expectation_zero : forall n t o, tableau_ok n t -> length (fst o) = n -> hermP o ->
  (expect1 t o = 0 <-> exists i, (i < n + rk t)%nat /\ acq (fst (row (rows t) i)) (fst o) = 1).
Proof. exact expect_zero. Qed.
Print Assumptions C07_expectation_zero.
Theorem C07_expectation_in_minus1_0_plus1 : forall n t o, tableau_ok n t -> length (fst o) = n -> hermP o ->
  expect1 t o = 1 \/ expect1 t o = -1 \/ expect1 t o = 0.
Proof. exact expect_values. Qed.
Print Assumptions C07_expectation_in_minus1_0_plus1.
(* group elements have expectation +1 and commute with every stabilizer and standby row *)
Theorem C07_group_elements_commute_with_rows : forall n t a i, tableau_ok n t -> in_group n t a -> (i < n + rk t)%nat ->
  acq (fst (row (rows t) i)) (fst a) = 0.
Proof. exact group_commutes_with_rows. Qed.
Print Assumptions C07_group_elements_commute_with_rows.
(* lists are evaluated entry by entry (structural) *)
Theorem C07_lists_entrywise : forall t obs, expect t obs = map (expect1 t) obs.
Proof. reflexivity. Qed.
Print Assumptions C07_lists_entrywise.
(* polynomials: coefficient- and phase-weighted sum of the expectations of the bare strings, imaginary phases included *)
Definition expect_poly (t : tableau) (p : poly) : coef :=
  fold_left cadd (map (fun tm => cipow (snd (snd tm)) (cmul (fst tm) (Q2Qc (inject_Z (expect1 t (fst (snd tm), 0))), 0%Qc))) p) c0.
Theorem C07_poly_is_weighted_sum : forall t c g p, expect_poly t [(c, (g, p))] = cadd c0 (cipow p (cmul c (Q2Qc (inject_Z (expect1 t (g, 0))), 0%Qc))).
Proof. reflexivity. Qed.
Print Assumptions C07_poly_is_weighted_sum.
(* overlaps: the sequential projection keeps a valid tableau *)
Theorem C07_projection_trace_keeps_invariant : forall n obs t, tableau_ok n t -> Forall (fun o => length (fst o) = n /\ hermP o) obs ->
  tableau_ok n (fst (fst (projection_trace t obs))).
Proof. exact projection_trace_ok. Qed.
Print Assumptions C07_projection_trace_keeps_invariant.
(* MAIN: the value computed by the kernel IS Tr(rho O), with rho = 2^-N sum over the stabilizer group (the polynomial returned by density_matrix) and Tr the sum of the
   diagonal matrix elements over all 2^N kets in the ket semantics -- for every state of every rank and sign pattern and every Hermitian Pauli O *)
Theorem C07_expectation_is_trace_rho_O : forall n t o, tableau_ok n t -> length (fst o) = n -> hermP o -> tr_rho n t o = zcoef (expect1 t o).
Proof. exact expect_is_trace. Qed.
Print Assumptions C07_expectation_is_trace_rho_O.
Theorem C07_trace_of_pauli_products : forall n a b, length (fst a) = n -> length (fst b) = n ->
  (fst a = fst b -> trace_sem n (pmulp [(c1, a)] [(c1, b)]) = cipow (snd (pmul a b)) (two_pow n)) /\
  (fst a <> fst b -> trace_sem n (pmulp [(c1, a)] [(c1, b)]) = c0).
Proof. intros n a b Ha Hb. split; intro H; [exact (trace_pauli_product_same n a b Ha Hb H) | exact (trace_pauli_product_diff n a b Ha Hb H)]. Qed.
Print Assumptions C07_trace_of_pauli_products.
(* OVERLAPS.  For a pure rho and mutually commuting Hermitian observables the sequential-projection kernel returns Tr(rho P_1 ... P_k) (P_j = (1+O_j)/2),
   and the state-state overlap the code computes (trace / 2^r_sigma) IS Tr(rho sigma); get_prob is the case sigma = computational basis state *)
Theorem C07_projection_trace_is_the_trace : forall n t obs, tableau_ok n t -> rk t = 0%nat -> Forall (fun o => length (fst o) = n /\ hermP o) obs ->
  (forall a b, In a obs -> In b obs -> acq (fst a) (fst b) = 0) ->
  let '(_, zero, halv) := projection_trace t obs in
  trace_sem n (pmulp (density_poly t) (proj_prod n obs)) = trace_value zero halv.
Proof. exact projection_trace_value. Qed.
Print Assumptions C07_projection_trace_is_the_trace.
Theorem C07_overlap_is_trace_rho_sigma : forall n t s, tableau_ok n t -> rk t = 0%nat -> tableau_ok n s ->
  let '(_, zero, halv) := projection_trace t (stabilizers s) in
  trace_sem n (pmulp (density_poly t) (density_poly s)) = cmul (half_pow (rk s)) (trace_value zero halv).
Proof. exact overlap_is_trace. Qed.
Print Assumptions C07_overlap_is_trace_rho_sigma.
Theorem C07_projector_product_is_the_state : forall n s k k', tableau_ok n s -> length k = n ->
  amp (proj_prod n (stabilizers s)) k k' = cmul (two_pow (rk s)) (amp (density_poly s) k k').
Proof. exact proj_prod_density. Qed.
Print Assumptions C07_projector_product_is_the_state.
(* BIT-STRING PROBABILITIES.  get_prob(b) runs the sequential-projection kernel on the observables (-1)^{b_q} Z_q: their projector product is |b><b| exactly, the value
   returned is the diagonal entry <b|rho|b>, it is a non-negative real, and the 2^N values sum to one *)
Theorem C07_get_prob_is_the_diagonal_of_rho : forall n t bits, tableau_ok n t -> rk t = 0%nat -> length bits = n ->
  let '(_, zero, halv) := projection_trace t (bit_obs n bits) in trace_value zero halv = amp (density_poly t) bits bits.
Proof. exact get_prob_is_diagonal. Qed.
Print Assumptions C07_get_prob_is_the_diagonal_of_rho.
Theorem C07_get_prob_sums_to_one : forall n t, tableau_ok n t -> rk t = 0%nat ->
  csum (map (fun bits => let '(_, zero, halv) := projection_trace t (bit_obs n bits) in trace_value zero halv) (all_kets n)) = c1.
Proof. exact get_prob_sums_to_one. Qed.
Print Assumptions C07_get_prob_sums_to_one.
Theorem C07_basis_projector : forall n bits k k', length bits = n -> length k = n ->
  amp (proj_prod n (bit_obs n bits)) k k' = if ket_eqb k bits && ket_eqb k' bits then c1 else c0.
Proof. exact bit_projector. Qed.
Print Assumptions C07_basis_projector.
