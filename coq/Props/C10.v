(* Props/C10.v -- backward is the exact inverse of forward.  Property theorems only.
   gate_proper: the gate's data denote a unitary (Hermitian generator; valid map(s); when both maps are given they are mutually inverse).
   layer_ok: an uncompiled layer of proper, pairwise disjoint gates -- what circ_build produces (C10_built_circuits_are_ok). *)
From PC Require Import Model.Base Model.Pauli Model.CMap Model.Circuit Model.Spec Proofs.CircuitFacts Proofs.CompileFacts.

Theorem C10_gate_backward_after_forward : forall n g l l', gate_proper n g -> Forall (wf n) l ->
  gate_forward n g l = Some l' -> gate_backward n g l' = Some l.
Proof. exact gate_backward_forward. Qed.
Print Assumptions C10_gate_backward_after_forward.
Theorem C10_gate_forward_after_backward : forall n g l l', gate_proper n g -> Forall (wf n) l ->
  gate_backward n g l = Some l' -> gate_forward n g l' = Some l.
Proof. exact gate_forward_backward. Qed.
Print Assumptions C10_gate_forward_after_backward.
Theorem C10_proper_gate_compiles_to_inverse_pair : forall n g, gate_proper n g -> exists f b, gate_compile g = Some (f, b) /\
  valid_map (length (gq g)) f /\ valid_map (length (gq g)) b /\ inverse f = Some b.
Proof. exact gate_compile_ok. Qed.
Print Assumptions C10_proper_gate_compiles_to_inverse_pair.
Theorem C10_layer_backward_after_forward : forall n ly l l', layer_ok n ly -> Forall (wf n) l ->
  layer_forward n ly l = Some l' -> layer_backward n ly l' = Some l.
Proof. exact layer_backward_forward. Qed.
Print Assumptions C10_layer_backward_after_forward.
Theorem C10_layer_forward_after_backward : forall n ly l l', layer_ok n ly -> Forall (wf n) l ->
  layer_backward n ly l = Some l' -> layer_forward n ly l' = Some l.
Proof. exact layer_forward_backward. Qed.
Print Assumptions C10_layer_forward_after_backward.
Theorem C10_circuit_backward_after_forward : forall n c l l', Forall (layer_ok n) c -> Forall (wf n) l ->
  circuit_forward n c l = Some l' -> circuit_backward n c l' = Some l.
Proof. exact circuit_backward_forward. Qed.
Print Assumptions C10_circuit_backward_after_forward.
Theorem C10_circuit_forward_after_backward : forall n c l l', Forall (layer_ok n) c -> Forall (wf n) l ->
  circuit_backward n c l = Some l' -> circuit_forward n c l' = Some l.
Proof. exact circuit_forward_backward. Qed.
Print Assumptions C10_circuit_forward_after_backward.
(* compiled: backward_map = inverse of forward_map, and both orders return every list *)
Theorem C10_compiled_backward_is_inverse : forall n c c' f b, Forall (layer_ok n) c -> circuit_compile n c = Some (c', (f, b)) ->
  valid_map n f /\ valid_map n b /\ inverse f = Some b.
Proof. exact compiled_backward_is_inverse. Qed.
Print Assumptions C10_compiled_backward_is_inverse.
Theorem C10_compiled_roundtrip : forall n c c' f b l, Forall (layer_ok n) c -> Forall (wf n) l -> circuit_compile n c = Some (c', (f, b)) ->
  transform_by b None (transform_by f None l) = l /\ transform_by f None (transform_by b None l) = l.
Proof. exact compiled_roundtrip. Qed.
Print Assumptions C10_compiled_roundtrip.
Theorem C10_built_circuits_are_ok : forall n prog, no_measure prog -> Forall (gate_proper n) (gates_of prog) ->
  Forall (layer_ok n) (only_layers (circ_build prog)).
Proof. exact build_layers_ok. Qed.
Print Assumptions C10_built_circuits_are_ok.
(* states: rows are transformed like lists and the rank is untouched (state_apply), so strings, phases and rank all return *)
Theorem C10_state_rank_untouched : forall f t t', state_apply f t = Some t' -> rk t' = rk t.
Proof. intros f t t' H. unfold state_apply in H. destruct (f (rows t)); [injection H as <-; reflexivity | discriminate]. Qed.
Print Assumptions C10_state_rank_untouched.
(* non-vacuity: H(0);CNOT(0,1);S(1) on two qubits is a program of proper gates whose compiled maps are mutually inverse *)
Example C10_example :
  match circuit_compile 2 (only_layers (circ_build
      [IGate {| gq := [0%nat]; gk := GMap (Some Gen.Tables.gate_H) None |};
       IGate {| gq := [0%nat; 1%nat]; gk := GMap (Some Gen.Tables.gate_CNOT_asc) None |};
       IGate {| gq := [1%nat]; gk := GMap (Some Gen.Tables.gate_S) None |}])) with
  | Some (_, (f, b)) => inverse f = Some b /\ transform_by b None (transform_by f None [([(true,false);(false,true)], 1)]) = [([(true,false);(false,true)], 1)]
  | None => False
  end.
Proof. vm_compute. split; reflexivity. Qed.
