(* Props/C08.v -- entropy equals the von Neumann entropy of the reduced density matrix.  Property theorems only.
   PARTIAL: the reduced density matrix of a stabilizer state on region A is the stabilizer state of the subgroup supported inside A, whose entropy is
   |A| - dim(subgroup) = |A| - L + rank(generators restricted to the complement) =: entropy_ref.  That spectral fact is cited, not formalised (and tested against
   dense eigenvalues for N<=4 by the correspondence check).  Proved here: the code computes entropy_ref (mixed branch: by definition, for all N; pure branch: by
   complete enumeration of all generating sets of all pure states for N<=3), z2rank as implemented is the dimension of the row space, and the claimed invariances. *)
From PC Require Import Proofs.Z2Facts.
From PC Require Import Model.Base Model.Pauli Model.Z2 Model.Tableau Model.Entropy Proofs.RankFacts Proofs.EntropyFinite.

(* the mixed-state branch of the kernel is the reference formula, for every N *)
Theorem C08_mixed_branch_is_reference : forall n gs m, length gs <> n -> entropy_of n gs m = entropy_ref gs m.
Proof. exact entropy_of_mixed_ref. Qed.
Print Assumptions C08_mixed_branch_is_reference.
(* the pure-state branch equals the reference formula: every generating set of every pure state x every region, N = 1, 2, 3 *)
Theorem C08_pure_branch_is_reference_N123 : pure_branch_agrees 1 = true /\ pure_branch_agrees 2 = true /\ pure_branch_agrees 3 = true.
Proof. exact (conj pure_branch_1 (conj pure_branch_2 pure_branch_3)). Qed.
Print Assumptions C08_pure_branch_is_reference_N123.
Theorem C08_pure_region_equals_complement_N123 : complement_symmetric 1 = true /\ complement_symmetric 2 = true /\ complement_symmetric 3 = true.
Proof. exact (conj complement_1 (conj complement_2 complement_3)). Qed.
Print Assumptions C08_pure_region_equals_complement_N123.

(* z2rank (Gaussian elimination as written) is the dimension of the row space *)
Theorem C08_z2rank_is_dimension : forall c a, rect c a -> ncols a = c \/ a = [] ->
  exists basis, length basis = z2rank a /\ rect c basis /\ independent c basis /\ same_span c basis a.
Proof. exact z2rank_basis. Qed.
Print Assumptions C08_z2rank_is_dimension.
Theorem C08_dimension_well_defined : forall c b1 b2, rect c b1 -> rect c b2 -> independent c b1 -> independent c b2 -> same_span c b1 b2 -> length b1 = length b2.
Proof. exact basis_size_unique. Qed.
Print Assumptions C08_dimension_well_defined.
Theorem C08_rank_depends_on_span_only : forall c a b, rect c a -> rect c b -> same_span c a b -> z2rank a = z2rank b.
Proof. exact z2rank_span_invariant_gen. Qed.
Print Assumptions C08_rank_depends_on_span_only.

(* 0 for the empty subsystem (independent generators), N - L = r for the whole system *)
Theorem C08_empty_region : forall gs n, (forall g, In g gs -> length g = n) ->
  (entropy_ref gs (repeat false n) = 0%Z <-> independent (2 * n) (map flat gs)).
Proof. exact entropy_ref_empty_zero_iff. Qed.
Print Assumptions C08_empty_region.
Theorem C08_whole_system : forall gs n, entropy_ref gs (repeat true n) = (Z.of_nat n - Z.of_nat (length gs))%Z.
Proof. exact entropy_ref_full. Qed.
Print Assumptions C08_whole_system.
(* independence of the generating set: two generator lists of the same length whose restrictions to the complement span the same space give the same entropy
   (in particular any two generating sets of the same stabilizer group) *)
Theorem C08_generator_independent : forall gs1 gs2 m,
  (forall g, In g gs1 -> length g = length m) -> (forall g, In g gs2 -> length g = length m) ->
  same_span (2 * count_true (map negb m)) (restrict_compl m gs1) (restrict_compl m gs2) -> length gs1 = length gs2 ->
  entropy_ref gs1 m = entropy_ref gs2 m.
Proof. exact entropy_ref_span_invariant_len. Qed.
Print Assumptions C08_generator_independent.
