(* Props/C08.v -- entropy equals the von Neumann entropy of the reduced density matrix.  Property theorems only.
   The reduced density matrix of a stabilizer state on region A is the stabilizer state of the subgroup supported inside A, of log2-rank
   |A| - dim(subgroup) = |A| - L + rank(generators restricted to the complement) =: entropy_ref -- PROVED as a statement about partial traces in the ket semantics
   (Proofs/ReducedStateFacts.v, theorems at the end of this file); left outside Coq is only that a state with flat spectrum on 2^r dimensions has von Neumann entropy r
   (dense eigenvalues are compared for N<=4 by the correspondence check).  Also proved: the code computes entropy_ref for EVERY N in both branches (mixed branch: by definition; pure
   branch: Proofs/PureEntropyFacts.v via rank-nullity, symplectic complements and maximal isotropy; also by complete enumeration for N<=3), z2rank as implemented is the
   dimension of the row space, and the claimed invariances. *)
From PC Require Import Proofs.Z2Facts.
From PC Require Import Model.Base Model.Pauli Model.Z2 Model.Tableau Model.Entropy Proofs.RankFacts Proofs.EntropyFinite Proofs.LinAlgFacts Proofs.PureEntropyFacts Model.Spec Model.Ket Model.Poly Model.PolySem Model.Sample Proofs.MeasureFacts Proofs.TraceFacts Proofs.ReducedStateFacts.

(* the mixed-state branch of the kernel is the reference formula, for every N *)
Theorem C08_mixed_branch_is_reference : forall n gs m, length gs <> n -> entropy_of n gs m = entropy_ref gs m.
Proof. exact entropy_of_mixed_ref. Qed.
Print Assumptions C08_mixed_branch_is_reference.
(* the pure-state branch equals the reference formula: every generating set of every pure state x every region, N = 1, 2, 3 *)
Theorem C08_pure_branch_is_reference_N123 : pure_branch_agrees 1 = true /\ pure_branch_agrees 2 = true /\ pure_branch_agrees 3 = true.
Proof. exact (conj pure_branch_1 (conj pure_branch_2 pure_branch_3)). Qed.
Print Assumptions C08_pure_branch_is_reference_N123.
Theorem C08_pure_region_equals_complement_N123 : complement_symmetric 1 = true /\ complement_symmetric 2 = true /\ complement_symmetric 3 = true.
Proof. exact (conj complement_1 (conj complement_2 complement_3)). Qed.
Print Assumptions C08_pure_region_equals_complement_N123.

(* z2rank (Gaussian elimination as written) is the dimension of the row space *)
Theorem C08_z2rank_is_dimension : forall c a, rect c a -> ncols a = c \/ a = [] ->
  exists basis, length basis = z2rank a /\ rect c basis /\ independent c basis /\ same_span c basis a.
Proof. exact z2rank_basis. Qed.
Print Assumptions C08_z2rank_is_dimension.
Theorem C08_dimension_well_defined : forall c b1 b2, rect c b1 -> rect c b2 -> independent c b1 -> independent c b2 -> same_span c b1 b2 -> length b1 = length b2.
Proof. exact basis_size_unique. Qed.
Print Assumptions C08_dimension_well_defined.
Theorem C08_rank_depends_on_span_only : forall c a b, rect c a -> rect c b -> same_span c a b -> z2rank a = z2rank b.
Proof. exact z2rank_span_invariant_gen. Qed.
Print Assumptions C08_rank_depends_on_span_only.

(* 0 for the empty subsystem (independent generators), N - L = r for the whole system *)
Theorem C08_empty_region : forall gs n, (forall g, In g gs -> length g = n) ->
  (entropy_ref gs (repeat false n) = 0%Z <-> independent (2 * n) (map flat gs)).
Proof. exact entropy_ref_empty_zero_iff. Qed.
Print Assumptions C08_empty_region.
Theorem C08_whole_system : forall gs n, entropy_ref gs (repeat true n) = (Z.of_nat n - Z.of_nat (length gs))%Z.
Proof. exact entropy_ref_full. Qed.
Print Assumptions C08_whole_system.
(* independence of the generating set: two generator lists of the same length whose restrictions to the complement span the same space give the same entropy
   (in particular any two generating sets of the same stabilizer group) *)
Theorem C08_generator_independent : forall gs1 gs2 m,
  (forall g, In g gs1 -> length g = length m) -> (forall g, In g gs2 -> length g = length m) ->
  same_span (2 * count_true (map negb m)) (restrict_compl m gs1) (restrict_compl m gs2) -> length gs1 = length gs2 ->
  entropy_ref gs1 m = entropy_ref gs2 m.
Proof. exact entropy_ref_span_invariant_len. Qed.
Print Assumptions C08_generator_independent.
(* the PURE-state branch (half the GF(2) rank of the commutation matrix of the crossing generators restricted to the region) is the reference formula
   for EVERY N, every region and every independent commuting generating set; in particular that rank is even *)
Theorem C08_pure_branch_is_reference_all_N : forall n gs m, length m = n -> length gs = n -> (forall g, In g gs -> length g = n) ->
  independent (2 * n) (map flat gs) -> (forall a b, In a gs -> In b gs -> acq a b = 0%Z) ->
  entropy_of n gs m = entropy_ref gs m.
Proof. exact pure_branch_general. Qed.
Print Assumptions C08_pure_branch_is_reference_all_N.
Theorem C08_commutation_rank_is_even : forall n (gs : list pstr) m, length m = n -> length gs = n -> (forall g, In g gs -> length g = n) ->
  independent (2 * n) (map flat gs) -> (forall a b, In a gs -> In b gs -> acq a b = 0%Z) ->
  Nat.even (z2rank (zmat_to_bmat (acq_mat (crossing_sub gs m)))) = true.
Proof. exact crossing_gram_rank_even. Qed.
Print Assumptions C08_commutation_rank_is_even.
(* the linear algebra it rests on: rank-nullity and row rank = column rank for the rank function AS IMPLEMENTED, symplectic complements *)
Theorem C08_rank_nullity : forall c c' f rows, linear c c' f -> rect c rows ->
  exists d, has_dim c (fun v => in_span c rows v /\ f v = vzero c') d /\ (d + z2rank (map f rows) = z2rank rows)%nat.
Proof. exact rank_nullity. Qed.
Print Assumptions C08_rank_nullity.
Theorem C08_row_rank_is_column_rank : forall c M, rect c M -> z2rank (transpose c M) = z2rank M.
Proof. exact z2rank_transpose. Qed.
Print Assumptions C08_row_rank_is_column_rank.
(* THE VALUE RETURNED IS THE ENTROPY OF THE REDUCED DENSITY MATRIX.  The partial trace of rho over the complement of the region (sum over the complement's kets of the
   matrix elements, in the ket semantics) is the density matrix of a valid stabilizer tableau tA on |A| qubits whose log2-rank is exactly entropy(A); by C05 that matrix is
   2^-r times a projector of rank 2^r (trace 1, rho rho = 2^-r rho, positive), so its spectrum is flat on a 2^r-dimensional subspace and its von Neumann entropy is r.
   (Only "a flat spectrum on 2^r dimensions has entropy r bits" -- the definition of -Tr rho log2 rho on such a state -- is left outside Coq.) *)
Theorem C08_reduced_state_is_stabilizer_state_of_rank_entropy : forall n t m, tableau_ok n t -> length m = n ->
  exists tA, tableau_ok (count_true m) tA /\ Z.of_nat (rk tA) = entropy t m /\
    forall ka ka', length ka = count_true m -> length ka' = count_true m ->
      ptrace_amp m (density_poly t) ka ka' = amp (density_poly tA) ka ka'.
Proof. exact reduced_state_entropy. Qed.
Print Assumptions C08_reduced_state_is_stabilizer_state_of_rank_entropy.
Theorem C08_reduced_group : forall n t m, tableau_ok n t -> length m = n ->
  exists tA, tableau_ok (count_true m) tA /\
    Z.of_nat (rk tA) = entropy_ref (map fst (stabilizers t)) m /\
    (forall a, in_group (count_true m) tA a <-> exists b, in_group n t b /\ supported_in m (fst b) = true /\ a = restrict_pauli m b) /\
    forall ka ka', length ka = count_true m -> length ka' = count_true m -> ptrace_amp m (density_poly t) ka ka' = amp (density_poly tA) ka ka'.
Proof. exact reduced_state_is_stabilizer_state. Qed.
Print Assumptions C08_reduced_group.
Theorem C08_kernel_value_is_reference_for_every_state : forall n t m, tableau_ok n t -> length m = n -> entropy t m = entropy_ref (map fst (stabilizers t)) m.
Proof. exact entropy_is_ref. Qed.
Print Assumptions C08_kernel_value_is_reference_for_every_state.
