(* Props/C12.v -- state-map duality and state constructors denote the documented states.  Property theorems only.
   The density matrix named by a tableau is rho = 2^-r prod_{a in [r,N)} (1+S_a)/2; at the level of this development a state is its signed stabilizer group, so
   "denotes the named density matrix" is stated through the active rows.  to_qutip and the dense matrices are compared numerically by the correspondence check (QuTiP trusted). *)
From PC Require Import Model.Base Model.Pauli Model.CMap Model.Tableau Model.Spec Proofs.Transform Proofs.MaskFacts Proofs.TableauInv Proofs.ReachFacts Proofs.ProjectCFacts Proofs.GhzFacts Model.Ket Model.Poly Model.PolySem Model.Sample Proofs.TraceFacts Proofs.ProjectorFacts Proofs.OverlapFacts Proofs.PositiveFacts Model.Entropy Model.Random Proofs.ProbSumFacts Proofs.NamedStatesFacts.
Open Scope Z_scope.

(* converting a map to a state gives the state obtained by applying the map to |0...0>, signs included: every tableau row is the image of the corresponding row of |0..0> *)
Theorem C12_to_state_is_map_applied_to_zero : forall n m r, valid_map n m -> rows (to_state m r) = pauli_transform m (rows (zero_state n)).
Proof. exact to_state_is_transformed_zero. Qed.
Print Assumptions C12_to_state_is_map_applied_to_zero.
(* ... and converting back gives the same map; and the other way round *)
Theorem C12_to_map_of_to_state : forall n m, length m = (2 * n)%nat -> state_to_map (map_to_state m) = m.
Proof. exact state_to_map_to_state. Qed.
Print Assumptions C12_to_map_of_to_state.
Theorem C12_to_state_of_to_map : forall n l, length l = (2 * n)%nat -> map_to_state (state_to_map l) = l.
Proof. exact map_to_state_to_map. Qed.
Print Assumptions C12_to_state_of_to_map.
Theorem C12_to_state_valid : forall n m r, valid_map n m -> (r <= n)%nat -> tableau_ok n (to_state m r).
Proof. exact to_state_ok. Qed.
Print Assumptions C12_to_state_valid.
Theorem C12_to_map_valid : forall n t, tableau_ok n t -> valid_map n (to_map t).
Proof. exact to_map_valid. Qed.
Print Assumptions C12_to_map_valid.
(* constructors: zero = stabilized by +Z_i, one = by -Z_i, maximally mixed = no active stabilizer *)
Theorem C12_zero_state_rows : forall n j, (j < 2 * n)%nat ->
  prow (rows (zero_state n)) j = (unit_str n (if Nat.ltb j n then (2 * j + 1)%nat else (2 * (j - n))%nat), 0).
Proof. exact init_row. Qed.
Print Assumptions C12_zero_state_rows.
Theorem C12_zero_and_mixed_valid : forall n, tableau_ok n (zero_state n) /\ tableau_ok n (mixed_state n) /\ rk (zero_state n) = 0%nat /\ rk (mixed_state n) = n.
Proof. intro n. split; [apply zero_state_ok | split; [apply mixed_state_ok | split; reflexivity]]. Qed.
Print Assumptions C12_zero_and_mixed_valid.
Theorem C12_one_state_valid : forall n, tableau_ok n {| rows := map (fun a => (fst a, 2)) (rows (zero_state n)); rk := 0 |}.
Proof. exact one_state_ok. Qed.
Print Assumptions C12_one_state_valid.
(* stabilizer_state from an independent commuting signed list of length L: rank N-L, the active rows are exactly the input, in order, with its signs; valid; *)
Theorem C12_stabilizer_state_rows : forall n stabs t, Forall (fun a => length (fst a) = n /\ hermP a) stabs ->
  (length stabs <= n)%nat -> stabilizer_state n stabs = Some t ->
  (forall sel, length sel = length stabs -> fst (combine_row n sel stabs) = id_str n -> sel = repeat false (length stabs)) ->
  rk t = (n - length stabs)%nat /\ firstn (length stabs) (skipn (rk t) (rows t)) = stabs.
Proof. exact stabilizer_state_rows. Qed.
Print Assumptions C12_stabilizer_state_rows.
Theorem C12_stabilizer_state_valid : forall n stabs t, Forall (fun a => length (fst a) = n /\ hermP a) stabs ->
  stabilizer_state n stabs = Some t -> tableau_ok n t.
Proof. exact stabilizer_state_ok. Qed.
Print Assumptions C12_stabilizer_state_valid.
(* ... and an error when two of them anticommute *)
Theorem C12_stabilizer_state_rejects_anticommuting : forall n stabs,
  (exists a b, In a stabs /\ In b stabs /\ acq (fst a) (fst b) = 1) -> stabilizer_state n stabs = None.
Proof. exact stabilizer_state_rejects. Qed.
Print Assumptions C12_stabilizer_state_rejects_anticommuting.
(* the same for the projection exactly as the code runs it (stabilizer_project works on the string array only: every row position keeps its phase) *)
Theorem C12_stabilizer_state_code_rows : forall n stabs t, Forall (fun a => length (fst a) = n /\ hermP a) stabs ->
  (length stabs <= n)%nat -> stabilizer_state_c n stabs = Some t ->
  (forall sel, length sel = length stabs -> fst (combine_row n sel stabs) = id_str n -> sel = repeat false (length stabs)) ->
  rk t = (n - length stabs)%nat /\ firstn (length stabs) (skipn (rk t) (rows t)) = stabs.
Proof. exact stabilizer_state_c_rows. Qed.
Print Assumptions C12_stabilizer_state_code_rows.
Theorem C12_stabilizer_state_code_valid : forall n stabs t, Forall (fun a => length (fst a) = n /\ hermP a) stabs ->
  stabilizer_state_c n stabs = Some t -> tableau_ok n t.
Proof. exact stabilizer_state_c_ok. Qed.
Print Assumptions C12_stabilizer_state_code_valid.
Theorem C12_stabilizer_state_code_rejects : forall n stabs,
  (exists a b, In a stabs /\ In b stabs /\ acq (fst a) (fst b) = 1) -> stabilizer_state_c n stabs = None.
Proof. exact stabilizer_state_c_rejects. Qed.
Print Assumptions C12_stabilizer_state_code_rejects.
(* GHZ: the documented generator list Z_i Z_{i+1}, X...X; decidable checks for N = 2,3,4 *)
Example C12_ghz_3 :
  match stabilizer_state 3 [([(false,true);(false,true);(false,false)],0); ([(false,false);(false,true);(false,true)],0); ([(true,false);(true,false);(true,false)],0)] with
  | Some t => tableau_ok_b t = true /\ rk t = 0%nat /\
              stabilizers t = [([(false,true);(false,true);(false,false)],0); ([(false,false);(false,true);(false,true)],0); ([(true,false);(true,false);(true,false)],0)]
  | None => False end.
Proof. vm_compute. repeat split; reflexivity. Qed.
(* GHZ for EVERY N >= 1: the constructor's list Z_i Z_{i+1} (i < N-1), X...X is accepted, gives a pure valid state whose stabilizer rows are exactly that list,
   with the GHZ correlations <Z_i Z_{i+1}> = <X...X> = +1 *)
Theorem C12_ghz_all_N : forall n, (1 <= n)%nat -> exists t, stabilizer_state_c n (ghz_stabs n) = Some t /\ tableau_ok n t /\ rk t = 0%nat /\ stabilizers t = ghz_stabs n.
Proof. exact ghz_state_general. Qed.
Print Assumptions C12_ghz_all_N.
Theorem C12_ghz_correlations : forall n t i, (1 <= n)%nat -> stabilizer_state_c n (ghz_stabs n) = Some t -> (S i < n)%nat ->
  expect1 t (zz_str n i, 0%Z) = 1%Z /\ expect1 t (xall_str n, 0%Z) = 1%Z.
Proof. exact ghz_expectations. Qed.
Print Assumptions C12_ghz_correlations.
(* THE DENSE EXPORT.  to_qutip multiplies the projectors (1+S_a)/2 of the active stabilizer rows and divides by 2^r: that product IS 2^r times the density matrix
   (the 2^-N-weighted sum over the stabilizer group), entry by entry in the ket semantics; and the denoted matrix is Hermitian, of trace one, positive (C05) *)
Theorem C12_projector_product_is_the_density_matrix : forall n s k k', tableau_ok n s -> length k = n ->
  amp (proj_prod n (stabilizers s)) k k' = cmul (two_pow (rk s)) (amp (density_poly s) k k').
Proof. exact proj_prod_density. Qed.
Print Assumptions C12_projector_product_is_the_density_matrix.
Theorem C12_density_matrix_trace_one : forall n t, tableau_ok n t -> trace_sem n (density_poly t) = c1.
Proof. exact trace_rho_one. Qed.
Print Assumptions C12_density_matrix_trace_one.

(* THE CONSTRUCTORS DENOTE THE DENSITY MATRICES THEIR NAMES SAY, entry by entry in the ket semantics.
   random_bit_state(N) = the zero-state strings with 2N random phases from {0,2}: a computational-basis state |b><b| with b read off the first N phases, whatever the
   destabilizer signs; zero_state = |0..0><0..0|; one_state = |1..1><1..1|; maximally_mixed_state = 2^-N identity *)
Theorem C12_bit_state_valid : forall n bits dsigns, length bits = n -> length dsigns = n -> tableau_ok n (bit_state n bits dsigns).
Proof. exact bit_state_ok. Qed.
Print Assumptions C12_bit_state_valid.
Theorem C12_bit_state_is_the_basis_projector : forall n bits dsigns k k', length bits = n -> length dsigns = n -> length k = n -> length k' = n ->
  amp (density_poly (bit_state n bits dsigns)) k k' = if ket_eqb k bits && ket_eqb k' bits then c1 else c0.
Proof. exact bit_state_density. Qed.
Print Assumptions C12_bit_state_is_the_basis_projector.
Theorem C12_zero_state_is_the_all_zero_projector : forall n k k', length k = n -> length k' = n ->
  amp (density_poly (zero_state n)) k k' = if ket_eqb k (repeat false n) && ket_eqb k' (repeat false n) then c1 else c0.
Proof. exact zero_state_density. Qed.
Print Assumptions C12_zero_state_is_the_all_zero_projector.
Theorem C12_one_state_is_the_all_one_projector : forall n k k', length k = n -> length k' = n ->
  amp (density_poly {| rows := map (fun a => (fst a, 2)) (rows (zero_state n)); rk := 0 |}) k k' = if ket_eqb k (repeat true n) && ket_eqb k' (repeat true n) then c1 else c0.
Proof. exact one_state_density. Qed.
Print Assumptions C12_one_state_is_the_all_one_projector.
Theorem C12_maximally_mixed_state_is_the_scaled_identity : forall n k k', length k = n -> length k' = n ->
  amp (density_poly (mixed_state n)) k k' = if ket_eqb k k' then half_pow n else c0.
Proof. exact mixed_state_density. Qed.
Print Assumptions C12_maximally_mixed_state_is_the_scaled_identity.
(* random_pauli_state: the state of a tensor product of one-qubit maps has single-site stabilizers, and a pure valid state with single-site stabilizers has entropy 0
   on EVERY region (as the code computes it and by the reference formula): it is a product state *)
Theorem C12_random_pauli_state_has_single_site_stabilizers : forall pairs phases,
  Forall (fun p : pstr * pstr => length (fst p) = 1%nat /\ length (snd p) = 1%nat) pairs ->
  Forall (fun a : pauli => weight (fst a) <= 1) (stabilizers (to_state (combine (random_pauli_from pairs) phases) 0)).
Proof. exact random_pauli_state_is_product. Qed.
Print Assumptions C12_random_pauli_state_has_single_site_stabilizers.
Theorem C12_single_site_stabilizers_mean_product_state : forall n t m, tableau_ok n t -> rk t = 0%nat -> length m = n ->
  Forall (fun a : pauli => (weight (fst a) <= 1)) (stabilizers t) -> entropy t m = 0 /\ entropy_of n (map fst (stabilizers t)) m = 0.
Proof. exact product_state_entropy_code_zero. Qed.
Print Assumptions C12_single_site_stabilizers_mean_product_state.
