(* Props/C04.v -- Clifford maps form a group under compose and inverse.  Property theorems only.
   compose a b = "a first, then b" = the rows of a transformed by b.  inverse = GF(2) Gauss-Jordan inverse of the bit table (z2inv, as implemented, with
   its partial-row operations) plus the phase-mismatch correction.  Operands are values here; "returns new maps and leaves operands unchanged" is C17. *)
From PC Require Import Proofs.Z2Facts.
From PC Require Import Model.Base Model.Pauli Model.Z2 Model.CMap Model.Spec Proofs.Transform Proofs.InverseFacts.

Theorem C04_compose_acts_first_then_second : forall n A B a, valid_map n A -> valid_map n B -> length (fst a) = n ->
  transform1 (compose A B) a = transform1 B (transform1 A a).
Proof. exact transform_compose. Qed.
Print Assumptions C04_compose_acts_first_then_second.
Theorem C04_compose_closed : forall n A B, valid_map n A -> valid_map n B -> valid_map n (compose A B).
Proof. exact compose_valid. Qed.
Print Assumptions C04_compose_closed.
Theorem C04_compose_associative : forall n A B C, valid_map n A -> valid_map n B -> valid_map n C ->
  compose (compose A B) C = compose A (compose B C).
Proof. exact compose_assoc. Qed.
Print Assumptions C04_compose_associative.
Theorem C04_identity_valid : forall n, valid_map n (identity_map n).
Proof. exact identity_valid. Qed.
Print Assumptions C04_identity_valid.
Theorem C04_identity_neutral_left : forall n A, valid_map n A -> compose (identity_map n) A = A.
Proof. exact compose_id_l. Qed.
Print Assumptions C04_identity_neutral_left.
Theorem C04_identity_neutral_right : forall n A, valid_map n A -> compose A (identity_map n) = A.
Proof. exact compose_id_r. Qed.
Print Assumptions C04_identity_neutral_right.

(* the inverse of any valid map exists, is valid, and composes with it to the identity on BOTH sides *)
Theorem C04_inverse_exists : forall n m, valid_map n m -> exists m', inverse m = Some m'.
Proof. exact inverse_exists. Qed.
Print Assumptions C04_inverse_exists.
Theorem C04_inverse_valid : forall n m m', valid_map n m -> inverse m = Some m' -> valid_map n m'.
Proof. exact inverse_valid. Qed.
Print Assumptions C04_inverse_valid.
Theorem C04_inverse_left : forall n m m', valid_map n m -> inverse m = Some m' -> compose m' m = identity_map n.
Proof. exact inverse_left. Qed.
Print Assumptions C04_inverse_left.
Theorem C04_inverse_right : forall n m m', valid_map n m -> inverse m = Some m' -> compose m m' = identity_map n.
Proof. exact inverse_right. Qed.
Print Assumptions C04_inverse_right.
Theorem C04_inverse_of_composition : forall n A B A' B', valid_map n A -> valid_map n B -> inverse A = Some A' -> inverse B = Some B' ->
  inverse (compose A B) = Some (compose B' A').
Proof. exact inverse_compose. Qed.
Print Assumptions C04_inverse_of_composition.
Theorem C04_inverse_involutive : forall n m m', valid_map n m -> inverse m = Some m' -> inverse m' = Some m.
Proof. exact inverse_involutive. Qed.
Print Assumptions C04_inverse_involutive.
Theorem C04_inverse_cancels_action : forall n m m' a, valid_map n m -> inverse m = Some m' -> wf n a ->
  transform1 m' (transform1 m a) = a /\ transform1 m (transform1 m' a) = a.
Proof. exact transform_inverse_cancel. Qed.
Print Assumptions C04_inverse_cancels_action.
Theorem C04_transform_injective : forall n m a b, valid_map n m -> wf n a -> wf n b -> transform1 m a = transform1 m b -> a = b.
Proof. exact transform_injective. Qed.
Print Assumptions C04_transform_injective.

(* the GF(2) kernel itself (utils.z2inv as written): two-sided inverse when it returns, and it returns for every invertible matrix *)
Theorem C04_z2inv_left : forall n a b, square n a -> z2inv a = Some b -> bmul b a = bident n.
Proof. exact z2inv_left. Qed.
Print Assumptions C04_z2inv_left.
Theorem C04_z2inv_right : forall n a b, square n a -> z2inv a = Some b -> bmul a b = bident n.
Proof. exact z2inv_right. Qed.
Print Assumptions C04_z2inv_right.
Theorem C04_z2inv_rejects_only_singular : forall n a c, square n a -> square n c -> bmul c a = bident n -> exists b, z2inv a = Some b.
Proof. exact z2inv_complete. Qed.
Print Assumptions C04_z2inv_rejects_only_singular.

(* non-vacuity: the CNOT table is a valid map whose inverse is itself *)
Example C04_example :
  let cnot := [([(true,false);(true,false)],0); ([(false,true);(false,false)],0); ([(false,false);(true,false)],0); ([(false,true);(false,true)],0)] in
  valid_map_b cnot = true /\ inverse cnot = Some cnot.
Proof. vm_compute. split; reflexivity. Qed.
