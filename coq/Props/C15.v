(* Props/C15.v -- Pauli polynomial arithmetic is a faithful operator algebra.  Property theorems only.
   Denotation: amp p k k' = <k'| P |k> for P = sum_t c_t i^(p_t) sigma[g_t], the linear extension of the ket action of Model/Ket.v (Model/PolySem.v),
   over EXACT Gaussian rationals.  PARTIAL with respect to floating point: IEEE rounding of complex128/complex64 is not modelled; the correspondence
   check uses dyadic coefficients on which the arithmetic is exact.  to_qutip is compared numerically (QuTiP trusted).
   KNOWN FINDING (open, see known_findings.json F7): trace() as implemented ignores the phase of identity terms; C15_trace_refuted exhibits it,
   C15_trace_impl_correct_after_reduce states where the implemented trace IS the matrix trace. *)
From Coq Require Import QArith Qcanon.
From PC Require Import Model.Base Model.Pauli Model.Ket Model.Poly Model.PolySem Proofs.PolyFacts.

(* sums, scalar multiples, negation denote the matrix operations *)
Theorem C15_sum_is_matrix_sum : forall p q k k', amp (p ++ q) k k' = cadd (amp p k k') (amp q k k').
Proof. exact amp_app. Qed.
Print Assumptions C15_sum_is_matrix_sum.
Theorem C15_scalar_multiple : forall c p k k', amp (pscal c p) k k' = cmul c (amp p k k').
Proof. exact amp_pscal. Qed.
Print Assumptions C15_scalar_multiple.
Theorem C15_negation : forall p k k', amp (map (fun t => (cneg (fst t), snd t)) p) k k' = cneg (amp p k k').
Proof. exact amp_neg. Qed.
Print Assumptions C15_negation.
(* products (batch_dot) denote the matrix product *)
Theorem C15_product_is_matrix_product : forall n p q k k', well_sized n p -> well_sized n q -> length k = n ->
  amp (pmulp p q) k k' = amp_after p q k k'.
Proof. exact amp_pmulp. Qed.
Print Assumptions C15_product_is_matrix_product.
(* adding a plain number adds that multiple of the identity *)
Theorem C15_identity_polynomial : forall n k k', length k = n -> amp (ident_poly n) k k' = if ket_eqb k k' then c1 else c0.
Proof. exact amp_ident. Qed.
Print Assumptions C15_identity_polynomial.
(* the dunder operations on Pauli / monomial / polynomial / list / number objects, with their isinstance dispatch *)
Theorem C15_neg_objects : forall n o p, den n o = Some p -> exists q, den n (o_neg o) = Some q /\ forall k k', amp q k k' = cneg (amp p k k').
Proof. exact o_neg_den. Qed.
Print Assumptions C15_neg_objects.
Theorem C15_rmul_objects : forall n c o p, den n o = Some p -> o_rmul c o <> OErr ->
  exists q, den n (o_rmul c o) = Some q /\ forall k k', length k = n -> amp q k k' = cmul c (amp p k k').
Proof. exact o_rmul_den. Qed.
Print Assumptions C15_rmul_objects.
Theorem C15_matmul_objects : forall n x y p q, den n x = Some p -> den n y = Some q -> well_sized n p -> well_sized n q -> o_matmul x y <> OErr ->
  exists r, den n (o_matmul x y) = Some r /\ forall k k', length k = n -> amp r k k' = amp_after p q k k'.
Proof. exact o_matmul_den. Qed.
Print Assumptions C15_matmul_objects.
Theorem C15_add_objects : forall tol2 n x y p q,
  den n x = Some p -> den n y = Some q -> osize_ok n x -> osize_ok n y -> o_add tol2 x y <> OErr ->
  exists r d, den n (o_add tol2 x y) = Some r /\
              (forall gc, In gc d -> (cnorm2 (snd gc) <= tol2)%Qc) /\
              forall k k', cadd (amp p k k') (amp q k k')
                           = cadd (amp r k k') (amp (map (fun gc => (snd gc, (fst gc, 0))) d) k k').
Proof. exact o_add_den. Qed.
Print Assumptions C15_add_objects.
(* reduction merges equal strings, moves phases into coefficients, and drops only terms below the tolerance *)
Theorem C15_reduce_merges_exactly : forall p k k', amp (reduce 0%Qc p) k k' = amp p k k'.
Proof. exact reduce_exact. Qed.
Print Assumptions C15_reduce_merges_exactly.
Theorem C15_reduce_changes_by_dropped_terms_only : forall tol2 p k k',
  amp p k k' = cadd (amp (reduce tol2 p) k k')
                    (amp (map (fun gc => (snd gc, (fst gc, 0))) (filter (fun gc => negb (keep tol2 (snd gc))) (aggregate p))) k k').
Proof. exact reduce_split. Qed.
Print Assumptions C15_reduce_changes_by_dropped_terms_only.
Theorem C15_dropped_terms_below_tolerance : forall tol2 p gc,
  In gc (filter (fun gc => negb (keep tol2 (snd gc))) (aggregate p)) -> (cnorm2 (snd gc) <= tol2)%Qc.
Proof. exact reduce_dropped_small. Qed.
Print Assumptions C15_dropped_terms_below_tolerance.
Theorem C15_reduced_strings_distinct : forall p, NoDup (map (fun gc => flat (fst gc)) (aggregate p)).
Proof. exact aggregate_sorted_distinct. Qed.
Print Assumptions C15_reduced_strings_distinct.
Theorem C15_reduced_phases_in_coefficients : forall tol2 p t, In t (reduce tol2 p) -> snd (snd t) = 0.
Proof. exact reduce_phases_zero. Qed.
Print Assumptions C15_reduced_phases_in_coefficients.
(* traces: the phase-aware trace is the matrix trace; the implemented one agrees when all phases vanish (in particular after reduce) *)
Theorem C15_trace_is_matrix_trace : forall n p, well_sized n p -> trace_true (OPoly n p) = Some (trace_sem n p).
Proof. exact trace_true_sem. Qed.
Print Assumptions C15_trace_is_matrix_trace.
Theorem C15_trace_impl_correct_without_phases : forall n p, Forall (fun t : term => snd (snd t) mod 4 = 0) p ->
  trace_impl (OPoly n p) = trace_true (OPoly n p).
Proof. exact trace_impl_phase0. Qed.
Print Assumptions C15_trace_impl_correct_without_phases.
Theorem C15_trace_impl_correct_after_reduce : forall tol2 n p, well_sized n (reduce tol2 p) ->
  trace_impl (o_reduce tol2 (OPoly n p)) = Some (trace_sem n (reduce tol2 p)).
Proof. exact trace_impl_reduce. Qed.
Print Assumptions C15_trace_impl_correct_after_reduce.
(* the full statement "trace() is the matrix trace of every object" is FALSE of the faithful model: -II has trace -4, the code returns 4 *)
Theorem C15_trace_refuted : exists o, trace_impl o <> trace_true o.
Proof. exists (OPauli ([(false,false);(false,false)], 2)). vm_compute. intro H. discriminate H. Qed.
Print Assumptions C15_trace_refuted.
(* Clifford rotations and maps act linearly: term by term, coefficients untouched *)
Theorem C15_rotation_linear : forall gen m p, map fst (poly_rotate gen m p) = map fst p /\ map snd (poly_rotate gen m p) = rotate_by gen m (map snd p).
Proof. exact poly_rotate_terms. Qed.
Print Assumptions C15_rotation_linear.
Theorem C15_map_linear : forall mp m p, map fst (poly_transform mp m p) = map fst p /\ map snd (poly_transform mp m p) = transform_by mp m (map snd p).
Proof. exact poly_transform_terms. Qed.
Print Assumptions C15_map_linear.
