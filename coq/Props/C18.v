(* Props/C18.v -- diagonalize and SBRG return circuits that really diagonalize.  Property theorems only.
   Proved for all N: the generators returned by pauli_diagonalize1 (at most two), applied in order as Clifford rotations, map every non-identity string to Z on the
   requested qubit; they never touch a qubit where the string is trivial (other than the target) -- which is the causal-mode claim when the kernel is run on the suffix
   starting at i0; pauli_diagonalize2 maps an anticommuting pair to (Z, X or Y) on the target qubit.  Signs: a rotation of a Hermitian operator is Hermitian (C02), so
   the image is +Z or -Z.  The state case is C04/C10 (backward map = encoding map, forward = its inverse).  SBRG: the whole loop is modelled over exact
   Gaussian rationals (Model/Sbrg.v) and its diagonal-form, causality and commuting-exactness claims are theorems (end of this file); floating-point rounding of the
   coefficients is outside the model and bridged by the correspondence check (strings, order, circuit exactly; coefficients to 1e-9). *)
From Coq Require Import QArith Qcanon.
From PC Require Import Model.CMap Model.Tableau Proofs.DiagStateFacts.
From PC Require Import Model.Base Model.Pauli Model.Diag Model.Spec Proofs.DiagFacts Proofs.Rotate Proofs.IndexFacts Model.Circuit Proofs.CircuitFacts Proofs.DiagCircuitFacts Model.Ket Model.Poly Model.PolySem Model.Sbrg Proofs.SbrgFacts.

Theorem C18_diag1_maps_to_Z : forall g i0, (i0 < length g)%nat -> is_id_str g = false ->
  apply_gens (diagonalize1 g i0) g = z_at (length g) i0.
Proof. exact diag1_spec. Qed.
Print Assumptions C18_diag1_maps_to_Z.
Theorem C18_at_most_two_rotations : forall g i0, (length (diagonalize1 g i0) <= 2)%nat.
Proof. exact diag1_count. Qed.
Print Assumptions C18_at_most_two_rotations.
Theorem C18_generators_have_register_size : forall g i0, (i0 < length g)%nat -> Forall (fun x => length x = length g) (diagonalize1 g i0).
Proof. exact diag1_length. Qed.
Print Assumptions C18_generators_have_register_size.
(* locality / causality: a qubit other than the target on which the string is trivial is not touched by any generator *)
Theorem C18_untouched_where_trivial : forall g i0 j, (i0 < length g)%nat -> (j < length g)%nat -> j <> i0 ->
  nontrivial (sget g j) = false -> Forall (fun x => nontrivial (sget x j) = false) (diagonalize1 g i0).
Proof. exact diag1_support. Qed.
Print Assumptions C18_untouched_where_trivial.
Theorem C18_pairs_map_to_ZX : forall g1 g2 i0, (i0 < length g1)%nat -> length g2 = length g1 -> acq g1 g2 = 1 ->
  let '(gens, g1', g2') := diagonalize2 g1 g2 i0 in
  apply_gens gens g1 = g1' /\ apply_gens gens g2 = g2' /\
  g1' = z_at (length g1) i0 /\ is_onsite g2' i0 = true /\ fst (sget g2' i0) = true.
Proof. exact diag2_spec. Qed.
Print Assumptions C18_pairs_map_to_ZX.
(* signs: rotating a Hermitian operator gives a Hermitian operator, hence +Z or -Z *)
Theorem C18_image_is_plus_or_minus : forall n gen a, wf n gen -> hermP gen -> wf n a -> hermP a -> hermP (rotate1 gen a).
Proof. exact rotate_herm. Qed.
Print Assumptions C18_image_is_plus_or_minus.
(* the signless rotation used by the kernel is the string part of the signed rotation *)
Theorem C18_signless_is_string_part : forall g a p q, fst (rotate1 (g, p) (a, q)) = rotate1_signless g a.
Proof. exact rotate1_signless_fst. Qed.
Print Assumptions C18_signless_is_string_part.
(* the CIRCUIT returned by diagonalize(Pauli): layered rotation gates on the condensed supports *)
Theorem C18_circuit_maps_to_plus_or_minus_Z : forall n g p i0, length g = n -> (i0 < n)%nat -> is_id_str g = false -> (p = 0 \/ p = 2) ->
  exists p', (p' = 0 \/ p' = 2) /\
  circuit_forward n (only_layers (circ_build (map IGate (diagonalize_pauli g i0 false)))) [(g, p)] = Some [(z_at n i0, p')].
Proof. exact diagonalize_pauli_circuit. Qed.
Print Assumptions C18_circuit_maps_to_plus_or_minus_Z.
Theorem C18_causal_circuit_acts_on_later_qubits_only : forall g i0, (i0 < length g)%nat ->
  Forall (fun gt => Forall (fun q => (i0 <= q)%nat) (gq gt)) (diagonalize_pauli g i0 true).
Proof. exact diagonalize_pauli_causal_qubits. Qed.
Print Assumptions C18_causal_circuit_acts_on_later_qubits_only.
Theorem C18_causal_circuit_maps_suffix_to_Z : forall n g p i0, length g = n -> (i0 < n)%nat -> is_id_str (skipn i0 g) = false -> (p = 0 \/ p = 2) ->
  exists p', (p' = 0 \/ p' = 2) /\
  circuit_forward n (only_layers (circ_build (map IGate (diagonalize_pauli g i0 true)))) [(g, p)] = Some [(firstn i0 g ++ z_at (n - i0) 0, p')].
Proof. exact diagonalize_pauli_causal_circuit. Qed.
Print Assumptions C18_causal_circuit_maps_suffix_to_Z.
Theorem C18_rotation_gate_is_the_rotation : forall n gen a, length (fst gen) = n -> wf n a ->
  gate_forward n (rotation_gate gen None) [a] = Some [rotate1 gen a].
Proof. exact rotation_gate_acts_gen. Qed.
Print Assumptions C18_rotation_gate_is_the_rotation.
(* SBRG, the whole loop (Model/Sbrg.v mirrors pyclifford.circuit.SBRG over exact Gaussian rationals; tied to the code by the correspondence check, floats apart):
   for EVERY Hamiltonian, every N and every tolerance the effective Hamiltonian contains only I/Z strings; the circuit consists of proper gates, the gates of step i0 acting
   on qubits >= i0 only; and for a Hamiltonian of mutually commuting terms (zero tolerances: exact arithmetic) no perturbative term is ever generated and the effective
   Hamiltonian IS the input conjugated by the returned circuit, as matrices -- hence the same spectrum *)
Theorem C18_sbrg_effective_hamiltonian_is_diagonal : forall n tol2 dtol2 h, well_sized n h -> Forall (fun t => 0 <= snd (snd t) < 4) h ->
  Forall (fun t => diagonal (fst (snd t))) (fst (sbrg n tol2 dtol2 h)).
Proof. exact sbrg_heff_diagonal. Qed.
Print Assumptions C18_sbrg_effective_hamiltonian_is_diagonal.
Theorem C18_sbrg_circuit_is_causal : forall n tol2 dtol2 h, well_sized n h -> Forall (fun t => 0 <= snd (snd t) < 4) h ->
  exists blocks, snd (sbrg n tol2 dtol2 h) = concat blocks /\ causal_blocks n 0 blocks.
Proof. exact sbrg_gates_causal. Qed.
Print Assumptions C18_sbrg_circuit_is_causal.
Theorem C18_sbrg_exact_on_commuting_hamiltonians : forall n h k k', (0 < n)%nat -> well_sized n h -> Forall (fun t => 0 <= snd (snd t) < 4) h ->
  (forall s t, In s h -> In t h -> acq (fst (snd s)) (fst (snd t)) = 0) -> length k = n ->
  amp (fst (sbrg n 0%Qc 0%Qc h)) k k' = amp (fold_left (fun p g => poly_gate_forward n g p) (snd (sbrg n 0%Qc 0%Qc h)) h) k k'.
Proof. exact sbrg_commuting_exact. Qed.
Print Assumptions C18_sbrg_exact_on_commuting_hamiltonians.
(* the loop as it was BEFORE the repair e14aace (kept in the model as sbrg_old) does not have the first property: Z + 2^-20 X and 2Z + X + iY come back unchanged *)
Theorem C18_sbrg_before_repair_refuted :
  (well_sized 1 cex_small /\ Forall (fun t => 0 <= snd (snd t) < 4) cex_small /\
   ~ Forall (fun t => diagonal (fst (snd t))) (fst (sbrg_old 1 cex_tol2 cex_dtol2 cex_small))) /\
  (well_sized 1 cex_nilpotent /\ Forall (fun t => 0 <= snd (snd t) < 4) cex_nilpotent /\
   ~ Forall (fun t => diagonal (fst (snd t))) (fst (sbrg_old 1 0%Qc 0%Qc cex_nilpotent))).
Proof. exact sbrg_old_heff_not_always_diagonal. Qed.
Print Assumptions C18_sbrg_before_repair_refuted.

(* THE STATE CASE.  diagonalize(state) returns one gate on all N qubits whose BACKWARD map is to_map(state); forward runs through its inverse.  For every pure valid state:
   the inverse exists; forward sends the rows of the state to the rows of |0...0>, signs included; backward sends the rows of |0...0> back to the rows of the state *)
Theorem C18_state_circuit_inverse_exists : forall n t, tableau_ok n t -> exists mi, inverse (to_map t) = Some mi.
Proof. exact diag_state_inverse_some. Qed.
Print Assumptions C18_state_circuit_inverse_exists.
Theorem C18_state_circuit_forward_gives_zero_state : forall n t mi, tableau_ok n t -> rk t = 0%nat ->
  inverse (to_map t) = Some mi ->
  pauli_transform mi (rows t) = rows (zero_state n).
Proof. exact diag_state_forward_to_zero. Qed.
Print Assumptions C18_state_circuit_forward_gives_zero_state.
Theorem C18_state_circuit_backward_reencodes : forall n t, tableau_ok n t -> rk t = 0%nat ->
  pauli_transform (to_map t) (rows (zero_state n)) = rows t.
Proof. exact diag_state_backward_reencodes. Qed.
Print Assumptions C18_state_circuit_backward_reencodes.
Theorem C18_state_circuit_roundtrip : forall n t, tableau_ok n t -> rk t = 0%nat ->
  exists mi, inverse (to_map t) = Some mi /\
  {| rows := pauli_transform mi (rows t); rk := rk t |} = zero_state n /\
  {| rows := pauli_transform (to_map t) (rows (zero_state n)); rk := 0 |} = t.
Proof. exact diag_state_roundtrip_ex. Qed.
Print Assumptions C18_state_circuit_roundtrip.
