(* Extraction of the executable model (ExtrOcamlBasic only: bool, list, prod, option, unit,
   sumbool, sumor mapped to OCaml's; Z, positive, nat, string, ascii stay Coq inductives). *)
From Coq Require Import Extraction ExtrOcamlBasic.
From PC Require Import Model.Dispatch.
Extraction Language OCaml.
Extraction "model.ml" run.
