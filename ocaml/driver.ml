(* Line-protocol driver for the extracted model.
   input : one case per line   <name> <value>*      (the model receives the list of values)
   value : integer | [ value* ] | E<integer>          (whitespace separated inside brackets)
   output: one value per line in the same syntax.  Hand-written, trusted (see DESIGN.md 6). *)
module M = Model
open M
module String = Stdlib.String

(* integers cross the boundary as decimal strings of ANY size: exact rationals produced by the model (products of dyadic coefficients, tolerances squared)
   do not fit OCaml's 63-bit int.  Little-endian base 10^9 digit lists; conversion to / from Coq's binary positive by repeated halving / doubling. *)
let base = 1_000_000_000
let big_of_string (s : Stdlib.String.t) : int list =          (* decimal digits, no sign *)
  let n = String.length s in
  let rec chunks hi acc = if hi <= 0 then List.rev acc else
    let lo = max 0 (hi - 9) in chunks lo (int_of_string (String.sub s lo (hi - lo)) :: acc) in
  chunks n []
let big_is_zero b = List.for_all (fun d -> d = 0) b
let big_half (b : int list) : int list * int =                   (* b / 2, b mod 2 *)
  let r = List.rev b in
  let carry = ref 0 in
  let q = List.map (fun d -> let v = !carry * base + d in carry := v land 1; v lsr 1) r in
  (List.rev q, !carry)
let rec pos_of_big b = let (q, r) = big_half b in
  if big_is_zero q then XH else if r = 0 then XO (pos_of_big q) else XI (pos_of_big q)
let big_double (b : int list) (bit : int) : int list =
  let carry = ref bit in
  let l = List.map (fun d -> let v = 2 * d + !carry in carry := v / base; v mod base) b in
  if !carry > 0 then l @ [!carry] else l
let rec big_of_pos = function XH -> [1] | XO p -> big_double (big_of_pos p) 0 | XI p -> big_double (big_of_pos p) 1
let big_to_string (b : int list) : Stdlib.String.t =
  match List.rev b with
  | [] -> "0"
  | top :: rest -> String.concat "" (string_of_int top :: List.map (fun d -> Printf.sprintf "%09d" d) rest)
let z_of_string (s : Stdlib.String.t) =
  let neg = String.length s > 0 && s.[0] = '-' in
  let body = if neg then String.sub s 1 (String.length s - 1) else s in
  if body = "" then failwith "empty number" else
  let b = big_of_string body in
  if big_is_zero b then Z0 else if neg then Zneg (pos_of_big b) else Zpos (pos_of_big b)
let string_of_z = function Z0 -> "0" | Zpos p -> big_to_string (big_of_pos p) | Zneg p -> "-" ^ big_to_string (big_of_pos p)
let z_of_int n = z_of_string (string_of_int n)

let coq_string (s : Stdlib.String.t) : M.string =
  let r = ref EmptyString in
  for i = String.length s - 1 downto 0 do
    let c = Char.code s.[i] in
    let b k = (c lsr k) land 1 = 1 in
    r := M.String (Ascii (b 0, b 1, b 2, b 3, b 4, b 5, b 6, b 7), !r)
  done; !r

(* parser *)
let parse (s : Stdlib.String.t) (start : int) : val0 =
  let n = String.length s in
  let i = ref start in
  let skip () = while !i < n && (s.[!i] = ' ' || s.[!i] = '\t') do incr i done in
  let rec value () =
    skip ();
    if !i >= n then failwith "eof"
    else if s.[!i] = '[' then begin
      incr i;
      let acc = ref [] in
      let fin = ref false in
      while not !fin do
        skip ();
        if !i >= n then failwith "unterminated"
        else if s.[!i] = ']' then (incr i; fin := true)
        else acc := value () :: !acc
      done;
      VL (List.rev !acc) end
    else begin
      let err = (s.[!i] = 'E') in
      if err then incr i;
      let j = !i in
      if !i < n && s.[!i] = '-' then incr i;
      while !i < n && s.[!i] >= '0' && s.[!i] <= '9' do incr i done;
      let v = z_of_string (String.sub s j (!i - j)) in
      if err then VE v else VZ v end
  in
  let acc = ref [] in
  skip ();
  while !i < n do acc := value () :: !acc; skip () done;
  VL (List.rev !acc)

let rec print buf = function
  | VZ z -> Buffer.add_string buf (string_of_z z)
  | VE z -> Buffer.add_char buf 'E'; Buffer.add_string buf (string_of_z z)
  | VL l -> Buffer.add_char buf '[';
            List.iteri (fun k v -> if k > 0 then Buffer.add_char buf ' '; print buf v) l;
            Buffer.add_char buf ']'

let () =
  let buf = Buffer.create 65536 in
  (try
    while true do
      let line = input_line stdin in
      let sp = try String.index line ' ' with Not_found -> String.length line in
      let name = String.sub line 0 sp in
      let out =
        (try
           let v = if sp >= String.length line then VL [] else parse line sp in
           run (coq_string name) v
         with Failure _ | Invalid_argument _ -> VE (z_of_int 98)) in
      Buffer.clear buf; print buf out; Buffer.add_char buf '\n';
      print_string (Buffer.contents buf); flush stdout
    done
  with End_of_file -> ());
  flush stdout
