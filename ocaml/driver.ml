(* Line-protocol driver for the extracted model.
   input : one case per line   <name> <value>*      (the model receives the list of values)
   value : integer | [ value* ] | E<integer>          (whitespace separated inside brackets)
   output: one value per line in the same syntax.  Hand-written, trusted (see DESIGN.md 6). *)
module M = Model
open M
module String = Stdlib.String

let rec pos_of_int n = if n = 1 then XH else if n land 1 = 0 then XO (pos_of_int (n lsr 1)) else XI (pos_of_int (n lsr 1))
let z_of_int n = if n = 0 then Z0 else if n > 0 then Zpos (pos_of_int n) else Zneg (pos_of_int (-n))
let rec int_of_pos = function XH -> 1 | XO p -> 2 * int_of_pos p | XI p -> 2 * int_of_pos p + 1
let int_of_z = function Z0 -> 0 | Zpos p -> int_of_pos p | Zneg p -> - (int_of_pos p)

let coq_string (s : Stdlib.String.t) : M.string =
  let r = ref EmptyString in
  for i = String.length s - 1 downto 0 do
    let c = Char.code s.[i] in
    let b k = (c lsr k) land 1 = 1 in
    r := M.String (Ascii (b 0, b 1, b 2, b 3, b 4, b 5, b 6, b 7), !r)
  done; !r

(* parser *)
let parse (s : Stdlib.String.t) (start : int) : val0 =
  let n = String.length s in
  let i = ref start in
  let skip () = while !i < n && (s.[!i] = ' ' || s.[!i] = '\t') do incr i done in
  let rec value () =
    skip ();
    if !i >= n then failwith "eof"
    else if s.[!i] = '[' then begin
      incr i;
      let acc = ref [] in
      let fin = ref false in
      while not !fin do
        skip ();
        if !i >= n then failwith "unterminated"
        else if s.[!i] = ']' then (incr i; fin := true)
        else acc := value () :: !acc
      done;
      VL (List.rev !acc) end
    else begin
      let err = (s.[!i] = 'E') in
      if err then incr i;
      let j = !i in
      if !i < n && s.[!i] = '-' then incr i;
      while !i < n && s.[!i] >= '0' && s.[!i] <= '9' do incr i done;
      let v = int_of_string (String.sub s j (!i - j)) in
      if err then VE (z_of_int v) else VZ (z_of_int v) end
  in
  let acc = ref [] in
  skip ();
  while !i < n do acc := value () :: !acc; skip () done;
  VL (List.rev !acc)

let rec print buf = function
  | VZ z -> Buffer.add_string buf (string_of_int (int_of_z z))
  | VE z -> Buffer.add_char buf 'E'; Buffer.add_string buf (string_of_int (int_of_z z))
  | VL l -> Buffer.add_char buf '[';
            List.iteri (fun k v -> if k > 0 then Buffer.add_char buf ' '; print buf v) l;
            Buffer.add_char buf ']'

let () =
  let buf = Buffer.create 65536 in
  (try
    while true do
      let line = input_line stdin in
      let sp = try String.index line ' ' with Not_found -> String.length line in
      let name = String.sub line 0 sp in
      let out =
        (try
           let v = if sp >= String.length line then VL [] else parse line sp in
           run (coq_string name) v
         with Failure _ | Invalid_argument _ -> VE (z_of_int 98)) in
      Buffer.clear buf; print buf out; Buffer.add_char buf '\n';
      print_string (Buffer.contents buf); flush stdout
    done
  with End_of_file -> ());
  flush stdout
